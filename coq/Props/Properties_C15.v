(* C15 - Metadata merge is distribution-independent; conflicts are refused cleanly.
   Only statements here; proofs are in Proofs/MetaProofs.v.  The model ([build], and
   [Unfixed.build] for the code without patches/fix-c15-load-cpus.diff) and the Spec
   ([same_union], [contradictory], [rank_names_proc]) are in Emu/MetaDefs.v.  [build]
   takes the streams in enumeration order and returns the sorted looms / processes /
   threads / CPUs; rows are [thread_rows] and [cpu_rows] of that. *)
From Coq Require Import ZArith List Permutation Lia.
From OV Require Import Emu.MetaDefs Proofs.MetaProofs.
Import ListNotations.
Local Open Scope Z_scope.

(* Same union of metadata => same outcome: the same error, or the identical hierarchy,
   ordering and rows.  For ALL stream lists, with no side condition: since the repair
   patches/fix-c15-rank-ties.diff equal ranks are ordered by PID and equal minimum ranks by loom
   name, so both orders are total (before it the statement needed "no rank is claimed by two
   processes": C15_union_rank_ties_refuted_old). *)
Theorem C15_union : forall m1 m2, same_union m1 m2 -> build m1 = build m2.
Proof. exact build_union. Qed.
Print Assumptions C15_union.

(* in particular: any stream enumeration order ... *)
Theorem C15_union_permutation : forall m1 m2, Permutation m1 m2 -> build m1 = build m2.
Proof. exact build_perm. Qed.
Print Assumptions C15_union_permutation.

(* ... and identical row assignments *)
Theorem C15_union_rows : forall m1 m2 sys1, same_union m1 m2 -> build m1 = Ok sys1 ->
  exists sys2, build m2 = Ok sys2 /\ thread_rows sys2 = thread_rows sys1 /\ cpu_rows sys2 = cpu_rows sys1.
Proof. exact build_union_rows. Qed.
Print Assumptions C15_union_rows.

(* Every contradiction named by the property is refused: never Crash, never Ok. *)
Theorem C15_conflicts : forall m, contradictory m -> build m = Err.
Proof. exact build_conflicts. Qed.
Print Assumptions C15_conflicts.

(* No metadata whatsoever crashes the repaired code. *)
Theorem C15_no_crash : forall m, build m <> Crash.
Proof. exact build_no_crash. Qed.
Print Assumptions C15_no_crash.

(* The code as it is without the repair (MetaDefs.Unfixed, load_cpus -> loom_get_cpu before
   cpus_array exists): a contradiction crashes instead of being refused ... *)
Theorem C15_conflicts_refuted : exists m, contradictory m /\ Unfixed.build m = Crash.
Proof. exact unfixed_conflict_crashes. Qed.
Print Assumptions C15_conflicts_refuted.

(* ... and two distributions of one valid union give a crash and a system. *)
Theorem C15_union_refuted :
  exists m1 m2 sys, same_union m1 m2 /\ Unfixed.build m1 = Crash /\ Unfixed.build m2 = Ok sys.
Proof. exact unfixed_union_crashes. Qed.
Print Assumptions C15_union_refuted.

(* The code before patches/fix-c15-rank-ties.diff (MetaDefs.NoTieBreak: equal ranks compare equal): two
   processes with the same rank were ordered by stream enumeration order (stable sort on equal keys), so
   the rows were not a function of the metadata union alone.  The witness (w_tie1 / w_tie2 in
   Proofs/MetaProofs.v) is corpus/C15/05-rank-tie.json; the real ovniemu reproduced it (former finding
   rank-ties-order-dependent, now a `fixed:` line of known_findings.txt); on the repaired model the two
   enumerations give the same rows (C15_ex_rank_tie_fixed below). *)
Theorem C15_union_rank_ties_refuted_old :
  exists m1 m2 s1 s2, same_union m1 m2 /\ NoTieBreak.build m1 = Ok s1 /\ NoTieBreak.build m2 = Ok s2 /\ thread_rows s1 <> thread_rows s2.
Proof. exact union_needs_distinct_ranks_old. Qed.
Print Assumptions C15_union_rank_ties_refuted_old.

Example C15_ex_rank_tie_fixed : build w_tie1 = build w_tie2 /\ exists s, build w_tie1 = Ok s.
Proof. split; [vm_compute; reflexivity | eexists; vm_compute; reflexivity]. Qed.

(* ---- non-vacuity ---- *)
Definition nA : name := [110; 65].   (* "nA" *)
Definition nB : name := [110; 66].   (* "nB" *)
(* two looms, ranks opposite to names, CPUs of nB split over two threads in descending order,
   app id and rank of process 1000 carried by different threads *)
Definition ex1 : list stream_meta :=
  [ mkS nB 1000 1002 (Some 1) None None (Some [(1, 3)]);
    mkS nB 1000 998 None (Some 0) (Some 2) (Some [(0, 7)]);
    mkS nA 999 997 (Some 2) (Some 1) (Some 2) (Some [(0, 12); (1, 11)]) ].
(* same union: other enumeration order, attributes on other threads, CPU list in one piece *)
Definition ex2 : list stream_meta :=
  [ mkS nA 999 997 (Some 2) (Some 1) (Some 2) (Some [(1, 11); (0, 12)]);
    mkS nB 1000 998 (Some 1) None None None;
    mkS nB 1000 1002 (Some 1) (Some 0) (Some 2) (Some [(0, 7); (1, 3)]) ].

Example C15_ex_same_union : same_union ex1 ex2 /\ rank_names_proc ex1.
Proof.
  split.
  - repeat split; simpl; try tauto.
    apply perm_trans with [(nB, 1000, 998); (nB, 1000, 1002); (nA, 999, 997)]; [apply perm_swap|].
    apply perm_trans with [(nB, 1000, 998); (nA, 999, 997); (nB, 1000, 1002)]; [apply perm_skip, perm_swap | apply perm_swap].
  - intros k1 k2 r a b H1 H2. simpl in H1, H2.
    destruct H1 as [H1 | [H1 | []]]; destruct H2 as [H2 | [H2 | []]]; inversion H1; inversion H2; subst; try reflexivity; discriminate.
Qed.

(* ---- the orders are the comparators of the C source.
   Translator units cmp_meta (translate/units/_cmp.py) regenerate coq/Gen/Cmp_meta_gen.v from
   loom.c / proc.c / system.c on every run: the comparison part of by_pid, by_rank, by_phyid,
   by_tid, cmp_loom_rank, cmp_loom_id is Gallina translated from the C AST, the statements that
   fetch the compared integers are pinned as text.  The four sorts of the model ARE sorts by those
   functions: a comparator that is changed in the source breaks these proof obligations. *)
From OV Require Gen.Cmp_meta_gen Proofs.CmpMetaProofs.

Theorem C15_sort_loom_from_source : forall st l,
  sort_loom st l =
  (l,
   map (fun p => (p, app_of st (l, p),
                  isort (fun a b => Cmp_meta_gen.by_tid_core a b <=? 0) (threads_of st (l, p))))
       (isort (fun p q => if rank_enabled st l
                          then Cmp_meta_gen.by_rank_core (rank_of st (l, p)) (rank_of st (l, q)) p q <=? 0
                          else Cmp_meta_gen.by_pid_core p q <=? 0) (procs_of st l)),
   isort (fun c d => Cmp_meta_gen.by_phyid_core (snd c) (snd d) <=? 0) (cpus_of st l)).
Proof. exact CmpMetaProofs.sort_loom_from_source. Qed.
Print Assumptions C15_sort_loom_from_source.

Theorem C15_loom_order_from_source : forall st (by_rank : bool) l,
  isort (loom_le true st by_rank) l =
  isort (fun a b => if by_rank then Cmp_meta_gen.cmp_loom_rank_core (rank_min st a) (rank_min st b) a b <=? 0
                    else Cmp_meta_gen.cmp_loom_id_core a b <=? 0) l.
Proof. exact CmpMetaProofs.meta_looms_sorted_from_source. Qed.
Print Assumptions C15_loom_order_from_source.

Theorem C15_comparators_as_modelled :
  (forall a b, Cmp_meta_gen.by_pid_core a b = CmpPre.cmp3 a b) /\
  (forall a b p q, Cmp_meta_gen.by_rank_core a b p q = if a =? b then CmpPre.cmp3 p q else CmpPre.cmp3 a b) /\
  (forall a b, Cmp_meta_gen.by_phyid_core a b = CmpPre.cmp3 a b) /\
  (forall a b, Cmp_meta_gen.by_tid_core a b = CmpPre.cmp3 a b) /\
  (forall a b x y, Cmp_meta_gen.cmp_loom_rank_core a b x y = if a =? b then CmpPre.strcmp x y else CmpPre.cmp3 a b) /\
  (forall a b, (Cmp_meta_gen.cmp_loom_id_core a b <=? 0) = str_le a b).
Proof.
  exact (conj CmpMetaProofs.by_pid_core_cmp3 (conj CmpMetaProofs.by_rank_core_lex (conj CmpMetaProofs.by_phyid_core_cmp3
        (conj CmpMetaProofs.by_tid_core_cmp3 (conj CmpMetaProofs.cmp_loom_rank_core_lex CmpMetaProofs.cmp_loom_id_is_model_order))))).
Qed.
Print Assumptions C15_comparators_as_modelled.

(* looms by minimum rank (nB first), threads by TID, CPUs by phyid, vCPU last *)
Example C15_ex_rows :
  exists sys, build ex1 = Ok sys /\ build ex2 = Ok sys /\
    thread_rows sys = [(1, (nB, 1000, 998, 1)); (2, (nB, 1000, 1002, 1)); (3, (nA, 999, 997, 2))] /\
    cpu_rows sys = [(1, (0, nB, Some (1, 3))); (2, (0, nB, Some (0, 7))); (3, (0, nB, None));
                    (4, (1, nA, Some (1, 11))); (5, (1, nA, Some (0, 12))); (6, (1, nA, None))].
Proof. eexists. split; [vm_compute; reflexivity|]. repeat split; vm_compute; reflexivity. Qed.

Example C15_ex_contradictory :
  let m := [mkS nA 10 11 (Some 1) None None (Some [(0, 0)]); mkS nA 10 12 None None None (Some [(0, 1)])] in
  contradictory m /\ build m = Err /\ Unfixed.build m = Crash.
Proof.
  split; [|split; vm_compute; reflexivity].
  apply C_index_two_phyids with (l := nA) (i := 0) (p := 0) (q := 1); simpl; auto. lia.
Qed.

Example C15_ex_missing_cpu :
  let m := [mkS nA 10 11 (Some 1) None None (Some [(0, 0); (2, 2)])] in contradictory m /\ build m = Err.
Proof.
  split; [|vm_compute; reflexivity].
  apply C_missing_cpu with (l := nA) (i := 2) (p := 2) (j := 1); simpl; auto; try lia.
  intros q [H | [H | []]]; inversion H.
Qed.

(* ==== metadata gates from source (unit meta) ==== *)
(* The per-stream claims the model of C15 starts from, read by the GENERATED loom_name, proc_stream_get_pid,
   thread_stream_get_tid, load_appid, load_rank and the head / one entry of load_cpus (Gen/Meta_gen.v, unit meta) from a
   stream's tree: they are the fields of RtMetaDefs.to_stream_meta, and the generated functions refuse exactly what
   add_proc / add_thread / add_app / add_rank refuse on them, struct proc being the slice of the fact lists for its own key
   (slice_app / slice_rank).  nums_typed: app_id, rank and nranks are numbers when present (a present attribute of another
   type reads as 0 in the C and as absent in to_stream_meta: MetaGenProofs.appid_not_a_number_refused).  The find-or-insert
   half of the loop body of load_cpus (loom_find_cpu, find_cpu_by_index, calloc, loom_add_cpu) stays the hand model add_cpu. *)
From OV Require Emu.MetaPre Gen.Meta_gen Proofs.MetaGenProofs Rt.RtMetaDefs.
Theorem C15_stream_claims_from_source : forall sx fs s st,
  RtMetaDefs.to_stream_meta (RtMetaDefs.jobj fs) = Some s -> MetaGenProofs.nums_typed fs = true -> MetaPre.sm st = Some fs ->
  (Meta_gen.loom_name sx st tt = Some (s_loom s) /\
   (Meta_gen.proc_stream_get_pid sx st tt <? 0)%Z = negb (valid_proc (spkey s)) /\
   (0 <= Meta_gen.proc_stream_get_pid sx st tt -> Meta_gen.proc_stream_get_pid sx st tt = s_pid s)%Z /\
   (Meta_gen.thread_stream_get_tid sx st tt <? 0)%Z = (s_tid s <=? 0)%Z /\
   (0 <= Meta_gen.thread_stream_get_tid sx st tt -> Meta_gen.thread_stream_get_tid sx st tt = s_tid s)%Z) /\
  ((0 <= MetaPre.p_appid st)%Z ->
   MetaPre.exec (Meta_gen.load_appid tt tt) sx st =
   match part add_app app_claim (MetaGenProofs.slice_app s (MetaPre.p_appid st)) s with
   | Ok X' => MetaPre.MOk (MetaGenProofs.with_appid st (MetaGenProofs.app_of X'))
   | _ => MetaPre.MErr MetaPre.E_FAIL
   end) /\
  (MetaGenProofs.rank_inv st ->
   MetaPre.exec (Meta_gen.load_rank tt tt) sx st =
   match part add_rank rank_claim (MetaGenProofs.slice_rank s (MetaPre.p_rank st) (MetaPre.p_nranks st)) s with
   | Ok X' => MetaPre.MOk (MetaGenProofs.with_rank_of st X')
   | _ => MetaPre.MErr MetaPre.E_FAIL
   end) /\
  (Meta_gen.load_cpus_head sx st tt (Some fs) = match s_cpus s with None => 0 | Some [] => -1 | Some (_ :: _) => 1 end /\
   forall cs, s_cpus s = Some cs -> forall i e, nth_error cs i = Some e ->
     Meta_gen.load_cpus_entry sx st (MetaGenProofs.cpus_ptr sx fs st) (Z.of_nat i) = if (fst e <? 0)%Z then None else Some e)%Z.
Proof. exact MetaGenProofs.stream_claims_from_source. Qed.
Print Assumptions C15_stream_claims_from_source.

Example C15_ex_stream_claims_from_source :
  RtMetaDefs.to_stream_meta (RtMetaDefs.jobj MetaGenProofs.ex_fs) = Some (mkS [110; 48] 100 101 (Some 1) (Some 1) (Some 4) (Some [(0, 7); (1, 9)]))%Z /\
  MetaGenProofs.nums_typed MetaGenProofs.ex_fs = true /\
  MetaPre.exec (Meta_gen.load_appid tt tt) (MetaGenProofs.ex_sx []) (MetaPre.fresh (Some MetaGenProofs.ex_fs)) = MetaPre.MOk (MetaPre.mkM (Some MetaGenProofs.ex_fs) 1 (-1) 0 None) /\
  MetaPre.exec (Meta_gen.load_rank tt tt) (MetaGenProofs.ex_sx []) (MetaPre.fresh (Some MetaGenProofs.ex_fs)) = MetaPre.MOk (MetaPre.mkM (Some MetaGenProofs.ex_fs) 0 1 4 None) /\
  MetaPre.exec (Meta_gen.load_rank tt tt) (MetaGenProofs.ex_sx []) (MetaPre.mkM (Some MetaGenProofs.ex_fs) 1 2 4 None) = MetaPre.MErr MetaPre.E_FAIL.
Proof. repeat split; vm_compute; reflexivity. Qed.
(* ==== end of block (unit meta) ==== *)

(* ==== system building from source (unit metabuild) ==== *)
(* The builders of the emulator's system are regenerated into Gen/MetaBuild_gen.v on every run (unit metabuild, statement by
   statement): src/emu/system.c find_loom (the walk over the DL list sys->looms), create_thread, create_proc, create_loom,
   system_get_lpt, the body of create_system's loop over the streams (stream_body; `continue` = the end of the body) and the
   `for` statement itself (create_system_loop: checked on the AST to be exactly
   `for (struct stream *s = trace->streams; s; s = s->next)` followed by `return 0`); src/emu/loom.c loom_init_begin,
   loom_find_proc, loom_add_proc, loom_load_metadata; src/emu/proc.c proc_init_begin, proc_find_thread, proc_add_thread,
   proc_load_metadata; src/emu/thread.c thread_init_begin.  Prelude Emu/MetaBuildPre.v: the tables under construction ARE
   the fact tables of MetaDefs.state (DL lists and uthash tables as insertion-ordered lists), struct loom / proc / thread
   pointers are handles (NULL, a table entry, or the pending malloc'ed object), a struct stream * is the stream's claims:
   the gates and loaders of unit meta act on them with the meaning C15_stream_claims_from_source gives them.
   C15_find_loom_from_source: the generated list walk with strcmp = membership of the name in the loom table;
   C15_init_begin_from_source: the generated loom_init_begin (memset, strchr '/', snprintf's length against PATH_MAX,
     id = name), proc_init_begin and thread_init_begin (memset, field stores, snprintf "proc.%d" / "thread.%d" as lengths)
     = the '/' test and the pid / tid stores (a name shorter than PATH_MAX: name_fits, now a hypothesis);
   C15_stream_body_from_source: one run of the generated loop body = one MetaDefs.step_gen add_cpu (same refusals; the
     same looms, CPUs, processes, app ids, ranks, threads appended in the same order) and fills the stream's lpt slot
     with ITS loom, process and thread;
   C15_system_build_raw_from_source: the GENERATED loop statement over the streams from the empty system
     (MetaBuildGenProofs.run_streams = create_system_loop, keeping the state) = MetaDefs.raw;
   C15_system_build_from_source: hence MetaDefs.build = finish on the state the generated code built (finish: the sorts,
     tied by unit cmp_meta, and the final checks of system_init), and a refusal of the generated loop is a refusal of build;
   C15_system_get_lpt_from_source: on that state the generated system_get_lpt never dies and hands every stream of the
     trace the slot holding its own loom, process and thread.
   Invariant carried: every loom name in the table passed loom_init_begin's '/' test (find_loom precedes the test).
   Still primitives of the prelude: the accessors proc_get_pid / proc_set_loom / thread_get_tid / thread_set_proc,
   HASH_FIND_INT / HASH_ADD_INT, DL_APPEND, malloc, is_init (0 while the system is built), set_hostname and the virtual
   CPU of a loom (not part of the merge), the find-or-insert half of load_cpus (hand model add_cpu, as in unit meta);
   create_system's calloc of the lpt array is not translated (the array is a list that grows). *)
From OV Require Emu.MetaBuildPre Gen.MetaBuild_gen Proofs.MetaBuildGenProofs.
Module MB.
Import MetaBuildPre MetaBuildGenProofs.

Theorem C15_find_loom_from_source : forall n b,
  MetaBuild_gen.find_loom tt (Some n) b = ROk (if in_dec name_dec n (st_looms (b_st b)) then Some (LTab n) else None, b).
Proof. exact find_loom_eq. Qed.
Print Assumptions C15_find_loom_from_source.

Theorem C15_init_begin_from_source :
  (forall n b, (Z.of_nat (length n) < 4096)%Z ->
     MetaBuild_gen.loom_init_begin (Some LPend) (Some n) b = if valid_name n then ROk (0%Z, with_ploom b n) else RErr E_FAIL) /\
  (forall pid b, MetaBuild_gen.proc_init_begin (Some PPend) pid b = ROk (0%Z, with_pproc b (fst (b_pproc b), pid))) /\
  (forall tid b, MetaBuild_gen.thread_init_begin (Some TPend) tid b = ROk (0%Z, with_pthr b (fst (b_pthr b), tid))).
Proof. exact (conj loom_init_begin_eq (conj proc_init_begin_eq thread_init_begin_eq)). Qed.
Print Assumptions C15_init_begin_from_source.

Theorem C15_stream_body_from_source : forall b s, looms_ok (b_st b) -> name_fits s ->
  match step_gen add_cpu (b_st b) s with
  | Ok x' => exists b', MetaBuild_gen.stream_body tt s b = ROk (0%Z, b') /\ b_st b' = x' /\
               b_lpt b' = b_lpt b ++ [lpt_of s] /\ b_data b' = b_data b ++ [(s, length (b_lpt b))]
  | _ => MetaBuild_gen.stream_body tt s b = RErr E_FAIL
  end.
Proof. exact stream_body_from_source. Qed.
Print Assumptions C15_stream_body_from_source.

Theorem C15_system_build_raw_from_source : forall m, Forall name_fits m ->
  match raw m with
  | Ok x => exists b, run_streams m b0 = ROk b /\ b_st b = x /\ b_lpt b = map lpt_of m /\ b_data b = combine m (seq 0 (length m))
  | _ => run_streams m b0 = RErr E_FAIL
  end.
Proof. exact system_build_raw_from_source. Qed.
Print Assumptions C15_system_build_raw_from_source.

Theorem C15_system_build_from_source : forall m, Forall name_fits m ->
  match run_streams m b0 with
  | ROk b => build m = finish (b_st b) /\ b_lpt b = map lpt_of m
  | RErr _ => forall sys, build m <> Ok sys
  end.
Proof. exact system_build_from_source. Qed.
Print Assumptions C15_system_build_from_source.

(* run_streams IS the generated loop statement *)
Theorem C15_create_system_loop_from_source : forall m b,
  run_streams m b = match MetaBuild_gen.create_system_loop tt m b with ROk (_, b') => ROk b' | RErr e => RErr e end.
Proof. reflexivity. Qed.
Print Assumptions C15_create_system_loop_from_source.

Theorem C15_system_get_lpt_from_source : forall m b s, Forall name_fits m -> run_streams m b0 = ROk b ->
  exists r, MetaBuild_gen.system_get_lpt s b = ROk (r, b) /\
    (forall i, r = Some i -> nth_error (b_lpt b) i = Some (lpt_of s)) /\ (In s m -> r <> None).
Proof. exact system_get_lpt_from_source. Qed.
Print Assumptions C15_system_get_lpt_from_source.

Example C15_ex_build_three :
  st_of (run_streams [ex_s1; ex_s2; ex_s3] b0) = match raw [ex_s1; ex_s2; ex_s3] with Ok x => Some x | _ => None end /\
  st_of (run_streams [ex_s1; ex_s2; ex_s3] b0) <> None.
Proof. exact ex_build_three. Qed.
Example C15_ex_build_refusals :
  run_streams [ex_s1; ex_s1] b0 = RErr E_FAIL /\
  run_streams [ex_s1; mkS [110; 48] 100 102 (Some 2) None None None] b0 = RErr E_FAIL /\
  run_streams [mkS [110; 47; 48] 100 101 (Some 1) None None None] b0 = RErr E_FAIL.
Proof. exact ex_build_refusals. Qed.
Example C15_ex_build_tid_two_procs :
  st_of (run_streams [ex_s1; mkS [110; 48] 300 101 (Some 1) (Some 1) (Some 2) None] b0) <> None.
Proof. exact ex_build_tid_two_procs. Qed.
End MB.
(* ==== end of block (unit metabuild) ==== *)
