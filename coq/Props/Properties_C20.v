(* C20 - Breakdown view: rows always hold the sorted per-CPU breakdown values.
   Only statements here; proofs are in Proofs/SortProofs.v; the model (sort_replace, the sort
   module, the two-mux pipeline of breakdown.c with mux_add_reselect) is in Emu/SortDefs.v and is tied to the C code
   by lib/checks/c20.py (harness/sort_h.c runs the real sort.c / breakdown.c connect_cpu). *)
From OV Require Import Base.CInt Emu.SortDefs Proofs.SortProofs.
From Coq Require Import Sorted Permutation.
Local Open Scope Z_scope.

(* --- sort_replace ---------------------------------------------------------------------- *)

(* for every sorted array of every size: the incremental update succeeds, keeps the array
   sorted and replaces exactly one occurrence of old by new *)
Theorem C20_replace : forall a old new,
  Sorted Z.le a -> In old a -> old <> new ->
  exists a', sort_replace a old new = SR_ok a' /\ Sorted Z.le a' /\
             Permutation a' (new :: remove_one old a).
Proof. exact replace_ok. Qed.
Print Assumptions C20_replace.

(* the "quick jump to the middle" never changes the result on a sorted array *)
Theorem C20_replace_jump_harmless : forall a old new,
  Sorted Z.le a -> sort_replace a old new = sort_replace_nojump a old new.
Proof. exact jump_harmless_sorted. Qed.
Print Assumptions C20_replace_jump_harmless.

(* outside its preconditions the C function dies (old = new) or reads past the array
   (nothing >= old); the model says so explicitly instead of returning a list *)
Theorem C20_replace_die : forall a old, sort_replace a old old = SR_die.
Proof. exact replace_die. Qed.
Print Assumptions C20_replace_die.

Theorem C20_replace_oob : forall a old new,
  old <> new -> Forall (fun x => x < old) a -> sort_replace a old new = SR_oob.
Proof. exact replace_oob. Qed.
Print Assumptions C20_replace_oob.

(* --- the sort module -------------------------------------------------------------------- *)

(* after ANY history of input changes (n inputs, all starting null): no callback fails, the
   module's values are the current inputs (null/double read as 0), the sorted array is the sort
   of those values, and the rows shown are that array *)
Theorem C20_module : forall n h,
  Forall (fun iv => (fst iv < n)%nat) h ->
  exists st, sm_run (sm_init n) h = Some st /\
    m_values st = map to_i64 (inputs_after (repeat VNull n) h) /\
    m_sorted st = isort (m_values st) /\
    rows_of st = m_sorted st.
Proof. exact module_ok. Qed.
Print Assumptions C20_module.

(* every callback along any history writes exactly the rows whose value differs ... *)
Theorem C20_module_writes : forall n h i v,
  Forall (fun iv => (fst iv < n)%nat) h -> (i < n)%nat ->
  exists st st' ws, sm_run (sm_init n) h = Some st /\ input_changed st i v = M_ok st' ws /\
    ws = diff_rows 0 (m_outputs st) (m_outputs st') /\
    length (m_outputs st) = length (m_outputs st') /\
    rows_of st' = isort (upd i (to_i64 v) (m_values st)).
Proof. exact module_step_writes. Qed.
Print Assumptions C20_module_writes.

(* ... where diff_rows lists row k iff the output values at k differ *)
Theorem C20_writes_exact : forall a b j k,
  length a = length b ->
  (In k (map fst (diff_rows j a b)) <->
   (j <= k)%nat /\ (k - j < length a)%nat /\ nth (k - j) a VNull <> nth (k - j) b VNull).
Proof. exact diff_rows_rows. Qed.
Print Assumptions C20_writes_exact.

(* the incremental path gives what a full re-sort gives *)
Theorem C20_replace_is_resort : forall vs i new,
  (i < length vs)%nat -> nth i vs 0 <> new ->
  sort_replace (isort vs) (nth i vs 0) new = SR_ok (isort (upd i new vs)).
Proof. exact replace_isort. Qed.
Print Assumptions C20_replace_is_resort.

(* rows: non-decreasing from first to last, same multiset as the inputs *)
Theorem C20_rows : forall n h,
  Forall (fun iv => (fst iv < n)%nat) h ->
  exists st, sm_run (sm_init n) h = Some st /\
    Sorted Z.le (rows_of st) /\
    Permutation (rows_of st) (map to_i64 (inputs_after (repeat VNull n) h)).
Proof. exact rows_ok_always. Qed.
Print Assumptions C20_rows.

(* the decider used on the implementation's PRV output is this specification *)
Theorem C20_spec_decider : forall rows percpu,
  rows_ok rows percpu = true <-> Sorted Z.le rows /\ Permutation rows percpu.
Proof. exact rows_ok_iff. Qed.
Print Assumptions C20_spec_decider.

(* --- the wiring of one CPU (mux0, mux1, tri -> sort input) ------------------------------- *)

(* The pipeline functions take `fx : bool` first: true = connect_cpu as repaired by /repo commit
   bca364a (mux0 runs select_tr again when the task type changes), false = the code before.

   DESIGN 6.20, "C20_wiring": after every event (bay_propagate) the sort module holds bd_value of
   the CPU's channels, for every history of batches the emulator can produce.  [history_ok true]
   is exactly that: each batch writes each CPU channel at most once, idle enters the dirty list
   last, and the first batch that reaches a CPU writes the subsystem (C20_batch_ok_fixed).  The
   last two are needed (C20_wiring_order_needed, C20_wiring_first_batch_needed); they are
   properties of the emulator above the CPU channels (registration order in model_cpu.c), read
   from the source and exercised end to end, see the check's trusted base. *)
Theorem C20_wiring : forall BODY UNKNOWN PROG h,
  history_ok true BODY UNKNOWN PROG w_init h = true ->
  exists st', cpu_run true BODY UNKNOWN PROG w_init h = Some st' /\
              cin_values st' = cin_values (fold_left written h w_init) /\
              w_sval st' = bd_of BODY UNKNOWN PROG st'.
Proof. exact wiring. Qed.
Print Assumptions C20_wiring.

(* what [batch_ok true] asks of a batch: nothing about select_tr any more *)
Theorem C20_batch_ok_fixed : forall BODY st b,
  batch_ok true BODY st b =
  once b && idle_last b &&
  (if mux0_unevaluated st then match b with [] => true | _ => writes_to CSS b end else true).
Proof. exact batch_ok_fixed. Qed.
Print Assumptions C20_batch_ok_fixed.

(* the registration-order hazard: with idle dirty before the subsystem the sort input is stale *)
Theorem C20_wiring_order_needed :
  exists st', cpu_run true 11 2 100 w_init
                [ [(CTT, VNull); (CSS, VInt 6); (CIDLE, VInt 100)];
                  [(CIDLE, VInt 100); (CSS, VInt 7)] ] = Some st' /\
              w_tri st' = VInt 7 /\ w_sval st' = 6 /\ bd_of 11 2 100 st' = 7.
Proof. exact wiring_order_needed. Qed.
Print Assumptions C20_wiring_order_needed.

(* a CPU whose first batch writes idle alone shows 0 where the breakdown value is "Unknown subsystem" *)
Theorem C20_wiring_first_batch_needed :
  exists st', cpu_run true 11 2 100 w_init [ [(CIDLE, VInt 100)] ] = Some st' /\
              w_sval st' = 0 /\ bd_of 11 2 100 st' = 2.
Proof. exact wiring_first_batch_needed. Qed.
Print Assumptions C20_wiring_first_batch_needed.

(* --- the defect repaired by bca364a, on the model of the code before the repair ---------- *)

(* witness: OHx ; VTx ; VTp  - the row showed 0 where select_tr would show the subsystem (11) *)
Theorem C20_wiring_refuted_old :
  exists st', cpu_run false 11 2 100 w_init wit_pause_in_body = Some st' /\
              w_sval st' = 0 /\ bd_of 11 2 100 st' = 11 /\ w_sval st' <> bd_of 11 2 100 st'.
Proof. exact wiring_refuted_pause_old. Qed.
Print Assumptions C20_wiring_refuted_old.

(* witness: ... ; OHp ; OHr ; VTr - the row showed "Task: In body" (11) instead of the task type *)
Theorem C20_wiring_resume_refuted_old :
  exists st', cpu_run false 11 2 100 w_init wit_resume_in_body = Some st' /\
              w_sval st' = 11 /\ bd_of 11 2 100 st' = 77.
Proof. exact wiring_refuted_resume_old. Qed.
Print Assumptions C20_wiring_resume_refuted_old.

(* the row value was not a function of the CPU's channel values *)
Theorem C20_wiring_history_dependent_refuted_old :
  exists h1 h2 s1 s2,
    cpu_run false 11 2 100 w_init h1 = Some s1 /\ cpu_run false 11 2 100 w_init h2 = Some s2 /\
    cin_values s1 = cin_values s2 /\ w_sval s1 <> w_sval s2.
Proof. exact wiring_history_dependent_old. Qed.
Print Assumptions C20_wiring_history_dependent_refuted_old.

(* what did hold before the repair: histories that, besides, keep select_tr's choice whenever a
   batch writes the task type WITHOUT the subsystem ([history_ok false]) *)
Theorem C20_wiring_old_partial : forall BODY UNKNOWN PROG h,
  history_ok false BODY UNKNOWN PROG w_init h = true ->
  exists st', cpu_run false BODY UNKNOWN PROG w_init h = Some st' /\
              cin_values st' = cin_values (fold_left written h w_init) /\
              w_sval st' = bd_of BODY UNKNOWN PROG st'.
Proof. exact wiring_old_partial. Qed.
Print Assumptions C20_wiring_old_partial.

(* the repaired code on the two witness histories: admissible, rows right (11, then 77) *)
Theorem C20_wiring_witnesses_fixed :
  history_ok true 11 2 100 w_init wit_resume_in_body = true /\
  (exists st', cpu_run true 11 2 100 w_init wit_pause_in_body = Some st' /\
               w_sval st' = 11 /\ bd_of 11 2 100 st' = 11) /\
  (exists st', cpu_run true 11 2 100 w_init wit_resume_in_body = Some st' /\
               w_sval st' = 77 /\ bd_of 11 2 100 st' = 77).
Proof. exact wiring_witnesses_fixed. Qed.
Print Assumptions C20_wiring_witnesses_fixed.

(* --- all physical CPUs + sort: the rows of the breakdown trace ---------------------------- *)

(* After any history over n CPUs of batches the emulator can produce, the rows are sorted and are
   exactly the multiset of the per-CPU breakdown values. *)
Theorem C20_rows_system : forall BODY UNKNOWN PROG n h,
  sys_history_ok true BODY UNKNOWN PROG (sys_init n) h = true ->
  exists s, sys_run true BODY UNKNOWN PROG (sys_init n) h = Some s /\
    length (s_cpus s) = n /\
    Sorted Z.le (rows_of (s_sort s)) /\
    Permutation (rows_of (s_sort s)) (map (bd_of BODY UNKNOWN PROG) (s_cpus s)).
Proof. exact system_rows. Qed.
Print Assumptions C20_rows_system.

(* --- non-vacuity ------------------------------------------------------------------------ *)

Example C20_ex_replace_up : sort_replace [0; 1; 1; 2; 4] 1 3 = SR_ok [0; 1; 2; 3; 4].
Proof. vm_compute. reflexivity. Qed.
Example C20_ex_replace_down : sort_replace [1; 2; 3; 3] 3 0 = SR_ok [0; 1; 2; 3].
Proof. vm_compute. reflexivity. Qed.
(* the jump is taken here: arr[3] = 5 < 7 *)
Example C20_ex_replace_jump : start_index [1; 2; 3; 5; 7; 7; 9] 7 = 3%nat /\
  sort_replace [1; 2; 3; 5; 7; 7; 9] 7 8 = SR_ok [1; 2; 3; 5; 7; 8; 9].
Proof. vm_compute. split; reflexivity. Qed.
Example C20_ex_hyp_replace : Sorted Z.le [0; 1; 1; 2; 4] /\ In 1 [0; 1; 1; 2; 4] /\ 1 <> 3.
Proof. split; [repeat constructor; lia | split; [cbn; tauto | lia]]. Qed.

Example C20_ex_module :
  exists st, sm_run (sm_init 3) [(0%nat, VInt 5); (1%nat, VInt 2); (2%nat, VInt 7); (0%nat, VNull)] = Some st /\
             rows_of st = [0; 2; 7] /\ m_values st = [0; 2; 7].
Proof. eexists. vm_compute. repeat split. Qed.
Example C20_ex_writes :
  input_changed {| m_values := [5; 2; 7]; m_sorted := [2; 5; 7]; m_copied := true;
                   m_outputs := [VInt 2; VInt 5; VInt 7] |} 0 (VInt 6)
  = M_ok {| m_values := [6; 2; 7]; m_sorted := [2; 6; 7]; m_copied := true;
            m_outputs := [VInt 2; VInt 6; VInt 7] |} [(1%nat, 6)].
Proof. vm_compute. reflexivity. Qed.

(* ex_history (Proofs/SortProofs.v): OHx; VHw; VTx; VAp; VTp; VTr; VAP; VPr; VPp; VTe *)
Example C20_ex_history_ok : history_ok true 11 2 100 w_init ex_history = true.
Proof. vm_compute. reflexivity. Qed.
Example C20_ex_history_value :
  exists st, cpu_run true 11 2 100 w_init (firstn 7 ex_history) = Some st /\ w_sval st = 77 /\ bd_of 11 2 100 st = 77.
Proof. eexists. vm_compute. repeat split. Qed.
Example C20_ex_system :
  sys_history_ok true 11 2 100 (sys_init 3)
    [ (0%nat, [(CTT, VNull); (CSS, VNull); (CIDLE, VInt 100)]); (2%nat, [(CTT, VNull); (CSS, VNull); (CIDLE, VInt 100)]);
      (0%nat, [(CSS, VInt 28)]); (2%nat, [(CSS, VInt 11); (CTT, VInt 77)]); (0%nat, [(CIDLE, VInt 101)]) ] = true.
Proof. vm_compute. reflexivity. Qed.
(* a system history with a task paused and resumed in its body on CPU 2 (VTx ; VTp ; VTr) *)
Example C20_ex_system_pause_in_body :
  sys_history_ok true 11 2 100 (sys_init 3)
    [ (2%nat, [(CTT, VNull); (CSS, VNull); (CIDLE, VInt 100)]); (2%nat, [(CSS, VInt 11); (CTT, VInt 77)]);
      (2%nat, [(CTT, VNull)]); (2%nat, [(CTT, VInt 77)]) ] = true.
Proof. vm_compute. reflexivity. Qed.
(* the old witness was rejected by [history_ok false] only through the select_tr condition,
   which [history_ok true] no longer has *)
Example C20_ex_old_witness_not_ok_old : history_ok false 11 2 100 w_init wit_pause_in_body = false.
Proof. vm_compute. reflexivity. Qed.
Example C20_ex_old_witness_ok : history_ok true 11 2 100 w_init wit_pause_in_body = true.
Proof. vm_compute. reflexivity. Qed.

(* ---- the reference sort of the sort module is qsort(cmp_int64) with sort.c:cmp_int64 translated
   from the C source (translator unit cmp_sortmod -> coq/Gen/Cmp_sortmod_gen.v, regenerated on every run). *)
From OV Require Gen.Cmp_sortmod_gen Proofs.CmpSortmodProofs.

Theorem C20_first_sort_from_source : forall l, isort l = CmpSortmodProofs.isort_src l.
Proof. exact CmpSortmodProofs.isort_from_source. Qed.
Print Assumptions C20_first_sort_from_source.

Theorem C20_cmp_int64_three_way : forall a b, Cmp_sortmod_gen.cmp_int64_core a b = CmpPre.cmp3 a b.
Proof. exact CmpSortmodProofs.cmp_int64_core_cmp3. Qed.
Print Assumptions C20_cmp_int64_three_way.


(* ==== begin of block (the breakdown pipeline is an instance of the bay model) ==== *)
(* The per-CPU pipeline above (section Breakdown of Emu/SortDefs.v: run_cbs, add_dirty, propagate, apply_writes,
   cpu_event) is a hand-written special case of bay_propagate.  Emu/BayBreakdownDefs.v builds the same pipeline as a
   WIRING of the general bay model (Emu/BayDefs.v, the model C06 ties to chan.c / bay.c / mux.c): mux0 with the custom
   select function select_tr, default "unknown subsystem" and (when fx) mux_add_reselect on the task type; mux1 with
   select_idle; the sort callback on tri as a callback copying tri into a sink channel.
   Statement: for EVERY batch of writes of null / integer values to the three CPU channels (admissible or not), in
   every state between two events, BayDefs.apply_writes + BayDefs.propagate on that wiring succeed, emit nothing, and
   end in the wiring state whose SortDefs view (Emu/BayBreakdownRelDefs.v:wires_of) is what cpu_event returns. *)
From OV Require Emu.EmuCoreDefs Emu.BayDefs Emu.BayBreakdownDefs Emu.BayBreakdownRelDefs Proofs.BayBreakdownProofs.

Theorem C20_pipeline_is_bay_instance : forall fx BODY UNKNOWN PROG (s : BayBreakdownDefs.bdst) (b : list (cin * EmuCoreDefs.value)),
  BayBreakdownRelDefs.Canon s -> BayBreakdownRelDefs.OKs s ->
  exists s',
    BayBreakdownDefs.bd_event fx BODY UNKNOWN PROG s (map BayBreakdownRelDefs.wop_of b)
      = EmuCoreDefs.Ok (BayBreakdownDefs.bd_bay fx BODY UNKNOWN PROG s', nil, nil) /\
    cpu_event fx BODY UNKNOWN PROG (BayBreakdownRelDefs.wires_of s) (map BayBreakdownRelDefs.emb_w b)
      = Some (BayBreakdownRelDefs.wires_of s') /\
    BayBreakdownRelDefs.Canon s' /\ BayBreakdownRelDefs.OKs s'.
Proof. exact BayBreakdownProofs.pipeline_event. Qed.
Print Assumptions C20_pipeline_is_bay_instance.

(* histories: cpu_run is the iteration of chan_set* ; bay_propagate on the wiring *)
Theorem C20_pipeline_run_is_bay_instance : forall fx BODY UNKNOWN PROG (h : list (list (cin * EmuCoreDefs.value))) (s : BayBreakdownDefs.bdst),
  BayBreakdownRelDefs.Canon s -> BayBreakdownRelDefs.OKs s ->
  exists s',
    BayBreakdownRelDefs.bd_run (BayBreakdownDefs.bd_bay fx BODY UNKNOWN PROG s) (map (map BayBreakdownRelDefs.wop_of) h)
      = EmuCoreDefs.Ok (BayBreakdownDefs.bd_bay fx BODY UNKNOWN PROG s') /\
    cpu_run fx BODY UNKNOWN PROG (BayBreakdownRelDefs.wires_of s) (map (map BayBreakdownRelDefs.emb_w) h)
      = Some (BayBreakdownRelDefs.wires_of s') /\
    BayBreakdownRelDefs.Canon s' /\ BayBreakdownRelDefs.OKs s'.
Proof. exact BayBreakdownProofs.pipeline_run. Qed.
Print Assumptions C20_pipeline_run_is_bay_instance.

(* the state after connect_cpu is such a state, and its view is w_init *)
Theorem C20_pipeline_init_is_bay_instance :
  BayBreakdownRelDefs.Canon BayBreakdownDefs.bd_init /\ BayBreakdownRelDefs.OKs BayBreakdownDefs.bd_init /\
  BayBreakdownRelDefs.wires_of BayBreakdownDefs.bd_init = w_init.
Proof. exact BayBreakdownProofs.init_canon. Qed.
Print Assumptions C20_pipeline_init_is_bay_instance.
(* ==== end of block (the breakdown pipeline is an instance of the bay model) ==== *)

(* ==== sort.c from source (unit sortc) ==== *)
(* src/emu/sort.c is regenerated into Gen/SortC_gen.v on every run (unit sortc; prelude Emu/SortCPre.v: the two int64_t arrays
   as lists with trapping out-of-bounds accesses, the three loops of sort_replace as bounded iterations around the
   translated condition / step / body, qsort(cmp_int64) = isort, chan_read / chan_set on the outputs).
   C20_sort_replace_from_source: for EVERY array, old and new the generated sort_replace computes the model's
   sort_replace: the same array, die() exactly for old = new, a trap exactly where the model says the C reads outside
   the array (n/2 jump, both directions, the n = 0 case included); the iteration bound is never exhausted.  Hence
   C20_replace / C20_replace_jump_harmless / C20_replace_die are theorems about the generated code
   (C20_sort_replace_generated_correct).
   C20_sort_module_from_source: on a C state that represents a module state m (arrays, copied, outputs), the generated
   sort_cb_input does what input_changed m i v does: same refusal (index outside the inputs, sort_replace leaving its
   domain), same new values / sorted / copied / outputs, and chan_set is called on exactly the rows of `ws`, in that
   order, with those values (C20_module, C20_module_writes, C20_writes_exact are about these). *)
From OV Require Emu.SortCPre Gen.SortC_gen Proofs.SortCProofs.

Theorem C20_sort_replace_from_source : forall sx st old new,
  SortC_gen.sort_replace (Some SortCPre.ASorted) (Z.of_nat (length (SortCPre.ss_sorted st))) old new sx st =
  match sort_replace (SortCPre.ss_sorted st) old new with
  | SR_ok a' => EmuCoreDefs.Ok (tt, SortCPre.with_sorted st a')
  | SR_die => EmuCoreDefs.Err SortCPre.E_DIE
  | SR_oob => EmuCoreDefs.Err SortCPre.E_TRAP
  end.
Proof. exact SortCProofs.sort_replace_from_source. Qed.
Print Assumptions C20_sort_replace_from_source.

Theorem C20_sort_replace_generated_correct : forall sx st old new,
  Sorted Z.le (SortCPre.ss_sorted st) -> In old (SortCPre.ss_sorted st) -> old <> new ->
  exists a', SortC_gen.sort_replace (Some SortCPre.ASorted) (Z.of_nat (length (SortCPre.ss_sorted st))) old new sx st =
               EmuCoreDefs.Ok (tt, SortCPre.with_sorted st a') /\
             Sorted Z.le a' /\ Permutation a' (new :: remove_one old (SortCPre.ss_sorted st)).
Proof. exact SortCProofs.sort_replace_generated_correct. Qed.
Print Assumptions C20_sort_replace_generated_correct.

Theorem C20_sort_module_from_source : forall v alloc st m i, SortCProofs.rep st m -> SortCProofs.sized m ->
  match input_changed m i v with
  | M_ok m' ws =>
    exists st', SortC_gen.sort_cb_input (Some SortCPre.CIn) (Some (inl (Z.of_nat i)))
                  {| SortCPre.sn_in := v; SortCPre.sn_alloc_ok := alloc |} st = EmuCoreDefs.Ok (tt, st') /\
                SortCProofs.rep st' m' /\ SortCPre.ss_writes st' = SortCPre.ss_writes st ++ ws /\
                SortCPre.ss_pend st' = SortCPre.ss_pend st /\ SortCPre.ss_regs st' = SortCPre.ss_regs st
  | M_err => exists e, SortC_gen.sort_cb_input (Some SortCPre.CIn) (Some (inl (Z.of_nat i)))
                         {| SortCPre.sn_in := v; SortCPre.sn_alloc_ok := alloc |} st = EmuCoreDefs.Err e
  end.
Proof. exact SortCProofs.sort_cb_input_from_source. Qed.
Print Assumptions C20_sort_module_from_source.

Theorem C20_sortc_constants :
  SortC_gen.c_VALUE_INT64 = 1 /\ SortC_gen.c_CHAN_SINGLE = 0 /\ SortC_gen.c_CHAN_DIRTY_WRITE = SortCPre.P_DIRTY_WRITE /\
  SortC_gen.c_CHAN_ALLOW_DUP = SortCPre.P_ALLOW_DUP.
Proof. exact SortCProofs.constants. Qed.
Print Assumptions C20_sortc_constants.

(* the generated code on concrete inputs *)
Example C20_ex_sortc_replace :
  SortC_gen.sort_replace (Some SortCPre.ASorted) 5 3 8 (SortCProofs.ex_env VNull) (SortCProofs.ex_state (9 :: 1 :: 5 :: 3 :: 7 :: nil)) =
  EmuCoreDefs.Ok (tt, SortCPre.with_sorted (SortCProofs.ex_state (9 :: 1 :: 5 :: 3 :: 7 :: nil)) (1 :: 5 :: 7 :: 8 :: 9 :: nil)).
Proof. vm_compute. reflexivity. Qed.
Example C20_ex_sortc_cb_input :
  match SortC_gen.sort_cb_input (Some SortCPre.CIn) (Some (inl 3)) (SortCProofs.ex_env (VInt 8)) (SortCProofs.ex_state (9 :: 1 :: 5 :: 3 :: 7 :: nil)) with
  | EmuCoreDefs.Ok (_, st) => SortCPre.ss_sorted st = (1 :: 5 :: 7 :: 8 :: 9 :: nil) /\
                              SortCPre.ss_writes st = ((1%nat, 5) :: (2%nat, 7) :: (3%nat, 8) :: nil)
  | EmuCoreDefs.Err _ => False
  end.
Proof. vm_compute. split; reflexivity. Qed.
(* sort_init(n = 3): zeroed arrays, three null outputs registered in order with DIRTY_WRITE and ALLOW_DUP *)
Example C20_ex_sortc_init :
  match SortCProofs.ex_init 3 with
  | EmuCoreDefs.Ok st => SortCPre.ss_values st = (0 :: 0 :: 0 :: nil) /\ SortCPre.ss_sorted st = (0 :: 0 :: 0 :: nil) /\ SortCPre.ss_copied st = 0 /\
                         SortCPre.ss_outs st = (VNull :: VNull :: VNull :: nil) /\
                         SortCPre.ss_regs st = ((0, (true, true)) :: (1, (true, true)) :: (2, (true, true)) :: nil)
  | EmuCoreDefs.Err _ => False
  end.
Proof. vm_compute. repeat split. Qed.
(* ==== end of block (unit sortc) ==== *)

(* ==== breakdown wiring from source (unit connect) ==== *)
(* The six-channel callback placement of the per-CPU breakdown pipeline (BayBreakdownDefs.bd_dcbs / bd_mux0 / bd_mux1, which
   C20_pipeline_is_bay_instance takes as given) is generated too: create_cpu and connect_cpu of src/emu/nosv/breakdown.c are
   regenerated into Gen/Connect_gen.v on every run (unit connect; mux_init / mux_set_input / mux_add_reselect /
   mux_set_default are primitives with the meaning BayDefs gives them; select_tr / select_idle enter as the custom select
   functions BayBreakdownDefs.g_tr / g_idle with ST_TASK_BODY / ST_PROGRESSING probed from the source).
   ConnectProofs.connect_all_bd runs, after the whole connect-time wiring of the system from the empty bay (unit connect:
   system channels, all models in slot order), for every physical CPU: the generated create_cpu (tr, tri), the generated
   connect_cpu, then sort_set_input on tri (sort.c's bay_add_cb of sort_cb_input, rendered as BayBreakdownDefs does: an
   always-enabled callback copying tri into a sink; the calling loops of model_nosv_breakdown_create / _connect, sort_init
   and the PRV registration of the sorted rows are not translated).  ConnectProofs.bd_project picks, out of the bay that
   was built, the CPU's subsystem / task type / idle track outputs, tr, tri and the sink, and its three muxes, and renames
   them 0..5 / 0..2 (refusing if any callback on those channels belongs to another mux).
   C20_breakdown_wiring_from_source_partial: for 2 threads, 2 physical CPUs (+ the virtual one) and the model sets
   {ovni, nOS-V} and all models, the projection IS BayBreakdownDefs.bd_bay (repaired code: fx = true) in its initial state
   bd_init: mux0 on the subsystem with inputs subsystem / task type, default ST_UNKNOWN_SS, cb_select first and cb_reselect
   on the task type; mux1 on idle with inputs tr / idle; the sort callback on tri; all six channels DIRTY_WRITE + ALLOW_DUP.
   PARTIAL: by computation for this family (same style as C06_wiring_from_source_partial); nanos6/breakdown.c has the same
   connect_cpu and is not translated; the PRV emit callbacks of the three CPU channels are not part of the pipeline model. *)
From OV Require Emu.BayDefs Emu.BayBreakdownDefs Emu.ConnectPre Gen.Connect_gen Proofs.ConnectProofs.

Theorem C20_breakdown_wiring_from_source_partial : forall en c, In en ConnectProofs.bd_models -> In c (0 :: 1 :: nil)%nat ->
  match ConnectProofs.connect_all_bd (ConnectProofs.bd_fam_sx en) with
  | EmuCoreDefs.Ok st => ConnectProofs.bd_project (ConnectProofs.bd_fam_sx en) st c
  | EmuCoreDefs.Err _ => None
  end = Some (BayBreakdownDefs.bd_bay true Connect_gen.c_ST_TASK_BODY Connect_gen.c_ST_UNKNOWN_SS Connect_gen.c_ST_PROGRESSING BayBreakdownDefs.bd_init).
Proof. exact ConnectProofs.breakdown_wiring_from_source. Qed.
Print Assumptions C20_breakdown_wiring_from_source_partial.

(* the constants are those C20_wiring etc. are instantiated with for nOS-V (11 2 100) *)
Theorem C20_breakdown_constants :
  Connect_gen.c_ST_TASK_BODY = 11 /\ Connect_gen.c_ST_UNKNOWN_SS = 2 /\ Connect_gen.c_ST_PROGRESSING = 100 /\
  Connect_gen.c_CH_SUBSYSTEM = 4 /\ Connect_gen.c_CH_TYPE = 2 /\ Connect_gen.c_CH_IDLE = 6.
Proof. exact ConnectProofs.bd_constants. Qed.
Print Assumptions C20_breakdown_constants.
(* ==== end of block (unit connect) ==== *)

(* ==== breakdown muxes composed with the generated mux.c (units connect + muxc) ==== *)
(* The mux_init calls of nosv/breakdown.c (mux0 with select_tr, mux1 with select_idle) go through the primitive
   ConnectPre.mux_init, whose meaning is DERIVED from the generated mux_init of mux.c (Gen/MuxInit_gen.v), for every connect
   state: run the generated function on a fresh struct mux next to the bay, commit the struct read as a BayDefs mux record at
   the end of the mux table, remember its id for (nosv_cpu a, w); select_tr / select_idle are read as BayBreakdownDefs.g_tr /
   g_idle.  mux_set_input / bay_register: C06_connect_mux_set_input_composed, C06_connect_bay_register_composed (they do not
   depend on which object owns the mux).  C20_breakdown_wiring_from_source_partial stays PARTIAL: it is a computation for the
   listed families; the induction over CPUs / threads is missing, and chan_init / prv_register stay hand-written primitives. *)
From OV Require Emu.MuxInitPre Gen.MuxInit_gen Proofs.MuxInitProofs Proofs.ConnectComposeProofs.

Theorem C20_breakdown_mux_init_composed : forall sx st a w s u f (n : Z) si ui,
  ConnectComposeProofs.Reg st -> ConnectPre.cn_alloc_ok sx = true -> (0 <= n < 2 ^ 64)%Z ->
  ConnectPre.id_of st s = Some si -> ConnectPre.id_of st u = Some ui ->
  ConnectPre.mux_init (Some (ConnectPre.MBd a w)) (Some tt) (Some s) (Some u) f n sx st =
  match MuxInit_gen.mux_init (Some tt) (Some tt) (Some si) (Some ui) (ConnectComposeProofs.fn_of f) n
          (ConnectComposeProofs.menv_of sx (length (BayDefs.b_muxes (ConnectPre.cs_bay st)))) (ConnectComposeProofs.fresh st) with
  | EmuCoreDefs.Ok (_, ms) =>
    EmuCoreDefs.Ok (tt, ConnectPre.with_bd (ConnectPre.with_bay st (ConnectComposeProofs.commit sx ms))
                          (((a, w), length (BayDefs.b_muxes (ConnectPre.cs_bay st))) :: ConnectPre.cs_bd st))
  | EmuCoreDefs.Err e => EmuCoreDefs.Err (ConnectComposeProofs.err_of e)
  end.
Proof. exact ConnectComposeProofs.mux_init_composed_bd. Qed.
Print Assumptions C20_breakdown_mux_init_composed.

Theorem C20_breakdown_select_functions_composed : forall sx,
  MuxInitProofs.fun_of (ConnectComposeProofs.fn_of ConnectPre.fn_select_tr) (ConnectComposeProofs.custom_of sx) =
    BayDefs.SelCustom (BayBreakdownDefs.g_tr (ConnectPre.cn_body sx)) /\
  MuxInitProofs.fun_of (ConnectComposeProofs.fn_of ConnectPre.fn_select_idle) (ConnectComposeProofs.custom_of sx) =
    BayDefs.SelCustom (BayBreakdownDefs.g_idle (ConnectPre.cn_prog sx)).
Proof. exact ConnectComposeProofs.custom_select. Qed.
Print Assumptions C20_breakdown_select_functions_composed.
(* ==== end of block (breakdown composed) ==== *)
