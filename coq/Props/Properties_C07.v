(* C07 - Task life-cycle: bodies follow their state machine, never run twice at once.
   Emulator side: task_op / task_event of Emu/EmuCoreDefs.v (src/emu/body.c, task.c, update_task of
   nosv/event.c and nanos6/event.c); spec: Emu/TaskSpecDefs.v. *)
From Coq Require Import ZArith List Bool.
From OV Require Import Emu.GuardsPre.
From OV Require Gen.Guards_gen Proofs.GuardsTaskProofs.
From OV Require Import Emu.EmuCoreDefs Emu.TaskSpecDefs Emu.TaskViewDefs Proofs.EmuCoreProofs Proofs.TaskProofs Proofs.EmuCoreWf
  Proofs.LabelDecode Proofs.TaskViewProofs.
Import ListNotations.
Local Open Scope Z_scope.

(* a task event on a body is accepted exactly when the documented life-cycle allows it:
   created -> running (fresh body; several bodies only for parallel tasks; dead -> running only for
   resurrectable tasks; never a body that is on a stack; nested only over a paused body unless the
   task on top relaxes nesting), running -> paused (pausable tasks only), paused -> running,
   running -> dead, the last three only for the body on top of the calling thread's own stack *)
Theorem C07_transition_iff : forall st who th loom pid mdl kind tid bid,
  (exists st', task_op st who th loom pid mdl kind tid bid = Ok st') <-> legal st who th loom pid mdl kind tid bid.
Proof. exact task_op_iff. Qed.
Print Assumptions C07_transition_iff.

(* in every state reached by accepted events a body is on some thread's stack exactly while it is
   running or paused (so created and dead bodies are on no stack) *)
Theorem C07_on_stack_iff_live : forall sx evs st tl,
  run_from sx (init sx) evs = Ok (st, tl) ->
  forall tk, In tk (tasks st) -> forall b, In b (tk_bodies tk) ->
    (b_on b = None <-> (b_state b = BCreated \/ b_state b = BDead)).
Proof. intros sx evs st tl H. exact (run_from_OnInv sx evs (init sx) st tl (OnInv_init sx) H). Qed.
Print Assumptions C07_on_stack_iff_live.

(* never twice at once: a body that is running or paused anywhere cannot be executed *)
Theorem C07_never_twice_at_once : forall st who th loom pid mdl tid bid st',
  OnInv st -> task_op st who th loom pid mdl K_EXEC tid bid = Ok st' ->
  forall ti tk bi b, find_task st loom pid mdl tid = Some (ti, tk) -> find_body tk bid = Some (bi, b) ->
    b_on b = None /\ b_state b <> BRunning /\ b_state b <> BPaused.
Proof. exact execute_needs_free_body. Qed.
Print Assumptions C07_never_twice_at_once.

(* only the body on top of the calling thread's stack changes state *)
Theorem C07_only_own_top : forall st who th loom pid mdl kind tid bid st',
  kind <> K_EXEC -> task_op st who th loom pid mdl kind tid bid = Ok st' ->
  exists ti tk bi b, find_task st loom pid mdl tid = Some (ti, tk) /\ find_body tk bid = Some (bi, b) /\
    b_on b = Some who /\ is_top th mdl tid bid = true.
Proof. exact other_ops_need_own_top. Qed.
Print Assumptions C07_only_own_top.

Theorem C07_parallel_cannot_pause : forall st who th loom pid mdl tid bid st' ti tk,
  find_task st loom pid mdl tid = Some (ti, tk) -> tk_pause tk = false ->
  task_op st who th loom pid mdl K_PAUSE tid bid = Ok st' -> False.
Proof. exact parallel_cannot_pause. Qed.
Print Assumptions C07_parallel_cannot_pause.

(* the invariant is preserved by every event of the emulator core *)
Theorem C07_invariant_step : forall sx st who ev st1 dirty,
  OnInv st -> core_step sx st who ev = Ok (st1, dirty) -> OnInv st1.
Proof. exact core_step_OnInv. Qed.
Print Assumptions C07_invariant_step.

(* VIEWS (partial): the rows of the task channels show the channel value exactly while the thread runs
   (C06_tracked_rows, proved for all events including the task events).  That the channels hold the
   running body's task id / type / body id / app id / rank and are empty otherwise is what task_event
   writes (chan_body_running / chan_body_stopped / chan_body_switch); it is checked end to end against
   ovniemu on every run but is not yet stated as a theorem.  Name kept visible: C07_views_partial. *)
Theorem C07_views_partial : forall sx evs1 evs2 st tl,
  types_ok sx -> any_init_ok sx ->
  run_from sx (init sx) (evs1 ++ evs2) = Ok (st, tl) ->
  exists st1 tl1, run_from sx (init sx) evs1 = Ok (st1, tl1) /\
    forall k, (k < length (s_chans sx))%nat ->
      let sp := spec_of sx k in
      forall t, (t < length (s_threads sx))%nat ->
        EmitProofs.shown (lines_of tl1) (false, t, cs_type sp) =
        EmitProofs.printed (cs_flags sp)
          (if mode_ok (cs_thtrack sp) (thread_state_of st1 t) then raw_read sp (raw_of st1 t k) else None).
Proof.
  intros sx evs1 evs2 st tl Hty Hany H.
  destruct (tracked_rows sx evs1 evs2 st tl Hty Hany H) as (st1 & tl1 & E & K).
  exists st1, tl1. split; [exact E|]. intros k Hk. cbv zeta. intros t Ht. apply (proj1 (K k Hk) t Ht).
Qed.
Print Assumptions C07_views_partial.

(* VIEWS (full): "While a body runs its thread shows that task's id, type, body id, app id and rank, and shows
   nothing when no body runs."  For any emulation (any subset en of the eight models, any mark types ms, channel
   specs dumped from the source), any list of raw events and every prefix of an accepted run: on the row of every
   thread t, the PRV type of every task channel (f, k) of every enabled task model (nOS-V: body id, task id, type,
   app id, rank; Nanos6: task id, type, rank) shows, exactly while the thread state satisfies the tracking mode
   of the channel, the field f of the body that runs on t (body_get_running of t's stack of that model), and
   nothing (0) when no body runs there.  expected_field is field_value (b_id, tk_id, tk_gid, ti_appid,
   ti_rank + 1) except that the rank channel stays null for a process without a rank (it is never written).
   types_ok sx (distinct PRV types, as in C06/C17) holds as soon as the mark types are distinct and
   non-negative: C07_views_types_ok. *)
Theorem C07_views : forall sx en ms revs1 revs2 st tl,
  In en (sublists all_models) -> s_chans sx = DecodeDefs.mk_chans en ++ MarkDefs.mark_chans ms -> types_ok sx ->
  run_from sx (init sx) (decode_events en (s_chans sx) (revs1 ++ revs2)) = Ok (st, tl) ->
  exists st1 tl1, run_from sx (init sx) (decode_events en (s_chans sx) revs1) = Ok (st1, tl1) /\
    forall t, (t < length (s_threads sx))%nat ->
    forall cfg mdl, In (cfg, mdl) (task_models en (s_chans sx)) ->
    forall f k, In (f, k) (tc_chans cfg) ->
      let sp := spec_of sx k in
      let ti := nth t (s_threads sx) dummy_info in
      EmitProofs.shown (lines_of tl1) (false, t, cs_type sp) =
      EmitProofs.printed (cs_flags sp)
        (if mode_ok (cs_thtrack sp) (thread_state_of st1 t)
         then match running_top st1 (ti_loom ti) (ti_pid ti) (nth t (threads st1) dummy_thread) mdl with
              | Some (tk, b) => expected_field ti tk b f
              | None => None
              end
         else None).
Proof. exact task_views. Qed.
Print Assumptions C07_views.

(* the state invariant behind it: in every reachable state every task channel of every thread holds the field of
   the running body, or null *)
Theorem C07_task_channels : forall sx en ms revs st tl,
  In en (sublists all_models) -> s_chans sx = DecodeDefs.mk_chans en ++ MarkDefs.mark_chans ms ->
  run_from sx (init sx) (decode_events en (s_chans sx) revs) = Ok (st, tl) ->
  forall t, (t < length (s_threads sx))%nat ->
  forall cfg mdl, In (cfg, mdl) (task_models en (s_chans sx)) ->
  forall f k, In (f, k) (tc_chans cfg) ->
    let ti := nth t (s_threads sx) dummy_info in
    r_val (raw_of st t k) =
    match running_top st (ti_loom ti) (ti_pid ti) (nth t (threads st) dummy_thread) mdl with
    | Some (tk, b) => expected_field ti tk b f
    | None => None
    end.
Proof. exact reachable_tv. Qed.
Print Assumptions C07_task_channels.

Theorem C07_views_types_ok : forall sx en ms,
  In en (sublists all_models) -> s_chans sx = DecodeDefs.mk_chans en ++ MarkDefs.mark_chans ms ->
  NoDup (map MarkDefs.mt_type ms) -> (forall m, In m ms -> 0 <= MarkDefs.mt_type m) -> types_ok sx.
Proof. exact types_ok_marks. Qed.
Print Assumptions C07_views_types_ok.

(* non-vacuity: a nOS-V history: type, task, execute, pause, resume, end *)
Definition chansV := DecodeDefs.mk_chans [DecodeDefs.M_OVNI; DecodeDefs.M_NOSV].
Definition sxV : static :=
  {| s_threads := [{| ti_tid := 7; ti_pid := 1; ti_loom := 0; ti_appid := 1; ti_rank := -1 |}];
     s_cpus := [{| ci_virtual := false; ci_loom := 0; ci_index := 0 |}; {| ci_virtual := true; ci_loom := 0; ci_index := -1 |}];
     s_chans := chansV; s_lint := false |}.
Definition cfgV := DecodeDefs.nosv_cfg chansV.
Example C07_ex_history :
  match run_from sxV (init sxV)
        [(10, 0%nat, EvOvni (Execute 0));
         (11, 0%nat, EvTypeCreate 4 86 5 1234);
         (12, 0%nat, EvTaskCreate 4 86 1 5 false true true false);
         (13, 0%nat, EvTask cfgV 86 K_EXEC 1 0);
         (14, 0%nat, EvTask cfgV 86 K_PAUSE 1 0);
         (15, 0%nat, EvTask cfgV 86 K_RESUME 1 0);
         (16, 0%nat, EvTask cfgV 86 K_END 1 0);
         (17, 0%nat, EvTask cfgV 86 K_EXEC 1 0)] with
  | Ok (st, _) => map (fun tk => map (fun b => (b_state b, b_on b)) (tk_bodies tk)) (tasks st)
  | Err _ => []
  end = [[(BRunning, Some 0%nat)]].
Proof. vm_compute. reflexivity. Qed.
Example C07_ex_twice_refused :
  match run_from sxV (init sxV)
        [(10, 0%nat, EvOvni (Execute 0)); (11, 0%nat, EvTypeCreate 4 86 5 1234);
         (12, 0%nat, EvTaskCreate 4 86 1 5 false true true false);
         (13, 0%nat, EvTask cfgV 86 K_EXEC 1 0); (14, 0%nat, EvTask cfgV 86 K_EXEC 1 0)] with
  | Ok _ => true | Err _ => false end = false.
Proof. vm_compute. reflexivity. Qed.

(* non-vacuity of C07_views: the same history as raw events (OHx, VYc, VTc, VTx, VTp, VTr, VTe) through the decoder;
   the hypotheses hold, and the rows task id (10), type (11), body id (15), app id (12), rank (14) of the thread
   show the fields after x and after r, and nothing after c, p and e (the process has no rank: always 0) *)
Definition enV := [DecodeDefs.M_OVNI; DecodeDefs.M_NOSV].
Definition rawV : list raw_event :=
  [(10, 0%nat, (79, 72, 120), [0; 0; 0; 0], false, 0);
   (11, 0%nat, (86, 89, 99), [0; 0; 0; 0; 5; 0; 0; 0], true, 1234);
   (12, 0%nat, (86, 84, 99), [1; 0; 0; 0; 5; 0; 0; 0], false, 0);
   (13, 0%nat, (86, 84, 120), [1; 0; 0; 0; 0; 0; 0; 0], false, 0);
   (14, 0%nat, (86, 84, 112), [1; 0; 0; 0; 0; 0; 0; 0], false, 0);
   (15, 0%nat, (86, 84, 114), [1; 0; 0; 0; 0; 0; 0; 0], false, 0);
   (16, 0%nat, (86, 84, 101), [1; 0; 0; 0; 0; 0; 0; 0], false, 0)].
Example C07_ex_views_hyps :
  In enV (sublists all_models) /\ s_chans sxV = DecodeDefs.mk_chans enV ++ MarkDefs.mark_chans [] /\ types_ok sxV /\
  task_models enV (s_chans sxV) = [(cfgV, 86)] /\
  map (fun '(f, k) => (f, cs_type (spec_of sxV k))) (tc_chans cfgV) = [(FBody, 15); (FTask, 10); (FType, 11); (FApp, 12); (FRank, 14)] /\
  (exists st tl, run_from sxV (init sxV) (decode_events enV (s_chans sxV) rawV) = Ok (st, tl)).
Proof.
  split.
  { assert (H : existsb (fun l => if list_eq_dec Z.eq_dec l enV then true else false) (sublists all_models) = true) by (vm_compute; reflexivity).
    apply existsb_exists in H as (l & Hin & E). destruct (list_eq_dec Z.eq_dec l enV) as [->|]; [exact Hin|discriminate E]. }
  split; [vm_compute; reflexivity|]. split; [apply types_okb_ok; vm_compute; reflexivity|].
  split; [vm_compute; reflexivity|]. split; [vm_compute; reflexivity|].
  destruct (run_from sxV (init sxV) (decode_events enV (s_chans sxV) rawV)) as [[st tl]|] eqn:E; [eauto|].
  vm_compute in E. discriminate E.
Qed.
Example C07_ex_views :
  map (fun n => match run_from sxV (init sxV) (decode_events enV chansV (firstn n rawV)) with
                | Ok (_, tl) => Some (map (fun ty => EmitProofs.shown (lines_of tl) (false, 0%nat, ty)) [10; 11; 15; 12; 14])
                | Err _ => None
                end) [3; 4; 5; 6; 7]%nat
  = [Some [0; 0; 0; 0; 0]; Some [1; 1234; 1; 1; 0]; Some [0; 0; 0; 0; 0]; Some [1; 1234; 1; 1; 0]; Some [0; 0; 0; 0; 0]].
Proof. vm_compute. reflexivity. Qed.

(* ---------------------------------------------------------------------------------------------
   The tie to the source.  Gen/Guards_gen.v is regenerated on every run by translate/units/guards.py from
   src/emu/body.c (body_execute, body_pause, body_resume, body_end, body_can_resurrect, body_can_pause,
   body_get_running) and src/emu/task.c (task_execute, task_pause, task_resume, task_end, create_body,
   task_is_parallel): one Gallina definition per C function, statement by statement, in the monad of
   Emu/GuardsPre.v (body_find, body_create, DL_PREPEND/DL_DELETE on stack->top and the field accessors are
   primitives with a hand-written meaning).  The theorem says the generated functions, called the way the
   models' handlers call them (the body stack of model mdl of the current thread; the task found by its id in the
   process of that thread, NULL when there is none; a non-zero body id for execute, as the handlers guarantee),
   compute what the hand model task_op - the subject of C07_transition_iff and of the invariants above -
   computes: the same accepted state, or both reject, and no NULL dereference.  No hypothesis on the state. *)
Theorem C07_body_task_from_source : forall sx st who th me mdl tid bid,
  nth_error (threads st) who = Some th -> nth_error (s_threads sx) who = Some me ->
  let loom := ti_loom me in let pid := ti_pid me in
  let stack := Some (who, mdl) in
  let task := GuardsTaskProofs.task_ptr me mdl tid st in
  (bid <> 0 ->
   outcome_of (exec (Guards_gen.task_execute stack task bid) sx st) = outcome_of (task_op st who th loom pid mdl 120 tid bid)) /\
  outcome_of (exec (Guards_gen.task_pause stack task bid) sx st) = outcome_of (task_op st who th loom pid mdl 112 tid bid) /\
  outcome_of (exec (Guards_gen.task_resume stack task bid) sx st) = outcome_of (task_op st who th loom pid mdl 114 tid bid) /\
  outcome_of (exec (Guards_gen.task_end stack task bid) sx st) = outcome_of (task_op st who th loom pid mdl 101 tid bid).
Proof. exact GuardsTaskProofs.task_ops_eq. Qed.
Print Assumptions C07_body_task_from_source.

(* the generated functions evaluated on a pausable task: x p r e is accepted and leaves the body dead and the stack
   empty; x x, x r, p (nothing runs), x e e and x p e are refused *)
Example C07_ex_generated :
  match GuardsTaskProofs.gen_ops [120; 112; 114; 101] with
  | Ok s => (map (fun tk => map (fun b => (b_id b, GuardsPre.bstate_code (b_state b), b_on b)) (tk_bodies tk)) (tasks s),
             map t_bstack (threads s))
  | Err _ => ([], [])
  end = ([[(1, 4, None)]], [[]]) /\
  map (fun ops => outcome_of (GuardsTaskProofs.gen_ops ops)) [[120; 120]; [120; 114]; [112]; [120; 101; 101]; [120; 112; 101]]
  = [Reject; Reject; Reject; Reject; Reject].
Proof. vm_compute. split; reflexivity. Qed.

(* ==== task event handlers from source (unit taskev) ==== *)
(* Gen/TaskNosv_gen.v and Gen/TaskNanos6_gen.v (translate/units/taskev.py) render pre_task, create_task, update_task,
   update_task_state, update_task_ss_channel, expand_transition_value (its out parameter as the returned value),
   update_task_channels, enforce_task_rules and chan_body_stopped / chan_body_running / chan_body_switch
   (chan_task_* for Nanos6) of nosv/event.c and nanos6/event.c, with body_get_id / body_get_task / body_get_state
   (body.c) and task_is_parallel / task_get_running (task.c), over the world of Emu/TaskEvPre.v.  There task_execute
   ... task_end and body_get_running ARE the functions of Gen/Guards_gen.v (C07_body_task_from_source), chan_set /
   chan_push / chan_pop ARE chan_step (C08_chan_ops_from_source).
   nOS-V: pre_task on VTx / VTe / VTp / VTr = EmuCoreDefs.task_event with nosv_cfg (same accepted state and
   written channels, or both refuse), through the pieces below (TaskEvProofs.m_state = lookup, body id rule, task_op;
   the subsystem channel; the nested-transition value; the three channel functions as the write sequences that
   task_event performs, reading task / body / process fields in the state current at each write; enforce_task_rules),
   and create_task = task_create.  In the nested transitions (x over a running body, e uncovering one) the C compares
   the two body pointers and the model their (task id, body id): equal, because both lookups are first-match lookups
   by id and an accepted task_op replaces one body in place or appends one (TaskEvProofs.ptr_ids).  When the
   model refuses the C refuses too and does not dereference NULL: chan_body_running / enforce_task_rules are only
   reached with the running body an accepted execute / resume leaves on top of the stack (TaskEvProofs.run_after).
   Nanos6 likewise (C07_task_events_nanos6_from_source: nanos6_cfg, body id always 1, no app id test, no body id
   channel; the C compares the two task pointers, the model their ids). *)
From OV Require Emu.TaskEvPre Gen.TaskNosv_gen Gen.TaskNanos6_gen Proofs.TaskEvProofs.
Theorem C07_task_events_from_source : forall sx cs who me, nth_error (s_threads sx) who = Some me ->
  forall st th v p, nth_error (threads st) who = Some th -> TaskEvProofs.kinds v -> (8 <= length p)%nat ->
  let E := {| TaskEvPre.te_sx := sx; TaskEvPre.te_cs := cs |} in
  match task_event sx st who (DecodeDefs.nosv_cfg cs) DecodeDefs.M_NOSV v (DecodeDefs.le_u32 p 0) (DecodeDefs.le_u32 p 4) with
  | Ok (st', d) => TaskNosv_gen.pre_task (TaskEvProofs.mk who DecodeDefs.M_NOSV v p) E (TaskEvProofs.W st []) = Ok (tt, TaskEvProofs.W st' d)
  | Err _ => exists e', TaskNosv_gen.pre_task (TaskEvProofs.mk who DecodeDefs.M_NOSV v p) E (TaskEvProofs.W st []) = Err e' /\
                        e' <> TaskEvPre.E_TRAP
  end.
Proof. exact TaskEvProofs.nosv_task_events. Qed.
Print Assumptions C07_task_events_from_source.

(* the pieces *)
Theorem C07_task_state_from_source : forall sx cs who me, nth_error (s_threads sx) who = Some me ->
  forall st th v p d, nth_error (threads st) who = Some th -> TaskEvProofs.kinds v -> (8 <= length p)%nat ->
  let E := {| TaskEvPre.te_sx := sx; TaskEvPre.te_cs := cs |} in
  match TaskEvProofs.m_state who me st th true DecodeDefs.M_NOSV v (DecodeDefs.le_u32 p 0) (DecodeDefs.le_u32 p 4) with
  | Ok s1 => TaskNosv_gen.update_task_state (TaskEvProofs.mk who DecodeDefs.M_NOSV v p) E (TaskEvProofs.W st d) = Ok (tt, TaskEvProofs.W s1 d)
  | Err _ => exists e', TaskNosv_gen.update_task_state (TaskEvProofs.mk who DecodeDefs.M_NOSV v p) E (TaskEvProofs.W st d) = Err e' /\
                        e' <> TaskEvPre.E_TRAP
  end.
Proof. exact TaskEvProofs.nosv_state_eq. Qed.
Print Assumptions C07_task_state_from_source.

(* chan_body_running: the three refusals (task id 0, type gid 0, app id <= 0), then the writes of body id, task id,
   type gid, app id and - for a process with a rank - rank + 1, in this order *)
Theorem C07_task_channels_from_source : forall sx cs who me, nth_error (s_threads sx) who = Some me ->
  forall v p i j w,
  let E := {| TaskEvPre.te_sx := sx; TaskEvPre.te_cs := cs |} in
  TaskNosv_gen.chan_body_running (TaskEvProofs.mk who DecodeDefs.M_NOSV v p) (Some (i, j)) E w =
  (if (TaskEvPre.get_task_id E w (Some (TaskEvPre.TaskAt i)) =? 0) then Err TaskEvPre.E_FAIL
   else if (TaskEvPre.get_task_type_gid E w (Some (TaskEvPre.TaskAt i)) =? 0) then Err TaskEvPre.E_FAIL
   else if (ti_appid (TaskEvPre.tinfo E who) <=? 0) then Err TaskEvPre.E_FAIL
   else TaskEvProofs.seqF who DecodeDefs.M_NOSV (TaskEvProofs.nosv_ws sx cs who (Some (i, j)) (Some (TaskEvPre.TaskAt i))) E w) /\
  TaskNosv_gen.chan_body_stopped (TaskEvProofs.mk who DecodeDefs.M_NOSV v p) E w =
  TaskEvProofs.seqF who DecodeDefs.M_NOSV (TaskEvProofs.nosv_null_ws sx cs who) E w /\
  forall bp, TaskNosv_gen.chan_body_switch (TaskEvProofs.mk who DecodeDefs.M_NOSV v p) bp (Some (i, j)) E w =
  (if CInt.is_null bp then Err TaskEvPre.E_FAIL else if TaskEvPre.ptr_eqb_body bp (Some (i, j)) then Err TaskEvPre.E_FAIL
   else if (TaskEvPre.get_task_id E w (Some (TaskEvPre.TaskAt i)) =? 0) then Err TaskEvPre.E_FAIL
   else if (TaskEvPre.get_task_type_gid E w (Some (TaskEvPre.TaskAt i)) =? 0) then Err TaskEvPre.E_FAIL
   else TaskEvProofs.seqF who DecodeDefs.M_NOSV (TaskEvProofs.nosv_ws sx cs who (Some (i, j)) (Some (TaskEvPre.TaskAt i))) E w).
Proof.
  intros sx cs who me Hme v p i j w E. split; [|split].
  - exact (TaskEvProofs.nosv_running_gen sx cs who v p i j w).
  - exact (TaskEvProofs.nosv_stopped_gen sx cs who v p w).
  - intros bp. exact (TaskEvProofs.nosv_switch_gen sx cs who v p bp i j w).
Qed.
Print Assumptions C07_task_channels_from_source.

(* such a sequence of writes is the model's set_chans, and leaves the tasks alone *)
Theorem C07_task_writes_are_set_chans : forall sx cs who m ws,
  Forall (fun x => TaskEvProofs.inv (snd x)) ws -> forall s d,
  let E := {| TaskEvPre.te_sx := sx; TaskEvPre.te_cs := cs |} in
  match set_chans sx s who (map (fun x => (DecodeDefs.chan_of cs m (fst x), snd x (TaskEvProofs.W s d))) ws) d with
  | Ok (s3, d3) => TaskEvProofs.seqF who m ws E (TaskEvProofs.W s d) = Ok (tt, TaskEvProofs.W s3 d3) /\ tasks s3 = tasks s
  | Err _ => TaskEvProofs.seqF who m ws E (TaskEvProofs.W s d) = Err TaskEvPre.E_FAIL
  end.
Proof. exact TaskEvProofs.seqF_eq. Qed.
Print Assumptions C07_task_writes_are_set_chans.

(* pre_task on VTc / VTC: create_task, with the flags word of the C decoded into the model's four booleans *)
Theorem C07_task_create_from_source : forall sx cs who (me : thread_info) st v p d, v = 67 \/ v = 99 -> (8 <= length p)%nat ->
  let E := {| TaskEvPre.te_sx := sx; TaskEvPre.te_cs := cs |} in
  match task_create sx st who DecodeDefs.M_NOSV (DecodeDefs.le_u32 p 0) (DecodeDefs.le_u32 p 4) (v =? 67) (negb (v =? 67)) (negb (v =? 67)) false with
  | Ok s' => TaskNosv_gen.pre_task (TaskEvProofs.mk who DecodeDefs.M_NOSV v p) E (TaskEvProofs.W st d) = Ok (tt, TaskEvProofs.W s' d)
  | Err _ => TaskNosv_gen.pre_task (TaskEvProofs.mk who DecodeDefs.M_NOSV v p) E (TaskEvProofs.W st d) = Err TaskEvPre.E_FAIL
  end.
Proof. exact TaskEvProofs.nosv_pre_task_create. Qed.
Print Assumptions C07_task_create_from_source.
Theorem C07_task_events_nanos6_from_source : forall sx cs who me, nth_error (s_threads sx) who = Some me ->
  forall st th v p, nth_error (threads st) who = Some th -> TaskEvProofs.kinds v -> (4 <= length p)%nat ->
  let E := {| TaskEvPre.te_sx := sx; TaskEvPre.te_cs := cs |} in
  match task_event sx st who (DecodeDefs.nanos6_cfg cs) DecodeDefs.M_NANOS6 v (DecodeDefs.le_u32 p 0) 0 with
  | Ok (st', d) => TaskNanos6_gen.pre_task (TaskEvProofs.mk who DecodeDefs.M_NANOS6 v p) E (TaskEvProofs.W st []) = Ok (tt, TaskEvProofs.W st' d)
  | Err _ => exists e', TaskNanos6_gen.pre_task (TaskEvProofs.mk who DecodeDefs.M_NANOS6 v p) E (TaskEvProofs.W st []) = Err e' /\
                        e' <> TaskEvPre.E_TRAP
  end.
Proof. exact TaskEvProofs.n6_task_events. Qed.
Print Assumptions C07_task_events_nanos6_from_source.

(* pre_task on 6Tc: exactly 8 bytes of payload, flags PAUSE | RELAX_NESTING (the old 6TC is accepted and ignored:
   TaskEvProofs.n6_pre_task_old_create) *)
Theorem C07_task_create_nanos6_from_source : forall sx cs who st p d, length p = 8%nat ->
  let E := {| TaskEvPre.te_sx := sx; TaskEvPre.te_cs := cs |} in
  match task_create sx st who DecodeDefs.M_NANOS6 (DecodeDefs.le_u32 p 0) (DecodeDefs.le_u32 p 4) false false true true with
  | Ok s' => TaskNanos6_gen.pre_task (TaskEvProofs.mk who DecodeDefs.M_NANOS6 99 p) E (TaskEvProofs.W st d) = Ok (tt, TaskEvProofs.W s' d)
  | Err _ => TaskNanos6_gen.pre_task (TaskEvProofs.mk who DecodeDefs.M_NANOS6 99 p) E (TaskEvProofs.W st d) = Err TaskEvPre.E_FAIL
  end.
Proof. exact TaskEvProofs.n6_pre_task_create. Qed.
Print Assumptions C07_task_create_nanos6_from_source.
(* ==== end of block (unit taskev) ==== *)

(* ==== task / type / body creation from source (unit taskc) ==== *)
(* The creation functions the units guards and taskev use as hand primitives are regenerated on every run into
   Gen/TaskC_gen.v (translate/units/taskc.py): task_get_id, task_find, task_type_find, task_create, task_type_create of
   src/emu/task.c and body_find, body_create of src/emu/body.c, over the prelude Emu/TaskCPre.v (ONE struct task_info;
   uthash tables = insertion-ordered lists; calloc = a pending object that becomes entry number `length` when HASH_ADD
   appends it; snprintf formats parsed by the translator; task_get_type_gid = the gid the environment supplies for a
   label).  Emu/TaskCRelDefs.v: `Rep L P M c st` reads that task_info inside the emulator-core state: its types / tasks
   are, in insertion order, the entries of `types st` / `tasks st` with key (L, P, M); the four flag bits are the four
   booleans; a task's type pointer designates the type whose gid the model stores.  Proofs/TaskCProofs.v. *)
From OV Require Emu.PvWPre Emu.TaskCPre Emu.TaskCRelDefs Gen.TaskC_gen Proofs.TaskCProofs.
Module TCP := TaskCPre.
Module TCR := TaskCRelDefs.
Module TCG := TaskC_gen.
Module TCT := TaskCProofs.

Theorem C07_task_creation_from_source :
  (* task_create: refuses an existing task id and an unknown type, otherwise appends the task with its flags and the
     gid of its type - exactly EmuCoreDefs.task_create (the primitive of unit taskev) *)
  (forall sx cx c st who ti mdl id ty fl,
     TCP.c_calloc_ok cx = true -> nth_opt (s_threads sx) who = Some ti -> TCR.Rep (ti_loom ti) (ti_pid ti) mdl c st ->
     match EmuCoreDefs.task_create sx st who mdl id ty (TCR.flagb fl 1) (TCR.flagb fl 2) (TCR.flagb fl 4) (TCR.flagb fl 8) with
     | Ok st' => exists c', TCG.task_create tt ty id fl cx c = Ok (tt, c') /\ TCR.Rep (ti_loom ti) (ti_pid ti) mdl c' st'
     | Err _ => TCG.task_create tt ty id fl cx c = Err PvWPre.E_FAIL
     end) /\
  (* task_type_create (labels shorter than MAX_PCF_LABEL; an empty label becomes "(unlabeled task type N)"): refuses an
     existing type id and id 0, otherwise appends the type with the gid of its label - exactly EmuCoreDefs.type_create *)
  (forall sx cx c st who ti mdl ty label,
     TCP.c_calloc_ok cx = true -> 0 <= ty < 2 ^ 32 -> PvDefs.slen (TCT.type_label ty label) < 512 ->
     nth_opt (s_threads sx) who = Some ti -> TCR.Rep (ti_loom ti) (ti_pid ti) mdl c st ->
     match EmuCoreDefs.type_create sx st who mdl ty (TCP.c_gid cx (TCT.type_label ty label)) with
     | Ok st' => exists c', TCG.task_type_create tt ty label cx c = Ok (tt, c') /\ TCR.Rep (ti_loom ti) (ti_pid ti) mdl c' st'
     | Err _ => TCG.task_type_create tt ty label cx c = Err PvWPre.E_FAIL
     end) /\
  (* task_find / task_type_find = find_task / find_type (NULL exactly when the model finds nothing) *)
  (forall cx c st L P mdl id, TCR.Rep L P mdl c st ->
     (find_task st L P mdl id = None <-> PvWPre.find_idx (fun o => TCP.k_id o =? id) (TCP.s_tasks c) = None) /\
     (find_type (types st) L P mdl id = None <-> PvWPre.find_idx (fun o => TCP.y_id o =? id) (TCP.s_types c) = None) /\
     TCG.task_find (TCP.get_task_info_tasks cx c tt) id cx c = Ok (PvWPre.find_idx (fun o => TCP.k_id o =? id) (TCP.s_tasks c), c) /\
     TCG.task_type_find (TCP.get_task_info_types cx c tt) id cx c = Ok (PvWPre.find_idx (fun o => TCP.y_id o =? id) (TCP.s_types c), c)) /\
  (* body_create: refuses body id 0, an existing id and a NULL task, otherwise appends a Created body with the flags it is
     given - the decision and the new table of GuardsPre.body_create / the creation inside task_op's execute case *)
  (forall cx c t o tk task id fl, TCP.c_calloc_ok cx = true -> nth_error (TCP.s_tasks c) t = Some o ->
     map TCP.cb_id (TCP.k_bodies o) = map b_id (tk_bodies tk) ->
     (forall t', task = Some t' -> PvDefs.slen (TCT.body_name id (TCP.k_id (TCP.kobj c task))) < 256) ->
     match TCT.model_body_create tk (match task with Some _ => true | None => false end) id with
     | None => TCG.body_create (Some t) task id fl cx c = Ok (None, c)
     | Some bs' =>
       exists c' o' nb, TCG.body_create (Some t) task id fl cx c = Ok (Some TCP.BNew, c') /\
         nth_error (TCP.s_tasks c') t = Some o' /\ TCP.k_bodies o' = TCP.k_bodies o ++ [nb] /\
         map TCP.cb_id (TCP.k_bodies o') = map b_id bs' /\
         TCP.cb_state nb = 1 /\ TCP.cb_flags nb = fl /\ TCP.cb_task nb = task /\ TCP.k_id o' = TCP.k_id o /\
         TCP.k_flags o' = TCP.k_flags o /\ TCP.k_type o' = TCP.k_type o /\ TCP.s_types c' = TCP.s_types c
     end).
Proof.
  exact (conj TCT.task_create_bridge (conj TCT.type_create_bridge (conj TCT.find_bridge TCT.body_create_bridge))).
Qed.
Print Assumptions C07_task_creation_from_source.

(* the model's body-creation decision is GuardsPre.body_create's: stated against the primitive itself *)
Theorem C07_body_create_decision_is_guards_primitive : forall sx st i tk id,
  nth_opt (tasks st) i = Some tk ->
  match TCT.model_body_create tk true id with
  | None => body_create (Some i) (Some i) id (body_flags_of tk) sx st = Ok (None, st)
  | Some bs' => body_create (Some i) (Some i) id (body_flags_of tk) sx st =
                Ok (Some (i, length (tk_bodies tk)), store_body st i tk None {| b_id := id; b_state := BCreated; b_on := None |}) /\
                bs' = tk_bodies tk ++ [{| b_id := id; b_state := BCreated; b_on := None |}]
  end.
Proof.
  intros sx st i tk id N. unfold TCT.model_body_create, body_create. destruct (id =? 0); [reflexivity|].
  rewrite N. destruct (find_body tk id); [reflexivity|]. rewrite Nat.eqb_refl, Z.eqb_refl. cbn [negb]. split; reflexivity.
Qed.
Print Assumptions C07_body_create_decision_is_guards_primitive.

(* the explicit results (what the mutations break) *)
Theorem C07_task_create_result_from_source : forall sx st ty id fl, TCP.c_calloc_ok sx = true ->
  TCG.task_create tt ty id fl sx st =
  match PvWPre.find_idx (fun o => TCP.k_id o =? id) (TCP.s_tasks st) with
  | Some _ => Err PvWPre.E_FAIL
  | None =>
    match PvWPre.find_idx (fun o => TCP.y_id o =? ty) (TCP.s_types st) with
    | None => Err PvWPre.E_FAIL
    | Some y => Ok (tt, TCP.mk (TCP.s_types st) (TCP.s_ynew st) (TCP.s_tasks st ++ [TCT.new_task id fl y]) None (TCP.s_bnew st))
    end
  end.
Proof. exact TCT.task_create_eq. Qed.
Print Assumptions C07_task_create_result_from_source.

Theorem C07_task_type_create_result_from_source : forall sx st ty label, TCP.c_calloc_ok sx = true -> 0 <= ty < 2 ^ 32 ->
  TCG.task_type_create tt ty label sx st =
  match PvWPre.find_idx (fun o => TCP.y_id o =? ty) (TCP.s_types st) with
  | Some _ => Err PvWPre.E_FAIL
  | None =>
    if ty =? 0 then Err PvWPre.E_FAIL
    else if 512 <=? PvDefs.slen (TCT.type_label ty label) then Err PvWPre.E_FAIL
    else Ok (tt, TCP.mk (TCP.s_types st ++ [{| TCP.y_id := ty; TCP.y_gid := TCP.c_gid sx (TCT.type_label ty label);
                                              TCP.y_label := TCT.type_label ty label |}])
                        None (TCP.s_tasks st) (TCP.s_knew st) (TCP.s_bnew st))
  end.
Proof. exact TCT.task_type_create_eq. Qed.
Print Assumptions C07_task_type_create_result_from_source.

(* non-vacuity, by computation on the generated code: a type, a task of it, a duplicate task, an unknown type, type id 0,
   a body, the same body again, body 0 *)
Definition tc_env : TCP.cenv := {| TCP.c_calloc_ok := true; TCP.c_gid := fun l => 1000 + PvDefs.slen l |}.
Definition tc_st0 : TCP.cst := TCP.mk [] None [] None None.

Example C07_ex_creation_from_source :
  match TCP.bind_ (TCG.task_type_create tt 5 [84; 121]) (TCP.bind_ (TCG.task_create tt 5 9 6)
          (TCP.bind (TCG.body_create (Some 0%nat) (Some 0%nat) 1 3) (fun b1 =>
           TCP.bind (TCG.body_create (Some 0%nat) (Some 0%nat) 1 3) (fun b2 =>
           TCP.bind (TCG.body_create (Some 0%nat) (Some 0%nat) 0 3) (fun b3 => TCP.ret (b1, b2, b3)))))) tc_env tc_st0 with
  | Ok ((b1, b2, b3), c) =>
    b1 = Some TCP.BNew /\ b2 = None /\ b3 = None /\
    TCP.s_types c = [{| TCP.y_id := 5; TCP.y_gid := 1002; TCP.y_label := [84; 121] |}] /\
    map TCP.k_id (TCP.s_tasks c) = [9] /\ map TCP.k_flags (TCP.s_tasks c) = [6] /\ map TCP.k_type (TCP.s_tasks c) = [Some 0%nat] /\
    map (fun k => map TCP.cb_id (TCP.k_bodies k)) (TCP.s_tasks c) = [[1]] /\
    map (fun k => map TCP.cb_flags (TCP.k_bodies k)) (TCP.s_tasks c) = [[3]]
  | Err _ => False
  end /\
  TCP.bind_ (TCG.task_type_create tt 5 [84]) (TCP.bind_ (TCG.task_create tt 5 9 0) (TCG.task_create tt 5 9 0)) tc_env tc_st0 = Err PvWPre.E_FAIL /\
  TCP.bind_ (TCG.task_type_create tt 5 [84]) (TCG.task_create tt 6 9 0) tc_env tc_st0 = Err PvWPre.E_FAIL /\
  TCG.task_type_create tt 0 [84] tc_env tc_st0 = Err PvWPre.E_FAIL /\
  TCP.bind_ (TCG.task_type_create tt 5 [84]) (TCG.task_type_create tt 5 [85]) tc_env tc_st0 = Err PvWPre.E_FAIL.
Proof. vm_compute. repeat split. Qed.
(* ==== end of block (unit taskc) ==== *)
