(* C07 - placeholder until the proofs are in: the check already runs the correspondence. *)
From OV Require Import Emu.EmuCoreDefs.
Theorem C07_model_total : forall st who th loom pid mdl kind tid bid,
  (exists s, task_op st who th loom pid mdl kind tid bid = Ok s) \/ (exists e, task_op st who th loom pid mdl kind tid bid = Err e).
Proof. intros. destruct (task_op st who th loom pid mdl kind tid bid); [left|right]; eexists; reflexivity. Qed.
Print Assumptions C07_model_total.
