(* C18, decode clause: "... and ovnidump decodes every listed event with a payload of the
   declared shape into its description with the argument values substituted" - all argument
   values.  Only statements here; proofs are in Proofs/EvSpecProofs.v; the model of
   src/emu/ev_spec.c (compile = ev_spec_compile, render = ev_spec_print, dump = what ovnidump
   prints after the stream path) is Tools/EvSpecDefs.v; evdescs (Gen/Tables_gen.v) is the
   list of (model id, signature, description) dumped from /repo's compiled sources on every run.

   Reading guide: [payload_of sp vals] is the payload emu_ev hands over for an event of the
   declared shape carrying the values [vals] (little endian two's complement, a string with its
   final 0, the u32 size field first for a jumbo event; None for an event without arguments);
   [subst ps env] is the description with "%%" -> "%" and every "%{name}" / "%#llx{name}"
   replaced by the text of the value; [fits_closed 1023 ps env] = the whole text has at most
   1023 bytes and the text up to and including the last substituted argument at most 1022. *)
From Coq Require Import ZArith List Bool.
From OV Require Import Tools.EvSpecDefs Gen.Tables_gen Proofs.EvSpecProofs.
Import ListNotations.
Local Open Scope Z_scope.

(* -- layout: for ANY compiled signature whose str argument (if any) is last and ANY values in
   range of their types (strings without NUL), each argument decoded from the encoded payload
   at its computed offset is the value given *)
Theorem C18_dump_layout_roundtrip : forall sig sp vals,
  compile sig = Some sp -> str_last (s_args sp) = true -> vals_ok (map a_type (s_args sp)) vals ->
  forall i a v, nth_error (s_args sp) i = Some a -> nth_error vals i = Some v ->
  exists p, payload_of sp vals = Some p /\ decode_arg a p = Some v.
Proof. exact layout_roundtrip. Qed.
Print Assumptions C18_dump_layout_roundtrip.

(* the offsets of a compiled signature are the running sums of the sizes, from 4 when jumbo *)
Theorem C18_dump_compile_wf : forall sig sp, compile sig = Some sp ->
  offsets_from (if s_jumbo sp then 4%nat else 0%nat) (s_args sp) /\
  Forall (fun a => (length (a_name a) < 64)%nat) (s_args sp) /\
  (length (s_args sp) <= 16)%nat /\
  (s_args sp = [] -> s_jumbo sp = false) /\
  s_psize sp = ((if s_jumbo sp then 4 else 0) + sum_sizes (s_args sp))%nat.
Proof. exact compile_wf. Qed.
Print Assumptions C18_dump_compile_wf.

(* -- render = substitution, with the exact overflow boundary: for ANY signature, description
   and values as above (description using only declared names and supported formats) *)
Theorem C18_dump_render_exact : forall sig sp desc ps vals,
  compile sig = Some sp -> str_last (s_args sp) = true -> vals_ok (map a_type (s_args sp)) vals ->
  parse desc = Some ps -> supported sp ps = true ->
  render sp desc (payload_of sp vals) =
  if fits_closed (OUTLEN - 1) ps (env_of sp vals) then Ok (subst ps (env_of sp vals)) else Err.
Proof. exact render_exact. Qed.
Print Assumptions C18_dump_render_exact.

Theorem C18_dump_render_subst : forall sig sp desc ps vals,
  compile sig = Some sp -> str_last (s_args sp) = true -> vals_ok (map a_type (s_args sp)) vals ->
  parse desc = Some ps -> supported sp ps = true ->
  Z.of_nat (length (subst ps (env_of sp vals))) < OUTLEN - 1 ->
  render sp desc (payload_of sp vals) = Ok (subst ps (env_of sp vals)).
Proof. exact render_subst. Qed.
Print Assumptions C18_dump_render_subst.

(* the piecewise room test of the code (a literal needs len >= 1, an argument of n characters
   needs n < len) equals the closed form used above *)
Theorem C18_dump_room_closed_form : forall ps env len, 0 <= len -> fits len ps env = fits_closed len ps env.
Proof. exact fits_closed_eq. Qed.
Print Assumptions C18_dump_room_closed_form.

(* an event declared without arguments prints its description whatever payload it carries *)
Theorem C18_dump_noargs_any_payload : forall sp desc ps pl,
  s_args sp = [] -> parse desc = Some ps -> supported sp ps = true ->
  render sp desc pl =
  if Z.of_nat (length (subst ps (fun _ => None))) <=? OUTLEN - 1 then Ok (subst ps (fun _ => None)) else Err.
Proof. exact render_noargs. Qed.
Print Assumptions C18_dump_noargs_any_payload.

(* outside the declared shape: no payload for a description that names an argument = UNKNOWN *)
Theorem C18_dump_missing_payload : forall sp desc ps,
  parse desc = Some ps -> existsb is_arg ps = true -> render sp desc None = Err.
Proof. exact render_missing_payload. Qed.
Print Assumptions C18_dump_missing_payload.

(* the texts of numbers denote the numbers (guards the fuel of the digit function) *)
Theorem C18_dump_decimal_value : forall n, 0 <= n < 2 ^ 64 -> undigits_le 10 (rev (udec n)) = n.
Proof. exact udec_value. Qed.
Print Assumptions C18_dump_decimal_value.

Theorem C18_dump_hex_value : forall n, 0 <= n < 2 ^ 64 -> undigits_le 16 (rev (uhex n)) = n.
Proof. exact uhex_value. Qed.
Print Assumptions C18_dump_hex_value.

(* the fuel of the two loops is never exhausted *)
Theorem C18_dump_render_fuel : forall sp desc pl extra,
  render sp desc pl = render_loop (length (cstr desc) + extra) sp (norm_payload pl) (cstr desc) (OUTLEN - 1).
Proof. exact render_fuel_irrelevant. Qed.
Print Assumptions C18_dump_render_fuel.

Theorem C18_dump_parse_fuel : forall desc extra,
  parse desc = parse_fuel (length (cstr desc) + extra) (cstr desc).
Proof. exact parse_fuel_irrelevant. Qed.
Print Assumptions C18_dump_parse_fuel.

(* -- the declarations of /repo's current tree (by computation over evdescs): every signature
   compiles, its model character is its model's, str only last, every description parses and
   uses only declared names and supported formats; no MCV twice in a model *)
Theorem C18_dump_decls_ok : decls_ok evdescs = true.
Proof. exact decls_ok_evdescs. Qed.
Print Assumptions C18_dump_decls_ok.

Theorem C18_dump_mcv_unique : NoDup (map decl_key evdescs).
Proof. exact listed_mcv_unique. Qed.
Print Assumptions C18_dump_mcv_unique.

Theorem C18_dump_custom_formats : forallb (fun f => list_eqb f FMT_LLX) (custom_formats evdescs) = true.
Proof. exact custom_formats_evdescs. Qed.
Print Assumptions C18_dump_custom_formats.

(* ... hence for EVERY listed event and ALL argument values in range: *)
Theorem C18_dump_listed : forall m sig desc, In (m, sig, desc) evdescs ->
  exists sp ps, compile sig = Some sp /\ fst3 (s_mcv sp) = m /\ parse desc = Some ps /\
  forall vals, vals_ok (map a_type (s_args sp)) vals ->
    dump sig desc (payload_of sp vals) =
    if fits_closed (OUTLEN - 1) ps (env_of sp vals) then DText (subst ps (env_of sp vals)) else DUnknown.
Proof. exact listed_events_dump. Qed.
Print Assumptions C18_dump_listed.

Theorem C18_dump_listed_short : forall m sig desc, In (m, sig, desc) evdescs ->
  exists sp ps, compile sig = Some sp /\ parse desc = Some ps /\
  forall vals, vals_ok (map a_type (s_args sp)) vals ->
    Z.of_nat (length (subst ps (env_of sp vals))) < OUTLEN - 1 ->
    dump sig desc (payload_of sp vals) = DText (subst ps (env_of sp vals)).
Proof. exact listed_events_dump_short. Qed.
Print Assumptions C18_dump_listed_short.

(* -- the property's clause as written (no bound on the values) is FALSE: a listed event with a
   payload of the declared shape that ovnidump prints as UNKNOWN (VYc, type id 7, a label of
   1100 bytes; replayed on the real ovnidump by lib/checks/c18_dump.py, key
   dump-unknown-when-text-exceeds-1023) *)
Theorem C18_dump_unbounded_refuted :
  exists m sig desc sp vals,
    In (m, sig, desc) evdescs /\ compile sig = Some sp /\ str_last (s_args sp) = true /\
    vals_ok (map a_type (s_args sp)) vals /\
    render sp desc (payload_of sp vals) = Err /\ dump sig desc (payload_of sp vals) = DUnknown.
Proof. exact dump_unbounded_refuted. Qed.
Print Assumptions C18_dump_unbounded_refuted.

(* non-vacuity: hypotheses of the general theorems hold for a three-argument declaration with
   boundary values and the custom format; "%%" ; a jumbo declaration with a non-ASCII string *)
Example C18_dump_ex_OHx :
  dump [79;72;120;40;105;51;50;32;99;112;117;44;32;105;51;50;32;116;105;100;44;32;117;54;52;32;116;97;103;41]
       [111;110;32;37;123;99;112;117;125;32;102;114;111;109;32;37;123;116;105;100;125;32;116;97;103;32;37;35;108;108;120;123;116;97;103;125;32;49;48;48;37;37]
       (Some [1;0;0;0; 0;0;0;128; 239;190;173;222;0;0;0;0])
  = DText [111;110;32;49;32;102;114;111;109;32;45;50;49;52;55;52;56;51;54;52;56;32;116;97;103;32;48;120;100;101;97;100;98;101;101;102;32;49;48;48;37].
Proof. vm_compute. reflexivity. Qed.

Example C18_dump_ex_hyps :
  match compile [86;89;99;43;40;117;51;50;32;116;121;112;101;105;100;44;32;115;116;114;32;108;97;98;101;108;41] with
  | Some sp =>
    s_jumbo sp = true /\ map a_off (s_args sp) = [4%nat; 8%nat] /\ str_last (s_args sp) = true /\
    vals_ok (map a_type (s_args sp)) [VInt 4294967295; VStr [255; 195; 169]] /\
    payload_of sp [VInt 4294967295; VStr [255; 195; 169]] = Some [8;0;0;0; 255;255;255;255; 255;195;169;0] /\
    render sp [37;123;116;121;112;101;105;100;125;58;37;123;108;97;98;101;108;125] (payload_of sp [VInt 4294967295; VStr [255; 195; 169]])
    = Ok [52;50;57;52;57;54;55;50;57;53;58;255;195;169]
  | None => False
  end.
Proof. vm_compute. repeat split; try reflexivity. repeat constructor. Qed.

(* the last label length that is printed for VYc/6Yc with a one-digit type id is 990 bytes *)
Example C18_dump_ex_boundary :
  match compile [86;89;99;43;40;117;51;50;32;116;121;112;101;105;100;44;32;115;116;114;32;108;97;98;101;108;41] with
  | Some sp =>
    let desc := [99;114;101;97;116;101;115;32;116;97;115;107;32;116;121;112;101;32;37;123;116;121;112;101;105;100;125;32;119;105;116;104;32;108;97;98;101;108;32;34;37;123;108;97;98;101;108;125;34] in
    (match render sp desc (payload_of sp [VInt 7; VStr (repeat 65 990)]) with Ok t => length t = 1023%nat | _ => False end) /\
    render sp desc (payload_of sp [VInt 7; VStr (repeat 65 991)]) = Err
  | None => False
  end.
Proof. vm_compute. split; reflexivity. Qed.

(* ==== ovnidump's renderer from source (unit evspec) ==== *)
(* src/emu/ev_spec.c advance_out, print_arg (Gen/EvSpec_gen.v over Tools/EvSpecPre.v), advance_in, parse_printf_format,
   parse_arg_name, ev_spec_find_arg, format_region, ev_spec_print (Gen/EvSpecWalk_gen.v over Tools/EvSpecWalkPre.v) and model.c model_event_print
   (Gen/EvSpecModel_gen.v over Tools/EvSpecModelPre.v), GENERATED from the C source: the payload is a block of bytes with explicit
   bounds (a read outside it is the distinct outcome E_OOB), the eight CASE macro expansions as the compiler sees them, snprintf
   for the formats in use built from udec / sdec / hexalt of EvSpecDefs; the loops `for (; *c->in != K; c->in++)` and
   `while ( *c.in != 0 )` are bounded folds over their translated bodies, the search loop of ev_spec_find_arg a counted fold with
   early exit, the caller's char buffers explicit cells.  Still primitives: model_evspec_find (uthash), memcpy / memchr / strcmp /
   snprintf / isalnum / the type_fmt table. *)
From OV Require Tools.EvSpecPre Gen.EvSpec_gen Proofs.EvSpecGenProofs Tools.EvSpecWalkPre Gen.EvSpecWalk_gen Proofs.EvSpecWalkProofs
  Tools.EvSpecModelPre Gen.EvSpecModel_gen.

(* print_arg: same text and cursor, same refusal when the text does not fit or the payload is too short, never E_OOB *)
Theorem C18_dump_print_arg_from_source : forall (a : arg) (f : option (list Z)) (pl : option (list Z)) (st : EvSpecPre.ostate),
  a_size a = ty_size (a_type a) -> (Z.of_nat (a_off a + a_size a) < 2 ^ 63)%Z ->
  EvSpecGenProofs.fmt_in_use f -> pl <> Some [] ->
  (forall p, pl = Some p -> EvSpecGenProofs.bytes_ok p /\ (Z.of_nat (length p) < 2 ^ 63)%Z) -> (0 <= EvSpecPre.o_len st < 2 ^ 31)%Z ->
  EvSpec_gen.print_arg a (EvSpecPre.cfmt_of f (a_type a)) tt (EvSpecPre.ev_of pl) st =
  match print_arg a f pl (EvSpecPre.o_len st) with
  | PErr => EvSpecPre.OErr EvSpecPre.E_FAIL
  | PUnsup => EvSpecPre.OErr EvSpecPre.E_UNSUP
  | POk t => EvSpecPre.OOk (0%Z, EvSpecPre.mkO (EvSpecPre.o_buf st ++ t) [0%Z] (EvSpecPre.o_len st - Z.of_nat (length t))%Z)
  end.
Proof. exact EvSpecGenProofs.print_arg_from_source. Qed.
Print Assumptions C18_dump_print_arg_from_source.

(* ev_spec_print into the 1024-byte buffer = render, for every listed event and every payload: C18_dump_render_exact and
   C18_dump_listed therefore speak about the generated code *)
Theorem C18_dump_print_from_source : forall m sig desc sp pl st,
  In (m, sig, desc) evdescs -> compile sig = Some sp -> EvSpecGenProofs.payload_ok pl ->
  match render sp desc pl with
  | Ok t => exists st', EvSpecWalk_gen.ev_spec_print (EvSpecWalkPre.mkSpecw sp desc) (EvSpecPre.ev_of (norm_payload pl)) tt OUTLEN st = EvSpecPre.OOk (0%Z, st') /\
                        EvSpecPre.o_buf (EvSpecWalkPre.w_o st') = t /\ EvSpecWalkPre.w_in st' = []
  | Err => EvSpecWalk_gen.ev_spec_print (EvSpecWalkPre.mkSpecw sp desc) (EvSpecPre.ev_of (norm_payload pl)) tt OUTLEN st = EvSpecPre.OErr EvSpecWalkPre.E_FAIL
  | Unsupported => EvSpecWalk_gen.ev_spec_print (EvSpecWalkPre.mkSpecw sp desc) (EvSpecPre.ev_of (norm_payload pl)) tt OUTLEN st = EvSpecPre.OErr EvSpecWalkPre.E_UNSUP
  end.
Proof. exact EvSpecWalkProofs.dump_print_from_source. Qed.
Print Assumptions C18_dump_print_from_source.

(* the same for any compiled spec whose description the walk accepts (no NUL met, custom formats among {"#llx"}) *)
Theorem C18_dump_print_any_from_source : forall sp desc pl st,
  Forall EvSpecGenProofs.arg_ok (s_args sp) -> EvSpecGenProofs.payload_ok pl -> EvSpecWalkProofs.desc_ok desc = true ->
  match render sp desc pl with
  | Ok t => exists st', EvSpecWalk_gen.ev_spec_print (EvSpecWalkPre.mkSpecw sp desc) (EvSpecPre.ev_of (norm_payload pl)) tt OUTLEN st = EvSpecPre.OOk (0%Z, st') /\
                        EvSpecPre.o_buf (EvSpecWalkPre.w_o st') = t /\ EvSpecWalkPre.w_in st' = []
  | Err => EvSpecWalk_gen.ev_spec_print (EvSpecWalkPre.mkSpecw sp desc) (EvSpecPre.ev_of (norm_payload pl)) tt OUTLEN st = EvSpecPre.OErr EvSpecWalkPre.E_FAIL
  | Unsupported => EvSpecWalk_gen.ev_spec_print (EvSpecWalkPre.mkSpecw sp desc) (EvSpecPre.ev_of (norm_payload pl)) tt OUTLEN st = EvSpecPre.OErr EvSpecWalkPre.E_UNSUP
  end.
Proof. exact EvSpecWalkProofs.ev_spec_print_from_source. Qed.
Print Assumptions C18_dump_print_any_from_source.

(* model.c model_event_print: the look-up of the event's spec, then exactly the generated ev_spec_print *)
Theorem C18_dump_model_event_print_from_source : forall model ev buflen st,
  EvSpecModel_gen.model_event_print model ev tt buflen st =
  match EvSpecModelPre.assoc Z.eqb (EvSpecModelPre.me_m ev) model with
  | None => EvSpecPre.OErr EvSpecWalkPre.E_FAIL
  | Some tbl =>
    match EvSpecModelPre.assoc list_eqb (EvSpecModelPre.me_mcv ev) tbl with
    | None => EvSpecPre.OErr EvSpecWalkPre.E_FAIL
    | Some es =>
      match EvSpecWalk_gen.ev_spec_print es (EvSpecModelPre.me_ev ev) tt buflen st with
      | EvSpecPre.OOk (r, st') => if (r <? 0)%Z then EvSpecPre.OErr EvSpecWalkPre.E_FAIL else EvSpecPre.OOk (0%Z, st')
      | EvSpecPre.OErr e => EvSpecPre.OErr e
      end
    end
  end.
Proof. exact EvSpecWalkProofs.model_event_print_from_source. Qed.
Print Assumptions C18_dump_model_event_print_from_source.

(* the finding dump-unknown-when-text-exceeds-1023 re-derived for the generated ev_spec_print: it still holds *)
Theorem C18_dump_unbounded_refuted_from_source :
  exists m sig desc sp vals,
    In (m, sig, desc) evdescs /\ compile sig = Some sp /\ str_last (s_args sp) = true /\
    EvSpecProofs.vals_ok (map a_type (s_args sp)) vals /\ EvSpecWalkProofs.gen_text sp desc (payload_of sp vals) = Err.
Proof. exact EvSpecWalkProofs.dump_unbounded_refuted_walk. Qed.
Print Assumptions C18_dump_unbounded_refuted_from_source.

Example C18_dump_ex_from_source :
  EvSpecWalkProofs.walk_dump [VInt 7; VStr []] = Ok [99;114;101;97;116;101;115;32;116;97;115;107;32;116;121;112;101;32;55;32;119;105;116;104;32;108;97;98;101;108;32;34;34]%Z /\
  (match EvSpecWalkProofs.walk_dump [VInt 7; VStr (repeat 65%Z 990)] with Ok t => length t = 1023%nat | _ => False end) /\
  EvSpecWalkProofs.walk_dump [VInt 7; VStr (repeat 65%Z 991)] = Err.
Proof. vm_compute. repeat split; reflexivity. Qed.
(* ==== end of block (unit evspec) ==== *)
