(* C02 - Traces produced through correct API use are valid and accepted by the emulator.
   Only statements here; proofs are in Proofs/RtBufProofs.v.  Model and notation: see
   Props/Properties_C01.v.  `run true` is the model of the REPAIRED add_flush_events
   (patches/fix-c02-flush-markers.diff), `run false` the code before the repair.

   A conformant program here is: ovni_thread_init (part of `run`), any sequence `ops` of emit /
   jumbo-emit / flush / mark calls that the API accepts (otherwise the run aborts and there is no
   ROk result), every event clock taken with ovni_clock_now() from a non-decreasing clock
   (clock_okb), no forged OF* events (user_flush_free), then ovni_flush and ovni_thread_free.

   valid_stream bytes (Rt/RtBufDefs.v) decides: the 8-byte header is right, the strict parser tiles
   the rest exactly into well-formed events, clocks never decrease, and OF[ / OF] alternate starting
   and ending outside a flush (paired, not nested).

   FULL STATEMENT of the property, of which the theorems below prove the part about stream.obs:
     conformant program => (1) every stream conforms to the trace specification: events tile the
     file, clocks never decrease, flush markers are paired and not nested, (2) the metadata is
     complete, (3) the emulator accepts the trace.
   (1) is C02_valid_stream_after_free / C02_valid_stream_always, for all programs, capacities >= 64
   and fill levels.  (2) and (3) are NOT theorems: stream.json is written by parson and the
   emulator is not part of this model; lib/checks/c02.py checks the metadata keys and runs the real
   `ovniemu -l` on every trace it generates.  Hence the suffix _partial on the summary theorem. *)
From OV Require Import Base.CInt Rt.CodecPre Gen.Codec_gen Rt.CodecDefs Rt.RtBufDefs
  Proofs.CodecProofs Proofs.RtBufProofs.
Local Open Scope Z_scope.

(* at every moment of a conformant run both the file and file ++ buffer are valid streams
   (a flush never cuts an event or a marker pair) *)
Theorem C02_valid_stream_always : forall cap ops clock s log,
  64 <= cap -> forallb op_wfb ops = true -> existsb is_free ops = false -> clock_okb clock = true ->
  forallb user_flush_free ops = true ->
  run true cap ops clock = ROk (s, log) ->
  valid_stream (disk_bytes s) = true /\ valid_stream (disk_bytes s ++ buf_bytes s) = true.
Proof. exact valid_no_free. Qed.
Print Assumptions C02_valid_stream_always.

(* after flush + free the file is valid and holds every event handed over (C01) *)
Theorem C02_conformant_valid_partial : forall cap ops clock s log,
  64 <= cap -> forallb op_wfb ops = true -> existsb is_free ops = false -> clock_okb clock = true ->
  forallb user_flush_free ops = true ->
  run true cap (ops ++ [Flush; Free]) clock = ROk (s, log) ->
  valid_stream (disk_bytes s) = true /\ fidelity log (disk_bytes s).
Proof. exact valid_after_free. Qed.
Print Assumptions C02_conformant_valid_partial.

(* what a positive answer of the decider means for a file: it IS the header followed by the encodings of
   well-formed events (exact tiling) with sorted clocks and well-paired flush markers *)
Theorem C02_valid_stream_meaning : forall bs,
  Forall byte bs -> valid_stream bs = true ->
  exists es, bs = STREAM_HEADER ++ flat_map encode es /\ Forall wf_uev es /\
             sortedb (map u_clock es) = true /\ flush_okb es = true.
Proof. exact valid_stream_meaning. Qed.
Print Assumptions C02_valid_stream_meaning.

(* every conformant program completes in the model (5 clock values per call suffice), so the
   hypothesis `run ... = ROk` above is satisfiable by all of them *)
Theorem C02_conformant_programs_complete : forall fx cap ops clock,
  64 <= cap -> forallb op_wfb ops = true -> existsb is_free ops = false -> forallb (api_okb cap) ops = true ->
  (5 * length ops + 5 <= length clock)%nat ->
  exists s log, run fx cap (ops ++ [Flush; Free]) clock = ROk (s, log).
Proof. exact run_total_free. Qed.
Print Assumptions C02_conformant_programs_complete.

(* the model's out-of-fuel answer cannot make the above vacuous *)
Theorem C02_never_out_of_fuel : forall fx cap ops clock,
  64 <= cap -> forallb op_wfb ops = true -> run fx cap ops clock <> RNoFuel.
Proof. exact run_never_out_of_fuel. Qed.
Print Assumptions C02_never_out_of_fuel.

(* The code BEFORE the repair violates the property: a conformant program (two events, flush, free,
   increasing clock, 64-byte buffer, a jumbo event of 56 bytes) leaves OF[ 30, OF[ 50, OF] 60, OF] 40
   on disk.  Same defect with the real 2 MiB buffer for jumbo totals in [cap-12, cap-1]
   (corpus/C02, replayed against libovni.so by lib/checks/c02.py). *)
Theorem C02_valid_refuted :
  exists cap ops clock,
    64 <= cap /\ forallb op_wfb ops = true /\ existsb is_free ops = false /\ clock_okb clock = true /\
    forallb user_flush_free ops = true /\
    match run false cap (ops ++ [Flush; Free]) clock with
    | ROk (s, _) => valid_stream (disk_bytes s) = false
    | _ => False
    end.
Proof. exact valid_refuted. Qed.
Print Assumptions C02_valid_refuted.

(* non-vacuity: the refuting program is valid under the repaired code; a longer conformant run with
   several automatic flushes and near-capacity jumbos *)
Example C02_ex_refuting_program_repaired :
  match run true 64 (refute_ops ++ [Flush; Free]) refute_clock with
  | ROk (s, _) => valid_stream (disk_bytes s) = true
  | _ => False
  end.
Proof. exact refute_ops_repaired. Qed.

Definition ex2_ops : list op :=
  [Emit 79 72 120 [[0; 0; 0; 0]; [255; 255; 255; 255]; [0; 0; 0; 0; 0; 0; 0; 0]];
   MarkPush 1 5; JumboEmit 79 66 46 (repeat 1 47); JumboEmit 79 66 46 (repeat 2 36);
   Emit 79 85 120 [[1; 2]]; JumboEmit 79 66 46 (repeat 3 24); MarkPop 1 5; MarkSet 2 (-1);
   JumboEmit 79 66 46 []; Emit 79 72 101 []].
Definition ex2_clock : list Z :=
  [100; 100; 101; 105; 105; 110; 111; 112; 113; 114; 115; 116; 117; 118; 119; 120; 121; 122; 123; 124;
   125; 126; 127; 128; 129; 130; 131; 132; 133; 134; 135; 136; 137; 138; 139; 140].

Example C02_ex_hypotheses :
  forallb op_wfb ex2_ops = true /\ existsb is_free ex2_ops = false /\ clock_okb ex2_clock = true /\
  forallb user_flush_free ex2_ops = true.
Proof. vm_compute. repeat split. Qed.

Example C02_ex_run :
  match run true 64 (ex2_ops ++ [Flush; Free]) ex2_clock with
  | ROk (s, log) => length log = 10%nat /\ (5 <= length (wr s))%nat /\ valid_stream (disk_bytes s) = true
  | _ => False
  end.
Proof. vm_compute. repeat split; repeat constructor. Qed.

Example C02_ex_run_before_repair :
  match run false 64 (ex2_ops ++ [Flush; Free]) ex2_clock with
  | ROk (s, log) => valid_stream (disk_bytes s) = false
  | _ => False
  end.
Proof. vm_compute. reflexivity. Qed.

(* ------------------------------------------------------------------------------------------------
   (3) "the emulator accepts the trace", as theorems about the composed models (added after the
   summary above was written; C02_conformant_valid_partial is kept as it was).

   Models composed (all pre-existing): the runtime model above; the stream loader Emu/StreamDefs.v
   (C12: run = Run VEnd recs iff the file is structurally valid, recs = the (offset, size, clock)
   records delivered); the event decoder DecodeDefs/MarkDefs.decode_all; the emulator core
   Emu/EmuCoreDefs.v (run = handlers + propagation to the PRV layer + end-of-trace checks).
   Definitions of this part: Rt/RtEmuDefs.v; proofs: Proofs/RtEmuProofs.v, Proofs/RtDiskKinds.v
   (runtime side), Proofs/RtLoaderBridge.v (codec format = loader format).

   emu_ready ms cpus lint ops  (Rt/RtEmuDefs.v) decides the conformant emulator-ready programs of one
   thread: every call is OHx (payload of at least 4 bytes whose first int32 is a CPU index of the
   list cpus) / OHe / OHp / OHr / OHc / OHw following the documented thread state machine from
   Unknown to Dead, an event the emulator ignores (OU?, OB?, OCn, OHC: any payload, jumbo or not), a
   mark call on a type of ms (push / pop with stack discipline, at most 512 deep, on a stack type;
   set on a single type; value not 0), or ovni_flush(); with lint, all mark stacks are empty at the
   end.  The mark types ms (ovni_mark_type: metadata, not part of the buffer model) are a parameter.
   Automatic flushes are not visible in ops: they are whatever the runtime model does.

   Hypotheses beyond those of C02_valid_stream_always, each needed by a model and stated:
     cap <= 2^31          the loader refuses events of 2^31 bytes or more (int arithmetic, C19);
     clock_i63b clock     the emulator reads the clock as int64_t: see C02_accepted_needs_i63_refuted;
     blen disk < 2^63     assumption of the loader model (C12);
   and the static description sx of the trace as the emulator builds it from the metadata: the enabled
   models en (any subset of the eight, ovni included), the channels of en followed by one channel per
   mark type, distinct non-negative mark types, one thread with tid, pid <> 0, every CPU index of cpus
   present in the thread's loom.  NOT covered: stream.json / metadata parsing (2), clock offsets,
   more than one stream in the composition (the emulator-core theorem C02_core_accepts is for any
   number of threads), events of other models, affinity events in the composition. *)
From OV Require Emu.LoaderPre Emu.StreamDefs Proofs.StreamProofs.
From OV Require Import Emu.EmuCoreDefs Emu.DecodeDefs Emu.MarkDefs Proofs.EmuCoreProofs Proofs.EmuCoreWf Proofs.TotalProofs
  Rt.RtEmuDefs Proofs.RtEmuProofs.

Theorem C02_conformant_accepted : forall cap ops clock s log sx en ms ti cpus lintchans junk,
  64 <= cap -> cap <= 2 ^ 31 ->
  forallb op_wfb ops = true -> clock_okb clock = true -> clock_i63b clock = true ->
  emu_ready ms cpus (s_lint sx) ops = true ->
  RtBufDefs.run true cap (ops ++ [Flush; Free]) clock = RtBufDefs.ROk (s, log) ->
  LoaderPre.blen (disk_bytes s) < 2 ^ 63 ->
  In en (sublists all_models) -> memz M_OVNI en = true ->
  s_chans sx = mk_chans en ++ mark_chans ms ->
  NoDup (map mt_type ms) -> (forall m, In m ms -> 0 <= mt_type m) ->
  s_threads sx = [ti] -> ti_tid ti <> 0 -> ti_pid ti <> 0 ->
  (forall idx, In idx cpus -> find_cpu sx (ti_loom ti) idx <> None) ->
  exists recs ls,
    StreamDefs.run (disk_bytes s) junk false = StreamDefs.Run StreamDefs.VEnd recs /\
    EmuCoreDefs.run sx lintchans (decode_stream en (s_chans sx) (disk_bytes s) recs) = Ok ls.
Proof. exact conformant_accepted. Qed.
Print Assumptions C02_conformant_accepted.

(* the emulator-core half on its own, for any number of threads and CPUs: every trace of thread state
   events (affinity included, judged by the documented machine ThreadSpecDefs.spec_step), ignored
   events, flush markers (alternating per thread) and marks (per-thread discipline) is accepted by
   handlers, propagation, the PRV layer and the end-of-trace checks *)
Theorem C02_core_accepts : forall sx ms lintchans tks,
  MStatic sx ms -> mkinds_ready sx ms tks = true ->
  exists ls, EmuCoreDefs.run sx lintchans (mkinds_events (s_chans sx) tks) = Ok ls.
Proof. exact core_accepts_multi. Qed.
Print Assumptions C02_core_accepts.

(* ... where MStatic holds for the static description of every trace *)
Theorem C02_static_of_trace : forall sx en ms,
  In en (sublists all_models) -> memz M_OVNI en = true ->
  s_chans sx = mk_chans en ++ mark_chans ms ->
  NoDup (map mt_type ms) -> (forall m, In m ms -> 0 <= mt_type m) ->
  (forall ti, In ti (s_threads sx) -> ti_tid ti <> 0 /\ ti_pid ti <> 0) ->
  MStatic sx ms.
Proof. exact mstatic_of_trace. Qed.
Print Assumptions C02_static_of_trace.

(* the two hypotheses on ms hold for every list of mark types the emulator builds from the metadata of the
   threads (mark.c mark_create = MarkDefs.merge_threads), whatever the threads declared *)
Theorem C02_merged_mark_types : forall ths ms,
  merge_threads ths = Some ms -> NoDup (map mt_type ms) /\ forall m, In m ms -> 0 <= mt_type m.
Proof. exact merged_mark_types_fine. Qed.
Print Assumptions C02_merged_mark_types.

(* the PRV layer never refuses what an accepted handler step offers, as long as the raw channels hold
   values their flags allow and no thread goes back to Unknown (generalises C04's oh_emit_total) *)
Theorem C02_prv_total : forall sx st ls who ev st1 dirty,
  wf_keys sx -> OhStatic sx -> Inv sx st ls ->
  core_step sx st who ev = Ok (st1, dirty) ->
  RawSafe sx st1 ->
  (forall t, t_state (nth t (threads st1) dummy_thread) = Unknown -> t_state (nth t (threads st) dummy_thread) = Unknown) ->
  exists res, emit_all (prv_last st1) (all_reqs sx st st1 dirty) = Ok res.
Proof. exact emit_total_gen. Qed.
Print Assumptions C02_prv_total.

(* decode_all gives each event on disk the emulator-core event of its kind *)
Theorem C02_decode_kind : forall en cs e k,
  memz M_OVNI en = true -> uev_kind e = Some k ->
  decode_all en cs (u_m e) (u_c e) (u_v e) (payload_of e) (u_jumbo e) 0 = kind_event cs k.
Proof. exact decode_kind. Qed.
Print Assumptions C02_decode_kind.

(* Without clock_i63b the statement is false for the models: a conformant program (OHx, OHe, flush,
   free) whose clock returns 2^63 leaves a valid stream (C02_valid_stream_always allows clocks up to
   2^64 - 1) that the loader rejects: it reads the clock as int64_t, sees -2^63 < 0 and reports
   "clock goes backwards".  Replay: harness/rtbuf_drv.c with the interposed clock returning 2^63. *)
Theorem C02_accepted_needs_i63_refuted :
  exists cap ops clock,
    64 <= cap /\ cap <= 2 ^ 31 /\ forallb op_wfb ops = true /\ clock_okb clock = true /\
    emu_ready [] [0] true ops = true /\
    match RtBufDefs.run true cap (ops ++ [Flush; Free]) clock with
    | RtBufDefs.ROk (s, _) =>
      valid_stream (disk_bytes s) = true /\
      StreamDefs.accepted (StreamDefs.run (disk_bytes s) StreamProofs.zero_junk false) = false
    | _ => False
    end.
Proof. exact accepted_needs_i63_refuted. Qed.
Print Assumptions C02_accepted_needs_i63_refuted.

(* non-vacuity: a 64-byte buffer; OHx, a mark push, a 47-byte jumbo burst (63 bytes in the buffer:
   it straddles the boundary and forces the second flush of the repaired add_flush_events), a pause /
   resume across an explicit flush, a set on a single type, the pop, OHe; stack type 1, single type 2,
   one CPU and the virtual CPU, lint on *)
Definition ex3_ms : list mtype :=
  [{| mt_type := 1; mt_title := [77]; mt_stack := true; mt_labels := [] |};
   {| mt_type := 2; mt_title := [78]; mt_stack := false; mt_labels := [] |}].
Definition ex3_ti : thread_info := {| ti_tid := 1000; ti_pid := 1000; ti_loom := 0; ti_appid := 1; ti_rank := -1 |}.
Definition ex3_sx (en : list Z) : static :=
  {| s_threads := [ex3_ti];
     s_cpus := [{| ci_virtual := false; ci_loom := 0; ci_index := 0 |}; {| ci_virtual := true; ci_loom := 0; ci_index := -1 |}];
     s_chans := mk_chans en ++ mark_chans ex3_ms; s_lint := true |}.
Definition ex3_ops : list op :=
  [Emit 79 72 120 [[0; 0; 0; 0]; [255; 255; 255; 255]; [0; 0; 0; 0; 0; 0; 0; 0]];
   MarkPush 1 5; JumboEmit 79 66 46 (repeat 1 47); JumboEmit 79 66 46 (repeat 2 36);
   Emit 79 85 120 [[1; 2]]; MarkPush 1 (-7); Emit 79 72 112 []; Flush; Emit 79 85 97 []; Emit 79 72 114 [];
   JumboEmit 79 85 91 (repeat 3 24); MarkSet 2 (-1); MarkPop 1 (-7); MarkSet 2 9223372036854775807;
   JumboEmit 79 66 46 []; MarkPop 1 5; Emit 79 72 101 []].
Definition ex3_clock : list Z := map (fun n => 100 + 3 * Z.of_nat (n / 2)) (seq 0 100).

Example C02_ex3_hypotheses :
  forallb op_wfb ex3_ops = true /\ clock_okb ex3_clock = true /\ clock_i63b ex3_clock = true /\
  emu_ready ex3_ms [0] true ex3_ops = true /\ find_cpu (ex3_sx [M_OVNI]) 0 0 <> None.
Proof. vm_compute. repeat split; congruence. Qed.

Definition ex3_accepted (en : list Z) : Prop :=
  match RtBufDefs.run true 64 (ex3_ops ++ [Flush; Free]) ex3_clock with
  | RtBufDefs.ROk (s, log) =>
    length log = 16%nat /\ (5 <= length (wr s))%nat /\
    match StreamDefs.run (disk_bytes s) StreamProofs.zero_junk false with
    | StreamDefs.Run StreamDefs.VEnd recs =>
      (length log < length recs)%nat /\
      match EmuCoreDefs.run (ex3_sx en) (lint_chans (s_chans (ex3_sx en)))
                            (decode_stream en (s_chans (ex3_sx en)) (disk_bytes s) recs) with
      | Ok ls => (10 <= length ls)%nat
      | Err _ => False
      end
    | _ => False
    end
  | _ => False
  end.

Example C02_ex3_accepted_ovni_only : ex3_accepted [M_OVNI].
Proof. vm_compute. repeat split; repeat constructor. Qed.

Example C02_ex3_accepted_all_models : ex3_accepted all_models.
Proof. vm_compute. repeat split; repeat constructor. Qed.

(* the same by the theorem: its hypotheses are jointly satisfiable *)
Example C02_ex3_by_theorem :
  exists s log recs ls,
    RtBufDefs.run true 64 (ex3_ops ++ [Flush; Free]) ex3_clock = RtBufDefs.ROk (s, log) /\
    StreamDefs.run (disk_bytes s) StreamProofs.zero_junk false = StreamDefs.Run StreamDefs.VEnd recs /\
    EmuCoreDefs.run (ex3_sx all_models) [] (decode_stream all_models (s_chans (ex3_sx all_models)) (disk_bytes s) recs) = Ok ls.
Proof.
  destruct (RtBufDefs.run true 64 (ex3_ops ++ [Flush; Free]) ex3_clock) as [[s log]| | |] eqn:E;
    [|vm_compute in E; discriminate E..].
  assert (L : LoaderPre.blen (disk_bytes s) < 2 ^ 63).
  { vm_compute in E. injection E as <- _. vm_compute. reflexivity. }
  destruct (C02_conformant_accepted 64 ex3_ops ex3_clock s log (ex3_sx all_models) all_models ex3_ms ex3_ti [0] []
              StreamProofs.zero_junk) as (recs & ls & H1 & H2).
  - lia.
  - lia.
  - vm_compute. reflexivity.
  - vm_compute. reflexivity.
  - vm_compute. reflexivity.
  - vm_compute. reflexivity.
  - exact E.
  - exact L.
  - apply self_in_sublists.
  - reflexivity.
  - reflexivity.
  - repeat constructor; cbn [map mt_type ex3_ms In]; intuition discriminate.
  - intros m [<-|[<-|[]]]; cbn [mt_type]; lia.
  - reflexivity.
  - vm_compute. discriminate.
  - vm_compute. discriminate.
  - intros idx [<-|[]]. vm_compute. discriminate.
  - exists s, log, recs, ls. auto.
Qed.

(* the program is rejected by the discipline if the pop does not match, and the emulator-core model
   rejects its trace as well (the discipline is not stronger than needed here) *)
Example C02_ex3_bad_pop :
  let ops := [Emit 79 72 120 [[0; 0; 0; 0]]; MarkPush 1 5; MarkPop 1 6; Emit 79 72 101 []] in
  emu_ready ex3_ms [0] true ops = false /\
  match RtBufDefs.run true 64 (ops ++ [Flush; Free]) ex3_clock with
  | RtBufDefs.ROk (s, _) =>
    match StreamDefs.run (disk_bytes s) StreamProofs.zero_junk false with
    | StreamDefs.Run StreamDefs.VEnd recs =>
      match EmuCoreDefs.run (ex3_sx [M_OVNI]) [] (decode_stream [M_OVNI] (s_chans (ex3_sx [M_OVNI])) (disk_bytes s) recs) with
      | Ok _ => False
      | Err _ => True
      end
    | _ => False
    end
  | _ => False
  end.
Proof. vm_compute. split; [reflexivity|exact I]. Qed.

(* ------------------------------------------------------------------------------------------------
   (2) "the metadata is complete", as theorems about the model of the runtime's stream.json handling
   (added after the summaries above were written).

   Model: Rt/RtMetaDefs.v.  A JSON tree, parson's json_object_set_value / dotset_value / dotget_value on
   dotted names (first match wins, overwrite in place, append otherwise, a prefix that names a non-object
   fails, missing prefixes become objects), and the metadata state machine of src/rt/ovni.c: every call
   either aborts the process (die()) or returns with the new tree and the FILE WRITE it made, if any
   (ovni_thread_init stores before the implicit require of "ovni"; ovni_attr_flush stores; ovni_thread_free
   sets rank, loom_cpus and ovni.finished = 1 and stores; nothing else stores, ovni_flush included).
   A program is the call list of one process over thread slots (thread state is TLS); `run` gives one event
   per executed call; `writes p evs` are the stores in order, `tagged` pairs each with its call; the content
   of thread.<tid>/stream.json after any prefix is the last store for that tid.
   Tied to libovni.so by lib/checks/c02.py (family rtmeta): same programs on the real library, stream.json
   read back after every call and compared as a tree, member order included; die() <-> SIGABRT.

   meta_conformant p (the documented protocol, doc/user/runtime/index.md): ovni_proc_init first (app > 0,
   pid > 0, loom name without '/', at most 250 bytes), ovni_proc_fini last, in between every thread slot does
   ovni_thread_init(tid > 0, tids distinct) first and ovni_thread_free last (before the fini) and in between
   only: ovni_add_cpu(index >= 0, phyid >= 0), ovni_proc_set_rank(0 <= rank < nranks), ovni_thread_require
   (model of 2..114 bytes without ' ' and '.', version that version_parse accepts), ovni_attr_set_* on names
   whose first component is neither "ovni" nor "version", ovni_attr_has / get_*, ovni_attr_flush, ovni_flush.

   to_loader_meta projects a stored tree to what the emulator's look-ups return (Emu/LoaderMetaDefs.meta);
   meta_check is C12's model of the emulator's metadata gates (stream.c load_json / check_version, system.c
   is_thread_stream, loom / proc / thread metadata, report_libovni_version, proc_init_end, model.c
   should_enable's "ovni.require").

   Trusted here: json_serialize_to_file_pretty followed by json_parse_file_with_comments gives back the tree
   (m_parses = true); the tie compares the text with Python's parser.  Not modelled: non-ASCII strings,
   non-integral numbers, OVNI_TMPDIR, the mark API (C17), I/O faults (C10).
   Still by execution only (the Python decider of the rtmeta family, on the real files): per-loom
   completeness of ovni.loom_cpus (union over the loom's threads = the CPUs registered), rank / nranks. *)
From OV Require Rt.RtMetaDefs Proofs.RtMetaProofs.
From OV Require Import Emu.LoaderMetaDefs.

Module Meta.
Import RtMetaDefs RtMetaProofs.

(* Every program that follows the protocol (any number of threads, any interleaving, any user attributes):
   - never leaves the modelled domain and aborts, if at all, inside an ovni_attr_* call (set through a
     non-object, unparsable JSON, get of a missing or mistyped name: documented aborts);
   - if it runs to the end: a store carries ovni.finished = 1 iff it is the one of ovni_thread_free (tagprop),
     and for each thread the stores to its stream.json are  earlier ++ [last]  with earlier non-empty (the
     store of ovni_thread_init), no element of earlier mentioning ovni.finished (C09's reading: finished
     appears only with the final store, after which the thread writes nothing), and last passing all the
     emulator's metadata gates: meta_check .. = MetaOk (version 3, part "thread", loom, pid, tid, app_id,
     finished = 1, lib.version, lib.commit, require). *)
Theorem C02_metadata_complete : forall c p evs sf,
  VersionDefs.version_parse (Some (c_model_version c)) <> None ->
  meta_conformant p = true ->
  run c p = (evs, sf) ->
  (forall o, stop_op p evs = Some o -> is_attr_op o = true) /\
  (completed evs = true ->
   length evs = length p /\
   Forall tagprop (tagged p evs) /\
   forall th tid, In (th, ThreadInit tid) p -> last_write_complete (writes p evs) tid).
Proof. exact metadata_complete. Qed.
Print Assumptions C02_metadata_complete.

(* Bridge to C02_conformant_accepted (above): what that theorem assumes about the static description of the
   trace and what the final metadata provides.  PROVIDED: the stream's tid and pid are those of the calls and
   not 0 (hypotheses ti_tid ti <> 0, ti_pid ti <> 0), loom and app id are those of ovni_proc_init with
   app > 0 (proc_init_end), "ovni.require" is an object with string entries (model.c can probe every model;
   the base model M_OVNI is enabled whatever it says, C14).  REMAINING hypotheses of C02_conformant_accepted,
   not derived from the runtime's metadata here: find_cpu sx loom idx <> None for the CPUs used in OHx (needs
   the per-loom union of ovni.loom_cpus: Emu/MetaDefs.build, C15; checked by execution), s_chans sx = mk_chans
   en ++ mark_chans ms with the mark types of ovni.mark.* (C17: C02_merged_mark_types), s_threads sx = [ti]
   (one stream in the composition). *)
Theorem C02_metadata_bridge : forall c p evs sf th0 app loom pid rest,
  VersionDefs.version_parse (Some (c_model_version c)) <> None ->
  meta_conformant p = true -> run c p = (evs, sf) -> completed evs = true ->
  p = (th0, ProcInit app loom pid) :: rest ->
  forall th tid, In (th, ThreadInit tid) p ->
  exists last, disk (writes p evs) tid = Some last /\
    m_tid (to_loader_meta last) = JNum tid /\ tid <> 0 /\
    m_pid (to_loader_meta last) = JNum pid /\ pid <> 0 /\
    m_loom (to_loader_meta last) = JStr loom /\ m_app_id (to_loader_meta last) = JNum app /\ 0 < app /\
    m_require (to_loader_meta last) = JObj /\ to_thread_req last <> None.
Proof. exact metadata_bridge. Qed.
Print Assumptions C02_metadata_bridge.

(* The attribute API on a tree: get after set, for every name the set accepts (empty components, any depth) *)
Theorem C02_attr_get_after_set : forall fs k v fs',
  attr_set fs k v = Some fs' -> attr_get fs' k = Some v /\ attr_has fs' k = true.
Proof. exact attr_get_has_after_set. Qed.
Print Assumptions C02_attr_get_after_set.

(* ... and every name that parts from k at some component keeps its value (names of which k is a prefix, or
   that are a prefix of k, do change: they contain / are contained in the new value) *)
Theorem C02_attr_set_other_names : forall fs k v fs' k2,
  attr_set fs k v = Some fs' -> diverge (split_dots k) (split_dots k2) -> attr_get fs' k2 = attr_get fs k2.
Proof. exact attr_get_set_other. Qed.
Print Assumptions C02_attr_set_other_names.

(* What the code guarantees about the reserved part: an attribute whose first component is neither "ovni" nor
   "version" leaves both members untouched ... *)
Theorem C02_user_attr_keeps_reserved : forall fs k v fs',
  user_key k = true -> attr_set fs k v = Some fs' ->
  fget fs' k_ovni = fget fs k_ovni /\ fget fs' k_version = fget fs k_version.
Proof. exact user_attr_keeps_reserved. Qed.
Print Assumptions C02_user_attr_keeps_reserved.

(* ... and NOTHING more: ovni_attr_set_* does not refuse names under "ovni." (there is no such check in
   src/rt/ovni.c; the documentation does not promise one either).  A program that follows the protocol except
   for one such attribute (1) has stream.json say ovni.finished = 1 after an ovni_attr_flush, before
   ovni_thread_free, (2) ends with a file the emulator refuses (ovni.tid = 0).  Both replayed on libovni.so by
   the rtmeta family (classes malformed:reserved-then-flush, malformed:reserved-key). *)
Theorem C02_reserved_keys_not_refused_refuted :
  meta_conformant good_prog = true /\
  (let (evs, _) := run ex_cfg early_prog in
   completed evs = true /\
   exists w, In (AttrFlush, w) (tagged early_prog evs) /\ finished_mark (snd w) = JNum 1) /\
  (let (evs, _) := run ex_cfg clobber_prog in
   completed evs = true /\
   exists last, disk (writes clobber_prog evs) 100 = Some last /\
                meta_check (to_loader_meta last) true = MetaErr MNoTid).
Proof. exact reserved_keys_not_refused. Qed.
Print Assumptions C02_reserved_keys_not_refused_refuted.

(* Every final tree reads back, through the emulator's look-ups (to_stream_meta: system.c / loom.c / proc.c / thread.c), as
   the record the calls determine: for EVERY protocol-following program (any number of threads, any interleaving) and every
   ovni_thread_init(tid) of slot th, the last stream.json of tid is  smeta loom pid tid app (rank_set p th) (cpus_added p th):
   loom, pid, app of ovni_proc_init, the rank THIS thread set last (ovni_proc_set_rank is thread-local), the CPUs THIS thread
   registered, in call order (no "ovni.loom_cpus" member when it registered none).  expected_metas p lists these records in
   the order of the init calls; final_metas reads them from the files.  (This replaces the tree-level
   C02_thread_free_stream_meta_partial: the side conditions "rank / nranks / loom_cpus unset while the thread is live" are
   now part of the run invariant.) *)
Theorem C02_metadata_stream_metas : forall c p evs sf,
  VersionDefs.version_parse (Some (c_model_version c)) <> None ->
  meta_conformant p = true -> run c p = (evs, sf) -> completed evs = true ->
  final_metas p evs = Some (expected_metas p).
Proof. exact metadata_stream_metas. Qed.
Print Assumptions C02_metadata_stream_metas.

(* non-vacuity: two threads of one process, interleaved; thread 0 registers CPU 0 and requires nosv, thread 1
   registers CPU 1, sets the rank, both set attributes (a dotted name with an empty component among them) and
   one flushes them half-way *)
Definition ex4_prog : prog :=
  [(0%nat, ProcInit 1 ex_loom 100); (0%nat, ThreadInit 100); (1%nat, ThreadInit 101);
   (0%nat, AddCpu 0 0); (1%nat, AddCpu 1 1); (0%nat, Require [110; 111; 115; 118] [50; 46; 52; 46; 48]);
   (1%nat, ProcSetRank 0 2); (0%nat, AttrSetStr [110; 111; 115; 118; 46; 108; 105; 98; 95; 118; 101; 114; 115; 105; 111; 110] [51; 46; 48]);
   (1%nat, AttrSetBool [97; 46; 46; 98] true); (1%nat, AttrFlush); (1%nat, AttrGetBool [97; 46; 46; 98]);
   (0%nat, AttrSetJson [97; 112; 112; 46; 99; 102; 103] (jobj [([120], jarr [jnum 1; jnull])])); (0%nat, Flush);
   (1%nat, ThreadFree); (0%nat, AttrHas [97; 112; 112; 46; 99; 102; 103; 46; 120]); (0%nat, ThreadFree); (0%nat, ProcFini)].

Example C02_ex4_conformant : meta_conformant ex4_prog = true.
Proof. vm_compute. reflexivity. Qed.

Example C02_ex4_run :
  let (evs, _) := run ex_cfg ex4_prog in
  completed evs = true /\ length (writes ex4_prog evs) = 5%nat /\
  match disk (writes ex4_prog evs) 100, disk (writes ex4_prog evs) 101 with
  | Some a, Some b => meta_check (to_loader_meta a) true = MetaOk /\ meta_check (to_loader_meta b) true = MetaOk /\
                      to_stream_meta a = Some (MetaDefs.mkS ex_loom 100 100 (Some 1) None None (Some [(0, 0)])) /\
                      to_stream_meta b = Some (MetaDefs.mkS ex_loom 100 101 (Some 1) (Some 0) (Some 2) (Some [(1, 1)]))
  | _, _ => False
  end.
Proof. vm_compute. repeat split. Qed.

(* the same through the theorem *)
Example C02_ex4_by_theorem : forall evs sf, run ex_cfg ex4_prog = (evs, sf) ->
  completed evs = true -> last_write_complete (writes ex4_prog evs) 100 /\ last_write_complete (writes ex4_prog evs) 101.
Proof.
  intros evs sf R CO.
  destruct (C02_metadata_complete ex_cfg ex4_prog evs sf) as (_ & H); [vm_compute; discriminate|vm_compute; reflexivity|exact R|].
  destruct (H CO) as (_ & _ & W).
  split; [apply (W 0%nat); right; left; reflexivity|apply (W 1%nat); right; right; left; reflexivity].
Qed.

(* the merge of the two streams (C15's model of system.c / loom.c) accepts them: one loom with CPUs 0 and 1 *)
Example C02_ex4_merge :
  MetaDefs.build [MetaDefs.mkS ex_loom 100 100 (Some 1) None None (Some [(0, 0)]);
                  MetaDefs.mkS ex_loom 100 101 (Some 1) (Some 0) (Some 2) (Some [(1, 1)])]
  = MetaDefs.Ok [(ex_loom, [(100, 1, [100; 101])], [(0, 0); (1, 1)])].
Proof. vm_compute. reflexivity. Qed.

(* a protocol-following program may abort in an attribute call, and only there *)
Example C02_ex_abort_in_attr :
  let p := [(0%nat, ProcInit 1 ex_loom 100); (0%nat, ThreadInit 100); (0%nat, AttrSetStr [112] [120]);
            (0%nat, AttrSetStr [112; 46; 113] [121]); (0%nat, ThreadFree); (0%nat, ProcFini)] in
  meta_conformant p = true /\ stop_op p (fst (run ex_cfg p)) = Some (AttrSetStr [112; 46; 113] [121]).
Proof. vm_compute. split; reflexivity. Qed.
End Meta.

(* ------------------------------------------------------------------------------------------------
   The whole trace: one protocol-following program per process (Rt/RtMetaDefs.trace), and the emulator's metadata merge
   Emu/MetaDefs.build (C15's model of system.c create_system / loom.c load_cpus, loom_init_end / proc.c load_appid,
   load_rank, proc_init_end; tied to ovniemu by C15 and, on the real final files of this family, by lib/checks/c02.py).

   trace_ok tr (Rt/RtMetaDefs.v) is what the documentation asks ACROSS threads and processes, on the records the call lists
   determine: processes with the same loom and pid agree on the app id; no two threads share loom, pid and tid; the threads
   of a process that set a rank set the same one and in a loom every process sets it or none; over all threads of a loom -
   whichever registers what - the CPU indices are exactly 0..n-1 with n > 0, one phyid per index, one index per phyid.
   Where the line is: a thread that registers no CPU is fine (no member is written); a loom in which nobody registers one,
   a skipped index, one index with two phyids (or the converse), two ranks in one process, or a repeated (loom, pid, tid)
   make the merge refuse the trace (C02_metadata_build_refuses). *)
From OV Require Proofs.MetaBuildProofs Proofs.RtMetaBuildProofs.
Module MetaTrace.
Import RtMetaDefs RtMetaProofs MetaDefs MetaBuildProofs RtMetaBuildProofs.

Theorem C02_metadata_builds_system : forall c tr,
  VersionDefs.version_parse (Some (c_model_version c)) <> None ->
  (forall p, In p tr -> meta_conformant p = true /\ completed (fst (RtMetaDefs.run c p)) = true) ->
  trace_ok tr ->
  (forall p, In p tr -> final_metas p (fst (RtMetaDefs.run c p)) = Some (expected_metas p)) /\
  exists sys, build (trace_metas tr) = Ok sys /\
    NoDup (loom_names sys) /\
    (forall l, In l (loom_names sys) <-> loom_in (trace_metas tr) l) /\
    (forall l ps cs, In (l, ps, cs) sys ->
       (forall i ph, In (i, ph) cs <-> In (l, Some (i, ph)) (cpu_claims (trace_metas tr))) /\
       NoDup (map (fun sp : sproc => fst (fst sp)) ps) /\
       (forall pid, In pid (map (fun sp : sproc => fst (fst sp)) ps) <-> proc_in (trace_metas tr) (l, pid)) /\
       (forall pid a ts, In (pid, a, ts) ps ->
          (forall t, In t ts <-> In (l, pid, t) (keys (trace_metas tr))) /\
          (forall a', In ((l, pid), a') (app_claims (trace_metas tr)) -> a' = a))).
Proof. exact metadata_builds_system. Qed.
Print Assumptions C02_metadata_builds_system.

(* the accepting side of the merge on its own, for any metadata (not only what libovni writes): valid values and no
   contradiction => a system; with C15_conflicts this makes `good` the exact line for the claims it mentions *)
Theorem C02_merge_accepts_good_metadata : forall m, good m -> exists sys, build m = Ok sys.
Proof. exact build_complete. Qed.
Print Assumptions C02_merge_accepts_good_metadata.

(* which thread registered which CPU, or carried the rank, does not matter (corollary of C15_union) *)
Theorem C02_metadata_build_union : forall tr1 tr2, same_union (trace_metas tr1) (trace_metas tr2) ->
  build (trace_metas tr1) = build (trace_metas tr2).
Proof. exact metadata_build_union. Qed.
Print Assumptions C02_metadata_build_union.

Theorem C02_metadata_build_refuses : forall tr,
  let m := trace_metas tr in
  ((exists l i p q, In (l, Some (i, p)) (cpu_claims m) /\ In (l, Some (i, q)) (cpu_claims m) /\ p <> q) -> build m = Err) /\
  ((exists l i j p, In (l, Some (i, p)) (cpu_claims m) /\ In (l, Some (j, p)) (cpu_claims m) /\ i <> j) -> build m = Err) /\
  ((exists l, loom_in m l /\ forall e, ~ In (l, Some e) (cpu_claims m)) -> build m = Err) /\
  ((exists l i p j, In (l, Some (i, p)) (cpu_claims m) /\ 0 <= j < i /\ forall q, ~ In (l, Some (j, q)) (cpu_claims m)) -> build m = Err) /\
  ((exists k r1 n1 r2 n2, In (k, (r1, n1)) (rank_claims m) /\ In (k, (r2, n2)) (rank_claims m) /\ r1 <> r2) -> build m = Err) /\
  (~ NoDup (keys m) -> build m = Err).
Proof. exact metadata_build_refuses. Qed.
Print Assumptions C02_metadata_build_refuses.

(* non-vacuity: two processes on one loom; the second registers no CPU and each sets its rank; a third variant in which the
   CPUs are registered by other threads gives the same system; a loom whose only thread registers nothing is refused *)
Definition ex5_p1 : prog := Meta.ex4_prog.
Definition ex5_p2 : prog :=
  [(0%nat, ProcInit 1 ex_loom 200); (0%nat, ThreadInit 200); (0%nat, ProcSetRank 1 2); (0%nat, ThreadFree); (0%nat, ProcFini)].
Definition ex5_p1' : prog :=
  [(0%nat, ProcInit 1 ex_loom 100); (0%nat, ThreadInit 100); (1%nat, ThreadInit 101); (1%nat, ProcSetRank 0 2);
   (0%nat, ThreadFree); (1%nat, ThreadFree); (0%nat, ProcFini)].
Definition ex5_p2' : prog :=
  [(0%nat, ProcInit 1 ex_loom 200); (0%nat, ThreadInit 200); (0%nat, AddCpu 1 1); (0%nat, ProcSetRank 1 2); (0%nat, AddCpu 0 0);
   (0%nat, ThreadFree); (0%nat, ProcFini)].

Example C02_ex5_builds :
  meta_conformant ex5_p1 = true /\ meta_conformant ex5_p2 = true /\
  final_metas ex5_p2 (fst (RtMetaDefs.run ex_cfg ex5_p2)) = Some (expected_metas ex5_p2) /\
  build (trace_metas [ex5_p1; ex5_p2]) = Ok [(ex_loom, [(100, 1, [100; 101]); (200, 1, [200])], [(0, 0); (1, 1)])] /\
  build (trace_metas [ex5_p2'; ex5_p1']) = build (trace_metas [ex5_p1; ex5_p2]) /\
  build (trace_metas [ex5_p2]) = Err.
Proof. vm_compute. repeat split. Qed.
(* the hypotheses of C02_metadata_builds_system are satisfiable: trace_ok of the two-process trace *)
Example C02_ex5_metas : trace_metas [ex5_p1; ex5_p2] =
  [mkS ex_loom 100 100 (Some 1) None None (Some [(0, 0)]); mkS ex_loom 100 101 (Some 1) (Some 0) (Some 2) (Some [(1, 1)]);
   mkS ex_loom 200 200 (Some 1) (Some 1) (Some 2) None].
Proof. vm_compute. reflexivity. Qed.
Example C02_ex5_trace_ok : trace_ok [ex5_p1; ex5_p2].
Proof.
  constructor; rewrite ?C02_ex5_metas.
  - intros p q l pid a b [<-|[<-|[]]] [<-|[<-|[]]] E1 E2; vm_compute in E1, E2; congruence.
  - vm_compute. repeat constructor; cbn [In]; intuition congruence.
  - intros k x y X Y. vm_compute in X, Y. intuition congruence.
  - intros l p q x (s1 & S1 & K1) (s2 & S2 & K2) X. vm_compute in X.
    destruct S2 as [<-|[<-|[<-|[]]]]; vm_compute in K2; injection K2 as <- <-;
      (eexists; vm_compute; (right; left; reflexivity) || (left; reflexivity)).
  - intros l (s & S & <-). exists 2. split; [lia|].
    assert (EL : s_loom s = ex_loom) by (destruct S as [<-|[<-|[<-|[]]]]; reflexivity). rewrite EL. split.
    + intros i B. assert (C : i = 0 \/ i = 1) by lia. destruct C as [-> | ->]; eexists; vm_compute; [left|right; left]; reflexivity.
    + intros i ph X. vm_compute in X. destruct X as [X|[X|[]]]; injection X as <- <-; lia.
  - intros l i ph q X Y. vm_compute in X, Y. intuition congruence.
  - intros l i j ph X Y. vm_compute in X, Y. intuition congruence.
Qed.

Example C02_ex5_by_theorem : exists sys, build (trace_metas [ex5_p1; ex5_p2]) = Ok sys /\ loom_names sys = [ex_loom].
Proof.
  destruct (C02_metadata_builds_system ex_cfg [ex5_p1; ex5_p2]) as (_ & sys & B & _).
  - vm_compute. discriminate.
  - intros p [<-|[<-|[]]]; vm_compute; split; reflexivity.
  - exact C02_ex5_trace_ok.
  - exists sys. split; [exact B|]. vm_compute in B. injection B as <-. reflexivity.
Qed.
End MetaTrace.

(* ==== BEGIN rtbuf-from-source (unit rtbuf, Gen/RtBuf_gen.v) =====================================
   C02_valid_stream_always for the buffer functions GENERATED from src/rt/ovni.c (see the block of the same name in
   Props/Properties_C01.v: C01_buffer_ops_from_source, C01_runs_from_source; proofs in Proofs/RtBufGenProofs.v):
   at every moment of a conformant run of the generated code both the written bytes and written ++ buffered bytes
   are valid streams.  The generated add_flush_events is the repaired one (417af60): the theorem is about fx = true. *)
From OV Require Import Rt.RtBufPre Rt.RtBufApiDefs Proofs.RtBufGenProofs.

Theorem C02_generated_code_valid_stream : forall cap ops clock g',
  64 <= cap < 2 ^ 63 -> forallb op_cb ops = true -> existsb is_free ops = false -> clock_okb clock = true ->
  forallb user_flush_free ops = true ->
  api_run ops (env_of cap) (g_init clock) = Ok (tt, g') ->
  valid_stream (g_disk_bytes g') = true /\ valid_stream (g_disk_bytes g' ++ g_buf_bytes g') = true.
Proof. exact generated_code_valid_stream. Qed.
Print Assumptions C02_generated_code_valid_stream.

(* add_flush_events, the function repaired by 417af60, against the model with fx = true, for any ovni_ev_add that
   behaves like the model's on the two markers *)
Theorem C02_add_flush_events_from_source : forall cap rec_g rec_m,
  64 <= cap < 2 ^ 63 ->
  (forall p g s v t, Rep cap g s -> has_ev g p (marker v t) ->
     same_outcome (RE cap g) (rec_g p (env_of cap) g) (rec_m (marker v t) s)) ->
  forall t0 t1 g s, Rep cap g s -> ready s = true ->
  same_outcome (RE cap g) (G.add_flush_events rec_g t0 t1 (env_of cap) g) (add_flush_events true cap rec_m t0 t1 s).
Proof. intros cap rec_g rec_m H. exact (afe_sim cap H rec_g rec_m). Qed.
Print Assumptions C02_add_flush_events_from_source.

(* non-vacuity: the program that refuted validity before the repair (a jumbo leaving < 24 free bytes behind a forced
   flush), on the generated code with a 128-byte buffer: valid, two writes more than the header *)
Example C02_ex_generated_refuting_program :
  match api_run [Emit 79 85 120 []; JumboEmit 79 66 46 (repeat 7 100)] (env_of 128) (g_init [10; 20; 30; 40; 50; 60; 70; 80; 90]) with
  | Ok (_, g') => valid_stream (g_disk_bytes g' ++ g_buf_bytes g') = true /\ length (g_wr g') = 3%nat /\ g_clk g' = [60; 70; 80; 90]
  | _ => False
  end.
Proof. vm_compute. repeat split. Qed.
(* ==== END rtbuf-from-source ==== *)
(* ==== static description from the metadata (SysStaticDefs) ==== *)
(* The bridge between the metadata half and the acceptance half of C02.  C02_conformant_accepted takes the static
   description sx of a one-stream trace as a hypothesis (s_threads sx = [ti], ti_tid / ti_pid <> 0, s_chans, find_cpu for
   every CPU index the thread executes on).  Here they are CONCLUSIONS: for a trace as in C02_metadata_builds_system the
   merge returns a system, and for the system of a one-thread trace (MetaDefs.thread_list sys = [(loom, pid, tid, app)])
   static_of_system sys ... (Emu/SysStaticDefs.v: threads in thread_list order, CPUs in cpu_list order, the channels of
   the enabled models and of the mark types) has exactly that thread, with the ids of the metadata, both non-zero, and
   find_cpu succeeds on the thread's loom for every CPU index that some stream of that loom registers
   (ovni_add_cpu -> ovni.loom_cpus -> cpu_claims).  rankf (the rank of each process), en, ms and lint are free: the
   statement holds for each choice.  Also exported for C13: C13_static_same_system, C13_find_cpu_of_system. *)
From OV Require Emu.SysStaticDefs Proofs.SysStaticProofs.
Theorem C02_static_from_metadata : forall c tr,
  VersionDefs.version_parse (Some (RtMetaDefs.c_model_version c)) <> None ->
  (forall p, In p tr -> RtMetaDefs.meta_conformant p = true /\ RtMetaDefs.completed (fst (RtMetaDefs.run c p)) = true) ->
  RtMetaDefs.trace_ok tr ->
  exists sys, MetaDefs.build (RtMetaDefs.trace_metas tr) = MetaDefs.Ok sys /\
    forall rankf en ms lint l pid tid a, MetaDefs.thread_list sys = [(l, pid, tid, a)] ->
      let sx := SysStaticDefs.static_of_system sys rankf en ms lint in
      exists ti, s_threads sx = [ti] /\ ti_tid ti = tid /\ ti_pid ti = pid /\ ti_appid ti = a /\ ti_tid ti <> 0 /\ ti_pid ti <> 0 /\
        s_chans sx = mk_chans en ++ mark_chans ms /\ s_lint sx = lint /\
        forall idx ph, In (l, Some (idx, ph)) (MetaDefs.cpu_claims (RtMetaDefs.trace_metas tr)) -> find_cpu sx (ti_loom ti) idx <> None.
Proof. exact SysStaticProofs.static_from_runtime_metadata. Qed.
Print Assumptions C02_static_from_metadata.
(* ==== end of block (SysStaticDefs) ==== *)

(* ==== runtime metadata functions from source (unit rtmeta) ==== *)
(* Gen/RtMeta_gen.v is REGENERATED on every run from src/rt/ovni.c by translate/units/rtmeta.py (stage-C core _stagec.py
   unchanged + the unit's wrappers for globals, strings, die(), snprintf, malloc/DL_APPEND) over the prelude Rt/RtMetaPre.v
   (parson's object API with the meaning of Rt/RtMetaDefs.v, rproc / rthread as state, die() = E_DIE, the stream.json
   files written).  Generated statement by statement: thread_metadata_store, ovni_thread_require, thread_metadata_populate,
   thread_metadata_init, set_thread_rank, ovni_add_cpu, ovni_proc_set_rank, get_thread_metadata, ovni_attr_has,
   ovni_attr_set_double / boolean / str / json, ovni_attr_get_double / boolean / str / json, ovni_attr_flush, ovni_thread_free.
   set_thread_cpus (a counted for loop) as an instance of array_of_list_loop; ovni_thread_init, ovni_proc_init.
   Primitive: the calls outside the metadata state.

   rs_of s th node out = the view thread th has of the model state s (rproc, its rthread, files written); `agrees` = die()
   iff the model's step is ODie, and a return iff ODone with the view of the NEW model state, the file written appended
   under <procdir>/thread.<tid>/stream.json, and the returned value related as stated per call (call_agrees).  path_ok: the
   path fits PATH_MAX.  Proved for: ovni_add_cpu, ovni_proc_set_rank, ovni_thread_require, ovni_attr_set_* (4),
   ovni_attr_has, ovni_attr_get_* (4), ovni_attr_flush (with thread_metadata_store, get_thread_metadata), ovni_thread_free
   (against free_tree: rank, loom_cpus, ovni.finished = 1, then the store, then finished / ready), and the metadata part of
   ovni_thread_init (thread_metadata_init with thread_metadata_populate and the store, rthread.ready = 1, the implicit
   require of "ovni") against the ThreadInit case.  ovni_thread_init (whole: C02_thread_init_from_source) and ovni_proc_init (C02_proc_init_from_source) are generated too.
   Primitives of RtMetaPre.v: the generic counted-loop fold array_of_list_loop (set_thread_cpus is generated as an instance of it:
   C02_set_thread_cpus_from_source) and the calls outside the metadata state. *)
From OV Require Rt.RtMetaPre Gen.RtMeta_gen Proofs.RtMetaGenProofs.
Module MetaSrc.
Import RtMetaDefs RtMetaPre RtMeta_gen RtMetaGenProofs.

Theorem C02_metadata_calls_from_source : forall sx s th node out o,
  path_ok sx (t_tid (tget (st_threads s) th)) = true -> call_agrees sx s th node out o.
Proof. exact metadata_calls_from_source. Qed.
Print Assumptions C02_metadata_calls_from_source.

(* whole programs: along the model's run every call is what the generated function computes from the view of the current
   model state, leaving the view of the next: C02_metadata_complete / _stream_metas / _builds_system (statements about
   RtMetaDefs.run with the constants src_cfg of the configured ovni.h) are statements about the translated calls *)
Theorem C02_metadata_runs_from_source : forall sx,
  (forall tid, path_ok sx tid = true) -> forall p s, run_agrees sx s p.
Proof. exact metadata_runs_from_source. Qed.
Print Assumptions C02_metadata_runs_from_source.

(* ovni_thread_free as generated = the model's ThreadFree case (it is also a case of call_agrees above) *)
Theorem C02_thread_free_from_source : forall sx s th node out,
  path_ok sx (t_tid (tget (st_threads s) th)) = true ->
  agrees sx th out (ovni_thread_free sx (rs_of s th node out)) (step src_cfg s th ThreadFree) no_val.
Proof. exact thread_free_from_source. Qed.
Print Assumptions C02_thread_free_from_source.

(* the metadata part of ovni_thread_init as generated (from the view of rthread after the memset) = the model's ThreadInit
   case, for a thread that passes the guards at the head of the C function: same tree stored first (without the require),
   same tree kept (with "ovni.require.ovni"), die() iff the model dies *)
Theorem C02_thread_init_metadata_from_source : forall sx s th tid node out,
  path_ok sx tid = true -> in_dom (ThreadInit tid) = true ->
  t_ready (tget (st_threads s) th) = false -> t_finished (tget (st_threads s) th) = false -> tid <> 0 -> proc_ready s = true ->
  agrees sx th out (src_thread_init_meta sx (init_view s tid node out)) (step src_cfg s th (ThreadInit tid)) no_val.
Proof. exact thread_init_step_from_source. Qed.
Print Assumptions C02_thread_init_metadata_from_source.

(* set_thread_cpus (the only loop of the metadata functions) is accepted by the translator in one exact counted shape only and
   rendered, with the key "ovni.loom_cpus", the member names "index" / "phyid", their order and the field read for each
   taken from the C text, as an instance of the generic array_of_list_loop of RtMetaPre.v; that instance is the fold the
   model's free_tree writes (map cpu_json over the registered CPUs in order, stored under ovni.loom_cpus, die() on
   failure).  ovni_thread_free above calls this generated function: the special primitive is gone. *)
Theorem C02_set_thread_cpus_from_source : forall sx st fs,
  r_meta st = Some fs -> set_thread_cpus (Some tt) sx st = set_thread_cpus_fold (Some tt) sx st.
Proof. exact set_thread_cpus_from_source. Qed.
Print Assumptions C02_set_thread_cpus_from_source.

(* the WHOLE ovni_thread_init as generated (guards on rthread.ready / finished, tid, rproc.st; memset(&rthread, 0, ..) as
   zero_rthread; the tid; the buffer / stream calls as primitives outside the metadata state; thread_metadata_init; ready;
   the implicit require) = the model's ThreadInit case, refusals included: already initialised (ignored with a warning),
   finished, tid 0, process not ready.  The sequencing is generated, no longer written by hand. *)
Theorem C02_thread_init_from_source : forall sx s th tid node out,
  path_ok sx tid = true ->
  agrees sx th out (ovni_thread_init tid sx (rs_of s th node out)) (step src_cfg s th (ThreadInit tid)) no_val.
Proof. exact thread_init_from_source. Qed.
Print Assumptions C02_thread_init_from_source.

(* ovni_proc_init as generated (the compare-exchange on rproc.st executed by one thread - racing callers are unit rtconc's -
   with its three refusals, the loom-name length check, strcpy / pid / app, READY) = the model's ProcInit case *)
Theorem C02_proc_init_from_source : forall sx s th node out app loom pid,
  agrees sx th out (ovni_proc_init app (Some loom) pid sx (rs_of s th node out)) (step src_cfg s th (ProcInit app loom pid)) no_val.
Proof. exact proc_init_from_source. Qed.
Print Assumptions C02_proc_init_from_source.

(* the last two API calls: ovni_proc_fini (single-caller compare-exchange READY -> GONE, refused when the process is not
   ready; try_clean_dir outside the metadata state) and ovni_flush (guards on rthread.ready and rproc.st; the flush events and
   the write of the buffer are unit rtbuf's, the identity on the metadata state) as generated = the ProcFini / Flush cases.
   With them call_agrees has a case for EVERY constructor of RtMetaDefs.op: C02_metadata_calls_from_source and
   C02_metadata_runs_from_source range over the whole API. *)
Theorem C02_proc_fini_from_source : forall sx s th node out,
  agrees sx th out (ovni_proc_fini sx (rs_of s th node out)) (step src_cfg s th ProcFini) no_val.
Proof. exact proc_fini_from_source. Qed.
Print Assumptions C02_proc_fini_from_source.

Theorem C02_flush_from_source : forall sx s th node out,
  agrees sx th out (ovni_flush sx (rs_of s th node out)) (step src_cfg s th Flush) no_val.
Proof. exact flush_from_source. Qed.
Print Assumptions C02_flush_from_source.

(* the model's constants are those of the source: the theorems above are instantiated at src_cfg, whose model version
   parses (hypothesis of C02_metadata_complete) *)
Example C02_src_cfg_ok : VersionDefs.version_parse (Some (c_model_version src_cfg)) <> None.
Proof. vm_compute. discriminate. Qed.
End MetaSrc.
(* ==== end of block (unit rtmeta) ==== *)
