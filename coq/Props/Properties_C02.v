(* C02 - Traces produced through correct API use are valid and accepted by the emulator.
   Only statements here; proofs are in Proofs/RtBufProofs.v.  Model and notation: see
   Props/Properties_C01.v.  `run true` is the model of the REPAIRED add_flush_events
   (patches/fix-c02-flush-markers.diff), `run false` the code before the repair.

   A conformant program here is: ovni_thread_init (part of `run`), any sequence `ops` of emit /
   jumbo-emit / flush / mark calls that the API accepts (otherwise the run aborts and there is no
   ROk result), every event clock taken with ovni_clock_now() from a non-decreasing clock
   (clock_okb), no forged OF* events (user_flush_free), then ovni_flush and ovni_thread_free.

   valid_stream bytes (Rt/RtBufDefs.v) decides: the 8-byte header is right, the strict parser tiles
   the rest exactly into well-formed events, clocks never decrease, and OF[ / OF] alternate starting
   and ending outside a flush (paired, not nested).

   FULL STATEMENT of the property, of which the theorems below prove the part about stream.obs:
     conformant program => (1) every stream conforms to the trace specification: events tile the
     file, clocks never decrease, flush markers are paired and not nested, (2) the metadata is
     complete, (3) the emulator accepts the trace.
   (1) is C02_valid_stream_after_free / C02_valid_stream_always, for all programs, capacities >= 64
   and fill levels.  (2) and (3) are NOT theorems: stream.json is written by parson and the
   emulator is not part of this model; lib/checks/c02.py checks the metadata keys and runs the real
   `ovniemu -l` on every trace it generates.  Hence the suffix _partial on the summary theorem. *)
From OV Require Import Base.CInt Rt.CodecPre Gen.Codec_gen Rt.CodecDefs Rt.RtBufDefs
  Proofs.CodecProofs Proofs.RtBufProofs.
Local Open Scope Z_scope.

(* at every moment of a conformant run both the file and file ++ buffer are valid streams
   (a flush never cuts an event or a marker pair) *)
Theorem C02_valid_stream_always : forall cap ops clock s log,
  64 <= cap -> forallb op_wfb ops = true -> existsb is_free ops = false -> clock_okb clock = true ->
  forallb user_flush_free ops = true ->
  run true cap ops clock = ROk (s, log) ->
  valid_stream (disk_bytes s) = true /\ valid_stream (disk_bytes s ++ buf_bytes s) = true.
Proof. exact valid_no_free. Qed.
Print Assumptions C02_valid_stream_always.

(* after flush + free the file is valid and holds every event handed over (C01) *)
Theorem C02_conformant_valid_partial : forall cap ops clock s log,
  64 <= cap -> forallb op_wfb ops = true -> existsb is_free ops = false -> clock_okb clock = true ->
  forallb user_flush_free ops = true ->
  run true cap (ops ++ [Flush; Free]) clock = ROk (s, log) ->
  valid_stream (disk_bytes s) = true /\ fidelity log (disk_bytes s).
Proof. exact valid_after_free. Qed.
Print Assumptions C02_conformant_valid_partial.

(* what a positive answer of the decider means for a file: it IS the header followed by the encodings of
   well-formed events (exact tiling) with sorted clocks and well-paired flush markers *)
Theorem C02_valid_stream_meaning : forall bs,
  Forall byte bs -> valid_stream bs = true ->
  exists es, bs = STREAM_HEADER ++ flat_map encode es /\ Forall wf_uev es /\
             sortedb (map u_clock es) = true /\ flush_okb es = true.
Proof. exact valid_stream_meaning. Qed.
Print Assumptions C02_valid_stream_meaning.

(* every conformant program completes in the model (5 clock values per call suffice), so the
   hypothesis `run ... = ROk` above is satisfiable by all of them *)
Theorem C02_conformant_programs_complete : forall fx cap ops clock,
  64 <= cap -> forallb op_wfb ops = true -> existsb is_free ops = false -> forallb (api_okb cap) ops = true ->
  (5 * length ops + 5 <= length clock)%nat ->
  exists s log, run fx cap (ops ++ [Flush; Free]) clock = ROk (s, log).
Proof. exact run_total_free. Qed.
Print Assumptions C02_conformant_programs_complete.

(* the model's out-of-fuel answer cannot make the above vacuous *)
Theorem C02_never_out_of_fuel : forall fx cap ops clock,
  64 <= cap -> forallb op_wfb ops = true -> run fx cap ops clock <> RNoFuel.
Proof. exact run_never_out_of_fuel. Qed.
Print Assumptions C02_never_out_of_fuel.

(* The code BEFORE the repair violates the property: a conformant program (two events, flush, free,
   increasing clock, 64-byte buffer, a jumbo event of 56 bytes) leaves OF[ 30, OF[ 50, OF] 60, OF] 40
   on disk.  Same defect with the real 2 MiB buffer for jumbo totals in [cap-12, cap-1]
   (corpus/C02, replayed against libovni.so by lib/checks/c02.py). *)
Theorem C02_valid_refuted :
  exists cap ops clock,
    64 <= cap /\ forallb op_wfb ops = true /\ existsb is_free ops = false /\ clock_okb clock = true /\
    forallb user_flush_free ops = true /\
    match run false cap (ops ++ [Flush; Free]) clock with
    | ROk (s, _) => valid_stream (disk_bytes s) = false
    | _ => False
    end.
Proof. exact valid_refuted. Qed.
Print Assumptions C02_valid_refuted.

(* non-vacuity: the refuting program is valid under the repaired code; a longer conformant run with
   several automatic flushes and near-capacity jumbos *)
Example C02_ex_refuting_program_repaired :
  match run true 64 (refute_ops ++ [Flush; Free]) refute_clock with
  | ROk (s, _) => valid_stream (disk_bytes s) = true
  | _ => False
  end.
Proof. exact refute_ops_repaired. Qed.

Definition ex2_ops : list op :=
  [Emit 79 72 120 [[0; 0; 0; 0]; [255; 255; 255; 255]; [0; 0; 0; 0; 0; 0; 0; 0]];
   MarkPush 1 5; JumboEmit 79 66 46 (repeat 1 47); JumboEmit 79 66 46 (repeat 2 36);
   Emit 79 85 120 [[1; 2]]; JumboEmit 79 66 46 (repeat 3 24); MarkPop 1 5; MarkSet 2 (-1);
   JumboEmit 79 66 46 []; Emit 79 72 101 []].
Definition ex2_clock : list Z :=
  [100; 100; 101; 105; 105; 110; 111; 112; 113; 114; 115; 116; 117; 118; 119; 120; 121; 122; 123; 124;
   125; 126; 127; 128; 129; 130; 131; 132; 133; 134; 135; 136; 137; 138; 139; 140].

Example C02_ex_hypotheses :
  forallb op_wfb ex2_ops = true /\ existsb is_free ex2_ops = false /\ clock_okb ex2_clock = true /\
  forallb user_flush_free ex2_ops = true.
Proof. vm_compute. repeat split. Qed.

Example C02_ex_run :
  match run true 64 (ex2_ops ++ [Flush; Free]) ex2_clock with
  | ROk (s, log) => length log = 10%nat /\ (5 <= length (wr s))%nat /\ valid_stream (disk_bytes s) = true
  | _ => False
  end.
Proof. vm_compute. repeat split; repeat constructor. Qed.

Example C02_ex_run_before_repair :
  match run false 64 (ex2_ops ++ [Flush; Free]) ex2_clock with
  | ROk (s, log) => valid_stream (disk_bytes s) = false
  | _ => False
  end.
Proof. vm_compute. reflexivity. Qed.
