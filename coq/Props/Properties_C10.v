From OV Require Import Rt.RtFsDefs.
Theorem C10_placeholder : True. Proof. exact I. Qed.
Print Assumptions C10_placeholder.
