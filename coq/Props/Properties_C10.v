(* C10 - I/O faults are never silent: the runtime aborts with a diagnostic or leaves a complete valid trace;
   it never returns normally after losing flushed events and never deletes the only complete copy.
   Only statements here; model and spec: Rt/RtFsDefs.v; proofs: Proofs/RtFsProofs.v.
   The theorems are about the REPAIRED relocation (patches/fix-c10-c09-move-to-final.diff, variant New);
   C10_single_fault_refuted_old is about the relocation as found (variant Old).
   Reading of "complete valid trace" (stated in manifest.d/C10.json): every stream of the program is complete
   - stream.json parses with finished = 1 and stream.obs holds every byte handed to write() - in its final
   or in its temporary directory.  proof (partial): kernel/file-system semantics, stdio buffering (any buffer
   size is covered), errors reported late by the kernel and power loss are not exhibited by the model. *)
From Coq Require Import ZArith List.
From OV Require Import Rt.RtFsDefs Proofs.RtFsProofs.
Import ListNotations.
Local Open Scope Z_scope.

(* every program (any number of threads and flushes), both modes, every readdir order, every stdio buffer
   size, every position i of the failing call and every fault kind (error return, short count) *)
Theorem C10_single_fault : forall bufsz m P rho i fk, wf_program P -> wf_order rho ->
  let s := apply_with_fault bufsz i fk (itrace New m P rho) in
  outcome_of P s = AbortWithDiagnostic \/ outcome_of P s = CompleteValidTrace.
Proof. intros bufsz m P rho i fk WP W. exact (proj1 (C10_all bufsz m P rho WP W i fk)). Qed.
Print Assumptions C10_single_fault.

(* no source file is removed unless its copy in the final directory is complete - also when the run aborts *)
Theorem C10_no_orphan_delete : forall bufsz m P rho i fk, wf_program P -> wf_order rho ->
  orphan_delete (apply_with_fault bufsz i fk (itrace New m P rho)) P = false.
Proof. intros bufsz m P rho i fk WP W. exact (proj2 (C10_all bufsz m P rho WP W i fk)). Qed.
Print Assumptions C10_no_orphan_delete.

(* the relocation as found: fwrite failing during the copy of stream.obs is ignored, the source is removed,
   the program returns normally without any diagnostic (witness replayed by lib/checks/c10.py) *)
Theorem C10_single_fault_refuted_old :
  exists bufsz m P rho i fk, wf_program P /\ wf_order rho /\
    let s := apply_with_fault bufsz i fk (itrace Old m P rho) in
    outcome_of P s = ReturnedIncomplete /\ m_diag s = false /\ orphan_delete s P = true.
Proof. exact RtFsProofs.C10_single_fault_refuted_old. Qed.
Print Assumptions C10_single_fault_refuted_old.

(* non-vacuity: both outcomes occur, and the interesting one - returned normally with the stream kept in
   the temporary directory after a failed copy - is reached (call 36 = fwrite into the final stream.obs) *)
Example C10_example_copy_fails :
  let s := apply_with_fault 4096 35 FErr (itrace New TmpMode P_w rho_json_first) in
  outcome_of P_w s = CompleteValidTrace /\ m_dead s = false /\ m_diag s = true /\
  stream_complete (m_fs s) Tmp th_w = true /\ stream_complete (m_fs s) Fin th_w = false.
Proof. cbv zeta. repeat split; vm_compute; reflexivity. Qed.

Example C10_example_abort :
  let s := apply_with_fault 4096 15 FErr (itrace New TmpMode P_w rho_json_first) in
  outcome_of P_w s = AbortWithDiagnostic.
Proof. vm_compute; reflexivity. Qed.

Example C10_example_short_write :
  let s := apply_with_fault 4096 19 (FShort 5) (itrace New Direct P_w rho_obs_first) in
  outcome_of P_w s = CompleteValidTrace /\ stream_complete (m_fs s) Fin th_w = true.
Proof. cbv zeta. split; vm_compute; reflexivity. Qed.

Example C10_example_no_fault :
  let s := apply_with_fault 4096 1000 FErr (itrace New TmpMode P_w rho_obs_first) in
  outcome_of P_w s = CompleteValidTrace /\ stream_complete (m_fs s) Fin th_w = true /\ m_diag s = false.
Proof. cbv zeta. repeat split; vm_compute; reflexivity. Qed.

(* ==== relocation code from source (unit rtfs) ==== *)
(* See the block of the same name in Properties_C09.v. *)
From OV Require Rt.RtFsPre Gen.RtFs_gen Proofs.RtFsGenProofs.
(* PARTIAL (bounded exhaustive, by evaluation): for each of 29 directory listings (the 24 orders of ". .. stream.obs
   stream.json", listings with missing and repeated entries), also changing between the three traversals, four
   stream sizes around the 1024-byte chunk boundary (8, 1024, 1025, 2608 bytes), and every single fault - the n-th libc
   call returns its error value, or is a short fwrite of 0 items, for every n below 50 (the longest run makes 42 calls) -
   the generated code (RtFsGenProofs.gen_reloc: move_thdir_to_final, then try_clean_dir) and RtFsDefs.run on the
   instruction list relocate_new make the same calls in the same order, print a diagnostic in the same cases and do
   not abort: every libc result is checked, a failing call leads to the model's err() and stops the later passes
   (nothing is removed after a failed copy), it is never ignored.  RtFsGenProofs.same compares the logs call by
   call, the diagnostic flags and the abort flags.  NOT proved: this agreement for all sizes, orders and fault
   positions at once (the no-fault case is, C09_call_sequence_from_source); a short fwrite of c >= chunk-length items
   is a failure for RtFsDefs.is_failure but not for the C (fwrite returned what was asked). *)
Theorem C10_fault_handling_from_source_partial :
  forallb (fun th => forallb (fun o => forallb (RtFsGenProofs.fam_ok 400 th (fun _ _ => o)) (RtFsGenProofs.fam_faults 50))
                             RtFsGenProofs.fam_orders) RtFsGenProofs.fam_threads = true /\
  forallb (fun i => forallb (RtFsGenProofs.fam_ok 400 (mkth 7 [repeat 3 1017%nat] 2 5) (RtFsGenProofs.rot i)) (RtFsGenProofs.fam_faults 50))
          (seq 0 29) = true.
Proof. exact (conj RtFsGenProofs.fam_same_listing RtFsGenProofs.fam_changing_listing). Qed.
Print Assumptions C10_fault_handling_from_source_partial.

(* write_evbuf (the do / while around write(2)): all bytes in one write; a failing write dies with a message; a short
   write is followed by the write of the remaining bytes (RtFsDefs folds the two into one Write) *)
Example C10_ex_write_evbuf :
  (match RtFsGenProofs.ex_write_store None with
   | RtFsPre.ROk (_, _, w) => rev (RtFsPre.w_log w) = [Write (PFile Tmp 5 Obs) [1; 2; 3; 4; 5; 6; 7; 8]] /\ RtFsPre.w_diag w = false
   | _ => False end) /\
  (match RtFsGenProofs.ex_write_store (Some (0%nat, FErr)) with
   | RtFsPre.RDie w => RtFsPre.w_dead w = true /\ RtFsPre.w_diag w = true | _ => False end) /\
  (match RtFsGenProofs.ex_write_store (Some (0%nat, FShort 3)) with
   | RtFsPre.ROk (_, _, w) => rev (RtFsPre.w_log w) = [Write (PFile Tmp 5 Obs) [1; 2; 3]; Write (PFile Tmp 5 Obs) [4; 5; 6; 7; 8]]
   | _ => False end).
Proof. exact RtFsGenProofs.ex_write_evbuf. Qed.
(* ==== end of block (unit rtfs) ==== *)
