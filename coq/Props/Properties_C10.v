(* C10 - I/O faults are never silent: the runtime aborts with a diagnostic or leaves a complete valid trace;
   it never returns normally after losing flushed events and never deletes the only complete copy.
   Only statements here; model and spec: Rt/RtFsDefs.v; proofs: Proofs/RtFsProofs.v.
   The theorems are about the REPAIRED relocation (patches/fix-c10-c09-move-to-final.diff, variant New);
   C10_single_fault_refuted_old is about the relocation as found (variant Old).
   Reading of "complete valid trace" (stated in manifest.d/C10.json): every stream of the program is complete
   - stream.json parses with finished = 1 and stream.obs holds every byte handed to write() - in its final
   or in its temporary directory.  proof (partial): kernel/file-system semantics, stdio buffering (any buffer
   size is covered), errors reported late by the kernel and power loss are not exhibited by the model. *)
From Coq Require Import ZArith List.
From OV Require Import Rt.RtFsDefs Proofs.RtFsProofs.
Import ListNotations.
Local Open Scope Z_scope.

(* every program (any number of threads and flushes), both modes, every readdir order, every stdio buffer
   size, every position i of the failing call and every fault kind (error return, short count) *)
Theorem C10_single_fault : forall bufsz m P rho i fk, wf_program P -> wf_order rho ->
  let s := apply_with_fault bufsz i fk (itrace New m P rho) in
  outcome_of P s = AbortWithDiagnostic \/ outcome_of P s = CompleteValidTrace.
Proof. intros bufsz m P rho i fk WP W. exact (proj1 (C10_all bufsz m P rho WP W i fk)). Qed.
Print Assumptions C10_single_fault.

(* no source file is removed unless its copy in the final directory is complete - also when the run aborts *)
Theorem C10_no_orphan_delete : forall bufsz m P rho i fk, wf_program P -> wf_order rho ->
  orphan_delete (apply_with_fault bufsz i fk (itrace New m P rho)) P = false.
Proof. intros bufsz m P rho i fk WP W. exact (proj2 (C10_all bufsz m P rho WP W i fk)). Qed.
Print Assumptions C10_no_orphan_delete.

(* the relocation as found: fwrite failing during the copy of stream.obs is ignored, the source is removed,
   the program returns normally without any diagnostic (witness replayed by lib/checks/c10.py) *)
Theorem C10_single_fault_refuted_old :
  exists bufsz m P rho i fk, wf_program P /\ wf_order rho /\
    let s := apply_with_fault bufsz i fk (itrace Old m P rho) in
    outcome_of P s = ReturnedIncomplete /\ m_diag s = false /\ orphan_delete s P = true.
Proof. exact RtFsProofs.C10_single_fault_refuted_old. Qed.
Print Assumptions C10_single_fault_refuted_old.

(* non-vacuity: both outcomes occur, and the interesting one - returned normally with the stream kept in
   the temporary directory after a failed copy - is reached (call 36 = fwrite into the final stream.obs) *)
Example C10_example_copy_fails :
  let s := apply_with_fault 4096 35 FErr (itrace New TmpMode P_w rho_json_first) in
  outcome_of P_w s = CompleteValidTrace /\ m_dead s = false /\ m_diag s = true /\
  stream_complete (m_fs s) Tmp th_w = true /\ stream_complete (m_fs s) Fin th_w = false.
Proof. cbv zeta. repeat split; vm_compute; reflexivity. Qed.

Example C10_example_abort :
  let s := apply_with_fault 4096 15 FErr (itrace New TmpMode P_w rho_json_first) in
  outcome_of P_w s = AbortWithDiagnostic.
Proof. vm_compute; reflexivity. Qed.

Example C10_example_short_write :
  let s := apply_with_fault 4096 19 (FShort 5) (itrace New Direct P_w rho_obs_first) in
  outcome_of P_w s = CompleteValidTrace /\ stream_complete (m_fs s) Fin th_w = true.
Proof. cbv zeta. split; vm_compute; reflexivity. Qed.

Example C10_example_no_fault :
  let s := apply_with_fault 4096 1000 FErr (itrace New TmpMode P_w rho_obs_first) in
  outcome_of P_w s = CompleteValidTrace /\ stream_complete (m_fs s) Fin th_w = true /\ m_diag s = false.
Proof. cbv zeta. repeat split; vm_compute; reflexivity. Qed.
