(* C05 - CPU occupancy: one running thread per physical CPU; CPU rows mirror threads. *)
From Coq Require Import ZArith List Bool.
From OV Require Import Emu.GuardsPre.
From OV Require Import Emu.EmuCoreDefs Emu.ThreadSpecDefs Proofs.EmitProofs Proofs.EmuCoreProofs
  Proofs.ThreadCpuProofs Proofs.EmuCoreWf.
From OV Require Gen.Guards_gen Proofs.GuardsProofs Emu.DecodeDefs.
Import ListNotations.
Local Open Scope Z_scope.

(* in every state reached through accepted thread/affinity events: no physical CPU has two running
   threads; a thread is in a CPU's list exactly when it is bound to that CPU; the number the emulator
   computes from its list is the number of running threads bound to the CPU *)
Theorem C05_occupancy : forall sx h st,
  oh_run sx (init sx) h = Ok st ->
  (forall c, cpu_is_virtual sx c = false -> (nrunning st c <= 1)%nat) /\
  (forall c t, In t (cl st c) <-> (t < length (threads st))%nat /\ t_cpu (thr st t) = Some c) /\
  (forall c, nrunning st c = srunning (proj st) c).
Proof. exact occupancy. Qed.
Print Assumptions C05_occupancy.

(* a trace that would put a second running thread on a physical CPU is rejected at that very step:
   the specification (which checks every physical CPU) refuses it too, and conversely (C04_step_simulation) *)
Theorem C05_oversubscription_rejected : forall sx h st who e,
  oh_run sx (init sx) h = Ok st ->
  oh_step sx st who e = Err E_OVERSUB ->
  spec_step sx (proj st) who e = None.
Proof. exact oversub_refused. Qed.
Print Assumptions C05_oversubscription_rejected.

(* CPU rows at every instant of an accepted run of the complete model: number of running threads,
   TID and PID of the running thread when it is unique, nothing otherwise *)
Theorem C05_cpu_rows : forall sx evs1 evs2 st tl,
  types_ok sx -> any_init_ok sx ->
  run_from sx (init sx) (evs1 ++ evs2) = Ok (st, tl) ->
  exists st1 tl1, run_from sx (init sx) evs1 = Ok (st1, tl1) /\
    forall c, (c < length (s_cpus sx))%nat ->
      let ls := lines_of tl1 in
      shown ls (true, c, PRV_CPU_NRUN) = (match v_nrun st1 c with Some n => n | None => 0 end) /\
      shown ls (true, c, PRV_CPU_TID) = (match th_running st1 c with
                                         | Some t => ti_tid (nth t (s_threads sx) dummy_info) | None => 0 end) /\
      shown ls (true, c, PRV_CPU_PID) = (match th_running st1 c with
                                         | Some t => ti_pid (nth t (s_threads sx) dummy_info) | None => 0 end).
Proof. exact cpu_rows. Qed.
Print Assumptions C05_cpu_rows.

(* the virtual CPU may be oversubscribed *)
Definition sx3 : static :=
  {| s_threads := [{| ti_tid := 7; ti_pid := 1; ti_loom := 0; ti_appid := 1; ti_rank := -1 |}; {| ti_tid := 8; ti_pid := 1; ti_loom := 0; ti_appid := 1; ti_rank := -1 |}];
     s_cpus := [{| ci_virtual := false; ci_loom := 0; ci_index := 0 |}; {| ci_virtual := true; ci_loom := 0; ci_index := -1 |}];
     s_chans := []; s_lint := false |}.
Example C05_ex_virtual :
  emu_accepts sx3 [(0%nat, Execute (-1)); (1%nat, Execute (-1)); (0%nat, End_); (1%nat, End_)] = true.
Proof. vm_compute. reflexivity. Qed.
Example C05_ex_remote_oversub :
  emu_accepts sx3 [(0%nat, Execute 0); (1%nat, Execute (-1)); (0%nat, AffRemote 0 8)] = false.
Proof. vm_compute. reflexivity. Qed.

(* ---------------------------------------------------------------------------------------------
   The tie to the source (see Properties_C04.v): Gen/Guards_gen.v is regenerated on every run from
   src/emu/ovni/event.c and src/emu/cpu.c. *)

(* pre_affinity_set and pre_affinity_remote generated from the source = oh_step on AffSet / AffRemote
   (the hand model's `migrate` = the generated cpu_migrate_thread, itself translated from cpu.c, then
   thread_migrate_cpu) *)
Theorem C05_affinity_from_source : forall sx st who th me,
  nth_error (threads st) who = Some th -> nth_error (s_threads sx) who = Some me ->
  GuardsProofs.GInv sx st -> t_ooc th = false ->
  forall e, e_who e = who ->
  outcome_of (exec (Guards_gen.pre_affinity_set e) sx st) =
  outcome_of (if Nat.eqb (length (e_payload e)) 4 then oh_step sx st who (AffSet (pl_i32 (e_payload e) 0))
              else Err E_PAYLOAD) /\
  outcome_of (exec (Guards_gen.pre_affinity_remote e) sx st) =
  outcome_of (if Nat.eqb (length (e_payload e)) 8
              then oh_step sx st who (AffRemote (pl_i32 (e_payload e) 0) (pl_i32 (e_payload e) 4))
              else Err E_PAYLOAD).
Proof. exact GuardsProofs.affinity_handlers_eq. Qed.
Print Assumptions C05_affinity_from_source.

(* the dispatcher model_ovni_event -> pre_affinity generated from the source = decoder + handler of the model *)
Theorem C05_dispatch_from_source : forall sx st who th me cs v p,
  nth_error (threads st) who = Some th -> nth_error (s_threads sx) who = Some me -> GuardsProofs.GInv sx st ->
  outcome_of (exec (Guards_gen.model_ovni_event (GuardsProofs.mk_emu who 65 v p)) sx st) =
  outcome_of (GuardsProofs.fst_res (core_step sx st who (DecodeDefs.decode_ovni cs 65 v p))).
Proof. exact (fun sx st who th me cs v p Hth Hme HI => GuardsProofs.dispatch_eq sx st who th me cs 65 v p Hth Hme HI (or_intror eq_refl)). Qed.
Print Assumptions C05_dispatch_from_source.

(* the invariant the two theorems assume holds in every state reached by accepted thread/affinity events *)
Theorem C05_invariant_reached : forall sx h st,
  oh_run sx (init sx) h = Ok st -> GuardsProofs.GInv sx st.
Proof. exact GuardsProofs.GInv_reached. Qed.
Print Assumptions C05_invariant_reached.

(* the generated handlers evaluated: thread 1 on the virtual CPU moves itself to the physical one (accepted, lists
   updated); a remote move of thread 0 next to it is refused (oversubscription); moving a thread to the CPU it is on
   by OAr is refused *)
Example C05_ex_generated :
  match GuardsProofs.gen_run sx3 (init sx3)
          [(0%nat, 72, 120, GuardsProofs.i32le (-1)); (1%nat, 72, 120, GuardsProofs.i32le (-1)); (1%nat, 65, 115, GuardsProofs.i32le 0)] with
  | Ok st => cpu_threads st
  | Err _ => []
  end = [[1%nat]; [0%nat]] /\
  outcome_of (GuardsProofs.gen_run sx3 (init sx3)
                [(0%nat, 72, 120, GuardsProofs.i32le (-1)); (1%nat, 72, 120, GuardsProofs.i32le 0);
                 (1%nat, 65, 114, GuardsProofs.i32le 0 ++ GuardsProofs.i32le 7)]) = Reject /\
  outcome_of (GuardsProofs.gen_run sx3 (init sx3)
                [(0%nat, 72, 120, GuardsProofs.i32le (-1)); (1%nat, 72, 120, GuardsProofs.i32le 0);
                 (1%nat, 65, 114, GuardsProofs.i32le (-1) ++ GuardsProofs.i32le 7)]) = Reject.
Proof. vm_compute. repeat split. Qed.
