(* C05 - CPU occupancy: one running thread per physical CPU; CPU rows mirror threads. *)
From Coq Require Import ZArith List Bool.
From OV Require Import Emu.GuardsPre.
From OV Require Import Emu.EmuCoreDefs Emu.ThreadSpecDefs Proofs.EmitProofs Proofs.EmuCoreProofs
  Proofs.ThreadCpuProofs Proofs.EmuCoreWf.
From OV Require Gen.Guards_gen Proofs.GuardsProofs Emu.DecodeDefs.
Import ListNotations.
Local Open Scope Z_scope.

(* in every state reached through accepted thread/affinity events: no physical CPU has two running
   threads; a thread is in a CPU's list exactly when it is bound to that CPU; the number the emulator
   computes from its list is the number of running threads bound to the CPU *)
Theorem C05_occupancy : forall sx h st,
  oh_run sx (init sx) h = Ok st ->
  (forall c, cpu_is_virtual sx c = false -> (nrunning st c <= 1)%nat) /\
  (forall c t, In t (cl st c) <-> (t < length (threads st))%nat /\ t_cpu (thr st t) = Some c) /\
  (forall c, nrunning st c = srunning (proj st) c).
Proof. exact occupancy. Qed.
Print Assumptions C05_occupancy.

(* a trace that would put a second running thread on a physical CPU is rejected at that very step:
   the specification (which checks every physical CPU) refuses it too, and conversely (C04_step_simulation) *)
Theorem C05_oversubscription_rejected : forall sx h st who e,
  oh_run sx (init sx) h = Ok st ->
  oh_step sx st who e = Err E_OVERSUB ->
  spec_step sx (proj st) who e = None.
Proof. exact oversub_refused. Qed.
Print Assumptions C05_oversubscription_rejected.

(* CPU rows at every instant of an accepted run of the complete model: number of running threads,
   TID and PID of the running thread when it is unique, nothing otherwise *)
Theorem C05_cpu_rows : forall sx evs1 evs2 st tl,
  types_ok sx -> any_init_ok sx ->
  run_from sx (init sx) (evs1 ++ evs2) = Ok (st, tl) ->
  exists st1 tl1, run_from sx (init sx) evs1 = Ok (st1, tl1) /\
    forall c, (c < length (s_cpus sx))%nat ->
      let ls := lines_of tl1 in
      shown ls (true, c, PRV_CPU_NRUN) = (match v_nrun st1 c with Some n => n | None => 0 end) /\
      shown ls (true, c, PRV_CPU_TID) = (match th_running st1 c with
                                         | Some t => ti_tid (nth t (s_threads sx) dummy_info) | None => 0 end) /\
      shown ls (true, c, PRV_CPU_PID) = (match th_running st1 c with
                                         | Some t => ti_pid (nth t (s_threads sx) dummy_info) | None => 0 end).
Proof. exact cpu_rows. Qed.
Print Assumptions C05_cpu_rows.

(* the virtual CPU may be oversubscribed *)
Definition sx3 : static :=
  {| s_threads := [{| ti_tid := 7; ti_pid := 1; ti_loom := 0; ti_appid := 1; ti_rank := -1 |}; {| ti_tid := 8; ti_pid := 1; ti_loom := 0; ti_appid := 1; ti_rank := -1 |}];
     s_cpus := [{| ci_virtual := false; ci_loom := 0; ci_index := 0 |}; {| ci_virtual := true; ci_loom := 0; ci_index := -1 |}];
     s_chans := []; s_lint := false |}.
Example C05_ex_virtual :
  emu_accepts sx3 [(0%nat, Execute (-1)); (1%nat, Execute (-1)); (0%nat, End_); (1%nat, End_)] = true.
Proof. vm_compute. reflexivity. Qed.
Example C05_ex_remote_oversub :
  emu_accepts sx3 [(0%nat, Execute 0); (1%nat, Execute (-1)); (0%nat, AffRemote 0 8)] = false.
Proof. vm_compute. reflexivity. Qed.

(* ---------------------------------------------------------------------------------------------
   The tie to the source (see Properties_C04.v): Gen/Guards_gen.v is regenerated on every run from
   src/emu/ovni/event.c and src/emu/cpu.c. *)

(* pre_affinity_set and pre_affinity_remote generated from the source = oh_step on AffSet / AffRemote
   (the hand model's `migrate` = the generated cpu_migrate_thread, itself translated from cpu.c, then
   thread_migrate_cpu) *)
Theorem C05_affinity_from_source : forall sx st who th me,
  nth_error (threads st) who = Some th -> nth_error (s_threads sx) who = Some me ->
  GuardsProofs.GInv sx st -> t_ooc th = false ->
  forall e, e_who e = who ->
  outcome_of (exec (Guards_gen.pre_affinity_set e) sx st) =
  outcome_of (if Nat.eqb (length (e_payload e)) 4 then oh_step sx st who (AffSet (pl_i32 (e_payload e) 0))
              else Err E_PAYLOAD) /\
  outcome_of (exec (Guards_gen.pre_affinity_remote e) sx st) =
  outcome_of (if Nat.eqb (length (e_payload e)) 8
              then oh_step sx st who (AffRemote (pl_i32 (e_payload e) 0) (pl_i32 (e_payload e) 4))
              else Err E_PAYLOAD).
Proof. exact GuardsProofs.affinity_handlers_eq. Qed.
Print Assumptions C05_affinity_from_source.

(* the dispatcher model_ovni_event -> pre_affinity generated from the source = decoder + handler of the model *)
Theorem C05_dispatch_from_source : forall sx st who th me cs v p,
  nth_error (threads st) who = Some th -> nth_error (s_threads sx) who = Some me -> GuardsProofs.GInv sx st ->
  outcome_of (exec (Guards_gen.model_ovni_event (GuardsProofs.mk_emu who 65 v p)) sx st) =
  outcome_of (GuardsProofs.fst_res (core_step sx st who (DecodeDefs.decode_ovni cs 65 v p))).
Proof. exact (fun sx st who th me cs v p Hth Hme HI => GuardsProofs.dispatch_eq sx st who th me cs 65 v p Hth Hme HI (or_intror eq_refl)). Qed.
Print Assumptions C05_dispatch_from_source.

(* the invariant the two theorems assume holds in every state reached by accepted thread/affinity events *)
Theorem C05_invariant_reached : forall sx h st,
  oh_run sx (init sx) h = Ok st -> GuardsProofs.GInv sx st.
Proof. exact GuardsProofs.GInv_reached. Qed.
Print Assumptions C05_invariant_reached.

(* the generated handlers evaluated: thread 1 on the virtual CPU moves itself to the physical one (accepted, lists
   updated); a remote move of thread 0 next to it is refused (oversubscription); moving a thread to the CPU it is on
   by OAr is refused *)
Example C05_ex_generated :
  match GuardsProofs.gen_run sx3 (init sx3)
          [(0%nat, 72, 120, GuardsProofs.i32le (-1)); (1%nat, 72, 120, GuardsProofs.i32le (-1)); (1%nat, 65, 115, GuardsProofs.i32le 0)] with
  | Ok st => cpu_threads st
  | Err _ => []
  end = [[1%nat]; [0%nat]] /\
  outcome_of (GuardsProofs.gen_run sx3 (init sx3)
                [(0%nat, 72, 120, GuardsProofs.i32le (-1)); (1%nat, 72, 120, GuardsProofs.i32le 0);
                 (1%nat, 65, 114, GuardsProofs.i32le 0 ++ GuardsProofs.i32le 7)]) = Reject /\
  outcome_of (GuardsProofs.gen_run sx3 (init sx3)
                [(0%nat, 72, 120, GuardsProofs.i32le (-1)); (1%nat, 72, 120, GuardsProofs.i32le 0);
                 (1%nat, 65, 114, GuardsProofs.i32le (-1) ++ GuardsProofs.i32le 7)]) = Reject.
Proof. vm_compute. repeat split. Qed.

(* ==== thread.c / cpu.c from source (unit sys) ==== *)
(* See the block of the same name in Properties_C04.v.  cpu_update generated from cpu.c - the traversal of cpu->threads
   as a fold_left, nth_running / nth_active, the oversubscription test, th_running / th_active, the five chan_set
   through the generated chan.c - refines the primitive cpu_update of Emu/GuardsPre.v (touch + oversubscription
   test), and what it writes on the five CPU channels are exactly the model's views of the CPU in the new state:
   v_nrun, v_cpupid, v_cputid, th_running (as a gindex) and the unique active thread (SysProofs.Rel ... (c :: syn),
   field pr_chans with cpu_views).  CpuOk: the side conditions the C takes for granted (valid list elements,
   lengths of the bookkeeping lists, fewer than 2^31 threads in the list), consequences of Bind. *)
From OV Require Emu.ChanPre Emu.SysPre Gen.Sys_gen Proofs.SysProofs.
Theorem C05_cpu_update_from_source : forall (E : SysPre.senv) st0 st syn w c,
  SysProofs.Rel (SysPre.se_sx E) st0 st syn w -> mem_nat c syn = false -> SysProofs.CpuOk (SysPre.se_sx E) st c ->
  match GuardsPre.cpu_update (Some c) (SysPre.se_sx E) st with
  | Ok (_, st') => exists w', Sys_gen.cpu_update (Some c) E w = Ok (tt, w') /\
                              SysProofs.Rel (SysPre.se_sx E) st0 st' (c :: syn) w' /\ SysProofs.frame_cpu w w' c
  | Err e => exists e', Sys_gen.cpu_update (Some c) E w = Err e' /\ e' <> SysPre.E_TRAP
  end.
Proof. exact SysProofs.sys_cpu_update. Qed.
Print Assumptions C05_cpu_update_from_source.

(* a CPU channel that is dirty refuses a second write in the same event: chan.c's "cannot modify dirty channel",
   derived from the generated chan_set, not postulated *)
Theorem C05_dirty_cpu_channel_refuses : forall sx w c k ch v0 v nv,
  (c < length (SysPre.scps w))%nat -> nth_error (SysPre.c_chans (SysPre.scp w c)) k = Some ch ->
  SysProofs.ChRel true v0 v ch -> ChanPre.is_dirty ch = 1 ->
  SysPre.chan_set (Some (SysPre.CpC c (Z.of_nat k))) nv sx w = Err ChanPre.E_FAIL.
Proof. exact SysProofs.chan_set_cpu_dirty. Qed.
Print Assumptions C05_dirty_cpu_channel_refuses.

(* an affinity event in the C world = the step of the semantic model.  Not covered: an OAr that targets the CPU the
   remote thread is already on (refused by the model and by ovniemu; in the C world by a dirty CPU channel or by the
   repeated value of the thread's CPU channel, depending on the thread's state) *)
Theorem C05_affinity_event_in_c_world_from_source : forall (E : SysPre.senv) st w t cs v p,
  let sx := SysPre.se_sx E in
  let e := GuardsProofs.mk_emu t 65 v p in
  SysProofs.Rel0 sx st w -> Bind sx st ->
  length (cpu_touched st) = length (cpu_threads st) ->
  (forall k, Z.of_nat (length (SysProofs.clst st k)) + 1 < 2 ^ 31) ->
  (t < length (threads st))%nat ->
  (v = 114 -> forall r old new, GuardsPre.get_thread_cpu sx st (Some r) = Some old ->
     find_cpu sx (thread_loom sx t) (CInt.ix (GuardsPre.get_emu_ev_payload_i32 sx st e) 0) = Some new -> old <> new) ->
  match GuardsProofs.fst_res (core_step sx st t (DecodeDefs.decode_ovni cs 65 v p)) with
  | Ok st' => exists w' syn, SysPre.exec (Sys_gen.model_ovni_event e) E w = Ok w' /\ SysProofs.Rel sx st st' syn w' /\
              SysProofs.Quiet sx st st' syn
  | Err _ => exists e', SysPre.exec (Sys_gen.model_ovni_event e) E w = Err e' /\ e' <> SysPre.E_TRAP
  end.
Proof. exact SysProofs.sys_affinity_event_eq. Qed.
Print Assumptions C05_affinity_event_in_c_world_from_source.

(* the generated functions evaluated from the initial C world: thread 0 executes on CPU 0; afterwards its state,
   TID and CPU channels are dirty with 1, 7, 0 and the CPU's nrunning / PID / TID / th_running / th_active channels
   are dirty with 1, 1, 7, 0, 0 *)
Example C05_ex_c_world :
  match SysProofs.after_execute with
  | Ok w => (map SysProofs.chan_show (SysPre.s_chans (SysPre.sth w 0)), map SysProofs.chan_show (SysPre.c_chans (SysPre.scp w 0)),
             SysPre.c_threads (SysPre.scp w 0))
  | Err _ => ([], [], [])
  end = ([(1, 1, 0); (1, 1, 7); (1, 1, 1)], [(1, 1, 1); (1, 1, 1); (1, 1, 7); (1, 1, 0); (1, 1, 0)], [0%nat]).
Proof. vm_compute. reflexivity. Qed.
(* ==== end of block (unit sys) ==== *)

(* ==== cpu.c thread list from source (unit cpuc) ==== *)
(* Unit sys renders cpu_update / cpu_add_thread / cpu_remove_thread / cpu_migrate_thread of src/emu/cpu.c with find_thread
   as a hand primitive of Emu/SysPre.v (a search loop with an early return is outside the core's loop form).  Unit cpuc
   (translate/units/cpuc.py -> Gen/CpuC_gen.v over Emu/CpuCPre.v = SysPre.v + the search-loop combinator dl_search)
   regenerates find_thread WITH its DL_FOREACH2 loop - the `for` statement is checked to be the macro's expansion, its body
   is translated, cpu->threads is the Coq list of its elements in list order - and the four callers calling it.
   Proofs/CpuCProofs.v: the generated find_thread is exactly the primitive (membership, NULL when absent), and the four
   callers are exactly the functions of Gen/Sys_gen.v, so C05_cpu_update_from_source and
   C05_affinity_event_in_c_world_from_source are statements about code in which find_thread is generated too.
   On a NULL cpu the C dereferences NULL inside find_thread (E_TRAP in the generated code) where the primitive answered
   "not found": the equalities are for a non-NULL cpu, which is what every caller passes.  Still primitives: the utlist
   macros DL_APPEND2 / DL_DELETE2 (append / remove the element on the list: the pointer surgery of utlist.h is not
   translated). *)
From OV Require Emu.CpuCPre Gen.CpuC_gen Proofs.CpuCProofs.

Theorem C05_cpu_lists_from_source :
  (* find_thread: the thread itself when it is in cpu->threads, NULL otherwise; the state is not touched *)
  (forall sx st c t, CpuC_gen.find_thread (Some c) t sx st = Ok (SysPre.find_thread sx st (Some c) t, st)) /\
  (forall sx st c t, CpuC_gen.find_thread (Some c) (Some t) sx st =
                     Ok (if mem_nat t (SysPre.c_threads (SysPre.scp st c)) then Some t else None, st)) /\
  (* cpu_update (the counting loop over the list: nth_running / nth_active, th_running / th_active, the five channels) *)
  CpuC_gen.cpu_update = Sys_gen.cpu_update /\
  (* cpu_add_thread / cpu_remove_thread / cpu_migrate_thread: same refusals, same list, same counts, same channels *)
  (forall sx st c t, CpuC_gen.cpu_add_thread c t sx st = Sys_gen.cpu_add_thread c t sx st) /\
  (forall sx st c t, CpuC_gen.cpu_remove_thread (Some c) t sx st = Sys_gen.cpu_remove_thread (Some c) t sx st) /\
  (forall sx st c t c', CpuC_gen.cpu_migrate_thread (Some c) t c' sx st = Sys_gen.cpu_migrate_thread (Some c) t c' sx st) /\
  (* the two refusals, read off the list *)
  (forall sx st c t, mem_nat t (SysPre.c_threads (SysPre.scp st c)) = true ->
     CpuC_gen.cpu_add_thread (Some c) (Some t) sx st = Err SysPre.E_FAIL) /\
  (forall sx st c t, mem_nat t (SysPre.c_threads (SysPre.scp st c)) = false ->
     CpuC_gen.cpu_remove_thread (Some c) (Some t) sx st = Err SysPre.E_FAIL).
Proof.
  split; [exact CpuCProofs.find_thread_from_source|]. split; [intros sx st c t; apply CpuCProofs.find_thread_from_source|].
  split; [exact CpuCProofs.cpu_update_same|]. split; [exact CpuCProofs.cpu_add_thread_from_source|].
  split; [exact CpuCProofs.cpu_remove_thread_from_source|]. split; [exact CpuCProofs.cpu_migrate_thread_from_source|].
  split; [exact CpuCProofs.add_refuses_present | exact CpuCProofs.remove_refuses_absent].
Qed.
Print Assumptions C05_cpu_lists_from_source.

(* C05_cpu_update_from_source, restated for the function generated by unit cpuc *)
Theorem C05_cpu_update_from_source_cpuc : forall (E : SysPre.senv) st0 st syn w c,
  SysProofs.Rel (SysPre.se_sx E) st0 st syn w -> mem_nat c syn = false -> SysProofs.CpuOk (SysPre.se_sx E) st c ->
  match GuardsPre.cpu_update (Some c) (SysPre.se_sx E) st with
  | Ok (_, st') => exists w', CpuC_gen.cpu_update (Some c) E w = Ok (tt, w') /\
                              SysProofs.Rel (SysPre.se_sx E) st0 st' (c :: syn) w' /\ SysProofs.frame_cpu w w' c
  | Err e => exists e', CpuC_gen.cpu_update (Some c) E w = Err e' /\ e' <> SysPre.E_TRAP
  end.
Proof. rewrite CpuCProofs.cpu_update_same. exact SysProofs.sys_cpu_update. Qed.
Print Assumptions C05_cpu_update_from_source_cpuc.

(* non-vacuity, by computation on the generated code: a CPU whose list holds threads 2 and 0 *)
Definition cc_env : SysPre.senv := {| SysPre.se_cb := {| ChanPre.cb_ret := 0 |}; SysPre.se_sx := {| s_threads := []; s_cpus := []; s_chans := []; s_lint := false |} |}.
Definition cc_cpu : SysPre.scpu :=
  {| SysPre.c_threads := [2%nat; 0%nat]; SysPre.c_nthreads := 2; SysPre.c_nrun := 0; SysPre.c_nact := 0; SysPre.c_thrun := None;
     SysPre.c_thact := None; SysPre.c_virtual := 0; SysPre.c_gindex := 0; SysPre.c_chans := [] |}.
Definition cc_st : SysPre.sys := {| SysPre.sths := []; SysPre.scps := [cc_cpu]; SysPre.sncb := 0 |}.

Example C05_ex_find_thread_from_source :
  CpuC_gen.find_thread (Some 0%nat) (Some 0%nat) cc_env cc_st = Ok (Some 0%nat, cc_st) /\
  CpuC_gen.find_thread (Some 0%nat) (Some 2%nat) cc_env cc_st = Ok (Some 2%nat, cc_st) /\
  CpuC_gen.find_thread (Some 0%nat) (Some 1%nat) cc_env cc_st = Ok (None, cc_st) /\
  CpuC_gen.find_thread (Some 0%nat) None cc_env cc_st = Ok (None, cc_st) /\
  CpuC_gen.find_thread None (Some 0%nat) cc_env cc_st = Err SysPre.E_TRAP /\
  CpuC_gen.cpu_add_thread (Some 0%nat) (Some 2%nat) cc_env cc_st = Err SysPre.E_FAIL /\
  CpuC_gen.cpu_remove_thread (Some 0%nat) (Some 1%nat) cc_env cc_st = Err SysPre.E_FAIL.
Proof. vm_compute. repeat split. Qed.
(* ==== end of block (unit cpuc) ==== *)
