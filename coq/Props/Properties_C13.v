(* C13 - the Paraver output of every accepted run is well-formed.
   prv_files: the two files (thread.prv, cpu.prv) the emulator-core model writes for a run: header duration, row
   count and records (time relative to the first event, 1-based row, type, value); th_types / cpu_types: the event
   types the matching PCF declares (three system types + one per channel of the enabled models).
   The model is compared with ovniemu's real files on every run; PCF labels, ROW names and the breakdown files are
   judged on the real output by an independent strict reader (lib/checks/c13.py). *)
From Coq Require Import ZArith List Bool Sorted.
From OV Require Import Emu.EmuCoreDefs Proofs.EmuCoreProofs Proofs.EmuCoreWf Proofs.PrvProofs.
Import ListNotations.
Local Open Scope Z_scope.

(* for every event list in time order that is accepted: both files have non-decreasing times, all between 0 and
   the header duration, rows between 1 and the declared count, only declared types; the duration is the time of
   the last event; the row counts are the number of threads and of CPUs *)
Theorem C13_files_well_formed : forall sx lint evs fth fcpu,
  StronglySorted Z.le (map ev_time evs) ->
  prv_files sx lint evs = Ok (fth, fcpu) ->
  file_ok (th_types sx) fth /\ file_ok (cpu_types sx) fcpu /\
  pf_nrows fth = length (s_threads sx) /\ pf_nrows fcpu = length (s_cpus sx) /\
  pf_duration fth = last_time evs - first_time evs /\ pf_duration fcpu = pf_duration fth.
Proof. exact prv_files_ok. Qed.
Print Assumptions C13_files_well_formed.

(* one step: whatever an accepted event writes goes to an existing row and a declared type *)
Theorem C13_step_records_placed : forall sx st who ev st' ls,
  step sx st who ev = Ok (st', ls) -> Forall (line_ok sx) ls.
Proof. exact step_lines_ok. Qed.
Print Assumptions C13_step_records_placed.
