(* C13 - the Paraver output of every accepted run is well-formed.
   prv_files: the two files (thread.prv, cpu.prv) the emulator-core model writes for a run: header duration, row
   count and records (time relative to the first event, 1-based row, type, value); th_types / cpu_types: the event
   types the matching PCF declares (three system types + one per channel of the enabled models).
   The model is compared with ovniemu's real files on every run.  The text of the .pcf/.row files and the .prv header and
   lines are modelled too (second half of this file: Emu/PvDefs.v); only the breakdown files are judged on the real output
   alone, by the independent strict reader of lib/checks/c13.py. *)
From Coq Require Import ZArith List Bool Sorted Lia.
From OV Require Import Emu.EmuCoreDefs Emu.DecodeDefs Emu.MarkDefs Emu.LabelDefs Emu.TableFactsDefs Proofs.EmuCoreProofs Proofs.EmuCoreWf
  Proofs.PrvProofs Proofs.LabelProofs Proofs.LabelDecode Emu.PvDefs Proofs.PvProofs Proofs.PvThms Proofs.PvPrvProofs.
From OV Require Gen.Tables_gen.
Import ListNotations.
Local Open Scope Z_scope.

(* for every event list in time order that is accepted: both files have non-decreasing times, all between 0 and
   the header duration, rows between 1 and the declared count, only declared types; the duration is the time of
   the last event; the row counts are the number of threads and of CPUs *)
Theorem C13_files_well_formed : forall sx lint evs fth fcpu,
  StronglySorted Z.le (map ev_time evs) ->
  prv_files sx lint evs = Ok (fth, fcpu) ->
  file_ok (th_types sx) fth /\ file_ok (cpu_types sx) fcpu /\
  pf_nrows fth = length (s_threads sx) /\ pf_nrows fcpu = length (s_cpus sx) /\
  pf_duration fth = last_time evs - first_time evs /\ pf_duration fcpu = pf_duration fth.
Proof. exact prv_files_ok. Qed.
Print Assumptions C13_files_well_formed.

(* one step: whatever an accepted event writes goes to an existing row and a declared type *)
Theorem C13_step_records_placed : forall sx st who ev st' ls,
  step sx st who ev = Ok (st', ls) -> Forall (line_ok sx) ls.
Proof. exact step_lines_ok. Qed.
Print Assumptions C13_step_records_placed.

(* every value printed for a state type has a label.  For any subset of the eight models, any mark types, any
   threads and CPUs, and any sequence of raw events (decoded by the handlers' dispatch): every record of an
   accepted run belongs to a slot (a row of a file and a type) and its value is 0 or
   - thread state: one of the five named states;  CPU affinity: one of the CPUs of the trace (the PCF lists them);
   - a channel with a value table (subsystem, function, idle, flush, kernel, thread type): a value of that table
     (Tables_gen.labels, dumped from the pcf_labels of the source on every run);
   - a task-type timeline: the gid of a task type created in this trace (task_create_pcf_types labels those);
   numeric timelines (TID, PID, task and body ids, app id, rank, number of running threads) are not state types. *)
Theorem C13_values_labelled : forall sx en ms revs st tl,
  In en (sublists all_models) -> s_chans sx = mk_chans en ++ mark_chans ms ->
  run_from sx (init sx) (decode_events en (s_chans sx) revs) = Ok (st, tl) ->
  forall tm l, In (tm, l) tl ->
    exists s, In s (slots sx) /\ key_of sx s = (l_cpu l, l_row l, l_type l) /\ slot_labelled sx (types st) s (l_val l).
Proof. exact values_labelled. Qed.
Print Assumptions C13_values_labelled.

(* the same for any events that only write labelled values, from any state satisfying the invariant *)
Theorem C13_values_labelled_step : forall sx st who ev st' ls,
  StaticOk sx -> ev_ok sx ev -> LInv sx st -> step sx st who ev = Ok (st', ls) ->
  LInv sx st' /\ incl (types st) (types st') /\
  forall l, In l ls -> exists s, In s (slots sx) /\ key_of sx s = (l_cpu l, l_row l, l_type l) /\ slot_labelled sx (types st') s (l_val l).
Proof. exact step_values_labelled. Qed.
Print Assumptions C13_values_labelled_step.

(* the static conditions hold for the channel specs of the current source, for all 256 subsets of models *)
Theorem C13_dumped_specs : forall sx en ms,
  In en (sublists all_models) -> s_chans sx = mk_chans en ++ mark_chans ms -> StaticOk sx /\ tasks_found en (s_chans sx).
Proof. exact specs_of_any_trace. Qed.
Print Assumptions C13_dumped_specs.

(* non-vacuity: a nOS-V thread entering the scheduler shows a non-zero, labelled subsystem value *)
Definition ex_sx : static :=
  {| s_threads := [{| ti_tid := 1; ti_pid := 1; ti_loom := 0; ti_appid := 1; ti_rank := -1 |}];
     s_cpus := [{| ci_virtual := false; ci_loom := 0; ci_index := 0 |}; {| ci_virtual := true; ci_loom := 0; ci_index := -1 |}];
     s_chans := mk_chans [M_OVNI; M_NOSV] ++ mark_chans []; s_lint := false |}.
Definition ex_revs : list raw_event :=
  [(0, 0%nat, (79, 72, 120), [0; 0; 0; 0; 1; 0; 0; 0; 0; 0; 0; 0], false, 0); (5, 0%nat, (86, 83, 104), [], false, 0)].
Example C13_ex : exists st tl,
  run_from ex_sx (init ex_sx) (decode_events [M_OVNI; M_NOSV] (s_chans ex_sx) ex_revs) = Ok (st, tl) /\
  existsb (fun '(tm, l) => negb (l_val l =? 0) && static_chan M_NOSV Tables_gen.c_nosv_CH_SUBSYSTEM &&
                           (l_type l =? cs_type (spec_of ex_sx (chan_of (s_chans ex_sx) M_NOSV Tables_gen.c_nosv_CH_SUBSYSTEM)))) tl = true.
Proof. eexists. eexists. split; vm_compute; reflexivity. Qed.


(* ====================================================================================================================
   The WRITER layer (Emu/PvDefs.v): the bytes of thread.{pcf,row,prv} and cpu.{pcf,row,prv}.
   [emulate sx phy en ms lintchans tl evs] = connect-time registration (system_connect, model_pvt, marks), replay of the
   events through the emulator-core [step] with every record written through its registered PRV channel, finish
   (task types), close.  [out] holds the six files as byte strings; [parse_pcf] / [parse_prf] read the bytes back.
   The same six byte strings are compared with the files of the real ovniemu on every accepted trace of the check. *)

(* printf("%d") is injective and can be read back *)
Theorem C13_decimal_round_trip : forall n, undec (dec n) = Some n.
Proof. exact undec_dec. Qed.
Print Assumptions C13_decimal_round_trip.

(* the ROW text and the PCF text determine the tables that were written *)
Theorem C13_row_text_round_trip : forall ls, Forall no_nl ls -> parse_prf (prf_text ls) = Some ls.
Proof. exact parse_prf_text. Qed.
Print Assumptions C13_row_text_round_trip.
Theorem C13_pcf_text_round_trip : forall p, (forall t, In t p -> line_wf t) -> parse_pcf (pcf_text p) = Some p.
Proof. exact parse_pcf_text. Qed.
Print Assumptions C13_pcf_text_round_trip.

(* B1. every event type a record of the model can carry (C13_step_records_placed puts l_type in th_types / cpu_types) is
   declared in the PCF FILE of the same PRV file, for every trace the writer model accepts *)
Theorem C13_types_declared : forall sx phy en ms lc tl evs out,
  inputs_ok sx phy ms tl -> s_chans sx = mk_chans en ++ mark_chans ms -> memz M_OVNI en = true ->
  emulate sx phy en ms lc tl evs = Ok out ->
  (forall ty, In ty (th_types sx) -> text_declares (f_pcf (o_th out)) ty) /\
  (forall ty, In ty (cpu_types sx) -> text_declares (f_pcf (o_cpu out)) ty).
Proof. exact types_declared. Qed.
Print Assumptions C13_types_declared.

(* B2. the ROW files, read back from their bytes, name exactly nrows rows: one per thread ("TH appid.tid") and one per
   CPU (" CPU loom.phyid", "vCPU loom.*"), in gindex order - the order of [s_threads] / [s_cpus], which C15 proves to be
   looms, processes, threads / CPUs by physical id with the virtual CPU last (MetaDefs.thread_list / cpu_list) *)
Theorem C13_row_file : forall sx phy en ms lc tl evs out,
  inputs_ok sx phy ms tl -> emulate sx phy en ms lc tl evs = Ok out ->
  parse_prf (f_row (o_th out)) = Some (map th_label (s_threads sx)) /\
  parse_prf (f_row (o_cpu out)) = Some (map cpu_label (combine (s_cpus sx) phy)) /\
  length (map th_label (s_threads sx)) = length (s_threads sx) /\
  length (map cpu_label (combine (s_cpus sx) phy)) = length (s_cpus sx).
Proof. exact row_files. Qed.
Print Assumptions C13_row_file.

(* ... and for a system built by C15's model of system_init (MetaDefs.build), these are the names of MetaDefs.thread_list /
   MetaDefs.cpu_list in their order: looms sorted, processes, threads by TID; CPUs of a loom by physical id, virtual CPU last *)
Theorem C13_row_names_documented_order : forall sys sx phy, same_system sys sx phy ->
  map th_label (s_threads sx) = map sys_th_label (MetaDefs.thread_list sys) /\
  map cpu_label (combine (s_cpus sx) phy) = map sys_cpu_label (MetaDefs.cpu_list sys).
Proof. exact row_names_of_system. Qed.
Print Assumptions C13_row_names_documented_order.

(* a ROW file is only written when every row was named; a row can be named once *)
Theorem C13_row_unset_refused : forall p, In None p -> prf_close p = Err E_PRF_UNSET.
Proof. exact prf_close_unset. Qed.
Print Assumptions C13_row_unset_refused.
Theorem C13_row_twice_refused : forall p i l l' p', prf_add p i l = Ok p' -> prf_add p' i l' = Err E_PRF_SET.
Proof. exact prf_add_twice. Qed.
Print Assumptions C13_row_twice_refused.

(* B3. the bytes of the two .prv files of every trace the writer model accepts: the header carries the time of the last event
   relative to the first (= the last recorder_advance) and the declared row count (number of threads / of CPUs), and it is
   followed by records only, each on a row within 1..nrows and not later than the duration.  [prv_shape text d n]:
   text = prv_header d n ++ records, every record "2:0:1:1:row:time:type:value\n" with 1 <= row <= n and time <= d.
   (10^20 is the width of the %020lld field; times are int64.) *)
Theorem C13_header_duration : forall sx phy en ms lc tl evs out,
  emulate sx phy en ms lc tl evs = Ok out ->
  let d := last_time evs - first_time evs in 0 <= d < 10 ^ 20 ->
  prv_shape (f_prv (o_th out)) d (length (s_threads sx)) /\ prv_shape (f_prv (o_cpu out)) d (length (s_cpus sx)).
Proof. exact prv_files_shape. Qed.
Print Assumptions C13_header_duration.

(* the pieces: prv_close rewrites the header in place; prv_advance sets the time and refuses to go back; every record is
   written through a registered channel with that channel's row and type *)
Theorem C13_close_rewrites_header : forall pv body,
  pv_file pv = prv_header 0 (pv_nrows pv) ++ body ->
  length (prv_header (pv_time pv) (pv_nrows pv)) = length (prv_header 0 (pv_nrows pv)) ->
  prv_close pv = prv_header (pv_time pv) (pv_nrows pv) ++ body.
Proof. exact prv_close_header. Qed.
Print Assumptions C13_close_rewrites_header.
Theorem C13_advance_sets_time : forall pv t pv', prv_advance pv t = Ok pv' ->
  pv_time pv' = t /\ pv_time pv <= t /\ pv_nrows pv' = pv_nrows pv /\ pv_file pv' = pv_file pv.
Proof. exact prv_advance_time. Qed.
Print Assumptions C13_advance_sets_time.
Theorem C13_record_through_channel : forall pv row ty v pv', prv_write pv row ty v = Ok pv' ->
  exists c, In c (pv_chans pv) /\ pv_file pv' = pv_file pv ++ prv_line (pc_row1 c) (pv_time pv) (pc_type c) v /\
            pv_time pv' = pv_time pv /\ pv_nrows pv' = pv_nrows pv /\ pv_chans pv' = pv_chans pv.
Proof. exact prv_write_line. Qed.
Print Assumptions C13_record_through_channel.

(* B4. the values the model can print for the state types (slot_labelled of C13_values_labelled) have a value entry
   under their type in the PCF FILES: CPU affinity 1..ncpus, thread state 1..5, every value of a dumped value table
   (subsystem, function, idle, flush, kernel...) of an enabled model on both files, and the gid of every task type created
   in the trace (by a process of the trace) under the task-type timeline of its model on both files *)
Theorem C13_pcf_values : forall sx phy en ms lc tl evs out,
  inputs_ok sx phy ms tl -> s_chans sx = mk_chans en ++ mark_chans ms -> emulate sx phy en ms lc tl evs = Ok out ->
  exists st tlines, run_from sx (init sx) evs = Ok (st, tlines) /\
    (forall v, 1 <= v <= Z.of_nat (length (s_cpus sx)) -> v < 2147483648 -> text_labels (f_pcf (o_th out)) PRV_THREAD_CPU v) /\
    (forall v, 1 <= v <= 5 -> text_labels (f_pcf (o_th out)) PRV_THREAD_STATE v) /\
    (forall k x, (k < length (mk_chans en))%nat -> let sp := spec_of sx k in
       static_labelled (cs_model sp) (cs_index sp) x = true ->
       text_labels (f_pcf (o_th out)) (cs_type sp) x /\ text_labels (f_pcf (o_cpu out)) (cs_type sp) x) /\
    (forall m ch ty, memz m en = true -> task_model_chan m = Some ch -> In ty (types st) -> ty_model ty = m ->
       In (ty_loom ty, ty_pid ty) (procs_of (s_threads sx) []) ->
       text_labels (f_pcf (o_th out)) (int (type_of_chan Gen.Pv_gen.pv_chans m ch)) (int (ty_gid ty)) /\
       text_labels (f_pcf (o_cpu out)) (int (type_of_chan Gen.Pv_gen.pv_chans m ch)) (int (ty_gid ty))).
Proof. exact pcf_values. Qed.
Print Assumptions C13_pcf_values.

(* B5. refusals of the writer layer: an emulator error, never a malformed file *)
Theorem C13_pcf_dup_type_refused : forall p id l, declared p id -> pcf_add_type p id l = Err E_PCF_DUPTYPE.
Proof. exact pcf_add_type_dup. Qed.
Print Assumptions C13_pcf_dup_type_refused.
Theorem C13_pcf_dup_value_refused : forall p id x l l' p', pcf_add_value p id x l = Ok p' -> NoDup (map pt_id p) ->
  pcf_add_value p' id x l' = Err E_PCF_DUPVAL.
Proof. exact pcf_add_value_dup. Qed.
Print Assumptions C13_pcf_dup_value_refused.
Theorem C13_pcf_long_label_refused : forall p id x l, MAXL <= slen l ->
  (forall p', pcf_add_type p id l <> Ok p') /\ (forall p', pcf_add_value p id x l <> Ok p').
Proof. exact pcf_long_refused. Qed.
Print Assumptions C13_pcf_long_label_refused.
Theorem C13_prv_dup_channel_refused : forall pv row ty fl fl' pv', prv_register pv row ty fl = Ok pv' ->
  prv_register pv' row ty fl' = Err E_PRV_DUPCHAN.
Proof. exact prv_register_twice. Qed.
Print Assumptions C13_prv_dup_channel_refused.

(* B5: "registration never fails for well-formed inputs" is C13_registration_total / C13_connect_total (block at the end of
   this file).  The registration-level refusals are reproduced by computation: *)
(* two mark types with one type number: the second registration of (row 0, type 101) is refused *)
Example C13_ex_refuse_dup_mark_type :
  connect pv_ex_sx pv_ex_phy pv_ex_en
    [{| mt_type := 1; mt_title := [65]; mt_stack := true; mt_labels := [] |}; {| mt_type := 1; mt_title := [66]; mt_stack := true; mt_labels := [] |}]
  = Err E_PRV_DUPCHAN.
Proof. vm_compute. reflexivity. Qed.
(* one value with two labels *)
Example C13_ex_refuse_dup_value :
  connect pv_ex_sx pv_ex_phy pv_ex_en [{| mt_type := 1; mt_title := [65]; mt_stack := true; mt_labels := [(1, [97]); (1, [98])] |}] = Err E_PCF_DUPVAL.
Proof. vm_compute. reflexivity. Qed.
(* a 512-byte title *)
Example C13_ex_refuse_long_label :
  connect pv_ex_sx pv_ex_phy pv_ex_en [{| mt_type := 1; mt_title := repeat 65 512; mt_stack := true; mt_labels := [] |}] = Err E_PCF_LONG.
Proof. vm_compute. reflexivity. Qed.
(* two task types whose labels collide on one gid *)
Example C13_ex_refuse_gid_collision : exists r,
  connect pv_ex_sx pv_ex_phy pv_ex_en [] = Ok r /\
  finish pv_ex_sx pv_ex_en
    [{| ty_loom := 0; ty_pid := 5; ty_model := M_NOSV; ty_id := 1; ty_gid := 5000 |}; {| ty_loom := 0; ty_pid := 5; ty_model := M_NOSV; ty_id := 2; ty_gid := 5000 |}]
    [((0%nat, 5, M_NOSV, 1), [97]); ((0%nat, 5, M_NOSV, 2), [98])] r = Err E_COLLISION.
Proof. eexists. split; vm_compute; reflexivity. Qed.

(* non-vacuity: the writer model accepts a 2-thread, 2-CPU (+ virtual CPU) nOS-V + marks trace; its thread.row names
   "TH 1.11", "TH 1.12"; cpu.row names " CPU 0.3", " CPU 0.4", "vCPU 0.*"; thread.pcf read back from its bytes labels the
   nOS-V subsystem value the trace shows (VSh) and declares the mark type 101 *)
Example C13_ex_writer :
  match pv_ex_out with
  | Ok out =>
    match parse_prf (f_row (o_th out)), parse_prf (f_row (o_cpu out)), parse_pcf (f_pcf (o_th out)), parse_prv_header (removelast (hd [] (lines (f_prv (o_th out))) ++ [0])) with
    | Some rt, Some rc, Some p, Some (dur, n) =>
      Nat.eqb (length rt) 2 && Nat.eqb (length rc) 3 && (dur =? 26) && (n =? 2) &&
      existsb (fun t => (pt_id t =? 101)) p &&
      existsb (fun t => (pt_id t =? cs_type (spec_of pv_ex_sx (chan_of (s_chans pv_ex_sx) M_NOSV Gen.Tables_gen.c_nosv_CH_SUBSYSTEM))) &&
                        negb (Nat.eqb (length (pt_values t)) 0)) p
    | _, _, _, _ => false
    end
  | Err _ => false
  end = true.
Proof. vm_compute. reflexivity. Qed.
Example C13_ex_writer_hyps : inputs_ok pv_ex_sx pv_ex_phy pv_ex_ms (tlabels_of pv_ex_sx pv_ex_revs) /\ memz M_OVNI pv_ex_en = true.
Proof.
  split; [|reflexivity]. split; [reflexivity|]. split.
  - intros m [<-|[<-|[]]]; (split; [cbn; lia|]); (split; [intros H; cbn in H; intuition discriminate|]); intros x Hx; cbn in Hx;
      try contradiction; destruct Hx as [<-|[]]; intros H; cbn in H; intuition discriminate.
  - intros x Hx. vm_compute in Hx. contradiction.
Qed.

(* ==== prv.c emit from source (unit prv) ==== *)
(* check_flags of src/emu/pv/prv.c, regenerated on every run into Gen/Prv_gen.v (translate/units/prv.py): it refuses
   exactly the three exclusive pairs, and every flags word the emulator registers - the flags of all model channels
   dumped from the source (Gen/Tables_gen.v), of the mark channels and of the six system channels - is below 32 and
   passes it, so prv_register never fails on its flags and C06_prv_emit_from_source applies to each of them. *)
From OV Require Emu.PrvPre Emu.ChanPre Gen.Prv_gen Proofs.PrvEmitProofs.
Theorem C13_prv_flags_from_source :
  (forall e s n z d,
     PrvEmitProofs.is_ok (PrvPre.exec (Prv_gen.check_flags (PrvEmitProofs.mkflags e s n z d)) tt
        {| PrvPre.rflags := 0; PrvPre.lset := 0; PrvPre.lval := ChanPre.vnull; PrvPre.rrow := 0; PrvPre.rtyp := 0;
           PrvPre.cur := ChanPre.vnull; PrvPre.plines := [] |})
     = negb (e && d) && negb (e && s) && negb (s && d)) /\
  forallb (fun f => (0 <=? f) && (f <? 32) &&
                    PrvEmitProofs.is_ok (PrvPre.exec (Prv_gen.check_flags f) tt
                       {| PrvPre.rflags := 0; PrvPre.lset := 0; PrvPre.lval := ChanPre.vnull; PrvPre.rrow := 0; PrvPre.rtyp := 0;
                          PrvPre.cur := ChanPre.vnull; PrvPre.plines := [] |}))
          PrvEmitProofs.registered_flags = true /\
  (forall sx s, (forall t k, s <> STr t k) -> (forall c k, s <> SCr c k) -> In (flags_of sx s) PrvEmitProofs.registered_flags).
Proof. exact (conj PrvEmitProofs.check_flags_iff (conj PrvEmitProofs.registered_flags_pass PrvEmitProofs.system_flags_registered)). Qed.
Print Assumptions C13_prv_flags_from_source.
(* ==== end of block (unit prv) ==== *)

(* ==== emulator main loop from source (unit emuloop) ==== *)
(* The top-level SEQUENCING of the emulator is regenerated from src/emu/emu.c (emu_step, set_current, emu_connect,
   emu_finish, emu_init), model.c (model_event, model_connect, model_create, model_finish), recorder.c
   (recorder_advance, recorder_finish), pv/pvt.c (pvt_advance, pvt_close) and pv/prv.c (prv_advance, prv_close) into
   Gen/EmuLoop_gen.v on every run, over Emu/EmuLoopPre.v, whose primitives carry the meaning of the existing models
   (player_step = PlayerDefs.pstep, the models' event hooks = EmuCoreDefs.core_step on MarkDefs.decode_all for that one
   model, bay_propagate = the emission rule half of EmuCoreDefs.step followed by the PRV emit callbacks
   PvDefs.rec_write, struct prv / pvt / recorder = PvDefs).
   C13_emu_step_from_source: for a delivered event (player_step returned 0, the stream belongs to thread `who`), in a
   state where no channel is dirty, the generated emu_step is exactly one iteration of PvDefs.pv_run_from
   (EmuLoopRelDefs.pv_iter, C13_emu_loop_iteration): recorder_advance to the event's dclock (refused when it goes
   backwards), the handler of the model of the event's first byte on the event decoded with the enabled models
   (refused when that model is not registered / not enabled: C13_emu_step_not_enabled, the emulator-level form of
   C12_model_not_enabled), the propagation, the PRV lines written at the new time; every refusal is an error, never
   0 or +1.  +1 ("finished") only when the player has no more events (C13_emu_step_end); a player error or a stream
   of no thread is an error. *)
From OV Require Emu.PlayerDefs Emu.PvDefs Emu.EmuLoopPre Emu.EmuLoopRelDefs Gen.EmuLoop_gen Proofs.EmuLoopProofs Proofs.PvThms.

Theorem C13_emu_step_from_source : forall sx st e pst' who cst,
  PlayerDefs.pstep true (EmuLoopPre.en_offs sx) (EmuLoopPre.es_player st) = PlayerDefs.SEmit e pst' ->
  EmuLoopPre.en_lpt sx (PlayerDefs.o_id e) = Some who ->
  0 <= EmuLoopRelDefs.model_of sx e < 256 -> EmuLoopRelDefs.models_wf sx st ->
  EmuLoopPre.es_models st = EmuLoopPre.MSem cst None ->
  EmuLoop_gen.emu_step tt sx st =
  match EmuLoopRelDefs.pv_iter (EmuLoopPre.en_sx sx) cst (EmuLoopPre.es_rec st) (PlayerDefs.o_dclock e) who
          (EmuLoopRelDefs.event_of sx (EmuLoopPre.es_enabled st) e) with
  | Ok (cst', r') =>
    Ok (0, EmuLoopPre.with_models (EmuLoopPre.with_rec (EmuLoopRelDefs.delivered st pst' e who) r') (EmuLoopPre.MSem cst' None))
  | Err _ => Err EmuLoopPre.E_FAIL
  end.
Proof. exact EmuLoopProofs.emu_step_from_source. Qed.
Print Assumptions C13_emu_step_from_source.

(* pv_iter is the body of PvDefs.pv_run_from *)
Theorem C13_emu_loop_iteration : forall sx st r t0 tm who ev rest,
  PvDefs.pv_run_from sx st r t0 ((tm, who, ev) :: rest) =
  match EmuLoopRelDefs.pv_iter sx st r (tm - t0) who ev with
  | Err e => Err e
  | Ok (st1, r2) => PvDefs.pv_run_from sx st1 r2 t0 rest
  end.
Proof. exact EmuLoopProofs.pv_run_from_iter. Qed.
Print Assumptions C13_emu_loop_iteration.

Theorem C13_emu_step_not_enabled : forall sx st e pst' who,
  PlayerDefs.pstep true (EmuLoopPre.en_offs sx) (EmuLoopPre.es_player st) = PlayerDefs.SEmit e pst' ->
  EmuLoopPre.en_lpt sx (PlayerDefs.o_id e) = Some who ->
  0 <= EmuLoopRelDefs.model_of sx e < 256 -> EmuLoopRelDefs.models_wf sx st -> EmuLoopRelDefs.clean st ->
  memz (EmuLoopRelDefs.model_of sx e) (EmuLoopPre.es_enabled st) = false ->
  exists x, EmuLoop_gen.emu_step tt sx st = Err x.
Proof. exact EmuLoopProofs.emu_step_not_enabled. Qed.
Print Assumptions C13_emu_step_not_enabled.

Theorem C13_emu_step_end : forall sx st,
  PlayerDefs.pstep true (EmuLoopPre.en_offs sx) (EmuLoopPre.es_player st) = PlayerDefs.SDone ->
  EmuLoop_gen.emu_step tt sx st = Ok (1, EmuLoopPre.with_finished st 1).
Proof. exact EmuLoopProofs.emu_step_end. Qed.
Print Assumptions C13_emu_step_end.

Theorem C13_emu_step_player_error : forall sx st v,
  PlayerDefs.pstep true (EmuLoopPre.en_offs sx) (EmuLoopPre.es_player st) = PlayerDefs.SErr v ->
  EmuLoop_gen.emu_step tt sx st = Err EmuLoopPre.E_FAIL.
Proof. exact EmuLoopProofs.emu_step_player_error. Qed.
Print Assumptions C13_emu_step_player_error.

Theorem C13_emu_step_unknown_stream : forall sx st e pst',
  PlayerDefs.pstep true (EmuLoopPre.en_offs sx) (EmuLoopPre.es_player st) = PlayerDefs.SEmit e pst' ->
  EmuLoopPre.en_lpt sx (PlayerDefs.o_id e) = None -> EmuLoop_gen.emu_step tt sx st = Err EmuLoopPre.E_FAIL.
Proof. exact EmuLoopProofs.emu_step_unknown_stream. Qed.
Print Assumptions C13_emu_step_unknown_stream.

(* emu_finish: the finish hooks of the enabled models in slot order (end-of-trace checks, task types into the PCF)
   BEFORE the recorder is closed; then both PVTs are closed as PvDefs.pvt_close says: prv_close seeks to 0 and rewrites
   the header with the time the LAST recorder_advance left in struct prv (C13_advance_sets_time;
   C13_close_rewrites_header / C13_header_duration are about exactly this PvDefs.prv_close), then the PCF and the ROW
   file are written.  A failing hook or a failing close gives an error. *)
Theorem C13_emu_finish_from_source : forall sx st,
  EmuLoopRelDefs.models_wf sx st -> EmuLoopPre.es_io st = (EmuLoopPre.io0 :: EmuLoopPre.io0 :: nil) ->
  EmuLoop_gen.emu_finish tt sx st =
  match PvDefs.foldr (fun r m => EmuLoopPre.en_finish sx m (EmuLoopPre.core_of (EmuLoopPre.es_models st)) r)
          (EmuLoopRelDefs.finish_order sx st) (EmuLoopPre.es_rec st) with
  | Err _ => Err EmuLoopPre.E_FAIL
  | Ok r2 =>
    match PvDefs.pvt_close (PvDefs.rc_th r2), PvDefs.pvt_close (PvDefs.rc_cpu r2) with
    | Ok fth, Ok fcpu => Ok (tt, EmuLoopRelDefs.closed_state (EmuLoopPre.with_rec st r2) (PvDefs.f_row fth) (PvDefs.f_row fcpu))
    | _, _ => Err EmuLoopPre.E_FAIL
    end
  end.
Proof. exact EmuLoopProofs.emu_finish_from_source. Qed.
Print Assumptions C13_emu_finish_from_source.

Theorem C13_emu_finish_files : forall sx st st',
  EmuLoopRelDefs.models_wf sx st -> EmuLoopPre.es_io st = (EmuLoopPre.io0 :: EmuLoopPre.io0 :: nil) ->
  EmuLoop_gen.emu_finish tt sx st = Ok (tt, st') ->
  exists r2 fth fcpu,
    PvDefs.foldr (fun r m => EmuLoopPre.en_finish sx m (EmuLoopPre.core_of (EmuLoopPre.es_models st)) r)
      (EmuLoopRelDefs.finish_order sx st) (EmuLoopPre.es_rec st) = Ok r2 /\
    PvDefs.pvt_close (PvDefs.rc_th r2) = Ok fth /\ PvDefs.pvt_close (PvDefs.rc_cpu r2) = Ok fcpu /\
    EmuLoopRelDefs.closed_as st' 0 fth /\ EmuLoopRelDefs.closed_as st' 1 fcpu /\
    PvDefs.f_prv fth = PvDefs.prv_close (PvDefs.v_prv (PvDefs.rc_th r2)) /\
    PvDefs.f_prv fcpu = PvDefs.prv_close (PvDefs.v_prv (PvDefs.rc_cpu r2)).
Proof. exact EmuLoopProofs.emu_finish_files. Qed.
Print Assumptions C13_emu_finish_files.

(* with C13_close_rewrites_header: each PRV file on disk after emu_finish is the header for the time the last
   recorder_advance set, followed by the records written during the run *)
Theorem C13_emu_finish_header : forall sx st st',
  EmuLoopRelDefs.models_wf sx st -> EmuLoopPre.es_io st = (EmuLoopPre.io0 :: EmuLoopPre.io0 :: nil) ->
  EmuLoop_gen.emu_finish tt sx st = Ok (tt, st') ->
  exists r2,
    PvDefs.foldr (fun r m => EmuLoopPre.en_finish sx m (EmuLoopPre.core_of (EmuLoopPre.es_models st)) r)
      (EmuLoopRelDefs.finish_order sx st) (EmuLoopPre.es_rec st) = Ok r2 /\
    forall (i : nat) v body, EmuLoopPre.get_pvt r2 i = Some v ->
      PvDefs.pv_file (PvDefs.v_prv v) = PvDefs.prv_header 0 (PvDefs.pv_nrows (PvDefs.v_prv v)) ++ body ->
      length (PvDefs.prv_header (PvDefs.pv_time (PvDefs.v_prv v)) (PvDefs.pv_nrows (PvDefs.v_prv v))) =
        length (PvDefs.prv_header 0 (PvDefs.pv_nrows (PvDefs.v_prv v))) ->
      EmuLoopPre.io_prv (EmuLoopPre.io_at st' i) =
        Some (PvDefs.prv_header (PvDefs.pv_time (PvDefs.v_prv v)) (PvDefs.pv_nrows (PvDefs.v_prv v)) ++ body).
Proof. exact EmuLoopProofs.emu_finish_header. Qed.
Print Assumptions C13_emu_finish_header.

(* emu_connect: the connect hooks of the enabled models in slot order (PvDefs.enabled_order), then one propagation *)
Theorem C13_emu_connect_from_source : forall sx st, EmuLoopRelDefs.models_wf sx st ->
  EmuLoop_gen.emu_connect tt sx st =
  match PvDefs.foldr (fun r m => EmuLoopPre.en_connect sx m r) (EmuLoopRelDefs.connect_order sx st) (EmuLoopPre.es_rec st) with
  | Ok r => EmuLoopPre.bay_propagate (Some tt) sx (EmuLoopPre.with_rec st r)
  | Err _ => Err EmuLoopPre.E_FAIL
  end.
Proof. exact EmuLoopProofs.emu_connect_from_source. Qed.
Print Assumptions C13_emu_connect_from_source.
(* the slot order of model_connect / model_finish is PvDefs.enabled_order (increasing model id), restricted to the
   models that have the hook (the kernel model has no finish hook) *)
Theorem C13_emu_slot_order : forall sx st,
  (forall m, memz m (EmuLoopPre.es_enabled st) = true -> memz m PvDefs.model_order = true) ->
  EmuLoopRelDefs.connect_order sx st =
    filter (fun m => EmuLoopPre.en_hook sx m EmuLoopPre.HConnect) (PvDefs.enabled_order (EmuLoopPre.es_enabled st)) /\
  EmuLoopRelDefs.finish_order sx st =
    filter (fun m => EmuLoopPre.en_hook sx m EmuLoopPre.HFinish) (PvDefs.enabled_order (EmuLoopPre.es_enabled st)).
Proof. exact EmuLoopProofs.connect_order_is_enabled_order. Qed.
Print Assumptions C13_emu_slot_order.

(* the whole replay: ovniemu's `while ((ret = emu_step(&emu)) == 0)` (EmuLoopProofs.emu_run) on the events the player
   delivers (PlayerDefs.ploop) is PvDefs.pv_run_from on those events (Paraver time = dclock, thread of the stream, event
   decoded with the enabled models), error for error; it ends with +1 (`finished`) only when pv_run_from accepts *)
Theorem C13_emu_run_from_source : forall fuel sx st cst oevs,
  PlayerDefs.ploop true (EmuLoopPre.en_offs sx) fuel (EmuLoopPre.es_player st) = (oevs, PlayerDefs.VOk) ->
  (forall e, In e oevs -> EmuLoopPre.en_lpt sx (PlayerDefs.o_id e) <> None /\ 0 <= EmuLoopRelDefs.model_of sx e < 256) ->
  EmuLoopRelDefs.models_wf sx st -> EmuLoopPre.es_models st = EmuLoopPre.MSem cst None ->
  match PvDefs.pv_run_from (EmuLoopPre.en_sx sx) cst (EmuLoopPre.es_rec st) 0 (EmuLoopProofs.evs_of sx (EmuLoopPre.es_enabled st) oevs) with
  | Ok (cst', r') => exists st', EmuLoopProofs.emu_run fuel sx st = Ok st' /\ EmuLoopPre.es_models st' = EmuLoopPre.MSem cst' None /\
                                 EmuLoopPre.es_rec st' = r' /\ EmuLoopPre.es_finished st' = 1
  | Err _ => exists x, EmuLoopProofs.emu_run fuel sx st = Err x
  end.
Proof. exact EmuLoopProofs.emu_run_is_pv_run. Qed.
Print Assumptions C13_emu_run_from_source.

(* emu_init: the start-up callees run in the order of the C (0 memset, 1 emu_args_init, 2 trace_load, 3 system_init,
   4 recorder_init, 5 bay_init, 6 system_connect, 7 player_init, 8 model_init, 9 models_register, 10 model_probe, then the
   translated model_create) and the first failing one stops it with an error *)
Theorem C13_emu_init_from_source : forall sx st argc argv, EmuLoopRelDefs.models_wf sx st ->
  EmuLoop_gen.emu_init tt argc argv sx st =
  if forallb (EmuLoopPre.en_init_ok sx) EmuLoopProofs.init_steps
  then Ok (tt, EmuLoopPre.with_log st ((10 :: 9 :: 8 :: 7 :: 6 :: 5 :: 4 :: 3 :: 2 :: 1 :: 0 :: nil)%nat ++ EmuLoopPre.es_log st))
  else Err EmuLoopPre.E_FAIL.
Proof. exact EmuLoopProofs.emu_init_from_source. Qed.
Print Assumptions C13_emu_init_from_source.

(* the trace of C13's worked example (2 streams, nOS-V + marks) through the GENERATED emu_connect / emu_step loop /
   emu_finish, with the per-model hooks of PvDefs: the six files are those PvDefs.emulate computes *)
Example C13_ex_main_loop_files :
  match EmuLoopProofs.ex_main PvThms.pv_ex_en, PvThms.pv_ex_out with
  | Ok st, Ok out => EmuLoopProofs.ex_files st 0 = Some (EmuLoopProofs.files_of (PvDefs.o_th out)) /\
                     EmuLoopProofs.ex_files st 1 = Some (EmuLoopProofs.files_of (PvDefs.o_cpu out))
  | _, _ => False
  end.
Proof. vm_compute. split; reflexivity. Qed.
(* the same trace with only the ovni model enabled: the first nOS-V event stops emu_step with an error *)
Example C13_ex_main_loop_not_enabled : EmuLoopProofs.ex_main (M_OVNI :: nil) = Err EmuLoopPre.E_FAIL.
Proof. vm_compute. reflexivity. Qed.
(* ==== end of block (unit emuloop) ==== *)

(* ==== writer primitives from source (unit pvw) ==== *)
(* The writer primitives of src/emu/pv/pcf.c, prf.c and prv.c are regenerated on every run into Gen/PvW_gen.v
   (translate/units/pvw.py; modules Pcf, Prf, Prv) over the prelude Emu/PvWPre.v: one struct pcf / prf / prv and a table
   of FILEs as state; uthash tables = insertion-ordered lists (find = first entry with the key, add = append); calloc =
   a pending object that becomes entry number `length` when HASH_ADD appends it; snprintf("%s") truncates and returns
   the full length; fprintf formats parsed by the translator and rendered with PvDefs' dec / pad_left / pad_right /
   dec_pad0; the two loop shapes (hh.next walks, counting loops) are primitive folds whose BODIES are translated;
   write_colors is a primitive.  Emu/PvWRelDefs.v reads that state as PvDefs' tables (abs_pcf, abs_prf, abs_prv).
   Proofs/PvWProofs.v: each generated function computes the PvDefs primitive - same refusals, same resulting tables,
   same bytes written (every equation below holds for every state; allocation / fopen / bay_add_cb succeed where said). *)
From OV Require Emu.PvWPre Emu.PvWRelDefs Gen.PvW_gen Proofs.PvWProofs.
Module PW := PvWPre.
Module PR := PvWRelDefs.
Module PG := PvW_gen.

Theorem C13_writer_primitives_from_source :
  (* pcf_add_type: NULL exactly when PvDefs refuses (duplicate id, label of 512 bytes or more); otherwise the new entry
     is appended and its pointer returned *)
  (forall sx st id label, PW.e_calloc_ok sx = true ->
     exists r st', PG.Pcf.pcf_add_type tt id label sx st = Ok (r, st') /\ PvWProofs.frame_pcf st st' /\
       match pcf_add_type (PR.abs_pcf st) id label with
       | Ok p' => r = Some (length (PW.w_types st)) /\ PR.abs_pcf st' = p'
       | Err _ => r = None /\ PW.w_types st' = PW.w_types st
       end) /\
  (* pcf_add_value on the entry at position h (ids before it differ): int64 values *)
  (forall sx st h o v label, PW.e_calloc_ok sx = true -> nth_error (PW.w_types st) h = Some o ->
     (forall j o', (j < h)%nat -> nth_error (PW.w_types st) j = Some o' -> PW.ct_id o' <> PW.ct_id o) ->
     exists r st', PG.Pcf.pcf_add_value (Some h) v label sx st = Ok (r, st') /\ PvWProofs.frame_pcf st st' /\
       match pcf_add_value (PR.abs_pcf st) (PW.ct_id o) v label with
       | Ok p' => r = Some PW.VNew /\ PR.abs_pcf st' = p' /\
                  (exists o', nth_error (PW.w_types st') h = Some o' /\ PW.ct_nvalues o' = PW.ct_nvalues o + 1)
       | Err _ => r = None /\ PW.w_types st' = PW.w_types st
       end) /\
  (* pcf_close: header, colours, every type with its values in insertion order = PvDefs.pcf_text; the file is closed *)
  (forall sx st i c, PW.w_pcf_f st = Some i -> nth_error (PW.w_files st) i = Some (c, true) ->
     PG.Pcf.pcf_close tt sx st =
     Ok (tt, PW.upd_files st (update (PW.w_files st) i (c ++ pcf_text (PR.abs_pcf st), false)))) /\
  (* prf_add / prf_close *)
  (forall sx st l idx label, PW.w_rows st = Some l -> PW.w_nrows st = Z.of_nat (length l) ->
     match prf_add (PR.abs_prf st) idx label with
     | Ok p' => exists st', PG.Prf.prf_add tt idx label sx st = Ok (tt, st') /\ PR.abs_prf st' = p' /\
                            (exists l', PW.w_rows st' = Some l' /\ length l' = length l) /\
                            PW.w_nrows st' = PW.w_nrows st /\ PW.w_prf_f st' = PW.w_prf_f st /\ PW.w_files st' = PW.w_files st /\
                            PR.same_pcf st st' /\ PR.same_prv st st'
     | Err _ => PG.Prf.prf_add tt idx label sx st = Err PW.E_FAIL
     end) /\
  (forall sx st l i c, PW.w_rows st = Some l -> PW.w_nrows st = Z.of_nat (length l) ->
     PW.w_prf_f st = Some i -> nth_error (PW.w_files st) i = Some (c, true) ->
     match prf_close (PR.abs_prf st) with
     | Ok text => PG.Prf.prf_close tt sx st = Ok (tt, PW.upd_files st (update (PW.w_files st) i (c ++ text, false)))
     | Err _ => PG.Prf.prf_close tt sx st = Err PW.E_FAIL
     end) /\
  (* prv_register (get_id, find_prv_chan, check_flags of unit prv, bay_add_cb, HASH_ADD_LONG) and the two formats *)
  (forall sx st row ty bay chan flags, PW.e_calloc_ok sx = true -> PW.e_bay_ok sx = true ->
     match prv_register (PR.abs_prv st) row ty flags with
     | Ok pv' => exists st', PG.Prv.prv_register tt row ty bay chan flags sx st = Ok (tt, st') /\ PR.abs_prv st' = pv' /\
                             PW.w_cbs st' = PW.w_cbs st ++ [(chan, length (PW.w_chans st))] /\
                             PW.w_files st' = PW.w_files st /\ PR.same_pcf st st' /\ PR.same_prf st st'
     | Err _ => PG.Prv.prv_register tt row ty bay chan flags sx st = Err PW.E_FAIL
     end) /\
  (forall sx st i c row1 ty v, PW.w_prv_file st = Some i -> nth_error (PW.w_files st) i = Some (c, true) ->
     PG.Prv.write_line tt row1 ty v sx st =
     Ok (tt, PW.upd_files st (update (PW.w_files st) i (c ++ prv_line row1 (PW.w_time st) ty v, true)))) /\
  (forall sx st i nrows, nth_error (PW.w_files st) i = Some ([], true) ->
     exists st', PG.Prv.prv_open_file tt nrows (Some i) sx st = Ok (tt, st') /\ PR.abs_prv st' = prv_open nrows /\
                 PW.w_prv_file st' = Some i /\ PW.w_cnew st' = PW.w_cnew st /\ PR.same_pcf st st' /\ PR.same_prf st st').
Proof.
  exact (conj PvWProofs.pcf_add_type_eq (conj PvWProofs.pcf_add_value_eq (conj PvWProofs.pcf_close_eq
        (conj PvWProofs.prf_add_eq (conj PvWProofs.prf_close_eq (conj PvWProofs.prv_register_eq
        (conj PvWProofs.prv_write_line_eq PvWProofs.prv_open_file_eq))))))).
Qed.
Print Assumptions C13_writer_primitives_from_source.

Theorem C13_prf_open_from_source : forall sx st path nrows,
  PW.e_calloc_ok sx = true -> PW.e_fopen_ok sx = true -> 0 <= nrows < 2 ^ 63 ->
  exists st', PG.Prf.prf_open tt path nrows sx st = Ok (tt, st') /\ PR.abs_prf st' = prf_open (Z.to_nat nrows) /\
              PW.w_nrows st' = nrows /\ PW.w_rows st' = Some (repeat PW.zero_row (Z.to_nat nrows)) /\
              PW.w_prf_f st' = Some (length (PW.w_files st)) /\ PW.w_files st' = PW.w_files st ++ [([], true)] /\
              PR.same_pcf st st' /\ PR.same_prv st st'.
Proof. exact PvWProofs.prf_open_eq. Qed.
Print Assumptions C13_prf_open_from_source.

(* the refusals of B5, re-derived for the generated code *)
Theorem C13_pcf_dup_type_refused_from_source : forall sx st id l, PW.e_calloc_ok sx = true -> declared (PR.abs_pcf st) id ->
  exists st', PG.Pcf.pcf_add_type tt id l sx st = Ok (None, st') /\ PW.w_types st' = PW.w_types st.
Proof. exact PvWProofs.gen_pcf_dup_type_refused. Qed.
Print Assumptions C13_pcf_dup_type_refused_from_source.
Theorem C13_pcf_dup_value_refused_from_source : forall sx st h o v l k, PW.e_calloc_ok sx = true ->
  nth_error (PW.w_types st) h = Some o -> PW.find_idx (fun x => fst x =? v) (PW.ct_values o) = Some k ->
  PG.Pcf.pcf_add_value (Some h) v l sx st = Ok (None, st).
Proof. exact PvWProofs.gen_pcf_dup_value_refused. Qed.
Print Assumptions C13_pcf_dup_value_refused_from_source.
Theorem C13_pcf_long_label_refused_from_source :
  (forall sx st id l, PW.e_calloc_ok sx = true -> MAXL <= slen l ->
     exists st', PG.Pcf.pcf_add_type tt id l sx st = Ok (None, st') /\ PW.w_types st' = PW.w_types st) /\
  (forall sx st h o v l, PW.e_calloc_ok sx = true -> nth_error (PW.w_types st) h = Some o ->
     (forall j o', (j < h)%nat -> nth_error (PW.w_types st) j = Some o' -> PW.ct_id o' <> PW.ct_id o) -> MAXL <= slen l ->
     exists st', PG.Pcf.pcf_add_value (Some h) v l sx st = Ok (None, st') /\ PW.w_types st' = PW.w_types st).
Proof. exact (conj PvWProofs.gen_pcf_long_type_refused PvWProofs.gen_pcf_long_value_refused). Qed.
Print Assumptions C13_pcf_long_label_refused_from_source.
Theorem C13_row_refusals_from_source :
  (forall sx st l idx label, PW.w_rows st = Some l -> PW.w_nrows st = Z.of_nat (length l) ->
     idx < 0 \/ PW.w_nrows st <= idx -> PG.Prf.prf_add tt idx label sx st = Err PW.E_FAIL) /\
  (forall sx st l idx label, PW.w_rows st = Some l -> PW.w_nrows st = Z.of_nat (length l) ->
     MAXR <= slen label -> PG.Prf.prf_add tt idx label sx st = Err PW.E_FAIL) /\
  (forall sx st l idx label label' st1, PW.w_rows st = Some l -> PW.w_nrows st = Z.of_nat (length l) ->
     PG.Prf.prf_add tt idx label sx st = Ok (tt, st1) -> PG.Prf.prf_add tt idx label' sx st1 = Err PW.E_FAIL) /\
  (forall sx st l i c, PW.w_rows st = Some l -> PW.w_nrows st = Z.of_nat (length l) ->
     PW.w_prf_f st = Some i -> nth_error (PW.w_files st) i = Some (c, true) ->
     In None (PR.abs_prf st) -> PG.Prf.prf_close tt sx st = Err PW.E_FAIL).
Proof.
  exact (conj PvWProofs.gen_prf_bounds_refused (conj PvWProofs.gen_prf_long_refused
        (conj PvWProofs.gen_prf_twice_refused PvWProofs.gen_prf_unset_refused))).
Qed.
Print Assumptions C13_row_refusals_from_source.
Theorem C13_prv_refusals_from_source :
  (forall sx st row ty bay chan fl fl' bay' chan' st1, PW.e_calloc_ok sx = true -> PW.e_bay_ok sx = true ->
     PG.Prv.prv_register tt row ty bay chan fl sx st = Ok (tt, st1) ->
     PG.Prv.prv_register tt row ty bay' chan' fl' sx st1 = Err PW.E_FAIL) /\
  (forall sx st row ty bay chan fl, PW.e_calloc_ok sx = true -> PW.e_bay_ok sx = true ->
     check_flags fl = false -> PG.Prv.prv_register tt row ty bay chan fl sx st = Err PW.E_FAIL).
Proof. exact (conj PvWProofs.gen_prv_dup_channel_refused PvWProofs.gen_prv_bad_flags_refused). Qed.
Print Assumptions C13_prv_refusals_from_source.

(* non-vacuity, by computation on the generated code: three FILEs open; a PCF with one type and one value (the second
   add of the value and of the type are refused), closed = pcf_text; a ROW file of two rows (close refused while a row
   is unset, a row cannot be set twice, index 2 is out of bounds) = prf_text; a PRV with a channel registered once
   (twice / bad flags refused) and one record *)
Definition pvw_st0 : PW.wstate :=
  {| PW.w_files := [([], true); ([], true); ([], true)]; PW.w_pcf_f := Some 0%nat; PW.w_types := []; PW.w_tnew := None;
     PW.w_vnew := None; PW.w_prf_f := None; PW.w_nrows := 0; PW.w_rows := None; PW.w_prv_file := None; PW.w_time := 0;
     PW.w_prv_nrows := 0; PW.w_chans := []; PW.w_cnew := None; PW.w_cbs := [] |}.

Example C13_ex_pvw_pcf :
  match PW.bind (PG.Pcf.pcf_add_type tt 7 [84; 121]) (fun t =>
        PW.bind (PG.Pcf.pcf_add_value t 3 [97]) (fun v1 =>
        PW.bind (PG.Pcf.pcf_add_value t 3 [98]) (fun v2 =>
        PW.bind (PG.Pcf.pcf_add_type tt 7 [90]) (fun t2 =>
        PW.bind_ (PG.Pcf.pcf_close tt) (PW.ret (v1, v2, t2)))))) PR.env_ok pvw_st0 with
  | Ok ((v1, v2, t2), st) =>
    v1 = Some PW.VNew /\ v2 = None /\ t2 = None /\ PW.file_open st (Some 0%nat) = false /\
    PW.file_bytes st (Some 0%nat) = pcf_text [{| pt_id := 7; pt_label := [84; 121]; pt_values := [(3, [97])] |}]
  | Err _ => False
  end.
Proof. vm_compute. repeat split. Qed.

Example C13_ex_pvw_prf :
  match PW.bind_ (PG.Prf.prf_open tt [120] 2) (PW.bind_ (PG.Prf.prf_add tt 0 [97]) (PW.bind_ (PG.Prf.prf_add tt 1 [98])
          (PG.Prf.prf_close tt))) PR.env_ok pvw_st0 with
  | Ok (_, st) => PW.file_bytes st (Some 3%nat) = prf_text [[97]; [98]] /\ PW.file_open st (Some 3%nat) = false
  | Err _ => False
  end /\
  PW.bind_ (PG.Prf.prf_open tt [120] 2) (PW.bind_ (PG.Prf.prf_add tt 0 [97]) (PG.Prf.prf_close tt)) PR.env_ok pvw_st0 = Err PW.E_FAIL /\
  PW.bind_ (PG.Prf.prf_open tt [120] 2) (PW.bind_ (PG.Prf.prf_add tt 0 [97]) (PG.Prf.prf_add tt 0 [98])) PR.env_ok pvw_st0 = Err PW.E_FAIL /\
  PW.bind_ (PG.Prf.prf_open tt [120] 2) (PG.Prf.prf_add tt 2 [97]) PR.env_ok pvw_st0 = Err PW.E_FAIL.
Proof. vm_compute. repeat split. Qed.

Example C13_ex_pvw_prv :
  match PW.bind_ (PG.Prv.prv_open_file tt 2 (Some 2%nat)) (PW.bind_ (PG.Prv.prv_register tt 1 9 tt 5 0)
          (PG.Prv.write_line tt 2 9 33)) PR.env_ok pvw_st0 with
  | Ok (_, st) => PW.file_bytes st (Some 2%nat) = prv_header 0 2 ++ prv_line 2 0 9 33 /\ PW.w_cbs st = [(5, 0%nat)] /\
                  pv_chans (PR.abs_prv st) = [{| pc_id := 19; pc_row1 := 2; pc_type := 9; pc_flags := 0 |}]
  | Err _ => False
  end /\
  PW.bind_ (PG.Prv.prv_open_file tt 2 (Some 2%nat)) (PW.bind_ (PG.Prv.prv_register tt 1 9 tt 5 0)
     (PG.Prv.prv_register tt 1 9 tt 6 8)) PR.env_ok pvw_st0 = Err PW.E_FAIL /\
  PW.bind_ (PG.Prv.prv_open_file tt 2 (Some 2%nat)) (PG.Prv.prv_register tt 1 9 tt 5 3) PR.env_ok pvw_st0 = Err PW.E_FAIL.
Proof. vm_compute. repeat split. Qed.
(* ==== end of block (unit pvw) ==== *)

(* ==== static description from the built system; registration is total (SysStaticDefs, PvTotalProofs) ==== *)
(* static_of_system sys rankf en ms lint (Emu/SysStaticDefs.v): the static description the emulator core and the writer work
   on, computed from the system MetaDefs.build returns: threads in MetaDefs.thread_list order (loom index, pid, tid, app id,
   rank rankf (loom, pid)), CPUs in MetaDefs.cpu_list order (by physical id, the virtual CPU of each loom last), channels of
   the enabled models then one per mark type; sys_phy sys = the physical ids in the same order. *)
From OV Require Emu.SysStaticDefs Proofs.SysStaticProofs Proofs.PvTotalProofs.

(* it is the same system: the hypothesis of C13_row_names_documented_order holds by construction *)
Theorem C13_static_same_system : forall sys rankf en ms lint,
  same_system sys (SysStaticDefs.static_of_system sys rankf en ms lint) (SysStaticDefs.sys_phy sys).
Proof. exact SysStaticProofs.static_same_system. Qed.
Print Assumptions C13_static_same_system.

(* loom_get_cpu on the k-th loom finds exactly the CPU indices the merge registered for that loom, and -1 (its virtual CPU) *)
Theorem C13_find_cpu_of_system : forall sys rankf en ms lint k l ps cs idx, nth_error sys k = Some (l, ps, cs) ->
  (find_cpu (SysStaticDefs.static_of_system sys rankf en ms lint) k idx <> None <-> (In idx (map fst cs) \/ idx = -1)).
Proof. exact SysStaticProofs.find_cpu_of_system. Qed.
Print Assumptions C13_find_cpu_of_system.

(* the target of a remote affinity event: a thread of the caller's loom with that tid, of the caller's process when it has
   one; none exactly when the loom has no thread with that tid (for any static description) *)
Theorem C13_find_remote_spec : forall sx who tid me, nth_error (s_threads sx) who = Some me ->
  match find_remote sx who tid with
  | Some g => exists ti, nth_error (s_threads sx) g = Some ti /\ ti_tid ti = tid /\ ti_loom ti = ti_loom me /\
                ((exists tj, In tj (s_threads sx) /\ ti_loom tj = ti_loom me /\ ti_pid tj = ti_pid me /\ ti_tid tj = tid) -> ti_pid ti = ti_pid me)
  | None => forall ti, In ti (s_threads sx) -> ti_loom ti = ti_loom me -> ti_tid ti <> tid
  end.
Proof. exact SysStaticProofs.find_remote_spec. Qed.
Print Assumptions C13_find_remote_spec.

(* B5, now in full for the connect-time part: for EVERY system (in particular every one MetaDefs.build returns) with fewer than
   2^31 CPUs and physical ids / loom indices below 2^63 (sys_small: what fits the C types), every subset en of the models of
   the dumped tables (any list: models not in the tables are ignored), every rank assignment, and every list of mark types
   with pairwise distinct type numbers in 0..99, titles and labels shorter than MAX_PCF_LABEL and pairwise distinct label
   values per type (marks_fine: what MarkJsonDefs.emu_types_of_trees returns has distinct types in range and distinct label
   values - C17; the length bound is the emulator's own limit), the registration of `emulate` succeeds: system_connect and the
   connect of every enabled model never hit a duplicate PRV channel, a duplicate PCF type or value, an over-long label, a row
   set twice or out of range.  Uses, by computation on the dumped tables: type numbers pairwise distinct per side across the
   system channels and all models, all below 100, flags pass check_flags, labels short, label values distinct per type.
   Not covered here: the finish step (task types: a gid collision is a legitimate refusal, see C13_ex_refuse_gid_collision). *)
Theorem C13_registration_total : forall sys rankf en ms lint,
  PvTotalProofs.sys_small sys -> PvTotalProofs.marks_fine ms ->
  exists r, connect (SysStaticDefs.static_of_system sys rankf en ms lint) (SysStaticDefs.sys_phy sys) en ms = Ok r.
Proof. exact PvTotalProofs.registration_total. Qed.
Print Assumptions C13_registration_total.

(* the same for any static description with as many physical ids as CPUs *)
Theorem C13_connect_total : forall sx phy en ms, PvTotalProofs.cpu_ok sx phy -> PvTotalProofs.marks_fine ms ->
  exists r, connect sx phy en ms = Ok r.
Proof. exact (fun sx phy en ms => PvTotalProofs.connect_gen_total Gen.Pv_gen.pv_chans sx phy en ms PvTotalProofs.specs_are_fine). Qed.
Print Assumptions C13_connect_total.
(* ==== end of block (SysStaticDefs, PvTotalProofs) ==== *)

(* ==== whole-emulator composition (EmuAllDefs) ==== *)
(* EmuAllDefs.ovniemu_model: the composition of the models of this tree on a whole trace directory (see Properties_C12.v, same
   block).  When it answers `Files out`:
   C13_all_files_means_valid - every stream.json passed the loader's gates, every stream.obs is structurally valid to its end,
     the clock-offset table was usable and the merge delivered all events without a backward jump, the merge built a system,
     the model probe and the mark merge succeeded, and `emulate` of the static description OF THAT SYSTEM on the delivered,
     decoded events returned these files;
   C13_all_files_well_formed - hence the C13 guarantees at the level of bytes: each .prv is header(last - first event time,
     number of threads / CPUs of the built system) followed by records on rows 1..n not later than the duration; thread.row /
     cpu.row read back name exactly the threads / CPUs of the built system in MetaDefs order; every type a record can carry is
     declared in the PCF of its file.  Side conditions left as hypotheses: duration below 10^20 (int64 clocks), labels of the
     trace without newline (marks_ok, tl_clean).  That ovni is enabled is discharged from C14_enable_iff (the base model always is). *)
From OV Require Emu.EmuAllDefs Proofs.EmuAllProofs.
Theorem C13_all_files_means_valid : forall inp out, EmuAllDefs.ovniemu_model inp = EmuAllDefs.Files out ->
  (forall s, In s (EmuAllDefs.sorted_streams inp) ->
     LoaderMetaDefs.meta_rejected (LoaderMetaDefs.meta_check (EmuAllDefs.si_meta s) (EmuAllDefs.proc_has_app (EmuAllDefs.sorted_streams inp) s)) = false) /\
  (forall s, In s (EmuAllDefs.sorted_streams inp) ->
     exists recs, StreamDefs.run (EmuAllDefs.si_obs s) EmuAllDefs.junk0 false = StreamDefs.Run StreamDefs.VEnd recs) /\
  (exists oevs enum revs, ClkoffDefs.run_emu_table (EmuAllDefs.in_clkoff inp) enum = ClkoffDefs.OOk (oevs, PlayerDefs.VOk) /\
     EmuAllProofs.delivered inp out revs /\
     Forall2 (fun (e : PlayerDefs.oev) r => EmuAllProofs.rev_time r = PlayerDefs.o_sclock e /\
                exists s, nth_error (EmuAllDefs.sorted_streams inp) (PlayerDefs.o_id e) = Some s /\
                          exists sys, EmuAllDefs.gindex_of sys s = Some (EmuAllProofs.rev_who r)) oevs revs) /\
  EmuAllProofs.accepted_run inp out.
Proof. exact EmuAllProofs.files_means_all_valid. Qed.
Print Assumptions C13_all_files_means_valid.

Theorem C13_all_files_well_formed : forall inp out, EmuAllDefs.ovniemu_model inp = EmuAllDefs.Files out ->
  exists sys en ms evs sx, MetaDefs.build (map EmuAllDefs.si_smeta (EmuAllDefs.sorted_streams inp)) = MetaDefs.Ok sys /\
    sx = SysStaticDefs.static_of_system sys (SysStaticDefs.rank_of_metas (map EmuAllDefs.si_smeta (EmuAllDefs.sorted_streams inp))) en ms (EmuAllDefs.in_lint inp) /\
    (let d := last_time evs - first_time evs in 0 <= d < 10 ^ 20 ->
       prv_shape (f_prv (o_th out)) d (length (MetaDefs.thread_list sys)) /\ prv_shape (f_prv (o_cpu out)) d (length (MetaDefs.cpu_list sys))) /\
    (marks_ok ms -> (forall revs, tl_clean (tlabels_of sx revs)) ->
       parse_prf (f_row (o_th out)) = Some (map sys_th_label (MetaDefs.thread_list sys)) /\
       parse_prf (f_row (o_cpu out)) = Some (map sys_cpu_label (MetaDefs.cpu_list sys)) /\
       (forall ty, In ty (th_types sx) -> text_declares (f_pcf (o_th out)) ty) /\
       (forall ty, In ty (cpu_types sx) -> text_declares (f_pcf (o_cpu out)) ty)).
Proof. exact EmuAllProofs.files_well_formed. Qed.
Print Assumptions C13_all_files_well_formed.
(* ==== end of block (EmuAllDefs) ==== *)

(* ==== generated emulator is the model (EmuGenAllProofs) ==== *)
(* Composition of the from-source units: the main loop as generated from emu.c / model.c / recorder.c / pvt.c / prv.c (unit
   emuloop, Gen/EmuLoop_gen.v) with the model handlers as generated from the eight <model>/event.c (unit dispatch,
   Gen/Dispatch_gen.v).  EmuLoopPre gives spec->event(emu) a hand-written meaning (core_step on decode_all); C18_dispatch_from_source
   proves that meaning equal to the generated handlers; here they are put together, so that the event hook in the statements is
   DispatchProofs.gen_event m = the generated model_<m>_event (EmuGenAllProofs.gen_handler / gen_iter).
   C13_generated_step_is_model (per event, in full): one generated emu_step on a delivered event = recorder_advance, the
     enabled test, the GENERATED handler of the event's model, the emission rule, the PRV emit callbacks - refusal for refusal.
   C13_generated_emulator_is_model_partial (whole run): PvDefs.emulate with its replay loop run by the generated handlers
     (EmuGenAllProofs.emulate_gen) returns what PvDefs.emulate returns - same refusal or the same six files - GIVEN an invariant P of
     the core state that the accepted events of the trace preserve and that supplies the preconditions of the dispatch theorem
     (thread exists, CPU lists consistent, no physical CPU oversubscribed: GuardsProofs.GInv).  MISSING for the unconditional
     statement: such a P for events of all models (GInv is proved preserved by thread/affinity events only).  With
     C13_emu_run_from_source (generated loop = pv_run_from), C13_emu_connect/finish_from_source and C13_all_files_means_valid
     (ovniemu_model = stage; emulate) this is the chain from the generated C to the composed model.
   Glue that remains hand-written: the monads and primitives of EmuLoopPre / DispatchPre (state threading, `return -1`, NULL
   tests), the MSem rendering of the models' state (core state + pending dirty channels), the emission rule standing for
   bay_propagate (tied to the generated bay code separately: C06_bay_run_refines), en_content (what emu_ev decodes from the
   stream bytes), the per-model connect / finish hooks (instantiated with PvDefs.model_connect / finish_pvt in EmuLoopProofs),
   the link eenv <-> EmuAllDefs.stage (player state, offsets, stream -> thread map), the gid table, the lint check. *)
From OV Require Proofs.EmuGenAllProofs Proofs.DispatchProofs Proofs.EmuAllStage.
Theorem C13_generated_step_is_model : forall sx st e pst' who cst marks,
  PlayerDefs.pstep true (EmuLoopPre.en_offs sx) (EmuLoopPre.es_player st) = PlayerDefs.SEmit e pst' ->
  EmuLoopPre.en_lpt sx (PlayerDefs.o_id e) = Some who ->
  0 <= EmuLoopRelDefs.model_of sx e < 256 -> EmuLoopRelDefs.models_wf sx st ->
  EmuLoopPre.es_models st = EmuLoopPre.MSem cst None ->
  EmuGenAllProofs.handler_ready (EmuLoopPre.en_sx sx) (EmuLoopPre.es_enabled st) marks cst who ->
  EmuLoop_gen.emu_step tt sx st =
  match EmuGenAllProofs.gen_iter (EmuLoopPre.en_sx sx) (EmuLoopPre.es_enabled st) cst (EmuLoopPre.es_rec st) (PlayerDefs.o_dclock e) who
          (EmuLoopPre.en_content sx (PlayerDefs.o_id e) (PlayerDefs.o_pay e)) with
  | Ok (cst', r') => Ok (0, EmuLoopPre.with_models (EmuLoopPre.with_rec (EmuLoopRelDefs.delivered st pst' e who) r') (EmuLoopPre.MSem cst' None))
  | Err _ => Err EmuLoopPre.E_FAIL
  end.
Proof. exact EmuGenAllProofs.generated_step_is_model. Qed.
Print Assumptions C13_generated_step_is_model.

Theorem C13_generated_emulator_is_model_partial : forall sx phy en ms lintchans tl revs marks (P : state -> Prop),
  (forall st who ev st1 ls, P st -> step sx st who ev = Ok (st1, ls) -> P st1) ->
  (forall st who, P st -> (who < length (s_threads sx))%nat -> EmuGenAllProofs.handler_ready sx en marks st who) ->
  P (init sx) -> (forall rv, In rv revs -> (EmuGenAllProofs.rev_thread rv < length (s_threads sx))%nat) ->
  EmuGenAllProofs.same_res (EmuGenAllProofs.emulate_gen sx phy en ms lintchans tl revs)
                           (emulate sx phy en ms lintchans tl (EmuGenAllProofs.decode_revs en sx revs)).
Proof. exact EmuGenAllProofs.generated_emulate_is_model_partial. Qed.
Print Assumptions C13_generated_emulator_is_model_partial.

(* UNCONDITIONAL for the traces of C04 (every delivered event a thread-state or affinity event of the base model): the invariant is
   ThreadCpuProofs.Bind, preserved by those events (GuardsProofs.Bind_step).  First on PvDefs.emulate, then on the composed
   whole-emulator model: wherever EmuAllDefs.ovniemu_model reaches its emulate stage (EmuAllStage.stage inp = inr ..), running the
   replay with the GENERATED handlers (connect / finish / close as in PvDefs) gives ovniemu_model's answer - the same six files, or a
   refusal on both sides.  Its side conditions are discharged from the stage: channels = enabled models ++ marks, enabled models
   among the eight of the tables (model_probe), ovni enabled (C14), every event's thread is a row of the built system. *)
Theorem C13_generated_emulator_is_model_oh : forall sx phy en ms lintchans tl revs marks,
  s_chans sx = mk_chans en ++ marks -> (forall m, memz m en = true -> In m DispatchProofs.all_models) -> memz M_OVNI en = true ->
  (forall rv, In rv revs -> EmuGenAllProofs.rev_is_oh rv /\ (EmuGenAllProofs.rev_thread rv < length (s_threads sx))%nat) ->
  EmuGenAllProofs.same_res (EmuGenAllProofs.emulate_gen sx phy en ms lintchans tl revs)
                           (emulate sx phy en ms lintchans tl (EmuGenAllProofs.decode_revs en sx revs)).
Proof. exact EmuGenAllProofs.generated_emulate_is_model_oh. Qed.
Print Assumptions C13_generated_emulator_is_model_oh.

Theorem C13_generated_emulator_is_model_thread_traces : forall inp sys en ms revs, EmuAllStage.stage inp = inr (sys, en, ms, revs) ->
  (forall rv, In rv revs -> EmuGenAllProofs.rev_is_oh rv) ->
  let sx := EmuAllStage.stage_sx inp sys en ms in
  match EmuGenAllProofs.emulate_gen sx (SysStaticDefs.sys_phy sys) en ms (lint_chans (mk_chans en)) (tlabels_of sx revs) revs with
  | Ok out => EmuAllDefs.ovniemu_model inp = EmuAllDefs.Files out
  | Err _ => exists e, EmuAllDefs.ovniemu_model inp = EmuAllDefs.Refused (EmuAllDefs.REmu e)
  end.
Proof. exact EmuGenAllProofs.generated_all_oh. Qed.
Print Assumptions C13_generated_emulator_is_model_thread_traces.
(* ==== end of block (EmuGenAllProofs) ==== *)

(* ==== the writer follows the core (PvWriterTotal) ==== *)
(* C13_connect_registers_every_slot: after the connect-time registration every (row, type) the emulator core can emit a record
   for - rows below the thread / CPU count, types of th_types / cpu_types - has a registered PRV channel with id type * nrows + row.
   C13_writer_follows_core: hence whenever the emulator core accepts a run (EmuCoreDefs.run = Ok) whose event times are
   non-decreasing and which creates no task types, the whole `emulate` (connect, replay with every record written through its
   channel, finish, close) succeeds: the Paraver writer never refuses what the core accepts.  (With task types, finish may
   legitimately refuse a gid collision: C13_ex_refuse_gid_collision.) *)
From OV Require Proofs.PvWriterTotal.
Theorem C13_connect_registers_every_slot : forall sx phy en ms r,
  s_chans sx = mk_chans en ++ mark_chans ms -> marks_ok ms -> memz M_OVNI en = true -> length phy = length (s_cpus sx) ->
  connect sx phy en ms = Ok r ->
  (forall g ty, (g < length (s_threads sx))%nat -> In ty (th_types sx) -> PvWriterTotal.HasChan (rc_th r) ty (Z.of_nat g)) /\
  (forall g ty, (g < length (s_cpus sx))%nat -> In ty (cpu_types sx) -> PvWriterTotal.HasChan (rc_cpu r) ty (Z.of_nat g)).
Proof. exact PvWriterTotal.connect_has. Qed.
Print Assumptions C13_connect_registers_every_slot.

Theorem C13_writer_follows_core : forall sx phy en ms lc tl evs ls,
  s_chans sx = mk_chans en ++ mark_chans ms -> marks_ok ms -> PvTotalProofs.marks_fine ms -> PvTotalProofs.cpu_ok sx phy -> memz M_OVNI en = true ->
  StronglySorted Z.le (map ev_time evs) ->
  EmuCoreDefs.run sx lc evs = Ok ls -> (forall st tl', run_from sx (init sx) evs = Ok (st, tl') -> types st = nil) ->
  exists out, emulate sx phy en ms lc tl evs = Ok out.
Proof. exact PvWriterTotal.emulate_total. Qed.
Print Assumptions C13_writer_follows_core.
(* ==== end of block (PvWriterTotal) ==== *)

(* ==== generated emulator is the model, all models (EmuGenInv, EmuGenFull) ==== *)
(* C13_generated_emulator_is_model_partial with its invariant found and proved, for ALL EIGHT models and the marks: no condition
   on the events is left.  The invariant is EmuGenInv.PInv sx st := ThreadCpuProofs.Bind sx (EmuGenInv.norm st), the thread/CPU
   binding invariant on the state with the kernel's out-of-CPU flags cleared.
   C13_invariant_kept: every accepted step of the core, of any event, keeps it (thread-state / affinity events: oh_step commutes
   with norm on accepted steps and ThreadCpuProofs.sim_step keeps Bind; every other event - table-driven channel events, kernel
   context switches, task events and creations of nosv / nanos6, marks, flushes - leaves thread states, thread CPUs and CPU
   lists alone); it holds initially and gives GuardsProofs.GInv, what the generated guards read.
   C13_generated_iter_is_model: hence in every state reached by accepted events the generated iteration (emu_step from the source
   with the generated handler of the event's model) is the model's iteration.
   C13_generated_emulator_is_model_all: PvDefs.emulate with its replay run by the generated handlers = PvDefs.emulate, refusal for
   refusal, file for file, for any event list whose thread indices are rows of the system.
   C13_generated_emulator_is_model: on the composed whole-emulator model, for EVERY input that reaches the emulate stage: running
   the replay with the generated handlers gives ovniemu_model's answer, the same six files or a refusal on both sides. *)
From OV Require Proofs.EmuGenInv Proofs.EmuGenFull Proofs.ThreadCpuProofs Proofs.GuardsProofs.
Theorem C13_invariant_kept : forall sx,
  EmuGenInv.PInv sx (init sx) /\
  (forall st who ev st1 ls, EmuGenInv.PInv sx st -> step sx st who ev = Ok (st1, ls) -> EmuGenInv.PInv sx st1) /\
  (forall st, EmuGenInv.PInv sx st -> GuardsProofs.GInv sx st /\ length (threads st) = length (s_threads sx)).
Proof. exact EmuGenFull.invariant_kept. Qed.
Print Assumptions C13_invariant_kept.

Theorem C13_generated_iter_is_model : forall sx en marks st r dclock who c,
  s_chans sx = mk_chans en ++ marks -> (forall m, memz m en = true -> In m DispatchProofs.all_models) ->
  EmuGenInv.PInv sx st -> (who < length (s_threads sx))%nat ->
  EmuGenAllProofs.same_res (EmuGenAllProofs.gen_iter sx en st r dclock who c)
                           (EmuLoopRelDefs.pv_iter sx st r dclock who (EmuGenAllProofs.rawc_event en sx c)) /\
  (forall st1 ls, step sx st who (EmuGenAllProofs.rawc_event en sx c) = Ok (st1, ls) -> EmuGenInv.PInv sx st1).
Proof. exact EmuGenFull.generated_iter_is_model_inv. Qed.
Print Assumptions C13_generated_iter_is_model.

Theorem C13_generated_emulator_is_model_all : forall sx phy en ms lintchans tl revs marks,
  s_chans sx = mk_chans en ++ marks -> (forall m, memz m en = true -> In m DispatchProofs.all_models) ->
  (forall rv, In rv revs -> (EmuGenAllProofs.rev_thread rv < length (s_threads sx))%nat) ->
  EmuGenAllProofs.same_res (EmuGenAllProofs.emulate_gen sx phy en ms lintchans tl revs)
                           (emulate sx phy en ms lintchans tl (EmuGenAllProofs.decode_revs en sx revs)).
Proof. exact EmuGenFull.generated_emulate_is_model. Qed.
Print Assumptions C13_generated_emulator_is_model_all.

Theorem C13_generated_emulator_is_model : forall inp sys en ms revs, EmuAllStage.stage inp = inr (sys, en, ms, revs) ->
  let sx := EmuAllStage.stage_sx inp sys en ms in
  match EmuGenAllProofs.emulate_gen sx (SysStaticDefs.sys_phy sys) en ms (lint_chans (mk_chans en)) (tlabels_of sx revs) revs with
  | Ok out => EmuAllDefs.ovniemu_model inp = EmuAllDefs.Files out
  | Err _ => exists e, EmuAllDefs.ovniemu_model inp = EmuAllDefs.Refused (EmuAllDefs.REmu e)
  end.
Proof. exact EmuGenFull.generated_all. Qed.
Print Assumptions C13_generated_emulator_is_model.
(* ==== end of block (EmuGenInv, EmuGenFull) ==== *)

(* ==== breakdown trace (PvBreakdownDefs, PvBreakdownProofs, PvBreakdownValues) ==== *)
(* The third Paraver trace of `ovniemu -b` (nosv/breakdown.c, nanos6/breakdown.c): PvBreakdownDefs.bd_emulate = the sort module of
   C20 (SortDefs.sm_init / sm_run: rows = sorted per-CPU breakdown values) feeding the writer of PvDefs - one row per physical
   CPU registered with PRV_<MODEL>_BREAKDOWN and PRV_SKIPDUP | PRV_ZERO, per event the clock advances and every output row whose
   value changed is written, at the end the PCF type with the labels of the subsystem channel, of the idle channel and of the task
   types, and the row names "~CPU %4d".  Its files are compared byte for byte with those of ovniemu -b on every accepted
   breakdown trace of the check.
   C13_breakdown_files_well_formed: whenever the model writes the three files (for a configuration whose labels have no newline:
   C13_breakdown_configs_ok for the two models), read back from their BYTES: the PRV header carries the time of the last step
   and the number of physical CPUs, and every record is on a row 1..n at a time within the duration; the ROW file names
   exactly n rows, "~CPU n" down to "~CPU 1"; the PCF declares the breakdown type and labels under it every value of the three
   label groups - every value a breakdown row can show other than 0 (C20_rows: the rows are the per-CPU values, C20_wiring: a
   per-CPU value is a subsystem, an idle state or a task type). *)
From OV Require Emu.PvBreakdownDefs Proofs.PvBreakdownProofs Proofs.PvPrvProofs.
Theorem C13_breakdown_files_well_formed : forall c n tv steps f,
  PvBreakdownProofs.cfg_ok c -> PvProofs.labels_clean tv -> PvBreakdownDefs.bd_emulate c n tv steps = Ok f ->
  let d := PvBreakdownProofs.bd_end 0 steps in 0 <= d < 10 ^ 20 ->
  PvPrvProofs.prv_shape (f_prv f) d n /\
  parse_prf (f_row f) = Some (map (PvBreakdownDefs.bd_row_name n) (seq 0 n)) /\
  length (map (PvBreakdownDefs.bd_row_name n) (seq 0 n)) = n /\
  text_declares (f_pcf f) (PvBreakdownDefs.bd_type c) /\
  (forall x, In x (PvBreakdownDefs.bd_ss c) \/ In x (PvBreakdownDefs.bd_idle c) \/ In x tv ->
     text_labels (f_pcf f) (PvBreakdownDefs.bd_type c) (int (fst x))).
Proof. exact PvBreakdownProofs.breakdown_files_well_formed. Qed.
Print Assumptions C13_breakdown_files_well_formed.

Theorem C13_breakdown_configs_ok :
  PvBreakdownProofs.cfg_ok PvBreakdownDefs.bd_nosv /\ PvBreakdownProofs.cfg_ok PvBreakdownDefs.bd_nanos6 /\
  PvBreakdownDefs.bd_ss PvBreakdownDefs.bd_nosv <> nil /\ PvBreakdownDefs.bd_idle PvBreakdownDefs.bd_nosv <> nil /\
  PvBreakdownDefs.bd_ss PvBreakdownDefs.bd_nanos6 <> nil /\ PvBreakdownDefs.bd_idle PvBreakdownDefs.bd_nanos6 <> nil.
Proof. exact PvBreakdownProofs.configs_ok. Qed.
Print Assumptions C13_breakdown_configs_ok.

Example C13_ex_breakdown_files : exists f,
  PvBreakdownDefs.bd_emulate PvBreakdownDefs.bd_nosv 2 nil PvBreakdownProofs.bd_ex_steps = Ok f /\
  f_row f = prf_text (PvBreakdownDefs.bd_row_name 2 0 :: PvBreakdownDefs.bd_row_name 2 1 :: nil) /\
  f_prv f = prv_header 9 2 ++ prv_line 1 0 17 0 ++ prv_line 2 0 17 2 ++ prv_line 1 5 17 2 ++ prv_line 2 5 17 100.
Proof. exact PvBreakdownProofs.bd_ex_ok. Qed.
(* the VALUES: every record of the breakdown PRV carries the breakdown type and a value that is 0 or one a sort input (a per-CPU
   breakdown value) took in some step (the sort module only moves its inputs around: SortProofs.minv); hence, when the per-CPU
   values are subsystem / idle / task-type values of the configuration (what C20_wiring gives for the real inputs), every value
   of the file other than 0 has its label in the PCF of the same trace *)
From OV Require Proofs.PvBreakdownValues.
Theorem C13_breakdown_record_values : forall c n tv steps f,
  PvBreakdownDefs.bd_emulate c n tv steps = Ok f -> let d := PvBreakdownProofs.bd_end 0 steps in 0 <= d < 10 ^ 20 ->
  exists recs, f_prv f = prv_header d (Z.of_nat n) ++ concat (map PvPrvProofs.recline recs) /\
    Forall (PvBreakdownValues.rec_tv (PvBreakdownDefs.bd_type c) (fun z => z = 0 \/ In z (PvBreakdownValues.all_vals steps))) recs.
Proof. exact PvBreakdownValues.breakdown_record_values. Qed.
Print Assumptions C13_breakdown_record_values.

Theorem C13_breakdown_values_labelled : forall c n tv steps f,
  PvBreakdownProofs.cfg_ok c -> PvProofs.labels_clean tv -> PvBreakdownDefs.bd_emulate c n tv steps = Ok f ->
  let d := PvBreakdownProofs.bd_end 0 steps in 0 <= d < 10 ^ 20 ->
  (forall z, In z (PvBreakdownValues.all_vals steps) ->
     z = 0 \/ exists x, (In x (PvBreakdownDefs.bd_ss c) \/ In x (PvBreakdownDefs.bd_idle c) \/ In x tv) /\ int (fst x) = z) ->
  exists recs, f_prv f = prv_header d (Z.of_nat n) ++ concat (map PvPrvProofs.recline recs) /\
    Forall (PvBreakdownValues.rec_tv (PvBreakdownDefs.bd_type c) (fun z => z = 0 \/ text_labels (f_pcf f) (PvBreakdownDefs.bd_type c) z)) recs.
Proof. exact PvBreakdownValues.breakdown_values_labelled. Qed.
Print Assumptions C13_breakdown_values_labelled.
(* ==== end of block (PvBreakdownDefs, PvBreakdownProofs, PvBreakdownValues) ==== *)
