(* C13 - the Paraver output of every accepted run is well-formed.
   prv_files: the two files (thread.prv, cpu.prv) the emulator-core model writes for a run: header duration, row
   count and records (time relative to the first event, 1-based row, type, value); th_types / cpu_types: the event
   types the matching PCF declares (three system types + one per channel of the enabled models).
   The model is compared with ovniemu's real files on every run; PCF labels, ROW names and the breakdown files are
   judged on the real output by an independent strict reader (lib/checks/c13.py). *)
From Coq Require Import ZArith List Bool Sorted.
From OV Require Import Emu.EmuCoreDefs Emu.DecodeDefs Emu.MarkDefs Emu.LabelDefs Emu.TableFactsDefs Proofs.EmuCoreProofs Proofs.EmuCoreWf
  Proofs.PrvProofs Proofs.LabelProofs Proofs.LabelDecode.
From OV Require Gen.Tables_gen.
Import ListNotations.
Local Open Scope Z_scope.

(* for every event list in time order that is accepted: both files have non-decreasing times, all between 0 and
   the header duration, rows between 1 and the declared count, only declared types; the duration is the time of
   the last event; the row counts are the number of threads and of CPUs *)
Theorem C13_files_well_formed : forall sx lint evs fth fcpu,
  StronglySorted Z.le (map ev_time evs) ->
  prv_files sx lint evs = Ok (fth, fcpu) ->
  file_ok (th_types sx) fth /\ file_ok (cpu_types sx) fcpu /\
  pf_nrows fth = length (s_threads sx) /\ pf_nrows fcpu = length (s_cpus sx) /\
  pf_duration fth = last_time evs - first_time evs /\ pf_duration fcpu = pf_duration fth.
Proof. exact prv_files_ok. Qed.
Print Assumptions C13_files_well_formed.

(* one step: whatever an accepted event writes goes to an existing row and a declared type *)
Theorem C13_step_records_placed : forall sx st who ev st' ls,
  step sx st who ev = Ok (st', ls) -> Forall (line_ok sx) ls.
Proof. exact step_lines_ok. Qed.
Print Assumptions C13_step_records_placed.

(* every value printed for a state type has a label.  For any subset of the eight models, any mark types, any
   threads and CPUs, and any sequence of raw events (decoded by the handlers' dispatch): every record of an
   accepted run belongs to a slot (a row of a file and a type) and its value is 0 or
   - thread state: one of the five named states;  CPU affinity: one of the CPUs of the trace (the PCF lists them);
   - a channel with a value table (subsystem, function, idle, flush, kernel, thread type): a value of that table
     (Tables_gen.labels, dumped from the pcf_labels of the source on every run);
   - a task-type timeline: the gid of a task type created in this trace (task_create_pcf_types labels those);
   numeric timelines (TID, PID, task and body ids, app id, rank, number of running threads) are not state types. *)
Theorem C13_values_labelled : forall sx en ms revs st tl,
  In en (sublists all_models) -> s_chans sx = mk_chans en ++ mark_chans ms ->
  run_from sx (init sx) (decode_events en (s_chans sx) revs) = Ok (st, tl) ->
  forall tm l, In (tm, l) tl ->
    exists s, In s (slots sx) /\ key_of sx s = (l_cpu l, l_row l, l_type l) /\ slot_labelled sx (types st) s (l_val l).
Proof. exact values_labelled. Qed.
Print Assumptions C13_values_labelled.

(* the same for any events that only write labelled values, from any state satisfying the invariant *)
Theorem C13_values_labelled_step : forall sx st who ev st' ls,
  StaticOk sx -> ev_ok sx ev -> LInv sx st -> step sx st who ev = Ok (st', ls) ->
  LInv sx st' /\ incl (types st) (types st') /\
  forall l, In l ls -> exists s, In s (slots sx) /\ key_of sx s = (l_cpu l, l_row l, l_type l) /\ slot_labelled sx (types st') s (l_val l).
Proof. exact step_values_labelled. Qed.
Print Assumptions C13_values_labelled_step.

(* the static conditions hold for the channel specs of the current source, for all 256 subsets of models *)
Theorem C13_dumped_specs : forall sx en ms,
  In en (sublists all_models) -> s_chans sx = mk_chans en ++ mark_chans ms -> StaticOk sx /\ tasks_found en (s_chans sx).
Proof. exact specs_of_any_trace. Qed.
Print Assumptions C13_dumped_specs.

(* non-vacuity: a nOS-V thread entering the scheduler shows a non-zero, labelled subsystem value *)
Definition ex_sx : static :=
  {| s_threads := [{| ti_tid := 1; ti_pid := 1; ti_loom := 0; ti_appid := 1; ti_rank := -1 |}];
     s_cpus := [{| ci_virtual := false; ci_loom := 0; ci_index := 0 |}; {| ci_virtual := true; ci_loom := 0; ci_index := -1 |}];
     s_chans := mk_chans [M_OVNI; M_NOSV] ++ mark_chans []; s_lint := false |}.
Definition ex_revs : list raw_event :=
  [(0, 0%nat, (79, 72, 120), [0; 0; 0; 0; 1; 0; 0; 0; 0; 0; 0; 0], false, 0); (5, 0%nat, (86, 83, 104), [], false, 0)].
Example C13_ex : exists st tl,
  run_from ex_sx (init ex_sx) (decode_events [M_OVNI; M_NOSV] (s_chans ex_sx) ex_revs) = Ok (st, tl) /\
  existsb (fun '(tm, l) => negb (l_val l =? 0) && static_chan M_NOSV Tables_gen.c_nosv_CH_SUBSYSTEM &&
                           (l_type l =? cs_type (spec_of ex_sx (chan_of (s_chans ex_sx) M_NOSV Tables_gen.c_nosv_CH_SUBSYSTEM)))) tl = true.
Proof. eexists. eexists. split; vm_compute; reflexivity. Qed.

(* ==== prv.c emit from source (unit prv) ==== *)
(* check_flags of src/emu/pv/prv.c, regenerated on every run into Gen/Prv_gen.v (translate/units/prv.py): it refuses
   exactly the three exclusive pairs, and every flags word the emulator registers - the flags of all model channels
   dumped from the source (Gen/Tables_gen.v), of the mark channels and of the six system channels - is below 32 and
   passes it, so prv_register never fails on its flags and C06_prv_emit_from_source applies to each of them. *)
From OV Require Emu.PrvPre Emu.ChanPre Gen.Prv_gen Proofs.PrvEmitProofs.
Theorem C13_prv_flags_from_source :
  (forall e s n z d,
     PrvEmitProofs.is_ok (PrvPre.exec (Prv_gen.check_flags (PrvEmitProofs.mkflags e s n z d)) tt
        {| PrvPre.rflags := 0; PrvPre.lset := 0; PrvPre.lval := ChanPre.vnull; PrvPre.rrow := 0; PrvPre.rtyp := 0;
           PrvPre.cur := ChanPre.vnull; PrvPre.plines := [] |})
     = negb (e && d) && negb (e && s) && negb (s && d)) /\
  forallb (fun f => (0 <=? f) && (f <? 32) &&
                    PrvEmitProofs.is_ok (PrvPre.exec (Prv_gen.check_flags f) tt
                       {| PrvPre.rflags := 0; PrvPre.lset := 0; PrvPre.lval := ChanPre.vnull; PrvPre.rrow := 0; PrvPre.rtyp := 0;
                          PrvPre.cur := ChanPre.vnull; PrvPre.plines := [] |}))
          PrvEmitProofs.registered_flags = true /\
  (forall sx s, (forall t k, s <> STr t k) -> (forall c k, s <> SCr c k) -> In (flags_of sx s) PrvEmitProofs.registered_flags).
Proof. exact (conj PrvEmitProofs.check_flags_iff (conj PrvEmitProofs.registered_flags_pass PrvEmitProofs.system_flags_registered)). Qed.
Print Assumptions C13_prv_flags_from_source.
(* ==== end of block (unit prv) ==== *)
