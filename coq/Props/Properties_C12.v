(* C12 - Structurally invalid or incomplete traces are rejected, never emulated as ok.
   Only statements here; proofs are in Proofs/StreamProofs.v and Proofs/LoaderEmuProofs.v.

   The model is the REPAIRED code: stream_step with patches/fix-c19-stream-bounds.diff and emu_ev
   with patches/fix-c12-is-jumbo.diff.  "Structurally valid" is the independent format
   specification of Emu/LoaderSpec.v ([valid_obs]: header "ovni"+version 1, then whole events back
   to back up to the end of the file, clocks in order).  The classes "unknown event" and "wrong
   payload size for size-checked events" need the event catalogue of all models, which belongs to
   another engine: they are covered by the end-to-end campaign of lib/checks/c12.py only.
   parson is an oracle: the metadata theorems are about an abstract record of look-up results. *)
From OV Require Import Base.CInt Emu.LoaderPre Gen.Loader_gen Emu.StreamDefs Emu.LoaderSpec Emu.VersionDefs
  Emu.EmuEvDefs Emu.LoaderMetaDefs Proofs.StreamProofs Proofs.LoaderEmuProofs.
Local Open Scope Z_scope.

(* the stream layer accepts a file (reaches End) exactly when it is structurally valid, and then
   delivers exactly its events *)
Theorem C12_accept_iff_valid : forall bs junk unsorted evs,
  blen bs < 2 ^ 63 ->
  (run bs junk unsorted = Run VEnd evs <-> valid_obs bs (negb unsorted) evs).
Proof. exact run_accept_iff. Qed.
Print Assumptions C12_accept_iff_valid.

(* every file that is not structurally valid is rejected with an error *)
Theorem C12_invalid_rejected : forall bs junk unsorted,
  blen bs < 2 ^ 63 -> (forall evs, ~ valid_obs bs (negb unsorted) evs) ->
  rejected_cleanly (run bs junk unsorted) = true.
Proof. exact invalid_rejected. Qed.
Print Assumptions C12_invalid_rejected.

(* ... and never emulated as ok, whatever the handlers do *)
Theorem C12_invalid_never_ok : forall registered enabled handler bs junk,
  blen bs < 2 ^ 63 -> (forall evs, ~ valid_obs bs true evs) ->
  emulate emu_ev registered enabled handler bs junk = FinishedWithErrors.
Proof. exact invalid_never_ok. Qed.
Print Assumptions C12_invalid_never_ok.

(* the classes, one by one *)
Theorem C12_shorter_than_header : forall bs junk u, blen bs < 8 -> exists e, run bs junk u = RunLoadErr e.
Proof. exact short_rejected. Qed.
Print Assumptions C12_shorter_than_header.

Theorem C12_bad_magic : forall bs junk u k,
  (k < 4)%nat -> sbyte bs (Z.of_nat k) <> nth k spec_magic 0 -> exists e, run bs junk u = RunLoadErr e.
Proof. exact bad_magic_rejected. Qed.
Print Assumptions C12_bad_magic.

Theorem C12_bad_version : forall bs junk u, sle bs 4 4 <> 1 -> exists e, run bs junk u = RunLoadErr e.
Proof. exact bad_version_rejected. Qed.
Print Assumptions C12_bad_version.

(* truncated trailing event: the bytes after the header are not a sequence of whole events *)
Theorem C12_not_tiling : forall bs junk u,
  blen bs < 2 ^ 63 -> spec_header_ok bs = true -> (forall evs, ~ tiles_from bs false 8 0 evs) ->
  exists e evs, run bs junk u = Run (VErr e) evs.
Proof. exact not_tiling_rejected. Qed.
Print Assumptions C12_not_tiling.

(* a clock going backwards inside a stream (consumer did not allow unsorted streams) *)
Theorem C12_clock_backwards : forall bs junk evs,
  blen bs < 2 ^ 63 -> tiles_from bs false 8 0 evs -> ~ clocks_sorted 0 evs ->
  rejected_cleanly (run bs junk false) = true.
Proof. exact clock_backwards_rejected. Qed.
Print Assumptions C12_clock_backwards.

(* an event whose handler requires a jumbo event (VYc, 6Yc) but whose jumbo flag is clear *)
Theorem C12_nonjumbo_decoded_nonjumbo : forall prev oev,
  has_jumbo_flag oev = false -> e_is_jumbo (emu_ev prev oev) = false.
Proof. exact emu_ev_not_jumbo. Qed.
Print Assumptions C12_nonjumbo_decoded_nonjumbo.

Theorem C12_nonjumbo_type_create_never_ok : forall registered enabled handler bs junk evs r,
  handler_checks_jumbo handler ->
  run bs junk false = Run VEnd evs -> In r evs ->
  is_type_create (decoded bs junk r) = true ->
  has_jumbo_flag (mk_evp bs (fst (fst r)) junk) = false ->
  emulate emu_ev registered enabled handler bs junk = FinishedWithErrors.
Proof. exact nonjumbo_type_create_never_ok. Qed.
Print Assumptions C12_nonjumbo_type_create_never_ok.

(* the code as found accepted it: is_jumbo carried over from the preceding jumbo event *)
Theorem C12_unfixed_jumbo_flag_refuted :
  exists bs evs r,
    run bs zero_junk false = Run VEnd evs /\ In r evs /\
    is_type_create (decoded bs zero_junk r) = true /\
    has_jumbo_flag (mk_evp bs (fst (fst r)) zero_junk) = false /\
    emulate emu_ev_old [V_MODEL] [V_MODEL] jumbo_checking_handler bs zero_junk = FinishedOk.
Proof. exact old_accepts_nonjumbo_type_create. Qed.
Print Assumptions C12_unfixed_jumbo_flag_refuted.

(* an event of a model the trace did not require (model not enabled) *)
Theorem C12_model_not_enabled : forall registered enabled handler bs junk evs r,
  run bs junk false = Run VEnd evs -> In r evs ->
  mem (e_m (decoded bs junk r)) enabled = false ->
  emulate emu_ev registered enabled handler bs junk = FinishedWithErrors.
Proof. exact not_enabled_never_ok. Qed.
Print Assumptions C12_model_not_enabled.

(* metadata: unparsable, version mismatch, each mandatory attribute *)
Theorem C12_meta_unparsable : forall m a, m_parses m = false -> meta_check m a = MetaErr MUnparsable.
Proof. exact meta_unparsable. Qed.
Print Assumptions C12_meta_unparsable.

Theorem C12_meta_not_object : forall m a, m_is_object m = false -> meta_rejected (meta_check m a) = true.
Proof. exact meta_not_object. Qed.
Print Assumptions C12_meta_not_object.

Theorem C12_meta_no_version : forall m a, m_version m = JMissing -> meta_rejected (meta_check m a) = true.
Proof. exact meta_no_version. Qed.
Print Assumptions C12_meta_no_version.

Theorem C12_meta_version_mismatch : forall m a,
  j_number (m_version m) <> METADATA_VERSION -> meta_rejected (meta_check m a) = true.
Proof. exact meta_version_mismatch. Qed.
Print Assumptions C12_meta_version_mismatch.

Theorem C12_meta_no_part : forall m a, j_string (m_part m) = None -> meta_rejected (meta_check m a) = true.
Proof. exact meta_no_part. Qed.
Print Assumptions C12_meta_no_part.

Theorem C12_meta_no_loom : forall m a, is_thread m -> j_string (m_loom m) = None -> meta_rejected (meta_check m a) = true.
Proof. exact meta_no_loom. Qed.
Print Assumptions C12_meta_no_loom.

Theorem C12_meta_no_pid : forall m a, is_thread m -> j_number (m_pid m) <= 0 -> meta_rejected (meta_check m a) = true.
Proof. exact meta_no_pid. Qed.
Print Assumptions C12_meta_no_pid.

Theorem C12_meta_no_tid : forall m a, is_thread m -> j_number (m_tid m) <= 0 -> meta_rejected (meta_check m a) = true.
Proof. exact meta_no_tid. Qed.
Print Assumptions C12_meta_no_tid.

Theorem C12_meta_not_finished : forall m a, is_thread m -> j_number (m_finished m) <> 1 -> meta_rejected (meta_check m a) = true.
Proof. exact meta_not_finished. Qed.
Print Assumptions C12_meta_not_finished.

Theorem C12_meta_no_require : forall m a, is_thread m -> j_is_object (m_require m) = false -> meta_rejected (meta_check m a) = true.
Proof. exact meta_no_require. Qed.
Print Assumptions C12_meta_no_require.

(* no stream of the process carries ovni.app_id *)
Theorem C12_meta_no_app_id : forall m, is_thread m -> meta_rejected (meta_check m false) = true.
Proof. exact meta_no_app_id. Qed.
Print Assumptions C12_meta_no_app_id.

(* ---- the two classes decided by the handlers (emulator-core model: dispatch of the eight models from the
   tables dumped from the source + the hand-written switches, Emu/DecodeDefs.v, Emu/MarkDefs.v): a trace
   that contains such an event, at ANY position, after any prefix and before any suffix, on any thread, is never
   emulated as ok by the complete model (handlers, propagation, PRV, end-of-trace checks) *)
From OV Require Emu.EmuCoreDefs Emu.DecodeDefs Emu.MarkDefs Emu.CatalogDefs Emu.RejectDefs Proofs.RejectProofs.

(* unknown events: any model/category/value bytes that no model lists (apart from the base model's value-blind
   burst and unordered-region categories and the legacy 6TC), with any payload *)
Theorem C12_unknown_event_never_ok : forall sx lint en cs m c v p j aux pre t who rest,
  CatalogDefs.listed m c v = false -> CatalogDefs.legacy m c v = false -> CatalogDefs.value_blind m c = false ->
  exists w, EmuCoreDefs.run sx lint (pre ++ (t, who, MarkDefs.decode_all en cs m c v p j aux) :: rest) = EmuCoreDefs.Err w.
Proof. exact RejectProofs.unknown_event_never_ok. Qed.
Print Assumptions C12_unknown_event_never_ok.

(* wrong payload sizes for the events whose size the model checks (RejectDefs.wrong_size: OHx < 4, OAs <> 4,
   OAr <> 8, OM[ OM] OM= <> 12, VTc VTC VTx VTe VTr VTp < 8, 6Tc <> 8, 6Tx 6Te 6Tr 6Tp < 4, VYc / 6Yc not jumbo) *)
Theorem C12_wrong_payload_size_never_ok : forall sx lint en cs m c v p j aux pre t who rest,
  RejectDefs.wrong_size m c v (length p) j = true ->
  exists w, EmuCoreDefs.run sx lint (pre ++ (t, who, MarkDefs.decode_all en cs m c v p j aux) :: rest) = EmuCoreDefs.Err w.
Proof. exact RejectProofs.wrong_payload_size_never_ok. Qed.
Print Assumptions C12_wrong_payload_size_never_ok.

(* an OHx with a 3-byte payload, a VYc without the jumbo flag, an OAs with 8 bytes are wrong sizes; the
   regular shapes are not *)
Example C12_ex_wrong_size :
  RejectDefs.wrong_size DecodeDefs.M_OVNI 72 120 3 false = true /\ RejectDefs.wrong_size DecodeDefs.M_OVNI 72 120 16 false = false /\
  RejectDefs.wrong_size DecodeDefs.M_NOSV 89 99 9 false = true /\ RejectDefs.wrong_size DecodeDefs.M_NOSV 89 99 9 true = false /\
  RejectDefs.wrong_size DecodeDefs.M_OVNI 65 115 8 false = true /\ RejectDefs.wrong_size DecodeDefs.M_OVNI 65 115 4 false = false.
Proof. vm_compute. repeat split. Qed.

(* non-vacuity *)
Example C12_ex_valid : valid_obs (hdr ++ [0; 79; 66; 46; 5; 0; 0; 0; 0; 0; 0; 0]) true [(8, 12, 5)].
Proof. apply (tiles_decides _ true). vm_compute. reflexivity. Qed.
Example C12_ex_truncated : tiles (hdr ++ [0; 79; 66; 46; 5; 0; 0; 0; 0; 0; 0]) false = None.
Proof. vm_compute. reflexivity. Qed.
Example C12_ex_backwards :
  tiles (hdr ++ [0; 79; 66; 46; 5; 0; 0; 0; 0; 0; 0; 0] ++ [0; 79; 66; 46; 4; 0; 0; 0; 0; 0; 0; 0]) true = None /\
  tiles (hdr ++ [0; 79; 66; 46; 5; 0; 0; 0; 0; 0; 0; 0] ++ [0; 79; 66; 46; 4; 0; 0; 0; 0; 0; 0; 0]) false = Some [(8, 12, 5); (20, 12, 4)].
Proof. split; vm_compute; reflexivity. Qed.
Example C12_ex_meta : meta_check meta_example true = MetaOk /\ is_thread meta_example.
Proof. split; [exact meta_example_ok|exact meta_example_thread]. Qed.
Example C12_ex_repaired_rejects :
  emulate emu_ev [V_MODEL] [V_MODEL] jumbo_checking_handler (hdr ++ ev_jumbo_VYc ++ ev_plain_VYc) zero_junk = FinishedWithErrors /\
  emulate emu_ev [V_MODEL] [V_MODEL] jumbo_checking_handler (hdr ++ ev_jumbo_VYc) zero_junk = FinishedOk.
Proof. split; [exact new_rejects_that_trace|exact new_accepts_jumbo_type_create]. Qed.

(* ==== payload size guards from source (unit footprint) ==== *)
(* The size guards of the handlers regenerated from the source (Gen/Foot_gen.v, see Properties_C19.v) against
   RejectDefs.wrong_size, for the events whose handlers are translated: OH*, OA*, OM* (model_ovni_event), VT*
   (nosv pre_task), 6T* (nanos6 pre_task).  PARTIAL: VYc / 6Yc (pre_type) are not covered.
   (a) every size wrong_size lists is refused by the generated handler, whatever the rest of the emulator (the
       oracle) does: never accepted;
   (b) a refusal by a guard that looks only at payload_size / is_jumbo (outcome E_SIZE) happens only for a size
       wrong_size lists: the generated guards refuse nothing else. *)
From OV Require Emu.EmuCoreDefs Emu.FootPre Gen.Foot_gen Proofs.FootProofs.
Theorem C12_payload_guards_from_source_partial : forall sx e,
  let n := length (FootPre.f_payload e) in
  ((FootPre.f_m e = DecodeDefs.M_OVNI ->
    RejectDefs.wrong_size DecodeDefs.M_OVNI (FootPre.f_c e) (FootPre.f_v e) n (FootPre.f_jumbo e) = true ->
    FootProofs.nok sx (Foot_gen.model_ovni_event e)) /\
   (RejectDefs.wrong_size DecodeDefs.M_NOSV 84 (FootPre.f_v e) n (FootPre.f_jumbo e) = true -> FootProofs.nok sx (Foot_gen.nosv_pre_task e)) /\
   (RejectDefs.wrong_size DecodeDefs.M_NANOS6 84 (FootPre.f_v e) n (FootPre.f_jumbo e) = true -> FootProofs.nok sx (Foot_gen.nanos6_pre_task e))) /\
  ((FootPre.f_m e = DecodeDefs.M_OVNI -> FootPre.exec (Foot_gen.model_ovni_event e) sx = EmuCoreDefs.Err FootPre.E_SIZE ->
    RejectDefs.wrong_size DecodeDefs.M_OVNI (FootPre.f_c e) (FootPre.f_v e) n (FootPre.f_jumbo e) = true) /\
   (forall v, (v = 99 \/ v = 67) -> Foot_gen.nosv_create_task e v sx tt = EmuCoreDefs.Err FootPre.E_SIZE ->
              RejectDefs.wrong_size DecodeDefs.M_NOSV 84 v n (FootPre.f_jumbo e) = true) /\
   (forall v, (v = 120 \/ v = 101 \/ v = 114 \/ v = 112) -> Foot_gen.nosv_update_task_state e sx tt = EmuCoreDefs.Err FootPre.E_SIZE ->
              RejectDefs.wrong_size DecodeDefs.M_NOSV 84 v n (FootPre.f_jumbo e) = true) /\
   (Foot_gen.nanos6_create_task e sx tt = EmuCoreDefs.Err FootPre.E_SIZE -> RejectDefs.wrong_size DecodeDefs.M_NANOS6 84 99 n (FootPre.f_jumbo e) = true) /\
   (forall v, (v = 120 \/ v = 101 \/ v = 114 \/ v = 112) -> Foot_gen.nanos6_update_task_state e sx tt = EmuCoreDefs.Err FootPre.E_SIZE ->
              RejectDefs.wrong_size DecodeDefs.M_NANOS6 84 v n (FootPre.f_jumbo e) = true)).
Proof. exact (fun sx e => conj (FootProofs.wrong_size_refused sx e) (FootProofs.size_refusal_is_wrong_size sx e)). Qed.
Print Assumptions C12_payload_guards_from_source_partial.
(* ==== end of block (unit footprint) ==== *)

(* ==== stepping functions from source (unit stepper) ==== *)
(* The refusals of the stream layer are those of the C source: stream_step regenerated from src/emu/stream.c
   (Gen/Stepper_gen.v) equals its hand-written reading m_stream_step for every state (first statement), and
   from a state of the walk it returns -1 exactly when StreamDefs.stream_step (the model the C12 stream
   theorems are about) gives an error: offset beyond the size, incomplete event, clock going backwards. *)
From OV Require Emu.StepperPre Gen.Stepper_gen Proofs.StepperProofs Proofs.StreamProofs.

Theorem C12_stream_step_from_source :
  (forall sx st id, (id < length (StepperPre.streams st))%nat ->
     Stepper_gen.stream_step (Some id) sx st = StepperPre.lift_step st id (StepperPre.m_stream_step st id)) /\
  (forall sx st id, (id < length (StepperPre.streams st))%nat ->
     let g := nth id (StepperPre.streams st) StepperPre.g0 in
     StepperProofs.gwf id g -> StreamProofs.inv (StepperProofs.abs g) -> s_size (StepperProofs.abs g) < 2 ^ 63 ->
     ((exists e, stream_step (StepperProofs.abs g) = RErr e) <->
      Stepper_gen.stream_step (Some id) sx st = StepperPre.Fail StepperPre.E_FAIL)).
Proof. exact StepperProofs.stream_refusals_from_source. Qed.
Print Assumptions C12_stream_step_from_source.

(* Loading, from the source: load_obs and check_stream_header are regenerated from src/emu/stream.c (open / close and
   load_stream_fd = fstat + mmap are primitives: the file is the stream's byte buffer, an empty file is refused, size :=
   its length).  The generated load_obs is StreamDefs.load_obs: it fails exactly when the model gives a load error, and
   otherwise leaves the stream with the model's initial cursor.  The three load refusals of this file re-derived for
   the generated code. *)
Theorem C12_stream_load_from_source :
  (forall sx st id path, (id < length (StepperPre.streams st))%nat ->
     let g := nth id (StepperPre.streams st) StepperPre.g0 in
     blen (StepperPre.g_buf g) < 2 ^ 63 ->
     match load_obs (StepperPre.g_buf g) (StepperPre.g_junk g) (negb (StepperPre.g_unsorted g =? 0)) with
     | LoadErr _ => Stepper_gen.load_obs (Some id) path sx st = StepperPre.Fail StepperPre.E_FAIL
     | Loaded s =>
         exists g', Stepper_gen.load_obs (Some id) path sx st = StepperPre.Done tt (StepperPre.put st id g') /\
           (StepperPre.g_cur g = None -> StepperPre.g_lastclock g = 0 -> StepperProofs.abs g' = s) /\
           (StepperPre.g_cur g = None -> StepperPre.g_clkoff g = 0 -> StepperProofs.gwf id g') /\
           StepperPre.g_buf g' = StepperPre.g_buf g /\ StepperPre.g_junk g' = StepperPre.g_junk g
     end) /\
  (forall sx st id path, (id < length (StepperPre.streams st))%nat ->
     let g := nth id (StepperPre.streams st) StepperPre.g0 in
     blen (StepperPre.g_buf g) < 2 ^ 63 ->
     (blen (StepperPre.g_buf g) < 8 \/
      (exists k, (k < 4)%nat /\ sbyte (StepperPre.g_buf g) (Z.of_nat k) <> nth k spec_magic 0) \/
      sle (StepperPre.g_buf g) 4 4 <> 1) ->
     Stepper_gen.load_obs (Some id) path sx st = StepperPre.Fail StepperPre.E_FAIL).
Proof. exact (conj StepperProofs.load_obs_from_source StepperProofs.load_refusals_from_source). Qed.
Print Assumptions C12_stream_load_from_source.
(* ==== end of block (unit stepper) ==== *)

(* ==== metadata gates from source (unit meta) ==== *)
(* The functions a stream.json goes through before any event is emulated - stream.c check_version, system.c is_thread_stream,
   loom.c loom_name, proc.c proc_stream_get_pid / load_appid, thread.c thread_stream_get_tid / thread_load_metadata, model.c
   should_enable - GENERATED from the C source (Gen/Meta_gen.v over Emu/MetaPre.v, parson's look-ups with the meaning of
   Rt/RtMetaDefs.v), called in the order and with the result tests of their C callers (MetaGenProofs.gate_run), accept, ignore
   and refuse a stream's tree exactly as meta_check says on the look-ups of that tree, refusing function for refusing function
   (gate_of: check_version covers the two classes MNoVersion / MVersionMismatch).  Hand-written in gate_run: the parse of the
   file and "top-level value is an object" (load_json), strchr(name, '/') (loom_init_begin), the two string look-ups of
   report_libovni_version (a loop), "some stream of the process has an app id" (proc_init_end). *)
From OV Require Emu.MetaPre Gen.Meta_gen Proofs.MetaGenProofs Rt.RtMetaDefs.
Theorem C12_meta_gates_from_source : forall sx j has_app,
  MetaGenProofs.gate_run sx j has_app = MetaGenProofs.coarse (meta_check (RtMetaDefs.to_loader_meta j) has_app).
Proof. exact MetaGenProofs.gates_from_source. Qed.
Print Assumptions C12_meta_gates_from_source.

Example C12_ex_meta_gates_from_source :
  MetaGenProofs.gate_run (MetaGenProofs.ex_sx []) (RtMetaDefs.jobj MetaGenProofs.ex_fs) true = MetaGenProofs.GateOk /\
  MetaGenProofs.gate_run (MetaGenProofs.ex_sx []) (RtMetaDefs.jobj (MetaGenProofs.ex_with RtMetaDefs.k_finished (RtMetaDefs.jnum 2))) true
    = MetaGenProofs.GateErr MetaGenProofs.GFinished /\
  MetaGenProofs.gate_run (MetaGenProofs.ex_sx []) (RtMetaDefs.jobj (MetaGenProofs.ex_with RtMetaDefs.k_pid (RtMetaDefs.jnum 0))) true
    = MetaGenProofs.GateErr MetaGenProofs.GPid /\
  MetaGenProofs.gate_run (MetaGenProofs.ex_sx []) (RtMetaDefs.jobj (MetaGenProofs.ex_with RtMetaDefs.k_part (RtMetaDefs.jstr [120]))) true
    = MetaGenProofs.GateIgnored.
Proof. repeat split; vm_compute; reflexivity. Qed.
(* ==== end of block (unit meta) ==== *)

(* ==== unknown events from source (unit dispatch) ==== *)
(* See the block of the same name in Properties_C18.v.  Whatever DecodeDefs / MarkDefs decode as a bad event - unknown
   category or value for the model, no table entry, wrong payload size, a non-jumbo type-create event - is refused by the
   dispatch code as generated from the source (model_<m>_event of the event's model, the model enabled), and refused
   without dereferencing NULL: the class "unknown event" of C12_unknown_event_never_ok is a fact about the C. *)
From OV Require Emu.DispatchPre Emu.TaskEvPre Gen.Dispatch_gen Proofs.DispatchProofs Proofs.GuardsProofs.
Theorem C12_unknown_event_from_source : forall sx en marks who th me jumbo aux st m c v p,
  let cs := DecodeDefs.mk_chans en ++ marks in
  nth_error (EmuCoreDefs.threads st) who = Some th -> nth_error (EmuCoreDefs.s_threads sx) who = Some me ->
  EmuCoreDefs.s_chans sx = cs ->
  In m DispatchProofs.all_models -> DecodeDefs.memz m en = true -> (m = DecodeDefs.M_OVNI -> GuardsProofs.GInv sx st) ->
  (exists w, MarkDefs.decode_all en cs m c v p jumbo aux = EmuCoreDefs.EvBad w) ->
  let E := {| DispatchPre.d_te := {| TaskEvPre.te_sx := sx; TaskEvPre.te_cs := cs |}; DispatchPre.d_jumbo := jumbo; DispatchPre.d_aux := aux |} in
  exists e', DispatchProofs.gen_event m (DispatchProofs.mk who m c v p) E (DispatchProofs.W st []) = EmuCoreDefs.Err e' /\
             e' <> DispatchPre.E_TRAP.
Proof. exact DispatchProofs.bad_refused. Qed.
Print Assumptions C12_unknown_event_from_source.
(* ==== end of block (unit dispatch) ==== *)

(* ==== whole-emulator composition (EmuAllDefs) ==== *)
(* EmuAllDefs.ovniemu_model is the COMPOSITION of the models of this tree on a whole trace directory (every stream: relative
   path, bytes of stream.obs, stream.json in the abstract forms the models read; clock-offsets.txt; -l, -a): loader gates,
   stream load + step (this property's model), metadata merge, model probe, mark merge, clock offsets + player, decoding,
   emulator core + Paraver writer.  Its output is Refused why | Files six_byte_strings; it is compared with the real ovniemu
   on whole generated directories by ./check C13.
   C12 on the whole trace: a stream that is not structurally valid to its end (any of the cases of the C12 theorems above), a stream.json the
   loader's gates refuse, or metadata the merge refuses, ANYWHERE in the trace, makes the whole emulation `Refused`: never
   `Files`.  (Unknown events and wrong payload sizes are refused by the core through DecodeDefs: EvBad -> Err, the C12 decode theorems;
   in the composition they surface as Refused (REmu code) - covered by files_means_all_valid: `Files` implies `emulate = Ok`.) *)
From OV Require Emu.EmuAllDefs Proofs.EmuAllProofs.
Theorem C12_all_invalid_refused : forall inp,
  ((exists s, In s (EmuAllDefs.sorted_streams inp) /\
      forall recs, StreamDefs.run (EmuAllDefs.si_obs s) EmuAllDefs.junk0 false <> StreamDefs.Run StreamDefs.VEnd recs) \/
   (exists s, In s (EmuAllDefs.sorted_streams inp) /\
      LoaderMetaDefs.meta_rejected (LoaderMetaDefs.meta_check (EmuAllDefs.si_meta s) (EmuAllDefs.proc_has_app (EmuAllDefs.sorted_streams inp) s)) = true) \/
   (forall sys, MetaDefs.build (map EmuAllDefs.si_smeta (EmuAllDefs.sorted_streams inp)) <> MetaDefs.Ok sys)) ->
  exists why, EmuAllDefs.ovniemu_model inp = EmuAllDefs.Refused why.
Proof. exact EmuAllProofs.invalid_anywhere_refused. Qed.
Print Assumptions C12_all_invalid_refused.
(* ==== end of block (EmuAllDefs) ==== *)

(* ==== unknown events and wrong payload sizes in the whole emulator (EmuAllStage) ==== *)
(* EmuAllStage.stage inp = everything EmuAllDefs.ovniemu_model does before `emulate` (gates, loader, merge, probe, marks, clock
   table, player) and returns the raw events in delivery order; C12_all_model_is_stage_then_emulate: the composed model is
   stage followed by emulate.  Direct form of C12 on the whole trace: if ANY delivered event - each is event number idx of some
   stream as emu_ev decodes it from the bytes (C12_all_events_are_stream_records) - is an unknown event (no model lists its
   code, not value-blind, not legacy) or has a wrong payload size for a size-checked event (RejectDefs.wrong_size), the whole
   emulation is Refused, whatever precedes or follows it, on any thread.  (That every record of every valid stream IS delivered
   is the loss-freeness of the player, C03; it is not composed here.) *)
From OV Require Proofs.EmuAllStage.
Theorem C12_all_model_is_stage_then_emulate : forall inp,
  EmuAllDefs.ovniemu_model inp =
  match EmuAllStage.stage inp with
  | inl w => EmuAllDefs.Refused w
  | inr (sys, en, ms, revs) =>
    match EmuAllStage.stage_emulate inp sys en ms revs with
    | EmuCoreDefs.Ok out => EmuAllDefs.Files out | EmuCoreDefs.Err e => EmuAllDefs.Refused (EmuAllDefs.REmu e) end
  end.
Proof. exact EmuAllStage.model_is_stage_then_emulate. Qed.
Print Assumptions C12_all_model_is_stage_then_emulate.

Theorem C12_all_unknown_or_bad_payload_refused : forall inp sys en ms revs r,
  EmuAllStage.stage inp = inr (sys, en, ms, revs) -> In r revs ->
  EmuAllStage.rev_unknown r \/ EmuAllStage.rev_wrong_size r -> exists e, EmuAllDefs.ovniemu_model inp = EmuAllDefs.Refused (EmuAllDefs.REmu e).
Proof. exact EmuAllStage.unknown_or_bad_payload_refused. Qed.
Print Assumptions C12_all_unknown_or_bad_payload_refused.

Theorem C12_all_events_are_stream_records : forall inp sys en ms revs, EmuAllStage.stage inp = inr (sys, en, ms, revs) ->
  forall r, In r revs -> exists id s recs who tm idx, nth_error (EmuAllDefs.sorted_streams inp) id = Some s /\
    StreamDefs.run (EmuAllDefs.si_obs s) EmuAllDefs.junk0 false = StreamDefs.Run StreamDefs.VEnd recs /\
    EmuAllDefs.gindex_of sys s = Some who /\ EmuAllDefs.raw_event_of (EmuAllDefs.in_gids inp) s recs who tm idx = Some r.
Proof. exact EmuAllStage.stage_events_are_stream_records. Qed.
Print Assumptions C12_all_events_are_stream_records.
(* ==== end of block (EmuAllStage) ==== *)
