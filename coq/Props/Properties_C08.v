(* C08 - Subsystem events nest like a stack and map to documented values in every model.
   Emulator side: raw_apply (chan_push/chan_pop of src/emu/chan.c) driven by the tables dumped from
   src/emu/*/event.c (Gen/Tables_gen.v, regenerated on every run).  Spec: the grammar `hist`. *)
From Coq Require Import ZArith List Bool.
From OV Require Import Emu.EmuCoreDefs Emu.DecodeDefs Emu.StackSpecDefs Emu.TableFactsDefs
  Proofs.EmitProofs Proofs.EmuCoreProofs Proofs.StackProofs.
From OV Require Emu.ChanPre Gen.Chan_gen Proofs.ChanProofs.
Import ListNotations.
Local Open Scope Z_scope.

(* a stack channel accepts a history iff it is well nested (a leave matches the most recent unmatched
   enter), no region is re-entered while it is the innermost open one (unless the channel allows
   duplicates) and at most MAX_CHAN_STACK regions are open; for ALL histories *)
Theorem C08_stack_iff : forall sp evs,
  cs_stack sp = true ->
  (exists r', chan_run sp (empty_stack_chan sp) evs = Some r') <->
  (exists o, hist evs o /\ entries_ok (cs_dup sp) evs).
Proof. exact stack_channel_iff. Qed.
Print Assumptions C08_stack_iff.

(* after an accepted history the channel holds exactly the open regions and shows the innermost one *)
Theorem C08_top_is_innermost : forall sp evs r',
  cs_stack sp = true ->
  chan_run sp (empty_stack_chan sp) evs = Some r' ->
  hist evs (r_stk r') /\ raw_read sp r' = hd_error (r_stk r').
Proof. exact stack_channel_top. Qed.
Print Assumptions C08_top_is_innermost.

(* "the timeline shows ..." at EVERY instant: acceptance is prefix closed and after every prefix of an accepted
   history the channel holds the regions that prefix leaves open and shows the innermost one *)
Theorem C08_every_instant : forall sp p q r',
  cs_stack sp = true ->
  chan_run sp (empty_stack_chan sp) (p ++ q) = Some r' ->
  exists rp, chan_run sp (empty_stack_chan sp) p = Some rp /\
             hist p (r_stk rp) /\ raw_read sp rp = hd_error (r_stk rp).
Proof. exact stack_channel_every_instant. Qed.
Print Assumptions C08_every_instant.

(* a refused history stays refused whatever follows: one improper leave or re-entry rejects the trace *)
Theorem C08_refusal_is_final : forall sp p q,
  chan_run sp (empty_stack_chan sp) p = None -> chan_run sp (empty_stack_chan sp) (p ++ q) = None.
Proof. exact stack_channel_refusal_is_final. Qed.
Print Assumptions C08_refusal_is_final.

(* inside the emulator core a table-driven event on channel k of a thread is that channel operation *)
Theorem C08_event_is_channel_op : forall sx st who k a v,
  (who < length (threads st))%nat -> (k < length (s_chans sx))%nat ->
  (k < length (t_raw (nth who (threads st) dummy_thread)))%nat ->
  match chan_step sx st who k a v with
  | Ok (st', d) => exists b, raw_apply (spec_of sx k) (raw_of st who k) a v = Ok (raw_of st' who k, b) /\
                             d = (if b then [(who, k)] else [])
  | Err e => raw_apply (spec_of sx k) (raw_of st who k) a v = Err e
  end.
Proof. exact chan_step_spec. Qed.
Print Assumptions C08_event_is_channel_op.

(* the thread must be in the state the model requires (1 running, 2 active, 4 active and in CPU) *)
Theorem C08_thread_state_required : forall sx st who th k a v need,
  nth_error (threads st) who = Some th ->
  ((need = 1 /\ is_running (t_state th) = false) \/
   (need = 2 /\ is_active (t_state th) = false) \/
   (need = 4 /\ (is_active (t_state th) = false \/ t_ooc th = true))) ->
  exists e, core_step sx st who (EvChan k a v need) = Err e.
Proof. exact need_refused. Qed.
Print Assumptions C08_thread_state_required.

(* lint mode rejects a trace that ends with an open region *)
Theorem C08_lint : forall sx lintchans evs st tl,
  run_from sx (init sx) evs = Ok (st, tl) -> s_lint sx = true -> lint_ok sx lintchans st = false ->
  exists e, run sx lintchans evs = Err e.
Proof. exact lint_rejects. Qed.
Print Assumptions C08_lint.

(* whole-table facts (the tables are the ones compiled from the current source):
   every PAIR of the event list decodes to enter/leave of one channel with one value (or is the
   flush set/clear pair, or a pair the model ignores); every pushed value has exactly one pushing and one
   popping event; every value has a label; no value is 0 *)
Theorem C08_tables_consistent :
  pairs_okb && table_pairing_okb && table_labels_okb && table_nonzero_okb = true.
Proof. vm_compute. reflexivity. Qed.
Print Assumptions C08_tables_consistent.

(* non-vacuity *)
Definition sp_ns : chanspec := nth 0 (mk_chans [M_NODES]) null_spec.
Example C08_ex_accepts : exists r', chan_run sp_ns (empty_stack_chan sp_ns) [Enter 3; Enter 4; Leave 4; Enter 5; Leave 5; Leave 3; Enter 3] = Some r'.
Proof. eexists. vm_compute. reflexivity. Qed.
Example C08_ex_wrong_leave : chan_run sp_ns (empty_stack_chan sp_ns) [Enter 3; Enter 4; Leave 3] = None.
Proof. vm_compute. reflexivity. Qed.
Example C08_ex_reenter : chan_run sp_ns (empty_stack_chan sp_ns) [Enter 3; Enter 3] = None.
Proof. vm_compute. reflexivity. Qed.
Example C08_ex_hist : hist [Enter 3; Enter 4; Leave 4; Enter 5] [5; 3].
Proof. apply (h_open 3 [Enter 4; Leave 4; Enter 5] [5]). apply (h_closed 4 [] [Enter 5] [5]); [constructor|]. apply (h_open 5 [] []). constructor. Qed.

(* ---------------------------------------------------------------------------------------------
   The tie to the source.  Gen/Chan_gen.v is regenerated on every run by translate/units/chan.py from
   src/emu/chan.c (set_dirty, chan_set, chan_push, chan_pop, get_value, chan_flush, chan_dirty, chan_prop_set/get)
   and chan.h (chan_read), statement by statement, over the channel record of Emu/ChanPre.v.
   ChanProofs.Rep sp c r : the C channel c is a raw model channel of spec sp holding r (type and properties as
   model_thread.c sets them: CHAN_ALLOW_DUP = the dup bit, CHAN_DIRTY_WRITE = CHAN_IGNORE_DUP = 0; the first n
   entries of the stack array = the model's stack; data.value = the model's value).
   ChanProofs.Clean sp c r : the channel was flushed since its last write (is_dirty = 0, last_value = the value
   it shows).  This is the one hypothesis that relates the C's dirty bit / last_value to the model, which has
   neither: the model compares with the value shown, the C with the value at the last flush, and the C refuses a
   second write before the flush.  The generated chan_flush re-establishes it (second theorem); that the emulator
   writes a raw channel at most once between two flushes is part of the propagation abstraction (C06), not a lemma.
   ChanProofs.op_rel : refused by the model <-> the generated function returns -1 (never a NULL dereference);
   accepted with r' <-> the generated function succeeds, leaves a channel that represents r', dirty, with
   last_value untouched, having called the dirty callback once if there is one. *)
Theorem C08_chan_ops_from_source : forall sp sx st r,
  ChanProofs.Rep sp (ChanPre.ch st) r -> ChanProofs.Clean sp (ChanPre.ch st) r -> ChanProofs.cb_ok sx (ChanPre.ch st) ->
  (forall v, ChanProofs.op_rel sp sx st (Chan_gen.chan_push (Some tt) (ChanProofs.inj (Some v))) (raw_apply sp r PUSH (Some v))) /\
  (forall v, ChanProofs.op_rel sp sx st (Chan_gen.chan_pop (Some tt) (ChanProofs.inj (Some v))) (raw_apply sp r POP (Some v))) /\
  (forall ov, ChanProofs.op_rel sp sx st (Chan_gen.chan_set (Some tt) (ChanProofs.inj ov)) (raw_apply sp r SET ov)) /\
  ChanPre.exec (Chan_gen.chan_read (Some tt) (Some ChanPre.LOut)) sx st =
    Ok {| ChanPre.ch := ChanPre.ch st; ChanPre.out := ChanProofs.inj (raw_read sp r); ChanPre.ncb := ChanPre.ncb st |}.
Proof. exact ChanProofs.chan_ops_eq. Qed.
Print Assumptions C08_chan_ops_from_source.

(* chan_flush on the dirty channel an operation leaves: same content, clean again *)
Theorem C08_chan_flush_from_source : forall sp sx st r,
  ChanProofs.Rep sp (ChanPre.ch st) r -> ChanPre.is_dirty (ChanPre.ch st) = 1 ->
  exists st', ChanPre.exec (Chan_gen.chan_flush (Some tt)) sx st = Ok st' /\
              ChanProofs.Rep sp (ChanPre.ch st') r /\ ChanProofs.Clean sp (ChanPre.ch st') r /\
              ChanPre.has_cb (ChanPre.ch st') = ChanPre.has_cb (ChanPre.ch st) /\
              ChanPre.out st' = ChanPre.out st /\ ChanPre.ncb st' = ChanPre.ncb st.
Proof. exact ChanProofs.chan_flush_eq. Qed.
Print Assumptions C08_chan_flush_from_source.

(* hence, with C08_stack_iff: starting from the channel chan_init creates, the generated chan_push / chan_pop (each
   followed by the generated chan_flush) accept a history iff it is well nested, no innermost region is re-entered
   (unless duplicates are allowed) and at most MAX_CHAN_STACK regions are open.  No hypothesis is left. *)
Theorem C08_generated_stack_iff : forall sp sx evs,
  cs_stack sp = true ->
  (exists st', ChanProofs.gen_chan_run sx (ChanProofs.st0 sp) evs = Some st') <->
  (exists o, hist evs o /\ entries_ok (cs_dup sp) evs).
Proof. exact (fun sp sx evs Es => iff_trans (ChanProofs.gen_chan_accepts sp sx evs Es) (stack_channel_iff sp evs Es)). Qed.
Print Assumptions C08_generated_stack_iff.

(* the generated functions evaluated on the 512-entry channel of the NODES subsystem channel *)
Example C08_ex_generated :
  map (fun evs => match ChanProofs.gen_chan_run {| ChanPre.cb_ret := 0 |} (ChanProofs.st0 sp_ns) evs with
                  | Some st => Some (ChanPre.sn (ChanPre.ch st), ChanPre.vi (ChanPre.last_value (ChanPre.ch st)))
                  | None => None
                  end)
      [[Enter 3; Enter 4; Leave 4; Enter 5]; [Enter 3; Enter 4; Leave 3]; [Enter 3; Enter 3]; [Leave 3]]
  = [Some (2, 5); None; None; None].
Proof. vm_compute. reflexivity. Qed.

(* ==== table events from source (unit dispatch) ==== *)
(* See the block of the same name in Properties_C18.v.  For the six table-driven models: an event (m, c, v) whose
   category the handler passes to its table and whose entry is (ch, a, x) is handled by the generated code exactly as
   core_step handles EvChan k a (Some x) (need_of m), k the position of channel ch of model m: the thread-state
   requirement of the model (C08_thread_state_required), then chan_step = raw_apply on that channel with that value
   (C08_event_is_channel_op, C08_chan_ops_from_source) - same accepted state and written channel, or both refuse. *)
From OV Require Emu.DispatchPre Emu.TaskEvPre Gen.Dispatch_gen Proofs.DispatchProofs.
Theorem C08_table_events_from_source : forall sx en marks who th me jumbo aux st m c v p ch a x k,
  let cs := mk_chans en ++ marks in
  nth_error (threads st) who = Some th -> nth_error (s_threads sx) who = Some me -> s_chans sx = cs ->
  In m DispatchProofs.table_models -> memz m en = true ->
  ((m = M_NOSV \/ m = M_NANOS6) -> c <> 84 /\ c <> 89) ->
  match cats m with Some l => memz c l | None => true end = true ->
  table_lookup Tables_gen.table m c v = Some (ch, a, x) -> chan_pos cs m ch = Some k ->
  let E := {| DispatchPre.d_te := {| TaskEvPre.te_sx := sx; TaskEvPre.te_cs := cs |}; DispatchPre.d_jumbo := jumbo; DispatchPre.d_aux := aux |} in
  match core_step sx st who (EvChan k (conv_action a) (Some x) (need_of m)) with
  | Ok (st', d) => DispatchProofs.gen_event m (DispatchProofs.mk who m c v p) E (DispatchProofs.W st []) = Ok (tt, DispatchProofs.W st' d)
  | Err _ => exists e', DispatchProofs.gen_event m (DispatchProofs.mk who m c v p) E (DispatchProofs.W st []) = Err e' /\
                        e' <> DispatchPre.E_TRAP
  end.
Proof. exact DispatchProofs.table_events_from_source. Qed.
Print Assumptions C08_table_events_from_source.
(* ==== end of block (unit dispatch) ==== *)
