(* C17 - placeholder statement until the proofs are in. *)
From OV Require Import Base.CInt Emu.MarkDefs.
Theorem C17_runtime_total : forall s c, (exists s', rt_call s c = Ret s') \/ rt_call s c = Die.
Proof. intros. destruct (rt_call s c); [left; eexists; reflexivity|right; reflexivity]. Qed.
Print Assumptions C17_runtime_total.
