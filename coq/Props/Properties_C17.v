(* C17 - Mark API end-to-end: marks set at runtime appear as the documented timelines.
   Runtime model: rt_call (src/rt/ovni.c ovni_mark_type/label/push/pop/set); emulator: merge_def /
   decode_mark / mark_chans (src/emu/ovni/mark.c).  The mark channels are ordinary channel specs of the
   emulator-core model (stack or single, duplicates allowed, tracked ACTIVE on thread rows and RUNNING
   on CPU rows, PRV type 100 + mark type, SKIPDUPNULL), so the timeline theorem of C06 applies to them. *)
From Coq Require Import ZArith List Bool.
From OV Require Import Base.CInt Emu.EmuCoreDefs Emu.DecodeDefs Emu.MarkDefs Proofs.EmitProofs Proofs.EmuCoreProofs
  Proofs.EmuCoreWf Proofs.MarkProofs Proofs.StackProofs Emu.StackSpecDefs.
Import ListNotations.
Local Open Scope Z_scope.

(* --- refused at run time *)
Theorem C17_runtime_zero_value : forall s t,
  rt_call s (MPush t 0) = Die /\ rt_call s (MPop t 0) = Die /\ rt_call s (MSet t 0) = Die.
Proof. exact rt_zero_value_refused. Qed.
Print Assumptions C17_runtime_zero_value.

Theorem C17_runtime_type_range : forall s t stack title, (t < 0 \/ 100 <= t) -> rt_call s (MType t stack title) = Die.
Proof. exact rt_type_range_refused. Qed.
Print Assumptions C17_runtime_type_range.

Theorem C17_runtime_empty_title : forall s t stack,
  rt_call s (MType t stack None) = Die /\ rt_call s (MType t stack (Some [])) = Die.
Proof. exact rt_empty_title_refused. Qed.
Print Assumptions C17_runtime_empty_title.

Theorem C17_runtime_redefinition : forall s t stack title d,
  find_def (rt_defs s) t = Some d -> rt_call s (MType t stack title) = Die.
Proof. exact rt_redefinition_refused. Qed.
Print Assumptions C17_runtime_redefinition.

Theorem C17_runtime_label_of_undefined_type : forall s t v l,
  find_def (rt_defs s) t = None -> rt_call s (MLabel t v l) = Die.
Proof. exact rt_label_undefined_type_refused. Qed.
Print Assumptions C17_runtime_label_of_undefined_type.

(* --- an accepted call writes exactly its event (push/pop/set) or only metadata (type/label) *)
Theorem C17_runtime_emits : forall s c s', rt_call s c = Ret s' ->
  match c with
  | MPush t v => rt_events s' = rt_events s ++ [(91, v, t)] /\ rt_defs s' = rt_defs s /\ v <> 0
  | MPop t v => rt_events s' = rt_events s ++ [(93, v, t)] /\ rt_defs s' = rt_defs s /\ v <> 0
  | MSet t v => rt_events s' = rt_events s ++ [(61, v, t)] /\ rt_defs s' = rt_defs s /\ v <> 0
  | _ => rt_events s' = rt_events s
  end.
Proof. exact rt_emit. Qed.
Print Assumptions C17_runtime_emits.

(* --- definitions of different threads: conflicts are refused in emulation, agreement merges *)
Theorem C17_title_conflict : forall acc d m,
  0 <= md_type d < 100 -> find_mt acc (md_type d) = Some m -> mt_title m <> md_title d -> merge_def acc d = None.
Proof. exact merge_title_conflict. Qed.
Print Assumptions C17_title_conflict.

Theorem C17_chan_type_conflict : forall acc d m,
  find_mt acc (md_type d) = Some m -> mt_stack m <> md_stack d -> merge_def acc d = None.
Proof. exact merge_chan_type_conflict. Qed.
Print Assumptions C17_chan_type_conflict.

Theorem C17_label_conflict : forall acc d m v s s',
  find_mt acc (md_type d) = Some m -> lookup_label (mt_labels m) v = Some s' -> In (v, s) (md_labels d) -> s <> s' ->
  merge_def acc d = None.
Proof. exact merge_label_conflict. Qed.
Print Assumptions C17_label_conflict.

Theorem C17_conflict_fails_whole_merge : forall ds1 d ds2 acc acc',
  merge_defs acc ds1 = Some acc' -> merge_def acc' d = None -> merge_defs acc (ds1 ++ d :: ds2) = None.
Proof. exact merge_defs_prefix_none. Qed.
Print Assumptions C17_conflict_fails_whole_merge.

Theorem C17_agreeing_definitions_merge : forall acc d m,
  0 <= md_type d < 100 ->
  find_mt acc (md_type d) = Some m -> mt_title m = md_title d -> mt_stack m = md_stack d ->
  (forall v s, In (v, s) (md_labels d) -> lookup_label (mt_labels m) v = Some s) ->
  merge_def acc d = Some acc.
Proof. exact merge_agreeing_definition. Qed.
Print Assumptions C17_agreeing_definitions_merge.

(* --- refused in emulation: undefined type, zero value, wrong payload, push on single / set on stack,
       mismatched pop (the stack theorem of C08 with duplicates allowed) *)
Theorem C17_emu_undefined_type : forall cs v p,
  length p = 12%nat -> chan_pos cs MARK_MODEL (le_i32 p 8) = None -> decode_mark cs v p = EvBad E_UNKNOWN.
Proof. exact decode_mark_undefined_type. Qed.
Print Assumptions C17_emu_undefined_type.

Theorem C17_emu_zero_value : forall cs v p k,
  length p = 12%nat -> chan_pos cs MARK_MODEL (le_i32 p 8) = Some k -> le_i64 p 0 = 0 -> decode_mark cs v p = EvBad E_PAYLOAD.
Proof. exact decode_mark_zero_value. Qed.
Print Assumptions C17_emu_zero_value.

Theorem C17_emu_push_on_single : forall sp r v, cs_stack sp = false -> exists e, raw_apply sp r PUSH (Some v) = Err e.
Proof. exact push_on_single_refused. Qed.
Print Assumptions C17_emu_push_on_single.

Theorem C17_emu_set_on_stack : forall sp r v, cs_stack sp = true -> exists e, raw_apply sp r SET v = Err e.
Proof. exact set_on_stack_refused. Qed.
Print Assumptions C17_emu_set_on_stack.

Theorem C17_emu_pops_must_match : forall sp evs,
  cs_stack sp = true ->
  (exists r', chan_run sp (empty_stack_chan sp) evs = Some r') <-> (exists o, hist evs o /\ entries_ok (cs_dup sp) evs).
Proof. exact stack_channel_iff. Qed.
Print Assumptions C17_emu_pops_must_match.

(* --- where they are shown: every mark channel is tracked ACTIVE on thread rows and RUNNING on CPU rows,
       under PRV type 100 + mark type; C06_tracked_rows then gives the rows at every instant *)
Theorem C17_mark_channels : forall ms sp, In sp (mark_chans ms) ->
  cs_thtrack sp = TRACK_ACT /\ cs_cputrack sp = TRACK_RUN /\ cs_flags sp = PRV_SKIPDUPNULL /\ cs_dup sp = true /\
  exists m, In m ms /\ cs_type sp = 100 + mt_type m /\ cs_stack sp = mt_stack m.
Proof. exact mark_chans_props. Qed.
Print Assumptions C17_mark_channels.

Theorem C17_rows : forall sx evs1 evs2 st tl,
  types_ok sx -> any_init_ok sx ->
  run_from sx (init sx) (evs1 ++ evs2) = Ok (st, tl) ->
  exists st1 tl1, run_from sx (init sx) evs1 = Ok (st1, tl1) /\
    forall k, (k < length (s_chans sx))%nat ->
      let sp := spec_of sx k in
      let ls := lines_of tl1 in
      (forall t, (t < length (s_threads sx))%nat ->
         shown ls (false, t, cs_type sp) =
         printed (cs_flags sp) (if mode_ok (cs_thtrack sp) (thread_state_of st1 t) then raw_read sp (raw_of st1 t k) else None)) /\
      (forall c, (c < length (s_cpus sx))%nat ->
         match th_running st1 c with
         | Some t => shown ls (true, c, cs_type sp) = printed (cs_flags sp) (raw_read sp (raw_of st1 t k))
         | None => shown ls (true, c, cs_type sp) = printed (cs_flags sp) (cs_cpudef sp) \/ shown ls (true, c, cs_type sp) = 0
         end).
Proof. exact tracked_rows. Qed.
Print Assumptions C17_rows.

(* non-vacuity: two threads define type 3 identically (second adds a label), a third conflicts *)
Definition d1 := {| md_type := 3; md_title := [112]; md_stack := true; md_labels := [(1, [97])] |}.
Definition d2 := {| md_type := 3; md_title := [112]; md_stack := true; md_labels := [(1, [97]); (2, [98])] |}.
Definition d3 := {| md_type := 3; md_title := [113]; md_stack := true; md_labels := [] |}.
Example C17_ex_merge : merge_threads [[d1]; [d2]] = Some [{| mt_type := 3; mt_title := [112]; mt_stack := true; mt_labels := [(1, [97]); (2, [98])] |}].
Proof. vm_compute. reflexivity. Qed.
Example C17_ex_conflict : merge_threads [[d1]; [d3]] = None.
Proof. vm_compute. reflexivity. Qed.
Example C17_ex_types_ok :
  types_okb (mk_chans [M_OVNI; M_NOSV] ++ mark_chans [{| mt_type := 3; mt_title := [112]; mt_stack := true; mt_labels := [] |}]) = true.
Proof. vm_compute. reflexivity. Qed.
