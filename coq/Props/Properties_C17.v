(* C17 - Mark API end-to-end: marks set at runtime appear as the documented timelines.
   Runtime model: rt_call (src/rt/ovni.c ovni_mark_type/label/push/pop/set); emulator: merge_def /
   decode_mark / mark_chans (src/emu/ovni/mark.c).  The mark channels are ordinary channel specs of the
   emulator-core model (stack or single, duplicates allowed, tracked ACTIVE on thread rows and RUNNING
   on CPU rows, PRV type 100 + mark type, SKIPDUPNULL), so the timeline theorem of C06 applies to them. *)
From Coq Require Import ZArith List Bool.
From OV Require Import Base.CInt Emu.EmuCoreDefs Emu.DecodeDefs Emu.MarkDefs Proofs.EmitProofs Proofs.EmuCoreProofs
  Proofs.EmuCoreWf Proofs.MarkProofs Proofs.StackProofs Emu.StackSpecDefs.
From OV Require Rt.RtMetaDefs Rt.MarkJsonDefs Proofs.MarkJsonProofs.
Import ListNotations.
Local Open Scope Z_scope.

(* --- refused at run time *)
Theorem C17_runtime_zero_value : forall s t,
  rt_call s (MPush t 0) = Die /\ rt_call s (MPop t 0) = Die /\ rt_call s (MSet t 0) = Die.
Proof. exact rt_zero_value_refused. Qed.
Print Assumptions C17_runtime_zero_value.

Theorem C17_runtime_type_range : forall s t stack title, (t < 0 \/ 100 <= t) -> rt_call s (MType t stack title) = Die.
Proof. exact rt_type_range_refused. Qed.
Print Assumptions C17_runtime_type_range.

Theorem C17_runtime_empty_title : forall s t stack,
  rt_call s (MType t stack None) = Die /\ rt_call s (MType t stack (Some [])) = Die.
Proof. exact rt_empty_title_refused. Qed.
Print Assumptions C17_runtime_empty_title.

Theorem C17_runtime_redefinition : forall s t stack title d,
  find_def (rt_defs s) t = Some d -> rt_call s (MType t stack title) = Die.
Proof. exact rt_redefinition_refused. Qed.
Print Assumptions C17_runtime_redefinition.

Theorem C17_runtime_label_of_undefined_type : forall s t v l,
  find_def (rt_defs s) t = None -> rt_call s (MLabel t v l) = Die.
Proof. exact rt_label_undefined_type_refused. Qed.
Print Assumptions C17_runtime_label_of_undefined_type.

(* --- an accepted call writes exactly its event (push/pop/set) or only metadata (type/label) *)
Theorem C17_runtime_emits : forall s c s', rt_call s c = Ret s' ->
  match c with
  | MPush t v => rt_events s' = rt_events s ++ [(91, v, t)] /\ rt_defs s' = rt_defs s /\ v <> 0
  | MPop t v => rt_events s' = rt_events s ++ [(93, v, t)] /\ rt_defs s' = rt_defs s /\ v <> 0
  | MSet t v => rt_events s' = rt_events s ++ [(61, v, t)] /\ rt_defs s' = rt_defs s /\ v <> 0
  | _ => rt_events s' = rt_events s
  end.
Proof. exact rt_emit. Qed.
Print Assumptions C17_runtime_emits.

(* --- definitions of different threads: conflicts are refused in emulation, agreement merges *)
Theorem C17_title_conflict : forall acc d m,
  0 <= md_type d < 100 -> find_mt acc (md_type d) = Some m -> mt_title m <> md_title d -> merge_def acc d = None.
Proof. exact merge_title_conflict. Qed.
Print Assumptions C17_title_conflict.

Theorem C17_chan_type_conflict : forall acc d m,
  find_mt acc (md_type d) = Some m -> mt_stack m <> md_stack d -> merge_def acc d = None.
Proof. exact merge_chan_type_conflict. Qed.
Print Assumptions C17_chan_type_conflict.

Theorem C17_label_conflict : forall acc d m v s s',
  find_mt acc (md_type d) = Some m -> lookup_label (mt_labels m) v = Some s' -> In (v, s) (md_labels d) -> s <> s' ->
  merge_def acc d = None.
Proof. exact merge_label_conflict. Qed.
Print Assumptions C17_label_conflict.

Theorem C17_conflict_fails_whole_merge : forall ds1 d ds2 acc acc',
  merge_defs acc ds1 = Some acc' -> merge_def acc' d = None -> merge_defs acc (ds1 ++ d :: ds2) = None.
Proof. exact merge_defs_prefix_none. Qed.
Print Assumptions C17_conflict_fails_whole_merge.

Theorem C17_agreeing_definitions_merge : forall acc d m,
  0 <= md_type d < 100 ->
  find_mt acc (md_type d) = Some m -> mt_title m = md_title d -> mt_stack m = md_stack d ->
  (forall v s, In (v, s) (md_labels d) -> lookup_label (mt_labels m) v = Some s) ->
  merge_def acc d = Some acc.
Proof. exact merge_agreeing_definition. Qed.
Print Assumptions C17_agreeing_definitions_merge.

(* --- refused in emulation: undefined type, zero value, wrong payload, push on single / set on stack,
       mismatched pop (the stack theorem of C08 with duplicates allowed) *)
Theorem C17_emu_undefined_type : forall cs v p,
  length p = 12%nat -> chan_pos cs MARK_MODEL (le_i32 p 8) = None -> decode_mark cs v p = EvBad E_UNKNOWN.
Proof. exact decode_mark_undefined_type. Qed.
Print Assumptions C17_emu_undefined_type.

Theorem C17_emu_zero_value : forall cs v p k,
  length p = 12%nat -> chan_pos cs MARK_MODEL (le_i32 p 8) = Some k -> le_i64 p 0 = 0 -> decode_mark cs v p = EvBad E_PAYLOAD.
Proof. exact decode_mark_zero_value. Qed.
Print Assumptions C17_emu_zero_value.

Theorem C17_emu_push_on_single : forall sp r v, cs_stack sp = false -> exists e, raw_apply sp r PUSH (Some v) = Err e.
Proof. exact push_on_single_refused. Qed.
Print Assumptions C17_emu_push_on_single.

Theorem C17_emu_set_on_stack : forall sp r v, cs_stack sp = true -> exists e, raw_apply sp r SET v = Err e.
Proof. exact set_on_stack_refused. Qed.
Print Assumptions C17_emu_set_on_stack.

Theorem C17_emu_pops_must_match : forall sp evs,
  cs_stack sp = true ->
  (exists r', chan_run sp (empty_stack_chan sp) evs = Some r') <-> (exists o, hist evs o /\ entries_ok (cs_dup sp) evs).
Proof. exact stack_channel_iff. Qed.
Print Assumptions C17_emu_pops_must_match.

(* --- where they are shown: every mark channel is tracked ACTIVE on thread rows and RUNNING on CPU rows,
       under PRV type 100 + mark type; C06_tracked_rows then gives the rows at every instant *)
Theorem C17_mark_channels : forall ms sp, In sp (mark_chans ms) ->
  cs_thtrack sp = TRACK_ACT /\ cs_cputrack sp = TRACK_RUN /\ cs_flags sp = PRV_SKIPDUPNULL /\ cs_dup sp = true /\
  exists m, In m ms /\ cs_type sp = 100 + mt_type m /\ cs_stack sp = mt_stack m.
Proof. exact mark_chans_props. Qed.
Print Assumptions C17_mark_channels.

Theorem C17_rows : forall sx evs1 evs2 st tl,
  types_ok sx -> any_init_ok sx ->
  run_from sx (init sx) (evs1 ++ evs2) = Ok (st, tl) ->
  exists st1 tl1, run_from sx (init sx) evs1 = Ok (st1, tl1) /\
    forall k, (k < length (s_chans sx))%nat ->
      let sp := spec_of sx k in
      let ls := lines_of tl1 in
      (forall t, (t < length (s_threads sx))%nat ->
         shown ls (false, t, cs_type sp) =
         printed (cs_flags sp) (if mode_ok (cs_thtrack sp) (thread_state_of st1 t) then raw_read sp (raw_of st1 t k) else None)) /\
      (forall c, (c < length (s_cpus sx))%nat ->
         match th_running st1 c with
         | Some t => shown ls (true, c, cs_type sp) = printed (cs_flags sp) (raw_read sp (raw_of st1 t k))
         | None => shown ls (true, c, cs_type sp) = printed (cs_flags sp) (cs_cpudef sp) \/ shown ls (true, c, cs_type sp) = 0
         end).
Proof. exact tracked_rows. Qed.
Print Assumptions C17_rows.

(* non-vacuity: two threads define type 3 identically (second adds a label), a third conflicts *)
Definition d1 := {| md_type := 3; md_title := [112]; md_stack := true; md_labels := [(1, [97])] |}.
Definition d2 := {| md_type := 3; md_title := [112]; md_stack := true; md_labels := [(1, [97]); (2, [98])] |}.
Definition d3 := {| md_type := 3; md_title := [113]; md_stack := true; md_labels := [] |}.
Example C17_ex_merge : merge_threads [[d1]; [d2]] = Some [{| mt_type := 3; mt_title := [112]; mt_stack := true; mt_labels := [(1, [97]); (2, [98])] |}].
Proof. vm_compute. reflexivity. Qed.
Example C17_ex_conflict : merge_threads [[d1]; [d3]] = None.
Proof. vm_compute. reflexivity. Qed.
Example C17_ex_types_ok :
  types_okb (mk_chans [M_OVNI; M_NOSV] ++ mark_chans [{| mt_type := 3; mt_title := [112]; mt_stack := true; mt_labels := [] |}]) = true.
Proof. vm_compute. reflexivity. Qed.

(* ====================================================================================================
   The JSON leg (Rt/MarkJsonDefs.v on the parson model of Rt/RtMetaDefs.v): what ovni_mark_type / ovni_mark_label
   write under "ovni.mark" of the thread's stream.json and what mark.c reads back. *)
Module J.
Import RtMetaDefs MarkJsonDefs MarkJsonProofs.

(* B.1  every sequence of mark calls of a thread, started on a tree in which "ovni" is an object without "mark"
   (the tree ovni_thread_init leaves: C17_thread_init_tree): the tree calls abort exactly when rt_call does, and
   the emulator-side reader returns rt_defs - types in definition order, titles, stack flags, labels in order.
   call_typed: the arguments are int32_t / int64_t; call_fits: titles and labels shorter than MAX_PCF_LABEL (512),
   the emulator refuses longer ones (C17_malformed_mark_metadata_refused, bad_title_long / bad_label_long). *)
Theorem C17_mark_metadata_roundtrip : forall fs0 cs,
  base_tree fs0 -> forallb call_typed cs = true ->
  match rt_calls rtm_init cs with
  | Die => tree_calls fs0 cs = None
  | Ret s => exists fs, tree_calls fs0 cs = Some fs /\
             (forallb call_fits cs = true -> parse_mark_json (jobj fs) = Some (rt_defs s) /\ thread_defs_of_tree (jobj fs) = rt_defs s)
  end.
Proof. exact mark_metadata_roundtrip. Qed.
Print Assumptions C17_mark_metadata_roundtrip.

Theorem C17_thread_init_tree : forall c s th tid s' w obs, t_ready (tget (st_threads s) th) = false ->
  step c s th (ThreadInit tid) = ODone s' w obs -> base_tree (t_meta (tget (st_threads s') th)).
Proof. exact init_base. Qed.
Print Assumptions C17_thread_init_tree.

(* the calls of the metadata state machine (what the rtmeta correspondence runs) are these tree calls *)
Theorem C17_mark_calls_in_state_machine : forall c s th t flags title, m_in_dom (MMarkType t flags title) = true ->
  attr_gate (tget (st_threads s) th) = true ->
  mstep c s th (MMarkType t flags title) =
  match tree_call (t_meta (tget (st_threads s) th)) (MType t (stack_flag flags) title) with
  | Some fs => ODone (tset s th (with_meta (tget (st_threads s) th) fs)) None None
  | None => ODie
  end.
Proof. exact mstep_mark_type. Qed.
Print Assumptions C17_mark_calls_in_state_machine.

(* B.2  from the calls of every thread through the trees to the merged emulator types *)
Theorem C17_compose_through_json : forall (ths : list (fields * list mcall)) (finals : list rtm),
  Forall thread_ok ths ->
  Forall2 (fun p s => rt_calls rtm_init (snd p) = Ret s) ths finals ->
  exists trees, Forall2 (fun p fs => tree_calls (fst p) (snd p) = Some fs) ths trees /\
    map thread_defs_of_tree (map jobj trees) = map rt_defs finals /\
    emu_types_of_trees (map jobj trees) = merge_threads (map rt_defs finals).
Proof. exact compose_through_json. Qed.
Print Assumptions C17_compose_through_json.

Theorem C17_compose_conflict_through_json : forall ths finals f1 s1 f2 s2 f3 d1 d2,
  Forall thread_ok ths ->
  Forall2 (fun p s => rt_calls rtm_init (snd p) = Ret s) ths finals ->
  finals = f1 ++ s1 :: f2 ++ s2 :: f3 -> In d1 (rt_defs s1) -> In d2 (rt_defs s2) ->
  md_type d1 = md_type d2 -> (md_title d1 <> md_title d2 \/ md_stack d1 <> md_stack d2) ->
  exists trees, Forall2 (fun p fs => tree_calls (fst p) (snd p) = Some fs) ths trees /\
    emu_types_of_trees (map jobj trees) = None /\ emu_pcf_of_trees (map jobj trees) = None.
Proof. exact compose_conflict_through_json. Qed.
Print Assumptions C17_compose_conflict_through_json.

(* "under type 100+t with the labels registered for the type": the PCF sections of the trace the runtime wrote are the merged
   titles and labels, for ALL int64 label values (since the repair of label-value-truncated-to-int: pcf_add_value takes int64_t) *)
Theorem C17_compose_pcf_through_json : forall ths finals ms,
  Forall thread_ok ths ->
  Forall2 (fun p s => rt_calls rtm_init (snd p) = Ret s) ths finals ->
  merge_threads (map rt_defs finals) = Some ms ->
  exists trees, Forall2 (fun p fs => tree_calls (fst p) (snd p) = Some fs) ths trees /\
    emu_pcf_of_trees (map jobj trees) = Some (map (fun m => (100 + mt_type m, mt_title m, mt_labels m)) ms).
Proof. exact compose_pcf_through_json. Qed.
Print Assumptions C17_compose_pcf_through_json.

(* the code BEFORE the repair (emu_pcf_of_trees_old: pcf_add_value(pcftype, (int) l->value, ..)) violated it *)
Theorem C17_labels_beyond_int_refuted_old :
  (exists cs s fs, forallb call_typed cs = true /\ forallb call_fits cs = true /\ rt_calls rtm_init cs = Ret s /\
     tree_calls ex_base cs = Some fs /\ parse_mark_json (jobj fs) = Some (rt_defs s) /\
     emu_types_of_trees [jobj fs] <> None /\ emu_pcf_of_trees_old [jobj fs] = None) /\
  (exists cs s fs secs, forallb call_typed cs = true /\ forallb call_fits cs = true /\ rt_calls rtm_init cs = Ret s /\
     tree_calls ex_base cs = Some fs /\ In (61, 4294967301, 3) (rt_events s) /\
     emu_pcf_of_trees_old [jobj fs] = Some secs /\ pcf_label secs 103 4294967301 = None /\ pcf_label secs 103 5 = Some sB).
Proof. exact labels_beyond_int_refuted_old. Qed.
Print Assumptions C17_labels_beyond_int_refuted_old.

(* B.3  hand-made metadata: a member of "ovni.mark" that parse_mark refuses makes the emulation fail *)
Theorem C17_malformed_mark_metadata_refused : forall ts fs ms kv,
  In (jobj fs) ts -> pget fs [k_ovni; k_mark] = Some (jobj ms) -> In kv ms -> bad_member kv ->
  parse_mark_json (jobj fs) = None /\ emu_types_of_trees ts = None /\ emu_pcf_of_trees ts = None.
Proof. exact malformed_mark_metadata_refused. Qed.
Print Assumptions C17_malformed_mark_metadata_refused.

(* ... and what it does not refuse: "ovni.mark" that is not an object is "no marks" (json_object_dotget_object) *)
Theorem C17_mark_not_object_ignored : forall fs v,
  pget fs [k_ovni; k_mark] = Some v -> (forall ms, v <> jobj ms) -> parse_mark_json (jobj fs) = Some [].
Proof. exact mark_not_object_ignored. Qed.
Print Assumptions C17_mark_not_object_ignored.

Theorem C17_conflicting_definitions_refused : forall l1 d1 l2 d2 l3 acc,
  md_type d1 = md_type d2 -> (md_title d1 <> md_title d2 \/ md_stack d1 <> md_stack d2) ->
  merge_defs acc (l1 ++ d1 :: l2 ++ d2 :: l3) = None.
Proof. exact conflicting_definitions_refused. Qed.
Print Assumptions C17_conflicting_definitions_refused.

(* B.4  attributes stored under names outside "ovni" and "version" never change what the emulator reads, and the
   round trip holds with such stores anywhere between the mark calls *)
Theorem C17_user_attributes_keep_marks : forall fs k v fs', user_key k = true -> attr_set fs k v = Some fs' ->
  parse_mark_json (jobj fs') = parse_mark_json (jobj fs) /\ (forall ds, Inv ds fs -> Inv ds fs').
Proof. exact user_attr_keeps_marks. Qed.
Print Assumptions C17_user_attributes_keep_marks.

Theorem C17_mark_metadata_roundtrip_attrs : forall fs0 l fs,
  base_tree fs0 -> forallb tcall_ok l = true -> tree_tcalls fs0 l = Some fs ->
  exists s, rt_calls rtm_init (marks_of l) = Ret s /\ parse_mark_json (jobj fs) = Some (rt_defs s).
Proof. exact mark_metadata_roundtrip_attrs. Qed.
Print Assumptions C17_mark_metadata_roundtrip_attrs.

(* non-vacuity: two threads, overlapping types and labels; conflicts; strtol's notion of a number; odd metadata *)
Example C17_ex_json_two_threads :
  rt_calls rtm_init ex_calls1 <> Die /\ rt_calls rtm_init ex_calls2 <> Die /\
  forallb call_typed (ex_calls1 ++ ex_calls2) = true /\ forallb call_fits (ex_calls1 ++ ex_calls2) = true /\
  pget (ex_tree ex_calls1) [k_ovni; k_mark] =
    Some (jobj [([51], jobj [(k_title, jstr sP); (k_chan_type, jstr s_stack); (k_labels, jobj [([49], jstr sA); ([50], jstr sB)])]);
                ([55], jobj [(k_title, jstr sQ); (k_chan_type, jstr s_single); (k_labels, jobj [([52; 48], jstr sC)])])]) /\
  emu_types_of_trees [jobj (ex_tree ex_calls1); jobj (ex_tree ex_calls2)] =
    Some [{| mt_type := 3; mt_title := sP; mt_stack := true; mt_labels := [(1, sA); (2, sB); (9, sC)] |};
          {| mt_type := 7; mt_title := sQ; mt_stack := false; mt_labels := [(40, sC)] |};
          {| mt_type := 1; mt_title := sQ; mt_stack := false; mt_labels := [] |}] /\
  emu_pcf_of_trees [jobj (ex_tree ex_calls1); jobj (ex_tree ex_calls2)] =
    Some [(103, sP, [(1, sA); (2, sB); (9, sC)]); (107, sQ, [(40, sC)]); (101, sQ, [])].
Proof. exact ex_two_threads. Qed.
Example C17_ex_json_base : base_tree ex_base.
Proof. exact ex_base_ok. Qed.
Example C17_ex_json_conflicts :
  emu_types_of_trees [jobj (ex_tree ex_calls1); jobj (ex_tree [MType 3 false (Some sP)])] = None /\
  emu_types_of_trees [jobj (ex_tree ex_calls1); jobj (ex_tree [MType 3 true (Some sQ)])] = None /\
  emu_types_of_trees [jobj (ex_tree ex_calls1); jobj (ex_tree [MType 3 true (Some sP); MLabel 3 2 (Some sC)])] = None.
Proof. exact ex_conflicts. Qed.
Example C17_ex_json_odd_accepted :
  emu_types_of_trees [jobj [(k_ovni, jobj [(k_mark, jobj ex_odd_mark)])]] =
    Some [{| mt_type := 7; mt_title := []; mt_stack := false; mt_labels := [(0, sA); (-3, sB)] |}] /\
  emu_types_of_trees [jobj [(k_ovni, jobj [(k_mark, jstr sA)])]] = Some [] /\
  emu_types_of_trees [jobj [(k_ovni, jobj [(k_mark, jarr [])])]] = Some [].
Proof. exact ex_odd_accepted. Qed.
(* the witness programs of the former finding on the repaired code: `5 five` and `4294967301 big` both under type 103 *)
Example C17_ex_json_big_labels :
  emu_pcf_of_trees [jobj (ex_tree ex_big_a)] = Some [(103, sP, [(5, sA); (4294967301, sB)])] /\
  emu_pcf_of_trees [jobj (ex_tree ex_big_b)] = Some [(103, sP, [(4294967301, sB)])] /\
  (forall secs, emu_pcf_of_trees [jobj (ex_tree ex_big_a)] = Some secs ->
     pcf_label secs 103 5 = Some sA /\ pcf_label secs 103 4294967301 = Some sB).
Proof. exact ex_big_repaired. Qed.
End J.

(* ==== mark wiring from source (unit connect) ==== *)
(* The connect-time code of src/emu/ovni/mark.c (create_thread_chan, init_cpu, connect_thread_prv, connect_thread,
   connect_cpu_prv, connect_cpu, mark_connect) is regenerated into Gen/Connect_gen.v on every run (unit connect, prelude
   Emu/ConnectPre.v: the mark types are the channel specs of pseudo-model 1000 = MarkDefs.mark_chans, in the order of the
   hash table memu->types; the per-thread / per-CPU mark data hang on the ovni model's objects).
   ConnectProofs.connect_all runs mark_create's loops (create_thread_chan of every thread, init_cpu of every CPU) after the
   ovni model's model_thread_create / model_cpu_create and the generated mark_connect after its model_thread_connect /
   model_cpu_connect, as model_ovni_create / model_ovni_connect do (scan_thread, which finds the mark types, is not
   translated: the types come from the environment).
   C17_mark_wiring_from_source_partial: for 2 threads, 3 CPUs, the model sets {ovni}, {ovni, nOS-V}, all models and four
   lists of mark types (stack / single, one to three types), the bay the generated code builds from the empty bay,
   renamed through the heap it built, IS BayDefs.wire: the mark channels (stack or single, ALLOW_DUP), the thread-side
   tracks with thread_select_active on the thread's state channel, the CPU-side muxes on th_running with one input per
   thread, the callback ORDER on the shared select channels, and the PRV callbacks (thread / cpu side, row, type 100 + t,
   PRV_SKIPDUPNULL) = key_of / flags_of.  PARTIAL as C06_wiring_from_source_partial: by computation for this family and
   through the certificate ConnectProofs.wiring_ok for any concrete description; no induction over sizes.
   The marks are wired inside the ovni model's hooks, i.e. BEFORE the models with a larger id (OpenMP, TAMPI, nOS-V): the
   channel specs must list them right after the ovni model's (ConnectProofs.slot_chans); with the marks last, as
   DecodeDefs.mk_chans ++ MarkDefs.mark_chans has them, the callback order of BayDefs.wire differs from the emulator's when
   such a model is enabled (C17_ex_mark_wiring_marks_last_differs; only the order of PRV lines in one propagation depends
   on it). *)
From OV Require Emu.ConnectPre Gen.Connect_gen Proofs.ConnectProofs.

Theorem C17_mark_wiring_from_source_partial : forall en ms, In en ConnectProofs.mark_models -> In ms ConnectProofs.mark_lists ->
  exists st, ConnectProofs.connect_all (ConnectProofs.mark_sx en ms) = Ok st /\
             ConnectProofs.normalize (ConnectProofs.mark_sx en ms) st = Some (BayDefs.wire (ConnectProofs.mark_sx en ms)).
Proof. exact ConnectProofs.mark_wiring_from_source. Qed.
Print Assumptions C17_mark_wiring_from_source_partial.

Example C17_ex_mark_wiring : ConnectProofs.wiring_ok (ConnectProofs.mark_sx (M_OVNI :: M_NOSV :: nil) (ConnectProofs.mk_mtype 1 true :: ConnectProofs.mk_mtype 7 false :: nil)) = true.
Proof. vm_compute. reflexivity. Qed.
Example C17_ex_mark_wiring_marks_last_differs :
  ConnectProofs.wiring_ok {| s_threads := ConnectProofs.fam_threads; s_cpus := ConnectProofs.fam_cpus;
                             s_chans := mk_chans (M_OVNI :: M_NOSV :: nil) ++ mark_chans (ConnectProofs.mk_mtype 1 true :: nil); s_lint := false |} = false.
Proof. vm_compute. reflexivity. Qed.
(* ==== end of block (unit connect) ==== *)

(* ==== mark readers from source (unit markread) ==== *)
(* The emulator-side readers of the "ovni.mark" metadata in src/emu/ovni/mark.c (parse_number, find_label, add_label,
   parse_labels, find_mark_type, create_mark_type, parse_mark, scan_thread) are regenerated into Gen/MarkRead_gen.v on every
   run (unit markread, statement by statement; prelude Emu/MarkReadPre.v: parson look-ups with the meaning of
   Rt/RtMetaDefs.v, the member walk as a counted fold, strtol = Emu/VParsePre.v's model, the uthash tables as
   insertion-ordered lists with a pending calloc'ed object that becomes the table entry at HASH_ADD, snprintf's returned
   length against MAX_PCF_LABEL 512).  Proofs/MarkReadProofs.v proves, for EVERY tree:
   - C17_parse_number_from_source: the generated parse_number = MarkJsonDefs.parse_number (same refusals, same value);
   - C17_parse_labels_from_source: the generated parse_labels on a type of the table = MarkJsonDefs.parse_labels then
     MarkDefs.merge_labels on the labels the type has (same refusals, the labels appended in the same order);
   - C17_parse_mark_from_source: the generated parse_mark = MarkJsonDefs.parse_mark_entry then MarkDefs.merge_def
     (range [0,100), title / chan_type strings, "single" / "stack", a new type appended or the title / channel type
     compared, the labels merged);
   - C17_scan_thread_from_source: the generated scan_thread = MarkJsonDefs.parse_mark_json then MarkDefs.merge_defs;
   - C17_mark_readers_from_source: mark_create's loop over the threads (MarkReadProofs.run_threads: scan_thread on every
     thread's tree, from the empty table) = MarkJsonDefs.emu_types_of_trees: same refusals, same type table, same order.
   The only hypothesis, tree_ok, says that the member names of "ovni.mark" and of the "labels" objects contain no NUL
   byte (they are C strings; RtMetaDefs.str is "bytes of a C string, no NUL").  It is not needed when the hand model
   accepts every thread (C17_mark_readers_accepted_from_source: what strtol accepts has no NUL), so the composition
   C17_compose_through_json holds with the GENERATED readers on the emulator side
   (C17_compose_through_generated_readers), C17_malformed_mark_metadata_refused gives the refusal of the generated loop
   (C17_malformed_refused_by_generated_readers) and the PCF sections of C17_compose_pcf_through_json are a function of
   the table the generated readers build (C17_pcf_through_generated_readers).
   Not translated: mark_create's own loop statement (`for (t = sys->threads; t; t = t->gnext)`, here run_threads) and
   create_type / pcf_add_value (the PCF writer, MarkJsonDefs.pcf_of_types_with). *)
From OV Require Emu.MarkReadPre Gen.MarkRead_gen Proofs.MarkReadProofs.
Module MR.
Import RtMetaDefs MarkJsonDefs MarkJsonProofs MarkReadPre MarkReadProofs.

Theorem C17_parse_number_from_source : forall s st, nonul s ->
  MarkRead_gen.parse_number (Some s) tt st =
  match MarkJsonDefs.parse_number s with
  | Some v => ROk (0, out_state st 0 v)
  | None => RErr E_FAIL
  end.
Proof. exact parse_number_from_source. Qed.
Print Assumptions C17_parse_number_from_source.

Theorem C17_parse_labels_from_source : forall h ls st m,
  Forall (fun kv : str * json => nonul (fst kv)) ls -> linked st h ->
  find_mt (r_tbl st) (hkey st h) = Some m -> Forall short (mt_labels m) ->
  match MarkJsonDefs.parse_labels ls with
  | None => MarkRead_gen.parse_labels (Some h) (Some ls) st = RErr E_FAIL
  | Some pl =>
    match merge_labels (mt_labels m) pl with
    | None => MarkRead_gen.parse_labels (Some h) (Some ls) st = RErr E_FAIL
    | Some ls' => exists st', MarkRead_gen.parse_labels (Some h) (Some ls) st = ROk (0, st') /\
        r_tbl st' = replace_mt (r_tbl st) (upd_labels m ls') /\ frame st st' /\ Forall short ls'
    end
  end.
Proof. exact parse_labels_from_source. Qed.
Print Assumptions C17_parse_labels_from_source.

Theorem C17_parse_mark_from_source : forall st kv, entry_ok kv -> tbl_ok (r_tbl st) ->
  match parse_mark_entry kv with
  | None => MarkRead_gen.parse_mark tt (Some (fst kv)) (Some (snd kv)) st = RErr E_FAIL
  | Some d =>
    match merge_def (r_tbl st) d with
    | None => MarkRead_gen.parse_mark tt (Some (fst kv)) (Some (snd kv)) st = RErr E_FAIL
    | Some tbl' => exists st', MarkRead_gen.parse_mark tt (Some (fst kv)) (Some (snd kv)) st = ROk (0, st') /\
        r_tbl st' = tbl' /\ tbl_ok tbl'
    end
  end.
Proof. exact parse_mark_from_source. Qed.
Print Assumptions C17_parse_mark_from_source.

Theorem C17_scan_thread_from_source : forall fs st, tree_ok (jobj fs) -> tbl_ok (r_tbl st) ->
  match parse_mark_json (jobj fs) with
  | None => MarkRead_gen.scan_thread tt (Some fs) st = RErr E_FAIL
  | Some ds =>
    match merge_defs (r_tbl st) ds with
    | None => MarkRead_gen.scan_thread tt (Some fs) st = RErr E_FAIL
    | Some tbl' => exists st', MarkRead_gen.scan_thread tt (Some fs) st = ROk (0, st') /\ r_tbl st' = tbl' /\ tbl_ok tbl'
    end
  end.
Proof. exact scan_thread_from_source. Qed.
Print Assumptions C17_scan_thread_from_source.

Theorem C17_mark_readers_from_source : forall ts, Forall tree_ok ts ->
  run_threads ts r0 = emu_types_of_trees ts.
Proof. exact mark_readers_from_source. Qed.
Print Assumptions C17_mark_readers_from_source.

Theorem C17_mark_readers_accepted_from_source : forall ts l, all_some (map parse_mark_json ts) = Some l ->
  run_threads ts r0 = emu_types_of_trees ts.
Proof. exact mark_readers_accepted. Qed.
Print Assumptions C17_mark_readers_accepted_from_source.

Theorem C17_compose_through_generated_readers : forall (ths : list (fields * list mcall)) (finals : list rtm),
  Forall thread_ok ths ->
  Forall2 (fun p s => rt_calls rtm_init (snd p) = Ret s) ths finals ->
  exists trees, Forall2 (fun p fs => tree_calls (fst p) (snd p) = Some fs) ths trees /\
    run_threads (map jobj trees) r0 = merge_threads (map rt_defs finals).
Proof. exact compose_through_generated_readers. Qed.
Print Assumptions C17_compose_through_generated_readers.

Theorem C17_malformed_refused_by_generated_readers : forall ts fs ms kv, Forall tree_ok ts ->
  In (jobj fs) ts -> pget fs [k_ovni; k_mark] = Some (jobj ms) -> In kv ms -> bad_member kv ->
  run_threads ts r0 = None.
Proof. exact malformed_refused_by_generated_readers. Qed.
Print Assumptions C17_malformed_refused_by_generated_readers.

Theorem C17_pcf_through_generated_readers : forall ts, Forall tree_ok ts ->
  emu_pcf_of_trees ts = match run_threads ts r0 with Some ms => pcf_of_types_with no_cast ms | None => None end.
Proof. exact pcf_through_generated_readers. Qed.
Print Assumptions C17_pcf_through_generated_readers.

Example C17_ex_readers_two_threads :
  run_threads [jobj (ex_tree ex_calls1); jobj (ex_tree ex_calls2)] r0 =
    Some [ {| mt_type := 3; mt_title := sP; mt_stack := true; mt_labels := [(1, sA); (2, sB); (9, sC)] |};
           {| mt_type := 7; mt_title := sQ; mt_stack := false; mt_labels := [(40, sC)] |};
           {| mt_type := 1; mt_title := sQ; mt_stack := false; mt_labels := [] |} ].
Proof. exact ex_readers_two_threads. Qed.
Example C17_ex_readers_conflicts :
  run_threads [jobj (ex_tree ex_calls1); jobj (ex_tree [MType 3 false (Some sP)])] r0 = None /\
  run_threads [jobj (ex_tree ex_calls1); jobj (ex_tree [MType 3 true (Some sQ)])] r0 = None /\
  run_threads [jobj (ex_tree ex_calls1); jobj (ex_tree [MType 3 true (Some sP); MLabel 3 2 (Some sC)])] r0 = None.
Proof. exact ex_readers_conflicts. Qed.
Example C17_ex_readers_odd_keys :
  run_threads [jobj [(k_ovni, jobj [(k_mark, jobj ex_odd_mark)])]] r0 = emu_types_of_trees [jobj [(k_ovni, jobj [(k_mark, jobj ex_odd_mark)])]] /\
  run_threads [jobj [(k_ovni, jobj [(k_mark, jobj ex_odd_mark)])]] r0 <> None /\
  run_threads [jobj [(k_ovni, jobj [(k_mark, jstr sA)])]] r0 = Some [].
Proof. exact ex_readers_odd_keys. Qed.
End MR.
(* ==== end of block (unit markread) ==== *)

(* ==== runtime mark API from source (unit rtmark) ==== *)
(* ovni_mark_type and ovni_mark_label of src/rt/ovni.c are regenerated on every run into Gen/RtMark_gen.v
   (translate/units/rtmark.py: the machinery of unit rtmeta plus `s[i]` on a string and `c ? "a" : "b"`), over
   Rt/RtMarkPre.v = Rt/RtMetaPre.v (rthread / rproc as state, die() = E_DIE, parson's dotget / dotset on rthread.meta,
   snprintf into the 128-byte key buffer) + char_at.  ovni_mark_push / ovni_mark_pop / ovni_mark_set and the emit path
   they call are the functions of Gen/RtBuf_gen.v (unit rtbuf).  Proofs/RtMarkGenProofs.v: the generated functions compute
   the tree-level model of the runtime mark API (Rt/MarkJsonDefs.v: mark_type_tree / mark_label_tree inside the metadata
   state machine `mstep`, which C17_mark_metadata_roundtrip / C17_mark_calls_in_state_machine tie to rt_call), for every
   model state, thread and argument in the domain (int32_t / int64_t / 7-bit ASCII strings). *)
From OV Require Rt.RtMetaPre Rt.RtMarkPre Gen.RtMeta_gen Gen.RtMark_gen Proofs.RtMetaGenProofs Proofs.RtMarkGenProofs.
From OV Require Rt.RtBufPre Rt.RtBufDefs Rt.RtBufApiDefs Gen.RtBuf_gen Proofs.RtBufGenProofs.
Module RMK := RtMarkGenProofs.
Module RMG := RtMetaGenProofs.

Theorem C17_runtime_marks_from_source :
  (* ovni_mark_type: die() exactly when the model dies (type out of [0,100), NULL or empty title, thread not live, key too
     long, type already defined, dotset refusing), otherwise exactly the model's new metadata tree, nothing written, nothing
     returned *)
  (forall sx s th node out t flags title,
     RMG.agrees sx th out (RtMark_gen.ovni_mark_type t flags title sx (RMG.rs_of s th node out))
                (MarkJsonDefs.mstep RtMeta_gen.src_cfg s th (MarkJsonDefs.MMarkType t flags title)) RMG.no_val) /\
  (* ovni_mark_label: likewise (value <= 0, NULL or empty label, type not defined, label already defined) *)
  (forall sx s th node out t v label,
     RMG.agrees sx th out (RtMark_gen.ovni_mark_label t v label sx (RMG.rs_of s th node out))
                (MarkJsonDefs.mstep RtMeta_gen.src_cfg s th (MarkJsonDefs.MMarkLabel t v label)) RMG.no_val) /\
  (* ovni_mark_push / pop / set (Gen/RtBuf_gen.v): one call = RtBufDefs.step on MarkPush / MarkPop / MarkSet: die() on
     value 0, otherwise the 12-byte OM[ / OM] / OM= event appended (with a forced flush when the buffer is full) *)
  (forall cap o g s log, 64 <= cap < 2 ^ 63 -> RtBufApiDefs.op_cb o = true -> RtBufApiDefs.Rep cap g s ->
     (exists ty va, o = RtBufDefs.MarkPush ty va \/ o = RtBufDefs.MarkPop ty va \/ o = RtBufDefs.MarkSet ty va) ->
     match RtBufApiDefs.api_call o (RtBufApiDefs.env_of cap) g, RtBufDefs.step true cap o (s, log) with
     | RtBufPre.Ok (_, g'), RtBufDefs.ROk (s', _) => RtBufApiDefs.Rep cap g' s'
     | RtBufPre.Err e, RtBufDefs.RAbort => e = RtBufPre.E_DIE
     | RtBufPre.Err e, RtBufDefs.RNoClock => e = RtBufPre.E_NOCLOCK
     | RtBufPre.Err e, RtBufDefs.RNoFuel => e = RtBufPre.E_NOFUEL
     | _, _ => False
     end).
Proof.
  split; [exact RMK.mark_type_from_source|]. split; [exact RMK.mark_label_from_source|].
  intros cap o g s log Hc W R _. exact (RtBufGenProofs.buffer_ops_from_source cap o g s log Hc W R).
Qed.
Print Assumptions C17_runtime_marks_from_source.

(* the run-time refusals of C17_runtime_*, for the generated code, on a live thread whose metadata tree is fs *)
Theorem C17_runtime_refusals_from_source :
  (forall sx st t flags title, t < 0 \/ 100 <= t -> RtMark_gen.ovni_mark_type t flags title sx st = RtMetaPre.RErr RtMetaPre.E_DIE) /\
  (forall sx st t flags, RtMark_gen.ovni_mark_type t flags None sx st = RtMetaPre.RErr RtMetaPre.E_DIE /\
                         RtMark_gen.ovni_mark_type t flags (Some []) sx st = RtMetaPre.RErr RtMetaPre.E_DIE) /\
  (* type defined twice *)
  (forall sx st fs t flags title j, RMK.live st fs -> RMK.c0free title ->
     RtMetaDefs.dotget fs (MarkJsonDefs.mark_key t) = Some j ->
     RtMark_gen.ovni_mark_type t flags title sx st = RtMetaPre.RErr RtMetaPre.E_DIE) /\
  (* label: value <= 0, undefined type, label already defined *)
  (forall sx st fs t v label, RMK.live st fs -> RMK.c0free label ->
     (v <= 0 -> RtMark_gen.ovni_mark_label t v label sx st = RtMetaPre.RErr RtMetaPre.E_DIE) /\
     (RtMetaDefs.dotget fs (MarkJsonDefs.mark_key t) = None -> RtMark_gen.ovni_mark_label t v label sx st = RtMetaPre.RErr RtMetaPre.E_DIE) /\
     (forall j, RtMetaDefs.dotget fs (MarkJsonDefs.dotted (MarkJsonDefs.dotted (MarkJsonDefs.mark_key t) MarkJsonDefs.k_labels)
                                       (MarkJsonDefs.render_int v)) = Some j ->
                RtMark_gen.ovni_mark_label t v label sx st = RtMetaPre.RErr RtMetaPre.E_DIE)) /\
  (* a thread that is not initialised or already freed *)
  (forall sx st t flags title, (RtMetaPre.r_finished st <> 0 \/ RtMetaPre.r_ready st = 0) ->
     RtMark_gen.ovni_mark_type t flags title sx st = RtMetaPre.RErr RtMetaPre.E_DIE) /\
  (* value 0 for push / pop / set *)
  (forall fuel ty sx g,
     RtBuf_gen.ovni_mark_push fuel ty 0 sx g = RtBufPre.Err RtBufPre.E_DIE /\
     RtBuf_gen.ovni_mark_pop fuel ty 0 sx g = RtBufPre.Err RtBufPre.E_DIE /\
     RtBuf_gen.ovni_mark_set fuel ty 0 sx g = RtBufPre.Err RtBufPre.E_DIE).
Proof.
  exact (conj RMK.gen_type_range_refused (conj RMK.gen_empty_title_refused (conj RMK.gen_type_redefinition_refused
        (conj RMK.gen_label_refusals (conj RMK.mark_type_dead RMK.gen_zero_value_refused))))).
Qed.
Print Assumptions C17_runtime_refusals_from_source.

(* non-vacuity, by computation on the generated code: a live thread defines type 3 ("T", stack), labels value 1, and
   the tree holds ovni.mark.3 = {title, chan_type, labels: {1}}; the same type again, a label of type 4, value 0: die *)
Definition rm_env : RtMetaPre.renv := RtMetaPre.mkEnv [] 0 (fun _ => None) (fun _ => []).
Definition rm_st0 : RtMetaPre.rstate :=
  RtMetaPre.mkRs 2 0 [] 0 1 0 7 [] (0, 0) 0 0 0 (Some [(RtMetaDefs.k_ovni, RtMetaDefs.jobj [])]) [].

Example C17_ex_runtime_marks_from_source :
  match RtMetaPre.bind_ (RtMark_gen.ovni_mark_type 3 1 (Some [84])) (RtMark_gen.ovni_mark_label 3 1 (Some [97])) rm_env rm_st0 with
  | RtMetaPre.ROk (_, st) =>
    RtMetaPre.r_meta st =
    Some [(RtMetaDefs.k_ovni, RtMetaDefs.jobj [(MarkJsonDefs.k_mark, RtMetaDefs.jobj [([51], RtMetaDefs.jobj
            [(MarkJsonDefs.k_title, RtMetaDefs.jstr [84]); (MarkJsonDefs.k_chan_type, RtMetaDefs.jstr MarkJsonDefs.s_stack);
             (MarkJsonDefs.k_labels, RtMetaDefs.jobj [([49], RtMetaDefs.jstr [97])])])])])]
  | RtMetaPre.RErr _ => False
  end /\
  RtMetaPre.bind_ (RtMark_gen.ovni_mark_type 3 1 (Some [84])) (RtMark_gen.ovni_mark_type 3 0 (Some [85])) rm_env rm_st0 = RtMetaPre.RErr RtMetaPre.E_DIE /\
  RtMark_gen.ovni_mark_label 4 1 (Some [97]) rm_env rm_st0 = RtMetaPre.RErr RtMetaPre.E_DIE /\
  RtMetaPre.bind_ (RtMark_gen.ovni_mark_type 3 1 (Some [84])) (RtMark_gen.ovni_mark_label 3 0 (Some [97])) rm_env rm_st0 = RtMetaPre.RErr RtMetaPre.E_DIE /\
  RtMetaPre.bind_ (RtMark_gen.ovni_mark_type 3 1 (Some [84]))
    (RtMetaPre.bind_ (RtMark_gen.ovni_mark_label 3 1 (Some [97])) (RtMark_gen.ovni_mark_label 3 1 (Some [98]))) rm_env rm_st0 = RtMetaPre.RErr RtMetaPre.E_DIE.
Proof. vm_compute. repeat split. Qed.
(* ==== end of block (unit rtmark) ==== *)
