(* C19 - Tools are total: any trace bytes give a clean exit, never a crash or hang.
   Only statements here; proofs are in Proofs/StreamProofs.v.

   PARTIAL.  Full statement of the property: for all bytes of stream.obs and stream.json,
   ovniemu/ovnidump/ovnitop/ovnisort terminate with exit status 0 or 1, without a signal, and
   never read or write outside the loaded stream and their own buffers.
   Proved here (names end in _partial): the part of the tools that turns trusted-from-disk
   sizes into a cursor, i.e. the stream layer (stream.c: load_obs, check_stream_header,
   stream_step as repaired by patches/fix-c19-stream-bounds.diff and
   patches/fix-c19-clock-delta-overflow.diff), the event-size decoder
   (ovni.c: ovni_ev_size/ovni_payload_size, translated from the C) and ovnisort's own walks.
   NOT covered by a theorem: the event handlers' payload dereferences, ev_spec.c:print_arg,
   parson, the rest of the emulator; those are covered only by the sanitizer campaign of
   lib/checks/c19.py (support, not proof).

   ovni_ev_size, ovni_payload_size (Gen/Loader_gen.v) and next_ev_size (Gen/LoaderStep_gen.v) are
   the Gallina translation of the C functions of /repo's current working tree. *)
From OV Require Import Base.CInt Emu.LoaderPre Gen.Loader_gen Gen.LoaderStep_gen Emu.StreamDefs Emu.LoaderSpec
  Proofs.StreamProofs.
Local Open Scope Z_scope.

(* For ALL byte strings bs, all contents junk of the memory around the buffer and both kinds of
   consumer (sorted/unsorted): loading fails cleanly, or repeated stream_step ends with End or
   with an error within length bs + 1 steps (the fuel of [run]); never a read outside the
   buffer (VOob), never an int overflow (VSOverflow), never a stalled or backward cursor
   (VNoProgress), never out of fuel (VFuel). *)
Theorem C19_stream_total_partial : forall bs junk unsorted,
  blen bs < 2 ^ 63 ->
  match run bs junk unsorted with
  | RunLoadErr _ => True
  | Run v _ => match v with VEnd | VErr _ => True | _ => False end
  end.
Proof. exact run_total. Qed.
Print Assumptions C19_stream_total_partial.

(* the cursor strictly advances on every Ok step, by the size of the event left behind *)
Theorem C19_cursor_advances_partial : forall st st',
  inv st -> s_size st < 2 ^ 63 -> stream_step st = ROk st' -> s_cur st = true ->
  s_offset st < s_offset st' /\ s_offset st' = s_offset st + ovni_ev_size (view st (s_offset st)).
Proof. exact step_advances. Qed.
Print Assumptions C19_cursor_advances_partial.

(* no single step from a state of the walk reads outside the buffer or overflows *)
Theorem C19_step_in_bounds_partial : forall st,
  inv st -> s_size st < 2 ^ 63 ->
  (forall p, stream_step st <> ROob p) /\ stream_step st <> RSOverflow.
Proof. exact step_safe. Qed.
Print Assumptions C19_step_in_bounds_partial.

(* the invariant [inv] is established by loading and preserved by every Ok step *)
Theorem C19_inv_loaded_partial : forall bs junk u st,
  load_obs bs junk u = Loaded st -> s_active st = true -> inv st.
Proof. exact loaded_inv. Qed.
Print Assumptions C19_inv_loaded_partial.

(* the guard of the repaired stream_step, as translated from the C, is the function the model uses *)
Theorem C19_guard_is_translated_C_partial : forall ev left, next_ev_size ev left = ev_size_checked ev left.
Proof. exact next_ev_size_eq. Qed.
Print Assumptions C19_guard_is_translated_C_partial.

(* what the guard guarantees about the translated ovni_ev_size: once an event passed it, every later
   ovni_ev_size(ev) (stream_step's advance, emu_ev, ovnisort, ovnidump) is that same positive size *)
Theorem C19_guard_bounds_size_partial : forall ev left s,
  ev_size_checked ev left = s -> 0 <= s ->
  12 <= s <= left /\ s <= C_INT_MAX /\ ovni_ev_size ev = s /\ in_int32 (ovni_ev_size ev) = true /\
  (has_jumbo_flag ev = true -> 16 <= left).
Proof. exact ev_size_checked_ok. Qed.
Print Assumptions C19_guard_bounds_size_partial.

(* the hand-written read footprints cover what the translated functions read: the result does not
   depend on anything outside the footprint (so "footprint inside the buffer" means "no read outside") *)
Theorem C19_footprint_ev_size_partial : forall bs off j1 j2,
  first_oob bs (reads_ovni_ev_size (mk_evp bs off j1)) = None ->
  ovni_ev_size (mk_evp bs off j1) = ovni_ev_size (mk_evp bs off j2).
Proof. exact reads_ovni_ev_size_sound. Qed.
Print Assumptions C19_footprint_ev_size_partial.

Theorem C19_footprint_guard_partial : forall bs off j1 j2 left,
  first_oob bs (reads_next_ev_size (mk_evp bs off j1) left) = None ->
  next_ev_size (mk_evp bs off j1) left = next_ev_size (mk_evp bs off j2) left.
Proof. exact reads_next_ev_size_sound. Qed.
Print Assumptions C19_footprint_guard_partial.

(* ovnisort: find_min_clock / count_events / index_events over a region of delivered events stop
   exactly at its end after one iteration per event *)
Theorem C19_sorter_walk_partial : forall bs junk p e n,
  region bs p e n -> forall fuel k, (n < fuel)%nat ->
  count_events fuel bs junk p e k = RegDone (k + Z.of_nat n) e.
Proof. exact count_events_total. Qed.
Print Assumptions C19_sorter_walk_partial.

(* The code as found (before the repair) violates all of it.  Kept as the record of the defect;
   [run_old] is the faithful model of the unrepaired stream_step (Emu/StreamDefs.v, Section Old). *)
Theorem C19_unfixed_no_progress_refuted :
  exists bs, run_old bs zero_junk false = Run (VNoProgress 8) [(8, 0, 10)].
Proof. exact old_no_progress. Qed.
Print Assumptions C19_unfixed_no_progress_refuted.

Theorem C19_unfixed_steps_backwards_refuted :
  exists bs evs, run_old bs zero_junk true = Run (VNoProgress 8) evs.
Proof. exact old_steps_backwards. Qed.
Print Assumptions C19_unfixed_steps_backwards_refuted.

Theorem C19_unfixed_reads_outside_refuted :
  exists bs p, blen bs <= p /\ run_old bs zero_junk false = Run (VOob p) [].
Proof. exact old_reads_outside. Qed.
Print Assumptions C19_unfixed_reads_outside_refuted.

Theorem C19_unfixed_int_overflow_refuted :
  exists bs, run_old bs zero_junk false = Run VSOverflow [].
Proof. exact old_int_overflow. Qed.
Print Assumptions C19_unfixed_int_overflow_refuted.

Theorem C19_unfixed_clock_delta_overflow_refuted :
  exists bs evs, run_old bs zero_junk true = Run VSOverflow evs.
Proof. exact old_delta_overflow. Qed.
Print Assumptions C19_unfixed_clock_delta_overflow_refuted.

(* non-vacuity *)
Example C19_ex_valid :
  run (hdr ++ [0; 79; 66; 46; 5; 0; 0; 0; 0; 0; 0; 0] ++ jumbo_hdr 2 0 0 0 ++ [7; 7]) zero_junk false =
  Run VEnd [(8, 12, 5); (20, 18, 10)].
Proof. exact ex_valid_stream. Qed.
Example C19_ex_repaired_on_witnesses :
  run (hdr ++ jumbo_hdr 240 255 255 255) zero_junk false = Run (VErr EIncomplete) [] /\
  run (hdr ++ [19; 79; 66; 46; 10; 0; 0; 0; 0; 0; 0; 0]) zero_junk false = Run (VErr EIncomplete) [] /\
  run (hdr ++ jumbo_hdr 251 255 255 127) zero_junk false = Run (VErr EIncomplete) [].
Proof. exact new_on_old_witnesses. Qed.
Example C19_ex_region : region (hdr ++ [0; 79; 66; 46; 5; 0; 0; 0; 0; 0; 0; 0]) 8 20 1.
Proof. eapply region_cons; [vm_compute; split; [discriminate|reflexivity]|vm_compute; reflexivity|apply region_nil]. Qed.

(* ==== handler payload footprints from source (unit footprint) ==== *)
(* Gen/Foot_gen.v is regenerated on every run by translate/units/footprint.py: the handlers model_ovni_event,
   pre_thread, pre_thread_execute/end/pause/resume/cool/warm, pre_affinity, pre_affinity_set, pre_affinity_remote,
   pre_cpu (ovni/event.c), mark_event (ovni/mark.c), pre_task, update_task, update_task_state, create_task of
   nosv/event.c and of nanos6/event.c, rendered statement by statement over Emu/FootPre.v: only the event (value bytes,
   payload bytes, payload_size, jumbo bit) is represented; a read emu->ev->payload->arr[k] is explicit and guarded by
   "bytes [k*w, (k+1)*w) lie inside the payload_size bytes of the event", whose failure is the outcome E_OOB; every
   other object and every untranslated callee is an arbitrary oracle (the translator checks that such a callee can
   only get the event if it is a function of the same file that never mentions `payload`).
   PARTIAL: for every payload (any bytes, any size), every value byte and whatever the rest of the emulator does,
   these handlers never read the payload outside the event.  nosv/nanos6 pre_type (the jumbo label) are covered by
   C19_pre_type_reads_in_bounds below.  NOT covered: the handlers of the other models (nodes, tampi, mpi, openmp, kernel: table-driven, they read no
   payload, but they are not translated), ev_spec.c:print_arg, parson. *)
From OV Require Emu.EmuCoreDefs Emu.FootPre Gen.Foot_gen Proofs.FootProofs.
Theorem C19_handlers_read_in_bounds_partial : forall sx e,
  FootPre.exec (Foot_gen.model_ovni_event e) sx <> EmuCoreDefs.Err FootPre.E_OOB /\
  FootPre.exec (Foot_gen.mark_event e) sx <> EmuCoreDefs.Err FootPre.E_OOB /\
  FootPre.exec (Foot_gen.nosv_pre_task e) sx <> EmuCoreDefs.Err FootPre.E_OOB /\
  FootPre.exec (Foot_gen.nanos6_pre_task e) sx <> EmuCoreDefs.Err FootPre.E_OOB.
Proof. exact FootProofs.handlers_in_bounds. Qed.
Print Assumptions C19_handlers_read_in_bounds_partial.

(* pre_type of nosv/event.c and nanos6/event.c (VYc / 6Yc, jumbo): `data = &payload->jumbo.data[0]` is the byte offset
   offsetof(jumbo.data) asked to the compiler, memcpy(&typeid, data, 4) is an explicit read of bytes [data, data + 4),
   data += 4, memchr(label, 0, payload_size - label_off) an explicit read of that whole range, and the label passed to
   the untranslated task_type_create requires a NUL at or after it inside the payload (the callee may read the C string
   there and nothing else of the payload: it gets no other pointer into the event).  For every payload, size and
   oracle none of these reads leaves the event. *)
Theorem C19_pre_type_reads_in_bounds : forall sx e,
  FootPre.exec (Foot_gen.nosv_pre_type e) sx <> EmuCoreDefs.Err FootPre.E_OOB /\
  FootPre.exec (Foot_gen.nanos6_pre_type e) sx <> EmuCoreDefs.Err FootPre.E_OOB.
Proof. exact FootProofs.pre_type_in_bounds. Qed.
Print Assumptions C19_pre_type_reads_in_bounds.

(* a label without its NUL is refused, not read past the end; a terminated one reaches task_type_create *)
Example C19_ex_pre_type :
  FootPre.exec (Foot_gen.nosv_pre_type {| FootPre.f_m := 86; FootPre.f_c := 89; FootPre.f_v := 99; FootPre.f_payload := [6; 0; 0; 0; 1; 0; 0; 0; 97; 98]; FootPre.f_jumbo := true |}) FootProofs.ok_oracle
    = EmuCoreDefs.Err FootPre.E_FAIL /\
  FootPre.exec (Foot_gen.nosv_pre_type {| FootPre.f_m := 86; FootPre.f_c := 89; FootPre.f_v := 99; FootPre.f_payload := [6; 0; 0; 0; 1; 0; 0; 0; 97; 0]; FootPre.f_jumbo := true |}) FootProofs.ok_oracle
    = EmuCoreDefs.Ok tt /\
  FootPre.exec (Foot_gen.nosv_pre_type {| FootPre.f_m := 86; FootPre.f_c := 89; FootPre.f_v := 99; FootPre.f_payload := [4; 0; 0; 0; 1; 0; 0; 0]; FootPre.f_jumbo := true |}) FootProofs.ok_oracle
    = EmuCoreDefs.Err FootPre.E_FAIL.
Proof. vm_compute. repeat split. Qed.

(* the explicit reader does detect an out-of-bounds read: i32[1] of a 4-byte payload; and the generated OHx handler
   rejects a 3-byte payload by its size guard and accepts 4 and 16 bytes under the all-success oracle *)
Example C19_ex_footprint :
  FootPre.cin (FootPre.rd_ok_i32 FootProofs.ok_oracle tt (FootProofs.ev_of 72 120 [1; 0; 0; 0]) 1) = FootPre.COob /\
  FootPre.exec (Foot_gen.model_ovni_event (FootProofs.ev_of 72 120 [1; 0; 0])) FootProofs.ok_oracle = EmuCoreDefs.Err FootPre.E_SIZE /\
  FootPre.exec (Foot_gen.model_ovni_event (FootProofs.ev_of 72 120 [1; 0; 0; 0])) FootProofs.ok_oracle = EmuCoreDefs.Ok tt /\
  FootPre.exec (Foot_gen.model_ovni_event (FootProofs.ev_of 65 114 [1; 0; 0; 0])) FootProofs.ok_oracle = EmuCoreDefs.Err FootPre.E_SIZE.
Proof. vm_compute. repeat split. Qed.
(* ==== end of block (unit footprint) ==== *)

(* ==== stepping functions from source (unit stepper) ==== *)
(* stream_step, stream_evclock, stream_lastclock, stream_allow_unsorted, stream_clkoff_set, stream_ev are
   regenerated from src/emu/stream.c statement by statement (translate/units/stepper.py -> Gen/Stepper_gen.v over
   Emu/StepperPre.v; ovni_ev_size / next_ev_size are the functions already generated by units loader /
   loader_step).  The generated stream_step, on a stream whose size is the length of its buffer, with
   cur_ev NULL or &buf[offset] and clock offset 0 (gwf; StreamDefs has no offsets), from a state of the walk
   (inv), is StreamDefs.stream_step: same outcome 0 / +1 / -1, same new offset, cur_ev, active and lastclock,
   deltaclock = the wrap-around difference; the model's OobRead / SOverflow outcomes do not arise (last case).
   Partial: errors are one class (every `return -1` is Fail E_FAIL), NoProgress is a property of the walk
   (C19_cursor_advances_partial applies to the model the generated function is equal to). *)
From OV Require Emu.StepperPre Gen.Stepper_gen Proofs.StepperProofs.

Theorem C19_stream_step_from_source_partial : forall sx st id,
  (id < length (StepperPre.streams st))%nat ->
  let g := nth id (StepperPre.streams st) StepperPre.g0 in
  StepperProofs.gwf id g -> inv (StepperProofs.abs g) -> s_size (StepperProofs.abs g) < 2 ^ 63 ->
  match stream_step (StepperProofs.abs g), Stepper_gen.stream_step (Some id) sx st with
  | ROk s', StepperPre.Done _ st' =>
      exists g', st' = StepperPre.put st id g' /\ StepperProofs.abs g' = s' /\ StepperProofs.gwf id g' /\
                 StepperPre.g_deltaclock g' =
                 cast_int64 (cast_uint64 (cast_uint64 (s_lastclock s') - cast_uint64 (StepperPre.g_lastclock g)))
  | REnd s', StepperPre.Stop st' =>
      exists g', st' = StepperPre.put st id g' /\ StepperProofs.abs g' = s' /\
                 StepperPre.g_active g' = 0 /\ StepperPre.g_cur g' = None
  | RErr _, StepperPre.Fail e => e = StepperPre.E_FAIL
  | _, _ => False
  end.
Proof. exact StepperProofs.stream_step_from_source. Qed.
Print Assumptions C19_stream_step_from_source_partial.

(* stream_clkoff_set: refused once an event is loaded or when an offset is already set *)
Theorem C19_stream_clkoff_set_from_source_partial : forall sx st id off,
  (id < length (StepperPre.streams st))%nat ->
  Stepper_gen.stream_clkoff_set (Some id) off sx st =
  let g := nth id (StepperPre.streams st) StepperPre.g0 in
  if negb (is_null (StepperPre.g_cur g)) then StepperPre.Fail StepperPre.E_FAIL
  else if negb (StepperPre.g_clkoff g =? 0) then StepperPre.Fail StepperPre.E_FAIL
  else StepperPre.Done tt (StepperPre.put st id (StepperPre.w_clkoff off g)).
Proof. exact StepperProofs.stream_clkoff_set_gen. Qed.
Print Assumptions C19_stream_clkoff_set_from_source_partial.

(* a stream of two 12-byte events (clocks 10 and 30), clock offset -3: the generated stream_step loads
   them at offsets 8 and 20 with corrected clocks 7 and 27, then returns +1 with active = 0 *)
Definition ex_gstream : StepperPre.gstream :=
  StepperPre.mk_gstream (hdr ++ [0; 79; 72; 120; 10; 0; 0; 0; 0; 0; 0; 0] ++ [0; 79; 72; 101; 30; 0; 0; 0; 0; 0; 0; 0])
    zero_junk None 32 0 0 (-3) 1 0 8.
Definition ex_world : StepperPre.pstate :=
  StepperPre.mk_pstate [ex_gstream] (StepperPre.mk_gplayer [] 0 0 0 0 1 0 None None).
Definition ex_obs (r : StepperPre.res unit) : option (bool * (Z * Z * Z * Z)) :=
  let o s := let g := nth 0 (StepperPre.streams s) StepperPre.g0 in
             (StepperPre.g_offset g, StepperPre.g_lastclock g, StepperPre.g_deltaclock g, StepperPre.g_active g) in
  match r with StepperPre.Done _ s => Some (true, o s) | StepperPre.Stop s => Some (false, o s) | StepperPre.Fail _ => None end.
Definition ex_next (r : StepperPre.res unit) : StepperPre.res unit :=
  match r with StepperPre.Done _ s => Stepper_gen.stream_step (Some 0%nat) tt s | r => r end.
Example C19_ex_stream_step_from_source :
  let r1 := Stepper_gen.stream_step (Some 0%nat) tt ex_world in
  ex_obs r1 = Some (true, (8, 7, 7, 1)) /\ ex_obs (ex_next r1) = Some (true, (20, 27, 20, 1)) /\
  ex_obs (ex_next (ex_next r1)) = Some (false, (32, 27, 20, 0)).
Proof. vm_compute. auto. Qed.

(* Loading, from the source: the generated load_obs (check_stream_header inside) leaves a loadable stream with exactly
   the cursor StreamDefs.load_obs gives (offset 8, no event loaded, active iff something follows the header), of which
   C19_inv_loaded_partial then gives the invariant of the walk.  Partial: open / close / load_stream_fd (fstat + mmap;
   struct stat by value, MAP_FAILED) are primitives of StepperPre.v, stream_load's path and JSON handling and
   stream_progress are not translated, usize is not represented. *)
Theorem C19_stream_load_from_source_partial : forall sx st id path,
  (id < length (StepperPre.streams st))%nat ->
  let g := nth id (StepperPre.streams st) StepperPre.g0 in
  blen (StepperPre.g_buf g) < 2 ^ 63 ->
  match load_obs (StepperPre.g_buf g) (StepperPre.g_junk g) (negb (StepperPre.g_unsorted g =? 0)) with
  | LoadErr _ => Stepper_gen.load_obs (Some id) path sx st = StepperPre.Fail StepperPre.E_FAIL
  | Loaded s =>
      exists g', Stepper_gen.load_obs (Some id) path sx st = StepperPre.Done tt (StepperPre.put st id g') /\
        (StepperPre.g_cur g = None -> StepperPre.g_lastclock g = 0 -> StepperProofs.abs g' = s) /\
        (StepperPre.g_cur g = None -> StepperPre.g_clkoff g = 0 -> StepperProofs.gwf id g') /\
        StepperPre.g_buf g' = StepperPre.g_buf g /\ StepperPre.g_junk g' = StepperPre.g_junk g
  end.
Proof. exact StepperProofs.load_obs_from_source. Qed.
Print Assumptions C19_stream_load_from_source_partial.

(* a 20-byte file: header + one 12-byte event is loaded active at offset 8; a file with a wrong version is refused *)
Example C19_ex_stream_load_from_source :
  let mk bs := StepperPre.mk_pstate [StepperPre.mk_gstream bs zero_junk None 0 0 0 0 0 0 0] (StepperPre.mk_gplayer [] 0 0 0 0 1 0 None None) in
  let obs r := match r with
               | StepperPre.Done _ s => let g := nth 0 (StepperPre.streams s) StepperPre.g0 in
                                        Some (StepperPre.g_size g, StepperPre.g_offset g, StepperPre.g_active g)
               | _ => None end in
  obs (Stepper_gen.load_obs (Some 0%nat) None tt (mk (hdr ++ [0; 79; 72; 120; 10; 0; 0; 0; 0; 0; 0; 0]))) = Some (20, 8, 1) /\
  obs (Stepper_gen.load_obs (Some 0%nat) None tt (mk hdr)) = Some (8, 8, 0) /\
  obs (Stepper_gen.load_obs (Some 0%nat) None tt (mk [111; 118; 110; 105; 2; 0; 0; 0; 0])) = None /\
  obs (Stepper_gen.load_obs (Some 0%nat) None tt (mk [])) = None.
Proof. vm_compute. auto. Qed.
(* ==== end of block (unit stepper) ==== *)

(* ==== handlers of all models read in bounds (unit footprint, all models) ==== *)
(* Gen/FootAll_gen.v is regenerated on every run by translate/units/footprint.py (second output of the unit, same
   havoc mode of _stagec.py over Emu/FootPre.v as Gen/Foot_gen.v): the entry point model_<m>_event, process_ev and,
   where the file has them, simple() and context_switch() of nosv, nanos6, nodes, mpi, tampi, openmp and kernel
   /event.c, statement by statement.  process_ev of nosv and nanos6 calls the generated pre_task / pre_type of
   Gen/Foot_gen.v (payload_size guards, u32[0], u32[1], the jumbo label with its memchr); the static tables
   ss_table / fn_table are ARBITRARY rows (FootPre.opq_row: whatever {chan, action, state} the table holds, for every
   (c, v)), channels, threads and every untranslated callee are oracles, and the translator refuses (Unsupported,
   file:line) to pass the event to an untranslated callee that mentions `payload`.  The table-driven handlers and
   the kernel handler contain no payload read at all, which the generated text shows and the proof does not need.
   Together with model_ovni_event and mark_event of Gen/Foot_gen.v: for EVERY event (any m/c/v bytes, any payload
   bytes, any payload size including 0 = no payload, jumbo or not) and every oracle, none of the eight model entry
   points nor mark_event reads a byte of the payload outside the payload_size bytes of the event (an explicit read
   emu->ev->payload->arr[k] whose bytes are not inside fails with E_OOB; the theorem says E_OOB is not an outcome).
   All eight models + marks are covered; the name keeps _partial because C19 as a whole still has readers of
   trace bytes that are not translated: ev_spec.c:print_arg / ev_spec_print (payload printing of ovnidump and of
   the emulator's error path; has its own size test at ev_spec.c:372-380, modelled by hand in EvSpecDefs only),
   ovnidump.c (emit: ev_spec printing + raw payload hex dump), ovnisort.c beyond the ring / find_destination /
   execute_sort_plan of unit winsort (the event copy loops of write_events / sort_buf read ovni_ev_size bytes),
   emu_ev() itself (covered by unit loader's ovni_payload_size, not by this unit), the parson JSON reader of
   stream.json (not trace bytes but malformed input all the same), and, in FootPre, the C-string contract of the
   label handed to task_type_create (a NUL inside the payload is what pre_type establishes; the callee is not
   translated). *)
From OV Require Gen.FootAll_gen Proofs.FootAllProofs.
Theorem C19_all_handlers_read_in_bounds_partial : forall sx e,
  FootPre.exec (Foot_gen.model_ovni_event e) sx <> EmuCoreDefs.Err FootPre.E_OOB /\
  FootPre.exec (Foot_gen.mark_event e) sx <> EmuCoreDefs.Err FootPre.E_OOB /\
  FootPre.exec (FootAll_gen.nosv_model_nosv_event e) sx <> EmuCoreDefs.Err FootPre.E_OOB /\
  FootPre.exec (FootAll_gen.nanos6_model_nanos6_event e) sx <> EmuCoreDefs.Err FootPre.E_OOB /\
  FootPre.exec (FootAll_gen.nodes_model_nodes_event e) sx <> EmuCoreDefs.Err FootPre.E_OOB /\
  FootPre.exec (FootAll_gen.mpi_model_mpi_event e) sx <> EmuCoreDefs.Err FootPre.E_OOB /\
  FootPre.exec (FootAll_gen.tampi_model_tampi_event e) sx <> EmuCoreDefs.Err FootPre.E_OOB /\
  FootPre.exec (FootAll_gen.openmp_model_openmp_event e) sx <> EmuCoreDefs.Err FootPre.E_OOB /\
  FootPre.exec (FootAll_gen.kernel_model_kernel_event e) sx <> EmuCoreDefs.Err FootPre.E_OOB.
Proof. exact FootAllProofs.all_handlers_in_bounds. Qed.
Print Assumptions C19_all_handlers_read_in_bounds_partial.
