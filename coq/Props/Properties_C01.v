From OV Require Import Base.CInt Rt.CodecPre Gen.Codec_gen Rt.CodecDefs Rt.RtBufDefs Proofs.CodecProofs.
Local Open Scope Z_scope.
Theorem C01_const_jumbo : c_OVNI_EV_JUMBO = JUMBO_FLAG.
Proof. exact const_jumbo. Qed.
Print Assumptions C01_const_jumbo.
