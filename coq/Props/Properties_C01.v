(* C01 - Runtime stream fidelity: every emitted event lands once, in order, byte-exact.
   Only statements here; proofs are in Proofs/CodecProofs.v and Proofs/RtBufProofs.v.

   Model: Rt/RtBufDefs.v (`run fx cap ops clock`): the per-thread event buffer of
   src/rt/ovni.c after ovni_thread_init, driven by an arbitrary sequence of API calls `ops`
   (emit with any chunking of the payload, jumbo emit, flush, mark push/pop/set, thread free),
   with an arbitrary buffer capacity `cap` >= 64 (OVNI_MAX_EV_BUF = c_OVNI_MAX_EV_BUF is one
   instance) and an arbitrary list `clock` of the values ovni_clock_now() returns.
   ovni_payload_size / ovni_ev_size and all constants are the Gallina translation of the C
   in /repo's working tree (Gen/Codec_gen.v).  `fx` selects add_flush_events after (true) or
   before (false) the repair patches/fix-c02-flush-markers.diff: the C01 statements hold for both.
   The second component of the result is the log of the events handed to the library, in call
   order, as the caller knows them.

   fidelity log bytes (Rt/RtBufDefs.v) says: bytes = 8-byte header ++ encodings of a list of
   tagged events whose User-tagged ones are exactly `log` (same order, each once), whose
   Lib-tagged ones are OF[ / OF] markers without payload, and which is what the strict parser
   gives back for these bytes (so nothing else is in the stream). *)
From OV Require Import Base.CInt Rt.CodecPre Gen.Codec_gen Rt.CodecDefs Rt.RtBufDefs
  Proofs.CodecProofs Proofs.RtBufProofs.
Local Open Scope Z_scope.

(* all call sequences, all capacities >= 64 (hence every alignment of the buffer-full boundary),
   all clock values: what is on disk plus what is still buffered is faithful at every moment *)
Theorem C01_fidelity : forall fx cap ops clock s log,
  64 <= cap -> forallb op_wfb ops = true -> existsb is_free ops = false -> clock_u64b clock = true ->
  run fx cap ops clock = ROk (s, log) ->
  fidelity log (disk_bytes s ++ buf_bytes s).
Proof. exact fidelity_no_free. Qed.
Print Assumptions C01_fidelity.

(* once the thread has flushed and been freed the file alone holds every event; nothing is buffered *)
Theorem C01_after_free : forall fx cap ops clock s log,
  64 <= cap -> forallb op_wfb ops = true -> existsb is_free ops = false -> clock_u64b clock = true ->
  run fx cap (ops ++ [Flush; Free]) clock = ROk (s, log) ->
  fidelity log (disk_bytes s) /\ buf_bytes s = [] /\ ready s = false.
Proof. exact fidelity_after_free. Qed.
Print Assumptions C01_after_free.

(* unique decodability: "exactly once, in order, byte for byte" follows from equality of encodings *)
Theorem C01_roundtrip : forall es,
  Forall wf_uev es -> parse_stream (STREAM_HEADER ++ flat_map encode es) = POk es.
Proof. exact parse_stream_encode. Qed.
Print Assumptions C01_roundtrip.

(* ... and conversely the strict parser accepts nothing but such encodings *)
Theorem C01_parse_sound : forall bs es,
  Forall byte bs -> parse_stream bs = POk es ->
  bs = STREAM_HEADER ++ flat_map encode es /\ Forall wf_uev es.
Proof. exact parse_stream_sound. Qed.
Print Assumptions C01_parse_sound.

Theorem C01_encoding_injective : forall es1 es2,
  Forall wf_uev es1 -> Forall wf_uev es2 -> flat_map encode es1 = flat_map encode es2 -> es1 = es2.
Proof. exact encode_injective. Qed.
Print Assumptions C01_encoding_injective.

(* the flag nibble of ovni_payload_add, for all 256 flag bytes and all chunk sizes: the payload size
   grows by exactly the chunk, the reserved high nibble is untouched, sizes < 2 or beyond 16 die
   (whole-domain vm_compute sweep nibble_sweep lifted by zrange_forall) *)
Theorem C01_payload_add_nibble : forall ev buf ev',
  0 <= h_flags ev < 256 ->
  ovni_payload_add ev buf = Ret ev' ->
  ovni_payload_size ev' = ovni_payload_size ev + zlength buf /\
  Z.land (h_flags ev') 240 = Z.land (h_flags ev) 240 /\
  2 <= zlength buf /\ ovni_payload_size ev + zlength buf <= 16.
Proof. exact payload_add_nibble. Qed.
Print Assumptions C01_payload_add_nibble.

(* building an event chunk by chunk succeeds exactly for chunks >= 2 bytes adding up to <= 16 *)
Theorem C01_build_accepts : forall m c v chunks,
  chunks_okb chunks = true -> exists ev, build m c v chunks = Ret ev.
Proof. exact build_accepts. Qed.
Print Assumptions C01_build_accepts.

Theorem C01_build_refuses : forall m c v chunks,
  chunks_okb chunks = false -> build m c v chunks = Die.
Proof. exact build_die. Qed.
Print Assumptions C01_build_refuses.

(* calls the API refuses (a payload chunk of 0 or 1 bytes, more than 16 payload bytes, a jumbo whose
   16+n reaches the capacity, mark value 0) abort in every reachable state ... *)
Theorem C01_rejected_calls_abort : forall fx cap ops clock s log o,
  64 <= cap -> forallb op_wfb ops = true -> existsb is_free ops = false -> clock_u64b clock = true ->
  run fx cap ops clock = ROk (s, log) ->
  op_wfb o = true -> api_okb cap o = false -> clk s <> [] ->
  step fx cap o (s, log) = RAbort.
Proof. exact rejected_calls_abort. Qed.
Print Assumptions C01_rejected_calls_abort.

(* ... the accepted ones never abort and never run out of recursion fuel ... *)
Theorem C01_accepted_calls_proceed : forall fx cap ops clock s log o,
  64 <= cap -> forallb op_wfb ops = true -> existsb is_free ops = false -> clock_u64b clock = true ->
  run fx cap ops clock = ROk (s, log) ->
  op_wfb o = true -> api_okb cap o = true ->
  (exists st, step fx cap o (s, log) = ROk st) \/ step fx cap o (s, log) = RNoClock.
Proof. exact accepted_calls_proceed. Qed.
Print Assumptions C01_accepted_calls_proceed.

(* ... so a run that completes consisted of accepted calls only *)
Theorem C01_completed_run_only_accepted_calls : forall fx cap ops clock s log,
  64 <= cap -> forallb op_wfb ops = true -> existsb is_free ops = false -> clock_u64b clock = true ->
  run fx cap ops clock = ROk (s, log) -> forallb (api_okb cap) ops = true.
Proof. exact completed_run_only_accepted_calls. Qed.
Print Assumptions C01_completed_run_only_accepted_calls.

(* a program of accepted calls followed by flush + free always completes, given 5 clock values per call:
   the hypothesis `run ... = ROk` of the theorems above is satisfiable by every such program *)
Theorem C01_accepted_programs_complete : forall fx cap ops clock,
  64 <= cap -> forallb op_wfb ops = true -> existsb is_free ops = false -> forallb (api_okb cap) ops = true ->
  (5 * length ops + 5 <= length clock)%nat ->
  exists s log, run fx cap (ops ++ [Flush; Free]) clock = ROk (s, log).
Proof. exact run_total_free. Qed.
Print Assumptions C01_accepted_programs_complete.

Theorem C01_call_after_free_aborts : forall fx cap ops clock s log o,
  run fx cap (ops ++ [Free]) clock = ROk (s, log) -> clk s <> [] -> step fx cap o (s, log) = RAbort.
Proof. exact call_after_free_aborts. Qed.
Print Assumptions C01_call_after_free_aborts.

(* the explicit out-of-fuel answer of the model is never produced: fuel 4 is enough for cap >= 64 *)
Theorem C01_never_out_of_fuel : forall fx cap ops clock,
  64 <= cap -> forallb op_wfb ops = true -> run fx cap ops clock <> RNoFuel.
Proof. exact run_never_out_of_fuel. Qed.
Print Assumptions C01_never_out_of_fuel.

Theorem C01_parse_never_out_of_fuel : forall bs, parse_stream bs <> PNoFuel.
Proof. exact parse_stream_never_out_of_fuel. Qed.
Print Assumptions C01_parse_never_out_of_fuel.

(* the constants of the source are those of the documented format *)
Theorem C01_format_constants :
  c_OVNI_EV_JUMBO = 16 /\ c_sizeof_struct_ovni_ev_header = 12 /\ c_sizeof_union_ovni_ev_payload = 16 /\
  c_sizeof_struct_ovni_stream_header = 8 /\ c_OVNI_STREAM_VERSION = 1 /\ stream_header_image = STREAM_HEADER /\
  64 <= c_OVNI_MAX_EV_BUF.
Proof. exact format_constants. Qed.
Print Assumptions C01_format_constants.

(* non-vacuity: a 64-byte buffer, 12 calls, a 47-byte jumbo event (63 bytes in the buffer) straddling
   the boundary; the run completes, writes 8 times (the header, 6 automatic flushes - one of them the
   second flush behind the near-capacity jumbo - and the explicit one), leaves 8 markers (4 pairs) on
   disk and hands 10 events to the library; the code before the repair leaves 16 markers, nested *)
Definition ex_ops : list op :=
  [Emit 79 72 120 [[1; 2; 3; 4]; [5; 6; 7; 8]; [9; 10; 11; 12; 13; 14; 15; 16]];
   MarkPush 3 (-2); Emit 86 89 99 []; JumboEmit 79 66 46 (repeat 200 47);
   Emit 1 2 3 [[255; 0]]; MarkSet 7 9223372036854775807; JumboEmit 79 85 106 [];
   JumboEmit 0 255 7 (repeat 9 31); MarkPop 3 (-2); Emit 79 72 101 []].
Definition ex_clock : list Z :=
  [5; 5; 6; 18446744073709551615; 9; 10; 11; 12; 13; 14; 15; 16; 17; 18; 19; 20; 21; 22; 23; 24; 25; 26; 27; 28; 29; 30; 31; 32; 33; 34; 35; 36].

Definition count_markers (bs : list Z) : nat :=
  match parse_stream bs with POk es => length (filter is_markerb es) | _ => O end.

Example C01_ex_hypotheses :
  forallb op_wfb ex_ops = true /\ existsb is_free ex_ops = false /\ clock_u64b ex_clock = true /\
  forallb (api_okb 64) ex_ops = true.
Proof. vm_compute. repeat split. Qed.

Example C01_ex_run :
  match run true 64 (ex_ops ++ [Flush; Free]) ex_clock with
  | ROk (s, log) => length log = 10%nat /\ count_markers (disk_bytes s) = 8%nat /\ length (wr s) = 8%nat
  | _ => False
  end.
Proof. vm_compute. repeat split. Qed.

Example C01_ex_run_before_repair :
  match run false 64 (ex_ops ++ [Flush; Free]) ex_clock with
  | ROk (s, log) => length log = 10%nat /\ count_markers (disk_bytes s) = 16%nat /\ valid_stream (disk_bytes s) = false
  | _ => False
  end.
Proof. vm_compute. repeat split. Qed.

Example C01_ex_rejected :
  run true 64 [Emit 1 2 3 [[7]]] [1; 2] = RAbort /\
  run true 64 [Emit 1 2 3 [[1; 2; 3; 4; 5; 6; 7; 8]; [1; 2; 3; 4; 5; 6; 7; 8; 9]]] [1; 2] = RAbort /\
  run true 64 [JumboEmit 1 2 3 (repeat 0 48)] [1; 2] = RAbort /\
  run true 64 [MarkSet 1 0] [1; 2] = RAbort /\
  run true 64 [Free; Flush] [1; 2] = RAbort.
Proof. vm_compute. repeat split. Qed.

(* ==== BEGIN rtbuf-from-source (unit rtbuf, Gen/RtBuf_gen.v) ============================================
   The buffer functions of src/rt/ovni.c are regenerated on every run (translate/units/rtbuf.py): flush_evbuf,
   ovni_clock_now, ovni_ev_set_clock/get_clock/set_mcv, ovni_payload_add, add_flush_events, ovni_ev_add,
   ovni_ev_add_jumbo, ovni_flush, ovni_ev_emit, ovni_ev_jumbo_emit, ovni_mark_push/pop/set, over the prelude
   Rt/RtBufPre.v (state: ready, evlen, the flat bytes of evbuf, the write() calls, the clock input, the
   `struct ovni_ev` objects; primitives: write_evbuf = "write all or die", memcpy with bounds, clock_monotonic_now,
   die, `struct ovni_ev x = {0}`).  `api_call o` (Rt/RtBufApiDefs.v) is the caller's program for one `op` over the
   generated functions; `Rep cap g s` relates the generated code's state to the model's: same ready flag, same write()
   calls, same remaining clock input, and while ready the same evlen and the same bytes in evbuf[0..evlen).
   Proofs: Proofs/RtBufGenProofs.v.  Capacities: every 64 <= cap < 2^63 (OVNI_MAX_EV_BUF is a long long). *)
From OV Require Import Rt.RtBufPre Rt.RtBufApiDefs Proofs.RtBufGenProofs.

(* one API call of the generated code = RtBufDefs.step (fx = true: the code after 417af60) on the same op: both
   complete in related states, or both die, or both exhaust the clock input / the fuel; never an invalid memory
   access (E_TRAP) *)
Theorem C01_buffer_ops_from_source : forall cap o g s log,
  64 <= cap < 2 ^ 63 -> op_cb o = true -> Rep cap g s ->
  match api_call o (env_of cap) g, step true cap o (s, log) with
  | Ok (_, g'), ROk (s', _) => Rep cap g' s'
  | Err e, RAbort => e = E_DIE
  | Err e, RNoClock => e = E_NOCLOCK
  | Err e, RNoFuel => e = E_NOFUEL
  | _, _ => False
  end.
Proof. exact buffer_ops_from_source. Qed.
Print Assumptions C01_buffer_ops_from_source.

(* what Rep means for the observable bytes *)
Theorem C01_rep_same_bytes : forall cap g s, Rep cap g s ->
  g_disk_bytes g = disk_bytes s /\ g_clk g = clk s /\ (g_ready g <> 0 <-> ready s = true) /\
  (ready s = true -> g_evlen g = evlen s /\ g_buf_bytes g = buf_bytes s).
Proof. exact rep_same_bytes. Qed.
Print Assumptions C01_rep_same_bytes.

(* whole call sequences from the state ovni_thread_init leaves *)
Theorem C01_runs_from_source : forall cap ops clock,
  64 <= cap < 2 ^ 63 -> forallb op_cb ops = true ->
  match api_run ops (env_of cap) (g_init clock), run true cap ops clock with
  | Ok (_, g'), ROk (s', _) => Rep cap g' s'
  | Err e, RAbort => e = E_DIE
  | Err e, RNoClock => e = E_NOCLOCK
  | Err e, RNoFuel => e = E_NOFUEL
  | _, _ => False
  end.
Proof. exact runs_from_source. Qed.
Print Assumptions C01_runs_from_source.

(* hence C01_fidelity is a statement about the generated code *)
Theorem C01_generated_code_fidelity : forall cap ops clock g',
  64 <= cap < 2 ^ 63 -> forallb op_cb ops = true -> existsb is_free ops = false -> clock_u64b clock = true ->
  api_run ops (env_of cap) (g_init clock) = Ok (tt, g') ->
  exists s log, run true cap ops clock = ROk (s, log) /\ fidelity log (g_disk_bytes g' ++ g_buf_bytes g').
Proof. exact generated_code_fidelity. Qed.
Print Assumptions C01_generated_code_fidelity.

(* the generated code never needs more fuel than FUEL and never makes an invalid memory access *)
Theorem C01_generated_code_failures : forall cap ops clock e,
  64 <= cap < 2 ^ 63 -> forallb op_cb ops = true ->
  api_run ops (env_of cap) (g_init clock) = Err e -> e = E_DIE \/ e = E_NOCLOCK.
Proof. exact generated_code_failures. Qed.
Print Assumptions C01_generated_code_failures.

(* function by function (the statements the mutations break): *)
Theorem C01_ev_add_from_source : forall cap fuel p g s pl ev,
  64 <= cap < 2 ^ 63 -> Rep cap g s -> has_ev g p ev -> built pl ev ->
  same_outcome (RE cap g) (G.ovni_ev_add fuel p (env_of cap) g) (ovni_ev_add true cap fuel ev s).
Proof. intros cap fuel p g s pl ev H. exact (ev_add_sim cap H fuel p g s pl ev). Qed.
Print Assumptions C01_ev_add_from_source.

Theorem C01_add_jumbo_from_source : forall cap fuel p g s ev data,
  64 <= cap < 2 ^ 63 -> Rep cap g s -> has_ev g p ev -> built [] ev -> zlength data < 2 ^ 32 ->
  same_outcome (Rep cap) (G.ovni_ev_add_jumbo fuel p (P_data data) (zlength data) (env_of cap) g)
               (ovni_ev_add_jumbo true cap fuel ev data s).
Proof. intros cap fuel p g s ev data H. exact (add_jumbo_sim cap H fuel p g s ev data). Qed.
Print Assumptions C01_add_jumbo_from_source.

Theorem C01_flush_from_source : forall cap fuel g s,
  64 <= cap < 2 ^ 63 -> Rep cap g s ->
  same_outcome (Rep cap) (G.ovni_flush fuel (env_of cap) g) (ovni_flush true cap fuel s).
Proof. intros cap fuel g s H. exact (flush_sim cap H fuel g s). Qed.
Print Assumptions C01_flush_from_source.

Theorem C01_payload_add_from_source : forall cap g p pl ev bs,
  has_ev g p ev -> built pl ev -> zlength bs < 2 ^ 31 ->
  G.ovni_payload_add p (P_data bs) (zlength bs) (env_of cap) g =
  match CodecDefs.ovni_payload_add ev bs with Die => Err E_DIE | Ret ev' => Ok (tt, gset g p ev') end.
Proof. exact payload_add_run. Qed.
Print Assumptions C01_payload_add_from_source.

(* non-vacuity: a program like the example of this file on the generated code with a 128-byte buffer: a 100-byte jumbo
   overflows it (forced flushes, 5 writes, 3 marker pairs); a jumbo of 16 + 112 bytes does not fit at all: die *)
Definition ex_gen_ops : list op :=
  [Emit 79 72 120 [[1; 2; 3; 4]; [5; 6; 7; 8]; [9; 10; 11; 12; 13; 14; 15; 16]];
   MarkPush 3 (-2); Emit 86 89 99 []; JumboEmit 79 66 46 (repeat 47 100);
   Emit 1 2 3 [[255; 0]]; MarkSet 7 9223372036854775807; JumboEmit 79 85 106 [];
   JumboEmit 0 255 7 (repeat 9 31); MarkPop 3 (-2); Emit 79 72 101 []; Flush].

Example C01_ex_generated_hypotheses : forallb op_cb ex_gen_ops = true /\ forallb op_cb ex_ops = true.
Proof. vm_compute. repeat split. Qed.

Example C01_ex_generated_run :
  match api_run ex_gen_ops (env_of 128) (g_init ex_clock), run true 128 ex_gen_ops ex_clock with
  | Ok (_, g'), ROk (s', log) =>
    g_disk_bytes g' = disk_bytes s' /\ g_buf_bytes g' = buf_bytes s' /\ g_clk g' = clk s' /\
    length (g_wr g') = 5%nat /\ length log = 10%nat /\ count_markers (g_disk_bytes g' ++ g_buf_bytes g') = 6%nat
  | _, _ => False
  end.
Proof. vm_compute. repeat split. Qed.

Example C01_ex_generated_too_large_jumbo_dies :
  api_run (ex_gen_ops ++ [JumboEmit 79 66 46 (repeat 47 112)]) (env_of 128) (g_init ex_clock) = Err E_DIE /\
  run true 128 (ex_gen_ops ++ [JumboEmit 79 66 46 (repeat 47 112)]) ex_clock = RAbort.
Proof. vm_compute. repeat split. Qed.
(* ==== END rtbuf-from-source ==== *)
