(* C14 - Version gating follows semantic versioning in the runtime and in the emulator.
   Only statements here; proofs are in Proofs/VersionProofs.v.
   version_is_compatible and ovni_version_check_str are the Gallina translation
   (Gen/Version_gen.v) of the C functions in /repo's current working tree. *)
From OV Require Import Base.CInt Emu.VersionDefs Gen.Version_gen Proofs.VersionProofs.
Local Open Scope Z_scope.

(* accepted <-> same major and minor not greater (patch ignored), for all int triples *)
Theorem C14_compat_iff : forall want have,
  version_is_compatible want have = 1 <-> (ix want 0 = ix have 0 /\ ix want 1 <= ix have 1).
Proof. exact compat_iff. Qed.
Print Assumptions C14_compat_iff.

Theorem C14_compat_patch_ignored : forall a b c c' h,
  version_is_compatible [a; b; c] h = version_is_compatible [a; b; c'] h.
Proof. exact compat_patch_ignored. Qed.
Print Assumptions C14_compat_patch_ignored.

(* the acceptance relation of the translated function is an order on (major, minor): reflexive, transitive,
   antisymmetric up to patch, closed towards older requests and newer providers; every refusal returns 0 and
   has one of the two stated causes *)
Theorem C14_compat_refl : forall v, version_is_compatible v v = 1.
Proof. exact compat_refl. Qed.
Print Assumptions C14_compat_refl.

Theorem C14_compat_trans : forall a b c,
  version_is_compatible a b = 1 -> version_is_compatible b c = 1 -> version_is_compatible a c = 1.
Proof. exact compat_trans. Qed.
Print Assumptions C14_compat_trans.

Theorem C14_compat_antisym_minor : forall a b,
  version_is_compatible a b = 1 -> version_is_compatible b a = 1 ->
  ix a 0 = ix b 0 /\ ix a 1 = ix b 1.
Proof. exact compat_antisym_minor. Qed.
Print Assumptions C14_compat_antisym_minor.

Theorem C14_compat_older_request : forall want want' have,
  version_is_compatible want have = 1 ->
  ix want' 0 = ix want 0 -> ix want' 1 <= ix want 1 ->
  version_is_compatible want' have = 1.
Proof. exact compat_older_request. Qed.
Print Assumptions C14_compat_older_request.

Theorem C14_compat_newer_provider : forall want have have',
  version_is_compatible want have = 1 ->
  ix have' 0 = ix have 0 -> ix have 1 <= ix have' 1 ->
  version_is_compatible want have' = 1.
Proof. exact compat_newer_provider. Qed.
Print Assumptions C14_compat_newer_provider.

Theorem C14_compat_refused_iff : forall want have,
  (ix want 0 <> ix have 0 \/ ix have 1 < ix want 1) <-> version_is_compatible want have = 0.
Proof. exact compat_refused. Qed.
Print Assumptions C14_compat_refused_iff.

Example C14_ex_compat_order :
  version_is_compatible [1; 4; 9] [1; 11; 0] = 1 /\ version_is_compatible [1; 12; 0] [1; 11; 0] = 0 /\
  version_is_compatible [2; 0; 0] [1; 11; 0] = 0.
Proof. vm_compute. repeat split. Qed.

(* the runtime check returns normally exactly for parsable, compatible strings; otherwise it aborts *)
Theorem C14_runtime_check_iff : forall s,
  ovni_version_check_str s = Ret tt <->
  exists w h, version_parse s = Some w /\ version_parse (Some OVNI_LIB_VERSION) = Some h /\
              ix w 0 = ix h 0 /\ ix w 1 <= ix h 1.
Proof. exact check_str_iff. Qed.
Print Assumptions C14_runtime_check_iff.

Theorem C14_runtime_check_total : forall s,
  ovni_version_check_str s = Ret tt \/ ovni_version_check_str s = Die.
Proof. exact check_str_total. Qed.
Print Assumptions C14_runtime_check_total.

(* every well-formed version (optionally followed by .x or -x) parses to its components *)
Theorem C14_parse_render : forall a b c rest,
  0 <= a < 2 ^ 31 -> 0 <= b < 2 ^ 31 -> 0 <= c < 2 ^ 31 ->
  (rest = [] \/ exists x r, rest = x :: r /\ mem x [DOT; DASH] = true) ->
  (length rest <= 1)%nat \/ (length (render a b c ++ rest) < 64)%nat ->
  version_parse (Some (render a b c ++ rest)) = Some [a; b; c].
Proof. exact parse_render_suffix. Qed.
Print Assumptions C14_parse_render.

(* malformed strings are refused *)
Theorem C14_malformed_null : version_parse None = None.
Proof. exact parse_null. Qed.
Print Assumptions C14_malformed_null.

Theorem C14_malformed_too_long : forall s, (64 <= length s)%nat -> version_parse (Some s) = None.
Proof. exact parse_too_long. Qed.
Print Assumptions C14_malformed_too_long.

Theorem C14_malformed_few_components : forall s, (dots s <= 1)%nat -> version_parse (Some s) = None.
Proof. exact parse_few_components. Qed.
Print Assumptions C14_malformed_few_components.

(* shape A.B.C[rest]: the result is decided by the three components alone *)
Theorem C14_parse_structured : forall A B C rest,
  A <> [] -> B <> [] -> C <> [] ->
  nodelim [DOT] A -> nodelim [DOT] B -> nodelim [DOT; DASH] C ->
  (rest = [] \/ exists c r, rest = c :: r /\ mem c [DOT; DASH] = true) ->
  (length (A ++ DOT :: B ++ DOT :: C ++ rest) < 64)%nat ->
  version_parse (Some (A ++ DOT :: B ++ DOT :: C ++ rest)) =
  match parse_num A, parse_num B, parse_num C with
  | Some a, Some b, Some c => Some [a; b; c]
  | _, _, _ => None
  end.
Proof. exact version_parse_structured. Qed.
Print Assumptions C14_parse_structured.

(* ... and a component is refused when it holds a non-numeric character, no digit, or is negative *)
Theorem C14_malformed_component_char : forall tok c, In c tok -> bad_char c -> parse_num tok = None.
Proof. exact parse_num_bad_char. Qed.
Print Assumptions C14_malformed_component_char.

Theorem C14_malformed_component_nodigit : forall tok,
  (forall c, In c tok -> is_digit c = false) -> parse_num tok = None.
Proof. exact parse_num_empty_digits. Qed.
Print Assumptions C14_malformed_component_nodigit.

Theorem C14_malformed_component_negative : forall d,
  d <> [] -> Forall (fun c => is_digit c = true) d -> 0 < digits_value d ->
  parse_num (45 :: d) = None.
Proof. exact parse_num_negative. Qed.
Print Assumptions C14_malformed_component_negative.

Theorem C14_malformed_component_too_large : forall d,
  Forall (fun c => is_digit c = true) d -> 2 ^ 31 <= digits_value d -> parse_num d = None.
Proof. exact parse_num_too_large. Qed.
Print Assumptions C14_malformed_component_too_large.

(* emulator: model_probe fails exactly when some model's requirement is unusable,
   otherwise a model is enabled iff -a or some thread requires it compatibly *)
Theorem C14_enable_error_iff : forall always models ts all,
  model_probe version_is_compatible always models ts all = None <->
  exists id name ver, In (id, name, ver) models /\ model_bad name ver ts.
Proof. exact model_probe_none. Qed.
Print Assumptions C14_enable_error_iff.

(* `always` is the set of models whose probe never reports "disabled" (the base model 'O' in the
   current source).  For every other model: enabled <-> -a or required with a compatible version. *)
Theorem C14_enable_iff : forall always models ts all en,
  NoDup (map (fun m => fst (fst m)) models) ->
  model_probe version_is_compatible always models ts all = Some en ->
  forall id name ver, In (id, name, ver) models ->
    (In id en <-> all = true \/ always id = true \/ model_required name ver ts).
Proof. exact model_probe_enabled. Qed.
Print Assumptions C14_enable_iff.

(* The property's "exactly when some stream requires it" is false of the base model: it is enabled
   although no stream requires it (witness: one thread with an empty require table). *)
Theorem C14_enable_exactly_refuted :
  exists ts en, model_probe version_is_compatible (Z.eqb 79) [(79, [111], render 1 1 0)] ts false = Some en /\
                In 79 en /\ ~ model_required [111] (render 1 1 0) ts.
Proof. exact base_model_always_enabled. Qed.
Print Assumptions C14_enable_exactly_refuted.

Theorem C14_disabled_rejected : forall registered enabled m,
  mem m enabled = false -> model_event_admitted registered enabled m = false.
Proof. exact disabled_rejected. Qed.
Print Assumptions C14_disabled_rejected.

(* non-vacuity: concrete instances of the hypotheses *)
Example C14_ex_parse : version_parse (Some (render 1 11 0 ++ [DASH; 114; 99])) = Some [1; 11; 0].
Proof. vm_compute. reflexivity. Qed.
Example C14_ex_probe :
  model_probe version_is_compatible (fun _ => false) [(86, [110], render 2 2 0); (79, [111], render 1 1 0)]
    [Some [([110], render 2 1 5)]; Some []] false = Some [86].
Proof. vm_compute. reflexivity. Qed.
Example C14_ex_probe_bad :
  model_probe version_is_compatible (fun _ => false) [(86, [110], render 2 2 0)] [Some [([110], render 2 3 0)]] false = None.
Proof. vm_compute. reflexivity. Qed.

(* ==== metadata gates from source (unit meta) ==== *)
(* model.c should_enable, GENERATED from the C source (Gen/Meta_gen.v, unit meta; version_parse is VersionDefs.version_parse and
   version_is_compatible the generated Gen/Version_gen.v, both called, not re-translated), on a thread whose metadata is the tree
   fs, is the per-thread step VersionDefs.should_enable of the enable rule on the "ovni.require" entries of that tree
   (RtMetaDefs.to_thread_req): -1 = PErr, 0 = POff, 1 = POn.  Hypothesis: the require object has no repeated name (json_parse
   refuses such a file; parson looks up the FIRST member of a name, whatever its type). *)
From OV Require Emu.MetaPre Gen.Meta_gen Proofs.MetaGenProofs Rt.RtMetaDefs.
Theorem C14_should_enable_from_source : forall name have fs st,
  MetaPre.th_meta st = Some fs ->
  (forall r, RtMetaDefs.pget fs [RtMetaDefs.k_ovni; RtMetaDefs.k_require] = Some (RtMetaDefs.jobj r) -> RtMetaDefs.nodup_keys (map fst r) = true) ->
  Meta_gen.should_enable (MetaPre.mkE (Some name) version_is_compatible) st have tt tt =
  MetaGenProofs.probe_code (should_enable version_is_compatible have name (RtMetaDefs.to_thread_req (RtMetaDefs.jobj fs))).
Proof. exact MetaGenProofs.should_enable_from_source_gen. Qed.
Print Assumptions C14_should_enable_from_source.

Example C14_ex_should_enable_from_source :
  let st := MetaPre.mkM (Some MetaGenProofs.ex_fs) 1 1 4 (Some MetaGenProofs.ex_fs) in
  Meta_gen.should_enable (MetaGenProofs.ex_sx [110; 111; 115; 118]) st [2; 5; 1] tt tt = 1 /\
  Meta_gen.should_enable (MetaGenProofs.ex_sx [110; 111; 115; 118]) st [2; 4; 0] tt tt = -1 /\
  Meta_gen.should_enable (MetaGenProofs.ex_sx [110; 111; 115; 118]) st [3; 0; 0] tt tt = -1 /\
  Meta_gen.should_enable (MetaGenProofs.ex_sx [116; 97; 109; 112; 105]) st [1; 0; 0] tt tt = 0.
Proof. repeat split; vm_compute; reflexivity. Qed.
(* ==== end of block (unit meta) ==== *)

(* ==== version gating from source (unit vparse) ==== *)
(* src/include/version.h version_parse and src/emu/model.c model_version_probe, GENERATED from the C source (Gen/VParse_gen.v over
   Emu/VParsePre.v; strtok_r, strtol with errno/endptr, strlen, strcpy, snprintf are primitives built from the SAME functions
   VersionDefs uses; the 3-round loop is unrolled by the translator, the thread loop is a fold; should_enable is the generated
   Meta_gen.should_enable).  nonul: a C string holds no NUL byte. *)
From OV Require Emu.VParsePre Gen.VParse_gen Proofs.VParseProofs Emu.MetaPre Rt.RtMetaDefs.
Theorem C14_version_parse_from_source : forall (p : VParsePre.cptr) st,
  (forall a s, p = Some (a, s) -> VParseProofs.nonul s) ->
  match version_parse (VParsePre.cstr p) with
  | Some l => exists e, VParsePre.out_tuple (VParse_gen.version_parse p tt) st = VParsePre.VOk (l, VParsePre.mkV e (VParsePre.v_save st) (VParsePre.v_tuple st))
  | None => VParsePre.out_tuple (VParse_gen.version_parse p tt) st = VParsePre.VErr VParsePre.E_FAIL
  end.
Proof. exact VParseProofs.version_parse_from_source. Qed.
Print Assumptions C14_version_parse_from_source.

Theorem C14_model_version_probe_from_source : forall spec emu st an name av ver,
  VParsePre.sp_name spec = Some (an, name) -> VParsePre.sp_version spec = Some (av, ver) -> VParseProofs.nonul ver ->
  (VParsePre.slen name + 8 < 128)%Z -> Forall VParseProofs.req_ok (VParsePre.e_threads emu) ->
  match model_version_probe version_is_compatible name ver (map VParseProofs.req_of (VParsePre.e_threads emu)) with
  | PErr => VParse_gen.model_version_probe spec emu st = VParsePre.VErr VParsePre.E_FAIL
  | POff => exists e, VParse_gen.model_version_probe spec emu st = VParsePre.VOk (0, VParsePre.mkV e (VParsePre.v_save st) (VParsePre.v_tuple st))
  | POn => exists e, VParse_gen.model_version_probe spec emu st = VParsePre.VOk (1, VParsePre.mkV e (VParsePre.v_save st) (VParsePre.v_tuple st))
  end.
Proof. exact VParseProofs.model_version_probe_from_source. Qed.
Print Assumptions C14_model_version_probe_from_source.

Theorem C14_enable_iff_from_source : forall spec emu st an name av ver have,
  VParsePre.sp_name spec = Some (an, name) -> VParsePre.sp_version spec = Some (av, ver) -> VParseProofs.nonul ver ->
  (VParsePre.slen name + 8 < 128)%Z -> Forall VParseProofs.req_ok (VParsePre.e_threads emu) -> version_parse (Some ver) = Some have ->
  ((exists e, VParse_gen.model_version_probe spec emu st = VParsePre.VOk (1, VParsePre.mkV e (VParsePre.v_save st) (VParsePre.v_tuple st))) <->
   probe_threads version_is_compatible have name (map VParseProofs.req_of (VParsePre.e_threads emu)) false = POn) /\
  (VParse_gen.model_version_probe spec emu st = VParsePre.VErr VParsePre.E_FAIL <->
   probe_threads version_is_compatible have name (map VParseProofs.req_of (VParsePre.e_threads emu)) false = PErr).
Proof. exact VParseProofs.enable_iff_from_source. Qed.
Print Assumptions C14_enable_iff_from_source.

Example C14_ex_version_parse_from_source :
  let run s := VParsePre.out_tuple (VParse_gen.version_parse (Some (1000, s)) tt) (VParsePre.mkV 7 None []) in
  run [49; 46; 50; 46; 51] = VParsePre.VOk ([1; 2; 3], VParsePre.mkV 0 None []) /\                      (* "1.2.3" *)
  run [52; 50; 57; 52; 57; 54; 55; 50; 57; 55; 46; 49; 46; 48] = VParsePre.VErr VParsePre.E_FAIL /\     (* "4294967297.1.0" *)
  run [32; 49; 46; 50; 46; 51] = VParsePre.VOk ([1; 2; 3], VParsePre.mkV 0 None []) /\                  (* " 1.2.3": strtol skips the blank *)
  run [49; 46; 46; 50; 46; 51] = VParsePre.VOk ([1; 2; 3], VParsePre.mkV 0 None []) /\                  (* "1..2.3": strtok_r skips the empty field *)
  run [49; 46; 50] = VParsePre.VErr VParsePre.E_FAIL /\                                                 (* "1.2": no patch number *)
  version_parse (Some [32; 49; 46; 50; 46; 51]) = Some [1; 2; 3] /\ version_parse (Some [49; 46; 46; 50; 46; 51]) = Some [1; 2; 3].
Proof. repeat split; vm_compute; reflexivity. Qed.

Example C14_ex_model_version_probe_from_source :
  let spec v := VParsePre.mkSpec (Some (1, [110; 111; 115; 118])) (Some (2, v)) in
  let emu := VParsePre.mkEmu [Some MetaGenProofs.ex_fs; Some MetaGenProofs.ex_fs] in
  VParse_gen.model_version_probe (spec [50; 46; 53; 46; 49]) emu (VParsePre.mkV 0 None []) = VParsePre.VOk (1, VParsePre.mkV 0 None []) /\
  VParse_gen.model_version_probe (spec [51; 46; 48; 46; 48]) emu (VParsePre.mkV 0 None []) = VParsePre.VErr VParsePre.E_FAIL /\
  VParse_gen.model_version_probe (spec [50; 46; 53; 46; 49]) (VParsePre.mkEmu []) (VParsePre.mkV 0 None []) = VParsePre.VOk (0, VParsePre.mkV 0 None []).
Proof. repeat split; vm_compute; reflexivity. Qed.
(* ==== end of block (unit vparse) ==== *)
