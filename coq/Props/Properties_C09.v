(* C09 - Crash consistency: a killed run is never accepted with flushed events missing; a stream is
   marked finished only after all its flushed bytes are in their final place.
   Only statements here; model and spec: Rt/RtFsDefs.v; proofs: Proofs/RtFsProofs.v.
   The theorems are about the REPAIRED relocation (patches/fix-c10-c09-move-to-final.diff, variant New
   of the model); the *_refuted_old statements are about the relocation as found (variant Old).
   proof (partial): kernel/file-system semantics, stdio buffering (any buffer size is covered) and
   power loss are not exhibited by the model; they are assumptions sampled by lib/checks/c09.py. *)
From Coq Require Import ZArith List.
From OV Require Import Rt.RtFsDefs Proofs.RtFsProofs.
Import ListNotations.
Local Open Scope Z_scope.

(* direct mode, every program (any number of threads and flushes), every crash point k, every stdio
   buffer size: if the final directory is accepted, every visible stream holds all bytes its thread
   had passed to write() before the kill ... *)
Theorem C09_direct : forall bufsz P rho, wf_program P -> wf_order rho ->
  C09_sentence1 bufsz Direct P rho /\ C09_sentence2 bufsz Direct P rho.
Proof. intros; split; [apply C09_s1_all | apply C09_s2_all]; assumption. Qed.
Print Assumptions C09_direct.

(* OVNI_TMPDIR mode, sentence 1, every readdir order rho of the three directory passes *)
Theorem C09_tmpdir_s1 : forall bufsz P rho, wf_program P -> wf_order rho ->
  C09_sentence1 bufsz TmpMode P rho.
Proof. intros; apply C09_s1_all; assumption. Qed.
Print Assumptions C09_tmpdir_s1.

(* OVNI_TMPDIR mode, sentence 2: stream.json with finished = 1 is visible in the final directory only
   when stream.obs there holds every byte the thread ever writes (and all of them are flushed) *)
Theorem C09_tmpdir_s2 : forall bufsz P rho, wf_program P -> wf_order rho ->
  C09_sentence2 bufsz TmpMode P rho.
Proof. intros; apply C09_s2_all; assumption. Qed.
Print Assumptions C09_tmpdir_s2.

(* the relocation as found violates both sentences (witness replayed by lib/checks/c09.py) *)
Theorem C09_tmpdir_s2_refuted_old :
  exists bufsz P rho k th, wf_program P /\ wf_order rho /\ In th P /\
    let s := apply_prefix bufsz k (trace_of_program_v Old TmpMode P rho) in
    json_finished (content s (PFile Fin (th_tid th) Json)) = true /\
    files s (PFile Fin (th_tid th) Obs) <> Some (all_bytes th).
Proof. exact RtFsProofs.C09_tmpdir_s2_refuted_old. Qed.
Print Assumptions C09_tmpdir_s2_refuted_old.

Theorem C09_tmpdir_s1_refuted_old :
  exists bufsz P rho k t, wf_program P /\ wf_order rho /\ In t (tids P) /\
    let s := apply_prefix bufsz k (trace_of_program_v Old TmpMode P rho) in
    emu_ok s Fin (tids P) = true /\ visible s Fin t = true /\
    is_prefix (flushed_of (firstn k (trace_of_program_v Old TmpMode P rho)) t) (content s (PFile Fin t Obs)) = false.
Proof. exact RtFsProofs.C09_tmpdir_s1_refuted_old. Qed.
Print Assumptions C09_tmpdir_s1_refuted_old.

(* non-vacuity: the hypotheses are met by a real state - after the complete run of a one-thread program
   (two flushes) in OVNI_TMPDIR mode the final directory is accepted, the stream is visible and finished *)
Example C09_nonvacuous_tmpdir :
  let s := apply_prefix 4096 1000 (trace_of_program TmpMode P_w rho_json_first) in
  emu_ok s Fin (tids P_w) = true /\ visible s Fin 5 = true /\
  json_finished (content s (PFile Fin 5 Json)) = true /\
  flushed TmpMode P_w rho_json_first 1000 5 = all_bytes th_w.
Proof. cbv zeta. repeat split; vm_compute; reflexivity. Qed.

Example C09_nonvacuous_direct :
  let s := apply_prefix 4096 1000 (trace_of_program Direct P_w rho_obs_first) in
  emu_ok s Fin (tids P_w) = true /\ visible s Fin 5 = true /\
  json_finished (content s (PFile Fin 5 Json)) = true.
Proof. cbv zeta. repeat split; vm_compute; reflexivity. Qed.

(* ... and a crash point at which the stream is visible but not accepted (metadata without finished) *)
Example C09_rejected_midway :
  let s := apply_prefix 4096 12 (trace_of_program Direct P_w rho_obs_first) in
  visible s Fin 5 = true /\ emu_ok s Fin (tids P_w) = false.
Proof. cbv zeta. split; vm_compute; reflexivity. Qed.
