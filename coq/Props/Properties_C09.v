(* C09 - Crash consistency: a killed run is never accepted with flushed events missing; a stream is
   marked finished only after all its flushed bytes are in their final place.
   Only statements here; model and spec: Rt/RtFsDefs.v; proofs: Proofs/RtFsProofs.v.
   The theorems are about the REPAIRED relocation (patches/fix-c10-c09-move-to-final.diff, variant New
   of the model); the *_refuted_old statements are about the relocation as found (variant Old).
   proof (partial): kernel/file-system semantics, stdio buffering (any buffer size is covered) and
   power loss are not exhibited by the model; they are assumptions sampled by lib/checks/c09.py. *)
From Coq Require Import ZArith List.
From OV Require Import Rt.RtFsDefs Proofs.RtFsProofs.
Import ListNotations.
Local Open Scope Z_scope.

(* direct mode, every program (any number of threads and flushes), every crash point k, every stdio
   buffer size: if the final directory is accepted, every visible stream holds all bytes its thread
   had passed to write() before the kill ... *)
Theorem C09_direct : forall bufsz P rho, wf_program P -> wf_order rho ->
  C09_sentence1 bufsz Direct P rho /\ C09_sentence2 bufsz Direct P rho.
Proof. intros; split; [apply C09_s1_all | apply C09_s2_all]; assumption. Qed.
Print Assumptions C09_direct.

(* OVNI_TMPDIR mode, sentence 1, every readdir order rho of the three directory passes *)
Theorem C09_tmpdir_s1 : forall bufsz P rho, wf_program P -> wf_order rho ->
  C09_sentence1 bufsz TmpMode P rho.
Proof. intros; apply C09_s1_all; assumption. Qed.
Print Assumptions C09_tmpdir_s1.

(* OVNI_TMPDIR mode, sentence 2: stream.json with finished = 1 is visible in the final directory only
   when stream.obs there holds every byte the thread ever writes (and all of them are flushed) *)
Theorem C09_tmpdir_s2 : forall bufsz P rho, wf_program P -> wf_order rho ->
  C09_sentence2 bufsz TmpMode P rho.
Proof. intros; apply C09_s2_all; assumption. Qed.
Print Assumptions C09_tmpdir_s2.

(* the relocation as found violates both sentences (witness replayed by lib/checks/c09.py) *)
Theorem C09_tmpdir_s2_refuted_old :
  exists bufsz P rho k th, wf_program P /\ wf_order rho /\ In th P /\
    let s := apply_prefix bufsz k (trace_of_program_v Old TmpMode P rho) in
    json_finished (content s (PFile Fin (th_tid th) Json)) = true /\
    files s (PFile Fin (th_tid th) Obs) <> Some (all_bytes th).
Proof. exact RtFsProofs.C09_tmpdir_s2_refuted_old. Qed.
Print Assumptions C09_tmpdir_s2_refuted_old.

Theorem C09_tmpdir_s1_refuted_old :
  exists bufsz P rho k t, wf_program P /\ wf_order rho /\ In t (tids P) /\
    let s := apply_prefix bufsz k (trace_of_program_v Old TmpMode P rho) in
    emu_ok s Fin (tids P) = true /\ visible s Fin t = true /\
    is_prefix (flushed_of (firstn k (trace_of_program_v Old TmpMode P rho)) t) (content s (PFile Fin t Obs)) = false.
Proof. exact RtFsProofs.C09_tmpdir_s1_refuted_old. Qed.
Print Assumptions C09_tmpdir_s1_refuted_old.

(* non-vacuity: the hypotheses are met by a real state - after the complete run of a one-thread program
   (two flushes) in OVNI_TMPDIR mode the final directory is accepted, the stream is visible and finished *)
Example C09_nonvacuous_tmpdir :
  let s := apply_prefix 4096 1000 (trace_of_program TmpMode P_w rho_json_first) in
  emu_ok s Fin (tids P_w) = true /\ visible s Fin 5 = true /\
  json_finished (content s (PFile Fin 5 Json)) = true /\
  flushed TmpMode P_w rho_json_first 1000 5 = all_bytes th_w.
Proof. cbv zeta. repeat split; vm_compute; reflexivity. Qed.

Example C09_nonvacuous_direct :
  let s := apply_prefix 4096 1000 (trace_of_program Direct P_w rho_obs_first) in
  emu_ok s Fin (tids P_w) = true /\ visible s Fin 5 = true /\
  json_finished (content s (PFile Fin 5 Json)) = true.
Proof. cbv zeta. repeat split; vm_compute; reflexivity. Qed.

(* ... and a crash point at which the stream is visible but not accepted (metadata without finished) *)
Example C09_rejected_midway :
  let s := apply_prefix 4096 12 (trace_of_program Direct P_w rho_obs_first) in
  visible s Fin 5 = true /\ emu_ok s Fin (tids P_w) = false.
Proof. cbv zeta. split; vm_compute; reflexivity. Qed.

(* ==== relocation code from source (unit rtfs) ==== *)
(* Gen/RtFs_gen.v (translate/units/rtfs.py) holds copy_thread_to_final, move_thdir_step, move_thdir_to_final,
   try_clean_dir and write_evbuf of src/rt/ovni.c as syntax trees: statements in C order, the while / do-while loops,
   break / continue, assignments inside conditions, the comma operator, && / ||.  Rt/RtFsPre.v is their meaning: an
   interpreter with a store for the locals in which every libc call is a primitive that logs the RtFsDefs.op of the
   call and takes its result from the environment (contents of the source files read in 1024-byte chunks, readdir
   order of each traversal, one injected fault).  RtFsGenProofs.gen_reloc = what ovni_thread_free runs after close()
   in OVNI_TMPDIR mode: move_thdir_to_final(thdir, thdir_final); try_clean_dir(thdir). *)
From OV Require Rt.RtFsPre Gen.RtFs_gen Proofs.RtFsGenProofs.
From OV Require Proofs.RtFsGenCalls.
(* For EVERY thread (any event bytes, any metadata text) and EVERY readdir order of the three directory traversals, with
   enough interpreter fuel (the bound is explicit in the proof: linear in the sizes of the two files and of the three
   listings) and no fault, the generated code makes exactly the libc calls of RtFsDefs.relocate_new - call for call,
   same arguments, same order: the chunks of fread / fwrite are those of chunks1024, stream.json is opened only in the
   second traversal, nothing is removed before the third - followed by the rmdir of thread_free_tr; it prints no
   diagnostic and does not abort.  The segment of trace_of_program TmpMode that C09_tmpdir_s1 / s2 reason about between
   close() and the end of ovni_thread_free is therefore what the C does. *)
Theorem C09_call_sequence_from_source : forall rho th,
  exists N, forall n, (N <= n)%nat ->
  exists w, RtFsGenProofs.gen_reloc n rho th None = RtFsPre.ROk w /\
    rev (RtFsPre.w_log w) = map i_op (relocate_new rho th) ++
                            [Rmdir (PThread Tmp (th_tid th)) [PFile Tmp (th_tid th) Obs; PFile Tmp (th_tid th) Json]] /\
    RtFsPre.w_diag w = false /\ RtFsPre.w_dead w = false /\ RtFsPre.w_fault w = None.
Proof. exact RtFsGenCalls.reloc_calls_from_source. Qed.
Print Assumptions C09_call_sequence_from_source.

(* copy_thread_to_final alone, for every source file: fopen r, fopen w, (fread, fwrite) per 1024-byte chunk, the fread
   that returns 0, fclose(out), fclose(in); returns 0 *)
Theorem C09_copy_calls_from_source : forall E fns src dst,
  path_eqb src src = true -> path_eqb src dst = false ->
  forall k n log errno rpos ferr dpass dpos buf, (length (RtFsPre.e_data E src) <= k)%nat -> (k + 30 <= n)%nat ->
  exists s' rpos' ferr' buf',
    RtFsPre.exec E fns n (RtFsPre.f_body RtFs_gen.f_copy_thread_to_final) (RtFsGenCalls.cst0 src dst)
                 (RtFsGenCalls.W log errno rpos ferr dpass dpos buf) =
    RtFsPre.ROk (RtFsPre.OReturn (RtFsPre.VZ 0), s',
                 RtFsGenCalls.W (rev (RtFsGenCalls.copy_ops src dst (RtFsPre.e_data E src)) ++ log) errno rpos' ferr' dpass dpos buf').
Proof. exact RtFsGenCalls.copy_ok. Qed.
Print Assumptions C09_copy_calls_from_source.

From Coq Require Import String.
(* the caller: ovni_thread_free, after thread_metadata_store() and close(rthread.streamfd), runs - when the process
   relocates its trace - exactly move_thdir_to_final(rthread.thdir, rthread.thdir_final); try_clean_dir(rthread.thdir),
   i.e. RtFsGenProofs.gen_reloc (no other way of moving the files, such as a rename fast path) *)
Theorem C09_thread_free_relocates_from_source :
  RtFsGenProofs.nth_stmt 12 (RtFsPre.f_body RtFs_gen.f_ovni_thread_free) =
  RtFsPre.SIf (RtFsPre.EVar "rproc.move_to_final")
      (RtFsPre.SSeq (RtFsPre.SExpr (RtFsPre.ECall "move_thdir_to_final" [RtFsPre.EVar "rthread.thdir"; RtFsPre.EVar "rthread.thdir_final"]))
            (RtFsPre.SExpr (RtFsPre.ECall "try_clean_dir" [RtFsPre.EVar "rthread.thdir"])))
      RtFsPre.SSkip /\
  RtFsGenProofs.nth_stmt 10 (RtFsPre.f_body RtFs_gen.f_ovni_thread_free) = RtFsPre.SExpr (RtFsPre.EPrim "close" [RtFsPre.EVar "rthread.streamfd"]) /\
  RtFsGenProofs.nth_stmt 7 (RtFsPre.f_body RtFs_gen.f_ovni_thread_free) = RtFsPre.SExpr (RtFsPre.EPrim "thread_metadata_store" []).
Proof. exact RtFsGenProofs.thread_free_relocates. Qed.
Print Assumptions C09_thread_free_relocates_from_source.

(* evaluated: the example thread (two flushes, 2600 bytes of events), listing ". .. stream.obs stream.json" *)
Example C09_ex_generated_calls :
  match RtFsGenProofs.gen_reloc 400 (fun _ _ => [EDot; EDotDot; EFile Obs; EFile Json]) RtFsGenProofs.ex_th None with
  | RtFsPre.ROk w => rev (RtFsPre.w_log w) =
                     map i_op (relocate_new (fun _ _ => [EDot; EDotDot; EFile Obs; EFile Json]) RtFsGenProofs.ex_th) ++
                     [Rmdir (PThread Tmp 5) [PFile Tmp 5 Obs; PFile Tmp 5 Json]] /\ RtFsPre.w_diag w = false
  | _ => False
  end.
Proof. exact RtFsGenProofs.ex_calls. Qed.
(* ==== end of block (unit rtfs) ==== *)
