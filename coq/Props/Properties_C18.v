(* C18 - event catalogue consistency: the codes the tools list are the codes the handlers recognise.
   listed      = the evlist of each model, dumped from the compiled source (Gen/Tables_gen.evdecls);
   decode_all  = the dispatch of the eight handlers (hand-written switches + dumped tables), validated against
                 ovniemu on every run with one probe trace per code;
   exceptions  = the base model's burst (B) and unordered-region (U) categories ignore the value byte; the old
                 Nanos6 task-create event 6TC is accepted with a warning and not listed.
   The ovnidump decoding clause is in Properties_C18d.v. *)
From Coq Require Import ZArith List Bool.
From OV Require Import Emu.EmuCoreDefs Emu.DecodeDefs Emu.MarkDefs Emu.TableFactsDefs Emu.CatalogDefs Emu.CatalogCtxDefs Proofs.CatalogProofs
  Proofs.CatalogCtxProofs.
From OV Require Gen.Tables_gen.
Import ListNotations.
Local Open Scope Z_scope.

(* every unlisted code is rejected: for ALL model, category and value bytes (printable or not), all payloads,
   whatever models are enabled and whatever channels exist *)
Theorem C18_unlisted_rejected : forall en cs m c v p j aux,
  listed m c v = false -> legacy m c v = false -> value_blind m c = false ->
  is_bad (decode_all en cs m c v p j aux) = true.
Proof. exact unlisted_rejected. Qed.
Print Assumptions C18_unlisted_rejected.

(* what a handler lets through is one of the codes of its switch statements or of its table *)
Theorem C18_accepted_codes : forall en cs m c v p j aux,
  is_bad (decode_all en cs m c v p j aux) = false -> value_blind m c = false -> In (m, c, v) accepted_codes.
Proof. exact nonbad_is_accepted_code. Qed.
Print Assumptions C18_accepted_codes.

(* every listed code is recognised: with all models enabled its handler goes past dispatch and payload checks for
   one of the probe payloads (0, 4, 8, 12 bytes or a jumbo one) *)
Theorem C18_listed_recognised : forall m c v, listed m c v = true -> recognised m c v = true.
Proof. exact listed_is_recognised. Qed.
Print Assumptions C18_listed_recognised.

(* ... and is processed in a context where it is legal: for every declared event there is a trace (two threads,
   three CPUs, all eight models enabled, two mark types; the event with a payload of its declared shape, preceded by
   what makes it legal - a running thread, the matching enter of a leave, the created and running task ... - and
   followed by what closes the trace) that the complete model accepts: handlers, propagation, PRV and the
   end-of-trace check.  The same contexts are run through the real ovniemu on every run. *)
Theorem C18_listed_processed : forall m sig desc,
  In (m, sig, desc) Tables_gen.evdescs -> processed m (nth 1 sig 0) (nth 2 sig 0) = true.
Proof. exact listed_processed. Qed.
Print Assumptions C18_listed_processed.

(* the exceptions are exactly as stated: B and U accept every value byte and have a listed member; 6TC is
   let through and is not listed *)
Theorem C18_value_blind : forall en cs c v p j aux,
  memz M_OVNI en = true -> (c = 66 \/ c = 85) -> decode_all en cs M_OVNI c v p j aux = EvNop.
Proof. exact blind_all_values. Qed.
Print Assumptions C18_value_blind.

Theorem C18_exceptions :
  value_blind_ok = true /\
  forallb (fun c => forallb (fun v => recognised M_OVNI c v) printable) [66; 85] = true /\
  recognised M_NANOS6 84 67 && negb (listed M_NANOS6 84 67) = true.
Proof. exact blind_facts. Qed.
Print Assumptions C18_exceptions.

(* on the whole printable domain, 8 models x 95 x 95 codes, listed and recognised coincide outside the exceptions *)
Theorem C18_exact_on_printable : catalogue_diff = [].
Proof. exact catalogue_exact. Qed.
Print Assumptions C18_exact_on_printable.

(* non-vacuity: a listed code, an unlisted one, a value-blind one *)
Example C18_ex : listed M_NOSV 84 120 = true /\ listed M_NOSV 84 122 = false /\ value_blind M_OVNI 66 = true /\
  legacy M_NOSV 84 122 = false /\ value_blind M_NOSV 84 = false.
Proof. vm_compute. repeat split. Qed.

(* ==== dispatch code from source (unit dispatch) ==== *)
(* Gen/Dispatch_gen.v (translate/units/dispatch.py) renders, statement by statement, the dispatch code of the eight
   models: model_<m>_event, process_ev and simple of nosv / nanos6 / nodes, process_ev of mpi / tampi / openmp,
   context_switch of kernel, pre_cpu / pre_flush / model_ovni_event of ovni, over Emu/DispatchPre.v.  The table
   look-up `ss_table[c][v]` / `fn_table[c][v]` is the one new primitive: the row unit `tables` dumps from the same
   array (Tables_gen.table), zero when the entry is all zeros.  pre_task is the function of unit taskev
   (C07_task_events_from_source), pre_thread / pre_affinity those of unit guards (C04_dispatch_from_source), the channel
   operations are chan_step (C08_chan_ops_from_source).  mark_event of ovni/mark.c is generated too (find_mark_type = the position of the mark channel of that
   type).  Primitives with a hand-written meaning: pre_type (type_create with the gid of the label given from outside),
   pre_burst (accepted, no effect).
   DispatchProofs.agrees sx cs en who jumbo aux st m c v p gen: if core_step on MarkDefs.decode_all en cs m c v p jumbo aux
   accepts with state st' and written channels d, gen returns exactly (st', d) from (st, []); if it refuses, gen
   refuses and does not dereference NULL.  So the hand-written cats, need_of and switches of Emu/DecodeDefs.v are what
   the C does, for EVERY model, category, value (not only bytes) and payload, on every state where the model is enabled
   (cs = the channels of the enabled models followed by any mark channels; for the base model's H and A categories the
   invariant of C04/C05). *)
From OV Require Emu.DispatchPre Gen.Dispatch_gen Proofs.DispatchProofs Proofs.GuardsProofs.
Theorem C18_dispatch_from_source : forall sx en marks who th me jumbo aux st m c v p,
  let cs := mk_chans en ++ marks in
  nth_error (threads st) who = Some th -> nth_error (s_threads sx) who = Some me -> s_chans sx = cs ->
  In m DispatchProofs.all_models -> memz m en = true -> (m = M_OVNI -> GuardsProofs.GInv sx st) ->
  DispatchProofs.agrees sx cs en who jumbo aux st m c v p (DispatchProofs.gen_event m (DispatchProofs.mk who m c v p)).
Proof. exact DispatchProofs.dispatch_from_source. Qed.
Print Assumptions C18_dispatch_from_source.

(* C18_unlisted_rejected for the code as generated from the source: every unlisted code is refused by it *)
Theorem C18_unlisted_rejected_from_source : forall sx en marks who th me jumbo aux st m c v p,
  let cs := mk_chans en ++ marks in
  nth_error (threads st) who = Some th -> nth_error (s_threads sx) who = Some me -> s_chans sx = cs ->
  In m DispatchProofs.all_models -> memz m en = true -> (m = M_OVNI -> GuardsProofs.GInv sx st) ->
  listed m c v = false -> legacy m c v = false -> value_blind m c = false ->
  let E := {| DispatchPre.d_te := {| TaskEvPre.te_sx := sx; TaskEvPre.te_cs := cs |}; DispatchPre.d_jumbo := jumbo; DispatchPre.d_aux := aux |} in
  exists e', DispatchProofs.gen_event m (DispatchProofs.mk who m c v p) E (DispatchProofs.W st []) = Err e' /\ e' <> DispatchPre.E_TRAP.
Proof.
  intros sx en marks who th me jumbo aux st m c v p cs Hth Hme Hsx Hm Hen HI Hl Hg Hb E.
  apply (DispatchProofs.bad_refused sx en marks who th me jumbo aux st m c v p Hth Hme Hsx Hm Hen HI).
  pose proof (unlisted_rejected en (mk_chans en ++ marks) m c v p jumbo aux Hl Hg Hb) as B.
  destruct (decode_all en (mk_chans en ++ marks) m c v p jumbo aux); try discriminate B. eexists; reflexivity.
Qed.
Print Assumptions C18_unlisted_rejected_from_source.

(* the generated dispatch evaluated: one thread, models ovni + nosv + kernel.  After OHx: VSh VS[ leave the subsystem
   stack [7; 6]; VSh VSf leave it empty; VSf alone, an unknown category, an event while out of CPU (KCO) and an event
   of a thread that does not run are refused; KCO KCI restore; OF[ OF] OB. OU[ OCn are accepted, OCo is not *)
Example C18_ex_dispatch :
  let run := fun evs => DispatchProofs.ex_ss (DispatchProofs.ex_run (init DispatchProofs.ex_sx) evs) in
  let x := DispatchProofs.OHx in
  run [x; (86, 83, 104, []); (86, 83, 91, [])] = Some [7; 6] /\
  run [x; (86, 83, 104, []); (86, 83, 102, [])] = Some [] /\
  run [x; (86, 83, 102, [])] = None /\ run [x; (86, 90, 122, [])] = None /\
  run [x; (75, 67, 79, []); (86, 83, 104, [])] = None /\
  run [x; (75, 67, 79, []); (75, 67, 73, []); (86, 83, 104, [])] = Some [6] /\
  run [(86, 83, 104, [])] = None /\
  run [x; (79, 70, 91, []); (79, 70, 93, []); (79, 66, 46, []); (79, 85, 91, []); (79, 67, 110, [])] = Some [] /\
  run [x; (79, 67, 111, [])] = None /\
  (* marks (mark type 3 declared): OM[ 5, OM[ 6, OM] 6 leave [5]; an undeclared type, the value 0, 11 bytes are refused *)
  (let mrun := fun evs => DispatchProofs.ex_mark (DispatchProofs.ex_run (init DispatchProofs.ex_sx) evs) in
   mrun [x; (79, 77, 91, [5;0;0;0;0;0;0;0;3;0;0;0]); (79, 77, 91, [6;0;0;0;0;0;0;0;3;0;0;0]); (79, 77, 93, [6;0;0;0;0;0;0;0;3;0;0;0])] = Some [5] /\
   mrun [x; (79, 77, 91, [5;0;0;0;0;0;0;0;4;0;0;0])] = None /\ mrun [x; (79, 77, 91, [0;0;0;0;0;0;0;0;3;0;0;0])] = None /\
   mrun [x; (79, 77, 91, [5;0;0;0;0;0;0;0;3;0;0])] = None).
Proof. vm_compute. repeat split. Qed.
(* ==== end of block (unit dispatch) ==== *)
