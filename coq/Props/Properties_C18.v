(* C18 - event catalogue consistency: the codes the tools list are the codes the handlers recognise.
   listed      = the evlist of each model, dumped from the compiled source (Gen/Tables_gen.evdecls);
   decode_all  = the dispatch of the eight handlers (hand-written switches + dumped tables), validated against
                 ovniemu on every run with one probe trace per code;
   exceptions  = the base model's burst (B) and unordered-region (U) categories ignore the value byte; the old
                 Nanos6 task-create event 6TC is accepted with a warning and not listed.
   The ovnidump decoding clause is in Properties_C18d.v. *)
From Coq Require Import ZArith List Bool.
From OV Require Import Emu.EmuCoreDefs Emu.DecodeDefs Emu.MarkDefs Emu.TableFactsDefs Emu.CatalogDefs Emu.CatalogCtxDefs Proofs.CatalogProofs
  Proofs.CatalogCtxProofs.
From OV Require Gen.Tables_gen.
Import ListNotations.
Local Open Scope Z_scope.

(* every unlisted code is rejected: for ALL model, category and value bytes (printable or not), all payloads,
   whatever models are enabled and whatever channels exist *)
Theorem C18_unlisted_rejected : forall en cs m c v p j aux,
  listed m c v = false -> legacy m c v = false -> value_blind m c = false ->
  is_bad (decode_all en cs m c v p j aux) = true.
Proof. exact unlisted_rejected. Qed.
Print Assumptions C18_unlisted_rejected.

(* what a handler lets through is one of the codes of its switch statements or of its table *)
Theorem C18_accepted_codes : forall en cs m c v p j aux,
  is_bad (decode_all en cs m c v p j aux) = false -> value_blind m c = false -> In (m, c, v) accepted_codes.
Proof. exact nonbad_is_accepted_code. Qed.
Print Assumptions C18_accepted_codes.

(* every listed code is recognised: with all models enabled its handler goes past dispatch and payload checks for
   one of the probe payloads (0, 4, 8, 12 bytes or a jumbo one) *)
Theorem C18_listed_recognised : forall m c v, listed m c v = true -> recognised m c v = true.
Proof. exact listed_is_recognised. Qed.
Print Assumptions C18_listed_recognised.

(* ... and is processed in a context where it is legal: for every declared event there is a trace (two threads,
   three CPUs, all eight models enabled, two mark types; the event with a payload of its declared shape, preceded by
   what makes it legal - a running thread, the matching enter of a leave, the created and running task ... - and
   followed by what closes the trace) that the complete model accepts: handlers, propagation, PRV and the
   end-of-trace check.  The same contexts are run through the real ovniemu on every run. *)
Theorem C18_listed_processed : forall m sig desc,
  In (m, sig, desc) Tables_gen.evdescs -> processed m (nth 1 sig 0) (nth 2 sig 0) = true.
Proof. exact listed_processed. Qed.
Print Assumptions C18_listed_processed.

(* the exceptions are exactly as stated: B and U accept every value byte and have a listed member; 6TC is
   let through and is not listed *)
Theorem C18_value_blind : forall en cs c v p j aux,
  memz M_OVNI en = true -> (c = 66 \/ c = 85) -> decode_all en cs M_OVNI c v p j aux = EvNop.
Proof. exact blind_all_values. Qed.
Print Assumptions C18_value_blind.

Theorem C18_exceptions :
  value_blind_ok = true /\
  forallb (fun c => forallb (fun v => recognised M_OVNI c v) printable) [66; 85] = true /\
  recognised M_NANOS6 84 67 && negb (listed M_NANOS6 84 67) = true.
Proof. exact blind_facts. Qed.
Print Assumptions C18_exceptions.

(* on the whole printable domain, 8 models x 95 x 95 codes, listed and recognised coincide outside the exceptions *)
Theorem C18_exact_on_printable : catalogue_diff = [].
Proof. exact catalogue_exact. Qed.
Print Assumptions C18_exact_on_printable.

(* non-vacuity: a listed code, an unlisted one, a value-blind one *)
Example C18_ex : listed M_NOSV 84 120 = true /\ listed M_NOSV 84 122 = false /\ value_blind M_OVNI 66 = true /\
  legacy M_NOSV 84 122 = false /\ value_blind M_NOSV 84 = false.
Proof. vm_compute. repeat split. Qed.
