(* C06 - View consistency: thread/CPU timelines show a value exactly when state allows. *)
From Coq Require Import ZArith List Bool.
From OV Require Import Emu.EmuCoreDefs Proofs.EmitProofs Proofs.EmuCoreProofs Proofs.EmuCoreWf.
Import ListNotations.
Local Open Scope Z_scope.

(* The general form: after every prefix of an accepted run, for every registered (file,row,type) the value
   shown by the PRV lines written so far is the printed form of the view of the semantic state
   (a CPU row with no unique running thread may still show nothing instead of its default). *)
Theorem C06_timeline : forall sx evs1 evs2 st tl,
  wf_keys sx -> init_ok sx ->
  run_from sx (init sx) (evs1 ++ evs2) = Ok (st, tl) ->
  exists st1 tl1, run_from sx (init sx) evs1 = Ok (st1, tl1) /\
    forall s, In s (slots sx) ->
      shown (lines_of tl1) (key_of sx s) = printed (flags_of sx s) (view sx st1 s) \/
      (unselected st1 s /\ shown (lines_of tl1) (key_of sx s) = 0).
Proof. exact timeline. Qed.
Print Assumptions C06_timeline.

(* one event preserves the invariant (this is where the emission rule is shown complete: a channel
   that the rule does not write did not change what its row displays) *)
Theorem C06_step_invariant : forall sx st who ev st' ls' ls,
  wf_keys sx -> Inv sx st ls -> step sx st who ev = Ok (st', ls') -> Inv sx st' (ls ++ ls').
Proof. exact step_inv. Qed.
Print Assumptions C06_step_invariant.

(* The property as stated: per-thread quantities on thread rows and CPU rows *)
Theorem C06_tracked_rows : forall sx evs1 evs2 st tl,
  types_ok sx -> any_init_ok sx ->
  run_from sx (init sx) (evs1 ++ evs2) = Ok (st, tl) ->
  exists st1 tl1, run_from sx (init sx) evs1 = Ok (st1, tl1) /\
    forall k, (k < length (s_chans sx))%nat ->
      let sp := spec_of sx k in
      let ls := lines_of tl1 in
      (forall t, (t < length (s_threads sx))%nat ->
         shown ls (false, t, cs_type sp) =
         printed (cs_flags sp) (if mode_ok (cs_thtrack sp) (thread_state_of st1 t) then raw_read sp (raw_of st1 t k) else None)) /\
      (forall c, (c < length (s_cpus sx))%nat ->
         match th_running st1 c with
         | Some t => shown ls (true, c, cs_type sp) = printed (cs_flags sp) (raw_read sp (raw_of st1 t k))
         | None => shown ls (true, c, cs_type sp) = printed (cs_flags sp) (cs_cpudef sp) \/ shown ls (true, c, cs_type sp) = 0
         end).
Proof. exact tracked_rows. Qed.
Print Assumptions C06_tracked_rows.

(* distinct PRV types give distinct rows; holds for the specs of every subset of the compiled models *)
Theorem C06_keys_distinct : forall sx, types_ok sx -> wf_keys sx.
Proof. exact wf_keys_of_types. Qed.
Print Assumptions C06_keys_distinct.

Theorem C06_side_conditions_hold :
  forallb (fun en => types_okb (DecodeDefs.mk_chans en) && any_init_okb (DecodeDefs.mk_chans en)) (sublists all_models) = true.
Proof. exact dumped_specs_ok. Qed.
Print Assumptions C06_side_conditions_hold.

(* non-vacuity: an accepted run with a subsystem pushed while running, then the thread pauses and the
   value disappears from the thread row (mode ACTIVE) and from the CPU row *)
Definition chans1 := DecodeDefs.mk_chans [DecodeDefs.M_OVNI; DecodeDefs.M_NOSV].
Definition sx1 : static :=
  {| s_threads := [{| ti_tid := 7; ti_pid := 1; ti_loom := 0; ti_appid := 1; ti_rank := -1 |}];
     s_cpus := [{| ci_virtual := false; ci_loom := 0; ci_index := 0 |}; {| ci_virtual := true; ci_loom := 0; ci_index := -1 |}];
     s_chans := chans1; s_lint := false |}.
Example C06_ex_run :
  match run_from sx1 (init sx1)
        [(10, 0%nat, EvOvni (Execute 0));
         (20, 0%nat, DecodeDefs.decode [DecodeDefs.M_OVNI; DecodeDefs.M_NOSV] chans1 86 65 115 []);   (* VAs: nosv_submit *)
         (30, 0%nat, EvOvni Pause)] with
  | Ok (st, tl) => length tl
  | Err _ => 0%nat
  end = 32%nat.
Proof. vm_compute. reflexivity. Qed.
