(* C06 - View consistency: thread/CPU timelines show a value exactly when state allows. *)
From Coq Require Import ZArith List Bool Permutation.
From OV Require Proofs.BayProofs.
From OV Require Import Emu.BayDefs Proofs.BayBasics Proofs.BayMux Proofs.BayPropagate Proofs.BayEmit Proofs.BayWire Proofs.BaySem Proofs.BaySys Proofs.BayRun.
From OV Require Import Emu.EmuCoreDefs Proofs.EmitProofs Proofs.EmuCoreProofs Proofs.EmuCoreWf.
Import ListNotations.
Local Open Scope Z_scope.

(* The general form: after every prefix of an accepted run, for every registered (file,row,type) the value
   shown by the PRV lines written so far is the printed form of the view of the semantic state
   (a CPU row with no unique running thread may still show nothing instead of its default). *)
Theorem C06_timeline : forall sx evs1 evs2 st tl,
  wf_keys sx -> init_ok sx ->
  run_from sx (init sx) (evs1 ++ evs2) = Ok (st, tl) ->
  exists st1 tl1, run_from sx (init sx) evs1 = Ok (st1, tl1) /\
    forall s, In s (slots sx) ->
      shown (lines_of tl1) (key_of sx s) = printed (flags_of sx s) (view sx st1 s) \/
      (unselected st1 s /\ shown (lines_of tl1) (key_of sx s) = 0).
Proof. exact timeline. Qed.
Print Assumptions C06_timeline.

(* one event preserves the invariant (this is where the emission rule is shown complete: a channel
   that the rule does not write did not change what its row displays) *)
Theorem C06_step_invariant : forall sx st who ev st' ls' ls,
  wf_keys sx -> Inv sx st ls -> step sx st who ev = Ok (st', ls') -> Inv sx st' (ls ++ ls').
Proof. exact step_inv. Qed.
Print Assumptions C06_step_invariant.

(* The property as stated: per-thread quantities on thread rows and CPU rows *)
Theorem C06_tracked_rows : forall sx evs1 evs2 st tl,
  types_ok sx -> any_init_ok sx ->
  run_from sx (init sx) (evs1 ++ evs2) = Ok (st, tl) ->
  exists st1 tl1, run_from sx (init sx) evs1 = Ok (st1, tl1) /\
    forall k, (k < length (s_chans sx))%nat ->
      let sp := spec_of sx k in
      let ls := lines_of tl1 in
      (forall t, (t < length (s_threads sx))%nat ->
         shown ls (false, t, cs_type sp) =
         printed (cs_flags sp) (if mode_ok (cs_thtrack sp) (thread_state_of st1 t) then raw_read sp (raw_of st1 t k) else None)) /\
      (forall c, (c < length (s_cpus sx))%nat ->
         match th_running st1 c with
         | Some t => shown ls (true, c, cs_type sp) = printed (cs_flags sp) (raw_read sp (raw_of st1 t k))
         | None => shown ls (true, c, cs_type sp) = printed (cs_flags sp) (cs_cpudef sp) \/ shown ls (true, c, cs_type sp) = 0
         end).
Proof. exact tracked_rows. Qed.
Print Assumptions C06_tracked_rows.

(* distinct PRV types give distinct rows; holds for the specs of every subset of the compiled models *)
Theorem C06_keys_distinct : forall sx, types_ok sx -> wf_keys sx.
Proof. exact wf_keys_of_types. Qed.
Print Assumptions C06_keys_distinct.

Theorem C06_side_conditions_hold :
  forallb (fun en => types_okb (DecodeDefs.mk_chans en) && any_init_okb (DecodeDefs.mk_chans en)) (sublists all_models) = true.
Proof. exact dumped_specs_ok. Qed.
Print Assumptions C06_side_conditions_hold.

(* non-vacuity: an accepted run with a subsystem pushed while running, then the thread pauses and the
   value disappears from the thread row (mode ACTIVE) and from the CPU row *)
Definition chans1 := DecodeDefs.mk_chans [DecodeDefs.M_OVNI; DecodeDefs.M_NOSV].
Definition sx1 : static :=
  {| s_threads := [{| ti_tid := 7; ti_pid := 1; ti_loom := 0; ti_appid := 1; ti_rank := -1 |}];
     s_cpus := [{| ci_virtual := false; ci_loom := 0; ci_index := 0 |}; {| ci_virtual := true; ci_loom := 0; ci_index := -1 |}];
     s_chans := chans1; s_lint := false |}.
Example C06_ex_run :
  match run_from sx1 (init sx1)
        [(10, 0%nat, EvOvni (Execute 0));
         (20, 0%nat, DecodeDefs.decode [DecodeDefs.M_OVNI; DecodeDefs.M_NOSV] chans1 86 65 115 []);   (* VAs: nosv_submit *)
         (30, 0%nat, EvOvni Pause)] with
  | Ok (st, tl) => length tl
  | Err _ => 0%nat
  end = 32%nat.
Proof. vm_compute. reflexivity. Qed.


(* ================================================================================================
   The mechanics behind the emission rule: chan.c / bay.c / mux.c / track.c inside the model
   (coq/Emu/BayDefs.v), tied in process to the real code by harness/bay_h.c.                        *)

(* the wiring built for any trace with at least one thread is a well-formed two-level wiring whose
   callback lists agree with the enabled flags *)
Theorem C06_wiring_well_formed : forall sx, (0 < length (s_threads sx))%nat -> Shape (wire sx) /\ Cbs (wire sx).
Proof. exact (fun sx H => conj (wire_shape sx H) (wire_cbs sx H)). Qed.
Print Assumptions C06_wiring_well_formed.

(* Single-mux refinement.  For ANY well-formed two-level wiring (Pre: shape, consistent callback
   lists, outputs clean, dirty list = the level-0 channels the handler made dirty, select functions
   defined, muxes with an unwritten select have exactly the selected input enabled) and any last-value
   table: after bay_propagate, for every mux
     - exactly the input chosen by the select function on the select value is enabled, and
       mux->selected is that input when the select channel was written;
     - the output was written -- hence entered the dirty list and had its emit callbacks run with
       that value -- iff the select channel or the selected input was written (mux_written = the
       emission rule `requested`), the value being the mux function of select and inputs (= `view`);
     - an output that was not written is untouched; every channel is clean afterwards. *)
Theorem C06_mux_refines_emission_rule : forall b0 last b2 last' ls m mx,
  Pre b0 -> propagate b0 last = Ok (b2, last', ls) -> imux b0 m mx ->
  exists oi mx2 och och2 b1,
    BayProofs.sel_res b0 mx = Ok oi /\
    imux b2 m mx2 /\ mstat mx2 = mstat mx /\ (forall j, en_at mx2 j <-> oi = Some j) /\
    (In (mx_sel mx) (b_dirty b0) -> mx_selected mx2 = oi) /\
    chan_at b0 (mx_out mx) = Some och /\ chan_at b2 (mx_out mx) = Some och2 /\ c_dirty och2 = false /\
    (mux_written b0 mx oi -> chan_read och2 = BayProofs.mux_value b0 mx oi /\ c_last och2 = BayProofs.mux_value b0 mx oi) /\
    (~ mux_written b0 mx oi -> och2 = och) /\
    emit_all last (flat_map (chan_reqs b1) (b_dirty b1)) = Ok (last', ls) /\
    (In (mx_out mx) (b_dirty b1) <-> mux_written b0 mx oi) /\
    (mux_written b0 mx oi -> chan_reqs b1 (mx_out mx) = map (fun e => req_of e (BayProofs.mux_value b0 mx oi)) (ecbs_of b0 (mx_out mx))).
Proof. exact mux_refines_emission_rule. Qed.
Print Assumptions C06_mux_refines_emission_rule.

(* the worklist of bay_propagate never runs out of fuel (fuel = number of channels + 1) *)
Theorem C06_propagate_fuel : forall b0 last, Pre b0 -> propagate b0 last <> Err E_FUEL.
Proof. exact propagate_fuel. Qed.
Print Assumptions C06_propagate_fuel.

(* System-level simulation.  `Wired sx st b`: b has the skeleton of the wiring built from sx, its
   callback lists agree with the enabled flags, every channel is clean, the system channels hold the
   values computed from the emulator structures st, the raw channels the model channel contents of
   st, and each mux has exactly the input enabled that its select function picks.
   For every event whose handler writes no raw channel twice: the mechanical step (handler writes
   replayed on the channel model, then the three phases of bay_propagate on the real wiring) and the
   semantic step (emission rule) both fail or both succeed; on success the structures are equal, the
   PRV last-value tables are equal as maps, the relation holds again, and the PRV lines are the same
   per (file,row,type) key (hence a permutation: only the interleaving of different keys, which is
   the dirty-list order, differs). *)
Theorem C06_bay_refines_emission_rule : forall sx, (0 < length (s_threads sx))%nat ->
  forall st b who ev,
  wf_keys sx -> Wired sx st b ->
  (forall st1 dirty, core_step sx st who ev = Ok (st1, dirty) -> NoDup dirty) ->
  match step sx st who ev, mstep sx st b who ev with
  | Ok (st', ls), Ok (st'', b', mls) =>
    state_equiv st'' st' /\ Wired sx st'' b' /\ Permutation mls ls /\ forall k, filter_key k mls = filter_key k ls
  | Err _, Err _ => True
  | _, _ => False
  end.
Proof. exact bay_refines_emission_rule. Qed.
Print Assumptions C06_bay_refines_emission_rule.

(* the hypothesis of the step theorem: a handler writes no raw channel twice.  True for every event but a
   task event whose configuration lists a channel twice (ev_wf); C06_bay_side_conditions_hold shows the
   configurations of DecodeDefs are fine *)
Theorem C06_handlers_write_once : forall sx st who ev st1 dirty,
  ev_wf ev -> core_step sx st who ev = Ok (st1, dirty) -> NoDup dirty.
Proof. exact core_step_nodup. Qed.
Print Assumptions C06_handlers_write_once.

(* the state after emu_connect (wiring built, connect-time values written, first bay_propagate) is related to
   the semantic initial state, and nothing is emitted *)
Theorem C06_connect_state : forall sx, (0 < length (s_threads sx))%nat -> wf_keys sx -> init_ok_chans sx ->
  exists b, wire_init sx = Ok (b, [], []) /\ Wired sx (init sx) b.
Proof. exact wire_init_wired. Qed.
Print Assumptions C06_connect_state.

(* Whole runs: the emulator with the real bay/mux/track mechanics and the emulator with the emission rule
   accept the same event sequences; they end in the same structures, PRV tables equal as maps, and every
   (file,row,type) key gets the same sequence of (time, value) records (the two outputs are permutations
   of each other: only the interleaving of different keys inside one event differs). *)
Theorem C06_bay_run_refines : forall sx evs,
  (0 < length (s_threads sx))%nat -> wf_keys sx -> init_ok_chans sx -> (forall x, In x evs -> ev_wf (snd x)) ->
  exists b, wire_init sx = Ok (b, [], []) /\
    match run_from sx (init sx) evs, mrun_from sx (init sx) b evs with
    | Ok (st', tl), Ok (st'', b', mtl) =>
      state_equiv st'' st' /\ Wired sx st'' b' /\ Permutation mtl tl /\ forall k, tfilter k mtl = tfilter k tl
    | Err _, Err _ => True
    | _, _ => False
    end.
Proof. exact bay_emulation_refines. Qed.
Print Assumptions C06_bay_run_refines.

Theorem C06_bay_side_conditions_hold :
  forallb (fun en => init_ok_chansb (DecodeDefs.mk_chans en) &&
                     (negb (existsb (Z.eqb DecodeDefs.M_NOSV) en) || cfg_okb (DecodeDefs.nosv_cfg (DecodeDefs.mk_chans en))) &&
                     (negb (existsb (Z.eqb DecodeDefs.M_NANOS6) en) || cfg_okb (DecodeDefs.nanos6_cfg (DecodeDefs.mk_chans en))))
          (sublists all_models) = true.
Proof. exact dumped_bay_side_conditions. Qed.
Print Assumptions C06_bay_side_conditions_hold.

(* non-vacuity, mechanical side only: 2 threads, 2 CPUs, 2 tracked channels (a RUNNING-tracked stack and
   an ACTIVE-tracked single channel with a CPU default).  One batch changes state + value + affinity:
   thread 0 becomes Running on CPU 1 and pushes 7 / sets 9 in the same batch (the select is written
   before one input and after the other).  Both thread rows and both CPU-1 rows show the values. *)
Definition spA : chanspec := {| cs_model := 0; cs_index := 0; cs_stack := true; cs_dup := false; cs_thtrack := TRACK_RUN; cs_cputrack := TRACK_RUN;
                                cs_type := 100; cs_flags := PRV_SKIPDUP; cs_init := None; cs_cpudef := None |}.
Definition spB : chanspec := {| cs_model := 0; cs_index := 1; cs_stack := false; cs_dup := false; cs_thtrack := TRACK_ACT; cs_cputrack := TRACK_RUN;
                                cs_type := 101; cs_flags := PRV_SKIPDUPNULL; cs_init := None; cs_cpudef := Some 55 |}.
Definition sx2 : static :=
  {| s_threads := [{| ti_tid := 7; ti_pid := 1; ti_loom := 0; ti_appid := 1; ti_rank := -1 |};
                   {| ti_tid := 8; ti_pid := 1; ti_loom := 0; ti_appid := 1; ti_rank := -1 |}];
     s_cpus := [{| ci_virtual := false; ci_loom := 0; ci_index := 0 |}; {| ci_virtual := false; ci_loom := 0; ci_index := 1 |}];
     s_chans := [spA; spB]; s_lint := false |}.

Definition batch1 : list wop :=
  [WPush (ch_raw sx2 0 0) (Some 7);                 (* input of the RUN mux, written before the select *)
   WSet (ch_th sx2 0 2) (Some 1); WSet (ch_th sx2 0 1) (Some 7);   (* state := Running, tid_active *)
   WSet (ch_raw sx2 0 1) (Some 9);                  (* input of the ACT mux, written after the select *)
   WSet (ch_th sx2 0 0) (Some 1);                   (* affinity: CPU 1 *)
   WSet (ch_cpu sx2 1 3) (Some 0); WSet (ch_cpu sx2 1 0) (Some 1)]. (* CPU 1: th_running := thread 0, nrunning *)

Example C06_ex_bay_batch :
  match wire_init sx2 with
  | Ok (b, last, _) =>
    match apply_writes b batch1 with
    | Ok b0 =>
      match propagate b0 last with
      | Ok (b2, _, ls) =>
        (map (fun l => (l_cpu l, l_row l, l_type l, l_val l)) ls,
         map (fun m => (mx_selected m, mx_en m)) (b_muxes b2),
         forallb (fun ch => negb (c_dirty ch)) (b_chans b2))
      | Err _ => ([], [], false)
      end
    | Err _ => ([], [], false)
    end
  | Err _ => ([], [], false)
  end =
  ([(false, 0%nat, 4, 1); (false, 0%nat, 2, 7); (false, 0%nat, 6, 2); (true, 1%nat, 3, 1);
    (false, 0%nat, 100, 7); (false, 0%nat, 101, 9); (true, 1%nat, 100, 7); (true, 1%nat, 101, 9)],
   [(Some 0%nat, [true]); (Some 0%nat, [true]); (Some 0%nat, [false]); (Some 0%nat, [false]);
    (Some 0%nat, [false; false]); (Some 0%nat, [false; false]); (Some 0%nat, [true; false]); (Some 0%nat, [true; false])],
   true).
Proof. vm_compute. reflexivity. Qed.

(* non-vacuity, both sides: an accepted run with two threads that execute, push / set model channels,
   pause, migrate (affinity) and end; the mechanical run accepts, and every (file,row,type) key gets
   the same sequence of (time, value) as in the semantic run; the global order differs *)
Definition evs2 : list (Z * nat * event) :=
  [(10, 0%nat, EvOvni (Execute 0)); (12, 0%nat, EvChan 0 PUSH (Some 3) 1); (14, 0%nat, EvChan 1 SET (Some 9) 2);
   (20, 1%nat, EvOvni (Execute 1)); (22, 1%nat, EvChan 0 PUSH (Some 4) 1);
   (30, 0%nat, EvOvni Pause); (32, 1%nat, EvOvni (AffSet 0)); (34, 1%nat, EvChan 1 SET (Some 2) 2);
   (36, 1%nat, EvOvni Cool); (38, 1%nat, EvOvni Pause); (40, 0%nat, EvOvni Resume); (42, 0%nat, EvChan 0 POP (Some 3) 1);
   (50, 0%nat, EvOvni End_)].

Fixpoint lines_beq (a b : list (Z * line)) : bool :=
  match a, b with
  | [], [] => true
  | (t1, l1) :: a', (t2, l2) :: b' =>
    (t1 =? t2) && key_eqb (line_key l1) (line_key l2) && (l_val l1 =? l_val l2) && lines_beq a' b'
  | _, _ => false
  end.
Definition per_key_eq (a b : list (Z * line)) : bool :=
  forallb (fun x => let k := line_key (snd x) in
                    lines_beq (filter (fun y => key_eqb (line_key (snd y)) k) a) (filter (fun y => key_eqb (line_key (snd y)) k) b)) (a ++ b).

Example C06_ex_bay_run :
  match wire_init sx2 with
  | Ok (b, _, _) =>
    match mrun_from sx2 (init sx2) b evs2, run_from sx2 (init sx2) evs2 with
    | Ok (_, _, mtl), Ok (_, tl) => (length mtl, length tl, per_key_eq mtl tl, lines_beq mtl tl)
    | _, _ => (0%nat, 0%nat, false, false)
    end
  | Err _ => (0%nat, 0%nat, false, false)
  end = (78%nat, 78%nat, true, false).
Proof. vm_compute. reflexivity. Qed.

(* the hypotheses of C06_bay_run_refines are satisfiable: they hold for the example above *)
Example C06_ex_hypotheses :
  (0 < length (s_threads sx2))%nat /\ wf_keys sx2 /\ init_ok_chans sx2 /\ (forall x, In x evs2 -> ev_wf (snd x)).
Proof.
  split; [cbn; repeat constructor|]. split; [apply wf_keys_of_types; apply types_okb_ok; vm_compute; reflexivity|].
  split; [apply init_ok_chansb_ok; vm_compute; reflexivity|].
  intros x Hx. cbn in Hx. repeat (destruct Hx as [<-|Hx]; [exact I|]). destruct Hx.
Qed.

(* ==== prv.c emit from source (unit prv) ==== *)
(* Gen/Prv_gen.v is regenerated on every run by translate/units/prv.py from src/emu/pv/prv.c (is_value_dup, emit,
   check_flags), statement by statement, over Emu/PrvPre.v (one registered channel: flags, last_value,
   last_value_set, row, type; the value chan_read returns is an input; write_line appends (row_base1, type, value)).
   PrvEmitProofs.Rel ps last k : the channel's last_value / last_value_set are the entry of the model's `last` map at the
   key of the channel (unset <-> no entry).  For every flags word made of the five PRV_* bits, every null or int64
   value and every state, the generated emit does what the model's emit does: both refuse (duplicate without
   SKIPDUP/SKIPDUPNULL, forbidden 0 without PRV_ZERO; never a NULL dereference), or both accept, write the same
   0 or 1 line (row + 1, type, value incremented under PRV_NEXT, 0 for null) and keep the relation with the
   updated map.  VALUE_DOUBLE is refused by the C and does not exist in the model. *)
From OV Require Emu.PrvPre Gen.Prv_gen Proofs.PrvEmitProofs.
Theorem C06_prv_emit_from_source : forall e s n z d last cpu row type v ps,
  PrvPre.rflags ps = PrvEmitProofs.mkflags e s n z d -> PrvPre.rrow ps = Z.of_nat row + 1 -> PrvPre.rtyp ps = type ->
  PrvPre.cur ps = PrvEmitProofs.inj v -> PrvEmitProofs.Rel ps last (cpu, row, type) ->
  match emit last cpu row type (PrvEmitProofs.mkflags e s n z d) v with
  | Err _ => exists x, PrvPre.exec (Prv_gen.emit (Some tt) (Some tt)) tt ps = Err x /\ x <> PrvPre.E_TRAP
  | Ok (last', ls) =>
    exists ps', PrvPre.exec (Prv_gen.emit (Some tt) (Some tt)) tt ps = Ok ps' /\
                PrvPre.plines ps' = PrvPre.plines ps ++ map PrvEmitProofs.out_line ls /\
                PrvEmitProofs.Rel ps' last' (cpu, row, type) /\ PrvEmitProofs.same_chan ps' ps
  end.
Proof. exact PrvEmitProofs.emit_eq. Qed.
Print Assumptions C06_prv_emit_from_source.

(* every word below 32 is such a flags word *)
Theorem C06_prv_flags_words : forall f, 0 <= f < 32 -> exists e s n z d, f = PrvEmitProofs.mkflags e s n z d.
Proof. exact PrvEmitProofs.mkflags_range. Qed.
Print Assumptions C06_prv_flags_words.

Example C06_ex_prv_generated :
  PrvEmitProofs.emit_twice PRV_SKIPDUP (Some 7) = Ok [(3, 10, 7)] /\
  PrvEmitProofs.is_ok (PrvEmitProofs.emit_twice 0 (Some 7)) = false /\
  PrvEmitProofs.emit_twice (PRV_EMITDUP + PRV_NEXT) (Some 7) = Ok [(3, 10, 8); (3, 10, 8)] /\
  PrvEmitProofs.is_ok (PrvEmitProofs.emit_twice PRV_EMITDUP (Some 0)) = false /\
  PrvEmitProofs.emit_twice (PRV_SKIPDUPNULL + PRV_ZERO) None = Ok [(3, 10, 0)].
Proof. vm_compute. repeat split. Qed.
(* ==== end of block (unit prv) ==== *)

(* ==== begin of block (bay channels from source, unit chan) ==== *)
(* The channel layer of the bay model is the REGENERATED src/emu/chan.c (Gen/Chan_gen.v, translated on every run).
   CRep relates a BayDefs channel with the C channel (dirty flag, the three property words at the generated enum
   constants, registered dirty callback, last_value, data.value, the first n <= MAX_CHAN_STACK stack cells bottom
   first).  For a registered channel c of any bay b, any channel kind and any property combination (raw model
   channels, system channels with CHAN_IGNORE_DUP, mux outputs with DIRTY_WRITE + ALLOW_DUP, clean or dirty):
     - BayDefs.chan_set / chan_push / chan_pop refuse (with an error other than "no such channel") exactly when
       the generated function returns -1 (never a NULL dereference); when they accept, the generated function
       accepts, CRep holds between the new channels, nothing else of the bay changes, the caller's out cell is
       untouched, and the bay's dirty callback was called (once) iff BayDefs appended c to the dirty list;
     - the generated chan_read stores the value BayDefs.chan_read returns;
     - the generated chan_flush fails on a clean channel (BayDefs.flush_all: E_FLUSH) and otherwise yields the
       channel BayDefs.flushed describes (last_value := current value, clean);
     - the channel BayDefs.mk_chan creates is represented by the zeroed C channel with those property words. *)
From OV Require Emu.ChanPre Gen.Chan_gen Proofs.BayChanProofs.
Theorem C06_bay_channels_from_source : forall b c bch sx st,
  nth_error (b_chans b) c = Some bch -> BayChanProofs.CRep bch (ChanPre.ch st) -> ChanPre.cb_ret sx = 0 ->
  (forall v, BayChanProofs.write_rel b c sx st (Chan_gen.chan_set (Some tt) (BayChanProofs.inj v)) (chan_set b c v)) /\
  (forall v, BayChanProofs.write_rel b c sx st (Chan_gen.chan_push (Some tt) (BayChanProofs.inj v)) (chan_push b c v)) /\
  (forall v, BayChanProofs.write_rel b c sx st (Chan_gen.chan_pop (Some tt) (BayChanProofs.inj v)) (chan_pop b c v)) /\
  ChanPre.exec (Chan_gen.chan_read (Some tt) (Some ChanPre.LOut)) sx st =
    Ok {| ChanPre.ch := ChanPre.ch st; ChanPre.out := BayChanProofs.inj (chan_read bch); ChanPre.ncb := ChanPre.ncb st |} /\
  (if c_dirty bch
   then exists st', ChanPre.exec (Chan_gen.chan_flush (Some tt)) sx st = Ok st' /\ BayChanProofs.CRep (flushed bch) (ChanPre.ch st') /\
                    ChanPre.out st' = ChanPre.out st /\ ChanPre.ncb st' = ChanPre.ncb st
   else ChanPre.exec (Chan_gen.chan_flush (Some tt)) sx st = Err ChanPre.E_FAIL) /\
  (forall stack dw allow ign, BayChanProofs.CRep (mk_chan stack dw allow ign) (BayChanProofs.c_chan0 stack dw allow ign)).
Proof. exact BayChanProofs.bay_channels_from_source. Qed.
Print Assumptions C06_bay_channels_from_source.
(* ==== end of block (bay channels from source) ==== *)

(* ==== begin of block (mux callbacks from source, unit mux) ==== *)
(* The mux callbacks of the bay model are the REGENERATED src/emu/mux.c (Gen/Mux_gen.v: default_select,
   select_input, cb_select, cb_reselect, cb_input, translated on every run over Emu/MuxPre.v, whose state is a
   BayDefs bay and whose primitives bay_enable_cb / bay_disable_cb / chan_read / chan_set have the meaning
   BayDefs gives them).  For every bay b and every initialised mux m of it, started on any C-side bookkeeping:
     - the generated cb_select, called on the select channel with the mux as argument, ends in the bay
       BayDefs.cb_select computes (disable the old input's callback, run the select function, enable the new
       one, write the output), and refuses exactly when BayDefs refuses: a missing channel / input (E_WIRING,
       a wild pointer in C) is a trap, every other refusal is `return -1`;
     - the same for cb_reselect (from any channel) and for cb_input of every input, called on that input's channel;
     - the generated default_select computes BayDefs.run_select SelDefault (null -> no input, index out of
       range -> refusal).
   The custom select functions of thread.c enter through the environment (custom_of = BayDefs.run_select). *)
From OV Require Emu.MuxPre Gen.Mux_gen Proofs.BayMuxGenProofs.
Theorem C06_mux_callbacks_from_source : forall b m x isel cell,
  nth_error (b_muxes b) m = Some x -> mx_init x = true ->
  let sx := BayMuxGenProofs.env_of m x in
  let st := {| MuxPre.ms_bay := b; MuxPre.ms_isel := isel; MuxPre.ms_cell := cell |} in
  BayMuxGenProofs.cb_rel (run_dcb b (DSelect m)) (MuxPre.exec (Mux_gen.cb_select (Some (mx_sel x)) (Some MuxPre.VMux)) sx st) /\
  (forall c, BayMuxGenProofs.cb_rel (run_dcb b (DReselect m)) (MuxPre.exec (Mux_gen.cb_reselect (Some c) (Some MuxPre.VMux)) sx st)) /\
  (forall i ic, nth_error (mx_ins x) i = Some ic ->
     BayMuxGenProofs.cb_rel (run_dcb b (DInput m i)) (MuxPre.exec (Mux_gen.cb_input (Some ic) (Some (MuxPre.VInput (Z.of_nat i)))) sx st)) /\
  (forall key, Mux_gen.default_select (Some tt) (MuxPre.inj key) (Some tt) sx st =
     match run_select SelDefault (length (mx_ins x)) key with
     | Ok o => Ok (tt, {| MuxPre.ms_bay := b; MuxPre.ms_isel := isel; MuxPre.ms_cell := option_map Z.of_nat o |})
     | Err _ => Err MuxPre.E_FAIL
     end).
Proof. exact BayMuxGenProofs.mux_callbacks_from_source. Qed.
Print Assumptions C06_mux_callbacks_from_source.

(* the custom select functions of src/emu/thread.c, regenerated too: on the state values the emulator writes
   (below 2^32: `(enum thread_state) value.i` keeps the low 32 bits) thread_select_running / thread_select_active
   compute BayDefs.run_select SelRunning / SelActive, i.e. the `custom_of` of the theorem above *)
Theorem C06_thread_select_from_source : forall (running : bool) sx st key, BayMuxGenProofs.small_key key ->
  MuxPre.with_out_pinput ((if running then Mux_gen.thread_select_running else Mux_gen.thread_select_active) (Some tt) (MuxPre.inj key)) sx st =
  match run_select (if running then SelRunning else SelActive) (length (mx_ins (MuxPre.mx sx st))) key with
  | Ok o => Ok (option_map Z.of_nat o, {| MuxPre.ms_bay := MuxPre.ms_bay st; MuxPre.ms_isel := MuxPre.ms_isel st; MuxPre.ms_cell := option_map Z.of_nat o |})
  | Err _ => Err MuxPre.E_FAIL
  end.
Proof. exact BayMuxGenProofs.thread_select_eq. Qed.
Print Assumptions C06_thread_select_from_source.
(* ==== end of block (mux callbacks from source) ==== *)

(* ==== emulator main loop from source (unit emuloop) ==== *)
(* The order BayDefs.mstep assumes is the order of the generated src/emu/emu.c:emu_step (Gen/EmuLoop_gen.v, unit
   emuloop; prelude Emu/EmuLoopPre.v with the mechanical rendering MMech of the models' state): for a delivered event,
   after recorder_advance, the handler of the event's model runs first (guards and structure updates of core_step, its
   channel writes replayed on the bay: BayDefs.apply_writes of BayDefs.handler_writes) and ONLY THEN bay_propagate
   (BayDefs.propagate), whose PRV lines go to the recorder at the new time: EmuLoopRelDefs.mech_iter is
   rec_advance ; BayDefs.mstep ; rec_write.  Any refusal (time going back, model not enabled, handler, a refused
   channel write, propagation) is an error of emu_step. *)
From OV Require Emu.PlayerDefs Emu.PvDefs Emu.EmuLoopPre Emu.EmuLoopRelDefs Gen.EmuLoop_gen Proofs.EmuLoopProofs.

Theorem C06_step_order_from_source : forall sx st e pst' who cst b,
  PlayerDefs.pstep true (EmuLoopPre.en_offs sx) (EmuLoopPre.es_player st) = PlayerDefs.SEmit e pst' ->
  EmuLoopPre.en_lpt sx (PlayerDefs.o_id e) = Some who ->
  0 <= EmuLoopRelDefs.model_of sx e < 256 -> EmuLoopRelDefs.models_wf sx st ->
  EmuLoopPre.es_models st = EmuLoopPre.MMech cst b ->
  EmuLoop_gen.emu_step tt sx st =
  match EmuLoopRelDefs.mech_iter (EmuLoopPre.en_sx sx) cst b (EmuLoopPre.es_rec st) (PlayerDefs.o_dclock e) who
          (EmuLoopRelDefs.event_of sx (EmuLoopPre.es_enabled st) e) with
  | Ok (cst', b', r') =>
    Ok (0, EmuLoopPre.with_models (EmuLoopPre.with_rec (EmuLoopRelDefs.delivered st pst' e who) r') (EmuLoopPre.MMech cst' b'))
  | Err _ => Err EmuLoopPre.E_FAIL
  end.
Proof. exact EmuLoopProofs.emu_step_mech_from_source. Qed.
Print Assumptions C06_step_order_from_source.

(* mech_iter is BayDefs.mstep between recorder_advance and the emit callbacks *)
Theorem C06_mech_iter_is_mstep : forall sx st b r dclock who ev,
  EmuLoopRelDefs.mech_iter sx st b r dclock who ev =
  match PvDefs.rec_advance r dclock with
  | Err e => Err e
  | Ok r1 =>
    match mstep sx st b who ev with
    | Err e => Err e
    | Ok (st1, b1, ls) => match PvDefs.foldr PvDefs.rec_write ls r1 with Err e => Err e | Ok r2 => Ok (st1, b1, r2) end
    end
  end.
Proof. reflexivity. Qed.
Print Assumptions C06_mech_iter_is_mstep.
(* ==== end of block (unit emuloop) ==== *)

(* ==== connect-time wiring from source (unit connect) ==== *)
(* The code that BUILDS the bay is regenerated from src/emu/thread.c (thread_init_end, thread_connect), cpu.c (cpu_init_end,
   cpu_connect, cpu_get_th_chan), track.c (track_init, track_set_select, track_set_input, track_th_input_chan,
   track_connect_thread, track_get_output), model_thread.c (init_chan, init_thread, model_thread_create,
   model_thread_connect), model_cpu.c (init_chan, init_cpu, model_cpu_create, connect_cpu, model_cpu_connect), model_pvt.c
   (connect_thread_prv, connect_cpu_prv, model_pvt_connect_thread / _cpu) and the pvt.c getters into Gen/Connect_gen.v on
   every run, over Emu/ConnectPre.v (a BayDefs bay under construction + the heap the C allocates; chan_init /
   chan_prop_set / bay_register / mux_init / mux_set_input / prv_register are primitives with the meaning BayDefs gives
   them; the PRV types and flags of the system channels are those unit pv dumps from thread.c / cpu.c).
   ConnectProofs.connect_all sx starts from the EMPTY bay and runs, in the emulator's order: the generated
   thread_init_end / cpu_init_end of every thread / CPU, the generated thread_connect / cpu_connect (system_connect), the
   generated model_thread_create + model_cpu_create of every model, then the generated model_thread_connect +
   model_cpu_connect (+ the hand-written mux_set_default tail of <model>/setup.c) of every model, in slot order; the loops
   of system.c and model.c that call them are written by hand in connect_all.
   ConnectProofs.normalize reads, off the heap the generated code built (extend tables, th->ch, th->track, cpu->track,
   track->mux), which built channel / mux is which channel / mux of BayDefs.wire and renames the built bay; it refuses
   unless the renaming is a bijection onto everything that was built.
   C06_wiring_from_source_partial: for 2 threads, 2 CPUs + the virtual CPU and EVERY subset of the models of the dumped
   table (channel specs in slot order), and C06_wiring_from_source_sizes_partial for 1..4 threads x 1..4 CPUs, the
   renamed bay IS BayDefs.wire: same channels with the same properties, same dirty callbacks IN THE SAME ORDER on every
   channel (the cb_select's on a thread's state channel and on a CPU's th_running channel), same muxes (select, inputs
   in thread order, output, select function, default), same emit callbacks (side, row, type, flags) = key_of /
   flags_of of the slots, for the system channels too.
   PARTIAL: the statement is established by computation for those families (and for any concrete description through the
   decidable certificate ConnectProofs.wiring_ok: C06_wiring_certificate); the induction over arbitrary numbers of
   threads / CPUs / channel specs is missing.  Not covered: the mark channels of ovni/mark.c (pseudo-model 1000) and the
   breakdown wiring (C20).
   FINDING: model_connect runs the hooks in slot order (increasing model id) whereas Tables_gen.chanspecs (hence
   DecodeDefs.mk_chans and BayDefs.wire on it) is in models_register order: with several models enabled BayDefs.wire
   orders the cb_select callbacks of a thread's state channel differently from the emulator
   (C06_ex_wiring_table_order_differs).  Only the order of PRV lines inside one propagation depends on it (C06 compares
   them per key); the theorems are about specs in slot order (ConnectProofs.slot_chans). *)
From OV Require Emu.ConnectPre Gen.Connect_gen Proofs.ConnectProofs Proofs.ConnectFnProofs.

Theorem C06_wiring_from_source_partial : forall en, In en (ConnectProofs.subsets ConnectProofs.all_models) ->
  exists st, ConnectProofs.connect_all (ConnectProofs.fam_sx en) = Ok st /\
             ConnectProofs.normalize (ConnectProofs.fam_sx en) st = Some (wire (ConnectProofs.fam_sx en)).
Proof. exact ConnectProofs.wiring_from_source_family. Qed.
Print Assumptions C06_wiring_from_source_partial.

(* the same for 1..4 threads x 1..4 CPUs with all models, only nOS-V, and ovni + Nanos6 *)
Theorem C06_wiring_from_source_sizes_partial : forall nt nc en, In (nt, nc) ConnectProofs.sizes -> In en ConnectProofs.size_models ->
  exists st, ConnectProofs.connect_all (ConnectProofs.sized_sx nt nc en) = Ok st /\
             ConnectProofs.normalize (ConnectProofs.sized_sx nt nc en) st = Some (wire (ConnectProofs.sized_sx nt nc en)).
Proof. exact ConnectProofs.wiring_from_source_sizes. Qed.
Print Assumptions C06_wiring_from_source_sizes_partial.

(* the decidable certificate, for any static description *)
Theorem C06_wiring_certificate : forall sx, ConnectProofs.wiring_ok sx = true ->
  exists st, ConnectProofs.connect_all sx = Ok st /\ ConnectProofs.normalize sx st = Some (wire sx).
Proof. exact ConnectProofs.wiring_ok_sound. Qed.
Print Assumptions C06_wiring_certificate.

(* C06_bay_run_refines is about the bay the generated code builds: for a description that passes the certificate, the
   (renamed) built bay is wire sx, from which wire_init / mrun_from start *)
Theorem C06_wiring_run_refines : forall sx evs, ConnectProofs.wiring_ok sx = true ->
  (0 < length (s_threads sx))%nat -> wf_keys sx -> init_ok_chans sx -> (forall x, In x evs -> ev_wf (snd x)) ->
  exists st, ConnectProofs.connect_all sx = Ok st /\ ConnectProofs.normalize sx st = Some (wire sx) /\
  exists b, wire_init sx = Ok (b, [], []) /\
    match run_from sx (init sx) evs, mrun_from sx (init sx) b evs with
    | Ok (st', tl), Ok (st'', b', mtl) =>
      state_equiv st'' st' /\ Wired sx st'' b' /\ Permutation mtl tl /\ forall k, tfilter k mtl = tfilter k tl
    | Err _, Err _ => True
    | _, _ => False
    end.
Proof.
  exact (fun sx evs H a b c d => match ConnectProofs.wiring_ok_sound sx H with
                                 | ex_intro _ st (conj E1 E2) => ex_intro _ st (conj E1 (conj E2 (C06_bay_run_refines sx evs a b c d))) end).
Qed.
Print Assumptions C06_wiring_run_refines.

(* the enum constants the prelude hard-codes are those the compiler gives *)
Theorem C06_connect_constants :
  Connect_gen.c_CHAN_ALLOW_DUP = ConnectPre.P_ALLOW_DUP /\ Connect_gen.c_CHAN_IGNORE_DUP = ConnectPre.P_IGNORE_DUP /\ Connect_gen.c_CHAN_STACK = ConnectPre.T_STACK /\ Connect_gen.c_CHAN_SINGLE = 0 /\
  Connect_gen.c_TRACK_TH_ANY = TRACK_ANY /\ Connect_gen.c_TRACK_TH_RUN = TRACK_RUN /\ Connect_gen.c_TRACK_TH_ACT = TRACK_ACT /\
  Connect_gen.c_TH_CHAN_STATE = Z.of_nat W_STATE /\ Connect_gen.c_CPU_CHAN_THRUN = Z.of_nat X_THRUN /\
  Connect_gen.c_TH_CHAN_MAX = 3 /\ Connect_gen.c_CPU_CHAN_MAX = 5.
Proof. exact ConnectProofs.prop_constants. Qed.
Print Assumptions C06_connect_constants.

(* general (every state): what track_th_input_chan does per tracking mode, and where the CPU muxes select *)
Theorem C06_track_modes_from_source : forall b i sel inp sx st o,
  ConnectPre.track_at st (Some (b, i)) = Some o ->
  (ConnectPre.tk_mode o = TRACK_ANY ->
     Connect_gen.track_th_input_chan (Some (b, i)) sel inp sx st = ConnectPre.set_track_out (Some (b, i)) (fun _ _ => inp) sx st) /\
  (forall f, ConnectFnProofs.mux_mode (ConnectPre.tk_mode o) = Some f ->
     Connect_gen.track_th_input_chan (Some (b, i)) sel inp sx st =
     ConnectPre.bind_ (ConnectPre.mux_init (Some (ConnectPre.MTrk b i)) (ConnectPre.tk_bay o) sel (Some (ConnectPre.ATrk b i)) (Some f) 1)
       (ConnectPre.bind_ (ConnectPre.set_track_out (Some (b, i)) (fun _ _ => Some (ConnectPre.ATrk b i)))
                         (ConnectPre.mux_set_input (Some (ConnectPre.MTrk b i)) 0 inp)) sx st) /\
  (ConnectPre.tk_mode o <> TRACK_ANY -> ConnectFnProofs.mux_mode (ConnectPre.tk_mode o) = None ->
     Connect_gen.track_th_input_chan (Some (b, i)) sel inp sx st = Err ConnectPre.E_FAIL).
Proof.
  exact (fun b i sel inp sx st o H =>
    conj (ConnectFnProofs.track_th_input_chan_any b i sel inp sx st o H)
         (conj (fun f => ConnectFnProofs.track_th_input_chan_mux b i sel inp sx st o f H)
               (ConnectFnProofs.track_th_input_chan_bad_mode b i sel inp sx st o H))).
Qed.
Print Assumptions C06_track_modes_from_source.
Theorem C06_cpu_mux_select_from_source : forall sx st c,
  Connect_gen.cpu_get_th_chan sx st (Some c) = Some (ConnectPre.ASysCpu c X_THRUN).
Proof. exact ConnectFnProofs.cpu_get_th_chan_is_thrun. Qed.
Print Assumptions C06_cpu_mux_select_from_source.

(* the 2-thread 2-CPU system of C06_ex_bay_batch (a RUNNING-tracked stack, an ACTIVE-tracked channel with a CPU
   default), and the nOS-V + ovni system of the family: the generated code builds their BayDefs.wire *)
Example C06_ex_wiring_sx2 : ConnectProofs.wiring_ok sx2 = true.
Proof. vm_compute. reflexivity. Qed.
Example C06_ex_wiring_nosv : ConnectProofs.wiring_ok (ConnectProofs.fam_sx (DecodeDefs.M_OVNI :: DecodeDefs.M_NOSV :: nil)) = true.
Proof. vm_compute. reflexivity. Qed.
(* the finding: with the specs in the order of the dumped table (models_register order) and all models enabled the
   callback order of BayDefs.wire is not the emulator's *)
Example C06_ex_wiring_table_order_differs :
  ConnectProofs.wiring_ok {| s_threads := ConnectProofs.fam_threads; s_cpus := ConnectProofs.fam_cpus;
                             s_chans := DecodeDefs.mk_chans ConnectProofs.all_models; s_lint := false |} = false.
Proof. vm_compute. reflexivity. Qed.
(* ==== end of block (unit connect) ==== *)

(* ==== bay.c from source (unit bayc) ==== *)
(* src/emu/bay.c is regenerated into Gen/Bay_gen.v on every run (unit bayc; prelude Emu/BayCPre.v: the state is a BayDefs
   bay + the PRV last values and lines; a channel's name is its bay id; a pointer to a struct bay_cb is the BayDefs callback
   it denotes; the calls through cur->func are BayDefs.run_dcb / EmuCoreDefs.emit; the DL_FOREACH walks over
   bay->dirty and bchan->cb[type] are LIVE walks: the successor is read after the body ran).
   C06_bay_propagate_from_source: the generated bay_propagate IS BayDefs.propagate: dirty phase (every dirty channel, in
   list order while the list grows; per channel its dirty callbacks in list order while that list grows, the error of a
   callback stops everything), THEN the emit phase over the final dirty list, THEN the flush phase, THEN the dirty list is
   emptied; same bay, same PRV table, same lines in the same order, same error codes (E_FUEL included: the iteration
   bounds are BayDefs'; unreachable by C06_propagate_fuel).  Hypothesis dirty_ok: after the dirty phase every id of the
   dirty list is a channel and the list is not longer than the channel table (BayProofs: Shape, NoDup of the dirty list).
   C06_bay_callbacks_from_source: bay_enable_cb / bay_disable_cb of a mux input callback are BayDefs.enable_input /
   disable_input (APPEND at the end of the input channel's list, the enabled flag, no-ops when already in that state);
   cb_chan_is_dirty appends the channel to the END of the dirty list and refuses outside READY / PROPAGATING;
   bay_register refuses a name that is already in the table and otherwise appends the channel with empty callback lists;
   bay_add_cb(.., cb_select / cb_reselect, mux, 1) leaves the callback ENABLED at the end of the channel's dirty list. *)
From OV Require Emu.BayCPre Gen.Bay_gen Proofs.BayCProofs.

Theorem C06_bay_propagate_from_source : forall sx st, BayCProofs.dirty_ok (BayCPre.bs_bay st) ->
  Bay_gen.bay_propagate (Some tt) sx st =
  match propagate (BayCPre.bs_bay st) (BayCPre.bs_last st) with
  | Ok (b', last', ls) =>
    Ok (tt, BayCPre.with_state (BayCPre.with_emit (BayCPre.with_bay st b') last' (BayCPre.bs_lines st ++ ls)) (CInt.cast_uint32 Bay_gen.c_BAY_READY))
  | Err e => Err e
  end.
Proof. exact BayCProofs.bay_propagate_from_source. Qed.
Print Assumptions C06_bay_propagate_from_source.

Theorem C06_bay_callbacks_from_source :
  (forall sx st m i mx en c,
     nth_error (b_muxes (BayCPre.bs_bay st)) m = Some mx -> nth_error (mx_en mx) i = Some en -> nth_error (mx_ins mx) i = Some c ->
     Bay_gen.bay_enable_cb (Some (BayCPre.CbAt c (BayCPre.WD (DInput m i)))) sx st =
       match enable_input (BayCPre.bs_bay st) m i with Ok b' => Ok (tt, BayCPre.with_bay st b') | Err e => Err e end /\
     Bay_gen.bay_disable_cb (Some (BayCPre.CbAt c (BayCPre.WD (DInput m i)))) sx st =
       match disable_input (BayCPre.bs_bay st) m i with Ok b' => Ok (tt, BayCPre.with_bay st b') | Err e => Err e end) /\
  (forall sx st c,
     Bay_gen.cb_chan_is_dirty (Some (BayCPre.CReg c)) (Some (BayCPre.VBchan (BayCPre.BAt c))) sx st =
     if (BayCPre.bs_state st =? Bay_gen.c_BAY_READY) || (BayCPre.bs_state st =? Bay_gen.c_BAY_PROPAGATING)
     then Ok (tt, BayCPre.with_bay st (set_dirty_list (BayCPre.bs_bay st) (b_dirty (BayCPre.bs_bay st) ++ c :: nil)))
     else Err BayCPre.E_FAIL) /\
  (forall sx st n ch, BayCPre.bn_alloc_ok sx = true ->
     Bay_gen.bay_register (Some tt) (Some (BayCPre.CNewChan n ch)) sx st =
     if Nat.ltb n (length (b_chans (BayCPre.bs_bay st))) then Err BayCPre.E_FAIL
     else if Nat.eqb n (length (b_chans (BayCPre.bs_bay st)))
          then Ok (tt, BayCPre.with_bay (BayCPre.with_hooked (BayCPre.with_newbchan st (Some (BayCPre.CNewChan n ch))) (n :: BayCPre.bs_hooked st))
                         {| b_chans := b_chans (BayCPre.bs_bay st) ++ ch :: nil; b_dcbs := b_dcbs (BayCPre.bs_bay st) ++ nil :: nil;
                            b_ecbs := b_ecbs (BayCPre.bs_bay st) ++ nil :: nil; b_muxes := b_muxes (BayCPre.bs_bay st); b_dirty := b_dirty (BayCPre.bs_bay st) |})
          else Err BayCPre.E_TRAP) /\
  (forall sx st c f m d, BayCPre.bn_alloc_ok sx = true -> BayCPre.valid_chan st c = true ->
     BayCPre.what_of (Some f) (Some (BayCPre.VMux m)) = Some (BayCPre.WD d) ->
     existsb (dcb_eqb d) (dcbs_of (BayCPre.bs_bay st) c) = false ->
     exists st', Bay_gen.bay_add_cb (Some tt) Bay_gen.c_BAY_CB_DIRTY (Some (BayCPre.CReg c)) (Some f) (Some (BayCPre.VMux m)) 1 sx st =
                   Ok (Some BayCPre.CbNew, st') /\
                 BayCPre.bs_bay st' = set_dcbs (BayCPre.bs_bay st) c (dcbs_of (BayCPre.bs_bay st) c ++ d :: nil)).
Proof.
  exact (conj (fun sx st m i mx en c H1 H2 H3 => conj (BayCProofs.enable_input_from_source sx st m i mx en c H1 H2 H3)
                                                     (BayCProofs.disable_input_from_source sx st m i mx en c H1 H2 H3))
        (conj BayCProofs.chan_is_dirty_from_source (conj BayCProofs.bay_register_from_source BayCProofs.add_select_cb_from_source))).
Qed.
Print Assumptions C06_bay_callbacks_from_source.
(* under the precondition of C06_propagate_fuel (Pre: the shape of a wired bay between two events) the hypothesis dirty_ok
   holds, and the generated bay_propagate succeeds exactly when BayDefs.propagate does, never with E_FUEL *)
Theorem C06_bay_propagate_from_source_pre : forall sx st, Pre (BayCPre.bs_bay st) ->
  (exists b' last' ls, propagate (BayCPre.bs_bay st) (BayCPre.bs_last st) = Ok (b', last', ls) /\
     Bay_gen.bay_propagate (Some tt) sx st =
     Ok (tt, BayCPre.with_state (BayCPre.with_emit (BayCPre.with_bay st b') last' (BayCPre.bs_lines st ++ ls)) (CInt.cast_uint32 Bay_gen.c_BAY_READY)))
  \/ exists e, e <> E_FUEL /\ propagate (BayCPre.bs_bay st) (BayCPre.bs_last st) = Err e /\ Bay_gen.bay_propagate (Some tt) sx st = Err e.
Proof. exact BayCProofs.bay_propagate_from_source_pre. Qed.
Print Assumptions C06_bay_propagate_from_source_pre.
(* ==== end of block (unit bayc) ==== *)

(* ==== mux construction from source (unit muxc) ==== *)
(* mux_init, mux_get_input, mux_set_input, mux_add_reselect and mux_set_default of src/emu/mux.c, which unit mux could not
   take in phase 2 (results of bay_add_cb / bay_find / chan_get_type inside conditions, memset, calloc), are regenerated
   into Gen/MuxInit_gen.v on every run (unit muxc; prelude Emu/MuxInitPre.v: the struct mux being built next to a BayDefs
   bay; bay_add_cb has the meaning C06_bay_callbacks_from_source proves of the generated bay.c).
   C06_mux_init_from_source: on a registered select s and a registered single output u <> s, the generated mux_init ends
   with: the output DIRTY_WRITE and ALLOW_DUP, cb_select appended ENABLED at the end of the select channel's dirty
   callbacks, the struct zeroed then filled (selected = 0: the memset value the phase-1 harness found, ninputs, a zeroed
   inputs table, select_func, no default); read as a BayDefs mux record (MuxInitProofs.record_of) it is the record
   {init, sel, out, fun, def None, n unset inputs, all disabled, selected Some 0} that Emu/ConnectPre.v's hand-written
   mux_init appends; nothing else of the bay changes.  C06_mux_init_refusals: a stack output, select = output, an
   unregistered select are refused.  C06_mux_set_input_from_source: the entry gets index / chan / output and its cb_input
   (DInput of this mux) is created DISABLED: the bay is unchanged.  C06_mux_reselect_default_from_source. *)
From OV Require Emu.MuxInitPre Gen.MuxInit_gen Proofs.MuxInitProofs.

Theorem C06_mux_init_from_source : forall custom sx st s u ch f n st',
  MuxInitPre.me_alloc_ok sx = true -> MuxInitPre.valid st s = true ->
  nth_error (b_chans (MuxInitPre.mi_bay st)) u = Some ch -> c_stack ch = false -> s <> u ->
  length (b_dcbs (MuxInitPre.mi_bay st)) = length (b_chans (MuxInitPre.mi_bay st)) ->
  MuxInit_gen.mux_init (Some tt) (Some tt) (Some s) (Some u) f n sx st = Ok (tt, st') ->
  MuxInitProofs.record_of custom st' =
    {| mx_init := true; mx_sel := s; mx_out := u; mx_fun := MuxInitProofs.fun_of f custom; mx_def := None;
       mx_ins := repeat 0%nat (Z.to_nat (CInt.cast_uint64 n)); mx_en := repeat false (Z.to_nat (CInt.cast_uint64 n)); mx_selected := Some 0%nat |} /\
  dcbs_of (MuxInitPre.mi_bay st') s = dcbs_of (MuxInitPre.mi_bay st) s ++ DSelect (MuxInitPre.me_id sx) :: nil /\
  nth_error (b_chans (MuxInitPre.mi_bay st')) u = Some (MuxInitProofs.out_chan ch) /\
  b_muxes (MuxInitPre.mi_bay st') = b_muxes (MuxInitPre.mi_bay st) /\ b_ecbs (MuxInitPre.mi_bay st') = b_ecbs (MuxInitPre.mi_bay st) /\
  b_dirty (MuxInitPre.mi_bay st') = b_dirty (MuxInitPre.mi_bay st).
Proof. exact MuxInitProofs.mux_init_record. Qed.
Print Assumptions C06_mux_init_from_source.

(* mux_init succeeds under those hypotheses (explicit final state) *)
Theorem C06_mux_init_succeeds : forall sx st s u ch f n,
  MuxInitPre.me_alloc_ok sx = true -> MuxInitPre.valid st s = true ->
  nth_error (b_chans (MuxInitPre.mi_bay st)) u = Some ch -> c_stack ch = false -> s <> u ->
  exists st', MuxInit_gen.mux_init (Some tt) (Some tt) (Some s) (Some u) f n sx st = Ok (tt, st') /\
              MuxInitPre.mi_selected st' = 0 /\ MuxInitPre.mi_select st' = Some s /\ MuxInitPre.mi_output st' = Some u /\
              MuxInitPre.mi_inputs st' = Some (repeat MuxInitPre.input0 (Z.to_nat (CInt.cast_uint64 n))).
Proof.
  exact (fun sx st s u ch f n a b c d e =>
    ex_intro _ _ (conj (MuxInitProofs.mux_init_from_source sx st s u ch f n a b c d e) (conj eq_refl (conj eq_refl (conj eq_refl eq_refl))))).
Qed.
Print Assumptions C06_mux_init_succeeds.

Theorem C06_mux_init_refusals : forall sx st s u f n,
  (forall ch, nth_error (b_chans (MuxInitPre.mi_bay st)) u = Some ch -> c_stack ch = true ->
     MuxInit_gen.mux_init (Some tt) (Some tt) (Some s) (Some u) f n sx st = Err MuxInitPre.E_FAIL) /\
  (MuxInit_gen.mux_init (Some tt) (Some tt) (Some u) (Some u) f n sx st = Err MuxInitPre.E_FAIL) /\
  (forall ch, nth_error (b_chans (MuxInitPre.mi_bay st)) u = Some ch -> c_stack ch = false -> s <> u -> MuxInitPre.valid st s = false ->
     MuxInit_gen.mux_init (Some tt) (Some tt) (Some s) (Some u) f n sx st = Err MuxInitPre.E_FAIL).
Proof. exact MuxInitProofs.mux_init_refusals. Qed.
Print Assumptions C06_mux_init_refusals.

Theorem C06_mux_set_input_from_source : forall sx st i c l o,
  MuxInitPre.me_alloc_ok sx = true -> MuxInitPre.valid st c = true -> MuxInitPre.mi_link st = Some tt -> MuxInitPre.mi_output st <> Some c ->
  MuxInitPre.mi_inputs st = Some l -> nth_error l i = Some o -> MuxInitPre.in_chan o = None ->
  MuxInit_gen.mux_set_input (Some tt) (Z.of_nat i) (Some c) sx st =
  Ok (tt, MuxInitPre.with_inputs st (Some (update l i
        {| MuxInitPre.in_index := Z.of_nat i; MuxInitPre.in_chan := Some c; MuxInitPre.in_selected := MuxInitPre.in_selected o;
           MuxInitPre.in_output := MuxInitPre.mi_output st; MuxInitPre.in_cb := Some (DInput (MuxInitPre.me_id sx) i) |}))).
Proof. exact MuxInitProofs.mux_set_input_from_source. Qed.
Print Assumptions C06_mux_set_input_from_source.

Theorem C06_mux_reselect_default_from_source :
  (forall sx st c, MuxInitPre.me_alloc_ok sx = true -> MuxInitPre.valid st c = true -> MuxInitPre.mi_link st = Some tt ->
     MuxInit_gen.mux_add_reselect (Some tt) (Some c) sx st =
     Ok (tt, MuxInitPre.with_bay st (set_dcbs (MuxInitPre.mi_bay st) c (dcbs_of (MuxInitPre.mi_bay st) c ++ DReselect (MuxInitPre.me_id sx) :: nil)))) /\
  (forall sx st v, MuxInit_gen.mux_set_default (Some tt) v sx st =
     Ok (tt, MuxInitPre.mk (MuxInitPre.mi_bay st) (MuxInitPre.mi_link st) (MuxInitPre.mi_ninputs st) (MuxInitPre.mi_selected st)
               (MuxInitPre.mi_inputs st) (MuxInitPre.mi_fun st) (MuxInitPre.mi_select st) (MuxInitPre.mi_output st) v)).
Proof. exact (conj MuxInitProofs.mux_add_reselect_from_source MuxInitProofs.mux_set_default_from_source). Qed.
Print Assumptions C06_mux_reselect_default_from_source.
(* ==== end of block (unit muxc) ==== *)

(* ==== connect composed with the generated mux.c / bay.c (units connect + muxc + bayc) ==== *)
(* The generated connect functions (unit connect) call mux_init / mux_set_input / mux_add_reselect / mux_set_default /
   bay_register as primitives whose meaning Emu/ConnectPre.v writes by hand.  These theorems derive those meanings from the
   GENERATED mux.c / bay.c (Gen/MuxInit_gen.v, Gen/Bay_gen.v), for every connect state:
   C06_connect_mux_init_composed: ConnectPre.mux_init = run the generated mux_init on a fresh struct mux next to the connect
   state's bay (select / output = the registered ids of the two channel objects, this mux's id = the next mux id), then commit
   the struct, read as a BayDefs mux record (MuxInitProofs.record_of), at the end of the mux table and record the id in the
   track / breakdown object; refusals correspond (E_FAIL <-> E_FAIL).  Reg: every registered address has a channel and a
   callback list (kept by bay_register and mux_init: C06_connect_reg_kept).
   C06_connect_mux_set_input_composed, C06_connect_mux_default_reselect_composed: simulation through Rep (the struct is the
   record stored under the mux id; channels, callback lists, dirty list are the same): the generated function and
   ConnectPre's primitive both succeed and Rep holds again.
   C06_connect_bay_register_composed: ConnectPre.bay_register = the generated bay_register on the channel named by its id
   (a fresh name when it is not registered yet: distinct objects have distinct names is the trusted reading of the name
   formats), the duplicate refusal included.
   C06_mux_bay_add_cb_composed: the bay_add_cb primitive of Emu/MuxInitPre.v is the generated bay_add_cb for the callbacks
   mux.c registers enabled.
   STILL MISSING for dropping `_partial` from C06_wiring_from_source_partial: (a) the induction over the numbers of threads /
   CPUs / channel specs (the wiring theorems remain computations over families + the decidable certificate); (b) prv_register
   (prv.c) and chan_init (chan.c: memset + name) of ConnectPre are hand-written: neither function is in a translated unit.
   C06_connect_chan_prop_set_composed: ConnectPre.chan_prop_set on a chan_init'ed object is the generated chan_prop_set of
   unit chan on the struct chan whose prop array is [0; allow; ign] (ALLOW_DUP / IGNORE_DUP, values 0 / 1).
   C06_mux_bay_add_cb_disabled_composed: cb_input is created DISABLED by the generated bay_add_cb too (no callback list
   changes; BayDefs keeps the flag in the mux record, where it already is false after mux_init). *)
From OV Require Proofs.ConnectComposeProofs.

Theorem C06_connect_mux_init_composed : forall sx st mr s u f (n : Z) si ui,
  ConnectComposeProofs.Reg st -> ConnectPre.cn_alloc_ok sx = true -> ConnectPre.mux_exists st mr = true -> (0 <= n < 2 ^ 64)%Z ->
  ConnectPre.id_of st s = Some si -> ConnectPre.id_of st u = Some ui ->
  ConnectPre.mux_init (Some mr) (Some tt) (Some s) (Some u) f n sx st =
  match MuxInit_gen.mux_init (Some tt) (Some tt) (Some si) (Some ui) (ConnectComposeProofs.fn_of f) n
          (ConnectComposeProofs.menv_of sx (length (b_muxes (ConnectPre.cs_bay st)))) (ConnectComposeProofs.fresh st) with
  | Ok (_, ms) => ConnectPre.mux_record (ConnectPre.with_bay st (ConnectComposeProofs.commit sx ms)) mr (length (b_muxes (ConnectPre.cs_bay st)))
  | Err e => Err (ConnectComposeProofs.err_of e)
  end.
Proof. exact ConnectComposeProofs.mux_init_composed. Qed.
Print Assumptions C06_connect_mux_init_composed.

Theorem C06_connect_mux_init_rep : forall sx st mr s u f (n : Z) si ui ch ms st',
  ConnectComposeProofs.Reg st -> ConnectPre.cn_alloc_ok sx = true -> ConnectPre.id_of st s = Some si -> ConnectPre.id_of st u = Some ui -> si <> ui ->
  nth_error (b_chans (ConnectPre.cs_bay st)) ui = Some ch -> c_stack ch = false ->
  MuxInit_gen.mux_init (Some tt) (Some tt) (Some si) (Some ui) (ConnectComposeProofs.fn_of f) n
    (ConnectComposeProofs.menv_of sx (length (b_muxes (ConnectPre.cs_bay st)))) (ConnectComposeProofs.fresh st) = Ok (tt, ms) ->
  ConnectPre.mux_record (ConnectPre.with_bay st (ConnectComposeProofs.commit sx ms)) mr (length (b_muxes (ConnectPre.cs_bay st))) = Ok (tt, st') ->
  ConnectComposeProofs.Rep sx st' (length (b_muxes (ConnectPre.cs_bay st))) ms /\ ConnectPre.cs_reg st' = ConnectPre.cs_reg st /\ ConnectComposeProofs.Reg st'.
Proof. exact ConnectComposeProofs.mux_init_rep. Qed.
Print Assumptions C06_connect_mux_init_rep.

Theorem C06_connect_mux_set_input_composed : forall sx st mr mid ms a ci i l o,
  ConnectComposeProofs.Rep sx st mid ms -> ConnectComposeProofs.Reg st -> ConnectPre.cn_alloc_ok sx = true ->
  ConnectPre.mux_id st mr = Some mid -> ConnectPre.id_of st a = Some ci ->
  MuxInitPre.mi_output ms <> Some ci -> MuxInitPre.mi_inputs ms = Some l -> nth_error l i = Some o -> MuxInitPre.in_chan o = None ->
  exists ms' st',
    MuxInit_gen.mux_set_input (Some tt) (Z.of_nat i) (Some ci) (ConnectComposeProofs.menv_of sx mid) ms = Ok (tt, ms') /\
    ConnectPre.mux_set_input (Some mr) (Z.of_nat i) (Some a) sx st = Ok (tt, st') /\
    ConnectPre.cs_bay st' = set_mux (ConnectPre.cs_bay st) mid (MuxInitProofs.record_of (ConnectComposeProofs.custom_of sx) ms') /\
    ConnectComposeProofs.Rep sx st' mid ms' /\ ConnectPre.cs_reg st' = ConnectPre.cs_reg st.
Proof. exact ConnectComposeProofs.mux_set_input_composed. Qed.
Print Assumptions C06_connect_mux_set_input_composed.

Theorem C06_connect_mux_default_reselect_composed :
  (forall sx st mr mid ms v,
     ConnectComposeProofs.Rep sx st mid ms -> ConnectPre.mux_id st mr = Some mid ->
     exists ms' st',
       MuxInit_gen.mux_set_default (Some tt) v (ConnectComposeProofs.menv_of sx mid) ms = Ok (tt, ms') /\
       ConnectPre.mux_set_default (Some mr) v sx st = Ok (tt, st') /\
       ConnectPre.cs_bay st' = set_mux (ConnectPre.cs_bay st) mid (MuxInitProofs.record_of (ConnectComposeProofs.custom_of sx) ms') /\
       ConnectComposeProofs.Rep sx st' mid ms' /\ ConnectPre.cs_reg st' = ConnectPre.cs_reg st) /\
  (forall sx st mr mid ms a ci,
     ConnectComposeProofs.Rep sx st mid ms -> ConnectComposeProofs.Reg st -> ConnectPre.cn_alloc_ok sx = true ->
     ConnectPre.mux_id st mr = Some mid -> ConnectPre.id_of st a = Some ci ->
     exists ms' st',
       MuxInit_gen.mux_add_reselect (Some tt) (Some ci) (ConnectComposeProofs.menv_of sx mid) ms = Ok (tt, ms') /\
       ConnectPre.mux_add_reselect (Some mr) (Some a) sx st = Ok (tt, st') /\
       b_dcbs (ConnectPre.cs_bay st') = b_dcbs (MuxInitPre.mi_bay ms') /\
       ConnectComposeProofs.Rep sx st' mid ms' /\ ConnectPre.cs_reg st' = ConnectPre.cs_reg st).
Proof. exact (conj ConnectComposeProofs.mux_set_default_composed ConnectComposeProofs.mux_add_reselect_composed). Qed.
Print Assumptions C06_connect_mux_default_reselect_composed.

Theorem C06_connect_bay_register_composed : forall sx st a stk al ig bsx bs,
  ConnectComposeProofs.Reg st -> BayCPre.bn_alloc_ok bsx = true -> BayCPre.bs_bay bs = ConnectPre.cs_bay st ->
  ConnectPre.pend_get st a = Some (stk, al, ig) ->
  ConnectPre.bay_register (Some tt) (Some a) sx st =
  match Bay_gen.bay_register (Some tt) (Some (BayCPre.CNewChan (ConnectComposeProofs.name_of st a) (mk_chan stk false al ig))) bsx bs with
  | Ok (_, bs') => Ok (tt, ConnectPre.with_reg (ConnectPre.with_bay st (BayCPre.bs_bay bs')) (ConnectPre.cs_reg st ++ a :: nil))
  | Err e => Err (ConnectComposeProofs.berr_of e)
  end.
Proof. exact ConnectComposeProofs.bay_register_composed. Qed.
Print Assumptions C06_connect_bay_register_composed.

Theorem C06_connect_reg_kept : forall sx st a st', ConnectComposeProofs.Reg st ->
  ConnectPre.bay_register (Some tt) (Some a) sx st = Ok (tt, st') -> ConnectComposeProofs.Reg st'.
Proof. exact ConnectComposeProofs.bay_register_reg. Qed.
Print Assumptions C06_connect_reg_kept.

Theorem C06_mux_bay_add_cb_composed : forall msx ms bsx bs c f d,
  BayCPre.bs_bay bs = MuxInitPre.mi_bay ms -> MuxInitPre.me_alloc_ok msx = true -> BayCPre.bn_alloc_ok bsx = true -> MuxInitPre.valid ms c = true ->
  f <> MuxInitPre.FInput -> MuxInitPre.what_of msx (Some f) (Some MuxInitPre.VMux) = Some d ->
  existsb (dcb_eqb d) (dcbs_of (MuxInitPre.mi_bay ms) c) = false ->
  exists ms' bs',
    MuxInitPre.bay_add_cb (Some tt) 0 (Some c) (Some f) (Some MuxInitPre.VMux) 1 msx ms = Ok (Some d, ms') /\
    Bay_gen.bay_add_cb (Some tt) Bay_gen.c_BAY_CB_DIRTY (Some (BayCPre.CReg c)) (Some (ConnectComposeProofs.cbfn_of f))
      (Some (BayCPre.VMux (MuxInitPre.me_id msx))) 1 bsx bs = Ok (Some BayCPre.CbNew, bs') /\
    BayCPre.bs_bay bs' = MuxInitPre.mi_bay ms'.
Proof. exact ConnectComposeProofs.bay_add_cb_enabled_composed. Qed.
Print Assumptions C06_mux_bay_add_cb_composed.
Theorem C06_mux_bay_add_cb_disabled_composed : forall msx ms bsx bs c i mx,
  MuxInitPre.me_alloc_ok msx = true -> BayCPre.bn_alloc_ok bsx = true -> MuxInitPre.valid ms c = true -> BayCPre.valid_chan bs c = true ->
  nth_error (b_muxes (BayCPre.bs_bay bs)) (MuxInitPre.me_id msx) = Some mx -> nth_error (mx_en mx) i = Some false ->
  exists ms' bs',
    MuxInitPre.bay_add_cb (Some tt) 0 (Some c) (Some MuxInitPre.FInput) (Some (MuxInitPre.VInputRef (Z.of_nat i))) 0 msx ms =
      Ok (Some (DInput (MuxInitPre.me_id msx) i), ms') /\
    MuxInitPre.mi_bay ms' = MuxInitPre.mi_bay ms /\
    Bay_gen.bay_add_cb (Some tt) Bay_gen.c_BAY_CB_DIRTY (Some (BayCPre.CReg c)) (Some BayCPre.FInput)
      (Some (BayCPre.VInput (MuxInitPre.me_id msx) i)) 0 bsx bs = Ok (Some BayCPre.CbNew, bs') /\
    BayCPre.bs_bay bs' = BayCPre.bs_bay bs.
Proof. exact ConnectComposeProofs.bay_add_cb_disabled_composed. Qed.
Print Assumptions C06_mux_bay_add_cb_disabled_composed.
Theorem C06_connect_chan_prop_set_composed : forall sx st a stk al ig csx cst p v,
  ConnectPre.pend_get st a = Some (stk, al, ig) -> ChanPre.prop (ChanPre.ch cst) = (0 :: CInt.b2z al :: CInt.b2z ig :: nil)%Z ->
  (p = ConnectPre.P_ALLOW_DUP \/ p = ConnectPre.P_IGNORE_DUP) -> (v = 0 \/ v = 1)%Z ->
  exists st' cst' al' ig',
    ConnectPre.chan_prop_set (Some a) p v sx st = Ok (tt, st') /\
    Chan_gen.chan_prop_set (Some tt) p v csx cst = Ok (tt, cst') /\
    ConnectPre.pend_get st' a = Some (stk, al', ig') /\ ChanPre.prop (ChanPre.ch cst') = (0 :: CInt.b2z al' :: CInt.b2z ig' :: nil)%Z /\
    ChanPre.ctype (ChanPre.ch cst') = ChanPre.ctype (ChanPre.ch cst).
Proof. exact ConnectComposeProofs.chan_prop_set_composed. Qed.
Print Assumptions C06_connect_chan_prop_set_composed.
(* ==== end of block (connect composed) ==== *)

(* ==== prv_register / chan_init from source, composed with connect (unit prvreg) ==== *)
(* prv_register, check_flags, get_id of src/emu/pv/prv.c and chan_init of src/emu/chan.c are regenerated on every run (unit
   prvreg: Gen/PrvReg_gen.v over Emu/PrvRegPre.v, Gen/ChanInit_gen.v over Emu/ChanInitPre.v).
   C06_prv_register_from_source: on a registered channel, consistent flags and a (row, type) pair without a channel, the
   generated prv_register appends the emit callback {side of this PRV file, row, type, flags} at the END of the channel's emit
   callbacks and adds id = type * nrows + row to the hash table; C06_prv_register_refusals: a pair that already has a channel
   and inconsistent flags are refused (ConnectPre's hand-written prv_register does not model these two refusals: its meaning
   is the success path).
   C06_connect_prv_register_composed: ConnectPre.prv_register on a registered channel object IS the generated prv_register
   on its bay id, on the connect state's bay.  C06_chan_init_from_source / C06_connect_chan_init_composed: the generated
   chan_init leaves the zeroed struct chan with the given type (die when the formatted name does not fit 512 bytes), which is
   the (stack?, false, false) object ConnectPre.chan_init records and the struct C06_connect_chan_prop_set_composed starts
   from.  With these every primitive of ConnectPre that touches the bay is derived from generated code; what keeps
   C06_wiring_from_source_partial partial is the induction over sizes and the hand-written calling loops of connect_all. *)
From OV Require Emu.PrvRegPre Gen.PrvReg_gen Emu.ChanInitPre Gen.ChanInit_gen Proofs.PrvRegProofs.

Theorem C06_prv_register_from_source : forall sx st row type c flags,
  PrvRegPre.rn_alloc_ok sx = true -> PrvRegPre.valid st c = true -> PrvRegProofs.flags_ok flags = true ->
  existsb (Z.eqb (PrvRegProofs.id_of_row sx type row)) (PrvRegPre.rs_ids st) = false ->
  PrvReg_gen.prv_register (Some tt) row type (Some tt) (Some c) flags sx st =
  Ok (tt, {| PrvRegPre.rs_bay := PrvRegPre.set_ecbs (PrvRegPre.rs_bay st) c
                                   (ecbs_of (PrvRegPre.rs_bay st) c ++ PrvRegProofs.ecb_for sx row type flags :: nil);
             PrvRegPre.rs_ids := PrvRegProofs.id_of_row sx type row :: PrvRegPre.rs_ids st;
             PrvRegPre.rs_new := PrvRegProofs.filled sx row type c flags |}).
Proof. exact PrvRegProofs.prv_register_from_source. Qed.
Print Assumptions C06_prv_register_from_source.

Theorem C06_prv_register_refusals : forall sx st row type c flags,
  (existsb (Z.eqb (PrvRegProofs.id_of_row sx type row)) (PrvRegPre.rs_ids st) = true ->
     PrvReg_gen.prv_register (Some tt) row type (Some tt) (Some c) flags sx st = Err PrvRegPre.E_FAIL) /\
  (existsb (Z.eqb (PrvRegProofs.id_of_row sx type row)) (PrvRegPre.rs_ids st) = false -> PrvRegPre.rn_alloc_ok sx = true ->
     PrvRegProofs.flags_ok flags = false ->
     PrvReg_gen.prv_register (Some tt) row type (Some tt) (Some c) flags sx st = Err PrvRegPre.E_FAIL).
Proof. exact PrvRegProofs.prv_register_refusals. Qed.
Print Assumptions C06_prv_register_refusals.

Theorem C06_connect_prv_register_composed : forall sx st cpu row type a ci flags ids nrows new,
  ConnectComposeProofs.Reg st -> ConnectPre.id_of st a = Some ci -> PrvRegProofs.flags_ok flags = true ->
  existsb (Z.eqb (type * nrows + row)%Z) ids = false ->
  exists rs',
    PrvReg_gen.prv_register (Some tt) row type (Some tt) (Some ci) flags
      {| PrvRegPre.rn_cpu := cpu; PrvRegPre.rn_nrows := nrows; PrvRegPre.rn_alloc_ok := true |}
      {| PrvRegPre.rs_bay := ConnectPre.cs_bay st; PrvRegPre.rs_ids := ids; PrvRegPre.rs_new := new |} = Ok (tt, rs') /\
    ConnectPre.prv_register (Some cpu) row type (Some tt) (Some a) flags sx st = Ok (tt, ConnectPre.with_bay st (PrvRegPre.rs_bay rs')) /\
    PrvRegPre.rs_ids rs' = ((type * nrows + row)%Z :: ids).
Proof. exact PrvRegProofs.prv_register_composed. Qed.
Print Assumptions C06_connect_prv_register_composed.

Theorem C06_chan_init_from_source : forall sx st type fmt,
  ChanInit_gen.chan_init (Some tt) type fmt sx st =
  if ((ChanInitPre.ie_len sx <? 0) || (CInt.cast_uint64 (ChanInitPre.ie_len sx) >=? ChanInitPre.c_arraylen))%Z
  then Err ChanInitPre.E_DIE else Ok (tt, {| ChanInitPre.ic := PrvRegProofs.inited type |}).
Proof. exact PrvRegProofs.chan_init_from_source. Qed.
Print Assumptions C06_chan_init_from_source.

Theorem C06_connect_chan_init_composed : forall sx st a type fmt isx ist,
  (0 <= ChanInitPre.ie_len isx < ChanInitPre.c_arraylen)%Z ->
  exists ist' st',
    ChanInit_gen.chan_init (Some tt) type fmt isx ist = Ok (tt, ist') /\
    ConnectPre.chan_init (Some a) type fmt sx st = Ok (tt, st') /\
    ConnectPre.pend_get st' a = Some ((type =? ConnectPre.T_STACK)%Z, false, false) /\
    ChanPre.prop (ChanInitPre.ic ist') = (0 :: CInt.b2z false :: CInt.b2z false :: nil)%Z /\
    ChanPre.ctype (ChanInitPre.ic ist') = type /\ ChanPre.has_cb (ChanInitPre.ic ist') = false.
Proof. exact PrvRegProofs.chan_init_composed. Qed.
Print Assumptions C06_connect_chan_init_composed.
(* ==== end of block (unit prvreg) ==== *)

(* ==== induction over the number of threads: first loop (unit connect) ==== *)
(* First step of the induction that would remove `_partial` from C06_wiring_from_source_partial, over ONE size parameter, the
   number of threads.  ConnectProofs.connect_all runs eight loops; the FIRST one (system.c: thread_init_end of every thread) is
   done here for EVERY number of threads n, every first index k and every start state:
   C06_thread_init_end_step: in every state, the generated thread_init_end(t) succeeds and is th_inited_step (the three system
   channels of t chan_init'ed SINGLE, IGNORE_DUP on the TID channel, t marked initialised).
   C06_thread_init_loop_all_sizes: by induction on n, generalised over k and the start state.  INDUCTION HYPOTHESIS: for every
   k' and st', fold_res (run1 (thread_init_end t)) (seq k' n) st' = Ok (fold_left th_inited_step (seq k' n) st'); the step
   uses C06_thread_init_end_step, which needs no hypothesis on the state.
   C06_thread_init_loop_pend: what the closed form means: for k <= t < k + n and w < 3 the object &thread[t].chan[w] is
   recorded (SINGLE, ALLOW_DUP off, IGNORE_DUP iff w = TID); the bay is untouched.
   NOT DONE (the wiring theorems stay partial): the same for the loops thread_connect (needs the freshness invariant
   id_of st (ASysTh t w) = None for t >= k, with cs_reg / b_chans / b_ecbs in closed form), model_thread_create,
   model_thread_connect and the mark loops over threads; the CPU loops (whose mux input tables have one entry per thread);
   and the proof that ConnectProofs.normalize of the closed form is BayDefs.wire. *)
From OV Require Proofs.ConnectInductProofs.

Theorem C06_thread_init_end_step : forall sx st t,
  Connect_gen.thread_init_end (Some t) sx st = Ok (tt, ConnectInductProofs.th_inited_step st t).
Proof. exact ConnectInductProofs.thread_init_end_step. Qed.
Print Assumptions C06_thread_init_end_step.

Theorem C06_thread_init_loop_all_sizes : forall (sx : static) n k st,
  ConnectProofs.fold_res (fun st t => ConnectProofs.run1 sx (Connect_gen.thread_init_end (Some t)) st) (seq k n) st =
  Ok (fold_left ConnectInductProofs.th_inited_step (seq k n) st).
Proof. exact ConnectInductProofs.thread_init_loop. Qed.
Print Assumptions C06_thread_init_loop_all_sizes.

Theorem C06_thread_init_loop_pend : forall n k st t w, (k <= t < k + n)%nat -> (w < 3)%nat ->
  ConnectPre.pend_get (fold_left ConnectInductProofs.th_inited_step (seq k n) st) (ConnectPre.ASysTh t w) = Some (false, false, Nat.eqb w 1) /\
  ConnectPre.cs_bay (fold_left ConnectInductProofs.th_inited_step (seq k n) st) = ConnectPre.cs_bay st.
Proof. exact (fun n k st t w a b => conj (ConnectInductProofs.thread_init_loop_pend n k st t w a b) (ConnectInductProofs.fold_bay n k st)). Qed.
Print Assumptions C06_thread_init_loop_pend.
(* ==== end of block (thread induction, first loop) ==== *)
