From Coq Require Import ZArith List.
From OV Require Import Emu.HeapDefs Emu.PlayerDefs Proofs.HeapProofs Proofs.PlayerProofs.
Import ListNotations.
Local Open Scope Z_scope.

Theorem C03_heap_pop_none : forall (h : list hnode), pop_max stream_cmp h = None <-> h = [].
Proof. exact (pop_max_nil stream_cmp). Qed.
Print Assumptions C03_heap_pop_none.
