(* C03 - The emulator replays all streams as one time-ordered, loss-free sequence.
   Only statements here; proofs are in Proofs/HeapProofs.v and Proofs/PlayerProofs.v.
   Model: Emu/HeapDefs.v (array model of src/include/heap.h, same tie-breaking) and
   Emu/PlayerDefs.v (player.c / stream.c clock handling, trace.c ordering; Spec section).
   No bound on the number of streams, their lengths, or the heap size anywhere. *)
From Coq Require Import ZArith List Permutation Sorted.
From OV Require Import Emu.HeapDefs Emu.PlayerDefs Proofs.HeapProofs Proofs.PlayerProofs.
Import ListNotations.
Local Open Scope Z_scope.

(* ------------------------------------------------------------------ the heap (any legal comparison) *)

(* content: nothing lost, nothing duplicated *)
Theorem C03_heap_insert_content : forall (A : Type) (cmp : A -> A -> Z) h x,
  Permutation (insert cmp h x) (x :: h).
Proof. exact @insert_perm. Qed.
Print Assumptions C03_heap_insert_content.

Theorem C03_heap_pop_content : forall (A : Type) (cmp : A -> A -> Z) h x h',
  pop_max cmp h = Some (x, h') -> Permutation (x :: h') h.
Proof. exact @pop_max_perm. Qed.
Print Assumptions C03_heap_pop_content.

Theorem C03_heap_pop_none : forall (A : Type) (cmp : A -> A -> Z) h, pop_max cmp h = None <-> h = [].
Proof. exact @pop_max_none. Qed.
Print Assumptions C03_heap_pop_none.

(* order: parent >= child is preserved, for every comparison function that is
   sign-antisymmetric and transitive (what heap_node_compare_t documents) *)
Theorem C03_heap_insert_order : forall (A : Type) (cmp : A -> A -> Z),
  (forall a b, cmp a b > 0 <-> cmp b a < 0) ->
  (forall a b c, cmp a b >= 0 -> cmp b c >= 0 -> cmp a c >= 0) ->
  forall h x, HeapInv cmp h -> HeapInv cmp (insert cmp h x).
Proof. exact @insert_inv. Qed.
Print Assumptions C03_heap_insert_order.

Theorem C03_heap_pop_order : forall (A : Type) (cmp : A -> A -> Z),
  (forall a b, cmp a b > 0 <-> cmp b a < 0) ->
  (forall a b c, cmp a b >= 0 -> cmp b c >= 0 -> cmp a c >= 0) ->
  forall h x h', HeapInv cmp h -> pop_max cmp h = Some (x, h') -> HeapInv cmp h'.
Proof. exact @pop_max_inv. Qed.
Print Assumptions C03_heap_pop_order.

Theorem C03_heap_pop_is_max : forall (A : Type) (cmp : A -> A -> Z),
  (forall a b, cmp a b > 0 <-> cmp b a < 0) ->
  (forall a b c, cmp a b >= 0 -> cmp b c >= 0 -> cmp a c >= 0) ->
  forall h x h', HeapInv cmp h -> pop_max cmp h = Some (x, h') -> forall y, In y h -> cmp x y >= 0.
Proof. exact @pop_max_is_max. Qed.
Print Assumptions C03_heap_pop_is_max.

(* the player's instance: the popped stream has the smallest clock *)
Theorem C03_heap_pop_min_clock : forall h k id h',
  HeapInv stream_cmp h -> pop_max stream_cmp h = Some ((k, id), h') ->
  forall k' id', In (k', id') h -> k <= k'.
Proof. exact spop_min. Qed.
Print Assumptions C03_heap_pop_min_clock.

(* path lemma: the walk of heap_get(head, n) (heap_get_move on size_t) ends at array position n,
   which is why the C never dies on "parent->left/right already set" or follows NULL *)
Theorem C03_heap_get_reaches : forall n fuel,
  1 <= n -> (Z.to_nat (Z.log2 n) < fuel)%nat -> walk 1 (get_path fuel n) = n.
Proof. exact heap_get_reaches. Qed.
Print Assumptions C03_heap_get_reaches.

(* ------------------------------------------------------------------ the replay *)

(* ovniemu, for every set of sorted streams (stream_ok: corrected clocks non-decreasing and the
   first one >= 0, the initial stream.lastclock) within the clock gate, in any enumeration order:
   the replay completes and its output is a permutation of all tagged events (spec_complete),
   keeps the order inside each stream (spec_stream_order), carries corrected time = clock + offset
   (spec_corrected), is non-decreasing in corrected time (spec_sorted) and has Paraver time =
   corrected - corrected of the first event (spec_dclock). *)
Theorem C03_emu_replay : forall enum,
  (forall x, In x enum -> stream_ok (snd x) = true) -> gate_ok (trace_streams enum) = true ->
  exists out, run_emu enum = (out, VOk) /\ spec_all (trace_streams enum) out.
Proof. exact emu_replay. Qed.
Print Assumptions C03_emu_replay.

(* the components, named as in DESIGN.md 6.3 *)
Theorem C03_merge_complete : forall enum out, run_emu enum = (out, VOk) -> spec_complete (trace_streams enum) out.
Proof. intros enum out E. exact (proj1 (proj1 (emu_completed enum out E))). Qed.
Print Assumptions C03_merge_complete.

Theorem C03_stream_order : forall enum out, run_emu enum = (out, VOk) -> spec_stream_order (trace_streams enum) out.
Proof. intros enum out E. exact (proj1 (proj2 (proj1 (emu_completed enum out E)))). Qed.
Print Assumptions C03_stream_order.

Theorem C03_sorted : forall enum out, run_emu enum = (out, VOk) ->
  spec_corrected (trace_streams enum) out /\ spec_sorted out.
Proof.
  intros enum out E. destruct (emu_completed enum out E) as [[_ [_ [H3 [H4 _]]]] _]. exact (conj H3 H4).
Qed.
Print Assumptions C03_sorted.

Theorem C03_paraver_time : forall enum out, run_emu enum = (out, VOk) -> spec_dclock out.
Proof. intros enum out E. exact (proj2 (proj2 (proj2 (proj2 (proj1 (emu_completed enum out E)))))). Qed.
Print Assumptions C03_paraver_time.

(* a stream that goes backwards (or starts below 0) gives an error result, so does a clock gate *)
Theorem C03_backwards_rejected : forall enum x,
  In x enum -> stream_ok (snd x) = false -> forall out v, run_emu enum = (out, v) -> v <> VOk.
Proof. exact emu_backwards_rejected. Qed.
Print Assumptions C03_backwards_rejected.

Theorem C03_gate_rejected : forall enum,
  gate_ok (trace_streams enum) = false -> forall out v, run_emu enum = (out, v) -> v <> VOk.
Proof. exact emu_gate_rejected. Qed.
Print Assumptions C03_gate_rejected.

(* the verdicts VFuel / VInternal of the totalised model never occur *)
Theorem C03_verdict_no_artefact : forall sorted ss out v,
  run sorted ss = (out, v) ->
  v = VOk \/ (sorted = true /\ ((exists id, v = VBackStream id) \/ v = VBackPlayer \/ v = VGate)).
Proof. exact run_verdict. Qed.
Print Assumptions C03_verdict_no_artefact.

(* in the emulator the "backwards jump in time" test of update_clocks is unreachable: stream_step has
   already refused, and the heap pops a minimum *)
Theorem C03_update_clocks_never_fires : forall ss out v, run true ss = (out, v) -> v <> VBackPlayer.
Proof. exact run_no_backplayer. Qed.
Print Assumptions C03_update_clocks_never_fires.

(* independence from the enumeration order of the stream directories: the FULL output sequence
   (ties included) and the verdict are equal for any two enumerations of the same streams *)
Theorem C03_enum_independent : forall enum enum',
  Permutation enum enum' -> NoDup (map fst enum) -> run_emu enum = run_emu enum'.
Proof. exact run_emu_enum_independent. Qed.
Print Assumptions C03_enum_independent.

Theorem C03_enum_independent_dump : forall enum enum',
  Permutation enum enum' -> NoDup (map fst enum) -> run_dump enum = run_dump enum'.
Proof. exact run_dump_enum_independent. Qed.
Print Assumptions C03_enum_independent_dump.

(* ovnidump (unsorted = 1, no system_init => all clock offsets 0): never fails, loses nothing,
   keeps the order inside each stream; sorted by the RAW clock when the streams are sorted *)
Theorem C03_dump_replay : forall enum,
  exists out, run_dump enum = (out, VOk) /\
    let ss := trace_streams (map zero_off enum) in
    spec_complete ss out /\ spec_stream_order ss out /\ spec_corrected ss out /\ spec_dclock out /\
    ((forall x, In x enum -> stream_sorted (snd (zero_off x)) = true) -> spec_sorted out).
Proof. exact dump_replay. Qed.
Print Assumptions C03_dump_replay.

(* The property's "dump tools ... non-decreasing in corrected time" is false of ovnidump as soon
   as the offset table is not trivial (finding ovnidump-ignores-clock-offsets). *)
Theorem C03_dump_corrected_order_refuted :
  exists enum out,
    NoDup (map fst enum) /\ (forall x, In x enum -> stream_ok (snd x) = true) /\
    gate_ok (trace_streams enum) = true /\
    run_dump enum = (out, VOk) /\
    ~ Sorted Z.le (map (corrected_in (trace_streams enum)) out).
Proof. exact dump_corrected_order_refuted. Qed.
Print Assumptions C03_dump_corrected_order_refuted.

(* ------------------------------------------------------------------ non-vacuity *)

(* three streams enumerated out of order, cross-stream ties, an offset, an empty stream *)
Definition ex_enum : list (list Z * strm) :=
  [ ([99], mkstrm 0 [(10, 0); (20, 1); (20, 2)]);
    ([97], mkstrm (-100) [(110, 0); (120, 1)]);
    ([98; 49], mkstrm 0 []);
    ([98], mkstrm 5 [(5, 0); (15, 1); (15, 2); (40, 3)]) ].

Example C03_ex_hyp : forallb (fun x => stream_ok (snd x)) ex_enum = true /\ gate_ok (trace_streams ex_enum) = true.
Proof. vm_compute. auto. Qed.

Example C03_ex_run :
  map (fun o => (o_id o, o_rclock o, o_sclock o, o_dclock o)) (fst (run_emu ex_enum)) =
  [ (0%nat, 110, 10, 0); (3%nat, 10, 10, 0); (1%nat, 5, 10, 0);
    (3%nat, 20, 20, 10); (1%nat, 15, 20, 10); (3%nat, 20, 20, 10); (1%nat, 15, 20, 10); (0%nat, 120, 20, 10);
    (1%nat, 40, 45, 35) ] /\ snd (run_emu ex_enum) = VOk.
Proof. vm_compute. auto. Qed.

Example C03_ex_backwards : snd (run_emu [([97], mkstrm 0 [(10, 0); (9, 1)]); ([98], mkstrm 0 [(5, 0)])]) = VBackStream 0.
Proof. vm_compute. reflexivity. Qed.

Example C03_ex_negative : snd (run_emu [([97], mkstrm (-11) [(10, 0)])]) = VBackStream 0.
Proof. vm_compute. reflexivity. Qed.

Example C03_ex_gate : snd (run_emu [([97], mkstrm 0 [(0, 0)]); ([98], mkstrm 0 [(3600000000001, 0)])]) = VGate.
Proof. vm_compute. reflexivity. Qed.

(* a heap with ties: the array after each operation is the C's (compare harness/heap_h.c) *)
Example C03_ex_heap :
  let h := fold_left (insert stream_cmp) [(5, 0%nat); (3, 1%nat); (3, 2%nat); (7, 3%nat)] [] in
  map snd h = [1%nat; 0%nat; 2%nat; 3%nat] /\ heap_inv_b stream_cmp h = true /\
  option_map (fun r => (snd (fst r), map snd (snd r))) (pop_max stream_cmp h) = Some (1%nat, [2%nat; 0%nat; 3%nat]).
Proof. vm_compute. auto. Qed.

(* ---- the two orders of the replay are the comparators of the C source.
   Translator unit cmp_player regenerates coq/Gen/Cmp_player_gen.v from player.c / trace.c on
   every run (comparison part translated from the C AST, fetching statements pinned as text). *)
From OV Require Gen.Cmp_player_gen Proofs.CmpPlayerProofs.

(* the heap of the merge is ordered by player.c:stream_cmp *)
Theorem C03_heap_order_from_source : forall a b : hnode,
  Cmp_player_gen.stream_cmp_core (fst a) (fst b) = stream_cmp a b.
Proof. exact CmpPlayerProofs.stream_cmp_is_model. Qed.
Print Assumptions C03_heap_order_from_source.

(* it is the inverted three-way comparison of the clocks: the max-heap pops the smallest clock *)
Theorem C03_heap_order_inverted : forall a b, Cmp_player_gen.stream_cmp_core a b = CmpPre.cmp3 b a.
Proof. exact CmpPlayerProofs.stream_cmp_core_inverted. Qed.
Print Assumptions C03_heap_order_inverted.

(* the enumeration-independent stream order is DL_SORT by trace.c:cmp_streams *)
Theorem C03_stream_order_from_source : forall enum,
  sort_streams enum = fold_right CmpPlayerProofs.ins_stream_src [] enum.
Proof. exact CmpPlayerProofs.sort_streams_from_source. Qed.
Print Assumptions C03_stream_order_from_source.

