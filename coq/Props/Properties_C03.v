(* C03 - The emulator replays all streams as one time-ordered, loss-free sequence.
   Only statements here; proofs are in Proofs/HeapProofs.v and Proofs/PlayerProofs.v.
   Model: Emu/HeapDefs.v (array model of src/include/heap.h, same tie-breaking) and
   Emu/PlayerDefs.v (player.c / stream.c clock handling, trace.c ordering; Spec section).
   No bound on the number of streams, their lengths, or the heap size anywhere. *)
From Coq Require Import ZArith List Permutation Sorted.
From OV Require Import Emu.HeapDefs Emu.PlayerDefs Proofs.HeapProofs Proofs.PlayerProofs.
Import ListNotations.
Local Open Scope Z_scope.

(* ------------------------------------------------------------------ the heap (any legal comparison) *)

(* content: nothing lost, nothing duplicated *)
Theorem C03_heap_insert_content : forall (A : Type) (cmp : A -> A -> Z) h x,
  Permutation (insert cmp h x) (x :: h).
Proof. exact @insert_perm. Qed.
Print Assumptions C03_heap_insert_content.

Theorem C03_heap_pop_content : forall (A : Type) (cmp : A -> A -> Z) h x h',
  pop_max cmp h = Some (x, h') -> Permutation (x :: h') h.
Proof. exact @pop_max_perm. Qed.
Print Assumptions C03_heap_pop_content.

Theorem C03_heap_pop_none : forall (A : Type) (cmp : A -> A -> Z) h, pop_max cmp h = None <-> h = [].
Proof. exact @pop_max_none. Qed.
Print Assumptions C03_heap_pop_none.

(* order: parent >= child is preserved, for every comparison function that is
   sign-antisymmetric and transitive (what heap_node_compare_t documents) *)
Theorem C03_heap_insert_order : forall (A : Type) (cmp : A -> A -> Z),
  (forall a b, cmp a b > 0 <-> cmp b a < 0) ->
  (forall a b c, cmp a b >= 0 -> cmp b c >= 0 -> cmp a c >= 0) ->
  forall h x, HeapInv cmp h -> HeapInv cmp (insert cmp h x).
Proof. exact @insert_inv. Qed.
Print Assumptions C03_heap_insert_order.

Theorem C03_heap_pop_order : forall (A : Type) (cmp : A -> A -> Z),
  (forall a b, cmp a b > 0 <-> cmp b a < 0) ->
  (forall a b c, cmp a b >= 0 -> cmp b c >= 0 -> cmp a c >= 0) ->
  forall h x h', HeapInv cmp h -> pop_max cmp h = Some (x, h') -> HeapInv cmp h'.
Proof. exact @pop_max_inv. Qed.
Print Assumptions C03_heap_pop_order.

Theorem C03_heap_pop_is_max : forall (A : Type) (cmp : A -> A -> Z),
  (forall a b, cmp a b > 0 <-> cmp b a < 0) ->
  (forall a b c, cmp a b >= 0 -> cmp b c >= 0 -> cmp a c >= 0) ->
  forall h x h', HeapInv cmp h -> pop_max cmp h = Some (x, h') -> forall y, In y h -> cmp x y >= 0.
Proof. exact @pop_max_is_max. Qed.
Print Assumptions C03_heap_pop_is_max.

(* the player's instance: the popped stream has the smallest clock *)
Theorem C03_heap_pop_min_clock : forall h k id h',
  HeapInv stream_cmp h -> pop_max stream_cmp h = Some ((k, id), h') ->
  forall k' id', In (k', id') h -> k <= k'.
Proof. exact spop_min. Qed.
Print Assumptions C03_heap_pop_min_clock.

(* path lemma: the walk of heap_get(head, n) (heap_get_move on size_t) ends at array position n,
   which is why the C never dies on "parent->left/right already set" or follows NULL *)
Theorem C03_heap_get_reaches : forall n fuel,
  1 <= n -> (Z.to_nat (Z.log2 n) < fuel)%nat -> walk 1 (get_path fuel n) = n.
Proof. exact heap_get_reaches. Qed.
Print Assumptions C03_heap_get_reaches.

(* ------------------------------------------------------------------ the replay *)

(* ovniemu, for every set of sorted streams (stream_ok: corrected clocks non-decreasing and the
   first one >= 0, the initial stream.lastclock) within the clock gate, in any enumeration order:
   the replay completes and its output is a permutation of all tagged events (spec_complete),
   keeps the order inside each stream (spec_stream_order), carries corrected time = clock + offset
   (spec_corrected), is non-decreasing in corrected time (spec_sorted) and has Paraver time =
   corrected - corrected of the first event (spec_dclock). *)
Theorem C03_emu_replay : forall enum,
  (forall x, In x enum -> stream_ok (snd x) = true) -> gate_ok (trace_streams enum) = true ->
  exists out, run_emu enum = (out, VOk) /\ spec_all (trace_streams enum) out.
Proof. exact emu_replay. Qed.
Print Assumptions C03_emu_replay.

(* the components, named as in DESIGN.md 6.3 *)
Theorem C03_merge_complete : forall enum out, run_emu enum = (out, VOk) -> spec_complete (trace_streams enum) out.
Proof. intros enum out E. exact (proj1 (proj1 (emu_completed enum out E))). Qed.
Print Assumptions C03_merge_complete.

Theorem C03_stream_order : forall enum out, run_emu enum = (out, VOk) -> spec_stream_order (trace_streams enum) out.
Proof. intros enum out E. exact (proj1 (proj2 (proj1 (emu_completed enum out E)))). Qed.
Print Assumptions C03_stream_order.

Theorem C03_sorted : forall enum out, run_emu enum = (out, VOk) ->
  spec_corrected (trace_streams enum) out /\ spec_sorted out.
Proof.
  intros enum out E. destruct (emu_completed enum out E) as [[_ [_ [H3 [H4 _]]]] _]. exact (conj H3 H4).
Qed.
Print Assumptions C03_sorted.

Theorem C03_paraver_time : forall enum out, run_emu enum = (out, VOk) -> spec_dclock out.
Proof. intros enum out E. exact (proj2 (proj2 (proj2 (proj2 (proj1 (emu_completed enum out E)))))). Qed.
Print Assumptions C03_paraver_time.

(* a stream that goes backwards (or starts below 0) gives an error result, so does a clock gate *)
Theorem C03_backwards_rejected : forall enum x,
  In x enum -> stream_ok (snd x) = false -> forall out v, run_emu enum = (out, v) -> v <> VOk.
Proof. exact emu_backwards_rejected. Qed.
Print Assumptions C03_backwards_rejected.

Theorem C03_gate_rejected : forall enum,
  gate_ok (trace_streams enum) = false -> forall out v, run_emu enum = (out, v) -> v <> VOk.
Proof. exact emu_gate_rejected. Qed.
Print Assumptions C03_gate_rejected.

(* the verdicts VFuel / VInternal of the totalised model never occur *)
Theorem C03_verdict_no_artefact : forall sorted ss out v,
  run sorted ss = (out, v) ->
  v = VOk \/ (sorted = true /\ ((exists id, v = VBackStream id) \/ v = VBackPlayer \/ v = VGate)).
Proof. exact run_verdict. Qed.
Print Assumptions C03_verdict_no_artefact.

(* in the emulator the "backwards jump in time" test of update_clocks is unreachable: stream_step has
   already refused, and the heap pops a minimum *)
Theorem C03_update_clocks_never_fires : forall ss out v, run true ss = (out, v) -> v <> VBackPlayer.
Proof. exact run_no_backplayer. Qed.
Print Assumptions C03_update_clocks_never_fires.

(* independence from the enumeration order of the stream directories: the FULL output sequence
   (ties included) and the verdict are equal for any two enumerations of the same streams *)
Theorem C03_enum_independent : forall enum enum',
  Permutation enum enum' -> NoDup (map fst enum) -> run_emu enum = run_emu enum'.
Proof. exact run_emu_enum_independent. Qed.
Print Assumptions C03_enum_independent.

Theorem C03_enum_independent_dump : forall enum enum',
  Permutation enum enum' -> NoDup (map fst enum) -> run_dump enum = run_dump enum'.
Proof. exact run_dump_enum_independent. Qed.
Print Assumptions C03_enum_independent_dump.

(* ovnidump (unsorted = 1, no system_init => all clock offsets 0): never fails, loses nothing,
   keeps the order inside each stream; sorted by the RAW clock when the streams are sorted *)
Theorem C03_dump_replay : forall enum,
  exists out, run_dump enum = (out, VOk) /\
    let ss := trace_streams (map zero_off enum) in
    spec_complete ss out /\ spec_stream_order ss out /\ spec_corrected ss out /\ spec_dclock out /\
    ((forall x, In x enum -> stream_sorted (snd (zero_off x)) = true) -> spec_sorted out).
Proof. exact dump_replay. Qed.
Print Assumptions C03_dump_replay.

(* The property's "dump tools ... non-decreasing in corrected time" is false of ovnidump as soon
   as the offset table is not trivial (finding ovnidump-ignores-clock-offsets). *)
Theorem C03_dump_corrected_order_refuted :
  exists enum out,
    NoDup (map fst enum) /\ (forall x, In x enum -> stream_ok (snd x) = true) /\
    gate_ok (trace_streams enum) = true /\
    run_dump enum = (out, VOk) /\
    ~ Sorted Z.le (map (corrected_in (trace_streams enum)) out).
Proof. exact dump_corrected_order_refuted. Qed.
Print Assumptions C03_dump_corrected_order_refuted.

(* ------------------------------------------------------------------ non-vacuity *)

(* three streams enumerated out of order, cross-stream ties, an offset, an empty stream *)
Definition ex_enum : list (list Z * strm) :=
  [ ([99], mkstrm 0 [(10, 0); (20, 1); (20, 2)]);
    ([97], mkstrm (-100) [(110, 0); (120, 1)]);
    ([98; 49], mkstrm 0 []);
    ([98], mkstrm 5 [(5, 0); (15, 1); (15, 2); (40, 3)]) ].

Example C03_ex_hyp : forallb (fun x => stream_ok (snd x)) ex_enum = true /\ gate_ok (trace_streams ex_enum) = true.
Proof. vm_compute. auto. Qed.

Example C03_ex_run :
  map (fun o => (o_id o, o_rclock o, o_sclock o, o_dclock o)) (fst (run_emu ex_enum)) =
  [ (0%nat, 110, 10, 0); (3%nat, 10, 10, 0); (1%nat, 5, 10, 0);
    (3%nat, 20, 20, 10); (1%nat, 15, 20, 10); (3%nat, 20, 20, 10); (1%nat, 15, 20, 10); (0%nat, 120, 20, 10);
    (1%nat, 40, 45, 35) ] /\ snd (run_emu ex_enum) = VOk.
Proof. vm_compute. auto. Qed.

Example C03_ex_backwards : snd (run_emu [([97], mkstrm 0 [(10, 0); (9, 1)]); ([98], mkstrm 0 [(5, 0)])]) = VBackStream 0.
Proof. vm_compute. reflexivity. Qed.

Example C03_ex_negative : snd (run_emu [([97], mkstrm (-11) [(10, 0)])]) = VBackStream 0.
Proof. vm_compute. reflexivity. Qed.

Example C03_ex_gate : snd (run_emu [([97], mkstrm 0 [(0, 0)]); ([98], mkstrm 0 [(3600000000001, 0)])]) = VGate.
Proof. vm_compute. reflexivity. Qed.

(* a heap with ties: the array after each operation is the C's (compare harness/heap_h.c) *)
Example C03_ex_heap :
  let h := fold_left (insert stream_cmp) [(5, 0%nat); (3, 1%nat); (3, 2%nat); (7, 3%nat)] [] in
  map snd h = [1%nat; 0%nat; 2%nat; 3%nat] /\ heap_inv_b stream_cmp h = true /\
  option_map (fun r => (snd (fst r), map snd (snd r))) (pop_max stream_cmp h) = Some (1%nat, [2%nat; 0%nat; 3%nat]).
Proof. vm_compute. auto. Qed.

(* ---- the two orders of the replay are the comparators of the C source.
   Translator unit cmp_player regenerates coq/Gen/Cmp_player_gen.v from player.c / trace.c on
   every run (comparison part translated from the C AST, fetching statements pinned as text). *)
From OV Require Gen.Cmp_player_gen Proofs.CmpPlayerProofs.

(* the heap of the merge is ordered by player.c:stream_cmp *)
Theorem C03_heap_order_from_source : forall a b : hnode,
  Cmp_player_gen.stream_cmp_core (fst a) (fst b) = stream_cmp a b.
Proof. exact CmpPlayerProofs.stream_cmp_is_model. Qed.
Print Assumptions C03_heap_order_from_source.

(* it is the inverted three-way comparison of the clocks: the max-heap pops the smallest clock *)
Theorem C03_heap_order_inverted : forall a b, Cmp_player_gen.stream_cmp_core a b = CmpPre.cmp3 b a.
Proof. exact CmpPlayerProofs.stream_cmp_core_inverted. Qed.
Print Assumptions C03_heap_order_inverted.

(* the enumeration-independent stream order is DL_SORT by trace.c:cmp_streams *)
Theorem C03_stream_order_from_source : forall enum,
  sort_streams enum = fold_right CmpPlayerProofs.ins_stream_src [] enum.
Proof. exact CmpPlayerProofs.sort_streams_from_source. Qed.
Print Assumptions C03_stream_order_from_source.


(* ==================================================================== BEGIN clock-offset table (ClkoffDefs / ClkoffProofs)
   The "clock offset of the stream's host" is now derived inside the model from the bytes of
   clock-offsets.txt and the loom names of the streams (Emu/ClkoffDefs.v: fgets/sscanf of clkoff.c,
   set_hostname of loom.c, parse_clkoff_entry/init_offsets of system.c), tied to the real functions by
   harness/clkoff_h.c and to ovniemu end to end.  Numeric domain of the medians: see ClkoffDefs.v. *)
From Coq Require String Ascii.
From OV Require Import Emu.ClkoffDefs Proofs.ClkoffProofs.

(* 1. When loading succeeds, the offset of stream i is the median of THE entry (names are distinct)
   whose name equals the host name of the stream's loom, and 0 if no entry has that name.  An entry
   of another host - a proper prefix, suffix or case variant included, equality is on the whole
   byte string - is therefore never applied. *)
Theorem C03_offset_is_hosts_entry : forall file sl offs,
  trace_offsets (Some file) sl = OOk offs ->
  exists es, load_table file = inr es /\ NoDup (map e_name es) /\ length offs = length sl /\
    forall i, (i < length sl)%nat ->
      let host := hostname (nth i sl []) in
      (forall e, In e es -> e_name e = host -> e_median e = FInt (nth i offs 0)) /\
      ((forall e, In e es -> e_name e <> host) -> nth i offs 0 = 0).
Proof. exact offset_is_hosts_entry. Qed.
Print Assumptions C03_offset_is_hosts_entry.

(* without clock-offsets.txt every offset is 0 *)
Theorem C03_no_table_zero : forall sl, trace_offsets None sl = OOk (map (fun _ => 0) sl).
Proof. exact no_table_zero. Qed.
Print Assumptions C03_no_table_zero.

(* the loops of parse_clkoff_entry / init_offsets compute the plain lookup by host name or refuse an
   unknown host; "loom already has a clock offset" (EAlready) is unreachable *)
Theorem C03_offsets_are_lookup : forall file sl,
  trace_offsets (Some file) sl =
  match load_table file with
  | inl e => OErr e
  | inr es =>
    match exact_entries es with
    | None => OUnspec
    | Some hes => if all_known hes sl then OOk (lookup_all hes sl) else OErr EUnknownHost
    end
  end.
Proof. exact trace_offsets_char. Qed.
Print Assumptions C03_offsets_are_lookup.

(* 2. Order independence.  (a) any permutation of the table entries (distinct hosts): same outcome
   (success or the same refusal), same offset for every stream;  (b) any re-enumeration of the
   streams (same set of loom names, any order and multiplicity): same outcome, and a loom has the
   same offset wherever its streams are;  (c) at the level of the FILE: permuting the lines of a
   well-formed table (render_table: header + one line per row) changes nothing. *)
Theorem C03_offsets_independent_of_order :
  (forall es es' sl, Permutation es es' -> NoDup (map e_name es) -> entries_offsets es sl = entries_offsets es' sl) /\
  (forall tbl sl sl', (forall l, In l sl <-> In l sl') ->
     match trace_offsets tbl sl with
     | OOk offs => exists offs', trace_offsets tbl sl' = OOk offs' /\ length offs' = length sl' /\
                     forall l o, In (l, o) (combine sl offs) <-> In (l, o) (combine sl' offs')
     | OErr e => trace_offsets tbl sl' = OErr e
     | OUnspec => trace_offsets tbl sl' = OUnspec
     end).
Proof. exact (conj entries_order_independent streams_order_independent). Qed.
Print Assumptions C03_offsets_independent_of_order.

(* 2c / round trip.  A file made of a header line (any bytes, <= 1022) and well-formed lines (index, name,
   [-]median, mean, std as digit strings separated by one blank, <= 1023 bytes; row_ok) with distinct hosts
   loads as EXACTLY its rows, in order; with a repeated host it is refused; and permuting its LINES changes
   neither the outcome nor any stream's offset. *)
Theorem C03_wellformed_table_loads : forall h rows,
  header_ok h = true -> Forall (fun r => row_ok r = true) rows -> rows <> [] -> NoDup (map r_name rows) ->
  load_table (render_table h rows) = inr (map row_entry rows).
Proof. exact load_rendered. Qed.
Print Assumptions C03_wellformed_table_loads.

Theorem C03_wellformed_table_duplicate_refused : forall h rows,
  header_ok h = true -> Forall (fun r => row_ok r = true) rows -> ~ NoDup (map r_name rows) ->
  load_table (render_table h rows) = inl EDuplicate.
Proof. exact load_rendered_duplicate. Qed.
Print Assumptions C03_wellformed_table_duplicate_refused.

Theorem C03_table_lines_order_independent : forall h rows rows' sl,
  header_ok h = true -> Forall (fun r => row_ok r = true) rows -> NoDup (map r_name rows) ->
  Permutation rows rows' ->
  trace_offsets (Some (render_table h rows)) sl = trace_offsets (Some (render_table h rows')) sl.
Proof. exact table_lines_order_independent. Qed.
Print Assumptions C03_table_lines_order_independent.

(* 3. Table errors are refused (the emulator exits with failure), never a silently wrong offset:
   (a) a line with fewer than 5 conversions after lines that are empty or entries;
   (b) two lines with the same host name;  (c) an entry whose host is the host of no loom;
   (d) conversely a successful load consumed only empty lines and 5-field lines, up to the end of the
       file or to the first line on which sscanf returns EOF (a line of white space only: cparse
       stops there SILENTLY - see the note in manifest.d/C03.json), with distinct names, >= 1 entry. *)
Theorem C03_table_errors_refused :
  (forall file hdr good es bad n rest sl,
     file_lines file = hdr :: good ++ bad :: rest -> lines_entries good es ->
     blank_line bad = false -> scan_line (cstr bad) = LFields n ->
     trace_offsets (Some file) sl = OErr (EFields n) \/ trace_offsets (Some file) sl = OErr EDuplicate) /\
  (forall file hdr good es rest sl,
     file_lines file = hdr :: good ++ rest -> lines_entries good es -> ~ NoDup (map e_name es) ->
     trace_offsets (Some file) sl = OErr EDuplicate) /\
  (forall file es hes sl,
     load_table file = inr es -> exact_entries es = Some hes ->
     (exists e, In e es /\ forall l, In l sl -> hostname l <> e_name e) ->
     trace_offsets (Some file) sl = OErr EUnknownHost) /\
  (forall file es, load_table file = inr es ->
     NoDup (map e_name es) /\ es <> [] /\ exists hdr ls, file_lines file = hdr :: ls /\ parsed_prefix ls es).
Proof. exact table_errors_refused. Qed.
Print Assumptions C03_table_errors_refused.

(* 4. Composition with the merge theorems: the trace is (streams with loom names, table bytes).
   run_emu_table = system_init's offsets (trace_offsets) + the player (run_emu).  hes = the
   (host, offset) pairs the table stands for; attach hes = each stream with the offset READ OFF the
   table by the host name of its loom; spec_corrected_table: corrected time = stream clock + offset
   written in the table for the host of the stream's loom. *)
Theorem C03_table_emu_replay : forall tbl enum hes,
  table_entries tbl = Some hes ->
  (forall h, In h (map fst hes) -> exists x, In x enum /\ hostname (t_loom (snd x)) = h) ->
  let enum' := map (attach hes) enum in
  (forall x, In x enum' -> stream_ok (snd x) = true) -> gate_ok (trace_streams enum') = true ->
  exists out, run_emu_table tbl enum = OOk (out, VOk) /\
    spec_all (trace_streams enum') out /\ spec_corrected_table hes (trace_tstreams enum) out.
Proof. exact table_replay. Qed.
Print Assumptions C03_table_emu_replay.

(* C03_merge_complete, C03_stream_order, C03_sorted and C03_paraver_time for a completed replay *)
Theorem C03_table_sorted_paraver_time : forall tbl enum out,
  run_emu_table tbl enum = OOk (out, VOk) ->
  exists hes, table_entries tbl = Some hes /\
    spec_corrected_table hes (trace_tstreams enum) out /\ spec_sorted out /\ spec_dclock out /\
    spec_complete (trace_streams (map (attach hes) enum)) out /\
    spec_stream_order (trace_streams (map (attach hes) enum)) out.
Proof.
  intros tbl enum out E. destruct (table_completed tbl enum out E) as [hes [X [[S1 [S2 [_ [S4 S5]]]] T]]].
  exists hes. auto 10.
Qed.
Print Assumptions C03_table_sorted_paraver_time.

(* a table error never reaches the player *)
Theorem C03_table_error_no_run : forall file enum e,
  load_table file = inl e -> run_emu_table (Some file) enum = OErr e.
Proof. exact table_error_no_run. Qed.
Print Assumptions C03_table_error_no_run.

(* ---- non-vacuity (in a module: String shadows List.length) *)
Module ClkoffEx.
Import String Ascii.
Definition bs (s : string) : list Z := List.map (fun a => Z.of_N (N_of_ascii a)) (list_ascii_of_string s).
Definition ln (s : string) : string := s.
Definition tab (lines : list string) : list Z := List.concat (List.map (fun l => (bs l ++ [10])%list) lines).
Definition ex_hdr : string := "rank       hostname             offset_median        offset_mean          offset_std".
Definition ex_l10 : string := "0          node10               0                    0.000000             0.000000".
Definition ex_l1 : string :=  "1          node1                -5000                -5000.100000         135.286341".
Definition ex_l3 : string :=  "2          node3                77.9                 1 1".
Definition ex_tab : list Z := tab [ex_hdr; ex_l10; ex_l1; ln ""; ex_l3].
Definition ex_tab_shuffled : list Z := tab [ex_hdr; ex_l3; ex_l1; ex_l10].
Definition ex_looms : list (list Z) :=
  [bs "node10.0"; bs "node1.0"; bs "node2.0"; bs "node1.1"; bs "Node1.0"; bs "anode1.0"; bs "node"; bs "node3"].

(* node1 / node10, two looms of one host, a loom name without dot, looms without entry (other name,
   case variant, suffix, prefix); the same with the lines and the streams in another order *)
Example C03_ex_offsets :
  trace_offsets (Some ex_tab) ex_looms = OOk [0; -5000; 0; -5000; 0; 0; 0; 77] /\
  trace_offsets (Some ex_tab_shuffled) (rev ex_looms) = OOk (rev [0; -5000; 0; -5000; 0; 0; 0; 77]).
Proof. vm_compute. auto. Qed.

(* refused: host of no loom (also: a name with a domain can never match, host names stop at the first dot);
   duplicate host; 4 columns; text in a numeric column; header only; empty file *)
Example C03_ex_refused :
  trace_offsets (Some ex_tab) [bs "node10.0"; bs "node1.0"] = OErr EUnknownHost /\
  trace_offsets (Some (tab [ex_hdr; ln "0 node1.cluster.net 5 5 5"])) [bs "node1.cluster.net"] = OErr EUnknownHost /\
  trace_offsets (Some (tab [ex_hdr; ex_l1; ex_l10; ln "7 node1 3 3 3"])) ex_looms = OErr EDuplicate /\
  trace_offsets (Some (tab [ex_hdr; ex_l1; ln "1 node10 12 12.0"])) ex_looms = OErr (EFields 4) /\
  trace_offsets (Some (tab [ex_hdr; ex_l1; ln "1 node10 abc 1 1"])) ex_looms = OErr (EFields 2) /\
  trace_offsets (Some (tab [ex_hdr])) ex_looms = OErr ENoEntries /\
  trace_offsets (Some []) ex_looms = OErr EMissingHeader.
Proof. vm_compute. auto 10. Qed.

(* conversions are not delimited by white space; a median outside the exact domain is not modelled *)
Example C03_ex_scanf :
  load_table (tab [ex_hdr; ln "5host 1.5.3 7"]) = inr [mkentry 5 (bs "host") (FInt 1)] /\
  trace_offsets (Some (tab [ex_hdr; ln "0 node1 1e3 1 1"])) [bs "node1.0"] = OUnspec /\
  trace_offsets (Some (tab [ex_hdr; ln "0 node1 0.99999999999999999999 1 1"])) [bs "node1.0"] = OUnspec.
Proof. vm_compute. auto. Qed.

(* the trace of seeded change C03-6: node10 is the reference, node1 is 5000 behind *)
Definition ex_tenum : list (list Z * tstrm) :=
  [ (bs "loom.node10.0/proc.1/thread.1", mktstrm (bs "node10.0") [(101000, 0); (103000, 1)]);
    (bs "loom.node1.0/proc.2/thread.2", mktstrm (bs "node1.0") [(107000, 0); (109000, 1)]) ].
Example C03_ex_table_run :
  option_map (fun r => (map (fun o => (o_id o, o_rclock o, o_sclock o, o_dclock o)) (fst r), snd r))
    (match run_emu_table (Some (tab [ex_hdr; ex_l10; ex_l1])) ex_tenum with OOk r => Some r | _ => None end) =
  Some ([ (1%nat, 101000, 101000, 0); (0%nat, 107000, 102000, 1000); (1%nat, 103000, 103000, 2000); (0%nat, 109000, 104000, 3000) ], VOk).
Proof. vm_compute. reflexivity. Qed.
(* rows in the sense of C03_wellformed_table_loads: the rendered file is what one expects *)
Definition ex_rows : list row :=
  [ mkrow (bs "0") (bs "node10") false (bs "0") (bs "0") (bs "0");
    mkrow (bs "1") (bs "node1") true (bs "5000") (bs "5000") (bs "135") ].
Example C03_ex_rows :
  forallb row_ok ex_rows = true /\ header_ok (bs ex_hdr) = true /\
  render_table (bs ex_hdr) ex_rows = tab [ex_hdr; ln "0 node10 0 0 0"; ln "1 node1 -5000 5000 135"] /\
  trace_offsets (Some (render_table (bs ex_hdr) ex_rows)) [bs "node1.7"; bs "node10.3"] = OOk [-5000; 0].
Proof. vm_compute. auto. Qed.
End ClkoffEx.
(* ==================================================================== END clock-offset table *)

(* ==== stepping functions from source (unit stepper) ==== *)
(* step_stream, update_clocks and player_step are regenerated from src/emu/player.c statement by statement
   (translate/units/stepper.py -> Gen/Stepper_gen.v over Emu/StepperPre.v).  Primitives: heap_insert /
   heap_pop_max with the meaning of Emu/HeapDefs.v (`insert stream_cmp`, `pop_max stream_cmp`; theorems
   C03_heap_* above, comparator tied by unit cmp_player), heap_elem, emu_ev; the loops over the streams in
   player_init and check_clock_gate are NOT translated (PlayerDefs.pinit / gate_ok stay hand-written).
   First theorem: the generated functions are their hand-written readings (StepperPre.m_...).
   Second theorem (partial): the readings against PlayerDefs.pstep = restep + pop_part.  What is proved:
   the re-insertion of the stream delivered last after stepping it, the pop of the minimum, first_event /
   firstclock / lastclock / deltaclock (wrap-around), the backwards check, the same verdict.  What is a
   hypothesis: the byte level delivers the model's events (StepperProofs.stream_iface: discharged for a
   well-formed stream by C19_stream_step_from_source_partial + the tiling theorems of C19/C12), the key of a
   heap node is the lastclock of its stream, and the popped stream has an event (PlayerProofs' invariant). *)
From OV Require Emu.StepperPre Gen.Stepper_gen Proofs.StepperProofs.

Theorem C03_player_step_from_source : forall sx st,
  (forall id, (id < length (StepperPre.streams st))%nat ->
     Stepper_gen.step_stream (Some tt) (Some id) sx st = StepperPre.m_step_stream st id) /\
  (forall id, Stepper_gen.update_clocks (Some tt) (Some id) sx st =
     match StepperPre.m_update_clocks (StepperPre.pl st) (StepperPre.g_lastclock (nth id (StepperPre.streams st) StepperPre.g0)) with
     | None => StepperPre.Fail StepperPre.E_FAIL
     | Some q => StepperPre.Done tt (StepperPre.mk_pstate (StepperPre.streams st) q)
     end) /\
  ((forall id, StepperPre.q_stream (StepperPre.pl st) = Some id -> (id < length (StepperPre.streams st))%nat) ->
   Stepper_gen.player_step (Some tt) sx st = StepperPre.m_player_step st).
Proof. exact StepperProofs.player_functions_from_source. Qed.
Print Assumptions C03_player_step_from_source.

Theorem C03_player_step_refines_ploop_partial :
  (forall sorted offs ps, pstep sorted offs ps =
     match restep sorted offs ps with inl v => SErr v | inr st1 => StepperProofs.pop_part sorted st1 end) /\
  (forall sorted offs st ps id slast,
     p_cur ps = Some (id, slast) -> StepperPre.q_heap (StepperPre.pl st) = p_heap ps ->
     StepperProofs.stream_iface sorted offs st id slast (nth id (p_rem ps) []) ->
     match restep sorted offs ps, StepperPre.m_step_stream st id with
     | inl v, StepperPre.Fail e => v = VBackStream id /\ e = StepperPre.E_FAIL
     | inr ps1, StepperPre.Done _ st1 | inr ps1, StepperPre.Stop st1 =>
         StepperPre.q_heap (StepperPre.pl st1) = p_heap ps1 /\ p_rem ps1 = p_rem ps /\ p_clk ps1 = p_clk ps /\
         p_cur ps1 = p_cur ps /\ StepperProofs.clk_of (StepperPre.pl st1) = StepperProofs.clk_of (StepperPre.pl st) /\
         StepperPre.q_unsorted (StepperPre.pl st1) = StepperPre.q_unsorted (StepperPre.pl st) /\
         StepperPre.q_stream (StepperPre.pl st1) = StepperPre.q_stream (StepperPre.pl st)
     | _, _ => False
     end) /\
  (forall st1 ps1,
     StepperPre.q_heap (StepperPre.pl st1) = p_heap ps1 -> StepperProofs.clk_of (StepperPre.pl st1) = p_clk ps1 ->
     (forall k id h', pop_max stream_cmp (p_heap ps1) = Some ((k, id), h') ->
        StepperPre.g_lastclock (nth id (StepperPre.streams st1) StepperPre.g0) = k /\ nth id (p_rem ps1) [] <> []) ->
     match StepperProofs.pop_part (StepperPre.q_unsorted (StepperPre.pl st1) =? 0) ps1, StepperPre.m_pop_emit st1 with
     | SDone, StepperPre.Stop s => s = st1
     | SErr v, StepperPre.Fail e => v = VBackPlayer /\ e = StepperPre.E_FAIL
     | SEmit o ps2, StepperPre.Done _ st2 =>
         StepperPre.streams st2 = StepperPre.streams st1 /\ StepperPre.q_heap (StepperPre.pl st2) = p_heap ps2 /\
         StepperProofs.clk_of (StepperPre.pl st2) = p_clk ps2 /\
         p_cur ps2 = option_map (fun id => (id, StepperPre.g_lastclock (nth id (StepperPre.streams st2) StepperPre.g0)))
                                (StepperPre.q_stream (StepperPre.pl st2)) /\
         StepperPre.q_stream (StepperPre.pl st2) = Some (o_id o) /\
         StepperPre.q_ev (StepperPre.pl st2) =
           Some (StepperPre.g_cur (nth (o_id o) (StepperPre.streams st1) StepperPre.g0), o_sclock o,
                 StepperProofs.wdiff (o_sclock o) (o_sclock o - o_dclock o))
     | _, _ => False
     end).
Proof. exact (conj StepperProofs.pstep_split (conj StepperProofs.restep_refines StepperProofs.pop_emit_refines)). Qed.
Print Assumptions C03_player_step_refines_ploop_partial.

(* two streams (clock offset -3 on the first): the generated player_step delivers 7, 20, 27, 40 then +1 *)
Definition ex_ev (c : Z) : list Z := [0; 79; 72; 120; c; 0; 0; 0; 0; 0; 0; 0].
Definition ex_pworld : StepperPre.pstate :=
  StepperPre.mk_pstate
    [ StepperPre.mk_gstream (StreamProofs.hdr ++ ex_ev 10 ++ ex_ev 30) StreamProofs.zero_junk None 32 0 0 (-3) 1 0 8;
      StepperPre.mk_gstream (StreamProofs.hdr ++ ex_ev 20 ++ ex_ev 40) StreamProofs.zero_junk None 32 0 0 0 1 0 8 ]
    (StepperPre.mk_gplayer [] 0 0 0 0 1 0 None None).
Definition ex_then (f : StepperPre.pstate -> StepperPre.res unit) (r : StepperPre.res unit) : StepperPre.res unit :=
  match r with StepperPre.Done _ s => f s | r => r end.
Definition ex_emitted (r : StepperPre.res unit) : option (option (option (nat * Z) * Z * Z)) :=
  match r with StepperPre.Done _ s => Some (StepperPre.q_ev (StepperPre.pl s)) | StepperPre.Stop _ => Some None | StepperPre.Fail _ => None end.
Example C03_ex_player_step_from_source :
  let init := ex_then (Stepper_gen.step_stream (Some tt) (Some 1%nat) tt) (Stepper_gen.step_stream (Some tt) (Some 0%nat) tt ex_pworld) in
  let step := ex_then (Stepper_gen.player_step (Some tt) tt) in
  map ex_emitted [step init; step (step init); step (step (step init)); step (step (step (step init)));
                  step (step (step (step (step init))))] =
  [ Some (Some (Some (0%nat, 8), 7, 0)); Some (Some (Some (1%nat, 8), 20, 13)); Some (Some (Some (0%nat, 20), 27, 20));
    Some (Some (Some (1%nat, 20), 40, 33)); Some None ].
Proof. vm_compute. reflexivity. Qed.

(* player_init and check_clock_gate, from the source: their per-stream bodies are translated, the DL_FOREACH loops over
   trace->streams are the primitive iteration foreach_stream (list order).  check_clock_gate as generated succeeds iff
   the corrected clocks of the loaded events of the active streams pass the gate PlayerDefs.gate_ok applies to the first
   clocks (gate_of = gate_ok's body: same first-active-stream reference, same MAXGATE, |t0 - c| <= MAXGATE).
   player_init as generated = reset of the player, then for every stream in list order the unsorted flag (when asked)
   and its first step (step_stream: an active stream with an event is inserted in the heap, a stream without events is
   not, -1 fails), then the gate when sorted. *)
Theorem C03_clock_gate_from_source :
  (forall sx st, Stepper_gen.check_clock_gate (Some tt) sx st =
     if StepperProofs.gate_of (StepperProofs.active_clocks st (seq 0 (length (StepperPre.streams st))))
     then StepperPre.Done tt st else StepperPre.Fail StepperPre.E_FAIL) /\
  (forall ss, gate_ok ss = StepperProofs.gate_of (first_clocks ss)).
Proof. exact (conj StepperProofs.check_clock_gate_gen StepperProofs.gate_ok_of). Qed.
Print Assumptions C03_clock_gate_from_source.

Theorem C03_player_init_from_source : forall unsorted sx st,
  Stepper_gen.player_init (Some tt) (Some tt) unsorted sx st =
  let st0 := StepperPre.mk_pstate (StepperPre.streams st) (StepperPre.mk_gplayer [] 0 0 0 0 1 unsorted None None) in
  match StepperPre.m_init_all unsorted (seq 0 (length (StepperPre.streams st))) st0 with
  | StepperPre.Done _ s =>
      if unsorted =? 0
      then (if StepperProofs.gate_of (StepperProofs.active_clocks s (seq 0 (length (StepperPre.streams s))))
            then StepperPre.Done tt s else StepperPre.Fail StepperPre.E_FAIL)
      else StepperPre.Done tt s
  | StepperPre.Stop s => StepperPre.Stop s
  | StepperPre.Fail e => StepperPre.Fail e
  end.
Proof. exact StepperProofs.player_init_gen. Qed.
Print Assumptions C03_player_init_from_source.

(* The three hypotheses of C03_player_step_refines_ploop_partial discharged, for one player_step, from a simulation
   invariant that the step preserves.  Sim sorted offs st ps (StepperProofs): heap, first_event/firstclock/lastclock
   and the current stream of the C player = p_heap / p_clk / p_cur of the model; heap ids distinct; every heap node
   (k, id) has k = stream id's lastclock, the stream is active with an event loaded, and the model's remaining events
   of id are that event followed by what the stream will deliver (Delivers); every other stream will deliver exactly its
   remaining events; cur_ev of every stream is NULL or &buf[offset], its clock offset is the model's.
   Delivers id g evs is the byte-to-event-list relation: stepping the stream (with the unsorted flag forced, i.e.
   ignoring the backwards test) from record g loads events with raw clocks `map fst evs` one after the other and then
   ends; it is decidable by running the generated stream_step (no tiling theorem is needed).
   One generated player_step (reading m_player_step, equal to the generated function by C03_player_step_from_source)
   against PlayerDefs.pstep: same outcome (no more events / failure / event), the invariant again, and the event handed
   to emu_ev carries the model's sclock and (wrap-around) dclock. *)
Theorem C03_player_step_invariant_from_source : forall sorted offs st ps,
  StepperProofs.Sim sorted offs st ps ->
  match pstep sorted offs ps, StepperPre.m_player_step st with
  | SDone, StepperPre.Stop _ => True
  | SErr _, StepperPre.Fail e => e = StepperPre.E_FAIL
  | SEmit o ps2, StepperPre.Done _ st2 =>
      StepperProofs.Sim sorted offs st2 ps2 /\ StepperPre.q_ev (StepperPre.pl st2) = StepperProofs.obs_of st2 o /\
      length (StepperPre.streams st2) = length (StepperPre.streams st)
  | _, _ => False
  end.
Proof. exact StepperProofs.player_step_sim. Qed.
Print Assumptions C03_player_step_invariant_from_source.

(* From the loaded trace to the end of the replay.  InitOk offs st rem: nothing stepped yet (cur_ev NULL, lastclock 0,
   unsorted flag 0), the clock offsets are the model's, every stream Delivers its model events.
   - the loop of player_init (reading m_init_all, tied to the generated player_init by C03_player_init_from_source) is
     PlayerDefs.pinit: same failure (a first corrected clock below 0 when sorted: VBackStream), same heap, and the
     simulation invariant holds afterwards;
   - the main loop (player_step until it returns non-zero, m_loop) is PlayerDefs.ploop from any state of the invariant:
     the same sequence of (sclock, wrap-around dclock) handed to emu_ev, the same verdict (VOk <-> +1, VFuel <-> the
     loop bound, any other verdict <-> -1). *)
Theorem C03_player_init_sim_from_source : forall unsorted offs st rem,
  StepperProofs.InitOk offs st rem ->
  let sorted := unsorted =? 0 in
  match pinit sorted offs 0 rem [],
        StepperPre.m_init_all unsorted (seq 0 (length (StepperPre.streams st))) (StepperProofs.player0 unsorted st) with
  | inl _, StepperPre.Fail e => e = StepperPre.E_FAIL
  | inr h, StepperPre.Done _ st1 =>
      StepperProofs.Sim sorted offs st1 (mkpst h rem None None) /\
      length (StepperPre.streams st1) = length (StepperPre.streams st)
  | _, _ => False
  end.
Proof. exact StepperProofs.init_sim. Qed.
Print Assumptions C03_player_init_sim_from_source.

Theorem C03_player_loop_from_source : forall sorted offs fuel st ps,
  StepperProofs.Sim sorted offs st ps ->
  map StepperProofs.clocks_of (fst (StepperProofs.m_loop fuel st)) =
  map StepperProofs.model_clocks (fst (ploop sorted offs fuel ps)) /\
  StepperProofs.verdict_rel (snd (ploop sorted offs fuel ps)) (snd (StepperProofs.m_loop fuel st)).
Proof. exact StepperProofs.loop_sim. Qed.
Print Assumptions C03_player_loop_from_source.

(* The whole run = PlayerDefs.run: the same sequence of (sclock, wrap-around dclock) handed to emu_ev and the same verdict
   (VOk <-> player_step returns +1 after the last event; VBackStream, also for a negative first clock, VBackPlayer and
   VGate <-> -1; VFuel <-> the loop bound, never reached by C03_verdict_no_artefact).  m_run = the generated player_init
   (first statement, with C03_player_init_from_source) followed by the emulator's main loop over the reading of the
   generated player_step (C03_player_step_from_source).  The gate link is a theorem (gate_link: after the loop of
   player_init the clocks check_clock_gate re-reads at cur_ev are the model's first clocks).
   Hypothesis InitOk: the loaded streams have not been stepped, carry the model's offsets and Deliver the model's events
   (decidable by running the generated stream_step; a truncated file does not: C12's domain).  Not compared: the
   payload / identity of a delivered event beyond its clocks (opaque in PlayerDefs); the main loop itself is the
   hand-written m_loop. *)
Theorem C03_player_run_from_source :
  (forall unsorted fuel st sx,
     StepperProofs.m_run unsorted fuel st =
     match Stepper_gen.player_init (Some tt) (Some tt) unsorted sx st with
     | StepperPre.Done _ s => StepperProofs.m_loop fuel s
     | StepperPre.Stop s => ([], StepperPre.Stop s)
     | StepperPre.Fail e => ([], StepperPre.Fail e)
     end) /\
  (forall unsorted st ss,
     let sorted := unsorted =? 0 in
     StepperProofs.InitOk (map s_off ss) st (map s_evs ss) ->
     map StepperProofs.clocks_of (fst (StepperProofs.m_run unsorted (S (total_events ss)) st)) =
     map StepperProofs.model_clocks (fst (run sorted ss)) /\
     StepperProofs.verdict_rel (snd (run sorted ss)) (snd (StepperProofs.m_run unsorted (S (total_events ss)) st))).
Proof. exact (conj StepperProofs.m_run_init StepperProofs.run_from_source). Qed.
Print Assumptions C03_player_run_from_source.

(* The emulator's main loop (unit emuloop: emu.c emu_step and `while ((ret = emu_step(&emu)) == 0)`, Gen/EmuLoop_gen.v)
   composed with the player from the source.  emu_trace = the events player_step delivered to the iterations of the
   generated loop.  On a run emu.c completes (hypotheses of C13_emu_run_from_source: every delivered stream has a thread,
   model bytes index the slots, the handlers and the recorder accept: pv_run_from = Ok), started from the player state
   player_init leaves for the streams ss (InitRel) while the byte-level state st0 satisfies InitOk for the same ss:
   the loop sees exactly the events of PlayerDefs.run, and their clocks are, one for one, the (sclock, wrap-around dclock)
   the GENERATED player_init + player_step hand to emu_ev (m_run, C03_player_run_from_source).
   _partial - what is missing for the unconditional "the generated loop runs the generated player_step":
     * in EmuLoopPre.v player_step / player_init are PRIMITIVES on the model player state (PlayerDefs.pstep; player_init
       only logs); the two preludes' states are related by EmuPlayerProofs.PlayerRel (= StepperProofs.Sim between
       StepperPre.pstate and es_player) and InitRel; replacing the primitive by the translated function needs unit emuloop
       re-instantiated over a prelude whose player is StepperPre.pstate (not done: emuloop.py is not mine to edit);
     * sorted mode only (ovniemu); the identity of a delivered event beyond its clocks is carried by the model side only
       (en_content), the generated player hands emu_ev a pointer whose decoding is EmuEvDefs' business. *)
From OV Require Proofs.EmuPlayerProofs.
Theorem C03_emu_loop_delivers_player_run_from_source_partial : forall sx est st0 ss cst,
  EmuPlayerProofs.InitRel sx est ss -> StepperProofs.InitOk (map s_off ss) st0 (map s_evs ss) ->
  snd (run true ss) = VOk ->
  (forall e, In e (fst (run true ss)) ->
     EmuLoopPre.en_lpt sx (o_id e) <> None /\ 0 <= EmuLoopRelDefs.model_of sx e < 256) ->
  EmuLoopRelDefs.models_wf sx est -> EmuLoopPre.es_models est = EmuLoopPre.MSem cst None ->
  (exists y, PvDefs.pv_run_from (EmuLoopPre.en_sx sx) cst (EmuLoopPre.es_rec est) 0
               (EmuLoopProofs.evs_of sx (EmuLoopPre.es_enabled est) (fst (run true ss))) = EmuCoreDefs.Ok y) ->
  let fuel := S (total_events ss) in
  EmuPlayerProofs.emu_trace fuel sx est = fst (run true ss) /\
  map StepperProofs.model_clocks (EmuPlayerProofs.emu_trace fuel sx est) =
  map StepperProofs.clocks_of (fst (StepperProofs.m_run 0 fuel st0)).
Proof. exact EmuPlayerProofs.emu_loop_delivers_player_run. Qed.
Print Assumptions C03_emu_loop_delivers_player_run_from_source_partial.

(* the loop alone, from any pair of related states *)
Theorem C03_emu_loop_delivers_player_loop_from_source_partial : forall fuel sx est st cst oevs,
  EmuPlayerProofs.PlayerRel sx est st ->
  ploop true (EmuLoopPre.en_offs sx) fuel (EmuLoopPre.es_player est) = (oevs, VOk) ->
  (forall e, In e oevs -> EmuLoopPre.en_lpt sx (o_id e) <> None /\ 0 <= EmuLoopRelDefs.model_of sx e < 256) ->
  EmuLoopRelDefs.models_wf sx est -> EmuLoopPre.es_models est = EmuLoopPre.MSem cst None ->
  (exists y, PvDefs.pv_run_from (EmuLoopPre.en_sx sx) cst (EmuLoopPre.es_rec est) 0
               (EmuLoopProofs.evs_of sx (EmuLoopPre.es_enabled est) oevs) = EmuCoreDefs.Ok y) ->
  map StepperProofs.model_clocks (EmuPlayerProofs.emu_trace fuel sx est) =
  map StepperProofs.clocks_of (fst (StepperProofs.m_loop fuel st)).
Proof. exact EmuPlayerProofs.emu_loop_delivers_player_loop. Qed.
Print Assumptions C03_emu_loop_delivers_player_loop_from_source_partial.
(* ---- trace.c:trace_load from the source (unit traceload: coq/Gen/TraceLoad_gen.v over Emu/TraceLoadPre.v) ----
   is_stream, cb_nftw and trace_load are syntax trees of src/emu/trace.c.  The generated trace_load equals the closed
   form TraceLoadProofs.trace_load_spec: the path is refused at PATH_MAX bytes, trailing slashes go, opendir/closedir
   must succeed, then every regular file called "stream.json" that nftw visits is handed to load_stream in the order of
   the walk (anything else is skipped, the first failing load_stream fails the whole load), cur_trace is reset and the
   list is sorted: the trace ends with sort_streams of what the walk loaded - also written as the insertion by the
   GENERATED comparator trace.c:cmp_streams (unit cmp_player) - and nstreams is its length.
   PRIMITIVES (hand-written in TraceLoadPre.v, not read from the source): the C library (memset, snprintf "%s", strcmp
   with a literal, opendir, closedir, nftw = "call the callback on x_walk's entries in order, stop at the first nonzero");
   path.c:path_remove_trailing/path_filename/path_dirname as list functions; trace.c:load_stream's path arithmetic
   (relpath_of) with stream.c:stream_load as the environment x_stream; DL_APPEND; DL_SORT as PlayerDefs.sort_streams. *)
From OV Require Emu.TraceLoadPre Gen.TraceLoad_gen Proofs.TraceLoadProofs.
Theorem C03_trace_load_from_source : forall sx st0 dir0,
  TraceLoad_gen.trace_load (Some tt) dir0 sx st0 =
  match TraceLoadProofs.trace_load_spec sx dir0 with
  | Some st' => TraceLoadPre.Ok tt st'
  | None => TraceLoadPre.Err TraceLoadPre.E_FAIL
  end.
Proof. exact TraceLoadProofs.trace_load_from_source. Qed.
Print Assumptions C03_trace_load_from_source.

Theorem C03_trace_order_from_source : forall sx st0 dir0 st1,
  TraceLoad_gen.trace_load (Some tt) dir0 sx st0 = TraceLoadPre.Ok tt st1 ->
  exists l en,
    TraceLoadPre.t_dir st1 = TraceLoadPre.path_remove_trailing_v dir0 /\
    TraceLoadPre.x_walk sx (TraceLoadPre.t_dir st1) = Some l /\
    TraceLoadProofs.enum_of sx (TraceLoadPre.t_dir st1) l = Some en /\
    TraceLoadPre.t_streams st1 = sort_streams en /\
    TraceLoadPre.t_streams st1 = fold_right CmpPlayerProofs.ins_stream_src [] en /\
    TraceLoadPre.t_n st1 = Z.of_nat (length en) /\ TraceLoadPre.t_cur st1 = None.
Proof. exact TraceLoadProofs.trace_order_from_source. Qed.
Print Assumptions C03_trace_order_from_source.

(* two file systems that differ only in the order nftw walks them load as the same trace (same stream list for the
   player); distinct stream directories have distinct relative paths: the NoDup *)
Theorem C03_trace_load_walk_order_independent_from_source : forall sx sx' dir0 st0 st0' st1,
  TraceLoadProofs.same_but_walk_order sx sx' ->
  TraceLoad_gen.trace_load (Some tt) dir0 sx st0 = TraceLoadPre.Ok tt st1 ->
  NoDup (map fst (TraceLoadPre.t_streams st1)) ->
  TraceLoad_gen.trace_load (Some tt) dir0 sx' st0' = TraceLoadPre.Ok tt st1.
Proof. exact TraceLoadProofs.trace_load_walk_order_independent. Qed.
Print Assumptions C03_trace_load_walk_order_independent_from_source.
(* ---- stream.c:stream_load from the source (unit traceload, second output: coq/Gen/StreamPath_gen.v over
   Emu/StreamPathPre.v) ----
   The generated stream_load equals the closed form StreamPathProofs.stream_load_spec.  On success stream->relpath - the
   key trace.c:cmp_streams sorts by - is the relpath argument, path is <tracedir>/<relpath> without trailing slashes,
   stream.json and stream.obs are looked for under it, and both loaded; every snprintf that does not fit PATH_MAX fails
   the load; stream.json is loaded first (a failing load_json leaves stream.obs untouched).
   PRIMITIVES: memset, the two snprintf shapes, path.c:path_remove_trailing/path_append, load_json (environment y_json),
   stream.c:load_obs (environment y_obs; generated by unit stepper: C12_stream_load_from_source).
   NOT composed with trace_load above: trace.c:load_stream (calloc, a local char[PATH_MAX], pointer arithmetic and a
   while loop over it) is not translated, so TraceLoadPre.x_stream stands for "stream_load(tracedir, relpath) succeeds
   and reads this stream" - the composition is left to the reader of the two closed forms. *)
From OV Require Emu.StreamPathPre Gen.StreamPath_gen Proofs.StreamPathProofs.
Theorem C03_stream_load_paths_from_source : forall sx st0 d rel,
  StreamPath_gen.stream_load (Some tt) d rel sx st0 =
  match StreamPathProofs.stream_load_spec sx d rel with
  | Some st' => StreamPathPre.Ok tt st'
  | None => StreamPathPre.Err StreamPathPre.E_FAIL
  end.
Proof. exact StreamPathProofs.stream_load_from_source. Qed.
Print Assumptions C03_stream_load_paths_from_source.

Theorem C03_stream_load_sort_key_from_source : forall sx st0 d rel st1,
  StreamPath_gen.stream_load (Some tt) d rel sx st0 = StreamPathPre.Ok tt st1 ->
  StreamPathPre.l_relpath st1 = rel /\
  StreamPathPre.l_path st1 = StreamPathPre.path_remove_trailing_v (StreamPathPre.join d rel) /\
  StreamPathPre.l_jsonpath st1 = StreamPathPre.join (StreamPathPre.l_path st1) StreamPathProofs.stream_json /\
  StreamPathPre.y_json sx (StreamPathPre.l_jsonpath st1) = true /\
  StreamPathPre.l_obspath st1 = StreamPathPre.join (StreamPathPre.l_path st1) StreamPathProofs.stream_obs /\
  StreamPathPre.y_obs sx (StreamPathPre.l_obspath st1) = true /\
  StreamPathPre.l_meta st1 = Some tt /\ StreamPathPre.l_obs st1 = true.
Proof. exact StreamPathProofs.stream_load_paths. Qed.
Print Assumptions C03_stream_load_sort_key_from_source.
(* ==== end of block (unit stepper) ==== *)

(* ==== whole-emulator composition (EmuAllDefs) ==== *)
(* C03 inside the composition of all models (EmuAllDefs.ovniemu_model, see the block of the same name in Properties_C12.v /
   Properties_C13.v): whenever the composed emulator writes files, the raw events its core and writer ran on (`delivered`) are,
   one for one and in order, the events ClkoffDefs.run_emu_table delivered for the streams of the directory - i.e. the output
   of the player of this property after the offsets of clock-offsets.txt were applied (C03_* above: non-decreasing corrected
   time, loss-free, ties by stream order) - each carrying the player's corrected clock o_sclock and attributed to the thread
   (row) of the stream it came from.  The verdict VOk excludes the gate and backward-jump refusals. *)
From OV Require Emu.EmuAllDefs Proofs.EmuAllProofs.
Theorem C03_all_events_from_player : forall inp out, EmuAllDefs.ovniemu_model inp = EmuAllDefs.Files out ->
  exists oevs enum revs, ClkoffDefs.run_emu_table (EmuAllDefs.in_clkoff inp) enum = ClkoffDefs.OOk (oevs, PlayerDefs.VOk) /\
    EmuAllProofs.delivered inp out revs /\
    Forall2 (fun (e : PlayerDefs.oev) r => EmuAllProofs.rev_time r = PlayerDefs.o_sclock e /\
               exists s, nth_error (EmuAllDefs.sorted_streams inp) (PlayerDefs.o_id e) = Some s /\
                         exists sys, EmuAllDefs.gindex_of sys s = Some (EmuAllProofs.rev_who r)) oevs revs.
Proof. exact EmuAllProofs.files_events_from_player. Qed.
Print Assumptions C03_all_events_from_player.
(* ==== end of block (EmuAllDefs) ==== *)
