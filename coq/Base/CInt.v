(* C integer conversions, made explicit.  Everything is Z. *)
From Coq Require Export ZArith List Bool Lia.
Export ListNotations.
Local Open Scope Z_scope.

Definition wrapu (bits : Z) (z : Z) : Z := z mod 2 ^ bits.
Definition wraps (bits : Z) (z : Z) : Z :=
  let m := z mod 2 ^ bits in if m <? 2 ^ (bits - 1) then m else m - 2 ^ bits.

Definition cast_uint8  := wrapu 8.
Definition cast_uint16 := wrapu 16.
Definition cast_uint32 := wrapu 32.
Definition cast_uint64 := wrapu 64.
Definition cast_int8   := wraps 8.
Definition cast_int16  := wraps 16.
Definition cast_int32  := wraps 32.
Definition cast_int64  := wraps 64.

Definition b2z (b : bool) : Z := if b then 1 else 0.

(* a[i] on an int array modelled as a list; out-of-range reads give 0 and are
   excluded by the statements that use them (arrays of length 3 indexed 0..2) *)
Definition ix (a : list Z) (i : Z) : Z := nth (Z.to_nat i) a 0.

Definition is_null {A : Type} (p : option A) : bool :=
  match p with None => true | Some _ => false end.

(* outcome of a C function that may call die() *)
Inductive res (A : Type) : Type := Ret (a : A) | Die.
Arguments Ret {A} a.
Arguments Die {A}.

Lemma wrapu_range bits z : 0 <= bits -> 0 <= wrapu bits z < 2 ^ bits.
Proof. intros Hb. unfold wrapu. apply Z.mod_pos_bound. apply Z.pow_pos_nonneg; lia. Qed.

Lemma wrapu_small bits z : 0 <= z < 2 ^ bits -> wrapu bits z = z.
Proof. intros H. unfold wrapu. apply Z.mod_small. exact H. Qed.

Lemma wraps_small bits z : 0 < bits -> - 2 ^ (bits - 1) <= z < 2 ^ (bits - 1) -> wraps bits z = z.
Proof.
  intros Hb H. unfold wraps.
  assert (Hp : 2 ^ bits = 2 * 2 ^ (bits - 1)).
  { replace bits with (1 + (bits - 1)) at 1 by lia. rewrite Z.pow_add_r by lia. reflexivity. }
  assert (Hpos : 0 < 2 ^ (bits - 1)) by (apply Z.pow_pos_nonneg; lia).
  destruct (Z_lt_le_dec z 0) as [Hneg | Hnn].
  - assert (Hm : z mod 2 ^ bits = z + 2 ^ bits).
    { symmetry. apply Z.mod_unique with (q := -1); lia. }
    rewrite Hm. destruct (z + 2 ^ bits <? 2 ^ (bits - 1)) eqn:E.
    + apply Z.ltb_lt in E. lia.
    + lia.
  - rewrite Z.mod_small by lia.
    destruct (z <? 2 ^ (bits - 1)) eqn:E.
    + reflexivity.
    + apply Z.ltb_ge in E. lia.
Qed.
