From OV Require Emu.MetaDefs.
From OV Require Import Base.CInt Emu.LoaderMetaDefs Emu.VersionDefs Emu.MarkDefs Rt.RtMetaDefs Rt.MarkJsonDefs.
From Coq Require Import ExtrOcamlBasic.
Extraction "rtmeta_x.ml" rtm_run meta_conformant to_loader_meta meta_check to_thread_req to_stream_meta
  tagged writes disk user_key dotget dotset
  final_metas expected_metas rtm_build rtm_thread_rows rtm_cpu_rows
  mrun parse_mark_json emu_types_of_trees emu_pcf_of_trees.
