From OV Require Import Base.CInt Emu.LoaderMetaDefs Emu.VersionDefs Emu.MarkDefs Rt.RtMetaDefs Rt.MarkJsonDefs.
From Coq Require Import ExtrOcamlBasic.
Extraction "rtmeta_x.ml" run meta_conformant to_loader_meta meta_check to_thread_req to_stream_meta
  tagged writes disk user_key dotget dotset
  mrun parse_mark_json emu_types_of_trees emu_pcf_of_trees.
