From OV Require Import Base.CInt Emu.VersionDefs Gen.Version_gen.
From Coq Require Import ExtrOcamlBasic.
Extraction "version_x.ml" version_parse ovni_version_check_str version_is_compatible
  model_probe model_event_admitted OVNI_LIB_VERSION render.
