From OV Require Import Emu.HeapDefs Emu.PlayerDefs.
From Coq Require Import ExtrOcamlBasic.
Extraction "merge_x.ml" insert pop_max heap_inv_b stream_cmp run run_emu run_dump sort_streams
  get_path walk gate_ok stream_ok stream_sorted.
