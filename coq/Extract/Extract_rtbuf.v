From OV Require Import Base.CInt Rt.CodecPre Gen.Codec_gen Rt.CodecDefs Rt.RtBufDefs.
From Coq Require Import ExtrOcamlBasic.
Extraction "rtbuf_x.ml" run disk_bytes buf_bytes valid_stream parse_stream encode
  api_okb op_wfb c_OVNI_MAX_EV_BUF zlength.
