From OV Require Import Tools.EvSpecDefs.
From Coq Require Import ZArith ExtrOcamlBasic.
Extraction "evspec_x.ml" dump spec_dump compile render parse Z.add Z.mul Z.opp.
