From OV Require Import Base.CInt Emu.SortDefs.
From Coq Require Import ExtrOcamlBasic.
Extraction "sortmod_x.ml" sort_replace sort_replace_nojump sm_init input_changed sm_run inputs_after rows_of
  diff_rows isort sortedb same_multiset rows_ok bd_value w_init cpu_event batch_ok bd_of.
