From OV Require Import Emu.EmuCoreDefs Emu.BayDefs.
From Coq Require Import ExtrOcamlBasic.
Extraction "bay_x.ml" wire wire_init apply_wop apply_writes propagate ch_th ch_raw ch_trk ch_cpu ch_ctrk mx_th mx_cpu
  chan_read tracked spec_of mstep mrun_from step run_from init.
