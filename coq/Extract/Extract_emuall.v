From OV Require Import Emu.EmuCoreDefs Emu.PvDefs Emu.EmuAllDefs.
From OV Require Emu.LoaderMetaDefs Emu.MetaDefs Rt.RtMetaDefs.
From Coq Require Import ExtrOcamlBasic.
Extraction "emuall_x.ml" ovniemu_model.
