From OV Require Import Emu.PlayerDefs Emu.TraceLoadPre Gen.TraceLoad_gen.
From Coq Require Import ExtrOcamlBasic.
Extraction "tracewalk_x.ml" trace_load mk_tenv mk_tstate t_streams t_n mkstrm.
