From OV Require Import Emu.EmuCoreDefs Emu.DecodeDefs.
From Coq Require Import ExtrOcamlBasic.
Extraction "emucore_x.ml" run step init oh_step raw_apply emit view decode decode_full mk_chans lint_chans.
