From OV Require Import Emu.EmuCoreDefs Emu.DecodeDefs Emu.MarkDefs.
From Coq Require Import ExtrOcamlBasic.
Extraction "emucore_x.ml" run step init oh_step raw_apply emit view decode decode_full decode_all mk_chans lint_chans
  merge_threads mark_chans rt_call rtm_init.
