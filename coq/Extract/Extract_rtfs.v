From OV Require Import Rt.RtFsDefs.
From Coq Require Import ExtrOcamlBasic.
Extraction "rtfs_x.ml" itrace trace_of_program_v trace_of_program exec_ok apply_prefix apply_with_fault
  fs0 absent content emu_ok visible stream_ok c09_s1_ok c09_s2_ok flushed_of json_ok json_finished obs_ok
  outcome_of orphan_delete complete_valid stream_complete meta_text all_bytes tids hdr.
