From OV Require Import Emu.MetaDefs.
From Coq Require Import ExtrOcamlBasic.
Extraction "meta_x.ml" build Unfixed.build thread_rows cpu_rows.
