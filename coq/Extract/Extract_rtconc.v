From OV Require Import Rt.RtConcDefs.
From Coq Require Import ExtrOcamlBasic.
Extraction "rtconc_x.ml" run_complete run init seq_result expand call_kinds count_ev
  is_init_ok is_init_ev is_fini_ok is_fini_ev thr_done fs_get guardedb tids_of.
