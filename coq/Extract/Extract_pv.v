From OV Require Import Emu.EmuCoreDefs Emu.DecodeDefs Emu.MarkDefs Emu.PvDefs Emu.PvBreakdownDefs.
From Coq Require Import ExtrOcamlBasic.
Extraction "pv_x.ml" emulate tlabels_of connect decode_all mk_chans lint_chans merge_threads mark_chans
  pcf_add_type pcf_add_value prf_add prf_close prf_open pcf_text parse_pcf parse_prf prv_header parse_prv_header
  prv_open prv_register prv_advance prv_close bd_emulate bd_nosv bd_nanos6.
