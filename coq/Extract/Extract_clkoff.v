From OV Require Import Emu.ClkoffDefs.
From Coq Require Import ExtrOcamlBasic.
Extraction "clkoff_x.ml" load_table trace_offsets hostname scan_line exact_entries host_offset file_lines.
