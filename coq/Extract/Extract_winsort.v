From OV Require Import Tools.WinsortDefs.
From Coq Require Import ExtrOcamlBasic.
Extraction "winsort_x.ml" winsort winsort_file check_mode loader_accepts preb ssort.
