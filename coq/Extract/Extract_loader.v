From OV Require Import Base.CInt Emu.LoaderPre Gen.Loader_gen Emu.StreamDefs Emu.LoaderSpec Emu.VersionDefs
  Emu.EmuEvDefs Emu.LoaderMetaDefs.
From Coq Require Import ExtrOcamlBasic.
Extraction "loader_x.ml" run run_old tiles ovni_ev_size ovni_payload_size emu_ev emu_ev_old emu_ev_zero
  count_events meta_check emulate jumbo_checking_handler c_OVNI_STREAM_VERSION c_OVNI_METADATA_VERSION.
