(* C16 - model of src/emu/ovnisort.c and the independent specification.
   DEFINITIONS ONLY (extraction uses only this file).

   What is modelled (ovnisort.c, whole file):
   * one stream = list of events in file order.  An event is its clock
     (uint64 as a Z in [0,2^64)), the three header characters model/category/value
     (decide the OU[ / OU] markers), an opaque identity [eid] (stands for the
     exact bytes of the event: the check rebuilds the file from the ids) and its
     encoded size [esize] (12 + payload, or 16 + jumbo size).
   * ring (struct ring, ring_add, ring_reset): size n = -n value.  ring_add
     drops the oldest entry as soon as head would meet tail, hence the ring holds
     the LAST n-1 EVENTS (not n).  The model keeps the whole processed prefix in
     reverse order ([w_rd], newest first) and looks only at [firstn (n-1)].
   * region state machine of stream_winsort: 'S' / 'U' / 'X' = WS / WU / WX k,
     k = number of events since bad0 (i.e. the events of [bad0, next)).
   * execute_sort_plan: clock0 = min(bad0.clock, find_min_clock) = min over the
     region body; find_destination: newest ring entry with a STRICTLY lower
     (unsigned) clock; if none and the ring is not full (nback < n-1): the ring
     start = first event of the stream; otherwise failure (-1).  The window
     [first, next) is sorted by qsort with cmp_ev, which compares the clocks
     as uint64 (since /repo commit f327c17; before: as int64, which made
     ring_check die on clocks >= 2^63); qsort is modelled as a stable insertion sort (any two
     stable sorts agree; glibc qsort is a merge sort when the temporary array
     fits, which it does here - trusted, re-checked by the byte comparison).
     The sorted window is written back (pwrite + the private mapping showing it)
     and ring_check dies when the window is not sorted by UNSIGNED clock.
   * a stream with zero events is "inactive": process_trace skips it in both
     modes ([winsort n [] = Some []], [check_mode [] = true]); encoded only in
     [empty_stream_result] / [empty_stream_check].
   * stream_check (-c): first clock, then no backwards jump (unsigned).
   * the emulator's loader (stream_step without allow_unsorted): signed clock
     never below the previous one, starting from 0.
   Not modelled: byte decoding of events (stream_step on truncated files),
   several streams per trace (the check handles them stream by stream),
   n = 0 (the C code writes ev[0] of a zero-sized allocation). *)
From Coq Require Import ZArith List Bool Sorted.
Import ListNotations.
Local Open Scope Z_scope.

Record ev := mkev {
  clock : Z;      (* header.clock, uint64 *)
  emodel : Z;     (* header.model *)
  ecat : Z;       (* header.category *)
  evalue : Z;     (* header.value *)
  eid : Z;        (* identity of the encoded bytes *)
  esize : Z       (* ovni_ev_size *)
}.

(* 'O' = 79, 'U' = 85, '[' = 91, ']' = 93 *)
Definition starts_unsorted_region (e : ev) : bool :=
  (emodel e =? 79) && (ecat e =? 85) && (evalue e =? 91).
Definition ends_unsorted_region (e : ev) : bool :=
  (emodel e =? 79) && (ecat e =? 85) && (evalue e =? 93).

(* (int64_t) of a uint64: only the emulator's loader reads clocks this way *)
Definition to_int64 (c : Z) : Z := if c <? 2 ^ 63 then c else c - 2 ^ 64.
Definition skey (e : ev) : Z := to_int64 (clock e).

(* ---- stable sort by a key (model of qsort(table, n, ., cmp) for a stable qsort) *)
Fixpoint ins_by (key : ev -> Z) (a : ev) (l : list ev) : list ev :=
  match l with
  | [] => [a]
  | b :: t => if key a <=? key b then a :: l else b :: ins_by key a t
  end.

Fixpoint isort_by (key : ev -> Z) (l : list ev) : list ev :=
  match l with
  | [] => []
  | a :: t => ins_by key a (isort_by key t)
  end.

(* ---- find_min_clock over [bad0, next) *)
Definition min_clock (l : list ev) : Z :=
  match l with
  | [] => 0
  | a :: t => fold_left (fun m e => if clock e <? m then clock e else m) t (clock a)
  end.

(* ---- ring_check: last_clock = 0; die if clock < last_clock *)
Fixpoint sorted_from (last : Z) (l : list ev) : bool :=
  match l with
  | [] => true
  | e :: t => if clock e <? last then false else sorted_from (clock e) t
  end.
Definition ring_check (window : list ev) : bool := sorted_from 0 window.

(* ---- find_destination.  [l] = ring entries, newest first. *)
Fixpoint find_lower (m : Z) (l : list ev) (nback : nat) : option nat :=
  match l with
  | [] => None
  | e :: t => if clock e <? m then Some nback else find_lower m t (S nback)
  end.

(* Returns the number of events of the window [first, next), counted from the
   end of the processed prefix; None = -1 (cannot find a destination). *)
Definition find_destination (n : nat) (rd : list ev) (m : Z) : option nat :=
  let ring := firstn (n - 1) rd in
  match find_lower m ring 0 with
  | Some nback => Some (S nback)
  | None => if Nat.ltb (length ring) (n - 1) then Some (length ring) else None
  end.

(* ---- execute_sort_plan.  rd = processed events, newest first; the k newest
   are the region body [bad0, next).  Result: the new processed prefix. *)
Inductive plan_res :=
| PlanOk (rd' : list ev)       (* returns 0 *)
| PlanNoDest                   (* returns -1 before anything is written *)
| PlanDie (rd' : list ev).     (* the window is written, then ring_check dies *)

Definition exec_plan_r (n : nat) (k : nat) (rd : list ev) : plan_res :=
  let body := rev (firstn k rd) in
  let clock0 := min_clock body in
  match find_destination n rd clock0 with
  | None => PlanNoDest
  | Some w =>
      let window := rev (firstn w rd) in
      let sorted := isort_by clock window in
      let rd' := rev sorted ++ skipn w rd in
      if ring_check sorted then PlanOk rd' else PlanDie rd'
  end.

Definition exec_plan (n : nat) (k : nat) (rd : list ev) : option (list ev) :=
  match exec_plan_r n k rd with
  | PlanOk rd' => Some rd'
  | _ => None
  end.

(* ---- stream_winsort *)
Inductive wst := WS | WU | WX (nbody : nat).
Record wstate := mkw { w_st : wst; w_rd : list ev }.

Definition wstep (n : nat) (w : wstate) (e : ev) : option wstate :=
  match w_st w with
  | WS => if starts_unsorted_region e then Some (mkw WU (e :: w_rd w))
          else Some (mkw WS (e :: w_rd w))
  | WU => if ends_unsorted_region e then Some (mkw WS (e :: w_rd w))
          else Some (mkw (WX 1) (e :: w_rd w))
  | WX k => if ends_unsorted_region e then
              match exec_plan n k (w_rd w) with
              | None => None
              | Some rd' => Some (mkw WS (e :: rd'))
              end
            else Some (mkw (WX (S k)) (e :: w_rd w))
  end.

Fixpoint wrun (n : nat) (w : wstate) (l : list ev) : option wstate :=
  match l with
  | [] => Some w
  | e :: t => match wstep n w e with
              | None => None
              | Some w' => wrun n w' t
              end
  end.

Definition winit : wstate := mkw WS [].

(* A stream with zero events: load_obs marks it inactive; since /repo commit
   4875105 process_trace skips inactive streams in both modes, so the tool
   succeeds and leaves the (empty) stream as it is.  THE ONLY PLACE where the
   model encodes this (before that commit: None / false, the first stream_step
   failed). *)
Definition empty_stream_result : option (list ev) := Some [].
Definition empty_stream_check : bool := true.

(* ovnisort -n N on one stream: None = the tool fails (exit status != 0). *)
Definition winsort (n : nat) (evs : list ev) : option (list ev) :=
  match evs with
  | [] => empty_stream_result
  | _ => match wrun n winit evs with
         | None => None
         | Some w => Some (rev (w_rd w))
         end
  end.

(* Same run, also giving the file content left behind when the tool fails
   (regions sorted before the failing one stay written). *)
Definition fail_content (n : nat) (w : wstate) (l : list ev) : list ev :=
  match w_st w with
  | WX k => match exec_plan_r n k (w_rd w) with
            | PlanDie rd' => rev rd' ++ l
            | _ => rev (w_rd w) ++ l
            end
  | _ => rev (w_rd w) ++ l
  end.

Fixpoint wrun_file (n : nat) (w : wstate) (l : list ev) : bool * list ev :=
  match l with
  | [] => (true, rev (w_rd w))
  | e :: t => match wstep n w e with
              | None => (false, fail_content n w l)
              | Some w' => wrun_file n w' t
              end
  end.
Definition winsort_file (n : nat) (evs : list ev) : bool * list ev :=
  match evs with
  | [] => (match empty_stream_result with Some _ => true | None => false end, [])
  | _ => wrun_file n winit evs
  end.

(* ovnisort -c on one stream *)
Definition check_mode (evs : list ev) : bool :=
  match evs with
  | [] => empty_stream_check
  | e :: t => sorted_from (clock e) t
  end.

(* stream_step of the emulator (clock offset 0): int64 clock never decreases, starting at 0 *)
Fixpoint loader_from (last : Z) (l : list ev) : bool :=
  match l with
  | [] => true
  | e :: t => if skey e <? last then false else loader_from (skey e) t
  end.
Definition loader_accepts (evs : list ev) : bool := loader_from 0 evs.

(* ======================================================================== *)
(* Specification (no ring, no destination search, no sort procedure)          *)
(* ======================================================================== *)

Definition cle (a b : ev) : Prop := clock a <= clock b.

(* non-decreasing clocks *)
Definition sorted (l : list ev) : Prop := StronglySorted cle l.

(* equal-clock events keep their relative order (and nothing is lost, duplicated or altered) *)
Definition stable (l l' : list ev) : Prop :=
  forall c, filter (fun e => clock e =? c) l' = filter (fun e => clock e =? c) l.

Definition total_size (l : list ev) : Z := fold_right (fun e s => esize e + s) 0 l.

(* every event before the earliest out-of-order position is left where it is:
   whenever the input is A ++ B with A in order and nothing in B earlier than
   anything in A, the output starts with A *)
Definition prefix_untouched (l l' : list ev) : Prop :=
  forall A B, l = A ++ B -> sorted A ->
    (forall a b, In a A -> In b B -> clock a <= clock b) ->
    exists B', l' = A ++ B' /\ length B' = length B.

(* clocks representable as int64 (only the emulator's loader needs this) *)
Definition clk_ok (e : ev) : bool := (0 <=? clock e) && (clock e <? 2 ^ 63).
(* a clock is a uint64 (representation invariant of the file format, not a restriction) *)
Definition clk_u64 (e : ev) : bool := (0 <=? clock e) && (clock e <? 2 ^ 64).

(* Look-back condition of one region, stated on the ORIGINAL stream:
   [before] = every event preceding the region body (the OU[ included),
   [body]   = the events between OU[ and OU].
   The body, plus every earlier event that is not strictly older than the
   oldest body event, plus the event the body is inserted after, must be among
   the n-1 events the tool remembers. *)
Definition lookback_ok (n : nat) (before body : list ev) : bool :=
  let m := min_clock body in
  Nat.leb (length body + length (filter (fun e => m <=? clock e) before) + 2) n.

(* Precondition, as a scanner over the original stream:
   - outside regions (markers included) the clocks never decrease;
   - a region is OU[ body OU] with body = the events up to the first OU];
     body events may carry any clock not above the closing marker's;
   - every non-empty body satisfies [lookback_ok];
   - the stream does not end inside a region;
   - every clock is a uint64 (always true of a decoded file). *)
Inductive pmode := PS | PR (s : ev) (rbody : list ev).
Record pstate := mkp { p_before : list ev; p_last : Z; p_mode : pmode }.

Definition pstep (n : nat) (p : pstate) (e : ev) : option pstate :=
  if negb (clk_u64 e) then None else
  match p_mode p with
  | PS =>
      if p_last p <=? clock e then
        if starts_unsorted_region e then Some (mkp (p_before p) (clock e) (PR e []))
        else Some (mkp (p_before p ++ [e]) (clock e) PS)
      else None
  | PR s rb =>
      if ends_unsorted_region e then
        if (p_last p <=? clock e)
           && forallb (fun b => clock b <=? clock e) rb
           && match rb with
              | [] => true
              | _ => lookback_ok n (p_before p ++ [s]) (rev rb)
              end
        then Some (mkp (p_before p ++ s :: rev rb ++ [e]) (clock e) PS)
        else None
      else Some (mkp (p_before p) (p_last p) (PR s (e :: rb)))
  end.

Fixpoint prun (n : nat) (p : pstate) (l : list ev) : option pstate :=
  match l with
  | [] => Some p
  | e :: t => match pstep n p e with
              | None => None
              | Some p' => prun n p' t
              end
  end.

Definition pinit : pstate := mkp [] 0 PS.

Definition preb (n : nat) (evs : list ev) : bool :=
  match prun n pinit evs with
  | Some p => match p_mode p with PS => true | PR _ _ => false end
  | None => false
  end.

Definition pre (n : nat) (evs : list ev) : Prop := preb n evs = true.

(* the stable sort by clock, as a function (used to state what the output IS) *)
Definition ssort (l : list ev) : list ev := isort_by clock l.
