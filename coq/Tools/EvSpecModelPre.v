(* Prelude of the generated file Gen/EvSpecModel_gen.v (translate/units/evspec.py): src/emu/model.c model_event_print.

   The monad is the one of Tools/EvSpecWalkPre.v.  Hand-written here (not translated):
     - struct model: for every model character the table of its compiled event specs (registered[i] = there is a table;
       spec[i]->evspec = that table); a `struct model_spec *` is the table or NULL;
     - model_evspec_find (uthash HASH_FIND on the 4 bytes of the MCV): the first entry with that MCV (the listed MCVs are
       unique: C18_dump_mcv_unique), NULL when there is none;
     - struct emu_ev: the model byte, the MCV string and the payload part of EvSpecPre.ptr_ev;
     - ev_spec_print is the GENERATED Gen/EvSpecWalk_gen.ev_spec_print (calling it through a NULL spec is E_TRAP). *)
From Coq Require Import ZArith List Bool.
From OV Require Import Base.CInt Tools.EvSpecDefs Tools.EvSpecPre.
From OV Require Export Tools.EvSpecWalkPre.
From OV Require Gen.EvSpecWalk_gen.
Import ListNotations.
Local Open Scope Z_scope.

Definition evtable := list (list Z * ptr_specw).            (* MCV, compiled spec + description *)
Definition ptr_model := list (Z * evtable).                 (* model character, its table *)
Definition ptr_mspec := option evtable.
Record ptr_mev := mkMev { me_m : Z; me_mcv : list Z; me_ev : EvSpecPre.ptr_ev }.

Fixpoint assoc {A} (eqb : A -> A -> bool) {B} (k : A) (l : list (A * B)) : option B :=
  match l with
  | [] => None
  | (k', v) :: r => if eqb k' k then Some v else assoc eqb k r
  end.

Definition get_emu_ev_m (e : ptr_mev) : Z := me_m e.
Definition get_emu_ev_mcv (e : ptr_mev) : list Z := me_mcv e.
Definition get_model_registered_at (m : ptr_model) (i : Z) : Z := match assoc Z.eqb i m with Some _ => 1 | None => 0 end.
Definition get_model_spec_at (m : ptr_model) (i : Z) : ptr_mspec := assoc Z.eqb i m.
Definition get_model_spec_evspec (s : ptr_mspec) : evtable := match s with Some t => t | None => [] end.
Definition model_evspec_find_c (t : evtable) (mcv : list Z) : option ptr_specw := assoc list_eqb mcv t.

Definition ev_spec_print (es : option ptr_specw) (ev : ptr_mev) (buf : ptr_out) (buflen : Z) : W Z :=
  match es with
  | Some s => EvSpecWalk_gen.ev_spec_print s (me_ev ev) buf buflen
  | None => fail E_TRAP
  end.
