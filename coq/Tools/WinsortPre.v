(* Prelude of the generated file Gen/Winsort_gen.v (translate/units/winsort.py): the world of src/emu/ovnisort.c.

   The generated file renders starts_unsorted_region, ends_unsorted_region, ring_reset, ring_add, ring_check,
   find_destination and execute_sort_plan statement by statement in the state + error monad below
   (`return -1` = Fail E_FAIL, die() = Fail E_DIE, a NULL dereference or an out-of-bounds store = Fail E_TRAP).

   Hand-written here (not translated):
     - the state: the stream file as the list of its events in file order (WinsortDefs.ev: clock, header
       characters, identity of the bytes, encoded size); `struct ovni_ev *` / `uint8_t *` / `void *` = NULL or
       the INDEX of an event in the file (a byte address is the total size of the events before it: ptr_addr);
       the one ring (head, tail, size, the array ev as a list) and the one sort plan;
     - the two counted loops (ring_check, find_destination) are the primitive bounded iteration for_loop
       (fuel = ring size + 1; running out of it is Fail E_FUEL) around the TRANSLATED body, condition and step;
     - find_min_clock = WinsortDefs.min_clock of the events in [bad0, next); sort_buf = the stable sort by clock
       (WinsortDefs.isort_by clock; tied to cmp_ev by unit cmp_winsort) of the events that fill `bufsize` bytes
       from `first`, into a scratch buffer; write_stream = overwrite the file in place with the scratch buffer
       (refused unless the sizes agree); rebuild_ring = its own loop: entries from `dirty` to the tail are
       re-pointed at consecutive events from `first`, dies when `last` is passed or not reached; malloc never
       fails, free does nothing; dbg()/err() logging is dropped.
   Definitions only; proofs in Proofs/WinsortGenProofs.v. *)
From Coq Require Import ZArith List Bool Arith.
From OV Require Import Base.CInt Emu.HeapDefs Tools.WinsortDefs.
Import ListNotations.
Local Open Scope Z_scope.

Definition ptr_ev := option nat.
Definition ptr_ring := option unit.
Definition ptr_sortplan := option unit.
Definition ptr_evarr := option unit.

Record cring := mk_cring { r_head : Z; r_tail : Z; r_size : Z; r_ev : list ptr_ev }.
Record csp := mk_csp { sp_bad0 : ptr_ev; sp_next : ptr_ev; sp_fd : Z }.
Record wstate_c := mk_wc { file : list ev; ring : cring; plan : csp; scratch : list ev }.
(* the environment of a per-event step: the event stream_step has just delivered (stream_ev(stream)) *)
Definition wenv := ptr_ev.
Definition ptr_stream := option unit.

Definition E_FAIL := 20%nat.
Definition E_DIE := 21%nat.
Definition E_FUEL := 98%nat.
Definition E_TRAP := 99%nat.

Inductive res (A : Type) : Type := Done (a : A) (st : wstate_c) | Fail (e : nat).
Arguments Done {A} a st.
Arguments Fail {A} e.

Definition M (A : Type) : Type := wenv -> wstate_c -> res A.
Definition ret {A} (a : A) : M A := fun _ st => Done a st.
Definition fail {A} (e : nat) : M A := fun _ _ => Fail e.
Definition bind {A B} (m : M A) (f : A -> M B) : M B :=
  fun sx st => match m sx st with Done a st' => f a sx st' | Fail e => Fail e end.
Definition bind_ {A B} (m : M A) (k : M B) : M B := bind m (fun _ => k).
Definition eval {A} (f : wenv -> wstate_c -> A) : M A := fun sx st => Done (f sx st) st.
Definition ite {A} (c : wenv -> wstate_c -> bool) (a b : M A) : M A :=
  fun sx st => if c sx st then a sx st else b sx st.
Definition need {A} (safe : wenv -> wstate_c -> bool) (k : M A) : M A :=
  fun sx st => if safe sx st then k sx st else Fail E_TRAP.

(* result of one iteration of a loop body: leave the function with a value, or go on with the carried locals *)
Inductive lres (C : Type) : Type := LRet (v : Z) | LCont (c : C).
Arguments LRet {C} v.
Arguments LCont {C} c.

Fixpoint for_go {C} (fuel : nat) (cond : Z -> wenv -> wstate_c -> bool) (next : Z -> wenv -> wstate_c -> Z)
         (body : Z -> C -> M (lres C)) (i : Z) (c : C) : M (lres C) :=
  fun sx st =>
    match fuel with
    | O => Fail E_FUEL
    | S f =>
      if cond i sx st then
        match body i c sx st with
        | Done (LRet v) st' => Done (LRet v) st'
        | Done (LCont c') st' => for_go f cond next body (next i sx st') c' sx st'
        | Fail e => Fail e
        end
      else Done (LCont c) st
    end.
Definition for_loop {C} (fuel : wenv -> wstate_c -> nat) cond next (body : Z -> C -> M (lres C)) (i : Z) (c : C) : M (lres C) :=
  fun sx st => for_go (fuel sx st) cond next body i c sx st.
Definition loop_fuel (sx : wenv) (st : wstate_c) : nat := S (Z.to_nat (r_size (ring st))).

Definition c_rem (a b : Z) : Z := Z.rem a b.

(* ------------------------------------------------------------------ events *)
Definition ev0 : ev := mkev 0 0 0 0 0 0.
Definition ev_at (st : wstate_c) (p : ptr_ev) : ev := match p with Some k => nth k (file st) ev0 | None => ev0 end.
Definition get_ovni_ev_header_clock (sx : wenv) (st : wstate_c) (p : ptr_ev) : Z := clock (ev_at st p).
Definition get_ovni_ev_header_model (sx : wenv) (st : wstate_c) (p : ptr_ev) : Z := emodel (ev_at st p).
Definition get_ovni_ev_header_category (sx : wenv) (st : wstate_c) (p : ptr_ev) : Z := ecat (ev_at st p).
Definition get_ovni_ev_header_value (sx : wenv) (st : wstate_c) (p : ptr_ev) : Z := evalue (ev_at st p).
Definition ovni_ev_get_clock (sx : wenv) (st : wstate_c) (p : ptr_ev) : Z := clock (ev_at st p).   (* ovni.c: return ev->header.clock *)
Definition ptr_addr (sx : wenv) (st : wstate_c) (p : ptr_ev) : Z :=
  match p with Some k => total_size (firstn k (file st)) | None => 0 end.
Definition ix_ptr_ev (l : list ptr_ev) (i : Z) : ptr_ev := nth (Z.to_nat i) l None.

(* ------------------------------------------------------------------ ring *)
Definition get_ring_head (sx : wenv) (st : wstate_c) (r : ptr_ring) : Z := r_head (ring st).
Definition get_ring_tail (sx : wenv) (st : wstate_c) (r : ptr_ring) : Z := r_tail (ring st).
Definition get_ring_size (sx : wenv) (st : wstate_c) (r : ptr_ring) : Z := r_size (ring st).
Definition get_ring_ev (sx : wenv) (st : wstate_c) (r : ptr_ring) : list ptr_ev := r_ev (ring st).

Definition with_ring (st : wstate_c) (g : cring) : wstate_c := mk_wc (file st) g (plan st) (scratch st).
Definition putr (r : ptr_ring) (f : cring -> cring) : M unit :=
  fun sx st => match r with Some _ => Done tt (with_ring st (f (ring st))) | None => Fail E_TRAP end.
Definition set_ring_head (r : ptr_ring) (v : wenv -> wstate_c -> Z) : M unit :=
  fun sx st => putr r (fun g => mk_cring (v sx st) (r_tail g) (r_size g) (r_ev g)) sx st.
Definition set_ring_tail (r : ptr_ring) (v : wenv -> wstate_c -> Z) : M unit :=
  fun sx st => putr r (fun g => mk_cring (r_head g) (v sx st) (r_size g) (r_ev g)) sx st.
(* r->ev[i] = v: a store outside the allocated array is a trap *)
Definition set_ring_ev_at (r : ptr_ring) (i : wenv -> wstate_c -> Z) (v : wenv -> wstate_c -> ptr_ev) : M unit :=
  fun sx st =>
    if (0 <=? i sx st) && (i sx st <? Z.of_nat (length (r_ev (ring st))))
    then putr r (fun g => mk_cring (r_head g) (r_tail g) (r_size g) (upd (r_ev g) (Z.to_nat (i sx st)) (v sx st))) sx st
    else Fail E_TRAP.

(* ------------------------------------------------------------------ sort plan *)
Definition get_sortplan_bad0 (sx : wenv) (st : wstate_c) (p : ptr_sortplan) : ptr_ev := sp_bad0 (plan st).
Definition get_sortplan_next (sx : wenv) (st : wstate_c) (p : ptr_sortplan) : ptr_ev := sp_next (plan st).
Definition get_sortplan_fd (sx : wenv) (st : wstate_c) (p : ptr_sortplan) : Z := sp_fd (plan st).
Definition get_sortplan_base (sx : wenv) (st : wstate_c) (p : ptr_sortplan) : ptr_ev := Some O.
Definition get_sortplan_r (sx : wenv) (st : wstate_c) (p : ptr_sortplan) : ptr_ring := Some tt.
Definition get_sortplan_r_ev (sx : wenv) (st : wstate_c) (p : ptr_sortplan) : list ptr_ev := r_ev (ring st).
Definition get_sortplan_bad0_header_clock (sx : wenv) (st : wstate_c) (p : ptr_sortplan) : Z := clock (ev_at st (sp_bad0 (plan st))).

Definition sp_local : ptr_sortplan := Some tt.      (* `struct sortplan sp` of stream_winsort: the one plan of the state *)
Definition putsp (p : ptr_sortplan) (f : csp -> csp) : M unit :=
  fun sx st => match p with Some _ => Done tt (mk_wc (file st) (ring st) (f (plan st)) (scratch st)) | None => Fail E_TRAP end.
Definition set_sortplan_bad0 (p : ptr_sortplan) (v : wenv -> wstate_c -> ptr_ev) : M unit :=
  fun sx st => putsp p (fun c => mk_csp (v sx st) (sp_next c) (sp_fd c)) sx st.
Definition set_sortplan_next (p : ptr_sortplan) (v : wenv -> wstate_c -> ptr_ev) : M unit :=
  fun sx st => putsp p (fun c => mk_csp (sp_bad0 c) (v sx st) (sp_fd c)) sx st.
Definition stream_ev (sx : wenv) (st : wstate_c) (s : ptr_stream) : ptr_ev := sx.

(* ------------------------------------------------------------------ primitives of execute_sort_plan *)
Definition idx (p : ptr_ev) : nat := match p with Some k => k | None => O end.
(* the events of [a, b) *)
Definition between (st : wstate_c) (a b : ptr_ev) : list ev := firstn (idx b - idx a) (skipn (idx a) (file st)).
Definition find_min_clock (sx : wenv) (st : wstate_c) (a b : ptr_ev) : Z := min_clock (between st a b).

(* the events that fill exactly `size` bytes *)
Fixpoint take_bytes (l : list ev) (size : Z) : option (list ev) :=
  if size =? 0 then Some [] else
  match l with
  | [] => None
  | e :: t => if esize e <=? size then option_map (cons e) (take_bytes t (size - esize e)) else None
  end.

Definition malloc (n : Z) : M ptr_ev := ret (Some O).
Definition free (p : ptr_ev) : M unit := ret tt.
Definition sort_buf (first buf : ptr_ev) (size : Z) : M unit :=
  fun sx st => match first with
               | None => Fail E_TRAP
               | Some a => match take_bytes (skipn a (file st)) size with
                           | None => Fail E_TRAP
                           | Some w => Done tt (mk_wc (file st) (ring st) (plan st) (isort_by clock w))
                           end
               end.
Definition write_stream (fd : Z) (base dst src : ptr_ev) (size : Z) : M unit :=
  fun sx st => match dst with
               | None => Fail E_TRAP
               | Some a => if total_size (scratch st) =? size
                           then Done tt (mk_wc (firstn a (file st) ++ scratch st ++ skipn (a + length (scratch st)) (file st))
                                               (ring st) (plan st) (scratch st))
                           else Fail E_TRAP
               end.

(* rebuild_ring(r, start, first, last) *)
Fixpoint rebuild (fuel : nat) (g : cring) (i : Z) (e last : nat) : option cring :=
  match fuel with
  | O => None
  | S f =>
    if i =? r_tail g then (if (e =? last)%nat then Some g else None)
    else if (last <=? e)%nat then None
    else rebuild f (mk_cring (r_head g) (r_tail g) (r_size g) (upd (r_ev g) (Z.to_nat i) (Some e)))
                 (if i + 1 >=? r_size g then 0 else i + 1) (S e) last
  end.
Definition rebuild_ring (r : ptr_ring) (start : Z) (first last : ptr_ev) : M unit :=
  fun sx st => match r, first, last with
               | Some _, Some a, Some b =>
                 match rebuild (S (Z.to_nat (r_size (ring st)))) (ring st) start a b with
                 | Some g => Done tt (with_ring st g)
                 | None => Fail E_DIE
                 end
               | _, _, _ => Fail E_TRAP
               end.

(* ------------------------------------------------------------------ stream_winsort around its translated body *)
(* `while ((ret = stream_step(stream)) == 0) body`: stream_step delivers the events of the file one after the
   other (C19: the cursor advances by the size of each event), so the loop is the fold of the TRANSLATED body over
   the event indices 0, 1, ...; the body reads the delivered event through stream_ev.  ring_reset runs first;
   what follows the loop (status of stream_step, fdatasync, close) touches neither the file nor the ring. *)
Definition run_step {C} (body : ptr_stream -> ptr_ring -> C -> M (lres C)) (acc : res C) (k : nat) : res C :=
  match acc with
  | Fail e => Fail e
  | Done c st =>
    match body (Some tt) (Some tt) c (Some k) st with
    | Done (LCont c') st' => Done c' st'
    | Done (LRet _) _ => Fail E_TRAP
    | Fail x => Fail x
    end
  end.

Definition winsort_state0 (n : nat) (evs : list ev) : wstate_c :=
  mk_wc evs (mk_cring 0 0 (Z.of_nat n) (repeat None n)) (mk_csp None None 3) [].

(* ovnisort -n n on one non-empty stream: Some file' = exit status 0 *)
Definition run_winsort {C} (reset : ptr_ring -> M unit) (body : ptr_stream -> ptr_ring -> C -> M (lres C)) (init : C)
           (n : nat) (evs : list ev) : option (list ev) :=
  match reset (Some tt) None (winsort_state0 n evs) with
  | Fail _ => None
  | Done _ st1 =>
    match fold_left (run_step body) (seq 0 (length evs)) (Done init st1) with
    | Done _ st => Some (file st)
    | Fail _ => None
    end
  end.

(* ------------------------------------------------------------------ stream_check (-c) around its translated parts *)
(* int ret = stream_step(stream) delivers event 0 (a stream without events is inactive and skipped by process_trace);
   stream_check_init; then the fold of the translated loop body over the events 1, 2, ...; then stream_check_end *)
Definition run_cstep {C} (body : ptr_stream -> C -> M (lres C)) (acc : res C) (k : nat) : res C :=
  match acc with
  | Fail e => Fail e
  | Done c st =>
    match body (Some tt) c (Some k) st with
    | Done (LCont c') st' => Done c' st'
    | Done (LRet _) _ => Fail E_TRAP
    | Fail x => Fail x
    end
  end.

Definition run_check {C} (init : ptr_stream -> M (lres C)) (body : ptr_stream -> C -> M (lres C)) (fin : C -> M unit)
           (evs : list ev) : bool :=
  match evs with
  | [] => true
  | _ =>
    match init (Some tt) (Some O) (winsort_state0 1 evs) with
    | Done (LCont c0) st1 =>
      match fold_left (run_cstep body) (seq 1 (length evs - 1)) (Done c0 st1) with
      | Done c st => match fin c None st with Done _ _ => true | Fail _ => false end
      | Fail _ => false
      end
    | _ => false
    end
  end.
