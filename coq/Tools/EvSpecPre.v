(* Prelude of the generated file Gen/EvSpec_gen.v (translate/units/evspec.py): the world of src/emu/ev_spec.c
   advance_out and print_arg.

   The generated file renders the two functions statement by statement in the state + error monad below:
   `return -1` = fail E_FAIL; a read outside the payload block = E_OOB (the defect repaired by /repo 0435199 lived
   here); a printf format this model gives no meaning = E_UNSUP; a libc call outside its contract = E_TRAP.

   Hand-written here (not translated):
     - struct ev_arg = the record `arg` of Tools/EvSpecDefs.v (offset, size, type as the enum number ty_code: the
       generated file compares it with the enum constants the compiler reports);
     - struct emu_ev = (payload block or NULL, payload_size); byte pointers (uint8_t *, char *, the payload union) are
       (block, offset) pairs, &p[i] adds to the offset, memchr searches inside the block;
     - the cursor: the bytes committed to the output buffer so far (o_buf), what the last snprintf wrote at c->out
       (o_pend, its NUL included), and c->len; `c->out += n` commits n of the pending bytes (E_TRAP when fewer are there),
       so a cursor that runs ahead of the text shows in o_buf (it swallows the NUL);
     - memcpy(&x, p, sizeof x) for the eight integer types: little-endian decode with EvSpecDefs.dec_int, E_OOB when the
       bytes are not all inside the block;
     - snprintf(c->out, size, fmt, x) for the formats the event tables use: the inferred formats of the types
       ("%u" "%lu" "%d" "%ld" "%s": PRIu8/16/32 = "u", PRIu64 = "lu", PRId8/16/32 = "d", PRId64 = "ld" on LP64 glibc) and
       "%#llx" on a 64-bit argument, rendered with the formatting functions of EvSpecDefs.v (udec / sdec / hexalt);
       the argument carries the width of its promoted C type (32 or 64): a width that does not match the length modifier
       is undefined behaviour in C and E_UNSUP here; "%s" reads up to the NUL, E_OOB when the block ends first;
       at most size-1 bytes and a NUL are written, the return value is the full length.
   Definitions only; proofs in Proofs/EvSpecGenProofs.v. *)
From Coq Require Import ZArith List Bool.
From OV Require Import Base.CInt Tools.EvSpecDefs.
Import ListNotations.
Local Open Scope Z_scope.

Definition ptr_arg := arg.
Definition cfmt := list Z.
Definition ptr_cursor := unit.
Definition ptr_u8 := option (list Z * Z).
Record ptr_ev := mkEv { e_payload : option (list Z); e_psize : Z }.
(* emu_ev.c: payload_size = the bytes after the header; no payload = NULL *)
Definition ev_of (pl : option (list Z)) : ptr_ev :=
  mkEv pl (match pl with Some p => Z.of_nat (length p) | None => 0 end).

Definition ty_code (t : aty) : Z :=
  match t with U8 => 0 | U16 => 1 | U32 => 2 | U64 => 3 | I8 => 4 | I16 => 5 | I32 => 6 | I64 => 7 | STR => 8 end.

Definition get_ev_arg_offset (a : ptr_arg) : Z := Z.of_nat (a_off a).
Definition get_ev_arg_size (a : ptr_arg) : Z := Z.of_nat (a_size a).
Definition get_ev_arg_type (a : ptr_arg) : Z := ty_code (a_type a).
Definition get_emu_ev_payload (e : ptr_ev) : ptr_u8 := match e_payload e with Some p => Some (p, 0) | None => None end.
Definition get_emu_ev_payload_size (e : ptr_ev) : Z := e_psize e.

Definition u8_index (p : ptr_u8) (i : Z) : ptr_u8 := match p with Some (b, o) => Some (b, o + i) | None => None end.
Definition region (b : list Z) (o n : Z) : list Z := firstn (Z.to_nat n) (skipn (Z.to_nat o) b).
(* only compared with NULL: the position inside the block is not modelled *)
Definition memchr_c (p : ptr_u8) (ch n : Z) : ptr_u8 :=
  match p with
  | Some (b, o) => if existsb (Z.eqb ch) (region b o n) then Some (b, o) else None
  | None => None
  end.

(* ------------------------------------------------------------------ the monad *)
Record ostate := mkO { o_buf : list Z; o_pend : list Z; o_len : Z }.

Definition E_FAIL := 20%nat.
Definition E_OOB := 30%nat.
Definition E_UNSUP := 31%nat.
Definition E_TRAP := 99%nat.

Inductive ores (A : Type) : Type := OOk (a : A) | OErr (e : nat).
Arguments OOk {A} a.
Arguments OErr {A} e.

Definition M (A : Type) : Type := ostate -> ores (A * ostate).
Definition ret {A} (a : A) : M A := fun st => OOk (a, st).
Definition fail {A} (e : nat) : M A := fun _ => OErr e.
Definition bind {A B} (m : M A) (f : A -> M B) : M B :=
  fun st => match m st with OOk (a, st') => f a st' | OErr e => OErr e end.
Definition bind_ {A B} (m : M A) (k : M B) : M B := bind m (fun _ => k).
Definition ite {A} (c : bool) (a b : M A) : M A := if c then a else b.

(* ------------------------------------------------------------------ the cursor *)
Definition get_cursor_len (c : ptr_cursor) : M Z := fun st => OOk (o_len st, st).
Definition set_cursor_len (c : ptr_cursor) (v : Z) : M unit := fun st => OOk (tt, mkO (o_buf st) (o_pend st) v).
Definition add_cursor_out (c : ptr_cursor) (n : Z) : M unit :=
  fun st => if (0 <=? n) && (n <=? Z.of_nat (length (o_pend st)))
            then OOk (tt, mkO (o_buf st ++ firstn (Z.to_nat n) (o_pend st)) (skipn (Z.to_nat n) (o_pend st)) (o_len st))
            else OErr E_TRAP.

(* ------------------------------------------------------------------ memcpy of an integer *)
Definition load (t : aty) (p : ptr_u8) : M Z :=
  match p with
  | Some (b, o) =>
    let n := Z.of_nat (ty_size t) in
    if (0 <=? o) && (o + n <=? Z.of_nat (length b)) then ret (dec_int t (region b o n)) else fail E_OOB
  | None => fail E_TRAP
  end.
Definition load_uint8 := load U8.
Definition load_uint16 := load U16.
Definition load_uint32 := load U32.
Definition load_uint64 := load U64.
Definition load_int8 := load I8.
Definition load_int16 := load I16.
Definition load_int32 := load I32.
Definition load_int64 := load I64.

(* ------------------------------------------------------------------ snprintf *)
Inductive sarg := AInt (bits : Z) (z : Z) | AStr (p : ptr_u8).
Inductive stext := TText (t : list Z) | TOob | TUnsup.

Definition F_U : cfmt := [37; 117].            (* "%u" *)
Definition F_LU : cfmt := [37; 108; 117].      (* "%lu" *)
Definition F_D : cfmt := [37; 100].            (* "%d" *)
Definition F_LD : cfmt := [37; 108; 100].      (* "%ld" *)
Definition F_S : cfmt := [37; 115].            (* "%s" *)
Definition F_LLX : cfmt := 37 :: FMT_LLX.      (* "%#llx" *)

Definition fmt_text (fmt : cfmt) (a : sarg) : stext :=
  match a with
  | AInt bits z =>
    if list_eqb fmt F_U then (if bits =? 32 then TText (udec (z mod 2 ^ 32)) else TUnsup)
    else if list_eqb fmt F_LU then (if bits =? 64 then TText (udec (z mod 2 ^ 64)) else TUnsup)
    else if list_eqb fmt F_D then (if bits =? 32 then TText (sdec (cast_int32 z)) else TUnsup)
    else if list_eqb fmt F_LD then (if bits =? 64 then TText (sdec (cast_int64 z)) else TUnsup)
    else if list_eqb fmt F_LLX then (if bits =? 64 then TText (hexalt (z mod 2 ^ 64)) else TUnsup)
    else TUnsup
  | AStr p =>
    if list_eqb fmt F_S then
      match p with
      | Some (b, o) =>
        let tail := skipn (Z.to_nat o) b in
        if (0 <=? o) && existsb (fun c => c =? 0) tail then TText (cstr tail) else TOob
      | None => TOob
      end
    else TUnsup
  end.

Definition snprintf_c (c : ptr_cursor) (size : Z) (fmt : cfmt) (a : sarg) : M Z :=
  fun st =>
    match fmt_text fmt a with
    | TText t =>
      let w := if size <=? 0 then [] else firstn (Z.to_nat (size - 1)) t ++ [0] in
      OOk (Z.of_nat (length t), mkO (o_buf st) w (o_len st))
    | TOob => OErr E_OOB
    | TUnsup => OErr E_UNSUP
    end.

(* the C format string print_arg receives from format_region: the inferred one (snprintf(fmt, 64, "%s", type_fmt[type]))
   or '%' followed by the custom format copied by parse_printf_format *)
Definition type_fmt (t : aty) : cfmt :=
  match t with U8 | U16 | U32 => F_U | U64 => F_LU | I8 | I16 | I32 => F_D | I64 => F_LD | STR => F_S end.
Definition cfmt_of (f : option (list Z)) (t : aty) : cfmt :=
  match f with None => type_fmt t | Some x => 37 :: x end.
