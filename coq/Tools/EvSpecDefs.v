(* C18 (decode clause) - model of src/emu/ev_spec.c as used by ovnidump, and the
   specification it is compared with.  DEFINITIONS ONLY (extraction uses only this file).

   Strings are lists of byte values (Z in 0..255); a C string is the part of the list before
   the first 0 ([cstr]).  Lengths, offsets and sizes are nat; the remaining room of the output
   buffer (the C field `int len`) is a Z.

   What is modelled
   * ev_spec_compile / parse_signature / parse_args / parse_arg / parse_type:
     - working copy of 256 bytes: a signature of 256 or more bytes is refused;
     - fewer than 3 bytes: refused; the three MCV bytes must satisfy isgraph (33..126 in the
       C locale; bytes >= 128 are not graphic);
     - optional '+' (jumbo) after the MCV; end of string: accepted without arguments unless
       jumbo; otherwise a '(' is required;
     - strtok_r(paren+1, ",)") : the text after '(' is cut at every ',' or ')' and EMPTY
       tokens are skipped (so "a,,b" has two tokens and whatever follows the ')' is one more
       token); each token is cut at ' ' the same way: first word = type, second = name, further
       words ignored; no first word or no second word: refused;
     - at most MAX_ARGS = 16 arguments; a name of 64 or more bytes is refused; the type must be
       one of u8 u16 u32 u64 i8 i16 i32 i64 str (sizes 1 2 4 8 1 2 4 8 0);
     - offset of an argument = payload_size so far, which starts at 4 for jumbo (the u32 size
       field is part of what emu_ev hands over as payload) else 0; zero arguments after '(' :
       refused.
   * ev_spec_print / format_region / parse_printf_format / parse_arg_name / print_arg
     (print_arg as of /repo commit 0435199):
     - len starts at outlen-1 = 1023;  while input remains: len == 0 is an error; a character
       other than '%' is copied (len-1);
     - "%" at the end: error; "%%" gives '%'; "%{name}" uses the format of the argument's type
       (unsigned / signed decimal, or the bytes of the string); "%FMT{name}" : FMT is any run
       of bytes without '{' (at most 62 of them);  name: bytes up to '}', non-empty, isalnum
       only, at most 63;  the name is looked up with strcmp in declaration order (first match);
     - print_arg: no payload: error;  offset+size > payload_size: error;  a str needs a 0
       inside the payload at or after its offset;  the value is memcpy'd little endian;
       snprintf returning n >= len is an error, otherwise len -= n.
     - custom formats: only "#llx" on an 8-byte argument is given a meaning (what glibc prints
       for a 64-bit pattern: "0" for zero, else "0x" and lowercase hex digits).  Every other
       custom format reaching print_arg yields [Unsupported]: the check then fails closed.
   * emu_ev.c: a payload size of 0 means payload == NULL, hence [Some []] is treated as [None].

   Not modelled: the text of the diagnostics; locale other than "C"; the hash table of
   model_evspec (the finite facts check that there is no duplicate MCV instead). *)
From Coq Require Import ZArith List Bool.
Import ListNotations.
Local Open Scope Z_scope.

(* ------------------------------------------------------------------ bytes and C strings *)

(* the bytes before the first 0 *)
Fixpoint cstr (l : list Z) : list Z :=
  match l with
  | [] => []
  | c :: r => if c =? 0 then [] else c :: cstr r
  end.

Fixpoint list_eqb (a b : list Z) : bool :=
  match a, b with
  | [], [] => true
  | x :: a', y :: b' => (x =? y) && list_eqb a' b'
  | _, _ => false
  end.

Definition isgraph (c : Z) : bool := (33 <=? c) && (c <=? 126).
Definition isalnum (c : Z) : bool :=
  ((48 <=? c) && (c <=? 57)) || ((65 <=? c) && (c <=? 90)) || ((97 <=? c) && (c <=? 122)).

Definition CH_SPACE := 32.
Definition CH_PCT := 37.
Definition CH_LPAR := 40.
Definition CH_RPAR := 41.
Definition CH_PLUS := 43.
Definition CH_COMMA := 44.
Definition CH_MINUS := 45.
Definition CH_LBRACE := 123.
Definition CH_RBRACE := 125.

(* strtok_r over a whole string: maximal runs of non-delimiters, empty ones skipped *)
Fixpoint tokens_aux (delim : Z -> bool) (l cur : list Z) : list (list Z) :=
  match l with
  | [] => match cur with [] => [] | _ => [rev cur] end
  | c :: r =>
    if delim c then
      match cur with
      | [] => tokens_aux delim r []
      | _ => rev cur :: tokens_aux delim r []
      end
    else tokens_aux delim r (c :: cur)
  end.
Definition tokens (delim : Z -> bool) (l : list Z) : list (list Z) := tokens_aux delim l [].

(* ------------------------------------------------------------------ argument types *)

Inductive aty := U8 | U16 | U32 | U64 | I8 | I16 | I32 | I64 | STR.

Definition all_types : list aty := [U8; U16; U32; U64; I8; I16; I32; I64; STR].

Definition ty_size (t : aty) : nat :=
  match t with
  | U8 | I8 => 1 | U16 | I16 => 2 | U32 | I32 => 4 | U64 | I64 => 8 | STR => 0
  end%nat.

Definition ty_bits (t : aty) : Z :=
  match t with
  | U8 | I8 => 8 | U16 | I16 => 16 | U32 | I32 => 32 | U64 | I64 => 64 | STR => 0
  end.

Definition ty_signed (t : aty) : bool :=
  match t with I8 | I16 | I32 | I64 => true | _ => false end.

Definition ty_is_str (t : aty) : bool := match t with STR => true | _ => false end.

Definition ty_name (t : aty) : list Z :=
  match t with
  | U8 => [117; 56] | U16 => [117; 49; 54] | U32 => [117; 51; 50] | U64 => [117; 54; 52]
  | I8 => [105; 56] | I16 => [105; 49; 54] | I32 => [105; 51; 50] | I64 => [105; 54; 52]
  | STR => [115; 116; 114]
  end.

Definition parse_type (tok : list Z) : option aty :=
  find (fun t => list_eqb tok (ty_name t)) all_types.

(* ------------------------------------------------------------------ compile *)

Record arg := mkarg { a_name : list Z; a_type : aty; a_size : nat; a_off : nat }.
Record spec := mkspec { s_mcv : Z * Z * Z; s_jumbo : bool; s_args : list arg; s_psize : nat }.

Definition MAX_ARGS : nat := 16.
Definition NAME_BUF : nat := 64.
Definition SIG_BUF : nat := 256.

Definition parse_arg (tok : list Z) (off : nat) : option arg :=
  match tokens (fun c => c =? CH_SPACE) tok with
  | ty :: name :: _ =>
    if (NAME_BUF <=? length name)%nat then None
    else match parse_type ty with
         | None => None
         | Some t => Some (mkarg name t (ty_size t) off)
         end
  | _ => None
  end.

(* the loop of parse_args: n = nargs so far, off = payload_size so far *)
Fixpoint parse_args_from (toks : list (list Z)) (n off : nat) : option (list arg) :=
  match toks with
  | [] => Some []
  | t :: r =>
    if (MAX_ARGS <=? n)%nat then None
    else match parse_arg t off with
         | None => None
         | Some a =>
           match parse_args_from r (S n) (off + a_size a) with
           | None => None
           | Some l => Some (a :: l)
           end
         end
  end.

Definition sum_sizes (l : list arg) : nat := fold_right (fun a s => (a_size a + s)%nat) 0%nat l.

Definition compile (sig0 : list Z) : option spec :=
  let sig := cstr sig0 in
  if (SIG_BUF <=? length sig)%nat then None
  else match sig with
       | m :: c :: v :: rest =>
         if isgraph m && isgraph c && isgraph v then
           let jn := match rest with
                     | p :: r => if p =? CH_PLUS then (true, r) else (false, rest)
                     | [] => (false, rest)
                     end in
           let jumbo := fst jn in
           match snd jn with
           | [] => if jumbo then None else Some (mkspec (m, c, v) false [] 0)
           | p :: r =>
             if p =? CH_LPAR then
               let start := if jumbo then 4%nat else 0%nat in
               match parse_args_from (tokens (fun c => (c =? CH_COMMA) || (c =? CH_RPAR)) r) 0 start with
               | None => None
               | Some [] => None
               | Some args => Some (mkspec (m, c, v) jumbo args (start + sum_sizes args))
               end
             else None
           end
         else None
       | _ => None
       end.

Definition find_arg (sp : spec) (name : list Z) : option arg :=
  find (fun a => list_eqb (a_name a) name) (s_args sp).

(* ------------------------------------------------------------------ numbers as text *)

Definition digit_char (d : Z) : Z := if d <? 10 then 48 + d else 87 + d.

(* least significant digit first; [fuel] bounds the number of digits (base ^ fuel > n needed,
   see Proofs: digits_le_value) *)
Fixpoint digits_le (fuel : nat) (base n : Z) : list Z :=
  match fuel with
  | O => []
  | S f => digit_char (n mod base) :: (if n <? base then [] else digits_le f base (n / base))
  end.

Definition udec (n : Z) : list Z := rev (digits_le 20 10 n).
Definition uhex (n : Z) : list Z := rev (digits_le 16 16 n).
Definition sdec (z : Z) : list Z := if z <? 0 then CH_MINUS :: udec (- z) else udec z.
(* printf "%#llx" *)
Definition hexalt (u : Z) : list Z := if u =? 0 then [48] else 48 :: 120 :: uhex u.

(* ------------------------------------------------------------------ values, payload layout *)

Inductive value := VInt (z : Z) | VStr (s : list Z).

Fixpoint le_bytes (n : nat) (z : Z) : list Z :=
  match n with
  | O => []
  | S k => z mod 256 :: le_bytes k (z / 256)
  end.

Fixpoint le_val (bs : list Z) : Z :=
  match bs with
  | [] => 0
  | b :: r => b + 256 * le_val r
  end.

(* two's complement little endian; a string is its bytes and a final 0 *)
Definition enc_val (t : aty) (v : value) : list Z :=
  match t, v with
  | STR, VStr s => s ++ [0]
  | STR, VInt _ => [0]
  | _, VInt z => le_bytes (ty_size t) z
  | _, VStr _ => le_bytes (ty_size t) 0
  end.

Definition encode (l : list (aty * value)) : list Z :=
  flat_map (fun p => enc_val (fst p) (snd p)) l.

(* the payload emu_ev hands to ev_spec_print for an event of this spec carrying [vals]:
   none for an event without arguments; for a jumbo event the u32 size field comes first *)
Definition payload_of (sp : spec) (vals : list value) : option (list Z) :=
  match s_args sp with
  | [] => None
  | _ =>
    let data := encode (combine (map a_type (s_args sp)) vals) in
    Some ((if s_jumbo sp then le_bytes 4 (Z.of_nat (length data)) else []) ++ data)
  end.

Definition dec_int (t : aty) (bs : list Z) : Z :=
  let u := le_val bs in
  if ty_signed t && (2 ^ (ty_bits t - 1) <=? u) then u - 2 ^ ty_bits t else u.

(* what print_arg reads; None = one of its errors (argument outside the payload, string
   without end) *)
Definition decode_arg (a : arg) (p : list Z) : option value :=
  if (length p <? a_off a + a_size a)%nat then None
  else
    let tail := skipn (a_off a) p in
    match a_type a with
    | STR => if existsb (fun c => c =? 0) tail then Some (VStr (cstr tail)) else None
    | t => Some (VInt (dec_int t (firstn (a_size a) tail)))
    end.

Definition val_okb (t : aty) (v : value) : bool :=
  match t, v with
  | STR, VStr s => forallb (fun c => (1 <=? c) && (c <=? 255)) s
  | STR, VInt _ => false
  | _, VStr _ => false
  | _, VInt z =>
    if ty_signed t then (- 2 ^ (ty_bits t - 1) <=? z) && (z <? 2 ^ (ty_bits t - 1))
    else (0 <=? z) && (z <? 2 ^ ty_bits t)
  end.

(* a str argument, if any, is the last one *)
Fixpoint str_last (l : list arg) : bool :=
  match l with
  | [] => true
  | a :: r => match r with [] => true | _ => negb (ty_is_str (a_type a)) && str_last r end
  end.

(* ------------------------------------------------------------------ text of a value *)

Definition FMT_LLX : list Z := [35; 108; 108; 120].

(* fmt = None: the format inferred from the type *)
Definition show (fmt : option (list Z)) (v : value) : list Z :=
  match fmt, v with
  | None, VInt z => sdec z
  | None, VStr s => s
  | Some _, VInt z => hexalt (z mod 2 ^ 64)
  | Some _, VStr _ => []
  end.

Definition fmt_supported (fmt : option (list Z)) (a : arg) : bool :=
  match fmt with
  | None => true
  | Some f => list_eqb f FMT_LLX && match a_type a with U64 | I64 => true | _ => false end
  end.

(* ------------------------------------------------------------------ descriptions *)

Inductive piece := Lit (c : Z) | Pct | Arg (fmt : option (list Z)) (name : list Z).

Definition FMT_BUF : nat := 64.

(* parse_printf_format: [l] starts after the '%' ; ifmt = bytes already in fmt[] ; result =
   (format without the '%', input after the '{') *)
Fixpoint scan_fmt (l : list Z) (ifmt : nat) (acc : list Z) : option (list Z * list Z) :=
  match l with
  | [] => None
  | c :: r =>
    if c =? CH_LBRACE then Some (rev acc, r)
    else if (FMT_BUF - 1 <=? ifmt)%nat then None
    else scan_fmt r (S ifmt) (c :: acc)
  end.

(* parse_arg_name: [l] starts after the '{' ; result = (name, input after the '}') *)
Fixpoint scan_name (l : list Z) (iarg : nat) (acc : list Z) : option (list Z * list Z) :=
  match l with
  | [] => None
  | c :: r =>
    if c =? CH_RBRACE then Some (rev acc, r)
    else if negb (isalnum c) then None
    else if (NAME_BUF - 1 <=? iarg)%nat then None
    else scan_name r (S iarg) (c :: acc)
  end.

(* the syntax part of format_region: [l] starts after the initial '%' *)
Definition parse_region (l : list Z) : option (piece * list Z) :=
  match l with
  | [] => None
  | c :: r =>
    if c =? CH_PCT then Some (Pct, r)
    else
      match (if c =? CH_LBRACE then Some (None, r)
             else match scan_fmt l 1 [] with
                  | Some (f, r') => Some (Some f, r')
                  | None => None
                  end) with
      | None => None
      | Some (fmt, r1) =>
        match r1 with
        | [] => None
        | d :: _ =>
          if d =? CH_RBRACE then None
          else match scan_name r1 0 [] with
               | None => None
               | Some (nm, r2) => Some (Arg fmt nm, r2)
               end
        end
      end
  end.

(* ------------------------------------------------------------------ render (ev_spec_print) *)

Inductive outcome := Ok (text : list Z) | Err | Unsupported.

Definition prepend (t : list Z) (o : outcome) : outcome :=
  match o with Ok x => Ok (t ++ x) | e => e end.

Inductive pres := PErr | PUnsup | POk (text : list Z).

Definition print_arg (a : arg) (fmt : option (list Z)) (pl : option (list Z)) (len : Z) : pres :=
  match pl with
  | None => PErr
  | Some p =>
    match decode_arg a p with
    | None => PErr
    | Some v =>
      if fmt_supported fmt a then
        let t := show fmt v in
        if Z.of_nat (length t) <? len then POk t else PErr
      else PUnsup
    end
  end.

Inductive fres := FErr | FUnsup | FOk (text rest : list Z).

(* [r] starts after the '%' *)
Definition format_region (sp : spec) (pl : option (list Z)) (r : list Z) (len : Z) : fres :=
  match parse_region r with
  | None => FErr
  | Some (Pct, r') => FOk [CH_PCT] r'
  | Some (Lit _, _) => FErr
  | Some (Arg fmt nm, r') =>
    match find_arg sp nm with
    | None => FErr
    | Some a =>
      match print_arg a fmt pl len with
      | PErr => FErr
      | PUnsup => FUnsup
      | POk t => FOk t r'
      end
    end
  end.

(* the loop of ev_spec_print; fuel >= length inp is enough (each round consumes input);
   running out of fuel is reported as Unsupported, never as a text *)
Fixpoint render_loop (fuel : nat) (sp : spec) (pl : option (list Z)) (inp : list Z) (len : Z) : outcome :=
  match inp with
  | [] => Ok []
  | c :: r =>
    if len <=? 0 then Err
    else
      match fuel with
      | O => Unsupported
      | S f =>
        if c =? CH_PCT then
          match format_region sp pl r len with
          | FErr => Err
          | FUnsup => Unsupported
          | FOk t r' => prepend t (render_loop f sp pl r' (len - Z.of_nat (length t)))
          end
        else prepend [c] (render_loop f sp pl r (len - 1))
      end
  end.

Definition OUTLEN : Z := 1024.

Definition norm_payload (pl : option (list Z)) : option (list Z) :=
  match pl with Some [] => None | x => x end.

Definition render (sp : spec) (desc : list Z) (pl : option (list Z)) : outcome :=
  let d := cstr desc in
  render_loop (length d) sp (norm_payload pl) d (OUTLEN - 1).

(* what ovnidump prints after the stream path: the text, or UNKNOWN *)
Inductive dumped := DText (t : list Z) | DUnknown | DNoCompile | DUnsupported.

Definition dump (sig desc : list Z) (pl : option (list Z)) : dumped :=
  match compile sig with
  | None => DNoCompile
  | Some sp =>
    match render sp desc pl with
    | Ok t => DText t
    | Err => DUnknown
    | Unsupported => DUnsupported
    end
  end.

(* ------------------------------------------------------------------ specification side *)

Fixpoint parse_fuel (fuel : nat) (inp : list Z) : option (list piece) :=
  match inp with
  | [] => Some []
  | c :: r =>
    match fuel with
    | O => None
    | S f =>
      if c =? CH_PCT then
        match parse_region r with
        | None => None
        | Some (p, r') => option_map (cons p) (parse_fuel f r')
        end
      else option_map (cons (Lit c)) (parse_fuel f r)
    end
  end.

Definition parse (desc : list Z) : option (list piece) :=
  let d := cstr desc in parse_fuel (length d) d.

Definition piece_text (env : list Z -> option value) (p : piece) : list Z :=
  match p with
  | Lit c => [c]
  | Pct => [CH_PCT]
  | Arg f n => match env n with Some v => show f v | None => [] end
  end.

(* the description with the argument values substituted *)
Definition subst (ps : list piece) (env : list Z -> option value) : list Z :=
  flat_map (piece_text env) ps.

Fixpoint lookup (nm : list Z) (l : list (list Z * value)) : option value :=
  match l with
  | [] => None
  | (k, v) :: r => if list_eqb k nm then Some v else lookup nm r
  end.

Definition env_of (sp : spec) (vals : list value) : list Z -> option value :=
  fun nm => lookup nm (combine (map a_name (s_args sp)) vals).

(* every argument reference names a declared argument and uses a format the model knows *)
Definition supported (sp : spec) (ps : list piece) : bool :=
  forallb (fun p => match p with
                    | Arg f n => match find_arg sp n with Some a => fmt_supported f a | None => false end
                    | _ => true
                    end) ps.

Definition is_arg (p : piece) : bool := match p with Arg _ _ => true | _ => false end.

(* the room test of the code, piece by piece: a literal needs len >= 1, an argument of n
   characters needs n < len *)
Fixpoint fits (len : Z) (ps : list piece) (env : list Z -> option value) : bool :=
  match ps with
  | [] => true
  | p :: r =>
    let n := Z.of_nat (length (piece_text env p)) in
    (if is_arg p then n <? len else 1 <=? len) && fits (len - n) r env
  end.

(* the pieces up to and including the last argument reference ([] when there is none) *)
Fixpoint arg_prefix (ps : list piece) : list piece :=
  match ps with
  | [] => []
  | p :: r =>
    match arg_prefix r with
    | [] => if is_arg p then [p] else []
    | l => p :: l
    end
  end.

(* closed form of [fits]: the whole text has at most len characters and the text up to and
   including the last substituted argument has fewer than len *)
Definition fits_closed (len : Z) (ps : list piece) (env : list Z -> option value) : bool :=
  (Z.of_nat (length (subst ps env)) <=? len) &&
  match arg_prefix ps with
  | [] => true
  | l => Z.of_nat (length (subst l env)) <? len
  end.

(* ------------------------------------------------------------------ finite facts (deciders) *)

Definition fst3 (x : Z * Z * Z) : Z := fst (fst x).

(* one declaration (model id, signature, description): compiles, its model character is the
   model's, str only last, the description parses, refers only to declared arguments and uses
   only supported formats *)
Definition decl_ok (e : Z * list Z * list Z) : bool :=
  match e with
  | (m, sig, desc) =>
    match compile sig with
    | None => false
    | Some sp =>
      (fst3 (s_mcv sp) =? m) && str_last (s_args sp) &&
      match parse desc with
      | None => false
      | Some ps => supported sp ps
      end
    end
  end.

Definition decl_mcv (e : Z * list Z * list Z) : list Z := firstn 3 (cstr (snd (fst e))).

Fixpoint nodup_mcv (l : list (Z * list Z * list Z)) : bool :=
  match l with
  | [] => true
  | e :: r =>
    negb (existsb (fun e' => (fst (fst e) =? fst (fst e')) && list_eqb (decl_mcv e) (decl_mcv e')) r)
    && nodup_mcv r
  end.

Definition decls_ok (l : list (Z * list Z * list Z)) : bool := forallb decl_ok l && nodup_mcv l.

(* the specification applied to one declaration and one list of values (used by the check to
   cross-examine its own formatter): None = outside the theorem's hypotheses *)
Fixpoint vals_okb (ts : list aty) (vs : list value) : bool :=
  match ts, vs with
  | [], [] => true
  | t :: ts', v :: vs' => val_okb t v && vals_okb ts' vs'
  | _, _ => false
  end.

Definition spec_dump (sig desc : list Z) (vals : list value) : option (bool * list Z * option (list Z)) :=
  match compile sig with
  | None => None
  | Some sp =>
    if str_last (s_args sp) && vals_okb (map a_type (s_args sp)) vals then
      match parse desc with
      | None => None
      | Some ps =>
        if supported sp ps then
          Some (fits (OUTLEN - 1) ps (env_of sp vals), subst ps (env_of sp vals), payload_of sp vals)
        else None
      end
    else None
  end.

(* custom formats in use, for the evidence: every Arg with a format *)
Definition custom_formats (l : list (Z * list Z * list Z)) : list (list Z) :=
  flat_map (fun e => match parse (snd e) with
                     | Some ps => flat_map (fun p => match p with Arg (Some f) _ => [f] | _ => [] end) ps
                     | None => []
                     end) l.
