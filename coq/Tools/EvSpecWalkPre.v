(* Prelude of the generated file Gen/EvSpecWalk_gen.v (translate/units/evspec.py): the walk of src/emu/ev_spec.c over a
   description - advance_in, format_region, ev_spec_print.

   The state is the output cursor of Tools/EvSpecPre.v plus the input position (the rest of the description, a C string:
   `*c->in` is its head, 0 at the end) and the two local char buffers of format_region (fmt, argname).  The generated
   print_arg / advance_out (Gen/EvSpec_gen.v) are called through `lift`.

   Hand-written here (not translated):
     - parse_printf_format_c / parse_arg_name_c: what the two GENERATED loops parse_printf_format / parse_arg_name are proved
       equal to (Proofs/EvSpecWalkProofs.v), stated with scan_fmt / scan_name of Tools/EvSpecDefs.v; on success the input stands
       AT the '{' / '}' that ended the scan, as in the C; the loop `for (; *c->in != K; c->in++)` is a bounded fold with one
       accumulator, `b[i] = ch` a store into the caller's 64-byte buffer cell (E_OOB beyond it), isalnum the C-locale class;
     - ev_spec_find_arg is GENERATED (a counted search loop over spec->args with strcmp, proved equal to EvSpecDefs.find_arg);
       ev_spec_find_arg_c is kept as its specification;
     - snprintf(buf, N, "%s", type_fmt[type]) : the buffer receives the inferred format of the type (EvSpecPre.type_fmt);
     - `*c->out = ch` puts one byte at the cursor (it becomes the pending text); c->in += n drops n bytes of input (E_TRAP
       beyond the end); struct cursor c = { description, outbuf, len }: the input is the C string of the description, the
       output empty;
     - while ( *c.in != 0 ) body: at most one round per input byte plus one (each round of the C consumes input; running out
       of rounds is E_TRAP, never an answer).
   Definitions only; proofs in Proofs/EvSpecWalkProofs.v. *)
From Coq Require Import ZArith List Bool.
From OV Require Import Base.CInt Tools.EvSpecDefs Tools.EvSpecPre.
From OV Require Gen.EvSpec_gen.
Import ListNotations.
Local Open Scope Z_scope.

Definition cfmt := EvSpecPre.cfmt.

Record wstate := mkW { w_o : ostate; w_in : list Z; w_fmt : list Z; w_name : list Z }.

Definition W (A : Type) : Type := wstate -> ores (A * wstate).
Definition ret {A} (a : A) : W A := fun st => OOk (a, st).
Definition fail {A} (e : nat) : W A := fun _ => OErr e.
Definition bind {A B} (m : W A) (f : A -> W B) : W B :=
  fun st => match m st with OOk (a, st') => f a st' | OErr e => OErr e end.
Definition bind_ {A B} (m : W A) (k : W B) : W B := bind m (fun _ => k).
Definition ite {A} (c : bool) (a b : W A) : W A := if c then a else b.
Definition E_FAIL := EvSpecPre.E_FAIL.
Definition E_TRAP := EvSpecPre.E_TRAP.
Definition E_UNSUP := EvSpecPre.E_UNSUP.

Definition with_o (st : wstate) (o : ostate) : wstate := mkW o (w_in st) (w_fmt st) (w_name st).
Definition lift {A} (m : EvSpecPre.M A) : W A :=
  fun st => match m (w_o st) with OOk (a, o') => OOk (a, with_o st o') | OErr e => OErr e end.

Definition ptr_cursor := unit.
Definition ptr_out := unit.
Definition ptr_ev := EvSpecPre.ptr_ev.
Definition ptr_argw := option arg.
Record ptr_specw := mkSpecw { ws_spec : spec; ws_desc : list Z }.
Definition get_ev_spec_description (s : ptr_specw) : list Z := ws_desc s.
Definition dflt_arg : arg := mkarg [] U8 0 0.
Definition get_ev_arg_type (a : ptr_argw) : Z := ty_code (a_type (match a with Some x => x | None => dflt_arg end)).
Definition str_lit (l : list Z) : cfmt := l.

(* the cursor *)
Definition get_cursor_len (c : ptr_cursor) : W Z := lift (EvSpecPre.get_cursor_len c).
Definition get_cursor_in (c : ptr_cursor) : W Z := fun st => OOk (match w_in st with x :: _ => x | [] => 0 end, st).
Definition add_cursor_in (c : ptr_cursor) (n : Z) : W unit :=
  fun st => if (0 <=? n) && (n <=? Z.of_nat (length (w_in st)))
            then OOk (tt, mkW (w_o st) (skipn (Z.to_nat n) (w_in st)) (w_fmt st) (w_name st))
            else OErr E_TRAP.
Definition put_cursor_out (c : ptr_cursor) (ch : Z) : W unit :=
  lift (fun o => OOk (tt, mkO (o_buf o) [ch] (o_len o))).
Definition init_cursor (desc : list Z) (out : ptr_out) (len : Z) : W unit :=
  fun st => OOk (tt, mkW (mkO [] [] len) (cstr desc) (w_fmt st) (w_name st)).
Definition advance_out (c : ptr_cursor) (n : Z) : W unit := lift (EvSpec_gen.advance_out c n).

(* the buffers of format_region, in declaration order *)
Definition buf (k : nat) : nat := k.
Definition buf_get (b : nat) : W cfmt := fun st => OOk (match b with O => w_fmt st | _ => w_name st end, st).
Definition buf_set (st : wstate) (b : nat) (v : list Z) : wstate :=
  match b with O => mkW (w_o st) (w_in st) v (w_name st) | _ => mkW (w_o st) (w_in st) (w_fmt st) v end.
Definition with_in (st : wstate) (l : list Z) : wstate := mkW (w_o st) l (w_fmt st) (w_name st).

Definition parse_printf_format_c (b : nat) (buflen : Z) (c : ptr_cursor) : W Z :=
  fun st =>
    if negb (buflen =? Z.of_nat FMT_BUF) then OErr E_TRAP else
    match w_in st with
    | [] => OErr E_FAIL                                          (* "unexpected end of format" *)
    | c0 :: _ =>
      if c0 =? CH_LBRACE then OErr E_FAIL                        (* precondition *)
      else match scan_fmt (w_in st) 1 [] with
           | Some (f, r') => OOk (0, buf_set (with_in st (CH_LBRACE :: r')) b (CH_PCT :: f))
           | None => OErr E_FAIL
           end
    end.
Definition parse_arg_name_c (b : nat) (buflen : Z) (c : ptr_cursor) : W Z :=
  fun st =>
    if negb (buflen =? Z.of_nat NAME_BUF) then OErr E_TRAP else
    match w_in st with
    | [] => OErr E_FAIL
    | c0 :: _ =>
      if c0 =? CH_RBRACE then OErr E_FAIL
      else match scan_name (w_in st) 0 [] with
           | Some (nm, r') => OOk (0, buf_set (with_in st (CH_RBRACE :: r')) b nm)
           | None => OErr E_FAIL
           end
    end.
(* writing a caller's char buffer: the cell holds the bytes written so far (a C string once its NUL is written); a store at
   index i needs i <= what is there and i < 64 (the buffers of format_region are char[64]: beyond it E_OOB); storing NUL cuts *)
Definition BUF_CAP : Z := 64.
Definition buf_put (b : nat) (i ch : Z) : W unit :=
  fun st =>
    let cur := match b with O => w_fmt st | _ => w_name st end in
    if (0 <=? i) && (i <? BUF_CAP) && (i <=? Z.of_nat (length cur))
    then OOk (tt, buf_set st b (if ch =? 0 then firstn (Z.to_nat i) cur else firstn (Z.to_nat i) cur ++ [ch]))
    else OErr EvSpecPre.E_OOB.
Definition isalnum_c (ch : Z) : Z := b2z (isalnum ch).

(* for (; *c->in != stop; c->in++) body   with one accumulator; at most one round per input byte plus one *)
Fixpoint for_fuel (n : nat) (stop : Z) (body : Z -> W Z) (acc : Z) (st : wstate) : ores (Z * wstate) :=
  let ch := match w_in st with x :: _ => x | [] => 0 end in
  if ch =? stop then OOk (acc, st) else
  match n with
  | O => OErr E_TRAP
  | S k =>
    match body acc st with
    | OOk (acc', st') =>
      match add_cursor_in tt 1 st' with
      | OOk (_, st'') => for_fuel k stop body acc' st''
      | OErr e => OErr e
      end
    | OErr e => OErr e
    end
  end.
Definition for_in_until (c : ptr_cursor) (stop : Z) (acc : Z) (body : Z -> W Z) : W Z :=
  fun st => for_fuel (S (length (w_in st))) stop body acc st.

(* ev_spec_find_arg: the args array of the spec, strcmp, and the counted search loop *)
Definition get_ev_spec_nargs (s : ptr_specw) : Z := Z.of_nat (length (s_args (ws_spec s))).
Definition addr_ev_spec_args_at (s : ptr_specw) (i : Z) : ptr_argw :=
  if i <? 0 then None else nth_error (s_args (ws_spec s)) (Z.to_nat i).
Definition get_ev_arg_name (a : ptr_argw) : list Z := a_name (match a with Some x => x | None => dflt_arg end).
Fixpoint str_cmp (a b : list Z) : Z :=
  match a, b with
  | [], [] => 0
  | [], _ :: _ => -1
  | _ :: _, [] => 1
  | x :: a', y :: b' => if x <? y then -1 else if y <? x then 1 else str_cmp a' b'
  end.
Definition strcmp_c (a b : list Z) : Z := str_cmp a b.
(* for (i = lo; i < hi; i++) body  where body returns (Some r) or goes on; d after the loop *)
Fixpoint for_find_n {A} (n : nat) (i : Z) (f : Z -> option A) (d : A) : A :=
  match n with
  | O => d
  | S k => match f i with Some r => r | None => for_find_n k (i + 1) f d end
  end.
Definition for_find {A} (lo hi : Z) (f : Z -> option A) (d : A) : A := for_find_n (Z.to_nat (hi - lo)) lo f d.

Definition ev_spec_find_arg_c (s : ptr_specw) (b : nat) : W ptr_argw :=
  fun st => OOk (find_arg (ws_spec s) (match b with O => w_fmt st | _ => w_name st end), st).

Definition type_fmt_c (code : Z) : cfmt :=
  match find (fun t => ty_code t =? code) all_types with Some t => type_fmt t | None => [] end.
Definition snprintf_buf (b : nat) (size : Z) (fmt x : cfmt) : W Z :=
  fun st => if list_eqb fmt F_S then OOk (Z.of_nat (length x), buf_set st b (firstn (Z.to_nat (size - 1)) x)) else OErr E_UNSUP.

Definition print_arg (a : ptr_argw) (fmt : cfmt) (c : ptr_cursor) (ev : ptr_ev) : W Z :=
  match a with Some x => lift (EvSpec_gen.print_arg x fmt c ev) | None => fail E_TRAP end.

Fixpoint while_fuel (n : nat) (body : W unit) (st : wstate) : ores (unit * wstate) :=
  match w_in st with
  | [] => OOk (tt, st)
  | x :: _ =>
    if x =? 0 then OOk (tt, st) else
    match n with
    | O => OErr E_TRAP
    | S k => match body st with OOk (_, st') => while_fuel k body st' | OErr e => OErr e end
    end
  end.
Definition while_in (c : ptr_cursor) (body : W unit) : W unit := fun st => while_fuel (length (w_in st)) body st.
