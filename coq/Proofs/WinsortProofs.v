From Coq Require Import ZArith List Bool Sorted Permutation Lia.
From OV Require Import Tools.WinsortDefs.
Import ListNotations.
Local Open Scope Z_scope.

Lemma winsort_empty : forall n, winsort n [] = None.
Proof. reflexivity. Qed.
