(* C16 - proofs about the ovnisort model (Tools/WinsortDefs.v). *)
From Coq Require Import ZArith List Bool Sorted Permutation Lia Arith.
From OV Require Import Tools.WinsortDefs.
Import ListNotations.
Local Open Scope Z_scope.

(* ------------------------------------------------------------------------ *)
(* generic list facts                                                         *)
(* ------------------------------------------------------------------------ *)

Lemma firstn_len_app {A} (a b : list A) : firstn (length a) (a ++ b) = a.
Proof. induction a; cbn; [destruct b; reflexivity | now rewrite IHa]. Qed.

Lemma skipn_len_app {A} (a b : list A) : skipn (length a) (a ++ b) = b.
Proof. induction a; cbn; auto. Qed.

Lemma Forall_firstn' {A} (P : A -> Prop) n (l : list A) : Forall P l -> Forall P (firstn n l).
Proof.
  revert n; induction l; intros [|n] H; cbn; auto.
  inversion H; subst; constructor; auto.
Qed.

Lemma SS_app_inv {A} (R : A -> A -> Prop) (l1 l2 : list A) :
  StronglySorted R (l1 ++ l2) ->
  StronglySorted R l1 /\ StronglySorted R l2 /\ (forall a b, In a l1 -> In b l2 -> R a b).
Proof.
  induction l1; cbn; intros H.
  - repeat split; [constructor | assumption | intros ? ? []].
  - inversion H; subst. destruct (IHl1 H2) as (S1 & S2 & C).
    rewrite Forall_app in H3. destruct H3 as [F1 F2].
    repeat split; auto.
    + constructor; auto.
    + intros x y [<- | Hx] Hy; [rewrite Forall_forall in F2; auto | auto].
Qed.

Lemma SS_app {A} (R : A -> A -> Prop) (l1 l2 : list A) :
  StronglySorted R l1 -> StronglySorted R l2 -> (forall a b, In a l1 -> In b l2 -> R a b) ->
  StronglySorted R (l1 ++ l2).
Proof.
  induction l1; cbn; intros S1 S2 C; auto.
  inversion S1; subst. constructor.
  - apply IHl1; auto; intros; apply C; auto.
  - rewrite Forall_app; split; auto. rewrite Forall_forall; intros; apply C; auto.
Qed.

Lemma SS_rev {A} (R : A -> A -> Prop) (l : list A) :
  StronglySorted R l -> StronglySorted (fun a b => R b a) (rev l).
Proof.
  induction 1; cbn; [constructor|].
  apply SS_app; auto.
  - repeat constructor.
  - intros x y Hx [<- | []]. rewrite Forall_forall in H0. apply H0. now apply in_rev.
Qed.

Lemma filter_len_perm {A} (f : A -> bool) (l l' : list A) :
  Permutation l l' -> length (filter f l) = length (filter f l').
Proof.
  induction 1; cbn; auto.
  - destruct (f x); cbn; auto.
  - destruct (f x), (f y); cbn; auto.
  - congruence.
Qed.

Lemma filter_len_le {A} (f : A -> bool) (l : list A) : (length (filter f l) <= length l)%nat.
Proof. induction l; cbn; auto. destruct (f a); cbn; lia. Qed.

Lemma filter_all {A} (f : A -> bool) (l : list A) :
  Forall (fun x => f x = true) l -> filter f l = l.
Proof. induction 1; cbn; auto. rewrite H. now f_equal. Qed.

Lemma filter_firstn_len {A} (f : A -> bool) j (l : list A) :
  Forall (fun x => f x = true) (firstn j l) -> (length (firstn j l) <= length (filter f l))%nat.
Proof.
  intros H. rewrite <- (firstn_skipn j l) at 2. rewrite filter_app, app_length.
  rewrite (filter_all _ _ H). lia.
Qed.

(* ------------------------------------------------------------------------ *)
(* the stable insertion sort, for an arbitrary key                            *)
(* ------------------------------------------------------------------------ *)
Section Sort.
Variable key : ev -> Z.
Let kle (a b : ev) : Prop := key a <= key b.

Lemma ins_perm a l : Permutation (a :: l) (ins_by key a l).
Proof.
  induction l as [|b t IH]; cbn; auto.
  destruct (key a <=? key b); auto.
  eapply perm_trans; [apply perm_swap|]. now constructor.
Qed.

Lemma isort_perm l : Permutation l (isort_by key l).
Proof.
  induction l; cbn; auto.
  eapply perm_trans; [|apply ins_perm]. now constructor.
Qed.

Lemma ins_sorted a l : StronglySorted kle l -> StronglySorted kle (ins_by key a l).
Proof.
  induction 1 as [|b t St IH Fb]; cbn.
  - repeat constructor.
  - destruct (key a <=? key b) eqn:E.
    + constructor; [constructor; auto|].
      constructor; [unfold kle; lia|].
      eapply Forall_impl; [|exact Fb]. unfold kle; intros; lia.
    + constructor; auto.
      eapply Permutation_Forall; [apply ins_perm|].
      constructor; auto. unfold kle; lia.
Qed.

Lemma isort_sorted l : StronglySorted kle (isort_by key l).
Proof. induction l; cbn; [constructor | now apply ins_sorted]. Qed.

Lemma ins_low a l : Forall (kle a) l -> ins_by key a l = a :: l.
Proof.
  destruct l as [|b t]; cbn; auto. intros H; inversion H; subst.
  unfold kle in *. destruct (key a <=? key b) eqn:E; auto; lia.
Qed.

Lemma isort_id l : StronglySorted kle l -> isort_by key l = l.
Proof. induction 1; cbn; auto. rewrite IHStronglySorted. now apply ins_low. Qed.

Lemma ins_comm a b X : key b < key a ->
  ins_by key b (ins_by key a X) = ins_by key a (ins_by key b X).
Proof.
  intros Hba. induction X as [|x X IH]; cbn.
  - destruct (key b <=? key a) eqn:E1, (key a <=? key b) eqn:E2; auto; lia.
  - destruct (key a <=? key x) eqn:Eax, (key b <=? key x) eqn:Ebx; cbn;
      rewrite ?Eax, ?Ebx.
    + destruct (key b <=? key a) eqn:E1, (key a <=? key b) eqn:E2; auto; lia.
    + lia.
    + destruct (key a <=? key b) eqn:E2; [lia|]. reflexivity.
    + now rewrite IH.
Qed.

Lemma isort_ins_app a L B :
  isort_by key (ins_by key a L ++ B) = ins_by key a (isort_by key (L ++ B)).
Proof.
  induction L as [|b L IH]; cbn; auto.
  destruct (key a <=? key b) eqn:E; cbn; auto.
  rewrite IH. apply ins_comm. lia.
Qed.

Lemma isort_app_l A B : isort_by key (A ++ B) = isort_by key (isort_by key A ++ B).
Proof.
  induction A as [|a A IH]; cbn; auto.
  now rewrite isort_ins_app, <- IH.
Qed.

Lemma isort_app_low D X :
  StronglySorted kle D -> (forall d x, In d D -> In x X -> kle d x) ->
  isort_by key (D ++ X) = D ++ isort_by key X.
Proof.
  induction 1 as [|d D SD IH Fd]; cbn; intros C; auto.
  rewrite IH by (intros; apply C; auto).
  apply ins_low. rewrite Forall_app; split; auto.
  rewrite Forall_forall; intros x Hx. apply C; auto.
  eapply Permutation_in; [apply Permutation_sym, isort_perm | exact Hx].
Qed.

Lemma isort_snoc_max l e : (forall x, In x l -> kle x e) ->
  isort_by key (l ++ [e]) = isort_by key l ++ [e].
Proof.
  intros H. rewrite isort_app_l. rewrite isort_app_low; auto.
  - apply isort_sorted.
  - intros d x Hd [<- | []]. apply H.
    eapply Permutation_in; [apply Permutation_sym, isort_perm | exact Hd].
Qed.

Lemma ins_filter c a l :
  filter (fun e => key e =? c) (ins_by key a l) =
  if key a =? c then a :: filter (fun e => key e =? c) l else filter (fun e => key e =? c) l.
Proof.
  induction l as [|b t IH]; cbn; auto.
  destruct (key a <=? key b) eqn:E; cbn; auto.
  rewrite IH. destruct (key a =? c) eqn:Ea, (key b =? c) eqn:Eb; auto. lia.
Qed.

Lemma isort_filter c l :
  filter (fun e => key e =? c) (isort_by key l) = filter (fun e => key e =? c) l.
Proof. induction l; cbn; auto. rewrite ins_filter, IHl. reflexivity. Qed.

End Sort.

(* ------------------------------------------------------------------------ *)
(* instances: by clock (spec) and by int64 clock (cmp_ev)                     *)
(* ------------------------------------------------------------------------ *)

Definition allok (l : list ev) : Prop := Forall (fun e => clk_u64 e = true) l.
Definition ok64 (l : list ev) : Prop := Forall (fun e => clk_ok e = true) l.

Lemma pow63 : 2 ^ 63 = 9223372036854775808. Proof. reflexivity. Qed.
Lemma pow64 : 2 ^ 64 = 18446744073709551616. Proof. reflexivity. Qed.

Lemma clk_ok_range e : clk_ok e = true -> 0 <= clock e < 2 ^ 63.
Proof. unfold clk_ok. rewrite pow63. lia. Qed.

Lemma clk_u64_range e : clk_u64 e = true -> 0 <= clock e < 2 ^ 64.
Proof. unfold clk_u64. rewrite pow64. lia. Qed.

Lemma skey_ok e : clk_ok e = true -> skey e = clock e.
Proof.
  intros H. apply clk_ok_range in H. unfold skey, to_int64.
  destruct (clock e <? 2 ^ 63) eqn:E; auto. rewrite pow63 in *. lia.
Qed.

Lemma allok_perm l l' : Permutation l l' -> allok l -> allok l'.
Proof. intros. eapply Permutation_Forall; eauto. Qed.

Lemma ssort_sorted l : sorted (ssort l).
Proof. apply (isort_sorted clock). Qed.

Lemma ssort_perm l : Permutation l (ssort l).
Proof. apply isort_perm. Qed.

Lemma ssort_id l : sorted l -> ssort l = l.
Proof. apply (isort_id clock). Qed.

Lemma ssort_stable l : stable l (ssort l).
Proof. intros c. apply (isort_filter clock). Qed.

Lemma ssort_in x l : In x (ssort l) <-> In x l.
Proof.
  split; intros H.
  - eapply Permutation_in; [apply Permutation_sym, ssort_perm | exact H].
  - eapply Permutation_in; [apply ssort_perm | exact H].
Qed.

Lemma ssort_snoc l e : (forall x, In x l -> clock x <= clock e) -> ssort (l ++ [e]) = ssort l ++ [e].
Proof. apply (isort_snoc_max clock). Qed.

Lemma ssort_app_l A B : ssort (A ++ B) = ssort (ssort A ++ B).
Proof. apply (isort_app_l clock). Qed.

Lemma ssort_app_low D X : sorted D -> (forall d x, In d D -> In x X -> clock d <= clock x) ->
  ssort (D ++ X) = D ++ ssort X.
Proof. apply (isort_app_low clock). Qed.

Lemma ssort_length l : length (ssort l) = length l.
Proof. symmetry. apply Permutation_length, ssort_perm. Qed.

(* ------------------------------------------------------------------------ *)
(* pieces of the model                                                        *)
(* ------------------------------------------------------------------------ *)

Lemma min_fold_le t : forall acc,
  let m := fold_left (fun m e => if clock e <? m then clock e else m) t acc in
  m <= acc /\ Forall (fun e => m <= clock e) t.
Proof.
  induction t as [|a t IH]; intros acc; cbn.
  - split; [lia | constructor].
  - destruct (IH (if clock a <? acc then clock a else acc)) as [H1 H2].
    destruct (clock a <? acc) eqn:E; split; try lia; constructor; auto; lia.
Qed.

Lemma min_clock_le l : Forall (fun e => min_clock l <= clock e) l.
Proof.
  destruct l as [|a t]; cbn; [constructor|].
  destruct (min_fold_le t (clock a)) as [H1 H2]. constructor; auto.
Qed.

Lemma min_fold_in t : forall acc,
  let m := fold_left (fun m e => if clock e <? m then clock e else m) t acc in
  m = acc \/ exists e, In e t /\ clock e = m.
Proof.
  induction t as [|a t IH]; intros acc; cbn; auto.
  destruct (IH (if clock a <? acc then clock a else acc)) as [H | (e & He & Hm)].
  - destruct (clock a <? acc); [right; exists a; auto | left; auto].
  - right; exists e; auto.
Qed.

Lemma min_clock_in l : l <> [] -> exists e, In e l /\ clock e = min_clock l.
Proof.
  destruct l as [|a t]; [congruence|]. intros _. cbn.
  destruct (min_fold_in t (clock a)) as [H | (e & He & Hm)].
  - exists a; split; auto.
  - exists e; split; auto.
Qed.

Lemma find_lower_some m l : forall i j, find_lower m l i = Some j ->
  exists A d B, l = A ++ d :: B /\ j = (i + length A)%nat /\
                Forall (fun e => m <= clock e) A /\ clock d < m.
Proof.
  induction l as [|e t IH]; cbn; intros i j H; [discriminate|].
  destruct (clock e <? m) eqn:E.
  - inversion H; subst. exists [], e, t. cbn. repeat split; auto; lia.
  - destruct (IH _ _ H) as (A & d & B & -> & -> & FA & Hd).
    exists (e :: A), d, B. cbn. repeat split; auto; try lia. constructor; auto; lia.
Qed.

Lemma find_lower_none m l : forall i, find_lower m l i = None -> Forall (fun e => m <= clock e) l.
Proof.
  induction l as [|e t IH]; cbn; intros i H; [constructor|].
  destruct (clock e <? m) eqn:E; [discriminate|]. constructor; [lia | eauto].
Qed.

Lemma find_lower_all_ge m l : forall i, Forall (fun e => m <= clock e) l -> find_lower m l i = None.
Proof.
  induction l as [|e t IH]; cbn; intros i H; auto.
  inversion H; subst. destruct (clock e <? m) eqn:E; [lia | auto].
Qed.

(* a list that starts with elements satisfying P, followed by one that does not *)
Lemma split_at_first_bad (P : ev -> Prop) X : forall A d B Y,
  Forall P X -> Forall P A -> ~ P d -> A ++ d :: B = X ++ Y ->
  exists A', A = X ++ A'.
Proof.
  induction X as [|x X IH]; intros A d B Y FX FA Hd E; cbn in *.
  - exists A; auto.
  - inversion FX; subst. destruct A as [|a A]; cbn in E.
    + inversion E; subst. contradiction.
    + inversion E; subst. inversion FA; subst.
      match goal with HE : A ++ d :: B = X ++ Y, HA : Forall P A |- _ =>
        destruct (IH _ _ _ _ H2 HA Hd HE) as (A' & ->) end.
      exists A'; auto.
Qed.

Lemma sorted_from_true lo l : sorted l -> Forall (fun e => lo <= clock e) l -> sorted_from lo l = true.
Proof.
  intros S; revert lo. induction S as [|a t St IH Fa]; cbn; intros lo F; auto.
  inversion F; subst. destruct (clock a <? lo) eqn:E; [lia|]. apply IH. exact Fa.
Qed.

Lemma sorted_from_sound l : forall lo, sorted_from lo l = true ->
  Forall (fun e => lo <= clock e) l /\ sorted l.
Proof.
  induction l as [|a t IH]; cbn; intros lo H; [split; constructor|].
  destruct (clock a <? lo) eqn:E; [discriminate|].
  destruct (IH _ H) as [F S]. split.
  - constructor; [lia|]. eapply Forall_impl; [|exact F]. cbn; intros; lia.
  - constructor; auto.
Qed.

Lemma loader_from_true lo l : sorted l -> ok64 l -> Forall (fun e => lo <= clock e) l -> loader_from lo l = true.
Proof.
  intros S; revert lo. induction S as [|a t St IH Fa]; cbn; intros lo Ok F; auto.
  inversion F; inversion Ok; subst. rewrite (skey_ok a) by auto.
  destruct (clock a <? lo) eqn:E; [lia|]. apply IH; auto.
Qed.

Lemma allok_nonneg l : allok l -> Forall (fun e => 0 <= clock e) l.
Proof. intros H; eapply Forall_impl; [|exact H]. intros e He. apply clk_u64_range in He. lia. Qed.

Lemma ok64_nonneg l : ok64 l -> Forall (fun e => 0 <= clock e) l.
Proof. intros H; eapply Forall_impl; [|exact H]. intros e He. apply clk_ok_range in He. lia. Qed.

(* elements not below m form a prefix of a non-increasing list *)
Lemma desc_prefix m R : StronglySorted (fun a b => clock b <= clock a) R ->
  Forall (fun e => m <= clock e) (firstn (length (filter (fun e => m <=? clock e) R)) R).
Proof.
  induction 1 as [|a t St IH Fa]; cbn; [constructor|].
  destruct (m <=? clock a) eqn:E; cbn.
  - constructor; [lia | exact IH].
  - assert (Z0 : filter (fun e => m <=? clock e) t = []).
    { clear IH St. induction Fa as [|b t' Hb Ft IHt]; cbn; auto.
      destruct (m <=? clock b) eqn:Eb; [lia | auto]. }
    rewrite Z0. cbn. constructor.
Qed.

(* ------------------------------------------------------------------------ *)
(* execute_sort_plan on a region whose look-back condition holds              *)
(* ------------------------------------------------------------------------ *)

Lemma ring_check_ssort l : allok l -> ring_check (ssort l) = true.
Proof.
  intros Ok. apply sorted_from_true; [apply ssort_sorted|].
  apply allok_nonneg. eapply allok_perm; [apply ssort_perm | exact Ok].
Qed.

Section Region.
Variables (n : nat) (before : list ev) (s : ev) (rb : list ev).
Hypothesis Hne : rb <> [].
Hypothesis Okb : allok before.
Hypothesis Oks : allok (s :: rb).
Hypothesis Fb : Forall (fun x => clock x <= clock s) before.

Let D' := ssort before ++ [s].
Let m := min_clock (rev rb).

Local Lemma HD'0 : ssort (before ++ [s]) = D'.
Proof. apply ssort_snoc. rewrite Forall_forall in Fb. auto. Qed.

Local Lemma SD' : sorted D'.
Proof. rewrite <- HD'0. apply ssort_sorted. Qed.

Local Lemma Hrd : rb ++ s :: rev (ssort before) = rb ++ rev D'.
Proof. unfold D'. rewrite rev_unit. reflexivity. Qed.

Local Lemma Okrb : allok rb. Proof. inversion Oks; auto. Qed.
Local Lemma OkD' : allok D'.
Proof.
  rewrite <- HD'0. eapply allok_perm; [apply ssort_perm|].
  apply Forall_app; split; auto. inversion Oks; auto.
Qed.

Local Lemma Goal' : ssort (before ++ s :: rev rb) = ssort (D' ++ rev rb).
Proof.
  replace (before ++ s :: rev rb) with ((before ++ [s]) ++ rev rb)
    by (rewrite <- app_assoc; reflexivity).
  rewrite ssort_app_l, HD'0. reflexivity.
Qed.

Local Lemma Hm : Forall (fun e => m <= clock e) rb.
Proof.
  pose proof (min_clock_le (rev rb)) as H. fold m in H.
  rewrite Forall_forall in *. intros x Hx. apply H. now apply -> in_rev.
Qed.

Local Lemma len_filter_D' :
  length (filter (fun e => m <=? clock e) (before ++ [s])) = length (filter (fun e => m <=? clock e) (rev D')).
Proof.
  apply filter_len_perm. rewrite <- HD'0.
  eapply perm_trans; [apply ssort_perm | apply Permutation_rev].
Qed.

Lemma exec_plan_ok :
  lookback_ok n (before ++ [s]) (rev rb) = true ->
  exec_plan n (length rb) (rb ++ s :: rev (ssort before)) = Some (rev (ssort (before ++ s :: rev rb))).
Proof.
  intros LB. rewrite Hrd, Goal'.
  unfold lookback_ok in LB. fold m in LB. rewrite rev_length, len_filter_D' in LB.
  apply Nat.leb_le in LB.
  unfold exec_plan, exec_plan_r. rewrite firstn_len_app. fold m.
  unfold find_destination.
  destruct (find_lower m (firstn (n - 1) (rb ++ rev D')) 0) as [nb|] eqn:FL.
  - apply find_lower_some in FL. destruct FL as (A & d & B & HA & -> & FA & Hd). cbn [Nat.add].
    set (B' := B ++ skipn (n - 1) (rb ++ rev D')).
    assert (Hrd2 : rb ++ rev D' = A ++ d :: B').
    { rewrite <- (firstn_skipn (n - 1) (rb ++ rev D')) at 1. rewrite HA, <- app_assoc. reflexivity. }
    destruct (split_at_first_bad (fun e => m <= clock e) rb A d B' (rev D')) as (A' & ->);
      auto using Hm; [lia|].
    rewrite Hrd2.
    replace (S (length (rb ++ A'))) with (length ((rb ++ A') ++ [d])) by (rewrite !app_length; cbn; lia).
    replace ((rb ++ A') ++ d :: B') with (((rb ++ A') ++ [d]) ++ B') by (rewrite <- !app_assoc; reflexivity).
    rewrite firstn_len_app, skipn_len_app.
    assert (HR : rev D' = A' ++ d :: B').
    { rewrite <- app_assoc in Hrd2. now apply app_inv_head in Hrd2. }
    assert (HDD : D' = rev B' ++ d :: rev A').
    { rewrite <- (rev_involutive D'), HR, rev_app_distr. cbn. rewrite <- app_assoc. reflexivity. }
    set (win := rev ((rb ++ A') ++ [d])).
    assert (Hwin : win = d :: rev A' ++ rev rb).
    { unfold win. rewrite rev_unit, rev_app_distr. reflexivity. }
    assert (Okwin : allok win).
    { rewrite Hwin. pose proof OkD' as O. rewrite HDD in O. apply Forall_app in O. destruct O as [_ O].
      inversion O; subst. constructor; auto. apply Forall_app; split; auto.
      eapply allok_perm; [apply Permutation_rev | apply Okrb]. }
    change (isort_by clock win) with (ssort win). rewrite (ring_check_ssort win Okwin).
    f_equal.
    assert (E : D' ++ rev rb = rev B' ++ win).
    { rewrite HDD, Hwin, <- app_assoc. reflexivity. }
    rewrite E. pose proof SD' as S. rewrite HDD in S. apply SS_app_inv in S. destruct S as (S1 & S2 & C).
    rewrite ssort_app_low; auto.
    + rewrite rev_app_distr, rev_involutive. reflexivity.
    + intros x y Hx Hy. rewrite Hwin in Hy.
      change (d :: rev A' ++ rev rb) with ((d :: rev A') ++ rev rb) in Hy.
      apply in_app_or in Hy. destruct Hy as [Hy | Hy]; [apply C; auto|].
      assert (clock x <= clock d) by (apply C; cbn; auto).
      pose proof Hm as M. rewrite Forall_forall in M. apply in_rev in Hy. specialize (M _ Hy). lia.
  - (* no older event in the ring: it must not be full *)
    apply find_lower_none in FL.
    set (ring := firstn (n - 1) (rb ++ rev D')) in *.
    assert (Hlt : (length ring < n - 1)%nat).
    { destruct (Nat.lt_ge_cases (length ring) (n - 1)) as [|Hge]; auto. exfalso.
      assert (Hlen : (n - 1 <= length (rb ++ rev D'))%nat).
      { unfold ring in Hge. rewrite firstn_length in Hge. lia. }
      unfold ring in FL. rewrite firstn_app in FL. apply Forall_app in FL. destruct FL as [_ FL].
      assert (FL' : Forall (fun x => (m <=? clock x) = true) (firstn (n - 1 - length rb) (rev D'))).
      { eapply Forall_impl; [|exact FL]. cbn; intros; lia. }
      apply filter_firstn_len in FL'. rewrite firstn_length in FL'.
      rewrite app_length in Hlen. lia. }
    apply Nat.ltb_lt in Hlt. rewrite Hlt. apply Nat.ltb_lt in Hlt.
    assert (Hall : ring = rb ++ rev D').
    { unfold ring in *. apply firstn_all2. rewrite firstn_length in Hlt. lia. }
    rewrite Hall, firstn_all, skipn_all, app_nil_r.
    assert (Hwin : rev (rb ++ rev D') = D' ++ rev rb) by (rewrite rev_app_distr, rev_involutive; reflexivity).
    rewrite Hwin.
    assert (Okwin : allok (D' ++ rev rb)).
    { apply Forall_app; split; [apply OkD'|]. eapply allok_perm; [apply Permutation_rev | apply Okrb]. }
    change (isort_by clock (D' ++ rev rb)) with (ssort (D' ++ rev rb)).
    rewrite (ring_check_ssort _ Okwin). reflexivity.
Qed.

(* ... and on a region whose look-back condition does not hold *)
Lemma exec_plan_fails :
  lookback_ok n (before ++ [s]) (rev rb) = false ->
  exec_plan n (length rb) (rb ++ s :: rev (ssort before)) = None.
Proof.
  intros LB. rewrite Hrd.
  unfold lookback_ok in LB. fold m in LB. rewrite rev_length, len_filter_D' in LB.
  apply Nat.leb_gt in LB.
  unfold exec_plan, exec_plan_r. rewrite firstn_len_app. fold m.
  unfold find_destination.
  set (c := length (filter (fun e => m <=? clock e) (rev D'))) in *.
  assert (Hpre : Forall (fun e => m <= clock e) (firstn (length rb + c) (rb ++ rev D'))).
  { rewrite firstn_app. apply Forall_app; split.
    - apply Forall_firstn', Hm.
    - replace (length rb + c - length rb)%nat with c by lia.
      apply desc_prefix. apply (SS_rev _ _ SD'). }
  assert (Hring : Forall (fun e => m <= clock e) (firstn (n - 1) (rb ++ rev D'))).
  { replace (n - 1)%nat with (Nat.min (n - 1) (length rb + c)) by lia.
    rewrite <- firstn_firstn. apply Forall_firstn', Hpre. }
  rewrite (find_lower_all_ge _ _ 0%nat Hring).
  assert (Hc : (c <= length (rev D'))%nat) by apply filter_len_le.
  assert (Hlen : length (firstn (n - 1) (rb ++ rev D')) = (n - 1)%nat).
  { rewrite firstn_length, app_length. lia. }
  rewrite Hlen, Nat.ltb_irrefl. reflexivity.
Qed.

End Region.

(* ------------------------------------------------------------------------ *)
(* simulation: spec scanner state  ~  model state                             *)
(* ------------------------------------------------------------------------ *)

Definition flat (p : pstate) : list ev :=
  p_before p ++ match p_mode p with PS => [] | PR s rb => s :: rev rb end.

Definition sim (p : pstate) (w : wstate) : Prop :=
  allok (p_before p) /\
  Forall (fun x => clock x <= p_last p) (p_before p) /\
  match p_mode p with
  | PS => w_st w = WS /\ w_rd w = rev (ssort (p_before p))
  | PR s rb =>
      allok (s :: rb) /\ clock s = p_last p /\
      w_rd w = rb ++ s :: rev (ssort (p_before p)) /\
      w_st w = match rb with [] => WU | _ => WX (length rb) end
  end.

Lemma sim_init : sim pinit winit.
Proof. repeat split; constructor. Qed.

Lemma rev_ssort_snoc l e : (forall x, In x l -> clock x <= clock e) ->
  rev (ssort (l ++ [e])) = e :: rev (ssort l).
Proof. intros H. rewrite ssort_snoc by auto. apply rev_unit. Qed.

Lemma Forall_le_trans (l : list ev) a b : a <= b ->
  Forall (fun x => clock x <= a) l -> Forall (fun x => clock x <= b) l.
Proof. intros H F. eapply Forall_impl; [|exact F]. cbn; intros; lia. Qed.

Lemma pstep_flat n p e p' : pstep n p e = Some p' -> flat p' = flat p ++ [e].
Proof.
  unfold pstep, flat. destruct (negb (clk_u64 e)); [discriminate|].
  destruct p as [bef last mode]; cbn. destruct mode as [|s rb].
  - destruct (last <=? clock e); [|discriminate].
    destruct (starts_unsorted_region e); intros H; inversion H; subst; cbn.
    + rewrite app_nil_r. reflexivity.
    + rewrite !app_nil_r. reflexivity.
  - destruct (ends_unsorted_region e).
    + match goal with |- (if ?c then _ else _) = _ -> _ => destruct c end; [|discriminate].
      intros H; inversion H; subst; cbn. rewrite app_nil_r, <- app_assoc. cbn.
      reflexivity.
    + intros H; inversion H; subst; cbn. rewrite <- !app_assoc. cbn. reflexivity.
Qed.

Lemma prun_flat n l : forall p p', prun n p l = Some p' -> flat p' = flat p ++ l.
Proof.
  induction l as [|e t IH]; cbn; intros p p' H.
  - inversion H; subst. now rewrite app_nil_r.
  - destruct (pstep n p e) as [p1|] eqn:E; [|discriminate].
    rewrite (IH _ _ H), (pstep_flat _ _ _ _ E), <- app_assoc. reflexivity.
Qed.

Ltac sim_goal := unfold sim; cbn [p_before p_last p_mode w_st w_rd].

Lemma sim_step n p w e p' : sim p w -> pstep n p e = Some p' ->
  exists w', wstep n w e = Some w' /\ sim p' w'.
Proof.
  intros (Okb & Fb & M) H. unfold pstep in H.
  destruct (clk_u64 e) eqn:Oke; cbn [negb] in H; [|discriminate].
  destruct p as [bef last mode]; cbn [p_before p_last p_mode] in *. destruct mode as [|s rb].
  - destruct M as [Wst Wrd].
    destruct (last <=? clock e) eqn:Ele; [|discriminate].
    assert (Fb' : Forall (fun x => clock x <= clock e) bef) by (eapply Forall_le_trans; [|exact Fb]; lia).
    unfold wstep. rewrite Wst.
    destruct (starts_unsorted_region e); inversion H; clear H; subst p'.
    + eexists; split; [reflexivity|]. sim_goal.
      refine (conj Okb (conj Fb' (conj _ (conj eq_refl (conj _ eq_refl))))).
      * repeat constructor; auto.
      * rewrite Wrd. reflexivity.
    + eexists; split; [reflexivity|]. sim_goal.
      refine (conj _ (conj _ (conj eq_refl _))).
      * apply Forall_app; split; auto; repeat constructor; auto.
      * apply Forall_app; split; auto; constructor; [lia | constructor].
      * rewrite Wrd. symmetry. apply rev_ssort_snoc. rewrite Forall_forall in Fb'. auto.
  - destruct M as (Oks & Hs & Wrd & Wst).
    unfold wstep. destruct (ends_unsorted_region e) eqn:Eend.
    + match type of H with (if ?c then _ else _) = _ => destruct c eqn:Cnd end; [|discriminate].
      inversion H; clear H; subst p'.
      apply andb_prop in Cnd. destruct Cnd as [Cnd LB]. apply andb_prop in Cnd. destruct Cnd as [Ele Fle].
      rewrite forallb_forall in Fle.
      assert (Hall : forall x, In x (bef ++ s :: rev rb) -> clock x <= clock e).
      { intros x Hx. apply in_app_or in Hx. destruct Hx as [Hx | [<- | Hx]].
        - rewrite Forall_forall in Fb. specialize (Fb _ Hx). lia.
        - lia.
        - apply in_rev in Hx. specialize (Fle _ Hx). lia. }
      assert (Hfin : allok (bef ++ s :: rev rb ++ [e])).
      { apply Forall_app; split; auto. inversion Oks; subst. constructor; auto.
        apply Forall_app; split; [|repeat constructor; auto].
        eapply allok_perm; [apply Permutation_rev | auto]. }
      assert (Hle : Forall (fun x => clock x <= clock e) (bef ++ s :: rev rb ++ [e])).
      { replace (bef ++ s :: rev rb ++ [e]) with ((bef ++ s :: rev rb) ++ [e])
          by (rewrite <- app_assoc; reflexivity).
        apply Forall_app; split; [rewrite Forall_forall; auto | constructor; [lia | constructor]]. }
      assert (Hrev : rev (ssort (bef ++ s :: rev rb ++ [e])) = e :: rev (ssort (bef ++ s :: rev rb))).
      { replace (bef ++ s :: rev rb ++ [e]) with ((bef ++ s :: rev rb) ++ [e])
          by (rewrite <- app_assoc; reflexivity).
        apply rev_ssort_snoc; auto. }
      destruct rb as [|b rb'].
      * rewrite Wst. eexists; split; [reflexivity|]. sim_goal.
        refine (conj Hfin (conj Hle (conj eq_refl _))).
        rewrite Hrev, Wrd. cbn [rev app]. f_equal.
        change (bef ++ [s]) with (bef ++ [s]).
        rewrite rev_ssort_snoc; auto. rewrite Forall_forall in Fb. intros; rewrite Hs; auto.
      * rewrite Wst, Wrd.
        rewrite (exec_plan_ok n bef s (b :: rb')); auto.
        -- eexists; split; [reflexivity|]. sim_goal.
           refine (conj Hfin (conj Hle (conj eq_refl _))). rewrite Hrev. reflexivity.
        -- rewrite Hs; auto.
    + inversion H; clear H; subst p'. destruct rb as [|b rb'].
      * rewrite Wst. eexists; split; [reflexivity|]. sim_goal.
        refine (conj Okb (conj Fb (conj _ (conj Hs (conj _ eq_refl))))).
        -- inversion Oks; subst. repeat constructor; auto.
        -- rewrite Wrd. reflexivity.
      * rewrite Wst. eexists; split; [reflexivity|]. sim_goal.
        refine (conj Okb (conj Fb (conj _ (conj Hs (conj _ eq_refl))))).
        -- inversion Oks; subst. constructor; auto.
        -- rewrite Wrd. reflexivity.
Qed.

Lemma sim_run n l : forall p w p', sim p w -> prun n p l = Some p' ->
  exists w', wrun n w l = Some w' /\ sim p' w'.
Proof.
  induction l as [|e t IH]; cbn; intros p w p' S H.
  - inversion H; subst. eauto.
  - destruct (pstep n p e) as [p1|] eqn:E; [|discriminate].
    destruct (sim_step _ _ _ _ _ S E) as (w1 & -> & S1). eauto.
Qed.

Lemma wrun_app n a : forall w b,
  wrun n w (a ++ b) = match wrun n w a with None => None | Some w' => wrun n w' b end.
Proof.
  induction a as [|e t IH]; cbn; intros w b; auto.
  destruct (wstep n w e); auto.
Qed.

(* ------------------------------------------------------------------------ *)
(* main result: under the precondition the tool computes THE stable sort      *)
(* ------------------------------------------------------------------------ *)

Theorem winsort_is_ssort n evs : pre n evs -> winsort n evs = Some (ssort evs).
Proof.
  unfold pre, preb. intros P.
  destruct (prun n pinit evs) as [p|] eqn:R; [|discriminate].
  destruct (p_mode p) eqn:Md; [|discriminate].
  destruct (sim_run _ _ _ _ _ sim_init R) as (w & Hw & (_ & _ & M)).
  rewrite Md in M. destruct M as [_ Wrd].
  pose proof (prun_flat _ _ _ _ R) as Fl. unfold flat in Fl. rewrite Md in Fl. cbn in Fl.
  rewrite app_nil_r in Fl.
  unfold winsort. destruct evs as [|e t]; [reflexivity|].
  rewrite Hw, Wrd, rev_involutive, Fl. reflexivity.
Qed.

Lemma pre_allok n evs : pre n evs -> allok evs.
Proof.
  unfold pre, preb. intros P.
  destruct (prun n pinit evs) as [p|] eqn:R; [|discriminate].
  destruct (p_mode p) eqn:Md; [|discriminate].
  destruct (sim_run _ _ _ _ _ sim_init R) as (w & Hw & (Ok & _ & M)).
  pose proof (prun_flat _ _ _ _ R) as Fl. unfold flat in Fl. rewrite Md in Fl. cbn in Fl.
  rewrite app_nil_r in Fl. now rewrite <- Fl.
Qed.

(* ------------------------------------------------------------------------ *)
(* postconditions, stated without reference to [ssort]                        *)
(* ------------------------------------------------------------------------ *)

Lemma total_size_perm l l' : Permutation l l' -> total_size l = total_size l'.
Proof. unfold total_size. induction 1; cbn in *; lia. Qed.

Lemma ssort_prefix_untouched l : prefix_untouched l (ssort l).
Proof.
  intros A B -> SA C. exists (ssort B). split.
  - apply ssort_app_low; auto.
  - apply ssort_length.
Qed.

Lemma check_mode_sorted l : sorted l -> check_mode l = true.
Proof.
  destruct l as [|a t]; [reflexivity|]. intros S. inversion S; subst. cbn.
  apply sorted_from_true; auto.
Qed.

Lemma check_mode_sound l : check_mode l = true -> sorted l.
Proof.
  destruct l as [|a t]; cbn; [constructor|]. intros H.
  destruct (sorted_from_sound _ _ H) as [F S]. constructor; auto.
Qed.

Lemma loader_accepts_sorted l : sorted l -> ok64 l -> loader_accepts l = true.
Proof. intros S Ok. apply loader_from_true; auto. now apply ok64_nonneg. Qed.

Theorem winsort_succeeds n evs : pre n evs -> exists out, winsort n evs = Some out.
Proof. intros P. eexists. apply winsort_is_ssort; auto. Qed.

Theorem winsort_post n evs out : pre n evs -> winsort n evs = Some out ->
  Permutation evs out /\ sorted out /\ stable evs out /\ prefix_untouched evs out /\
  length out = length evs /\ total_size out = total_size evs /\
  check_mode out = true /\ (ok64 evs -> loader_accepts out = true).
Proof.
  intros P H. rewrite (winsort_is_ssort _ _ P) in H. inversion H; subst out; clear H.
  repeat split.
  - apply ssort_perm.
  - apply ssort_sorted.
  - apply ssort_stable.
  - apply ssort_prefix_untouched.
  - apply ssort_length.
  - symmetry. apply total_size_perm, ssort_perm.
  - apply check_mode_sorted, ssort_sorted.
  - intros O. apply loader_accepts_sorted; [apply ssort_sorted|].
    eapply Permutation_Forall; [apply ssort_perm | exact O].
Qed.

(* two outputs satisfying the postconditions are equal: the specification
   determines the output (so the model output is THE answer, not one of many) *)
Lemma sorted_stable_unique l1 : forall l2, sorted l1 -> sorted l2 ->
  (forall c, filter (fun e => clock e =? c) l1 = filter (fun e => clock e =? c) l2) -> l1 = l2.
Proof.
  induction l1 as [|a l1 IH]; intros l2 S1 S2 F.
  - destruct l2 as [|b l2]; auto. specialize (F (clock b)). cbn in F. rewrite Z.eqb_refl in F. discriminate.
  - destruct l2 as [|b l2].
    { specialize (F (clock a)). cbn in F. rewrite Z.eqb_refl in F. discriminate. }
    inversion S1 as [|? ? S1' Fa]; inversion S2 as [|? ? S2' Fb]; subst.
    assert (Hab : a = b).
    { destruct (Z.eq_dec (clock a) (clock b)) as [E|NE].
      - specialize (F (clock a)). cbn in F. rewrite Z.eqb_refl in F. rewrite <- E, Z.eqb_refl in F. congruence.
      - exfalso.
        assert (Ina : In a (b :: l2)).
        { assert (I : In a (filter (fun e => clock e =? clock a) (a :: l1))).
          { apply filter_In; split; [left; auto | apply Z.eqb_refl]. }
          rewrite (F (clock a)) in I. apply filter_In in I. tauto. }
        assert (Inb : In b (a :: l1)).
        { assert (I : In b (filter (fun e => clock e =? clock b) (b :: l2))).
          { apply filter_In; split; [left; auto | apply Z.eqb_refl]. }
          rewrite <- (F (clock b)) in I. apply filter_In in I. tauto. }
        destruct Ina as [->|Ina]; [congruence|]. destruct Inb as [->|Inb]; [congruence|].
        rewrite Forall_forall in Fa, Fb. specialize (Fa _ Inb). specialize (Fb _ Ina).
        unfold cle in *. lia. }
    subst b. f_equal. apply IH; auto.
    intros c. specialize (F c). cbn in F. destruct (clock a =? c); congruence.
Qed.

Theorem post_determines_output evs o1 o2 :
  sorted o1 -> stable evs o1 -> sorted o2 -> stable evs o2 -> o1 = o2.
Proof.
  intros S1 T1 S2 T2. apply sorted_stable_unique; auto.
  intros c. rewrite (T1 c), (T2 c). reflexivity.
Qed.

(* ------------------------------------------------------------------------ *)
(* running the tool on an already sorted stream never changes it              *)
(* ------------------------------------------------------------------------ *)

Lemma exec_plan_sorted_id n k rd rd' :
  sorted (rev rd) -> exec_plan n k rd = Some rd' -> rd' = rd.
Proof.
  intros S. unfold exec_plan, exec_plan_r.
  destruct (find_destination n rd (min_clock (rev (firstn k rd)))) as [w|]; [|discriminate].
  destruct (ring_check _); [|discriminate]. intros H; inversion H; subst; clear H.
  assert (Sw : sorted (rev (firstn w rd))).
  { rewrite <- (firstn_skipn w rd), rev_app_distr in S. apply SS_app_inv in S. tauto. }
  pose proof (ssort_id _ Sw) as E. unfold ssort in E. rewrite E, rev_involutive. apply firstn_skipn.
Qed.

Lemma wstep_sorted_id n w e w' :
  sorted (rev (w_rd w)) -> wstep n w e = Some w' -> w_rd w' = e :: w_rd w.
Proof.
  intros S. unfold wstep. destruct (w_st w).
  - destruct (starts_unsorted_region e); intros H; inversion H; reflexivity.
  - destruct (ends_unsorted_region e); intros H; inversion H; reflexivity.
  - destruct (ends_unsorted_region e).
    + destruct (exec_plan n nbody (w_rd w)) as [rd'|] eqn:E; [|discriminate].
      intros H; inversion H; subst; cbn. f_equal. eapply exec_plan_sorted_id; eauto.
    + intros H; inversion H; reflexivity.
Qed.

Lemma wrun_sorted_id n l : forall w w',
  sorted (rev (w_rd w) ++ l) ->
  wrun n w l = Some w' -> rev (w_rd w') = rev (w_rd w) ++ l.
Proof.
  induction l as [|e t IH]; cbn; intros w w' S H.
  - inversion H; subst. now rewrite app_nil_r.
  - destruct (wstep n w e) as [w1|] eqn:E; [|discriminate].
    assert (S0 : sorted (rev (w_rd w))) by (apply SS_app_inv in S; tauto).
    pose proof (wstep_sorted_id _ _ _ _ S0 E) as R1.
    assert (Eq : rev (w_rd w1) ++ t = rev (w_rd w) ++ e :: t).
    { rewrite R1. cbn. rewrite <- app_assoc. reflexivity. }
    rewrite <- Eq. apply IH; auto; rewrite Eq; auto.
Qed.

Theorem winsort_sorted_input n l out : sorted l -> winsort n l = Some out -> out = l.
Proof.
  intros S. unfold winsort. destruct l as [|e t];
    [first [discriminate | intros H; inversion H; reflexivity]|].
  destruct (wrun n winit (e :: t)) as [w|] eqn:R; [|discriminate].
  intros H; inversion H; subst; clear H.
  apply (wrun_sorted_id n (e :: t) winit w); auto.
Qed.

(* second run: never changes a byte; succeeds whenever the output still meets the precondition *)
Theorem winsort_idempotent_partial n evs out : pre n evs -> winsort n evs = Some out ->
  (winsort n out = Some out \/ winsort n out = None) /\
  (pre n out -> winsort n out = Some out).
Proof.
  intros P H.
  destruct (winsort_post _ _ _ P H) as (Pm & S & _).
  split.
  - destruct (winsort n out) as [o2|] eqn:E; auto. left. f_equal.
    eapply winsort_sorted_input; eauto.
  - intros P2. rewrite (winsort_is_ssort _ _ P2). now rewrite (ssort_id _ S).
Qed.

(* ------------------------------------------------------------------------ *)
(* failure side                                                               *)
(* ------------------------------------------------------------------------ *)

(* the stream is fine up to and including the body of a region (scanner state
   PR s rb, rb <> []), the region is then closed, and its proper position is
   outside the look-back window: the tool fails *)
Theorem winsort_fails_beyond_lookback n l1 t rest p s rb :
  prun n pinit l1 = Some p -> p_mode p = PR s rb -> rb <> [] ->
  ends_unsorted_region t = true ->
  lookback_ok n (p_before p ++ [s]) (rev rb) = false ->
  winsort n (l1 ++ t :: rest) = None.
Proof.
  intros R Md Ne Et LB.
  destruct (sim_run _ _ _ _ _ sim_init R) as (w & Hw & (Okb & Fb & M)).
  rewrite Md in M. destruct M as (Oks & Hs & Wrd & Wst).
  unfold winsort. destruct (l1 ++ t :: rest) eqn:El; [destruct l1; discriminate|]. rewrite <- El.
  rewrite wrun_app, Hw. cbn [wrun]. unfold wstep.
  destruct rb as [|b rb']; [congruence|]. rewrite Wst, Et, Wrd.
  rewrite (exec_plan_fails n (p_before p) s (b :: rb')); auto.
  rewrite Hs; auto.
Qed.

Theorem pre_empty n : pre n [].
Proof. reflexivity. Qed.

(* the model's failing run and its file content agree with [winsort] *)
Lemma wrun_file_spec n l : forall w,
  match wrun n w l with
  | Some w' => wrun_file n w l = (true, rev (w_rd w'))
  | None => fst (wrun_file n w l) = false
  end.
Proof.
  induction l as [|e t IH]; cbn; intros w; auto.
  destruct (wstep n w e) as [w1|]; cbn; auto. apply IH.
Qed.

Theorem winsort_file_spec n evs :
  match winsort n evs with
  | Some out => winsort_file n evs = (true, out)
  | None => fst (winsort_file n evs) = false
  end.
Proof.
  destruct evs as [|e t]; [reflexivity|]. unfold winsort, winsort_file.
  pose proof (wrun_file_spec n (e :: t) winit) as H.
  destruct (wrun n winit (e :: t)); auto.
Qed.

(* ------------------------------------------------------------------------ *)
(* unconditional safety: whatever the input, a successful run only permutes   *)
(* events, and only inside the window it decided to sort                      *)
(* ------------------------------------------------------------------------ *)

Lemma exec_plan_perm n k rd rd' : exec_plan n k rd = Some rd' ->
  Permutation rd rd' /\ exists w, skipn w rd' = skipn w rd /\ length rd' = length rd.
Proof.
  unfold exec_plan, exec_plan_r.
  destruct (find_destination n rd (min_clock (rev (firstn k rd)))) as [w|]; [|discriminate].
  destruct (ring_check _); [|discriminate]. intros H; inversion H; subst; clear H.
  set (W := isort_by clock (rev (firstn w rd))).
  assert (PW : Permutation (firstn w rd) (rev W)).
  { eapply perm_trans; [apply Permutation_rev|]. eapply perm_trans; [apply (isort_perm clock)|].
    apply Permutation_rev. }
  split.
  - rewrite <- (firstn_skipn w rd) at 1. apply Permutation_app_tail. exact PW.
  - assert (LW : length (rev W) = length (firstn w rd)) by (symmetry; apply Permutation_length, PW).
    destruct (Nat.le_gt_cases w (length rd)) as [Hle|Hgt].
    + exists w. rewrite firstn_length_le in LW by auto. split.
      * rewrite <- LW at 1. apply skipn_len_app.
      * rewrite app_length, LW, skipn_length. lia.
    + exists (length rd).
      assert (Hw : (length rd <= w)%nat) by lia.
      rewrite (firstn_all2 rd Hw) in LW. rewrite (skipn_all2 rd Hw).
      rewrite app_nil_r, skipn_all. split.
      * rewrite <- LW. apply skipn_all.
      * exact LW.
Qed.

Lemma wstep_perm n w e w' : wstep n w e = Some w' -> Permutation (e :: w_rd w) (w_rd w').
Proof.
  unfold wstep. destruct (w_st w).
  - destruct (starts_unsorted_region e); intros H; inversion H; auto.
  - destruct (ends_unsorted_region e); intros H; inversion H; auto.
  - destruct (ends_unsorted_region e).
    + destruct (exec_plan n nbody (w_rd w)) as [rd'|] eqn:E; [|discriminate].
      intros H; inversion H; subst; cbn. constructor. apply (exec_plan_perm _ _ _ _ E).
    + intros H; inversion H; auto.
Qed.

Lemma wrun_perm n l : forall w w', wrun n w l = Some w' -> Permutation (rev (w_rd w) ++ l) (rev (w_rd w')).
Proof.
  induction l as [|e t IH]; cbn; intros w w' H.
  - inversion H; subst. now rewrite app_nil_r.
  - destruct (wstep n w e) as [w1|] eqn:E; [|discriminate].
    eapply perm_trans; [|apply (IH _ _ H)].
    replace (rev (w_rd w) ++ e :: t) with ((rev (w_rd w) ++ [e]) ++ t) by (rewrite <- app_assoc; reflexivity).
    apply Permutation_app_tail.
    eapply perm_trans; [|apply Permutation_rev].
    eapply perm_trans; [|apply (wstep_perm _ _ _ _ E)].
    eapply perm_trans; [apply Permutation_app_comm|]. cbn. constructor.
    apply Permutation_sym, Permutation_rev.
Qed.

Theorem winsort_permutation_always n evs out : winsort n evs = Some out ->
  Permutation evs out /\ total_size out = total_size evs.
Proof.
  unfold winsort. destruct evs as [|e t];
    [first [discriminate | intros H; inversion H; split; auto]|].
  destruct (wrun n winit (e :: t)) as [w|] eqn:R; [|discriminate].
  intros H; inversion H; subst; clear H.
  pose proof (wrun_perm _ _ _ _ R) as P. cbn [winit w_rd rev app] in P.
  split; auto. symmetry. now apply total_size_perm.
Qed.

(* a stream without OU[ markers is left exactly as it is, sorted or not *)
Lemma wrun_no_region n l : forall rd,
  Forall (fun e => starts_unsorted_region e = false) l ->
  wrun n (mkw WS rd) l = Some (mkw WS (rev l ++ rd)).
Proof.
  induction l as [|e t IH]; cbn; intros rd F; auto.
  inversion F; subst. unfold wstep; cbn. rewrite H1. rewrite IH by auto.
  rewrite <- app_assoc. reflexivity.
Qed.

Theorem winsort_no_region n evs :
  Forall (fun e => starts_unsorted_region e = false) evs -> winsort n evs = Some evs.
Proof.
  intros F. unfold winsort. destruct evs as [|e t]; [reflexivity|].
  unfold winit. rewrite wrun_no_region by auto. cbn [w_rd]. rewrite app_nil_r, rev_involutive. reflexivity.
Qed.

Theorem min_clock_spec l : l <> [] ->
  Forall (fun e => min_clock l <= clock e) l /\ exists e, In e l /\ clock e = min_clock l.
Proof. intros H. split; [apply min_clock_le | now apply min_clock_in]. Qed.

Theorem check_mode_iff l : check_mode l = true <-> sorted l.
Proof. split; [apply check_mode_sound | apply check_mode_sorted]. Qed.

(* ------------------------------------------------------------------------ *)
(* refutations (findings) and non-vacuity                                     *)
(* ------------------------------------------------------------------------ *)

Definition Pl (c i : Z) : ev := mkev c 79 85 97 i 12.        (* OUa, no payload *)
Definition Jb (c i : Z) : ev := mkev c 79 85 106 i 70016.    (* OUj, jumbo of 70000 bytes *)
Definition Rs (c i : Z) : ev := mkev c 79 85 91 i 12.        (* OU[ *)
Definition Re (c i : Z) : ev := mkev c 79 85 93 i 12.        (* OU] *)
Definition Hx (c i : Z) : ev := mkev c 79 72 120 i 24.       (* OHx *)
Definition He (c i : Z) : ev := mkev c 79 72 101 i 12.       (* OHe *)

(* FULL STATEMENT (property text: "sorting again changes nothing"):
     forall n evs out, pre n evs -> winsort n evs = Some out -> winsort n out = Some out.
   It is FALSE for the faithful model (and for the real tool, replayed by the check):
   the first run succeeds with -n 5, the second run on its own sorted output fails. *)
Definition idem_witness : list ev :=
  [Pl 5 0; Rs 5 1; Pl 5 2; Re 10 3; Rs 15 4; Pl 6 5; Re 15 6].
Definition idem_sorted : list ev :=
  [Pl 5 0; Rs 5 1; Pl 5 2; Pl 6 5; Re 10 3; Rs 15 4; Re 15 6].

Theorem winsort_idempotent_refuted :
  exists n evs out, pre n evs /\ evs <> [] /\ winsort n evs = Some out /\
                    check_mode out = true /\ sorted out /\ winsort n out = None.
Proof.
  exists 5%nat, idem_witness, idem_sorted.
  split; [vm_compute; reflexivity|]. split; [discriminate|].
  split; [vm_compute; reflexivity|]. split; [vm_compute; reflexivity|].
  split; [|vm_compute; reflexivity].
  apply (check_mode_sound idem_sorted eq_refl).
Qed.

(* non-vacuity: three regions (one empty, one internally unordered with equal
   clocks and a jumbo event, one reaching the start of the stream through equal
   clocks), look-back exactly sufficient (n = 18, fails with n = 17) *)
Definition ex1 : list ev :=
  [Hx 10 0; Pl 10 1; Pl 12 2; Pl 12 3; Rs 14 4; Re 14 5;
   Pl 15 6; Rs 16 7; Pl 13 8; Jb 12 9; Pl 13 10; Pl 12 11; Re 16 12;
   Pl 17 13; Rs 17 14; Pl 10 15; Re 18 16; He 20 17].
Definition ex1_out : list ev :=
  [Hx 10 0; Pl 10 1; Pl 10 15; Pl 12 2; Pl 12 3; Jb 12 9; Pl 12 11; Pl 13 8; Pl 13 10;
   Rs 14 4; Re 14 5; Pl 15 6; Rs 16 7; Re 16 12; Pl 17 13; Rs 17 14; Re 18 16; He 20 17].

Example ex1_pre : pre 18 ex1.
Proof. vm_compute. reflexivity. Qed.
Example ex1_sorts : winsort 18 ex1 = Some ex1_out.
Proof. vm_compute. reflexivity. Qed.
Example ex1_changes : ex1_out <> ex1.
Proof. discriminate. Qed.
Example ex1_size : total_size ex1_out = 70232 /\ total_size ex1 = 70232.
Proof. split; vm_compute; reflexivity. Qed.
Example ex1_too_small : preb 17 ex1 = false /\ winsort 17 ex1 = None.
Proof. split; vm_compute; reflexivity. Qed.
Example ex1_again : winsort 18 ex1_out = Some ex1_out /\ check_mode ex1_out = true.
Proof. split; vm_compute; reflexivity. Qed.

(* outside the precondition the tool may exit 0 and leave an unsorted stream
   without saying anything (documented limits: only OU[ .. OU] is looked at, and
   OU] itself is never moved): a body event later than its closing marker, an
   out-of-order event outside any region, a region that is never closed *)
Example silent_body_after_marker :
  winsort 9 [Pl 1 0; Rs 5 1; Pl 3 2; Pl 9 3; Re 6 4; Pl 7 5] = Some [Pl 1 0; Pl 3 2; Rs 5 1; Pl 9 3; Re 6 4; Pl 7 5]
  /\ check_mode [Pl 1 0; Pl 3 2; Rs 5 1; Pl 9 3; Re 6 4; Pl 7 5] = false.
Proof. split; vm_compute; reflexivity. Qed.
Example silent_outside_region :
  winsort 9 [Pl 5 0; Pl 3 1; Pl 7 2] = Some [Pl 5 0; Pl 3 1; Pl 7 2].
Proof. vm_compute; reflexivity. Qed.
Example silent_unterminated :
  winsort 9 [Pl 5 0; Rs 6 1; Pl 3 2; Pl 4 3] = Some [Pl 5 0; Rs 6 1; Pl 3 2; Pl 4 3].
Proof. vm_compute; reflexivity. Qed.

(* clocks on both sides of 2^63 (uint64 order, not int64 order) *)
Definition B63 : Z := 9223372036854775808.
Definition ex2 : list ev :=
  [Pl (B63 - 2) 0; Pl (B63 + 3) 1; Rs (B63 + 4) 2; Pl (B63 - 1) 3; Pl (B63 + 1) 4; Re (B63 + 4) 5].
Example ex2_sorts : pre 6 ex2 /\
  winsort 6 ex2 = Some [Pl (B63 - 2) 0; Pl (B63 - 1) 3; Pl (B63 + 1) 4; Pl (B63 + 3) 1; Rs (B63 + 4) 2; Re (B63 + 4) 5]
  /\ loader_accepts ex2 = false.
Proof. repeat split; vm_compute; reflexivity. Qed.

(* ------------------------------------------------------------------------ *)
(* a larger look-back window never hurts: the precondition is monotone in n   *)
(* and the result does not depend on n                                        *)
(* ------------------------------------------------------------------------ *)

Lemma lookback_ok_mono n m before body :
  (n <= m)%nat -> lookback_ok n before body = true -> lookback_ok m before body = true.
Proof.
  unfold lookback_ok. intros Hnm H. apply Nat.leb_le in H. apply Nat.leb_le. lia.
Qed.

Lemma pstep_mono n m p e p' :
  (n <= m)%nat -> pstep n p e = Some p' -> pstep m p e = Some p'.
Proof.
  intros Hnm. unfold pstep.
  destruct (negb (clk_u64 e)); [discriminate|].
  destruct (p_mode p) as [|s rb]; [exact (fun H => H)|].
  destruct (ends_unsorted_region e); [|exact (fun H => H)].
  destruct rb as [|b rb]; [exact (fun H => H)|].
  destruct (lookback_ok n (p_before p ++ [s]) (rev (b :: rb))) eqn:L.
  - rewrite (lookback_ok_mono n m _ _ Hnm L). exact (fun H => H).
  - rewrite andb_false_r. discriminate.
Qed.

Lemma prun_mono n m l : forall p p',
  (n <= m)%nat -> prun n p l = Some p' -> prun m p l = Some p'.
Proof.
  induction l as [|e l IH]; intros p p' Hnm; cbn [prun]; [exact (fun H => H)|].
  destruct (pstep n p e) as [p1|] eqn:E; [|discriminate].
  rewrite (pstep_mono n m p e p1 Hnm E). apply IH. exact Hnm.
Qed.

Lemma pre_mono n m evs : (n <= m)%nat -> pre n evs -> pre m evs.
Proof.
  unfold pre, preb. intros Hnm. destruct (prun n pinit evs) as [p|] eqn:E; [|discriminate].
  rewrite (prun_mono n m evs pinit p Hnm E). exact (fun H => H).
Qed.

Theorem winsort_larger_window n m evs :
  (n <= m)%nat -> pre n evs -> winsort m evs = winsort n evs /\ winsort m evs = Some (ssort evs).
Proof.
  intros Hnm Hp. rewrite (winsort_is_ssort n evs Hp), (winsort_is_ssort m evs (pre_mono n m evs Hnm Hp)).
  split; reflexivity.
Qed.
