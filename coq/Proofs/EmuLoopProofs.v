(* The generated top-level sequencing of the emulator (Gen/EmuLoop_gen.v, unit emuloop) does what the models assume:
   one emu_step = one iteration of PvDefs.pv_run_from (semantic) / BayDefs.mstep between recorder_advance and the emit
   callbacks (mechanical); emu_finish = the models' finish hooks in slot order, then PvDefs.pvt_close of both PVTs. *)
From Coq Require Import ZArith List Bool Lia.
From OV Require Import Base.CInt Emu.EmuCoreDefs Emu.DecodeDefs Emu.MarkDefs Emu.EmuLoopPre Emu.EmuLoopRelDefs.
From OV Require Emu.PlayerDefs Emu.PvDefs Emu.BayDefs Gen.EmuLoop_gen Proofs.PvThms.
Import ListNotations.
Local Open Scope Z_scope.

Module G := EmuLoop_gen.

Ltac munf := cbv beta delta [bind_ bind ite need eval ret fail status].

(* ---- prv_advance / pvt_advance / recorder_advance *)
Lemma prv_advance_run i t sx st x : get_pvt (es_rec st) i = Some x ->
  G.prv_advance (Some i) t sx st =
  match PV.prv_advance (PV.v_prv x) t with
  | Ok pv => Ok (tt, with_rec st (set_pvt (es_rec st) i (PV.set_prv x pv)))
  | Err _ => Err E_FAIL
  end.
Proof.
  intros Hx. unfold G.prv_advance, PV.prv_advance, set_prv_time, get_prv_time, pvt_at. munf. cbn [is_null negb]. rewrite Hx.
  destruct (t <? PV.pv_time (PV.v_prv x)); reflexivity.
Qed.

Lemma recorder_advance_run t sx st :
  G.recorder_advance (Some tt) t sx st =
  match PV.rec_advance (es_rec st) t with
  | Ok r => Ok (tt, with_rec st r)
  | Err _ => Err E_FAIL
  end.
Proof.
  unfold G.recorder_advance, for_hh_pvt, get_recorder_pvt, G.pvt_advance, addr_pvt_prv. munf. cbn [is_null negb NPVT Nat.sub seq map for_list].
  munf.
  rewrite (prv_advance_run 0 t sx st (PV.rc_th (es_rec st)) eq_refl).
  unfold PV.rec_advance, PV.on_th, PV.on_cpu, PV.bindr.
  destruct (PV.prv_advance (PV.v_prv (PV.rc_th (es_rec st))) t) as [pv|e]; [|reflexivity].
  erewrite (prv_advance_run 1) by reflexivity.
  cbn [es_rec with_rec set_pvt PV.rc_cpu PV.rc_th].
  destruct (PV.prv_advance (PV.v_prv (PV.rc_cpu (es_rec st))) t) as [pv2|e]; [|reflexivity].
  destruct st; reflexivity.
Qed.

(* ---- model.c *)
Lemma nth_map_seq {A} (f : nat -> A) n N d : (n < N)%nat -> nth n (map f (seq 0 N)) d = f n.
Proof.
  intros H. rewrite (nth_indep _ d (f 0%nat)) by (rewrite map_length, seq_length; exact H).
  rewrite map_nth. rewrite seq_nth by exact H. reflexivity.
Qed.

Lemma ix_flags l m : 0 <= m < 256 -> ix (flags_of l) m = b2z (memz m l).
Proof.
  intros H. unfold ix, flags_of, NMODELS. rewrite nth_map_seq by lia. rewrite Z2Nat.id by lia. reflexivity.
Qed.

Lemma spec_at sx st md m : 0 <= m < 256 ->
  ixp_ptr_spec (get_model_spec sx st md) m = if memz m (en_registered sx) then Some m else None.
Proof.
  intros H. unfold ixp_ptr_spec, get_model_spec, NMODELS. rewrite nth_map_seq by lia. rewrite Z2Nat.id by lia. reflexivity.
Qed.

Lemma decode_all_cong en1 en2 cs m c v p j aux : memz m en1 = memz m en2 ->
  decode_all en1 cs m c v p j aux = decode_all en2 cs m c v p j aux.
Proof.
  intros H. unfold decode_all, decode_full, decode.
  destruct ((m =? M_OVNI) && (c =? 77)) eqn:E.
  - apply andb_true_iff in E. destruct E as [E _]. apply Z.eqb_eq in E. subst m. rewrite H. reflexivity.
  - rewrite H. reflexivity.
Qed.

Lemma decode_all_off en cs m c v p j aux : memz m en = false -> decode_all en cs m c v p j aux = EvBad E_UNKNOWN.
Proof.
  intros H. unfold decode_all, decode_full.
  destruct ((m =? M_OVNI) && (c =? 77)) eqn:E.
  - apply andb_true_iff in E. destruct E as [E _]. apply Z.eqb_eq in E. subst m. rewrite H. reflexivity.
  - rewrite H. reflexivity.
Qed.

Lemma memz_single m : memz m [m] = true.
Proof. unfold memz. simpl. rewrite Z.eqb_refl. reflexivity. Qed.

Lemma run_handler_bad sx st who why : clean st -> run_handler sx st who (EvBad why) = Err E_FAIL.
Proof.
  unfold clean, run_handler. destruct (es_models st) as [c0 [x|]|c0 b]; intros H; [contradiction|reflexivity|reflexivity].
Qed.

Lemma b2z_test b : negb (negb (Z.eqb (b2z b) 0)) = negb b.
Proof. destruct b; reflexivity. Qed.

Lemma model_event_run sx st m c v p j aux who :
  models_wf sx st -> clean st -> 0 <= m < 256 ->
  content_of sx st = Some ((m, c, v), p, j, aux) -> c_thread (es_cur st) = Some who ->
  G.model_event (Some tt) tt m sx st =
  match run_handler sx st who (decode_all (es_enabled st) (s_chans (en_sx sx)) m c v p j aux) with
  | Ok st' => Ok (tt, st')
  | Err e => Err e
  end.
Proof.
  intros [Hen Hreg] Hclean Hm Hc Hw.
  unfold G.model_event. munf. cbn [is_null negb].
  rewrite spec_at by exact Hm. unfold get_model_registered, get_model_enabled. rewrite !ix_flags by exact Hm. rewrite !b2z_test.
  destruct (memz m (en_registered sx)) eqn:Er; cbn [negb].
  2:{ assert (Ee : memz m (es_enabled st) = false).
      { destruct (memz m (es_enabled st)) eqn:E; [|reflexivity]. apply Hen in E. congruence. }
      rewrite decode_all_off by exact Ee. rewrite run_handler_bad by exact Hclean. reflexivity. }
  destruct (memz m (es_enabled st)) eqn:Ee; cbn [negb].
  2:{ rewrite decode_all_off by exact Ee. rewrite run_handler_bad by exact Hclean. reflexivity. }
  cbn [is_null negb]. unfold get_model_spec_event, hook_of. destruct (Hreg m Er) as [_ Hh]. rewrite Hh. cbn [is_null negb].
  unfold call_event. rewrite Hc, Hw, Hh. unfold event_for.
  rewrite (decode_all_cong [m] (es_enabled st)) by (rewrite memz_single, Ee; reflexivity).
  unfold run_handler, clean in *.
  destruct (es_models st) as [c0 [x|]|c0 b]; [contradiction| |].
  - destruct (core_step (en_sx sx) c0 who _) as [[c1 d]|e]; reflexivity.
  - destruct (core_step (en_sx sx) c0 who _) as [[c1 d]|e]; [|reflexivity].
    destruct (B.apply_writes b _) as [b1|e]; reflexivity.
Qed.

(* ---- emu.c *)
Lemma panic_run sx st : G.panic tt sx st = Ok (tt, st).
Proof.
  unfold G.panic. munf. destruct (negb (is_null (get_emu_ev sx st tt))), (negb (is_null (get_emu_stream sx st tt))); reflexivity.
Qed.

Lemma set_current_run sx st e who : es_pev st = Some e -> en_lpt sx (PL.o_id e) = Some who ->
  G.set_current tt sx st =
  Ok (tt, with_cur st {| c_ev := true; c_stream := Some (PL.o_id e); c_loom := Some who; c_proc := Some who; c_thread := Some who |}).
Proof.
  intros He Hl. unfold G.set_current. munf.
  unfold set_emu_ev, set_emu_stream, set_emu_loom, set_emu_proc, set_emu_thread, player_ev, player_stream, system_get_lpt,
    get_emu_stream, get_lpt_loom, get_lpt_proc, get_lpt_thread.
  cbn [es_pev with_cur es_cur cur_with_ev cur_with_stream c_stream]. rewrite He. cbn [option_map is_null negb]. rewrite Hl. cbn [is_null negb].
  reflexivity.
Qed.

Lemma set_current_unknown sx st e : es_pev st = Some e -> en_lpt sx (PL.o_id e) = None -> G.set_current tt sx st = Err E_FAIL.
Proof.
  intros He Hl. unfold G.set_current. munf.
  unfold set_emu_ev, set_emu_stream, player_ev, player_stream, system_get_lpt, get_emu_stream.
  cbn [es_pev with_cur es_cur cur_with_ev cur_with_stream c_stream]. rewrite He. cbn [option_map is_null negb]. rewrite Hl. reflexivity.
Qed.

(* the shape of one emu_step that delivers an event: player, set_current, recorder_advance, handler, propagate *)
Lemma emu_step_run sx st e pst' who m c v p j aux :
  PL.pstep true (en_offs sx) (es_player st) = PL.SEmit e pst' ->
  en_lpt sx (PL.o_id e) = Some who ->
  en_content sx (PL.o_id e) (PL.o_pay e) = ((m, c, v), p, j, aux) -> 0 <= m < 256 ->
  models_wf sx st -> clean st ->
  G.emu_step tt sx st =
  match PV.rec_advance (es_rec st) (PL.o_dclock e) with
  | Err _ => Err E_FAIL
  | Ok r1 =>
    match run_handler sx (with_rec (delivered st pst' e who) r1) who (decode_all (es_enabled st) (s_chans (en_sx sx)) m c v p j aux) with
    | Err x => Err x
    | Ok st2 => match bay_propagate (Some tt) sx st2 with Ok (_, st3) => Ok (0, st3) | Err x => Err x end
    end
  end.
Proof.
  intros Hp Hl Hc Hm Hwf Hcl.
  unfold G.emu_step. cbv beta delta [bind_ bind ite need eval ret fail]. unfold player_step, addr_emu_player. rewrite Hp.
  change (Z.gtb 0 0) with false. change (Z.ltb 0 0) with false. cbv iota.
  rewrite (set_current_run sx _ e who) by (reflexivity || exact Hl).
  unfold emu_stat_update, ret, addr_emu_stat, addr_emu_recorder, addr_emu_model, addr_emu_bay.
  set (st0 := with_cur _ _). change st0 with (delivered st pst' e who). clear st0.
  assert (Hev : get_emu_ev sx (delivered st pst' e who) tt = Some tt) by reflexivity.
  rewrite Hev. cbn [is_null negb].
  assert (Hd : get_emu_ev_dclock sx (delivered st pst' e who) tt = PL.o_dclock e) by reflexivity.
  rewrite Hd, recorder_advance_run.
  change (es_rec (delivered st pst' e who)) with (es_rec st).
  destruct (PV.rec_advance (es_rec st) (PL.o_dclock e)) as [r1|x]; [|reflexivity].
  set (st1 := with_rec (delivered st pst' e who) r1).
  assert (Hev1 : get_emu_ev sx st1 tt = Some tt) by reflexivity.
  assert (Hm1 : get_emu_ev_m sx st1 tt = m).
  { unfold get_emu_ev_m, content_of. change (es_pev st1) with (Some e). cbv iota beta. rewrite Hc. reflexivity. }
  unfold status. cbv beta delta [bind need eval]. rewrite Hev1. cbn [is_null negb]. rewrite Hm1.
  rewrite (model_event_run sx st1 m c v p j aux who).
  - change (es_enabled st1) with (es_enabled st).
    destruct (run_handler sx st1 who _) as [st2|x].
    + cbn [Z.eqb]. cbv iota.
      destruct (bay_propagate (Some tt) sx st2) as [[u st3]|x]; [reflexivity|].
      destruct (Nat.eqb x E_FAIL) eqn:E; [|reflexivity].
      apply Nat.eqb_eq in E. subst x. change (Z.eqb (-1) 0) with false. cbv iota. rewrite panic_run. reflexivity.
    + destruct (Nat.eqb x E_FAIL) eqn:E; [|reflexivity].
      apply Nat.eqb_eq in E. subst x. change (Z.eqb (-1) 0) with false. cbv iota. rewrite panic_run. reflexivity.
  - exact Hwf.
  - exact Hcl.
  - exact Hm.
  - unfold content_of. change (es_pev st1) with (Some e). cbv iota beta. rewrite Hc. reflexivity.
  - reflexivity.
Qed.

Lemma event_of_eq sx en e m c v p j aux : en_content sx (PL.o_id e) (PL.o_pay e) = ((m, c, v), p, j, aux) ->
  event_of sx en e = decode_all en (s_chans (en_sx sx)) m c v p j aux.
Proof. intros H. unfold event_of. rewrite H. reflexivity. Qed.

(* (1) semantic rendering: one emu_step = one iteration of PvDefs.pv_run_from *)
Theorem emu_step_from_source sx st e pst' who cst :
  PL.pstep true (en_offs sx) (es_player st) = PL.SEmit e pst' ->
  en_lpt sx (PL.o_id e) = Some who ->
  0 <= model_of sx e < 256 -> models_wf sx st -> es_models st = MSem cst None ->
  G.emu_step tt sx st =
  match pv_iter (en_sx sx) cst (es_rec st) (PL.o_dclock e) who (event_of sx (es_enabled st) e) with
  | Ok (cst', r') => Ok (0, with_models (with_rec (delivered st pst' e who) r') (MSem cst' None))
  | Err _ => Err E_FAIL
  end.
Proof.
  intros Hp Hl Hm Hwf Hms.
  destruct (en_content sx (PL.o_id e) (PL.o_pay e)) as [[[[[m c] v] p] j] aux] eqn:Hc.
  assert (Hm' : 0 <= m < 256) by (unfold model_of in Hm; rewrite Hc in Hm; exact Hm).
  rewrite (emu_step_run sx st e pst' who m c v p j aux Hp Hl Hc Hm' Hwf) by (unfold clean; rewrite Hms; exact I).
  rewrite (event_of_eq _ _ _ _ _ _ _ _ _ Hc).
  unfold pv_iter, step. destruct (PV.rec_advance (es_rec st) (PL.o_dclock e)) as [r1|x]; [|reflexivity].
  unfold run_handler. change (es_models (with_rec (delivered st pst' e who) r1)) with (es_models st). rewrite Hms.
  destruct (core_step (en_sx sx) cst who _) as [[c1 d]|x]; [|reflexivity].
  unfold bay_propagate. cbn [es_models with_models].
  destruct (emit_all (prv_last c1) (all_reqs (en_sx sx) cst c1 d)) as [[last' ls]|x]; [|reflexivity].
  unfold write_lines. cbn [es_rec with_models with_rec].
  destruct (PV.foldr PV.rec_write ls r1) as [r2|x]; [|reflexivity].
  destruct st; reflexivity.
Qed.

(* (3) mechanical rendering: handler (guards, structure updates, channel writes), THEN bay_propagate: BayDefs.mstep *)
Theorem emu_step_mech_from_source sx st e pst' who cst b :
  PL.pstep true (en_offs sx) (es_player st) = PL.SEmit e pst' ->
  en_lpt sx (PL.o_id e) = Some who ->
  0 <= model_of sx e < 256 -> models_wf sx st -> es_models st = MMech cst b ->
  G.emu_step tt sx st =
  match mech_iter (en_sx sx) cst b (es_rec st) (PL.o_dclock e) who (event_of sx (es_enabled st) e) with
  | Ok (cst', b', r') => Ok (0, with_models (with_rec (delivered st pst' e who) r') (MMech cst' b'))
  | Err _ => Err E_FAIL
  end.
Proof.
  intros Hp Hl Hm Hwf Hms.
  destruct (en_content sx (PL.o_id e) (PL.o_pay e)) as [[[[[m c] v] p] j] aux] eqn:Hc.
  assert (Hm' : 0 <= m < 256) by (unfold model_of in Hm; rewrite Hc in Hm; exact Hm).
  rewrite (emu_step_run sx st e pst' who m c v p j aux Hp Hl Hc Hm' Hwf) by (unfold clean; rewrite Hms; exact I).
  rewrite (event_of_eq _ _ _ _ _ _ _ _ _ Hc).
  unfold mech_iter, B.mstep. destruct (PV.rec_advance (es_rec st) (PL.o_dclock e)) as [r1|x]; [|reflexivity].
  unfold run_handler. change (es_models (with_rec (delivered st pst' e who) r1)) with (es_models st). rewrite Hms.
  destruct (core_step (en_sx sx) cst who _) as [[c1 d]|x]; [|reflexivity].
  destruct (B.apply_writes b _) as [b1|x]; [|reflexivity].
  unfold bay_propagate. cbn [es_models with_models].
  destruct (B.propagate b1 (prv_last c1)) as [[[b2 last'] ls]|x]; [|reflexivity].
  unfold write_lines. cbn [es_rec with_models with_rec].
  destruct (PV.foldr PV.rec_write ls r1) as [r2|x]; [|reflexivity].
  destruct st; reflexivity.
Qed.

(* the other outcomes of player_step / set_current *)
Theorem emu_step_end sx st : PL.pstep true (en_offs sx) (es_player st) = PL.SDone ->
  G.emu_step tt sx st = Ok (1, with_finished st 1).
Proof.
  intros Hp. unfold G.emu_step. cbv beta delta [bind_ bind ite need eval ret fail]. unfold player_step, addr_emu_player. rewrite Hp.
  reflexivity.
Qed.
Theorem emu_step_player_error sx st v : PL.pstep true (en_offs sx) (es_player st) = PL.SErr v -> G.emu_step tt sx st = Err E_FAIL.
Proof.
  intros Hp. unfold G.emu_step. cbv beta delta [bind_ bind ite need eval ret fail]. unfold player_step, addr_emu_player. rewrite Hp.
  reflexivity.
Qed.
Theorem emu_step_unknown_stream sx st e pst' : PL.pstep true (en_offs sx) (es_player st) = PL.SEmit e pst' ->
  en_lpt sx (PL.o_id e) = None -> G.emu_step tt sx st = Err E_FAIL.
Proof.
  intros Hp Hl. unfold G.emu_step. cbv beta delta [bind_ bind ite need eval ret fail]. unfold player_step, addr_emu_player. rewrite Hp.
  change (Z.gtb 0 0) with false. change (Z.ltb 0 0) with false. cbv iota.
  rewrite (set_current_unknown sx _ e) by (reflexivity || exact Hl). reflexivity.
Qed.

(* the iteration behind PvDefs.pv_run_from *)
Lemma pv_run_from_iter sx st r t0 tm who ev rest :
  PV.pv_run_from sx st r t0 ((tm, who, ev) :: rest) =
  match pv_iter sx st r (tm - t0) who ev with
  | Err e => Err e
  | Ok (st1, r2) => PV.pv_run_from sx st1 r2 t0 rest
  end.
Proof.
  cbn [PV.pv_run_from]. unfold pv_iter. destruct (PV.rec_advance r (tm - t0)); [|reflexivity].
  destruct (step sx st who ev) as [[st1 ls]|]; [|reflexivity].
  destruct (PV.foldr PV.rec_write ls a); reflexivity.
Qed.

(* an event of a model the trace did not enable is refused (the explicit test of model_event) *)
Theorem emu_step_not_enabled sx st e pst' who :
  PL.pstep true (en_offs sx) (es_player st) = PL.SEmit e pst' ->
  en_lpt sx (PL.o_id e) = Some who ->
  0 <= model_of sx e < 256 -> models_wf sx st -> clean st ->
  memz (model_of sx e) (es_enabled st) = false ->
  exists x, G.emu_step tt sx st = Err x.
Proof.
  intros Hp Hl Hm Hwf Hcl Hoff.
  destruct (en_content sx (PL.o_id e) (PL.o_pay e)) as [[[[[m c] v] p] j] aux] eqn:Hc.
  unfold model_of in Hm, Hoff. rewrite Hc in Hm, Hoff.
  rewrite (emu_step_run sx st e pst' who m c v p j aux Hp Hl Hc Hm Hwf Hcl).
  destruct (PV.rec_advance (es_rec st) (PL.o_dclock e)) as [r1|x]; [|eexists; reflexivity].
  rewrite decode_all_off by exact Hoff. rewrite run_handler_bad by exact Hcl. eexists; reflexivity.
Qed.

(* ---- closing: prv_close / pvt_close / recorder_finish *)
Lemma cast_int32_idem z : cast_int32 (cast_int32 z) = cast_int32 z.
Proof.
  unfold cast_int32, wraps. change (2 ^ 32) with 4294967296. change (2 ^ (32 - 1)) with 2147483648.
  pose proof (Z.mod_pos_bound z 4294967296 ltac:(lia)) as Hb. set (m := z mod 4294967296) in *.
  destruct (m <? 2147483648) eqn:E.
  - apply Z.ltb_lt in E. rewrite Z.mod_small by lia. rewrite (proj2 (Z.ltb_lt _ _) E). reflexivity.
  - apply Z.ltb_ge in E. replace (m - 4294967296) with (m + (-1) * 4294967296) by lia.
    rewrite Z_mod_plus_full. rewrite Z.mod_small by lia. rewrite (proj2 (Z.ltb_ge _ _) E). lia.
Qed.
Lemma header_cast t n : PV.prv_header t (cast_int32 n) = PV.prv_header t n.
Proof. unfold PV.prv_header. rewrite cast_int32_idem. reflexivity. Qed.

Lemma recorder_finish_run sx st : es_io st = [io0; io0] ->
  G.recorder_finish (Some tt) sx st =
  match PV.prf_close (PV.v_prf (PV.rc_th (es_rec st))), PV.prf_close (PV.v_prf (PV.rc_cpu (es_rec st))) with
  | Ok a, Ok b => Ok (tt, closed_state st a b)
  | _, _ => Err E_FAIL
  end.
Proof.
  intros Hio. destruct st as [pl pev cu fin en ms [th cpu] io lg]. cbn [es_io] in Hio. subst io.
  unfold G.recorder_finish, for_hh_pvt, get_recorder_pvt, get_recorder_dir, cfg_generate. munf.
  cbn [is_null negb NPVT Nat.sub seq map for_list]. munf.
  unfold G.pvt_close, G.prv_close, addr_pvt_prv, addr_pvt_pcf, addr_pvt_prf. munf. cbn [is_null negb].
  unfold get_prv_file, get_prv_time, get_prv_nrows, fseek, write_header, fclose, pcf_close, prf_close, pvt_at, io_at, set_io.
  cbn [es_rec es_io get_pvt set_pvt with_io with_rec nth update PV.rc_th PV.rc_cpu io_pos io_prv io_pcf io_row io0 Z.eqb andb
       PV.v_prv PV.v_pcf PV.v_prf PV.set_prv prv_with_file PV.pv_file PV.pv_time PV.pv_nrows PV.pv_chans].
  rewrite !header_cast.
  destruct (PV.prf_close (PV.v_prf th)) as [a|x]; [|reflexivity].
  cbn [es_rec es_io get_pvt set_pvt with_io with_rec nth update PV.rc_th PV.rc_cpu io_pos io_prv io_pcf io_row io0 Z.eqb andb
       PV.v_prv PV.v_pcf PV.v_prf PV.set_prv prv_with_file PV.pv_file PV.pv_time PV.pv_nrows PV.pv_chans].
  rewrite ?header_cast.
  destruct (PV.prf_close (PV.v_prf cpu)) as [b|x]; [|reflexivity].
  reflexivity.
Qed.

(* ---- model_finish / model_connect: the loops over the model slots *)
Lemma in_zrange i lo hi : In i (zrange lo hi) -> lo <= i < hi.
Proof.
  unfold zrange. intros H. apply in_map_iff in H. destruct H as [k [<- Hk]]. apply in_seq in Hk. lia.
Qed.

Lemma with_rec_same st : with_rec st (es_rec st) = st. Proof. destruct st; reflexivity. Qed.

Section Loops.
  Variable sx : eenv.
  Variable en : list Z.
  Variable core : state.

  Definition fin_on (i : Z) : bool := memz i en && en_hook sx i HFinish.
  Definition con_on (i : Z) : bool := memz i en && en_hook sx i HConnect.

  (* model_finish goes on after a failing hook and only remembers the failure *)
  Fixpoint fin_spec (l : list Z) (acc : Z) (r : PV.recorder) : Z * PV.recorder :=
    match l with
    | [] => (acc, r)
    | i :: t =>
      if fin_on i then
        match en_finish sx i core r with
        | Ok r' => fin_spec t acc r'
        | Err _ => fin_spec t (-1) r
        end
      else fin_spec t acc r
    end.

  Lemma for_list_fin l (body : Z -> Z -> M Z) :
    (forall i acc st, In i l -> es_enabled st = en -> core_of (es_models st) = core ->
       body i acc sx st = if fin_on i then match en_finish sx i core (es_rec st) with
                                           | Ok r => Ok (acc, with_rec st r)
                                           | Err _ => Ok (-1, st)
                                           end
                          else Ok (acc, st)) ->
    forall acc st, es_enabled st = en -> core_of (es_models st) = core ->
      for_list l acc body sx st = Ok (fst (fin_spec l acc (es_rec st)), with_rec st (snd (fin_spec l acc (es_rec st)))).
  Proof.
    induction l as [|i t IH]; intros Hb acc st He Hc.
    - cbn. rewrite with_rec_same. reflexivity.
    - cbn [for_list fin_spec]. unfold bind. rewrite (Hb i acc st (or_introl eq_refl) He Hc).
      assert (Hb' : forall i acc st, In i t -> es_enabled st = en -> core_of (es_models st) = core ->
                body i acc sx st = if fin_on i then match en_finish sx i core (es_rec st) with
                                                    | Ok r => Ok (acc, with_rec st r) | Err _ => Ok (-1, st) end
                                   else Ok (acc, st)) by (intros; apply Hb; [right|..]; assumption).
      destruct (fin_on i).
      + destruct (en_finish sx i core (es_rec st)) as [r|x].
        * rewrite (IH Hb' acc (with_rec st r) He Hc). reflexivity.
        * apply (IH Hb' (-1) st He Hc).
      + apply (IH Hb' acc st He Hc).
  Qed.

  Lemma fin_spec_failed l r : fst (fin_spec l (-1) r) = -1.
  Proof.
    revert r. induction l as [|i t IH]; intros r; [reflexivity|]. cbn [fin_spec].
    destruct (fin_on i); [|apply IH]. destruct (en_finish sx i core r); apply IH.
  Qed.

  Lemma fin_spec_foldr l r :
    match PV.foldr (fun r m => en_finish sx m core r) (filter fin_on l) r with
    | Ok r' => fin_spec l 0 r = (0, r')
    | Err _ => fst (fin_spec l 0 r) = -1
    end.
  Proof.
    revert r. induction l as [|i t IH]; intros r; [reflexivity|]. cbn [fin_spec filter].
    destruct (fin_on i); [|apply IH]. cbn [PV.foldr].
    destruct (en_finish sx i core r) as [r'|x]; [apply IH|apply fin_spec_failed].
  Qed.

  (* model_connect stops at the first failing hook *)
  Lemma for_list_con l (body : Z -> unit -> M unit) :
    (forall i st, In i l -> es_enabled st = en ->
       body i tt sx st = if con_on i then match en_connect sx i (es_rec st) with
                                          | Ok r => Ok (tt, with_rec st r)
                                          | Err _ => Err E_FAIL
                                          end
                         else Ok (tt, st)) ->
    forall st, es_enabled st = en ->
      for_list l tt body sx st =
      match PV.foldr (fun r m => en_connect sx m r) (filter con_on l) (es_rec st) with
      | Ok r => Ok (tt, with_rec st r)
      | Err _ => Err E_FAIL
      end.
  Proof.
    induction l as [|i t IH]; intros Hb st He.
    - cbn. rewrite with_rec_same. reflexivity.
    - cbn [for_list filter]. unfold bind. rewrite (Hb i st (or_introl eq_refl) He).
      assert (Hb' : forall i st, In i t -> es_enabled st = en ->
                body i tt sx st = if con_on i then match en_connect sx i (es_rec st) with
                                                   | Ok r => Ok (tt, with_rec st r) | Err _ => Err E_FAIL end
                                  else Ok (tt, st)) by (intros; apply Hb; [right|]; assumption).
      destruct (con_on i).
      + cbn [PV.foldr]. destruct (en_connect sx i (es_rec st)) as [r|x]; [|reflexivity].
        rewrite (IH Hb' (with_rec st r) He). reflexivity.
      + apply (IH Hb' st He).
  Qed.
End Loops.

Lemma hook_null sx s h : is_null (hook_of sx s h) = match s with Some m => negb (en_hook sx m h) | None => true end.
Proof. unfold hook_of. destruct s as [m|]; [destruct (en_hook sx m h)|]; reflexivity. Qed.

Lemma model_finish_run sx st : models_wf sx st ->
  G.model_finish (Some tt) tt sx st =
  match PV.foldr (fun r m => en_finish sx m (core_of (es_models st)) r) (finish_order sx st) (es_rec st) with
  | Ok r => Ok (tt, with_rec st r)
  | Err _ => Err E_FAIL
  end.
Proof.
  intros [Hen Hreg]. unfold G.model_finish, for_range.
  cbv beta delta [bind_ bind eval].
  match goal with |- context [for_list _ _ ?b] => set (body := b) end. cbv beta iota.
  rewrite (for_list_fin sx (es_enabled st) (core_of (es_models st)) (zrange 0 256) body); [|
    intros i acc st' Hi He Hc | reflexivity | reflexivity].
  - unfold finish_order. change (fun m : Z => memz m (es_enabled st) && en_hook sx m HFinish) with (fin_on sx (es_enabled st)).
    pose proof (fin_spec_foldr sx (es_enabled st) (core_of (es_models st)) (zrange 0 256) (es_rec st)) as H.
    destruct (PV.foldr _ (filter (fin_on sx (es_enabled st)) (zrange 0 256)) (es_rec st)) as [r|x].
    + rewrite H. reflexivity.
    + cbn [fst snd]. unfold ite. rewrite H. reflexivity.
  - apply in_zrange in Hi. subst body. cbv beta. munf. cbn [is_null negb].
    unfold get_model_enabled. rewrite ix_flags by lia. rewrite b2z_test. rewrite spec_at by lia. rewrite He.
    unfold fin_on. destruct (memz i (es_enabled st)) eqn:Ee; cbn [negb andb]; [|reflexivity].
    assert (Er : memz i (en_registered sx) = true) by (apply Hen; exact Ee). rewrite Er. cbn [is_null negb].
    unfold get_model_spec_finish. rewrite hook_null.
    destruct (en_hook sx i HFinish) eqn:Eh; cbn [negb]; [|reflexivity].
    unfold call_finish. rewrite Eh, Hc.
    destruct (en_finish sx i (core_of (es_models st)) (es_rec st')) as [r|x]; reflexivity.
Qed.

Lemma closed_state_files st fth fcpu :
  PV.pvt_close (PV.rc_th (es_rec st)) = Ok fth -> PV.pvt_close (PV.rc_cpu (es_rec st)) = Ok fcpu ->
  closed_as (closed_state st (PV.f_row fth) (PV.f_row fcpu)) 0 fth /\ closed_as (closed_state st (PV.f_row fth) (PV.f_row fcpu)) 1 fcpu.
Proof.
  unfold PV.pvt_close, PV.bindr. intros H1 H2.
  destruct (PV.prf_close (PV.v_prf (PV.rc_th (es_rec st)))) as [a|]; [|discriminate].
  destruct (PV.prf_close (PV.v_prf (PV.rc_cpu (es_rec st)))) as [b|]; [|discriminate].
  injection H1 as <-. injection H2 as <-. split; repeat split.
Qed.

(* (2) emu_finish: the models' finish hooks in slot order, THEN both PVTs are closed (prv header rewritten with the
   recorder's current time, pcf, row); any failure gives an error *)
Theorem emu_finish_from_source sx st : models_wf sx st -> es_io st = [io0; io0] ->
  G.emu_finish tt sx st =
  match PV.foldr (fun r m => en_finish sx m (core_of (es_models st)) r) (finish_order sx st) (es_rec st) with
  | Err _ => Err E_FAIL
  | Ok r2 =>
    match PV.pvt_close (PV.rc_th r2), PV.pvt_close (PV.rc_cpu r2) with
    | Ok fth, Ok fcpu => Ok (tt, closed_state (with_rec st r2) (PV.f_row fth) (PV.f_row fcpu))
    | _, _ => Err E_FAIL
    end
  end.
Proof.
  intros Hwf Hio. unfold G.emu_finish. munf. unfold emu_stat_report, ret, addr_emu_model, addr_emu_recorder.
  rewrite (model_finish_run sx st Hwf).
  destruct (PV.foldr _ (finish_order sx st) (es_rec st)) as [r2|x].
  - cbn [Z.eqb]. rewrite (recorder_finish_run sx (with_rec st r2)) by exact Hio.
    unfold PV.pvt_close, PV.bindr. cbn [es_rec with_rec].
    destruct (PV.prf_close (PV.v_prf (PV.rc_th r2))) as [a|]; [|reflexivity].
    destruct (PV.prf_close (PV.v_prf (PV.rc_cpu r2))) as [b|]; reflexivity.
  - change (Nat.eqb E_FAIL E_FAIL) with true. cbv iota. rewrite (recorder_finish_run sx st Hio).
    destruct (PV.prf_close (PV.v_prf (PV.rc_th (es_rec st)))) as [a|]; [|reflexivity].
    destruct (PV.prf_close (PV.v_prf (PV.rc_cpu (es_rec st)))) as [b|]; reflexivity.
Qed.

(* what the closed files are: PvDefs.pvt_close of the recorder the finish hooks left; in particular the PRV header
   carries that recorder's time, i.e. the last time recorder_advance set *)
Theorem emu_finish_files sx st st' : models_wf sx st -> es_io st = [io0; io0] ->
  G.emu_finish tt sx st = Ok (tt, st') ->
  exists r2 fth fcpu,
    PV.foldr (fun r m => en_finish sx m (core_of (es_models st)) r) (finish_order sx st) (es_rec st) = Ok r2 /\
    PV.pvt_close (PV.rc_th r2) = Ok fth /\ PV.pvt_close (PV.rc_cpu r2) = Ok fcpu /\
    closed_as st' 0 fth /\ closed_as st' 1 fcpu /\
    PV.f_prv fth = PV.prv_close (PV.v_prv (PV.rc_th r2)) /\ PV.f_prv fcpu = PV.prv_close (PV.v_prv (PV.rc_cpu r2)).
Proof.
  intros Hwf Hio. rewrite (emu_finish_from_source sx st Hwf Hio).
  destruct (PV.foldr _ (finish_order sx st) (es_rec st)) as [r2|x]; [|discriminate].
  destruct (PV.pvt_close (PV.rc_th r2)) as [fth|] eqn:E1; [|discriminate].
  destruct (PV.pvt_close (PV.rc_cpu r2)) as [fcpu|] eqn:E2; [|discriminate].
  intros H. injection H as <-. exists r2, fth, fcpu.
  destruct (closed_state_files (with_rec st r2) fth fcpu E1 E2) as [C1 C2].
  assert (P1 : PV.f_prv fth = PV.prv_close (PV.v_prv (PV.rc_th r2))).
  { unfold PV.pvt_close, PV.bindr in E1. destruct (PV.prf_close _); [injection E1 as <-; reflexivity|discriminate]. }
  assert (P2 : PV.f_prv fcpu = PV.prv_close (PV.v_prv (PV.rc_cpu r2))).
  { unfold PV.pvt_close, PV.bindr in E2. destruct (PV.prf_close _); [injection E2 as <-; reflexivity|discriminate]. }
  split; [reflexivity|]. split; [exact E1|]. split; [exact E2|]. split; [exact C1|]. split; [exact C2|]. split; [exact P1|exact P2].
Qed.

(* with C13_close_rewrites_header: the thread PRV file on disk after emu_finish is the header for the recorder's last
   time followed by the records written during the run *)
Theorem emu_finish_header sx st st' : models_wf sx st -> es_io st = [io0; io0] ->
  G.emu_finish tt sx st = Ok (tt, st') ->
  exists r2,
    PV.foldr (fun r m => en_finish sx m (core_of (es_models st)) r) (finish_order sx st) (es_rec st) = Ok r2 /\
    forall (i : nat) v body, get_pvt r2 i = Some v ->
      PV.pv_file (PV.v_prv v) = PV.prv_header 0 (PV.pv_nrows (PV.v_prv v)) ++ body ->
      length (PV.prv_header (PV.pv_time (PV.v_prv v)) (PV.pv_nrows (PV.v_prv v))) = length (PV.prv_header 0 (PV.pv_nrows (PV.v_prv v))) ->
      io_prv (io_at st' i) = Some (PV.prv_header (PV.pv_time (PV.v_prv v)) (PV.pv_nrows (PV.v_prv v)) ++ body).
Proof.
  intros Hwf Hio H. destruct (emu_finish_files sx st st' Hwf Hio H) as (r2 & fth & fcpu & F & _ & _ & [C1 _] & [C2 _] & P1 & P2).
  exists r2. split; [exact F|]. intros i v body Hv Hf Hl.
  destruct i as [|[|i]]; cbn [get_pvt] in Hv; [| |discriminate]; injection Hv as <-.
  - rewrite C1, P1. rewrite (PvThms.prv_close_header _ body Hf Hl). reflexivity.
  - rewrite C2, P2. rewrite (PvThms.prv_close_header _ body Hf Hl). reflexivity.
Qed.

(* emu_connect: the models' connect hooks in slot order, then one propagation *)
Lemma model_connect_run sx st : models_wf sx st ->
  G.model_connect (Some tt) tt sx st =
  match PV.foldr (fun r m => en_connect sx m r) (connect_order sx st) (es_rec st) with
  | Ok r => Ok (tt, with_rec st r)
  | Err _ => Err E_FAIL
  end.
Proof.
  intros [Hen Hreg]. unfold G.model_connect, for_range. cbv beta delta [bind_ bind eval].
  match goal with |- context [for_list _ _ ?b] => set (body := b) end. cbv beta iota.
  rewrite (for_list_con sx (es_enabled st) (zrange 0 256) body); [|intros i st' Hi He|reflexivity].
  - unfold connect_order. change (fun m : Z => memz m (es_enabled st) && en_hook sx m HConnect) with (con_on sx (es_enabled st)).
    destruct (PV.foldr _ _ (es_rec st)); reflexivity.
  - apply in_zrange in Hi. subst body. cbv beta. munf. cbn [is_null negb].
    unfold get_model_enabled. rewrite ix_flags by lia. rewrite b2z_test. rewrite spec_at by lia. rewrite He.
    unfold con_on. destruct (memz i (es_enabled st)) eqn:Ee; cbn [negb andb]; [|reflexivity].
    assert (Er : memz i (en_registered sx) = true) by (apply Hen; exact Ee). rewrite Er. cbn [is_null negb].
    unfold get_model_spec_connect. rewrite hook_null.
    destruct (en_hook sx i HConnect) eqn:Eh; cbn [negb]; [|reflexivity].
    unfold call_connect. rewrite Eh.
    destruct (en_connect sx i (es_rec st')) as [r|x]; reflexivity.
Qed.

Theorem emu_connect_from_source sx st : models_wf sx st ->
  G.emu_connect tt sx st =
  match PV.foldr (fun r m => en_connect sx m r) (connect_order sx st) (es_rec st) with
  | Ok r => bay_propagate (Some tt) sx (with_rec st r)
  | Err _ => Err E_FAIL
  end.
Proof.
  intros Hwf. unfold G.emu_connect. munf. unfold addr_emu_model, addr_emu_bay. rewrite (model_connect_run sx st Hwf).
  destruct (PV.foldr _ _ (es_rec st)) as [r|x]; [|reflexivity].
  destruct (bay_propagate (Some tt) sx (with_rec st r)) as [[[] st']|x]; reflexivity.
Qed.

(* ---- the whole replay: ovniemu's `while ((ret = emu_step(&emu)) == 0)` *)
Fixpoint emu_run (fuel : nat) (sx : eenv) (st : estate) : result estate :=
  match fuel with
  | O => Err E_TRAP
  | S f =>
    match G.emu_step tt sx st with
    | Err e => Err e
    | Ok (r, st') => if r =? 0 then emu_run f sx st' else Ok st'
    end
  end.

Definition who_of (sx : eenv) (e : PL.oev) : nat := match en_lpt sx (PL.o_id e) with Some w => w | None => 0%nat end.
(* the timed events PvDefs.pv_run_from is given: Paraver time (dclock), thread, decoded event *)
Definition evs_of (sx : eenv) (en : list Z) (oevs : list PL.oev) : list (Z * nat * event) :=
  map (fun e => (PL.o_dclock e, who_of sx e, event_of sx en e)) oevs.

Lemma pstep_err_not_ok sorted offs pst v : PL.pstep sorted offs pst = PL.SErr v -> v <> PL.VOk.
Proof.
  unfold PL.pstep, PL.restep. intros H Hv. subst v.
  destruct (PL.p_cur pst) as [[id slast]|].
  - destruct (nth id (PL.p_rem pst) []) as [|e0 r0].
    + destruct (HeapDefs.pop_max PL.stream_cmp (PL.p_heap pst)) as [[[k i] h']|]; [|discriminate].
      cbv zeta in H. destruct (sorted && _); [discriminate|]. destruct (nth i (PL.p_rem pst) []); discriminate.
    + destruct (sorted && _); [discriminate|]. cbn [PL.p_heap PL.p_clk PL.p_rem] in H.
      destruct (HeapDefs.pop_max PL.stream_cmp _) as [[[k i] h']|]; [|discriminate].
      cbv zeta in H. destruct (sorted && _); [discriminate|]. destruct (nth i (PL.p_rem pst) []); discriminate.
  - destruct (HeapDefs.pop_max PL.stream_cmp (PL.p_heap pst)) as [[[k i] h']|]; [|discriminate].
    cbv zeta in H. destruct (sorted && _); [discriminate|]. destruct (nth i (PL.p_rem pst) []); discriminate.
Qed.

Theorem emu_run_is_pv_run fuel : forall sx st cst oevs,
  PL.ploop true (en_offs sx) fuel (es_player st) = (oevs, PL.VOk) ->
  (forall e, In e oevs -> en_lpt sx (PL.o_id e) <> None /\ 0 <= model_of sx e < 256) ->
  models_wf sx st -> es_models st = MSem cst None ->
  match PV.pv_run_from (en_sx sx) cst (es_rec st) 0 (evs_of sx (es_enabled st) oevs) with
  | Ok (cst', r') => exists st', emu_run fuel sx st = Ok st' /\ es_models st' = MSem cst' None /\ es_rec st' = r' /\ es_finished st' = 1
  | Err _ => exists x, emu_run fuel sx st = Err x
  end.
Proof.
  induction fuel as [|f IH]; intros sx st cst oevs Hp Hev Hwf Hms.
  - cbn in Hp. discriminate.
  - cbn [PL.ploop] in Hp. cbn [emu_run].
    destruct (PL.pstep true (en_offs sx) (es_player st)) as [|v|e pst'] eqn:Eps; cbv iota beta in Hp.
    + injection Hp as <-. cbn [evs_of map PV.pv_run_from]. rewrite (emu_step_end sx st Eps). cbn [Z.eqb].
      eexists. split; [reflexivity|]. split; [exact Hms|]. split; reflexivity.
    + injection Hp as _ Hv. exfalso. exact (pstep_err_not_ok _ _ _ _ Eps Hv).
    + destruct (PL.ploop true (en_offs sx) f pst') as [l v] eqn:El. injection Hp as <- ->.
      destruct (Hev e (or_introl eq_refl)) as [Hl Hm].
      destruct (en_lpt sx (PL.o_id e)) as [who|] eqn:Elpt; [|congruence].
      rewrite (emu_step_from_source sx st e pst' who cst Eps Elpt Hm Hwf Hms).
      cbn [evs_of map]. rewrite pv_run_from_iter. rewrite Z.sub_0_r. unfold who_of at 1. rewrite Elpt.
      destruct (pv_iter (en_sx sx) cst (es_rec st) (PL.o_dclock e) who (event_of sx (es_enabled st) e)) as [[c1 r1]|x].
      2:{ eexists; reflexivity. }
      cbn [Z.eqb].
      set (st1 := with_models (with_rec (delivered st pst' e who) r1) (MSem c1 None)).
      specialize (IH sx st1 c1 l El (fun e' H => Hev e' (or_intror H)) Hwf eq_refl).
      exact IH.
Qed.

(* ---- emu_init: order and failure propagation of the start-up sequence *)
Lemma for_list_id sx st l (body : Z -> unit -> M unit) :
  (forall i, In i l -> body i tt sx st = Ok (tt, st)) -> for_list l tt body sx st = Ok (tt, st).
Proof.
  induction l as [|i t IH]; intros Hb; [reflexivity|]. cbn [for_list]. unfold bind. rewrite (Hb i (or_introl eq_refl)).
  apply IH. intros; apply Hb; right; assumption.
Qed.

Lemma model_create_run sx st : models_wf sx st -> G.model_create (Some tt) tt sx st = Ok (tt, st).
Proof.
  intros [Hen Hreg]. unfold G.model_create, for_range. cbv beta delta [bind_ bind eval].
  match goal with |- context [for_list _ _ ?b] => set (body := b) end. cbv beta iota.
  rewrite (for_list_id sx st (zrange 0 256) body); [reflexivity|]. intros i Hi.
  apply in_zrange in Hi. subst body. cbv beta. munf. cbn [is_null negb].
  unfold get_model_enabled. rewrite ix_flags by lia. rewrite b2z_test. rewrite spec_at by lia.
  destruct (memz i (es_enabled st)) eqn:Ee; cbn [negb]; [|reflexivity].
  assert (Er : memz i (en_registered sx) = true) by (apply Hen; exact Ee). rewrite Er. cbn [is_null negb].
  unfold get_model_spec_create. rewrite hook_null.
  destruct (en_hook sx i HCreate) eqn:Eh; cbn [negb]; [|reflexivity].
  unfold call_create. rewrite Eh. reflexivity.
Qed.

(* the callees of emu_init that can fail, in the order of the C *)
Definition init_steps : list nat := [2; 3; 4; 6; 7; 9; 10]%nat.

Theorem emu_init_from_source sx st argc argv : models_wf sx st ->
  G.emu_init tt argc argv sx st =
  if forallb (en_init_ok sx) init_steps
  then Ok (tt, with_log st ([10; 9; 8; 7; 6; 5; 4; 3; 2; 1; 0]%nat ++ es_log st))
  else Err E_FAIL.
Proof.
  intros Hwf. unfold G.emu_init. munf.
  unfold zero_emu, emu_args_init, trace_load, system_init, recorder_init, bay_init, system_connect, player_init, model_init,
    models_register, model_probe, emu_stat_init, ret, init_proc, init_action, init_steps. cbn [forallb].
  destruct (en_init_ok sx 2); [|reflexivity]. destruct (en_init_ok sx 3); [|reflexivity].
  destruct (en_init_ok sx 4); [|reflexivity]. destruct (en_init_ok sx 6); [|reflexivity].
  destruct (en_init_ok sx 7); [|reflexivity]. destruct (en_init_ok sx 9); [|reflexivity].
  destruct (en_init_ok sx 10); [|reflexivity]. cbn [andb].
  rewrite model_create_run; [destruct st; reflexivity|].
  exact Hwf.
Qed.

(* ---- the slot order of the loops is PvDefs.enabled_order (increasing model id) *)
Lemma filter_filter_imp {A} (P Q : A -> bool) l : (forall x, P x = true -> Q x = true) -> filter P l = filter P (filter Q l).
Proof.
  intros H. induction l as [|a l IH]; [reflexivity|]. cbn [filter].
  destruct (P a) eqn:Ep.
  - rewrite (H a Ep). cbn [filter]. rewrite Ep, IH. reflexivity.
  - destruct (Q a); [cbn [filter]; rewrite Ep|]; exact IH.
Qed.

Lemma filter_andb {A} (P h : A -> bool) l : filter (fun m => P m && h m) l = filter h (filter P l).
Proof.
  induction l as [|a l IH]; [reflexivity|]. cbn [filter].
  destruct (P a); cbn [andb filter]; [destruct (h a)|]; rewrite IH; reflexivity.
Qed.

Lemma slots_are_model_order : filter (fun m => memz m PV.model_order) (zrange 0 256) = PV.model_order.
Proof. vm_compute. reflexivity. Qed.

Theorem slot_order en (h : Z -> bool) : (forall m, memz m en = true -> memz m PV.model_order = true) ->
  filter (fun m => memz m en && h m) (zrange 0 256) = filter h (PV.enabled_order en).
Proof.
  intros H. rewrite (filter_filter_imp _ (fun m => memz m PV.model_order)).
  - rewrite slots_are_model_order. unfold PV.enabled_order. apply filter_andb.
  - intros m Hm. apply andb_true_iff in Hm. apply H, Hm.
Qed.

Theorem connect_order_is_enabled_order sx st :
  (forall m, memz m (es_enabled st) = true -> memz m PV.model_order = true) ->
  connect_order sx st = filter (fun m => en_hook sx m HConnect) (PV.enabled_order (es_enabled st)) /\
  finish_order sx st = filter (fun m => en_hook sx m HFinish) (PV.enabled_order (es_enabled st)).
Proof. intros H. split; apply slot_order; exact H. Qed.

(* ================================================================== a concrete trace through the generated main loop *)
(* the trace of Proofs/PvThms.v (2 threads = 2 streams, nOS-V and marks): emu_connect, emu_step until +1, emu_finish of
   the GENERATED code, with the hooks of PvDefs, leave the files PvDefs.emulate computes *)
From OV Require Proofs.PvThms.

Definition pv_connect_hook (sx : static) (ms : list MarkDefs.mtype) (m : Z) (r : PV.recorder) : result PV.recorder :=
  PV.model_connect Pv_gen.pv_chans sx ms r m.
(* model_<m>_finish: the ovni model refuses threads that are not dead; then finish_pvt on both PVTs *)
Definition pv_finish_hook (sx : static) (tl : list (PV.tkey * str)) (m : Z) (st : state) (r : PV.recorder) : result PV.recorder :=
  if (m =? M_OVNI) && negb (all_dead st) then Err E_END
  else PV.bindr (PV.on_th r (PV.finish_pvt Pv_gen.pv_chans sx (types st) tl m))
                (fun r1 => PV.on_cpu r1 (PV.finish_pvt Pv_gen.pv_chans sx (types st) tl m)).

Definition ex_content (revs : list PV.raw_ev) (id : nat) (pay : Z) : rawc :=
  match nth_error revs (Z.to_nat pay) with
  | Some (_, _, mcv, p, j, aux) => (mcv, p, j, aux)
  | None => ((0, 0, 0), [], false, 0)
  end.
Definition ex_streams (revs : list PV.raw_ev) (n : nat) : list (list PL.ev) :=
  map (fun id => flat_map (fun x : nat * PV.raw_ev => let '(k, (tm, who, _, _, _, _)) := x in
                                                     if Nat.eqb who id then [(tm, Z.of_nat k)] else [])
                          (combine (seq 0 (length revs)) revs)) (seq 0 n).

Definition ex_env (en : list Z) : eenv :=
  {| en_sx := PvThms.pv_ex_sx; en_offs := [0; 0];
     en_content := ex_content PvThms.pv_ex_revs;
     en_lpt := fun id => if Nat.ltb id 2 then Some id else None;
     en_registered := PV.model_order;
     en_hook := fun m h => match h with HFinish => negb (m =? M_KERNEL) | _ => true end;
     en_connect := pv_connect_hook PvThms.pv_ex_sx PvThms.pv_ex_ms;
     en_finish := pv_finish_hook PvThms.pv_ex_sx (PV.tlabels_of PvThms.pv_ex_sx PvThms.pv_ex_revs);
     en_init_ok := fun _ => true |}.

Definition ex_st0 (en : list Z) : result estate :=
  match PV.system_connect PvThms.pv_ex_sx PvThms.pv_ex_phy, PL.pinit true [0; 0] 0 (ex_streams PvThms.pv_ex_revs 2) [] with
  | Ok r, inr h =>
    Ok {| es_player := PL.mkpst h (ex_streams PvThms.pv_ex_revs 2) None None; es_pev := None; es_cur := cur0; es_finished := 0;
          es_enabled := en; es_models := MSem (init PvThms.pv_ex_sx) None; es_rec := r; es_io := [io0; io0]; es_log := [] |}
  | _, _ => Err E_TRAP
  end.

Definition ex_main (en : list Z) : result estate :=
  match ex_st0 en with
  | Err e => Err e
  | Ok st0 =>
    match G.emu_connect tt (ex_env en) st0 with
    | Err e => Err e
    | Ok (_, st1) =>
      match emu_run 20 (ex_env en) st1 with
      | Err e => Err e
      | Ok st2 => match G.emu_finish tt (ex_env en) st2 with Err e => Err e | Ok (_, st3) => Ok st3 end
      end
    end
  end.

Definition ex_files (st : estate) (i : nat) : option (str * str * str) :=
  match io_prv (io_at st i), io_pcf (io_at st i), io_row (io_at st i) with
  | Some a, Some b, Some c => Some (a, b, c)
  | _, _, _ => None
  end.
Definition files_of (f : PV.pvfiles) : str * str * str := (PV.f_prv f, PV.f_pcf f, PV.f_row f).
