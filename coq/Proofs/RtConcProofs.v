(* Proofs about the rtconc model (Rt/RtConcDefs.v): for ALL numbers of threads,
   ALL programs and ALL schedules.  Statements are collected in Props/Properties_C11.v. *)
From Coq Require Import List ZArith Bool Arith Lia.
From OV Require Import Rt.RtConcDefs.
Import ListNotations.

(* ------------------------------------------------------------------ lists *)
Lemma nth_set_eq {A} : forall (l : list A) i x y,
  nth_error l i = Some y -> nth_error (set_nth i x l) i = Some x.
Proof. induction l; intros [|i] x y H; simpl in *; try discriminate; eauto. Qed.

Lemma nth_set_neq {A} : forall (l : list A) i j x,
  i <> j -> nth_error (set_nth i x l) j = nth_error l j.
Proof.
  induction l; intros [|i] [|j] x H; simpl; auto; try congruence;
    try (apply IHl; congruence).
Qed.

Lemma run_ind mv (P : config -> Prop) :
  (forall c i c', P c -> step mv c i = Some c' -> P c') ->
  forall s c, P c -> P (run mv c s).
Proof.
  intros Hs s. induction s as [|i s IH]; intros c Hc; simpl; auto.
  destruct (step mv c i) eqn:E; eauto.
Qed.

(* ------------------------------------------------------------------ one step, taken apart *)
Lemma step_inv mv c i c' : step mv c i = Some c' ->
  exists t r, nth_error (c_thr c) i = Some t /\
    tstep mv i t (c_st c) (fs_get (t_tid t) (c_fs c)) = Some r /\
    c_st c' = r_st r /\
    c_fs c' = (match r_file r with Some fl' => fs_put (t_tid (r_thr r)) fl' (c_fs c) | None => c_fs c end) /\
    c_thr c' = set_nth i (r_thr r) (c_thr c) /\
    c_trace c' = r_ev r :: c_trace c.
Proof.
  unfold step. destruct (nth_error (c_thr c) i) as [t|] eqn:N; [|discriminate].
  destruct (tstep mv i t (c_st c) (fs_get (t_tid t) (c_fs c))) as [r|] eqn:T; [|discriminate].
  intros H. inversion H; subst; clear H. exists t, r. simpl. repeat split; auto.
Qed.

Lemma fetch_inv mv t a r cs : fetch mv t = Some (a, r, cs) ->
  t_dead t = false /\
  ((t_cur t = a :: r /\ cs = t_todo t) \/
   (t_cur t = [] /\ exists c, t_todo t = c :: cs /\ expand mv c = a :: r)).
Proof.
  unfold fetch. destruct (t_dead t); [discriminate|]. intros H. split; auto.
  destruct (t_cur t) as [|a' r'].
  - destruct (t_todo t) as [|c cs']; [discriminate|].
    destruct (expand mv c) as [|a' r'] eqn:E; [discriminate|].
    inversion H; subst. right. split; auto. exists c. auto.
  - inversion H; subst. left. auto.
Qed.

Lemma dead_stuck mv i t st fl : t_dead t = true -> tstep mv i t st fl = None.
Proof. intros D. unfold tstep, fetch. rewrite D. reflexivity. Qed.

Lemma local_exec_ctl l t t' : local_exec l t = LOk t' ->
  t_todo t' = t_todo t /\ t_cur t' = t_cur t /\ t_dead t' = t_dead t /\ t_tid t' = t_tid t /\
  t_seen t' = t_seen t /\ t_out t' = t_out t.
Proof.
  destruct l; simpl; intros H;
    repeat match type of H with
           | context [if ?b then _ else _] => destruct b
           end; try discriminate; inversion H; subst; simpl; auto 10.
Qed.

(* what a step does to the control part and the directory key of the stepping thread *)
Lemma tstep_ctl mv i t st fl r a rest cs :
  tstep mv i t st fl = Some r -> fetch mv t = Some (a, rest, cs) ->
  t_todo (r_thr r) = cs /\
  (t_cur (r_thr r) = rest \/ (t_cur (r_thr r) = [])) /\
  (t_tid (r_thr r) = t_tid t \/ exists z, a = AFs (FsCreate z) /\ z <> 0%Z /\ t_tid (r_thr r) = z).
Proof.
  unfold tstep. intros H F. rewrite F in H. inversion H; subst; clear H.
  destruct a; simpl.
  - destruct (is_st st UNINIT); simpl; auto.
  - auto.
  - destruct (is_st st READY); simpl; auto.
  - destruct (is_st st READY); simpl; auto.
  - auto.
  - auto.
  - destruct (local_exec l t) eqn:L; simpl; auto.
    apply local_exec_ctl in L. destruct L as (_ & _ & _ & Ht & _). rewrite Ht. auto.
  - destruct o; simpl.
    + destruct (Z.eqb tid 0) eqn:Z0; simpl; auto.
      split; auto. split; auto. right. exists tid. apply Z.eqb_neq in Z0. auto.
    + auto.
    + auto.
Qed.

(* ================================================================== isolation *)
(* TIDs a thread may still use as a directory key *)
Fixpoint tids_acts (l : list action) : list Z :=
  match l with
  | [] => []
  | AFs (FsCreate z) :: r => z :: tids_acts r
  | _ :: r => tids_acts r
  end.
Definition owns (t : thr) : list Z :=
  (if (t_tid t =? 0)%Z then [] else [t_tid t]) ++ tids_acts (t_cur t) ++ tids_of (t_todo t).

Lemma tids_expand mv c z : In z (tids_acts (expand mv c)) -> c = ThreadInit z.
Proof.
  destruct c, mv; simpl; intros H;
    repeat (destruct H as [H|H]; [subst; auto|]); try contradiction.
Qed.

Lemma tids_acts_tail a r z : In z (tids_acts r) -> In z (tids_acts (a :: r)).
Proof. destruct a; simpl; auto. destruct o; simpl; auto. Qed.

Lemma tids_of_tail c cs z : In z (tids_of cs) -> In z (tids_of (c :: cs)).
Proof. destruct c; simpl; auto. Qed.

Lemma owns_step mv i t st fl r :
  tstep mv i t st fl = Some r -> forall z, In z (owns (r_thr r)) -> In z (owns t).
Proof.
  intros H. assert (H0 := H). unfold tstep in H0.
  destruct (fetch mv t) as [[[a rest] cs]|] eqn:F; [|discriminate]. clear H0.
  destruct (tstep_ctl _ _ _ _ _ _ _ _ _ H F) as (Htodo & Hcur & Htid).
  destruct (fetch_inv _ _ _ _ _ F) as (_ & Hf).
  assert (Hacts : forall z, In z (tids_acts (a :: rest)) -> In z (owns t)).
  { intros z Hz. unfold owns. rewrite !in_app_iff.
    destruct Hf as [(Hc & _) | (Hc & c & Ht & He)].
    - rewrite Hc. auto.
    - rewrite <- He in Hz. apply tids_expand in Hz. subst c. rewrite Ht. simpl. auto. }
  intros z. unfold owns at 1. rewrite !in_app_iff. intros [Hz | [Hz | Hz]].
  - destruct Htid as [E | (z' & Ea & Hz' & E)].
    + rewrite E in Hz. unfold owns. rewrite in_app_iff. auto.
    + rewrite E in Hz. apply Z.eqb_neq in Hz'. rewrite Hz' in Hz. destruct Hz as [Hz|[]]. subst z'.
      apply Hacts. subst a. simpl. auto.
  - apply Hacts. destruct Hcur as [E|E]; rewrite E in Hz; [|contradiction].
    apply tids_acts_tail. exact Hz.
  - rewrite Htodo in Hz. unfold owns. rewrite !in_app_iff.
    destruct Hf as [(_ & Hc) | (_ & c & Ht & _)].
    + rewrite Hc in Hz. auto.
    + rewrite Ht. right. right. apply tids_of_tail. exact Hz.
Qed.

(* the file part of a step *)
Lemma tstep_fs mv i t st fl r a rest cs :
  tstep mv i t st fl = Some r -> fetch mv t = Some (a, rest, cs) ->
  match a with
  | AFs o => r_file r = Some (fst (fs_exec o t fl)) /\ t_tid (r_thr r) = t_tid (snd (fs_exec o t fl))
  | _ => r_file r = None /\ t_tid (r_thr r) = t_tid t
  end.
Proof.
  unfold tstep. intros H F. rewrite F in H. inversion H; subst; clear H.
  destruct a; simpl; auto.
  - destruct (is_st st UNINIT); simpl; auto.
  - destruct (is_st st READY); simpl; auto.
  - destruct (is_st st READY); simpl; auto.
  - destruct (local_exec l t) eqn:L; simpl; auto.
    apply local_exec_ctl in L. destruct L as (_ & _ & _ & Ht & _). auto.
  - destruct (fs_exec o t fl) as [fl' t'] eqn:E. simpl. auto.
Qed.

Lemma fs_exec_tid o t fl : t_tid (snd (fs_exec o t fl)) = t_tid t \/
  exists z, o = FsCreate z /\ z <> 0%Z /\ t_tid (snd (fs_exec o t fl)) = z /\ fst (fs_exec o t fl) <> None.
Proof.
  destruct o; simpl; auto.
  destruct (Z.eqb tid 0) eqn:E; simpl; auto.
  right. exists tid. apply Z.eqb_neq in E. repeat split; auto. discriminate.
Qed.

Lemma fs_exec_none o t fl : fst (fs_exec o t fl) = None -> fl = None /\ t_tid (snd (fs_exec o t fl)) = t_tid t.
Proof.
  destruct o; simpl.
  - destruct (Z.eqb tid 0); simpl; auto. discriminate.
  - destruct fl; simpl; auto. discriminate.
  - destruct fl; simpl; auto. discriminate.
Qed.

Lemma fs_get_put_eq k fl m : fs_get k (fs_put k fl m) = match fl with Some f => Some f | None => fs_get k m end.
Proof. destruct fl; simpl; auto. rewrite Z.eqb_refl. auto. Qed.

Lemma fs_get_put_neq k k' fl m : k <> k' -> fs_get k (fs_put k' fl m) = fs_get k m.
Proof. intros H. destruct fl; simpl; auto. apply Z.eqb_neq in H. rewrite H. auto. Qed.

(* the outcome of a step that does not kill the thread does not depend on the shared state:
   it is the step of the sequential reference *)
Lemma tstep_fav mv i t st fl r a rest cs :
  tstep mv i t st fl = Some r -> fetch mv t = Some (a, rest, cs) -> t_dead (r_thr r) = false ->
  exists r', tstep mv 0 t (fav a) fl = Some r' /\ r_thr r' = r_thr r /\ r_file r' = r_file r.
Proof.
  unfold tstep. intros H F D. rewrite F in *. inversion H; subst; clear H.
  destruct a; simpl in *.
  - destruct (is_st st UNINIT); simpl in *; [|discriminate]. eexists; split; [reflexivity|]. auto.
  - eexists; split; [reflexivity|]. auto.
  - destruct (is_st st READY); simpl in *; [|discriminate]. eexists; split; [reflexivity|]. auto.
  - destruct (is_st st READY); simpl in *; [|discriminate]. eexists; split; [reflexivity|]. auto.
  - eexists; split; [reflexivity|]. auto.
  - eexists; split; [reflexivity|]. auto.
  - destruct (local_exec l t); eexists; (split; [reflexivity|]); auto.
  - destruct (fs_exec o t fl). eexists; split; [reflexivity|]. auto.
Qed.

(* k successful steps of the sequential reference *)
Fixpoint asteps (mv : bool) (k : nat) (s : thr * option file) : option (thr * option file) :=
  match k with
  | O => Some s
  | S k' => match astep mv s with Some s' => asteps mv k' s' | None => None end
  end.

Lemma asteps_snoc mv k : forall s s1 s2,
  asteps mv k s = Some s1 -> astep mv s1 = Some s2 -> asteps mv (S k) s = Some s2.
Proof.
  induction k; intros s s1 s2 H1 H2.
  - simpl in H1. inversion H1; subst. simpl. rewrite H2. auto.
  - simpl in H1. destruct (astep mv s) as [s'|] eqn:E; [|discriminate].
    change (asteps mv (S (S k)) s) with (match astep mv s with Some s' => asteps mv (S k) s' | None => None end).
    rewrite E. eapply IHk; eauto.
Qed.

Definition measure (mv : bool) (s : thr * option file) : nat :=
  (length (t_cur (fst s)) + nactions mv (t_todo (fst s)))%nat.

Lemma astep_measure mv s s' : astep mv s = Some s' -> (S (measure mv s') <= measure mv s)%nat.
Proof.
  destruct s as [t fl]. unfold astep.
  destruct (fetch mv t) as [[[a rest] cs]|] eqn:F; [|discriminate].
  destruct (tstep mv 0 t (fav a) fl) as [r|] eqn:T; [|discriminate].
  intros H. inversion H; subst; clear H.
  destruct (tstep_ctl _ _ _ _ _ _ _ _ _ T F) as (Htodo & Hcur & _).
  destruct (fetch_inv _ _ _ _ _ F) as (_ & Hf).
  unfold measure. simpl. rewrite Htodo.
  assert (Hl : (length (t_cur (r_thr r)) <= length rest)%nat).
  { destruct Hcur as [E|E]; rewrite E; simpl; lia. }
  destruct Hf as [(Hc & Ht) | (Hc & c & Ht & He)].
  - rewrite Hc, <- Ht. simpl. lia.
  - rewrite Hc, Ht. simpl. rewrite He. simpl. lia.
Qed.

Lemma asteps_measure mv k : forall s s', asteps mv k s = Some s' -> (k + measure mv s' <= measure mv s)%nat.
Proof.
  induction k; intros s s' H; simpl in H.
  - inversion H; subst. lia.
  - destruct (astep mv s) as [s1|] eqn:E; [|discriminate].
    apply astep_measure in E. apply IHk in H. lia.
Qed.

Lemma asteps_arun mv k : forall s s', asteps mv k s = Some s' -> astep mv s' = None ->
  forall m, (k <= m)%nat -> arun mv m s = s'.
Proof.
  induction k; intros s s' H N m Hm; simpl in H.
  - inversion H; subst. destruct m; simpl; auto. rewrite N. auto.
  - destruct (astep mv s) as [s1|] eqn:E; [|discriminate].
    destruct m; [lia|]. simpl. rewrite E. eapply IHk; eauto. lia.
Qed.

Definition fs0 (c : config) : Prop := fs_get 0 (c_fs c) = None.
Definition disjoint_owns (c : config) : Prop :=
  forall i j ti tj z, i <> j -> nth_error (c_thr c) i = Some ti -> nth_error (c_thr c) j = Some tj ->
    In z (owns ti) -> In z (owns tj) -> False.

Lemma owns_tid t : t_tid t <> 0%Z -> In (t_tid t) (owns t).
Proof. intros H. unfold owns. apply Z.eqb_neq in H. rewrite H. simpl. auto. Qed.

Lemma step_fs0 mv c i c' : step mv c i = Some c' -> fs0 c -> fs0 c'.
Proof.
  intros Hstep Z. destruct (step_inv _ _ _ _ Hstep) as (t & r & N & T & _ & Hfs & _).
  unfold fs0 in *. rewrite Hfs.
  assert (T0 := T). unfold tstep in T0.
  destruct (fetch mv t) as [[[a rest] cs]|] eqn:F; [|discriminate]. clear T0.
  assert (Hf := tstep_fs _ _ _ _ _ _ _ _ _ T F).
  destruct a; try (destruct Hf as (Hf & _); rewrite Hf; exact Z).
  destruct Hf as (Hf & Ht). rewrite Hf.
  destruct (Z.eq_dec (t_tid (r_thr r)) 0) as [E|E].
  - rewrite E. rewrite fs_get_put_eq.
    destruct (fst (fs_exec o t (fs_get (t_tid t) (c_fs c)))) eqn:X; auto.
    exfalso. destruct (fs_exec_tid o t (fs_get (t_tid t) (c_fs c))) as [Hs | (z & _ & Hz & Hz' & _)].
    + rewrite Hs in Ht. rewrite Ht in E. rewrite E in X.
      destruct o; simpl in X.
      * destruct (Z.eqb tid 0) eqn:Q; simpl in X; [rewrite Z in X; discriminate|].
        simpl in Hs. rewrite Q in Hs. simpl in Hs. apply Z.eqb_neq in Q. congruence.
      * rewrite Z in X. discriminate.
      * rewrite Z in X. discriminate.
    + congruence.
  - rewrite fs_get_put_neq; auto.
Qed.

Lemma step_disjoint mv c i c' : step mv c i = Some c' -> disjoint_owns c -> disjoint_owns c'.
Proof.
  intros Hstep D. destruct (step_inv _ _ _ _ Hstep) as (t & r & N & T & _ & _ & Hthr & _).
  assert (Ho := owns_step _ _ _ _ _ _ T).
  intros a b ta tb z Hab Na Nb Ha Hb. rewrite Hthr in Na, Nb.
  destruct (Nat.eq_dec a i) as [Ea|Ea]; destruct (Nat.eq_dec b i) as [Eb|Eb]; try congruence.
  - subst a. rewrite (nth_set_eq _ _ _ _ N) in Na. inversion Na; subst ta.
    rewrite nth_set_neq in Nb by auto. eapply (D i b); eauto.
  - subst b. rewrite (nth_set_eq _ _ _ _ N) in Nb. inversion Nb; subst tb.
    rewrite nth_set_neq in Na by auto. eapply (D a i); eauto.
  - rewrite nth_set_neq in Na, Nb by auto. eapply (D a b); eauto.
Qed.

Definition pfile (c : config) (t : thr) : option file := fs_get (t_tid t) (c_fs c).

(* the stepping thread: if it survives, it made a step of the sequential reference *)
Lemma step_self mv c i c' t :
  step mv c i = Some c' -> nth_error (c_thr c) i = Some t ->
  exists t', nth_error (c_thr c') i = Some t' /\
    (t_dead t' = false -> astep mv (t, pfile c t) = Some (t', pfile c' t')).
Proof.
  intros Hstep N. destruct (step_inv _ _ _ _ Hstep) as (t0 & r & N0 & T & _ & Hfs & Hthr & _).
  rewrite N in N0. inversion N0; subst t0. clear N0.
  exists (r_thr r). split. { rewrite Hthr. eapply nth_set_eq; eauto. }
  intros D. assert (T0 := T). unfold tstep in T0.
  destruct (fetch mv t) as [[[a rest] cs]|] eqn:F; [|discriminate]. clear T0.
  destruct (tstep_fav _ _ _ _ _ _ _ _ _ T F D) as (r' & T' & E1 & E2).
  unfold astep, pfile. rewrite F, T'. rewrite E1, E2. f_equal. f_equal.
  rewrite Hfs. assert (Hf := tstep_fs _ _ _ _ _ _ _ _ _ T F).
  destruct a; try (destruct Hf as (Hf & Ht); rewrite Hf, Ht; reflexivity).
  destruct Hf as (Hf & Ht). rewrite Hf. rewrite fs_get_put_eq.
  destruct (fst (fs_exec o t (fs_get (t_tid t) (c_fs c)))) eqn:X; auto.
  apply fs_exec_none in X. destruct X as (X1 & X2). rewrite Ht, X2. auto.
Qed.

(* the other threads: untouched, and so is their directory (distinct TIDs) *)
Lemma step_frame mv c i c' j tj :
  step mv c i = Some c' -> i <> j -> nth_error (c_thr c) j = Some tj ->
  disjoint_owns c -> fs0 c ->
  nth_error (c_thr c') j = Some tj /\ pfile c' tj = pfile c tj.
Proof.
  intros Hstep Hij Nj D Z. assert (Z' := step_fs0 _ _ _ _ Hstep Z).
  destruct (step_inv _ _ _ _ Hstep) as (t & r & N & T & _ & Hfs & Hthr & _).
  split. { rewrite Hthr. rewrite nth_set_neq; auto. }
  unfold pfile. destruct (Z.eq_dec (t_tid tj) 0) as [E0|E0].
  { rewrite E0. unfold fs0 in *. congruence. }
  rewrite Hfs. destruct (r_file r) as [fl'|]; auto.
  apply fs_get_put_neq. intros E.
  apply (D i j t tj (t_tid tj)); auto.
  - eapply owns_step; eauto. rewrite E. apply owns_tid. congruence.
  - apply owns_tid. auto.
Qed.

Definition iso_inv (mv : bool) (c0 c : config) : Prop :=
  disjoint_owns c /\ fs0 c /\
  forall i t0 t, nth_error (c_thr c0) i = Some t0 -> nth_error (c_thr c) i = Some t -> t_dead t = false ->
    exists k, asteps mv k (t0, pfile c0 t0) = Some (t, pfile c t).

Lemma dead_stays mv c i c' j t : step mv c i = Some c' -> nth_error (c_thr c) j = Some t -> t_dead t = true ->
  nth_error (c_thr c') j = Some t.
Proof.
  intros Hstep N D. destruct (step_inv _ _ _ _ Hstep) as (t0 & r & N0 & T & _ & _ & Hthr & _).
  rewrite Hthr. destruct (Nat.eq_dec i j).
  - subst j. rewrite N in N0. inversion N0; subst t0. rewrite dead_stuck in T; auto. discriminate.
  - rewrite nth_set_neq; auto.
Qed.

Lemma length_set_nth {A} : forall (l : list A) i x, length (set_nth i x l) = length l.
Proof. induction l; intros [|i] x; simpl; auto. Qed.

Lemma iso_step mv c0 c i c' : iso_inv mv c0 c -> step mv c i = Some c' -> iso_inv mv c0 c'.
Proof.
  intros (D & Z & H) Hstep. split; [eapply step_disjoint; eauto|]. split; [eapply step_fs0; eauto|].
  intros j t0 t' N0 N' Dd.
  destruct (step_inv _ _ _ _ Hstep) as (ti & r & Ni & T & _ & _ & Hthr & _).
  destruct (Nat.eq_dec i j) as [E|E].
  - subst j. destruct (step_self _ _ _ _ _ Hstep Ni) as (t'' & N'' & Hs).
    rewrite N' in N''. inversion N''; subst t''. specialize (Hs Dd).
    assert (Di : t_dead ti = false).
    { unfold tstep in T. destruct (fetch mv ti) as [[[a rest] cs]|] eqn:F; [|discriminate].
      apply fetch_inv in F. tauto. }
    destruct (H i t0 ti N0 Ni Di) as (k & Hk). exists (S k). eapply asteps_snoc; eauto.
  - assert (Nj : nth_error (c_thr c) j = Some t').
    { rewrite Hthr in N'. rewrite nth_set_neq in N'; auto. }
    destruct (step_frame _ _ _ _ _ _ Hstep E Nj D Z) as (_ & Hp).
    destruct (H j t0 t' N0 Nj Dd) as (k & Hk). exists k. rewrite Hp. exact Hk.
Qed.

Definition tids_disjoint (progs : list (list call)) : Prop :=
  forall i j pi pj z, i <> j -> nth_error progs i = Some pi -> nth_error progs j = Some pj ->
    In z (tids_of pi) -> In z (tids_of pj) -> False.

Lemma owns_thr0 p z : In z (owns (thr0 p)) -> In z (tids_of p).
Proof. unfold owns, thr0. simpl. auto. Qed.

Lemma iso_init_gen mv st flds progs : tids_disjoint progs ->
  iso_inv mv (mkCfg st flds [] (map thr0 progs) []) (mkCfg st flds [] (map thr0 progs) []).
Proof.
  intros TD. split; [|split].
  - intros i j ti tj z Hij Ni Nj Hi Hj. simpl in Ni, Nj.
    rewrite nth_error_map in Ni, Nj.
    destruct (nth_error progs i) as [pi|] eqn:Pi; [|discriminate].
    destruct (nth_error progs j) as [pj|] eqn:Pj; [|discriminate].
    simpl in Ni, Nj. inversion Ni; inversion Nj; subst.
    eapply (TD i j); eauto using owns_thr0.
  - reflexivity.
  - intros i t0 t N0 N _. rewrite N0 in N. inversion N; subst. exists O. reflexivity.
Qed.

Lemma done_stuck mv t fl : thr_done t = true -> astep mv (t, fl) = None.
Proof.
  unfold thr_done, astep, fetch. intros H. apply andb_true_iff in H. destruct H as (H1 & H2).
  destruct (t_dead t); [discriminate|].
  destruct (t_cur t); [|discriminate]. destruct (t_todo t); [|discriminate]. reflexivity.
Qed.

(* ISOLATION, general form: from any start in which TIDs are distinct *)
Lemma isolation_gen mv st flds progs s i p t :
  tids_disjoint progs ->
  let c := run mv (mkCfg st flds [] (map thr0 progs) []) s in
  nth_error progs i = Some p -> nth_error (c_thr c) i = Some t ->
  (t_dead t = false -> exists k, asteps mv k (thr0 p, None) = Some (t, pfile c t)) /\
  (thr_done t = true -> (t, pfile c t) = seq_result mv p).
Proof.
  intros TD c Np Nt.
  assert (I : iso_inv mv (mkCfg st flds [] (map thr0 progs) []) c).
  { unfold c. apply run_ind with (P := iso_inv mv (mkCfg st flds [] (map thr0 progs) [])).
    - intros; eapply iso_step; eauto.
    - apply iso_init_gen; auto. }
  destruct I as (_ & _ & H).
  assert (N0 : nth_error (c_thr (mkCfg st flds [] (map thr0 progs) [])) i = Some (thr0 p)).
  { simpl. rewrite nth_error_map, Np. reflexivity. }
  assert (A : t_dead t = false -> exists k, asteps mv k (thr0 p, None) = Some (t, pfile c t)).
  { intros D. destruct (H i (thr0 p) t N0 Nt D) as (k & Hk). exists k. exact Hk. }
  split; auto.
  intros Dn. assert (D : t_dead t = false).
  { unfold thr_done in Dn. apply andb_true_iff in Dn. destruct Dn as (Dn & _).
    destruct (t_dead t); simpl in *; [discriminate|reflexivity]. }
  destruct (A D) as (k & Hk). unfold seq_result. symmetry.
  eapply asteps_arun; eauto using done_stuck.
  apply asteps_measure in Hk. unfold measure in Hk. simpl in Hk. lia.
Qed.

(* ================================================================== effects of a step *)
Definition ev_of (a : action) (i : nat) (st : pst) : event :=
  match a with
  | ACasInit => EvCasInit i (is_st st UNINIT)
  | AStoreReady => EvStoreReady i
  | ACasFini => EvCasFini i (is_st st READY)
  | ALoadReady => EvLoad i (is_st st READY)
  | AWrite f => EvW i f
  | ARead f => EvR i f
  | _ => EvTau i
  end.
Definition st_of (a : action) (st : pst) : pst :=
  match a with
  | ACasInit => if is_st st UNINIT then INIT else st
  | AStoreReady => READY
  | ACasFini => if is_st st READY then GONE else st
  | _ => st
  end.
(* does the action fail (die) on the st value *)
Definition st_fails (a : action) (st : pst) : bool :=
  match a with
  | ACasInit => negb (is_st st UNINIT)
  | ACasFini | ALoadReady => negb (is_st st READY)
  | _ => false
  end.
Definition st_acquires (a : action) (st : pst) : bool :=
  match a with
  | AStoreReady => true
  | ACasFini | ALoadReady => is_st st READY
  | _ => false
  end.

Lemma fs_exec_flags o t fl :
  let t' := snd (fs_exec o t fl) in
  t_ready t' = t_ready t /\ t_seen t' = t_seen t /\ t_dead t' = t_dead t /\ t_fin t' = t_fin t.
Proof. destruct o; simpl; auto. destruct (Z.eqb tid 0); simpl; auto. Qed.

Lemma tstep_eff mv i t st fl r a rest cs :
  tstep mv i t st fl = Some r -> fetch mv t = Some (a, rest, cs) ->
  r_ev r = ev_of a i st /\ r_st r = st_of a st /\
  (st_fails a st = true -> t_dead (r_thr r) = true /\ t_cur (r_thr r) = []) /\
  (t_seen (r_thr r) = t_seen t \/ (t_seen (r_thr r) = true /\ st_acquires a st = true)) /\
  (st_acquires a st = true -> t_seen (r_thr r) = true).
Proof.
  unfold tstep. intros H F. rewrite F in H. inversion H; subst; clear H.
  destruct a; simpl.
  - destruct (is_st st UNINIT); simpl; repeat split; auto; discriminate.
  - repeat split; auto; discriminate.
  - destruct (is_st st READY); simpl; repeat split; auto; discriminate.
  - destruct (is_st st READY); simpl; repeat split; auto; discriminate.
  - repeat split; auto; discriminate.
  - repeat split; auto; discriminate.
  - destruct (local_exec l t) eqn:L; simpl; repeat split; auto; try discriminate.
    apply local_exec_ctl in L. destruct L as (_ & _ & _ & _ & Hs & _). auto.
  - destruct (fs_exec o t fl) as [fl' t'] eqn:E. simpl. repeat split; auto; try discriminate.
    left. pose proof (fs_exec_flags o t fl) as P. rewrite E in P. simpl in P. tauto.
Qed.

(* ================================================================== once-ness *)
Definition isWS (a : action) : bool := match a with AWrite _ | AStoreReady => true | _ => false end.
Definition shape (l : list action) : Prop :=
  (exists ws, l = map AWrite ws ++ [AStoreReady]) \/ forallb (fun a => negb (isWS a)) l = true.
Definition pend (t : thr) : Prop := In AStoreReady (t_cur t).

Lemma shape_nil : shape []. Proof. right. reflexivity. Qed.

Lemma shape_tail a r : shape (a :: r) -> shape r.
Proof.
  intros [(ws & H) | H].
  - destruct ws as [|w ws]; simpl in H; inversion H; subst.
    + apply shape_nil.
    + left. exists ws. reflexivity.
  - right. simpl in H. apply andb_true_iff in H. tauto.
Qed.

Lemma noWS_no_store l : forallb (fun a => negb (isWS a)) l = true -> ~ In AStoreReady l.
Proof.
  intros H I. rewrite forallb_forall in H. apply H in I. discriminate.
Qed.

Lemma in_store_map ws : ~ In AStoreReady (map AWrite ws).
Proof. induction ws; simpl; intuition; discriminate. Qed.

(* a call in progress that still has the publishing store ahead: only writes in between *)
Lemma shape_pend_tail a r : shape (a :: r) -> In AStoreReady r -> exists f, a = AWrite f.
Proof.
  intros [(ws & H) | H] I.
  - destruct ws as [|w ws]; simpl in H; inversion H; subst.
    + contradiction.
    + eauto.
  - exfalso. simpl in H. apply andb_true_iff in H. destruct H as (_ & H).
    eapply noWS_no_store; eauto.
Qed.

Lemma shape_head_ws a r : shape (a :: r) -> isWS a = true -> In AStoreReady (a :: r).
Proof.
  intros [(ws & H) | H] W.
  - rewrite H. apply in_or_app. right. simpl. auto.
  - simpl in H. apply andb_true_iff in H. destruct H as (H & _). rewrite W in H. discriminate.
Qed.

Lemma expand_rest_shape mv c a r : expand mv c = a :: r -> shape r.
Proof.
  destruct c, mv; simpl; intros H; inversion H; subst; try (right; reflexivity).
  - left. exists [Floom; Fpid; Fapp; Fclockid; Floomdir; Ftmpdir; Fmove; Fprocdir; Fprocdir_final]. reflexivity.
  - left. exists [Floom; Fpid; Fapp; Fclockid; Floomdir; Fmove; Fprocdir]. reflexivity.
Qed.

Lemma expand_head mv c a r : expand mv c = a :: r -> isWS a = false.
Proof. destruct c, mv; simpl; intros H; inversion H; subst; reflexivity. Qed.

Lemma expand_store_rest mv c a r : expand mv c = a :: r -> In AStoreReady r -> a = ACasInit.
Proof.
  destruct c, mv; simpl; intros H I; inversion H; subst; auto; simpl in I;
    repeat (destruct I as [I|I]; [discriminate|]); contradiction.
Qed.

Lemma count_cons p e tr : count_ev p (e :: tr) = ((if p e then 1 else 0) + count_ev p tr)%nat.
Proof. reflexivity. Qed.

Lemma count_pos p e tr : In e tr -> p e = true -> (1 <= count_ev p tr)%nat.
Proof.
  induction tr; simpl; intros H P; [contradiction|]. destruct H as [H|H].
  - subst. rewrite P. lia.
  - specialize (IHtr H P). lia.
Qed.

Definition counts_ok (st : pst) (tr : list event) : Prop :=
  match st with
  | UNINIT => count_ev is_init_ok tr = 0 /\ count_ev is_init_ev tr = 0 /\ count_ev is_store tr = 0 /\ count_ev is_fini_ok tr = 0
  | INIT => count_ev is_init_ok tr = 1 /\ count_ev is_store tr = 0 /\ count_ev is_fini_ok tr = 0
  | READY => count_ev is_init_ok tr = 1 /\ count_ev is_store tr = 1 /\ count_ev is_fini_ok tr = 0
  | GONE => count_ev is_init_ok tr = 1 /\ count_ev is_store tr = 1 /\ count_ev is_fini_ok tr = 1
  end%nat.

Record once_inv (c : config) : Prop := {
  oi_shape : forall j t, nth_error (c_thr c) j = Some t -> shape (t_cur t);
  oi_pend : forall j t, nth_error (c_thr c) j = Some t -> pend t ->
              c_st c = INIT /\ In (EvCasInit j true) (c_trace c);
  oi_uniq : forall j k tj tk, nth_error (c_thr c) j = Some tj -> nth_error (c_thr c) k = Some tk ->
              pend tj -> pend tk -> j = k;
  oi_counts : counts_ok (c_st c) (c_trace c);
  oi_dead : forall j, (In (EvCasInit j false) (c_trace c) \/ In (EvCasFini j false) (c_trace c)
                       \/ In (EvLoad j false) (c_trace c)) ->
              exists t, nth_error (c_thr c) j = Some t /\ t_dead t = true
}.

Lemma once_init progs : once_inv (init progs).
Proof.
  split; simpl.
  - intros j t N. rewrite nth_error_map in N. destruct (nth_error progs j); inversion N. apply shape_nil.
  - intros j t N P. rewrite nth_error_map in N. destruct (nth_error progs j); inversion N; subst. inversion P.
  - intros j k tj tk N _ P. rewrite nth_error_map in N. destruct (nth_error progs j); inversion N; subst. inversion P.
  - repeat split; reflexivity.
  - intros j [H|[H|H]]; contradiction.
Qed.

(* the thread that is about to step: what its new pending state can come from *)
Lemma pend_after mv i t st fl r a rest cs :
  tstep mv i t st fl = Some r -> fetch mv t = Some (a, rest, cs) -> shape (t_cur t) ->
  pend (r_thr r) ->
  (exists f, a = AWrite f /\ pend t) \/ (a = ACasInit /\ is_st st UNINIT = true).
Proof.
  intros T F Sh P.
  destruct (tstep_ctl _ _ _ _ _ _ _ _ _ T F) as (_ & Hcur & _).
  destruct (tstep_eff _ _ _ _ _ _ _ _ _ T F) as (_ & _ & Hfail & _).
  unfold pend in P. destruct Hcur as [E|E]; rewrite E in P; [|contradiction].
  destruct (fetch_inv _ _ _ _ _ F) as (_ & [(Hc & _) | (Hc & c0 & _ & He)]).
  - rewrite Hc in Sh. destruct (shape_pend_tail _ _ Sh P) as (f & Ea). left. exists f. split; auto.
    unfold pend. rewrite Hc. simpl. auto.
  - right. assert (Ea := expand_store_rest _ _ _ _ He P). split; auto.
    destruct (is_st st UNINIT) eqn:U; auto. exfalso.
    subst a. simpl in Hfail. rewrite U in Hfail. destruct (Hfail eq_refl) as (_ & Hn).
    rewrite Hn in E. subst rest. contradiction.
Qed.

Lemma store_pend mv t rest cs : fetch mv t = Some (AStoreReady, rest, cs) -> pend t.
Proof.
  intros F. destruct (fetch_inv _ _ _ _ _ F) as (_ & [(Hc & _) | (_ & c0 & _ & He)]).
  - unfold pend. rewrite Hc. simpl. auto.
  - apply expand_head in He. discriminate.
Qed.

Lemma write_pend mv t f rest cs : fetch mv t = Some (AWrite f, rest, cs) -> shape (t_cur t) -> pend t.
Proof.
  intros F Sh. destruct (fetch_inv _ _ _ _ _ F) as (_ & [(Hc & _) | (_ & c0 & _ & He)]).
  - unfold pend. rewrite Hc in *. apply shape_head_ws; auto.
  - apply expand_head in He. discriminate.
Qed.

Lemma once_step mv c i c' : once_inv c -> step mv c i = Some c' -> once_inv c'.
Proof.
  intros I Hstep.
  destruct (step_inv _ _ _ _ Hstep) as (t & r & N & T & Hst & _ & Hthr & Htr).
  assert (T0 := T). unfold tstep in T0.
  destruct (fetch mv t) as [[[a rest] cs]|] eqn:F; [|discriminate]. clear T0.
  destruct (tstep_eff _ _ _ _ _ _ _ _ _ T F) as (Hev & Hst' & Hfail & _ & _).
  destruct (tstep_ctl _ _ _ _ _ _ _ _ _ T F) as (_ & Hcur & _).
  assert (Sh : shape (t_cur t)) by (eapply oi_shape; eauto).
  (* the store is executed only in state INIT *)
  assert (StI : a = AStoreReady -> c_st c = INIT).
  { intros ->. apply store_pend in F. eapply oi_pend; eauto. }
  split.
  - (* shape *)
    intros j tj Nj. rewrite Hthr in Nj. destruct (Nat.eq_dec j i) as [->|Ne].
    + rewrite (nth_set_eq _ _ _ _ N) in Nj. inversion Nj; subst tj.
      destruct Hcur as [E|E]; rewrite E; [|apply shape_nil].
      destruct (fetch_inv _ _ _ _ _ F) as (_ & [(Hc & _) | (_ & c0 & _ & He)]).
      * rewrite Hc in Sh. eapply shape_tail; eauto.
      * eapply expand_rest_shape; eauto.
    + rewrite nth_set_neq in Nj by auto. eapply oi_shape; eauto.
  - (* pending store => INIT and winner *)
    intros j tj Nj P. rewrite Hthr in Nj. rewrite Htr, Hst, Hst', Hev. destruct (Nat.eq_dec j i) as [->|Ne].
    + rewrite (nth_set_eq _ _ _ _ N) in Nj. inversion Nj; subst tj.
      destruct (pend_after _ _ _ _ _ _ _ _ _ T F Sh P) as [(f & -> & Pt) | (-> & U)].
      * destruct (oi_pend _ I _ _ N Pt) as (S1 & S2). simpl. auto.
      * simpl. rewrite U. auto.
    + rewrite nth_set_neq in Nj by auto. destruct (oi_pend _ I _ _ Nj P) as (S1 & S2).
      split; [|simpl; auto].
      destruct a; simpl; auto.
      * rewrite S1. reflexivity.
      * exfalso. apply Ne. symmetry. eapply (oi_uniq _ I i j t tj); eauto. eapply store_pend; eauto.
      * rewrite S1. reflexivity.
  - (* at most one pending *)
    intros j k tj tk Nj Nk Pj Pk. rewrite Hthr in Nj, Nk.
    assert (X : forall k tk, k <> i -> nth_error (c_thr c) k = Some tk -> pend tk -> pend (r_thr r) -> False).
    { intros k0 tk0 Ne Nk0 Pk0 Pi.
      destruct (pend_after _ _ _ _ _ _ _ _ _ T F Sh Pi) as [(f & -> & Pt) | (-> & U)].
      - apply Ne. eapply (oi_uniq _ I k0 i); eauto.
      - destruct (oi_pend _ I _ _ Nk0 Pk0) as (S1 & _). rewrite S1 in U. discriminate. }
    destruct (Nat.eq_dec j i) as [->|Nej]; destruct (Nat.eq_dec k i) as [->|Nek]; auto.
    + rewrite (nth_set_eq _ _ _ _ N) in Nj. inversion Nj; subst tj.
      rewrite nth_set_neq in Nk by auto. exfalso. eauto.
    + rewrite (nth_set_eq _ _ _ _ N) in Nk. inversion Nk; subst tk.
      rewrite nth_set_neq in Nj by auto. exfalso. eauto.
    + rewrite nth_set_neq in Nj, Nk by auto. eapply (oi_uniq _ I); eauto.
  - (* counts *)
    rewrite Htr, Hst, Hst', Hev. pose proof (oi_counts _ I) as C. unfold counts_ok in *.
    destruct a; simpl; try (rewrite (StI eq_refl) in C);
      destruct (c_st c); simpl in *; rewrite ?count_cons; simpl; try tauto; try (intuition lia).
  - (* the refused are dead *)
    intros j Hj. rewrite Htr, Hev in Hj. rewrite Hthr.
    assert (Old : (In (EvCasInit j false) (c_trace c) \/ In (EvCasFini j false) (c_trace c)
                   \/ In (EvLoad j false) (c_trace c)) ->
                  exists t0, nth_error (set_nth i (r_thr r) (c_thr c)) j = Some t0 /\ t_dead t0 = true).
    { intros H. destruct (oi_dead _ I j H) as (t0 & N0 & D0). exists t0. split; auto.
      destruct (Nat.eq_dec i j) as [->|Ne].
      - rewrite N in N0. inversion N0; subst t0. rewrite dead_stuck in T; auto. discriminate.
      - rewrite nth_set_neq; auto. }
    assert (New : st_fails a (c_st c) = true -> j = i ->
                  exists t0, nth_error (set_nth i (r_thr r) (c_thr c)) j = Some t0 /\ t_dead t0 = true).
    { intros Hf ->. exists (r_thr r). split; [eapply nth_set_eq; eauto|]. apply Hfail; auto. }
    destruct Hj as [[Hj|Hj] | [[Hj|Hj] | [Hj|Hj]]]; auto.
    + destruct a; simpl in Hj; inversion Hj; subst. apply New; auto. simpl.
      match goal with H : is_st _ _ = false |- _ => rewrite H end. reflexivity.
    + destruct a; simpl in Hj; inversion Hj; subst. apply New; auto. simpl.
      match goal with H : is_st _ _ = false |- _ => rewrite H end. reflexivity.
    + destruct a; simpl in Hj; inversion Hj; subst. apply New; auto. simpl.
      match goal with H : is_st _ _ = false |- _ => rewrite H end. reflexivity.
Qed.

Lemma once_run mv progs s : once_inv (run mv (init progs) s).
Proof. apply run_ind with (P := once_inv); eauto using once_step, once_init. Qed.

Lemma count_two p e1 e2 tr : In e1 tr -> In e2 tr -> e1 <> e2 -> p e1 = true -> p e2 = true ->
  (2 <= count_ev p tr)%nat.
Proof.
  induction tr as [|e tr IH]; simpl; intros H1 H2 Ne P1 P2; [contradiction|].
  destruct H1 as [H1|H1]; destruct H2 as [H2|H2].
  - congruence.
  - subst e. rewrite P1. pose proof (count_pos p e2 tr H2 P2). lia.
  - subst e. rewrite P2. pose proof (count_pos p e1 tr H1 P1). lia.
  - specialize (IH H1 H2 Ne P1 P2). lia.
Qed.

(* ---- C11_init_once / C11_fini_once and companions ---- *)
Theorem init_once mv progs s :
  (count_ev is_init_ok (c_trace (run mv (init progs) s)) <= 1)%nat.
Proof.
  pose proof (oi_counts _ (once_run mv progs s)) as C. unfold counts_ok in C.
  destruct (c_st (run mv (init progs) s)); lia.
Qed.

Theorem init_winner_unique mv progs s i j :
  let tr := c_trace (run mv (init progs) s) in
  In (EvCasInit i true) tr -> In (EvCasInit j true) tr -> i = j.
Proof.
  intros tr Hi Hj. destruct (Nat.eq_dec i j) as [|Ne]; auto. exfalso.
  assert (2 <= count_ev is_init_ok tr)%nat.
  { eapply (count_two is_init_ok (EvCasInit i true) (EvCasInit j true)); eauto. congruence. }
  pose proof (init_once mv progs s). unfold tr in *. lia.
Qed.

(* as soon as one ovni_proc_init call has executed its CAS, exactly one has won *)
Theorem init_some mv progs s :
  let tr := c_trace (run mv (init progs) s) in
  (1 <= count_ev is_init_ev tr)%nat -> count_ev is_init_ok tr = 1%nat.
Proof.
  intros tr H. pose proof (oi_counts _ (once_run mv progs s)) as C. unfold counts_ok in C. fold tr in C.
  destruct (c_st (run mv (init progs) s)); lia.
Qed.

(* every call that loses a CAS (or fails the READY check) has died: the thread is stopped for ever *)
Theorem refused_dead mv progs s j :
  let c := run mv (init progs) s in
  In (EvCasInit j false) (c_trace c) \/ In (EvCasFini j false) (c_trace c) \/ In (EvLoad j false) (c_trace c) ->
  exists t, nth_error (c_thr c) j = Some t /\ t_dead t = true.
Proof. intros c H. exact (oi_dead _ (once_run mv progs s) j H). Qed.

Theorem fini_once mv progs s :
  (count_ev is_fini_ok (c_trace (run mv (init progs) s)) <= 1)%nat.
Proof.
  pose proof (oi_counts _ (once_run mv progs s)) as C. unfold counts_ok in C.
  destruct (c_st (run mv (init progs) s)); lia.
Qed.

Theorem fini_winner_unique mv progs s i j :
  let tr := c_trace (run mv (init progs) s) in
  In (EvCasFini i true) tr -> In (EvCasFini j true) tr -> i = j.
Proof.
  intros tr Hi Hj. destruct (Nat.eq_dec i j) as [|Ne]; auto. exfalso.
  assert (2 <= count_ev is_fini_ok tr)%nat.
  { eapply (count_two is_fini_ok (EvCasFini i true) (EvCasFini j true)); eauto. congruence. }
  pose proof (fini_once mv progs s). unfold tr in *. lia.
Qed.

(* a successful ovni_proc_fini needs a completed ovni_proc_init *)
Theorem fini_needs_ready mv progs s :
  let tr := c_trace (run mv (init progs) s) in
  (1 <= count_ev is_fini_ok tr)%nat -> count_ev is_init_ok tr = 1%nat /\ count_ev is_store tr = 1%nat.
Proof.
  intros tr H. pose proof (oi_counts _ (once_run mv progs s)) as C. unfold counts_ok in C. fold tr in C.
  destruct (c_st (run mv (init progs) s)); lia.
Qed.

(* the state of the process is a function of the event counts *)
Theorem st_counts mv progs s : let c := run mv (init progs) s in counts_ok (c_st c) (c_trace c).
Proof. exact (oi_counts _ (once_run mv progs s)). Qed.

(* ================================================================== no race *)
Definition acqlike (a : action) : bool :=
  match a with
  | ALoadReady | ACasFini | AStoreReady | ALocal LChkReady | ALocal LChkLive => true
  | _ => false
  end.
Definition sees (l : list action) : bool := existsb acqlike l.
Fixpoint prot (seen : bool) (l : list action) : bool :=
  match l with
  | [] => true
  | a :: r =>
    match a with
    | ARead _ | ALocal LSetReady => seen && prot seen r
    | _ => if acqlike a then prot true r else prot seen r
    end
  end.

Definition tguard (t : thr) : Prop :=
  (t_ready t = true -> t_seen t = true) /\
  prot (t_seen t) (t_cur t) = true /\
  guardedb (t_seen t || sees (t_cur t)) (t_todo t) = true.

Lemma prot_true l : prot true l = true.
Proof. induction l as [|a l IH]; simpl; auto. destruct a; simpl; auto; try destruct l0; simpl; auto. Qed.

Lemma guardedb_mono p : forall s, guardedb s p = true -> guardedb true p = true.
Proof.
  induction p as [|c p IH]; simpl; auto. intros s H. destruct c; auto;
    apply andb_true_iff in H; destruct H as (_ & H); simpl; eauto.
Qed.

Lemma expand_guard mv s c cs : guardedb s (c :: cs) = true ->
  prot s (expand mv c) = true /\ guardedb (s || sees (expand mv c)) cs = true.
Proof.
  intros H. destruct c; simpl in H;
    try (split; [destruct mv, s; reflexivity | destruct mv, s; simpl; exact H]).
  - apply andb_true_iff in H. destruct H as (-> & H). split; [apply prot_true|exact H].
  - apply andb_true_iff in H. destruct H as (-> & H). split; [apply prot_true|exact H].
Qed.

Lemma local_exec_ready l t t' : local_exec l t = LOk t' ->
  (t_ready t' = true -> t_ready t = true \/ l = LSetReady) /\
  (l = LChkReady \/ l = LChkLive -> t_ready t = true).
Proof.
  destruct l; simpl; intros H;
    repeat match type of H with
           | context [if ?b then _ else _] => destruct b eqn:?
           end; try discriminate; inversion H; subst; simpl; split; auto;
    try (intros [X|X]; discriminate); try (intros; discriminate); try (intros; congruence).
Qed.

Lemma local_exec_skip l t : local_exec l t = LSkip -> t_ready t = true.
Proof.
  destruct l; simpl; intros H;
    repeat match type of H with
           | context [if ?b then _ else _] => destruct b eqn:?
           end; try discriminate; auto.
Qed.

(* the virtual "rest of the current call" right before the head action executes *)
Lemma guard_pre mv t a rest cs : tguard t -> fetch mv t = Some (a, rest, cs) ->
  prot (t_seen t) (a :: rest) = true /\ guardedb (t_seen t || sees (a :: rest)) cs = true.
Proof.
  intros (_ & P & G) F. destruct (fetch_inv _ _ _ _ _ F) as (_ & [(Hc & Ht) | (Hc & c0 & Ht & He)]).
  - rewrite Hc in *. subst cs. auto.
  - rewrite Hc, Ht in G. simpl in G. rewrite orb_false_r in G. rewrite <- He. apply expand_guard. exact G.
Qed.

Lemma tguard_step mv i t st fl r : tstep mv i t st fl = Some r -> tguard t ->
  t_dead (r_thr r) = false -> tguard (r_thr r).
Proof.
  intros T G D. assert (T0 := T). unfold tstep in T0.
  destruct (fetch mv t) as [[[a rest] cs]|] eqn:F; [|discriminate].
  destruct (guard_pre _ _ _ _ _ G F) as (P0 & G0). destruct G as (R0 & _ & _).
  inversion T0 as [R]; clear T0. rewrite <- R in D.
  unfold tguard.
  destruct a; simpl in *.
  - destruct (is_st st UNINIT); simpl in *; [|discriminate]. auto.
  - split; auto. split; [apply prot_true|]. eapply guardedb_mono; eauto.
  - destruct (is_st st READY); simpl in *; [|discriminate].
    split; auto. split; [apply prot_true|]. eapply guardedb_mono; eauto.
  - destruct (is_st st READY); simpl in *; [|discriminate].
    split; auto. split; [apply prot_true|]. eapply guardedb_mono; eauto.
  - auto.
  - apply andb_true_iff in P0. destruct P0 as (S0 & P0). auto.
  - destruct (local_exec l t) as [t1| |] eqn:L; simpl in *; [| |discriminate].
    + destruct (local_exec_ctl _ _ _ L) as (_ & _ & _ & _ & Hs & _).
      destruct (local_exec_ready _ _ _ L) as (Hr1 & Hr2).
      rewrite Hs.
      assert (Hl : (l = LChkReady \/ l = LChkLive) \/ l = LSetReady \/ (acqlike (ALocal l) = false /\ l <> LSetReady)).
      { destruct l; simpl; auto; right; right; split; auto; discriminate. }
      destruct Hl as [Hl | [Hl | (Hl1 & Hl2)]].
      * assert (Sn : t_seen t = true) by (apply R0; auto).
        rewrite Sn in *. split; auto. split; [apply prot_true|]. eapply guardedb_mono; eauto.
      * subst l. simpl in P0. apply andb_true_iff in P0. destruct P0 as (S0 & P0).
        rewrite S0 in *. split; auto.
      * split.
        { intros H. destruct (Hr1 H) as [X|X]; [apply R0; exact X | contradiction]. }
        destruct l; simpl in *; try discriminate; try contradiction; auto.
    + apply local_exec_skip in L. rewrite (R0 L) in *. auto.
  - destruct (fs_exec o t fl) as [fl' t1] eqn:E. simpl in *.
    pose proof (fs_exec_flags o t fl) as Fl. rewrite E in Fl. simpl in Fl.
    destruct Fl as (F1 & F2 & _). rewrite F1, F2. auto.
Qed.

Lemma guard_read mv t f rest cs : tguard t -> fetch mv t = Some (ARead f, rest, cs) -> t_seen t = true.
Proof.
  intros G F. destruct (guard_pre _ _ _ _ _ G F) as (P0 & _). simpl in P0.
  apply andb_true_iff in P0. tauto.
Qed.

Definition acq_ev (j : nat) (e : event) : Prop :=
  e = EvStoreReady j \/ e = EvLoad j true \/ e = EvCasFini j true.

(* what must have happened before an event (old = the trace before it, newest first) *)
Definition conds (e : event) (old : list event) : Prop :=
  match e with
  | EvR j _ => exists e', In e' old /\ acq_ev j e'
  | EvLoad j true | EvCasFini j true => count_ev is_store old = 1%nat
  | EvW i _ | EvStoreReady i => count_ev is_store old = 0%nat /\ In (EvCasInit i true) old
  | _ => True
  end.
Fixpoint hist (tr : list event) : Prop :=
  match tr with [] => True | e :: old => conds e old /\ hist old end.

Record race_inv (c : config) : Prop := {
  ri_guard : forall j t, nth_error (c_thr c) j = Some t -> t_dead t = false -> tguard t;
  ri_unseen : c_st c = UNINIT \/ c_st c = INIT ->
              forall j t, nth_error (c_thr c) j = Some t -> t_seen t = false;
  ri_seen : forall j t, nth_error (c_thr c) j = Some t -> t_seen t = true ->
            exists e, In e (c_trace c) /\ acq_ev j e;
  ri_hist : hist (c_trace c)
}.

Definition conformant (progs : list (list call)) : Prop :=
  forall p, In p progs -> guardedb false p = true.

Lemma race_init progs : conformant progs -> race_inv (init progs).
Proof.
  intros Cf. split; simpl.
  - intros j t N _. rewrite nth_error_map in N. destruct (nth_error progs j) as [p|] eqn:E; inversion N; subst.
    unfold tguard, thr0. simpl. repeat split; auto; try discriminate.
    apply Cf. eapply nth_error_In; eauto.
  - intros _ j t N. rewrite nth_error_map in N. destruct (nth_error progs j); inversion N; reflexivity.
  - intros j t N S. rewrite nth_error_map in N. destruct (nth_error progs j); inversion N; subst. discriminate.
  - exact I.
Qed.

Lemma is_st_eq a b : is_st a b = true -> a = b.
Proof. destruct a, b; simpl; intros; auto; discriminate. Qed.

Lemma st_of_low a st : (st_of a st = UNINIT \/ st_of a st = INIT) ->
  (st = UNINIT \/ st = INIT) /\ st_acquires a st = false.
Proof. destruct a, st; simpl; intuition discriminate. Qed.

Lemma acquires_ev a i st : st_acquires a st = true -> acq_ev i (ev_of a i st).
Proof.
  unfold acq_ev. destruct a; simpl; intros H; try discriminate; try rewrite H; auto.
Qed.

Lemma race_step mv c i c' : once_inv c -> race_inv c -> step mv c i = Some c' -> race_inv c'.
Proof.
  intros O I Hstep.
  destruct (step_inv _ _ _ _ Hstep) as (t & r & N & T & Hst & _ & Hthr & Htr).
  assert (T0 := T). unfold tstep in T0.
  destruct (fetch mv t) as [[[a rest] cs]|] eqn:F; [|discriminate]. clear T0.
  destruct (tstep_eff _ _ _ _ _ _ _ _ _ T F) as (Hev & Hst' & Hfail & Hseen & Hacq).
  destruct (fetch_inv _ _ _ _ _ F) as (Dt & _).
  assert (Gt : tguard t) by (eapply ri_guard; eauto).
  assert (Sh : shape (t_cur t)) by (eapply oi_shape; eauto).
  split.
  - intros j tj Nj Dj. rewrite Hthr in Nj. destruct (Nat.eq_dec j i) as [->|Ne].
    + rewrite (nth_set_eq _ _ _ _ N) in Nj. inversion Nj; subst tj. eapply tguard_step; eauto.
    + rewrite nth_set_neq in Nj by auto. eapply ri_guard; eauto.
  - rewrite Hst, Hst'. intros Low j tj Nj. destruct (st_of_low _ _ Low) as (Low0 & NA).
    rewrite Hthr in Nj. destruct (Nat.eq_dec j i) as [->|Ne].
    + rewrite (nth_set_eq _ _ _ _ N) in Nj. inversion Nj; subst tj.
      destruct Hseen as [E | (_ & E)]; [|congruence]. rewrite E. eapply ri_unseen; eauto.
    + rewrite nth_set_neq in Nj by auto. eapply ri_unseen; eauto.
  - intros j tj Nj Sj. rewrite Htr, Hev. rewrite Hthr in Nj. destruct (Nat.eq_dec j i) as [->|Ne].
    + rewrite (nth_set_eq _ _ _ _ N) in Nj. inversion Nj; subst tj.
      destruct Hseen as [E | (_ & E)].
      * rewrite E in Sj. destruct (ri_seen _ I _ _ N Sj) as (e & He & Ha). exists e. simpl. auto.
      * exists (ev_of a i (c_st c)). split; [simpl; auto|]. apply acquires_ev. exact E.
    + rewrite nth_set_neq in Nj by auto.
      destruct (ri_seen _ I _ _ Nj Sj) as (e & He & Ha). exists e. simpl. auto.
  - rewrite Htr, Hev. simpl. split; [|eapply ri_hist; eauto].
    pose proof (oi_counts _ O) as C. unfold counts_ok in C.
    destruct a; simpl; auto.
    + (* the publishing store *)
      apply store_pend in F. destruct (oi_pend _ O _ _ N F) as (S1 & S2). rewrite S1 in C. tauto.
    + destruct (is_st (c_st c) READY) eqn:E; auto. apply is_st_eq in E. rewrite E in C. tauto.
    + destruct (is_st (c_st c) READY) eqn:E; auto. apply is_st_eq in E. rewrite E in C. tauto.
    + (* a field write *)
      eapply write_pend in F; eauto. destruct (oi_pend _ O _ _ N F) as (S1 & S2). rewrite S1 in C. tauto.
    + (* a field read *)
      eapply ri_seen; eauto. eapply guard_read; eauto.
Qed.

Lemma race_run mv progs s : conformant progs ->
  once_inv (run mv (init progs) s) /\ race_inv (run mv (init progs) s).
Proof.
  intros Cf. apply run_ind with (P := fun c => once_inv c /\ race_inv c).
  - intros c i c' (O & R) St. split; [eapply once_step|eapply race_step]; eauto.
  - split; [apply once_init|apply race_init; auto].
Qed.

Lemma hist_mid l1 : forall e l2, hist (l1 ++ e :: l2) -> conds e l2.
Proof. induction l1; simpl; intros e l2 H; [tauto|]. apply IHl1. tauto. Qed.

Lemma count_ex p l : (1 <= count_ev p l)%nat -> exists e, In e l /\ p e = true.
Proof.
  induction l as [|x l IH]; simpl; intros H; [lia|].
  destruct (p x) eqn:E.
  - exists x. auto.
  - destruct IH as (e & He & Pe); [lia|]. exists e. auto.
Qed.

Lemma count_zero p l : (forall e, In e l -> p e = false) -> count_ev p l = 0%nat.
Proof.
  induction l as [|x l IH]; simpl; intros H; auto.
  rewrite (H x) by auto. rewrite IH; auto.
Qed.

Lemma count_app p l1 l2 : count_ev p (l1 ++ l2) = (count_ev p l1 + count_ev p l2)%nat.
Proof. induction l1; simpl; auto. rewrite IHl1. lia. Qed.

(* every write is by the thread that won the CAS, before the publishing store *)
Lemma hist_write_winner tr i f : hist tr -> In (EvW i f) tr -> In (EvCasInit i true) tr.
Proof.
  intros H I. apply in_split in I. destruct I as (l1 & l2 & ->).
  apply hist_mid in H. simpl in H. apply in_or_app. right. simpl. tauto.
Qed.

Lemma hist_no_write_after_store tr x w z : hist tr -> tr = x ++ EvStoreReady w :: z ->
  count_ev is_write x = 0%nat.
Proof.
  intros H ->. apply count_zero. intros e He.
  destruct e; auto. exfalso.
  apply in_split in He. destruct He as (p1 & p2 & ->).
  rewrite <- app_assoc in H. simpl in H. apply hist_mid in H. simpl in H. destruct H as (H & _).
  rewrite count_app in H. simpl in H. lia.
Qed.

(* C11_no_race: an explicit happens-before chain from every field write to every read by another thread *)
Theorem no_race mv progs s : conformant progs ->
  let tr := c_trace (run mv (init progs) s) in
  forall after before j g, tr = after ++ EvR j g :: before ->
  forall i f, In (EvW i f) tr -> i <> j ->
  exists d e c b a,
    before = d ++ e :: c ++ EvStoreReady i :: b ++ EvW i f :: a /\
    (e = EvLoad j true \/ e = EvCasFini j true) /\
    count_ev is_write (after ++ EvR j g :: d ++ e :: c) = 0%nat.
Proof.
  intros Cf tr after before j g Etr i f Hw Nij.
  destruct (race_run mv progs s Cf) as (O & R). pose proof (ri_hist _ R) as H. fold tr in H.
  assert (Wi : In (EvCasInit i true) tr) by (eapply hist_write_winner; eauto).
  assert (Hr := H). rewrite Etr in Hr. apply hist_mid in Hr. simpl in Hr.
  destruct Hr as (e & He & Ha). apply in_split in He. destruct He as (d & y & ->).
  assert (Hy : conds e y).
  { rewrite Etr in H. replace (after ++ EvR j g :: d ++ e :: y) with ((after ++ EvR j g :: d) ++ e :: y) in H
      by (rewrite <- app_assoc; reflexivity). apply hist_mid in H. exact H. }
  assert (Iny : forall x, In x y -> In x tr).
  { intros x Hx. rewrite Etr. apply in_or_app. right. right. apply in_or_app. right. right. exact Hx. }
  destruct Ha as [-> | Ha].
  { (* the reader's acquire would be the publishing store itself: then it is the writer *)
    exfalso. simpl in Hy. destruct Hy as (_ & Hy). apply Nij.
    eapply (init_winner_unique mv progs s); [exact Wi | apply Iny; exact Hy]. }
  assert (Cs : count_ev is_store y = 1%nat) by (destruct Ha as [-> | ->]; exact Hy).
  destruct (count_ex is_store y) as (se & Hse & Pse); [lia|].
  destruct se; try discriminate. rename i0 into w.
  apply in_split in Hse. destruct Hse as (c0 & z & ->).
  assert (Etr2 : tr = (after ++ EvR j g :: d ++ e :: c0) ++ EvStoreReady w :: z).
  { rewrite Etr. rewrite <- app_assoc. simpl. rewrite <- app_assoc. reflexivity. }
  assert (Hsz : conds (EvStoreReady w) z).
  { rewrite Etr2 in H. apply hist_mid in H. exact H. }
  simpl in Hsz. destruct Hsz as (_ & Hwz).
  assert (w = i).
  { eapply (init_winner_unique mv progs s); eauto. fold tr. rewrite Etr2.
    apply in_or_app. right. right. exact Hwz. }
  subst w.
  assert (NW : count_ev is_write (after ++ EvR j g :: d ++ e :: c0) = 0%nat).
  { eapply hist_no_write_after_store; eauto. }
  assert (Wz : In (EvW i f) z).
  { rewrite Etr2 in Hw. apply in_app_or in Hw. destruct Hw as [Hw | [Hw | Hw]]; auto.
    - pose proof (count_pos is_write _ _ Hw eq_refl). lia.
    - discriminate. }
  apply in_split in Wz. destruct Wz as (b & a & ->).
  exists d, e, c0, b, a. repeat split; auto.
Qed.

(* all field writes are by one thread - the winner of the CAS - and none happens after READY is published *)
Theorem writes_by_winner mv progs s i f : conformant progs ->
  let tr := c_trace (run mv (init progs) s) in
  In (EvW i f) tr -> In (EvCasInit i true) tr.
Proof.
  intros Cf tr Hw. destruct (race_run mv progs s Cf) as (_ & R). eapply hist_write_winner; eauto.
  exact (ri_hist _ R).
Qed.

Theorem no_write_after_ready mv progs s x w z : conformant progs ->
  c_trace (run mv (init progs) s) = x ++ EvStoreReady w :: z -> count_ev is_write x = 0%nat.
Proof.
  intros Cf E. destruct (race_run mv progs s Cf) as (_ & R).
  eapply hist_no_write_after_store; eauto. exact (ri_hist _ R).
Qed.

(* ---- after READY has been published, the first ovni_proc_fini wins ---- *)
Definition fini_inv (c : config) : Prop :=
  c_st c = READY -> forall x w z, c_trace c = x ++ EvStoreReady w :: z -> count_ev is_fini_ev x = 0%nat.

Lemma fini_inv_step mv c i c' : once_inv c -> fini_inv c -> step mv c i = Some c' -> fini_inv c'.
Proof.
  intros O I Hstep.
  destruct (step_inv _ _ _ _ Hstep) as (t & r & N & T & Hst & _ & Hthr & Htr).
  assert (T0 := T). unfold tstep in T0.
  destruct (fetch mv t) as [[[a rest] cs]|] eqn:F; [|discriminate]. clear T0.
  destruct (tstep_eff _ _ _ _ _ _ _ _ _ T F) as (Hev & Hst' & _).
  intros R x w z E. rewrite Htr in E. rewrite Hst, Hst' in R.
  destruct x as [|e0 x']; [reflexivity|]. simpl in E. inversion E as [[E0 E1]].
  pose proof (oi_counts _ O) as C. unfold counts_ok in C.
  assert (S1 : (1 <= count_ev is_store (c_trace c))%nat).
  { rewrite E1. rewrite count_app. simpl. lia. }
  assert (NS : a <> AStoreReady).
  { intros ->. apply store_pend in F. destruct (oi_pend _ O _ _ N F) as (S2 & _). rewrite S2 in C. lia. }
  assert (St : c_st c = READY /\ is_fini_ev (ev_of a i (c_st c)) = false).
  { destruct (c_st c) eqn:Ec; try lia; destruct a; simpl in *; try discriminate; auto; congruence. }
  destruct St as (St & Nf). rewrite count_cons. rewrite Hev, Nf. simpl. eapply I; eauto.
Qed.

Theorem fini_some mv progs s x w z :
  let tr := c_trace (run mv (init progs) s) in
  tr = x ++ EvStoreReady w :: z -> (1 <= count_ev is_fini_ev x)%nat -> count_ev is_fini_ok tr = 1%nat.
Proof.
  intros tr E H.
  assert (P : once_inv (run mv (init progs) s) /\ fini_inv (run mv (init progs) s)).
  { apply run_ind with (P := fun c => once_inv c /\ fini_inv c).
    - intros c i c' (O & Fi) St. split; [eapply once_step|eapply fini_inv_step]; eauto.
    - split; [apply once_init|]. intros R. discriminate. }
  destruct P as (O & Fi). pose proof (oi_counts _ O) as C. unfold counts_ok in C. fold tr in C.
  assert (S1 : (1 <= count_ev is_store tr)%nat).
  { rewrite E. rewrite count_app. simpl. lia. }
  destruct (c_st (run mv (init progs) s)) eqn:Ec; try lia.
  specialize (Fi Ec x w z E). lia.
Qed.

(* ---- a refused call is logged as such, and the thread never moves again ---- *)
Lemma tstep_dead_logged mv i t st fl r : tstep mv i t st fl = Some r -> t_dead (r_thr r) = true ->
  exists o, t_out (r_thr r) = false :: o.
Proof.
  unfold tstep. destruct (fetch mv t) as [[[a rest] cs]|] eqn:F; [|discriminate].
  destruct (fetch_inv _ _ _ _ _ F) as (Dt & _). intros H D. inversion H; subst; clear H.
  destruct a; simpl in *.
  - destruct (is_st st UNINIT); simpl in *; [congruence|eauto].
  - congruence.
  - destruct (is_st st READY); simpl in *; [congruence|eauto].
  - destruct (is_st st READY); simpl in *; [congruence|eauto].
  - congruence.
  - congruence.
  - destruct (local_exec l t) eqn:L; simpl in *; eauto; try congruence.
    apply local_exec_ctl in L. destruct L as (_ & _ & Hd & _). congruence.
  - destruct (fs_exec o t fl) as [fl' t'] eqn:E. simpl in *.
    pose proof (fs_exec_flags o t fl) as Fl. rewrite E in Fl. simpl in Fl. destruct Fl as (_ & _ & Hd & _). congruence.
Qed.

Theorem dead_logged mv progs s j t :
  nth_error (c_thr (run mv (init progs) s)) j = Some t -> t_dead t = true ->
  (exists o, t_out t = false :: o) /\ forall st fl, tstep mv j t st fl = None.
Proof.
  intros N D. split; [|intros; apply dead_stuck; auto].
  revert j t N D. apply run_ind with
    (P := fun c => forall j t, nth_error (c_thr c) j = Some t -> t_dead t = true -> exists o, t_out t = false :: o).
  - intros c i c' IH Hstep j t N D.
    destruct (step_inv _ _ _ _ Hstep) as (ti & r & Ni & T & _ & _ & Hthr & _).
    rewrite Hthr in N. destruct (Nat.eq_dec j i) as [->|Ne].
    + rewrite (nth_set_eq _ _ _ _ Ni) in N. inversion N; subst t. eapply tstep_dead_logged; eauto.
    + rewrite nth_set_neq in N by auto. eauto.
  - intros j t N D. simpl in N. rewrite nth_error_map in N. destruct (nth_error progs j); inversion N; subst. discriminate.
Qed.

(* ---- ISOLATION ---- *)
Theorem isolation mv progs s i p t :
  tids_disjoint progs ->
  let c := run mv (init progs) s in
  nth_error progs i = Some p -> nth_error (c_thr c) i = Some t -> thr_done t = true ->
  (t, fs_get (t_tid t) (c_fs c)) = seq_result mv p.
Proof. intros TD c Np Nt Dn. exact (proj2 (isolation_gen mv UNINIT [] progs s i p t TD Np Nt) Dn). Qed.

Theorem isolation_prefix mv progs s i p t :
  tids_disjoint progs ->
  let c := run mv (init progs) s in
  nth_error progs i = Some p -> nth_error (c_thr c) i = Some t -> t_dead t = false ->
  exists k, asteps mv k (thr0 p, None) = Some (t, fs_get (t_tid t) (c_fs c)).
Proof. intros TD c Np Nt Dn. exact (proj1 (isolation_gen mv UNINIT [] progs s i p t TD Np Nt) Dn). Qed.

(* the same thread program run alone in a process that somebody initialised: same result *)
Theorem isolation_alone mv progs s i p t w s1 t1 :
  tids_disjoint progs ->
  let c := run mv (init progs) s in
  let c1 := run mv (ready_cfg w [p]) s1 in
  nth_error progs i = Some p -> nth_error (c_thr c) i = Some t -> thr_done t = true ->
  nth_error (c_thr c1) 0 = Some t1 -> thr_done t1 = true ->
  (t, fs_get (t_tid t) (c_fs c)) = (t1, fs_get (t_tid t1) (c_fs c1)).
Proof.
  intros TD c c1 Np Nt Dn N1 D1.
  transitivity (seq_result mv p); [exact (isolation mv progs s i p t TD Np Nt Dn)|].
  assert (TD1 : tids_disjoint [p]).
  { intros a b pa pb z Hab Na Nb. destruct a as [|[|a]], b as [|[|b]]; simpl in *; try discriminate; congruence. }
  symmetry. exact (proj2 (isolation_gen mv READY _ [p] s1 0 p t1 TD1 eq_refl N1) D1).
Qed.

(* ---- a thread program without ovni_proc_init/fini, alone in an initialised process ---- *)
Definition is_proc_call (c : call) : bool := match c with ProcInit | ProcFini => true | _ => false end.
Definition is_cas (a : action) : bool := match a with ACasInit | ACasFini => true | _ => false end.
Definition nost (t : thr) : Prop :=
  forallb (fun a => negb (is_cas a)) (t_cur t) = true /\ forallb (fun c => negb (is_proc_call c)) (t_todo t) = true.

Lemma expand_nocas mv c : is_proc_call c = false -> forallb (fun a => negb (is_cas a)) (expand mv c) = true.
Proof. destruct c, mv; simpl; intros H; try discriminate; reflexivity. Qed.

Lemma nost_fetch mv t a rest cs : nost t -> fetch mv t = Some (a, rest, cs) ->
  is_cas a = false /\ forallb (fun a => negb (is_cas a)) rest = true /\
  forallb (fun c => negb (is_proc_call c)) cs = true.
Proof.
  intros (H1 & H2) F. destruct (fetch_inv _ _ _ _ _ F) as (_ & [(Hc & Ht) | (Hc & c0 & Ht & He)]).
  - rewrite Hc in H1. simpl in H1. apply andb_true_iff in H1. destruct H1 as (A & B).
    subst cs. repeat split; auto. destruct (is_cas a); auto; discriminate.
  - rewrite Ht in H2. simpl in H2. apply andb_true_iff in H2. destruct H2 as (A & B).
    assert (X : forallb (fun a => negb (is_cas a)) (a :: rest) = true).
    { rewrite <- He. apply expand_nocas. destruct (is_proc_call c0); auto; discriminate. }
    simpl in X. apply andb_true_iff in X. destruct X as (X1 & X2).
    repeat split; auto. destruct (is_cas a); auto; discriminate.
Qed.

Lemma fav_ready a : is_cas a = false -> fav a = READY \/ a = ACasFini.
Proof. destruct a; simpl; auto; discriminate. Qed.

Lemma alone_step mv c t : c_st c = READY -> c_thr c = [t] -> nost t ->
  match astep mv (t, pfile c t) with
  | None => step mv c 0 = None
  | Some (t', fl') => exists c', step mv c 0 = Some c' /\ c_st c' = READY /\ c_thr c' = [t'] /\
                                pfile c' t' = fl' /\ nost t'
  end.
Proof.
  intros St Th Ns. unfold astep, step. rewrite Th. simpl. unfold pfile. rewrite St.
  destruct (fetch mv t) as [[[a rest] cs]|] eqn:F.
  2:{ unfold tstep. rewrite F. reflexivity. }
  destruct (nost_fetch _ _ _ _ _ Ns F) as (Na & Nr & Nc).
  assert (Fa : fav a = READY). { destruct a; simpl in *; auto; discriminate. }
  rewrite Fa.
  destruct (tstep mv 0 t READY (fs_get (t_tid t) (c_fs c))) as [r|] eqn:T; [|reflexivity].
  eexists. split; [reflexivity|]. simpl.
  destruct (tstep_eff _ _ _ _ _ _ _ _ _ T F) as (_ & Hst & _).
  destruct (tstep_ctl _ _ _ _ _ _ _ _ _ T F) as (Htodo & Hcur & _).
  assert (Hf := tstep_fs _ _ _ _ _ _ _ _ _ T F).
  split. { rewrite Hst. destruct a; simpl in *; auto; discriminate. }
  split; [reflexivity|]. split.
  - destruct a; try (destruct Hf as (Hf & Ht); rewrite Hf, Ht; reflexivity).
    destruct Hf as (Hf & Ht). rewrite Hf. rewrite fs_get_put_eq.
    destruct (fst (fs_exec o t (fs_get (t_tid t) (c_fs c)))) eqn:X; auto.
    apply fs_exec_none in X. destruct X as (X1 & X2). rewrite Ht, X2. auto.
  - split; [|rewrite Htodo; exact Nc]. destruct Hcur as [E|E]; rewrite E; auto.
Qed.

Lemma run_stuck mv c n : step mv c 0 = None -> run mv c (repeat 0%nat n) = c.
Proof. intros H. induction n; simpl; auto. rewrite H. exact IHn. Qed.

Lemma alone_run mv n : forall c t, c_st c = READY -> c_thr c = [t] -> nost t ->
  exists t1, c_thr (run mv c (repeat 0%nat n)) = [t1] /\
             (t1, pfile (run mv c (repeat 0%nat n)) t1) = arun mv n (t, pfile c t).
Proof.
  induction n; intros c t St Th Ns.
  - exists t. simpl. auto.
  - pose proof (alone_step mv c t St Th Ns) as A.
    change (arun mv (S n) (t, pfile c t)) with
      (match astep mv (t, pfile c t) with Some s' => arun mv n s' | None => (t, pfile c t) end).
    change (repeat 0%nat (S n)) with (0%nat :: repeat 0%nat n).
    destruct (astep mv (t, pfile c t)) as [[t' fl']|] eqn:E.
    + destruct A as (c' & S1 & St' & Th' & Pf & Ns'). simpl run. rewrite S1. subst fl'. eapply IHn; eauto.
    + simpl run. rewrite A. rewrite run_stuck by exact A. exists t. auto.
Qed.

(* C11_isolation_alone: the program alone in an initialised process, scheduled for as many steps as it
   has actions, ends exactly with the sequential reference result (refusals included) *)
Theorem alone_is_seq mv w p :
  forallb (fun c => negb (is_proc_call c)) p = true ->
  let c1 := run mv (ready_cfg w [p]) (repeat 0%nat (nactions mv p)) in
  exists t1, c_thr c1 = [t1] /\ (t1, fs_get (t_tid t1) (c_fs c1)) = seq_result mv p.
Proof.
  intros Np c1. unfold c1, seq_result.
  destruct (alone_run mv (nactions mv p) (ready_cfg w [p]) (thr0 p)) as (t1 & H1 & H2); auto.
  - split; [reflexivity|exact Np].
  - exists t1. split; auto.
Qed.

Theorem isolation_alone_full mv progs s i p t w :
  tids_disjoint progs ->
  let c := run mv (init progs) s in
  nth_error progs i = Some p -> nth_error (c_thr c) i = Some t -> thr_done t = true ->
  forallb (fun c => negb (is_proc_call c)) p = true ->
  let c1 := run mv (ready_cfg w [p]) (repeat 0%nat (nactions mv p)) in
  exists t1, c_thr c1 = [t1] /\ (t, fs_get (t_tid t) (c_fs c)) = (t1, fs_get (t_tid t1) (c_fs c1)).
Proof.
  intros TD c Np Nt Dn Nc c1.
  destruct (alone_is_seq mv w p Nc) as (t1 & H1 & H2). exists t1. split; [exact H1|].
  transitivity (seq_result mv p); [exact (isolation mv progs s i p t TD Np Nt Dn)|symmetry; exact H2].
Qed.
