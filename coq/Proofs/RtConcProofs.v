(* Proofs about the rtconc model (Rt/RtConcDefs.v): for ALL numbers of threads,
   ALL programs and ALL schedules.  Statements are collected in Props/Properties_C11.v. *)
From Coq Require Import List ZArith Bool Arith Lia.
From OV Require Import Rt.RtConcDefs.
Import ListNotations.

(* ------------------------------------------------------------------ lists *)
Lemma nth_set_eq {A} : forall (l : list A) i x y,
  nth_error l i = Some y -> nth_error (set_nth i x l) i = Some x.
Proof. induction l; intros [|i] x y H; simpl in *; try discriminate; eauto. Qed.

Lemma nth_set_neq {A} : forall (l : list A) i j x,
  i <> j -> nth_error (set_nth i x l) j = nth_error l j.
Proof.
  induction l; intros [|i] [|j] x H; simpl; auto; try congruence;
    try (apply IHl; congruence).
Qed.

Lemma run_ind mv (P : config -> Prop) :
  (forall c i c', P c -> step mv c i = Some c' -> P c') ->
  forall s c, P c -> P (run mv c s).
Proof.
  intros Hs s. induction s as [|i s IH]; intros c Hc; simpl; auto.
  destruct (step mv c i) eqn:E; eauto.
Qed.

(* ------------------------------------------------------------------ one step, taken apart *)
Lemma step_inv mv c i c' : step mv c i = Some c' ->
  exists t r, nth_error (c_thr c) i = Some t /\
    tstep mv i t (c_st c) (fs_get (t_tid t) (c_fs c)) = Some r /\
    c_st c' = r_st r /\
    c_fs c' = (match r_file r with Some fl' => fs_put (t_tid (r_thr r)) fl' (c_fs c) | None => c_fs c end) /\
    c_thr c' = set_nth i (r_thr r) (c_thr c) /\
    c_trace c' = r_ev r :: c_trace c.
Proof.
  unfold step. destruct (nth_error (c_thr c) i) as [t|] eqn:N; [|discriminate].
  destruct (tstep mv i t (c_st c) (fs_get (t_tid t) (c_fs c))) as [r|] eqn:T; [|discriminate].
  intros H. inversion H; subst; clear H. exists t, r. simpl. repeat split; auto.
Qed.

Lemma fetch_inv mv t a r cs : fetch mv t = Some (a, r, cs) ->
  t_dead t = false /\
  ((t_cur t = a :: r /\ cs = t_todo t) \/
   (t_cur t = [] /\ exists c, t_todo t = c :: cs /\ expand mv c = a :: r)).
Proof.
  unfold fetch. destruct (t_dead t); [discriminate|]. intros H. split; auto.
  destruct (t_cur t) as [|a' r'].
  - destruct (t_todo t) as [|c cs']; [discriminate|].
    destruct (expand mv c) as [|a' r'] eqn:E; [discriminate|].
    inversion H; subst. right. split; auto. exists c. auto.
  - inversion H; subst. left. auto.
Qed.

Lemma dead_stuck mv i t st fl : t_dead t = true -> tstep mv i t st fl = None.
Proof. intros D. unfold tstep, fetch. rewrite D. reflexivity. Qed.

Lemma local_exec_ctl l t t' : local_exec l t = LOk t' ->
  t_todo t' = t_todo t /\ t_cur t' = t_cur t /\ t_dead t' = t_dead t /\ t_tid t' = t_tid t /\
  t_seen t' = t_seen t /\ t_out t' = t_out t.
Proof.
  destruct l; simpl; intros H;
    repeat match type of H with
           | context [if ?b then _ else _] => destruct b
           end; try discriminate; inversion H; subst; simpl; auto 10.
Qed.

(* what a step does to the control part and the directory key of the stepping thread *)
Lemma tstep_ctl mv i t st fl r a rest cs :
  tstep mv i t st fl = Some r -> fetch mv t = Some (a, rest, cs) ->
  t_todo (r_thr r) = cs /\
  (t_cur (r_thr r) = rest \/ (t_cur (r_thr r) = [])) /\
  (t_tid (r_thr r) = t_tid t \/ exists z, a = AFs (FsCreate z) /\ z <> 0%Z /\ t_tid (r_thr r) = z).
Proof.
  unfold tstep. intros H F. rewrite F in H. inversion H; subst; clear H.
  destruct a; simpl.
  - destruct (is_st st UNINIT); simpl; auto.
  - auto.
  - destruct (is_st st READY); simpl; auto.
  - destruct (is_st st READY); simpl; auto.
  - auto.
  - auto.
  - destruct (local_exec l t) eqn:L; simpl; auto.
    apply local_exec_ctl in L. destruct L as (_ & _ & _ & Ht & _). rewrite Ht. auto.
  - destruct o; simpl.
    + destruct (Z.eqb tid 0) eqn:Z0; simpl; auto.
      split; auto. split; auto. right. exists tid. apply Z.eqb_neq in Z0. auto.
    + auto.
    + auto.
Qed.

(* ================================================================== isolation *)
(* TIDs a thread may still use as a directory key *)
Fixpoint tids_acts (l : list action) : list Z :=
  match l with
  | [] => []
  | AFs (FsCreate z) :: r => z :: tids_acts r
  | _ :: r => tids_acts r
  end.
Definition owns (t : thr) : list Z :=
  (if (t_tid t =? 0)%Z then [] else [t_tid t]) ++ tids_acts (t_cur t) ++ tids_of (t_todo t).

Lemma tids_expand mv c z : In z (tids_acts (expand mv c)) -> c = ThreadInit z.
Proof.
  destruct c, mv; simpl; intros H;
    repeat (destruct H as [H|H]; [subst; auto|]); try contradiction.
Qed.

Lemma tids_acts_tail a r z : In z (tids_acts r) -> In z (tids_acts (a :: r)).
Proof. destruct a; simpl; auto. destruct o; simpl; auto. Qed.

Lemma tids_of_tail c cs z : In z (tids_of cs) -> In z (tids_of (c :: cs)).
Proof. destruct c; simpl; auto. Qed.

Lemma owns_step mv i t st fl r :
  tstep mv i t st fl = Some r -> forall z, In z (owns (r_thr r)) -> In z (owns t).
Proof.
  intros H. assert (H0 := H). unfold tstep in H0.
  destruct (fetch mv t) as [[[a rest] cs]|] eqn:F; [|discriminate]. clear H0.
  destruct (tstep_ctl _ _ _ _ _ _ _ _ _ H F) as (Htodo & Hcur & Htid).
  destruct (fetch_inv _ _ _ _ _ F) as (_ & Hf).
  assert (Hacts : forall z, In z (tids_acts (a :: rest)) -> In z (owns t)).
  { intros z Hz. unfold owns. rewrite !in_app_iff.
    destruct Hf as [(Hc & _) | (Hc & c & Ht & He)].
    - rewrite Hc. auto.
    - rewrite <- He in Hz. apply tids_expand in Hz. subst c. rewrite Ht. simpl. auto. }
  intros z. unfold owns at 1. rewrite !in_app_iff. intros [Hz | [Hz | Hz]].
  - destruct Htid as [E | (z' & Ea & Hz' & E)].
    + rewrite E in Hz. unfold owns. rewrite in_app_iff. auto.
    + rewrite E in Hz. apply Z.eqb_neq in Hz'. rewrite Hz' in Hz. destruct Hz as [Hz|[]]. subst z'.
      apply Hacts. subst a. simpl. auto.
  - apply Hacts. destruct Hcur as [E|E]; rewrite E in Hz; [|contradiction].
    apply tids_acts_tail. exact Hz.
  - rewrite Htodo in Hz. unfold owns. rewrite !in_app_iff.
    destruct Hf as [(_ & Hc) | (_ & c & Ht & _)].
    + rewrite Hc in Hz. auto.
    + rewrite Ht. right. right. apply tids_of_tail. exact Hz.
Qed.

(* the file part of a step *)
Lemma tstep_fs mv i t st fl r a rest cs :
  tstep mv i t st fl = Some r -> fetch mv t = Some (a, rest, cs) ->
  match a with
  | AFs o => r_file r = Some (fst (fs_exec o t fl)) /\ t_tid (r_thr r) = t_tid (snd (fs_exec o t fl))
  | _ => r_file r = None /\ t_tid (r_thr r) = t_tid t
  end.
Proof.
  unfold tstep. intros H F. rewrite F in H. inversion H; subst; clear H.
  destruct a; simpl; auto.
  - destruct (is_st st UNINIT); simpl; auto.
  - destruct (is_st st READY); simpl; auto.
  - destruct (is_st st READY); simpl; auto.
  - destruct (local_exec l t) eqn:L; simpl; auto.
    apply local_exec_ctl in L. destruct L as (_ & _ & _ & Ht & _). auto.
  - destruct (fs_exec o t fl) as [fl' t'] eqn:E. simpl. auto.
Qed.

Lemma fs_exec_tid o t fl : t_tid (snd (fs_exec o t fl)) = t_tid t \/
  exists z, o = FsCreate z /\ z <> 0%Z /\ t_tid (snd (fs_exec o t fl)) = z /\ fst (fs_exec o t fl) <> None.
Proof.
  destruct o; simpl; auto.
  destruct (Z.eqb tid 0) eqn:E; simpl; auto.
  right. exists tid. apply Z.eqb_neq in E. repeat split; auto. discriminate.
Qed.

Lemma fs_exec_none o t fl : fst (fs_exec o t fl) = None -> fl = None /\ t_tid (snd (fs_exec o t fl)) = t_tid t.
Proof.
  destruct o; simpl.
  - destruct (Z.eqb tid 0); simpl; auto. discriminate.
  - destruct fl; simpl; auto. discriminate.
  - destruct fl; simpl; auto. discriminate.
Qed.

Lemma fs_get_put_eq k fl m : fs_get k (fs_put k fl m) = match fl with Some f => Some f | None => fs_get k m end.
Proof. destruct fl; simpl; auto. rewrite Z.eqb_refl. auto. Qed.

Lemma fs_get_put_neq k k' fl m : k <> k' -> fs_get k (fs_put k' fl m) = fs_get k m.
Proof. intros H. destruct fl; simpl; auto. apply Z.eqb_neq in H. rewrite H. auto. Qed.

(* the outcome of a step that does not kill the thread does not depend on the shared state:
   it is the step of the sequential reference *)
Lemma tstep_fav mv i t st fl r a rest cs :
  tstep mv i t st fl = Some r -> fetch mv t = Some (a, rest, cs) -> t_dead (r_thr r) = false ->
  exists r', tstep mv 0 t (fav a) fl = Some r' /\ r_thr r' = r_thr r /\ r_file r' = r_file r.
Proof.
  unfold tstep. intros H F D. rewrite F in *. inversion H; subst; clear H.
  destruct a; simpl in *.
  - destruct (is_st st UNINIT); simpl in *; [|discriminate]. eexists; split; [reflexivity|]. auto.
  - eexists; split; [reflexivity|]. auto.
  - destruct (is_st st READY); simpl in *; [|discriminate]. eexists; split; [reflexivity|]. auto.
  - destruct (is_st st READY); simpl in *; [|discriminate]. eexists; split; [reflexivity|]. auto.
  - eexists; split; [reflexivity|]. auto.
  - eexists; split; [reflexivity|]. auto.
  - destruct (local_exec l t); eexists; (split; [reflexivity|]); auto.
  - destruct (fs_exec o t fl). eexists; split; [reflexivity|]. auto.
Qed.

(* k successful steps of the sequential reference *)
Fixpoint asteps (mv : bool) (k : nat) (s : thr * option file) : option (thr * option file) :=
  match k with
  | O => Some s
  | S k' => match astep mv s with Some s' => asteps mv k' s' | None => None end
  end.

Lemma asteps_snoc mv k : forall s s1 s2,
  asteps mv k s = Some s1 -> astep mv s1 = Some s2 -> asteps mv (S k) s = Some s2.
Proof.
  induction k; intros s s1 s2 H1 H2.
  - simpl in H1. inversion H1; subst. simpl. rewrite H2. auto.
  - simpl in H1. destruct (astep mv s) as [s'|] eqn:E; [|discriminate].
    change (asteps mv (S (S k)) s) with (match astep mv s with Some s' => asteps mv (S k) s' | None => None end).
    rewrite E. eapply IHk; eauto.
Qed.

Definition measure (mv : bool) (s : thr * option file) : nat :=
  (length (t_cur (fst s)) + nactions mv (t_todo (fst s)))%nat.

Lemma astep_measure mv s s' : astep mv s = Some s' -> (S (measure mv s') <= measure mv s)%nat.
Proof.
  destruct s as [t fl]. unfold astep.
  destruct (fetch mv t) as [[[a rest] cs]|] eqn:F; [|discriminate].
  destruct (tstep mv 0 t (fav a) fl) as [r|] eqn:T; [|discriminate].
  intros H. inversion H; subst; clear H.
  destruct (tstep_ctl _ _ _ _ _ _ _ _ _ T F) as (Htodo & Hcur & _).
  destruct (fetch_inv _ _ _ _ _ F) as (_ & Hf).
  unfold measure. simpl. rewrite Htodo.
  assert (Hl : (length (t_cur (r_thr r)) <= length rest)%nat).
  { destruct Hcur as [E|E]; rewrite E; simpl; lia. }
  destruct Hf as [(Hc & Ht) | (Hc & c & Ht & He)].
  - rewrite Hc, <- Ht. simpl. lia.
  - rewrite Hc, Ht. simpl. rewrite He. simpl. lia.
Qed.

Lemma asteps_measure mv k : forall s s', asteps mv k s = Some s' -> (k + measure mv s' <= measure mv s)%nat.
Proof.
  induction k; intros s s' H; simpl in H.
  - inversion H; subst. lia.
  - destruct (astep mv s) as [s1|] eqn:E; [|discriminate].
    apply astep_measure in E. apply IHk in H. lia.
Qed.

Lemma asteps_arun mv k : forall s s', asteps mv k s = Some s' -> astep mv s' = None ->
  forall m, (k <= m)%nat -> arun mv m s = s'.
Proof.
  induction k; intros s s' H N m Hm; simpl in H.
  - inversion H; subst. destruct m; simpl; auto. rewrite N. auto.
  - destruct (astep mv s) as [s1|] eqn:E; [|discriminate].
    destruct m; [lia|]. simpl. rewrite E. eapply IHk; eauto. lia.
Qed.

Definition fs0 (c : config) : Prop := fs_get 0 (c_fs c) = None.
Definition disjoint_owns (c : config) : Prop :=
  forall i j ti tj z, i <> j -> nth_error (c_thr c) i = Some ti -> nth_error (c_thr c) j = Some tj ->
    In z (owns ti) -> In z (owns tj) -> False.

Lemma owns_tid t : t_tid t <> 0%Z -> In (t_tid t) (owns t).
Proof. intros H. unfold owns. apply Z.eqb_neq in H. rewrite H. simpl. auto. Qed.

Lemma step_fs0 mv c i c' : step mv c i = Some c' -> fs0 c -> fs0 c'.
Proof.
  intros Hstep Z. destruct (step_inv _ _ _ _ Hstep) as (t & r & N & T & _ & Hfs & _).
  unfold fs0 in *. rewrite Hfs.
  assert (T0 := T). unfold tstep in T0.
  destruct (fetch mv t) as [[[a rest] cs]|] eqn:F; [|discriminate]. clear T0.
  assert (Hf := tstep_fs _ _ _ _ _ _ _ _ _ T F).
  destruct a; try (destruct Hf as (Hf & _); rewrite Hf; exact Z).
  destruct Hf as (Hf & Ht). rewrite Hf.
  destruct (Z.eq_dec (t_tid (r_thr r)) 0) as [E|E].
  - rewrite E. rewrite fs_get_put_eq.
    destruct (fst (fs_exec o t (fs_get (t_tid t) (c_fs c)))) eqn:X; auto.
    exfalso. destruct (fs_exec_tid o t (fs_get (t_tid t) (c_fs c))) as [Hs | (z & _ & Hz & Hz' & _)].
    + rewrite Hs in Ht. rewrite Ht in E. rewrite E in X.
      destruct o; simpl in X.
      * destruct (Z.eqb tid 0) eqn:Q; simpl in X; [rewrite Z in X; discriminate|].
        simpl in Hs. rewrite Q in Hs. simpl in Hs. apply Z.eqb_neq in Q. congruence.
      * rewrite Z in X. discriminate.
      * rewrite Z in X. discriminate.
    + congruence.
  - rewrite fs_get_put_neq; auto.
Qed.

Lemma step_disjoint mv c i c' : step mv c i = Some c' -> disjoint_owns c -> disjoint_owns c'.
Proof.
  intros Hstep D. destruct (step_inv _ _ _ _ Hstep) as (t & r & N & T & _ & _ & Hthr & _).
  assert (Ho := owns_step _ _ _ _ _ _ T).
  intros a b ta tb z Hab Na Nb Ha Hb. rewrite Hthr in Na, Nb.
  destruct (Nat.eq_dec a i) as [Ea|Ea]; destruct (Nat.eq_dec b i) as [Eb|Eb]; try congruence.
  - subst a. rewrite (nth_set_eq _ _ _ _ N) in Na. inversion Na; subst ta.
    rewrite nth_set_neq in Nb by auto. eapply (D i b); eauto.
  - subst b. rewrite (nth_set_eq _ _ _ _ N) in Nb. inversion Nb; subst tb.
    rewrite nth_set_neq in Na by auto. eapply (D a i); eauto.
  - rewrite nth_set_neq in Na, Nb by auto. eapply (D a b); eauto.
Qed.

Definition pfile (c : config) (t : thr) : option file := fs_get (t_tid t) (c_fs c).

(* the stepping thread: if it survives, it made a step of the sequential reference *)
Lemma step_self mv c i c' t :
  step mv c i = Some c' -> nth_error (c_thr c) i = Some t ->
  exists t', nth_error (c_thr c') i = Some t' /\
    (t_dead t' = false -> astep mv (t, pfile c t) = Some (t', pfile c' t')).
Proof.
  intros Hstep N. destruct (step_inv _ _ _ _ Hstep) as (t0 & r & N0 & T & _ & Hfs & Hthr & _).
  rewrite N in N0. inversion N0; subst t0. clear N0.
  exists (r_thr r). split. { rewrite Hthr. eapply nth_set_eq; eauto. }
  intros D. assert (T0 := T). unfold tstep in T0.
  destruct (fetch mv t) as [[[a rest] cs]|] eqn:F; [|discriminate]. clear T0.
  destruct (tstep_fav _ _ _ _ _ _ _ _ _ T F D) as (r' & T' & E1 & E2).
  unfold astep, pfile. rewrite F, T'. rewrite E1, E2. f_equal. f_equal.
  rewrite Hfs. assert (Hf := tstep_fs _ _ _ _ _ _ _ _ _ T F).
  destruct a; try (destruct Hf as (Hf & Ht); rewrite Hf, Ht; reflexivity).
  destruct Hf as (Hf & Ht). rewrite Hf. rewrite fs_get_put_eq.
  destruct (fst (fs_exec o t (fs_get (t_tid t) (c_fs c)))) eqn:X; auto.
  apply fs_exec_none in X. destruct X as (X1 & X2). rewrite Ht, X2. auto.
Qed.

(* the other threads: untouched, and so is their directory (distinct TIDs) *)
Lemma step_frame mv c i c' j tj :
  step mv c i = Some c' -> i <> j -> nth_error (c_thr c) j = Some tj ->
  disjoint_owns c -> fs0 c ->
  nth_error (c_thr c') j = Some tj /\ pfile c' tj = pfile c tj.
Proof.
  intros Hstep Hij Nj D Z. assert (Z' := step_fs0 _ _ _ _ Hstep Z).
  destruct (step_inv _ _ _ _ Hstep) as (t & r & N & T & _ & Hfs & Hthr & _).
  split. { rewrite Hthr. rewrite nth_set_neq; auto. }
  unfold pfile. destruct (Z.eq_dec (t_tid tj) 0) as [E0|E0].
  { rewrite E0. unfold fs0 in *. congruence. }
  rewrite Hfs. destruct (r_file r) as [fl'|]; auto.
  apply fs_get_put_neq. intros E.
  apply (D i j t tj (t_tid tj)); auto.
  - eapply owns_step; eauto. rewrite E. apply owns_tid. congruence.
  - apply owns_tid. auto.
Qed.

Definition iso_inv (mv : bool) (c0 c : config) : Prop :=
  disjoint_owns c /\ fs0 c /\
  forall i t0 t, nth_error (c_thr c0) i = Some t0 -> nth_error (c_thr c) i = Some t -> t_dead t = false ->
    exists k, asteps mv k (t0, pfile c0 t0) = Some (t, pfile c t).

Lemma dead_stays mv c i c' j t : step mv c i = Some c' -> nth_error (c_thr c) j = Some t -> t_dead t = true ->
  nth_error (c_thr c') j = Some t.
Proof.
  intros Hstep N D. destruct (step_inv _ _ _ _ Hstep) as (t0 & r & N0 & T & _ & _ & Hthr & _).
  rewrite Hthr. destruct (Nat.eq_dec i j).
  - subst j. rewrite N in N0. inversion N0; subst t0. rewrite dead_stuck in T; auto. discriminate.
  - rewrite nth_set_neq; auto.
Qed.

Lemma length_set_nth {A} : forall (l : list A) i x, length (set_nth i x l) = length l.
Proof. induction l; intros [|i] x; simpl; auto. Qed.

Lemma iso_step mv c0 c i c' : iso_inv mv c0 c -> step mv c i = Some c' -> iso_inv mv c0 c'.
Proof.
  intros (D & Z & H) Hstep. split; [eapply step_disjoint; eauto|]. split; [eapply step_fs0; eauto|].
  intros j t0 t' N0 N' Dd.
  destruct (step_inv _ _ _ _ Hstep) as (ti & r & Ni & T & _ & _ & Hthr & _).
  destruct (Nat.eq_dec i j) as [E|E].
  - subst j. destruct (step_self _ _ _ _ _ Hstep Ni) as (t'' & N'' & Hs).
    rewrite N' in N''. inversion N''; subst t''. specialize (Hs Dd).
    assert (Di : t_dead ti = false).
    { unfold tstep in T. destruct (fetch mv ti) as [[[a rest] cs]|] eqn:F; [|discriminate].
      apply fetch_inv in F. tauto. }
    destruct (H i t0 ti N0 Ni Di) as (k & Hk). exists (S k). eapply asteps_snoc; eauto.
  - assert (Nj : nth_error (c_thr c) j = Some t').
    { rewrite Hthr in N'. rewrite nth_set_neq in N'; auto. }
    destruct (step_frame _ _ _ _ _ _ Hstep E Nj D Z) as (_ & Hp).
    destruct (H j t0 t' N0 Nj Dd) as (k & Hk). exists k. rewrite Hp. exact Hk.
Qed.

Definition tids_disjoint (progs : list (list call)) : Prop :=
  forall i j pi pj z, i <> j -> nth_error progs i = Some pi -> nth_error progs j = Some pj ->
    In z (tids_of pi) -> In z (tids_of pj) -> False.

Lemma owns_thr0 p z : In z (owns (thr0 p)) -> In z (tids_of p).
Proof. unfold owns, thr0. simpl. auto. Qed.

Lemma iso_init_gen mv st flds progs : tids_disjoint progs ->
  iso_inv mv (mkCfg st flds [] (map thr0 progs) []) (mkCfg st flds [] (map thr0 progs) []).
Proof.
  intros TD. split; [|split].
  - intros i j ti tj z Hij Ni Nj Hi Hj. simpl in Ni, Nj.
    rewrite nth_error_map in Ni, Nj.
    destruct (nth_error progs i) as [pi|] eqn:Pi; [|discriminate].
    destruct (nth_error progs j) as [pj|] eqn:Pj; [|discriminate].
    simpl in Ni, Nj. inversion Ni; inversion Nj; subst.
    eapply (TD i j); eauto using owns_thr0.
  - reflexivity.
  - intros i t0 t N0 N _. rewrite N0 in N. inversion N; subst. exists O. reflexivity.
Qed.

Lemma done_stuck mv t fl : thr_done t = true -> astep mv (t, fl) = None.
Proof.
  unfold thr_done, astep, fetch. intros H. apply andb_true_iff in H. destruct H as (H1 & H2).
  destruct (t_dead t); [discriminate|].
  destruct (t_cur t); [|discriminate]. destruct (t_todo t); [|discriminate]. reflexivity.
Qed.

(* ISOLATION, general form: from any start in which TIDs are distinct *)
Lemma isolation_gen mv st flds progs s i p t :
  tids_disjoint progs ->
  let c := run mv (mkCfg st flds [] (map thr0 progs) []) s in
  nth_error progs i = Some p -> nth_error (c_thr c) i = Some t ->
  (t_dead t = false -> exists k, asteps mv k (thr0 p, None) = Some (t, pfile c t)) /\
  (thr_done t = true -> (t, pfile c t) = seq_result mv p).
Proof.
  intros TD c Np Nt.
  assert (I : iso_inv mv (mkCfg st flds [] (map thr0 progs) []) c).
  { unfold c. apply run_ind with (P := iso_inv mv (mkCfg st flds [] (map thr0 progs) [])).
    - intros; eapply iso_step; eauto.
    - apply iso_init_gen; auto. }
  destruct I as (_ & _ & H).
  assert (N0 : nth_error (c_thr (mkCfg st flds [] (map thr0 progs) [])) i = Some (thr0 p)).
  { simpl. rewrite nth_error_map, Np. reflexivity. }
  assert (A : t_dead t = false -> exists k, asteps mv k (thr0 p, None) = Some (t, pfile c t)).
  { intros D. destruct (H i (thr0 p) t N0 Nt D) as (k & Hk). exists k. exact Hk. }
  split; auto.
  intros Dn. assert (D : t_dead t = false).
  { unfold thr_done in Dn. apply andb_true_iff in Dn. destruct Dn as (Dn & _).
    destruct (t_dead t); simpl in *; [discriminate|reflexivity]. }
  destruct (A D) as (k & Hk). unfold seq_result. symmetry.
  eapply asteps_arun; eauto using done_stuck.
  apply asteps_measure in Hk. unfold measure in Hk. simpl in Hk. lia.
Qed.
