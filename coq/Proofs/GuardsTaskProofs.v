(* The body/task functions regenerated from src/emu/body.c and src/emu/task.c (Gen/Guards_gen.v) equal
   the hand model task_op of Emu/EmuCoreDefs.v: same accepted state or both reject, no NULL dereference. *)
From Coq Require Import ZArith List Bool Lia.
From OV Require Import Base.CInt Emu.EmuCoreDefs Emu.GuardsPre Proofs.GuardsProofs.
From OV Require Gen.Guards_gen.
Import ListNotations.
Local Open Scope Z_scope.

(* ---------------------------------------------------------------- lookups *)

Lemma find_task_from_spec l loom pid mdl id k i tk :
  find_task_from l loom pid mdl id k = Some (i, tk) ->
  (k <= i)%nat /\ nth_error l (i - k) = Some tk /\ tk_id tk = id /\ tk_model tk = mdl.
Proof.
  revert k. induction l as [|x l IH]; intros k H; cbn [find_task_from] in H; [discriminate|].
  destruct (Nat.eqb (tk_loom x) loom && (tk_pid x =? pid) && (tk_model x =? mdl) && (tk_id x =? id)) eqn:E.
  - inversion H; subst. rewrite Nat.sub_diag. cbn.
    apply andb_true_iff in E as [E E4]. apply andb_true_iff in E as [E E3].
    apply Z.eqb_eq in E3, E4. repeat split; auto.
  - destruct (IH _ H) as (A & B & C & D). repeat split; auto; try lia.
    replace (i - k)%nat with (S (i - S k)) by lia. exact B.
Qed.

Lemma find_task_spec st loom pid mdl id i tk :
  find_task st loom pid mdl id = Some (i, tk) ->
  nth_error (tasks st) i = Some tk /\ tk_id tk = id /\ tk_model tk = mdl.
Proof. intros H. destruct (find_task_from_spec _ _ _ _ _ _ _ _ H) as (_ & B & C & D). rewrite Nat.sub_0_r in B. auto. Qed.

Lemma find_body_from_spec l id k j b :
  find_body_from l id k = Some (j, b) -> (k <= j)%nat /\ nth_error l (j - k) = Some b /\ b_id b = id.
Proof.
  revert k. induction l as [|x l IH]; intros k H; cbn [find_body_from] in H; [discriminate|].
  destruct (b_id x =? id) eqn:E.
  - inversion H; subst. rewrite Nat.sub_diag. cbn. apply Z.eqb_eq in E. auto.
  - destruct (IH _ H) as (A & B & C). repeat split; auto; try lia.
    replace (j - k)%nat with (S (j - S k)) by lia. exact B.
Qed.

Lemma find_body_spec tk id j b : find_body tk id = Some (j, b) -> nth_error (tk_bodies tk) j = Some b /\ b_id b = id.
Proof. intros H. destruct (find_body_from_spec _ _ _ _ _ H) as (_ & B & C). rewrite Nat.sub_0_r in B. auto. Qed.

(* a lookup that succeeds for a different key lands elsewhere *)
Lemma find_body_from_other l id id' k j b j' b' :
  find_body_from l id k = Some (j, b) -> find_body_from l id' k = Some (j', b') -> id <> id' -> j <> j'.
Proof.
  intros H H' N E. subst j'.
  destruct (find_body_from_spec _ _ _ _ _ H) as (_ & B & C).
  destruct (find_body_from_spec _ _ _ _ _ H') as (_ & B' & C'). congruence.
Qed.

Lemma tsk_of st i tk : nth_error (tasks st) i = Some tk -> tsk st i = tk.
Proof. intros H. unfold tsk. apply nth_error_nth. exact H. Qed.

Lemma bdy_of st i tk j b : nth_error (tasks st) i = Some tk -> nth_error (tk_bodies tk) j = Some b -> bdy st i j = b.
Proof. intros H H2. unfold bdy. rewrite (tsk_of _ _ _ H). apply nth_error_nth. exact H2. Qed.

(* ---------------------------------------------------------------- flags *)

Lemma k_bcreated : cast_uint32 Guards_gen.c_BODY_ST_CREATED = bstate_code BCreated. Proof. reflexivity. Qed.
Lemma k_brunning : cast_uint32 Guards_gen.c_BODY_ST_RUNNING = bstate_code BRunning. Proof. reflexivity. Qed.
Lemma k_bpaused : cast_uint32 Guards_gen.c_BODY_ST_PAUSED = bstate_code BPaused. Proof. reflexivity. Qed.
Lemma k_bdead : cast_uint32 Guards_gen.c_BODY_ST_DEAD = bstate_code BDead. Proof. reflexivity. Qed.
Ltac kb := rewrite ?k_bcreated, ?k_brunning, ?k_bpaused, ?k_bdead.

Lemma bstate_of_code_code s : bstate_of_code (bstate_code s) = Some s.
Proof. destruct s; reflexivity. Qed.

Lemma bstate_code_eqb a b : (bstate_code a =? bstate_code b) = bstate_eqb a b.
Proof. destruct a, b; reflexivity. Qed.

Lemma flag_pause tk : negb (Z.land (body_flags_of tk) Guards_gen.c_BODY_FLAG_PAUSE =? 0) = tk_pause tk.
Proof. unfold body_flags_of. destruct (tk_pause tk), (tk_res tk), (tk_relax tk); reflexivity. Qed.
Lemma flag_res tk : negb (Z.land (body_flags_of tk) Guards_gen.c_BODY_FLAG_RESURRECT =? 0) = tk_res tk.
Proof. unfold body_flags_of. destruct (tk_pause tk), (tk_res tk), (tk_relax tk); reflexivity. Qed.
Lemma flag_relax tk : negb (Z.land (body_flags_of tk) Guards_gen.c_BODY_FLAG_RELAX_NESTING =? 0) = tk_relax tk.
Proof. unfold body_flags_of. destruct (tk_pause tk), (tk_res tk), (tk_relax tk); reflexivity. Qed.
Lemma flag_par tk : negb (cast_int32 (Z.land (task_flags_of tk) (cast_uint32 Guards_gen.c_TASK_FLAG_PARALLEL)) =? 0) = tk_par tk.
Proof. unfold task_flags_of. destruct (tk_par tk), (tk_pause tk), (tk_res tk), (tk_relax tk); reflexivity. Qed.

(* the flags create_body computes from the task's flags are the ones the model gives the body *)
Lemma created_flags tk :
  (let f0 := 0 in
   let f1 := if negb (Z.land (task_flags_of tk) (cast_uint32 Guards_gen.c_TASK_FLAG_RELAX_NESTING) =? 0) then Z.lor f0 Guards_gen.c_BODY_FLAG_RELAX_NESTING else f0 in
   let f2 := if negb (Z.land (task_flags_of tk) (cast_uint32 Guards_gen.c_TASK_FLAG_RESURRECT) =? 0) then Z.lor f1 Guards_gen.c_BODY_FLAG_RESURRECT else f1 in
   if negb (Z.land (task_flags_of tk) (cast_uint32 Guards_gen.c_TASK_FLAG_PAUSE) =? 0) then Z.lor f2 Guards_gen.c_BODY_FLAG_PAUSE else f2)
  = body_flags_of tk.
Proof. unfold task_flags_of, body_flags_of. destruct (tk_par tk), (tk_pause tk), (tk_res tk), (tk_relax tk); reflexivity. Qed.

(* ---------------------------------------------------------------- the stack of a thread *)

Section Stack.
Variables (sx : static) (who : nat) (me : thread_info) (mdl : Z).
Hypothesis Hme : nth_error (s_threads sx) who = Some me.
Let loom := ti_loom me.
Let pid := ti_pid me.

Lemma head_model th m t b r : model_stack th mdl = (m, t, b) :: r -> m = mdl.
Proof.
  intros H. assert (K : In (m, t, b) (model_stack th mdl)) by (rewrite H; left; reflexivity).
  unfold model_stack in K. apply filter_In in K as [_ K]. apply Z.eqb_eq in K. exact K.
Qed.

(* the body an entry denotes, as indices (generated code) and as records (hand model) *)
Lemma resolve_rel s e :
  match resolve sx s who e with
  | Some (i, j) => body_state_of s loom pid e = Some (tsk s i, bdy s i j)
  | None => body_state_of s loom pid e = None
  end.
Proof.
  destruct e as [[m t] b]. unfold resolve, body_state_of, nth_opt. rewrite Hme. fold loom pid.
  destruct (find_task s loom pid m t) as [[i tk']|] eqn:Ft; [|reflexivity].
  destruct (find_task_spec _ _ _ _ _ _ _ Ft) as (Hn & _ & _).
  destruct (find_body tk' b) as [[j b']|] eqn:Fb; [|reflexivity].
  destruct (find_body_spec _ _ _ _ Fb) as (Hb & _).
  rewrite (tsk_of _ _ _ Hn), (bdy_of _ _ _ _ _ Hn Hb). reflexivity.
Qed.

(* stack->top == body  <->  the top entry carries the ids of the body *)
Lemma top_is s th ti tk bi b tid bid :
  nth_error (threads s) who = Some th ->
  find_task s loom pid mdl tid = Some (ti, tk) -> find_body tk bid = Some (bi, b) ->
  ptr_eqb_body (get_body_stack_top sx s (Some (who, mdl))) (Some (ti, bi)) = is_top th mdl tid bid.
Proof.
  intros Hth Ft Fb. unfold get_body_stack_top, is_top. rewrite (thr_of _ _ _ Hth).
  destruct (model_stack th mdl) as [|[[m t] b0] r] eqn:Em; [reflexivity|].
  pose proof (head_model _ _ _ _ _ Em) as ->.
  unfold resolve, nth_opt. rewrite Hme. fold loom pid.
  destruct (find_task_spec _ _ _ _ _ _ _ Ft) as (Hn & Hid & _).
  destruct (find_body_spec _ _ _ _ Fb) as (Hb & Hbid).
  destruct (Z.eqb_spec t tid) as [->|Nt].
  - rewrite Ft. cbn [andb].
    destruct (Z.eqb_spec b0 bid) as [->|Nb].
    + rewrite Fb. cbn [ptr_eqb_body]. rewrite !Nat.eqb_refl. reflexivity.
    + destruct (find_body tk b0) as [[j b']|] eqn:Fb'; [|reflexivity].
      cbn [ptr_eqb_body]. rewrite Nat.eqb_refl. cbn [andb].
      apply Nat.eqb_neq. intros ->.
      destruct (find_body_spec _ _ _ _ Fb') as (Hb' & Hbid'). congruence.
  - cbn [andb].
    destruct (find_task s loom pid mdl t) as [[i tk']|] eqn:Ft'; [|reflexivity].
    destruct (find_task_spec _ _ _ _ _ _ _ Ft') as (Hn' & Hid' & _).
    assert (Hi : i <> ti) by (intros ->; congruence).
    destruct (find_body tk' b0) as [[j b']|]; [|reflexivity].
    cbn [ptr_eqb_body]. apply Nat.eqb_neq in Hi. rewrite Hi. reflexivity.
Qed.

(* body_get_running + the nesting test of body_execute  =  running_top + tk_relax *)
Lemma running_rel s th :
  nth_error (threads s) who = Some th ->
  Guards_gen.body_get_running_safe sx s (Some (who, mdl)) = true /\
  match Guards_gen.body_get_running sx s (Some (who, mdl)) with
  | Some (i, j) => running_top s loom pid th mdl = Some (tsk s i, bdy s i j)
  | None => running_top s loom pid th mdl = None
  end.
Proof.
  intros Hth. unfold Guards_gen.body_get_running_safe, Guards_gen.body_get_running, running_top.
  unfold get_body_stack_top. rewrite (thr_of _ _ _ Hth). kb.
  destruct (model_stack th mdl) as [|e r]; [split; reflexivity|].
  pose proof (resolve_rel s e) as R.
  destruct (resolve sx s who e) as [[i j]|]; rewrite R; cbn [is_null negb andb].
  - unfold get_body_state. rewrite bstate_code_eqb.
    destruct (bstate_eqb (b_state (bdy s i j)) BRunning); split; reflexivity.
  - split; reflexivity.
Qed.

End Stack.

(* ---------------------------------------------------------------- lookups after a body was stored *)

Definition same_keys (a b : task) : Prop :=
  tk_loom a = tk_loom b /\ tk_pid a = tk_pid b /\ tk_model a = tk_model b /\ tk_id a = tk_id b.

Lemma find_task_from_update l loom pid mdl id : forall ti k tk tk1,
  nth_error l ti = Some tk -> same_keys tk tk1 ->
  find_task_from (update l ti tk1) loom pid mdl id k =
  match find_task_from l loom pid mdl id k with
  | Some (i, x) => Some (i, if Nat.eqb i (ti + k) then tk1 else x)
  | None => None
  end.
Proof.
  induction l as [|x l IH]; intros ti k tk tk1 Hn (K1 & K2 & K3 & K4); [destruct ti; discriminate|].
  destruct ti as [|ti]; cbn [update find_task_from nth_error] in *.
  - inversion Hn; subst x. rewrite <- K1, <- K2, <- K3, <- K4.
    destruct (Nat.eqb (tk_loom tk) loom && (tk_pid tk =? pid) && (tk_model tk =? mdl) && (tk_id tk =? id)).
    + cbn [Nat.add]. rewrite Nat.eqb_refl. reflexivity.
    + destruct (find_task_from l loom pid mdl id (S k)) as [[i y]|] eqn:F; [|reflexivity].
      destruct (find_task_from_spec _ _ _ _ _ _ _ _ F) as (L & _). cbn [Nat.add].
      destruct (Nat.eqb_spec i k); [lia|reflexivity].
  - destruct (Nat.eqb (tk_loom x) loom && (tk_pid x =? pid) && (tk_model x =? mdl) && (tk_id x =? id)).
    + destruct (Nat.eqb_spec k (S ti + k)); [lia|reflexivity].
    + rewrite (IH ti (S k) tk tk1 Hn (conj K1 (conj K2 (conj K3 K4)))).
      replace (ti + S k)%nat with (S ti + k)%nat by lia. reflexivity.
Qed.

Lemma find_body_from_update l id : forall bi k b b',
  nth_error l bi = Some b -> b_id b' = b_id b ->
  find_body_from (update l bi b') id k =
  match find_body_from l id k with
  | Some (j, x) => Some (j, if Nat.eqb j (bi + k) then b' else x)
  | None => None
  end.
Proof.
  induction l as [|x l IH]; intros bi k b b' Hn Hid; [destruct bi; discriminate|].
  destruct bi as [|bi]; cbn [update find_body_from nth_error] in *.
  - inversion Hn; subst x. rewrite Hid.
    destruct (b_id b =? id).
    + cbn [Nat.add]. rewrite Nat.eqb_refl. reflexivity.
    + destruct (find_body_from l id (S k)) as [[j y]|] eqn:F; [|reflexivity].
      destruct (find_body_from_spec _ _ _ _ _ F) as (L & _). cbn [Nat.add].
      destruct (Nat.eqb_spec j k); [lia|reflexivity].
  - destruct (b_id x =? id).
    + destruct (Nat.eqb_spec k (S bi + k)); [lia|reflexivity].
    + rewrite (IH bi (S k) b b' Hn Hid). replace (bi + S k)%nat with (S bi + k)%nat by lia. reflexivity.
Qed.

Lemma find_body_from_app l b' id : forall k,
  find_body_from (l ++ [b']) id k =
  match find_body_from l id k with
  | Some r => Some r
  | None => if b_id b' =? id then Some ((k + length l)%nat, b') else None
  end.
Proof.
  induction l as [|x l IH]; intros k; cbn [app find_body_from length].
  - rewrite Nat.add_0_r. reflexivity.
  - destruct (b_id x =? id); [reflexivity|]. rewrite IH. replace (S k + length l)%nat with (k + S (length l))%nat by lia. reflexivity.
Qed.

(* ---------------------------------------------------------------- pause, resume, end *)

Ltac munf := unfold need, ite, bind_, bind, eval, ret, fail, exec.

Section Ops.
Variables (sx : static) (st : state) (who : nat) (th : thread) (me : thread_info) (mdl tid bid : Z).
Hypothesis Hth : nth_error (threads st) who = Some th.
Hypothesis Hme : nth_error (s_threads sx) who = Some me.
Let loom := ti_loom me.
Let pid := ti_pid me.

(* the `struct task *` the model's event handler passes: the result of its lookup, NULL if there is none *)
Definition task_ptr (s : state) : ptr_task :=
  match find_task s loom pid mdl tid with Some (i, _) => Some i | None => None end.

Lemma stack_eq w tk : tk_model tk = mdl ->
  ptr_eqb_body_stack (Some (w, tk_model tk)) (Some (who, mdl)) = Nat.eqb w who.
Proof. intros ->. cbn [ptr_eqb_body_stack]. rewrite Z.eqb_refl, andb_true_r. reflexivity. Qed.

Ltac open_task Ft Fb ti tk bi b Hn Hid Hmd Hb Hbid :=
  unfold task_op, task_ptr; fold loom pid;
  destruct (find_task st loom pid mdl tid) as [[ti tk]|] eqn:Ft; [|reflexivity];
  destruct (find_task_spec _ _ _ _ _ _ _ Ft) as (Hn & Hid & Hmd);
  cbn [Z.eqb Pos.eqb];
  munf; unfold addr_task_body_info, addr_task_stack_body_stack; cbn [is_null negb];
  unfold body_find; cbv beta iota; rewrite (tsk_of _ _ _ Hn);
  destruct (find_body tk bid) as [[bi b]|] eqn:Fb; [|reflexivity];
  destruct (find_body_spec _ _ _ _ Fb) as (Hb & Hbid);
  cbn [is_null negb].

Ltac guards_tac Hn Hb Hmd Ft Fb :=
  unfold get_body_state, get_body_stack; rewrite ?(bdy_of _ _ _ _ _ Hn Hb), ?(tsk_of _ _ _ Hn);
  kb; rewrite ?bstate_code_eqb;
  match goal with |- context [bstate_eqb (b_state ?b) ?s] => destruct (bstate_eqb (b_state b) s); cbn [negb]; [|reflexivity] end;
  match goal with |- context [b_on ?b] => destruct (b_on b) as [?w|] eqn:Eon; cbn [is_null negb]; [|reflexivity] end;
  rewrite (stack_eq _ _ Hmd);
  match goal with |- context [Nat.eqb ?x who] => destruct (Nat.eqb x who); cbn [negb]; [|reflexivity] end;
  rewrite (top_is sx who me mdl Hme st th _ _ _ _ _ _ Hth Ft Fb);
  match goal with |- context [is_top ?a ?b ?c ?d] => destruct (is_top a b c d); cbn [negb]; [|reflexivity] end.

Lemma task_pause_eq :
  outcome_of (exec (Guards_gen.task_pause (Some (who, mdl)) (task_ptr st) bid) sx st) =
  outcome_of (task_op st who th loom pid mdl 112 tid bid).
Proof.
  unfold Guards_gen.task_pause.
  open_task Ft Fb ti tk bi b Hn Hid Hmd Hb Hbid.
  unfold Guards_gen.body_pause. munf. cbn [is_null negb].
  unfold Guards_gen.body_can_pause_safe, Guards_gen.body_can_pause, get_body_flags. cbn [is_null negb].
  rewrite (tsk_of _ _ _ Hn), flag_pause.
  destruct (tk_pause tk); cbn [negb]; [|reflexivity].
  guards_tac Hn Hb Hmd Ft Fb.
  unfold set_body_state, with_body, nth_opt. rewrite Hn, Hb, bstate_of_code_code, Hbid, ?Eon. reflexivity.
Qed.

Lemma task_resume_eq :
  outcome_of (exec (Guards_gen.task_resume (Some (who, mdl)) (task_ptr st) bid) sx st) =
  outcome_of (task_op st who th loom pid mdl 114 tid bid).
Proof.
  unfold Guards_gen.task_resume.
  open_task Ft Fb ti tk bi b Hn Hid Hmd Hb Hbid.
  unfold Guards_gen.body_resume. munf. cbn [is_null negb].
  guards_tac Hn Hb Hmd Ft Fb.
  unfold set_body_state, with_body, nth_opt. rewrite Hn, Hb, bstate_of_code_code, Hbid, ?Eon. reflexivity.
Qed.

Lemma store_nth s ti tk bi b1 : nth_error (tasks s) ti = Some tk ->
  nth_error (tasks (store_body s ti tk (Some bi) b1)) ti = Some (set_bodies tk (update (tk_bodies tk) bi b1)).
Proof. intros Hn. unfold store_body, set_tasks; cbn [tasks]. apply nth_error_update_same. eapply nth_error_lt; eauto. Qed.

Lemma task_end_eq :
  outcome_of (exec (Guards_gen.task_end (Some (who, mdl)) (task_ptr st) bid) sx st) =
  outcome_of (task_op st who th loom pid mdl 101 tid bid).
Proof.
  unfold Guards_gen.task_end.
  open_task Ft Fb ti tk bi b Hn Hid Hmd Hb Hbid.
  unfold Guards_gen.body_end. munf. cbn [is_null negb].
  guards_tac Hn Hb Hmd Ft Fb.
  unfold set_body_state at 1, with_body at 1, nth_opt. rewrite Hn, Hb, bstate_of_code_code, Hbid, ?Eon.
  set (b1 := {| b_id := bid; b_state := BDead; b_on := Some w |}).
  pose proof (store_nth st ti tk bi b1 Hn) as Hn1.
  assert (Hb1 : nth_error (tk_bodies (set_bodies tk (update (tk_bodies tk) bi b1))) bi = Some b1).
  { cbn [set_bodies tk_bodies]. apply nth_error_update_same. eapply nth_error_lt; eauto. }
  unfold DL_DELETE_body_stack_top, with_stack_body, with_body, nth_opt.
  change (threads (store_body st ti tk (Some bi) b1)) with (threads st). rewrite Hth, Hn1, Hb1.
  cbn [set_bodies tk_id b_id b1]. rewrite Hid.
  unfold set_body_stack, with_body, nth_opt.
  change (tasks (set_thread ?s ?t ?x)) with (tasks s).

  rewrite Hn1, Hb1. cbn [b1 b_id b_state]. unfold outcome_of. f_equal.
  unfold store_body, set_tasks, set_thread, set_bodies; cbn [threads cpu_threads cpu_touched tasks types prv_last
    tk_loom tk_pid tk_model tk_id tk_gid tk_par tk_res tk_pause tk_relax tk_bodies].
  rewrite !update_twice. reflexivity.
Qed.

(* ---------------------------------------------------------------- execute *)

(* is the top of the thread's stack running, and may one nest over it *)
Definition rtop (s : state) : option bool :=
  match model_stack th mdl with
  | e :: _ => match body_state_of s loom pid e with
              | Some (tk', b') => if bstate_eqb (b_state b') BRunning then Some (tk_relax tk') else None
              | None => None
              end
  | [] => None
  end.

Lemma rtop_running s :
  rtop s = match running_top s loom pid th mdl with Some (tk', _) => Some (tk_relax tk') | None => None end.
Proof.
  unfold rtop, running_top. destruct (model_stack th mdl) as [|e r]; [reflexivity|].
  destruct (body_state_of s loom pid e) as [[tk' b']|]; [|reflexivity].
  destruct (bstate_eqb (b_state b') BRunning); reflexivity.
Qed.

(* storing a body that does not run (over one that did not run, or as a new one) does not change it *)
Lemma rtop_store s ti tk obi b' :
  nth_error (tasks s) ti = Some tk ->
  bstate_eqb (b_state b') BRunning = false ->
  match obi with
  | Some bi => exists b, nth_error (tk_bodies tk) bi = Some b /\ b_id b' = b_id b /\ bstate_eqb (b_state b) BRunning = false
  | None => True
  end ->
  rtop (store_body s ti tk obi b') = rtop s.
Proof.
  intros Hn Hr' Hobi. unfold rtop. destruct (model_stack th mdl) as [|[[m t] b0] r]; [reflexivity|].
  unfold body_state_of, find_task, store_body, set_tasks; cbn [tasks].
  rewrite (find_task_from_update _ loom pid m t ti 0 tk _ Hn) by (unfold same_keys, set_bodies; cbn; auto).
  destruct (find_task_from (tasks s) loom pid m t 0) as [[i x]|] eqn:F; [|reflexivity].
  rewrite Nat.add_0_r. destruct (Nat.eqb_spec i ti) as [->|Ni]; [|reflexivity].
  destruct (find_task_from_spec _ _ _ _ _ _ _ _ F) as (_ & Hx & _). rewrite Nat.sub_0_r in Hx.
  assert (x = tk) by congruence. subst x.
  unfold find_body. cbn [set_bodies tk_bodies tk_relax].
  destruct obi as [bi|].
  - destruct Hobi as (b & Hb & Hid & Hr).
    rewrite (find_body_from_update _ b0 bi 0 b b' Hb Hid).
    destruct (find_body_from (tk_bodies tk) b0 0) as [[j y]|] eqn:Fb; [|reflexivity].
    rewrite Nat.add_0_r. destruct (Nat.eqb_spec j bi) as [->|Nj]; [|reflexivity].
    destruct (find_body_from_spec _ _ _ _ _ Fb) as (_ & Hy & _). rewrite Nat.sub_0_r in Hy.
    assert (y = b) by congruence. subst y. rewrite Hr, Hr'. reflexivity.
  - rewrite find_body_from_app.
    destruct (find_body_from (tk_bodies tk) b0 0) as [[j y]|]; [reflexivity|].
    destruct (b_id b' =? b0); [rewrite Hr'|]; reflexivity.
Qed.

(* the generated nesting test in a state s = rtop s *)
Lemma nest_rel s : nth_error (threads s) who = Some th ->
  Guards_gen.body_get_running_safe sx s (Some (who, mdl)) = true /\
  match Guards_gen.body_get_running sx s (Some (who, mdl)) with
  | Some (i, j) => rtop s = Some (negb (Z.land (get_body_flags sx s (Some (i, j))) Guards_gen.c_BODY_FLAG_RELAX_NESTING =? 0))
  | None => rtop s = None
  end.
Proof.
  intros Hs. destruct (running_rel sx who me mdl Hme s th Hs) as [S R]. split; [exact S|].
  rewrite rtop_running. fold loom pid in R.
  destruct (Guards_gen.body_get_running sx s (Some (who, mdl))) as [[i j]|]; rewrite R; [|reflexivity].
  unfold get_body_flags. rewrite flag_relax. reflexivity.
Qed.

(* what task_op does with the body once it is known (found or just created) *)
Definition hand_execute (s : state) (ti : nat) (tk : task) (bi : option nat) (b : body) : result state :=
  match (match b_state b with BDead => if tk_res tk then Some BCreated else None | x => Some x end) with
  | None => Err E_TASK
  | Some BCreated =>
    match b_on b with
    | Some _ => Err E_TASK
    | None =>
      match rtop s with
      | Some false => Err E_TASK
      | _ => Ok (set_thread (store_body s ti tk bi {| b_id := b_id b; b_state := BRunning; b_on := Some who |})
                            who (with_bstack th ((mdl, tk_id tk, b_id b) :: t_bstack th)))
      end
    end
  | Some _ => Err E_TASK
  end.

Lemma store_store s ti tk bi x y :
  store_body (store_body s ti tk (Some bi) x) ti (set_bodies tk (update (tk_bodies tk) bi x)) (Some bi) y =
  store_body s ti tk (Some bi) y.
Proof.
  unfold store_body, set_tasks, set_bodies; cbn [threads cpu_threads cpu_touched tasks types prv_last
    tk_loom tk_pid tk_model tk_id tk_gid tk_par tk_res tk_pause tk_relax tk_bodies].
  rewrite !update_twice. reflexivity.
Qed.

Lemma body_nth tk bi b x : nth_error (tk_bodies tk) bi = Some b ->
  nth_error (tk_bodies (set_bodies tk (update (tk_bodies tk) bi x))) bi = Some x.
Proof. intros H. cbn [set_bodies tk_bodies]. apply nth_error_update_same. eapply nth_error_lt; eauto. Qed.

(* the three final statements of body_execute *)
Lemma fin_eq S ti TK bi B :
  nth_error (threads S) who = Some th -> nth_error (tasks S) ti = Some TK ->
  nth_error (tk_bodies TK) bi = Some B -> tk_model TK = mdl ->
  bind_ (set_body_stack (Some (ti, bi)) (fun _ _ => Some (who, mdl)))
    (bind_ (set_body_state (Some (ti, bi)) (fun _ _ => cast_uint32 Guards_gen.c_BODY_ST_RUNNING))
      (bind_ (DL_PREPEND_body_stack_top (Some (who, mdl)) (Some (ti, bi))) (ret tt))) sx S =
  Ok (tt, set_thread (store_body S ti TK (Some bi) {| b_id := b_id B; b_state := BRunning; b_on := Some who |})
                     who (with_bstack th ((mdl, tk_id TK, b_id B) :: t_bstack th))).
Proof.
  intros Ht Hn Hb Hm. unfold bind_, bind, ret.
  unfold set_body_stack, with_body, nth_opt. rewrite Hn, Hb, Hm, Z.eqb_refl.
  set (x := {| b_id := b_id B; b_state := b_state B; b_on := Some who |}).
  unfold set_body_state, with_body, nth_opt. rewrite (store_nth S ti TK bi x Hn), (body_nth TK bi B x Hb).
  kb. rewrite bstate_of_code_code. rewrite store_store. cbn [x b_id b_on].
  set (y := {| b_id := b_id B; b_state := BRunning; b_on := Some who |}).
  unfold DL_PREPEND_body_stack_top, with_stack_body, with_body, nth_opt.
  change (threads (store_body S ti TK (Some bi) y)) with (threads S).
  rewrite Ht, (store_nth S ti TK bi y Hn), (body_nth TK bi B y Hb). reflexivity.
Qed.

Ltac tail_tac S TK B HtS HnS HbS HmS ti bi :=
  unfold get_body_state, get_body_stack;
  rewrite ?(bdy_of S ti TK bi B HnS HbS), ?(tsk_of S ti TK HnS); kb; rewrite ?bstate_code_eqb;
  cbn [b_state b_on bstate_eqb negb is_null];
  try reflexivity;
  let Sf := fresh "Sf" in let R := fresh "R" in let K := fresh "K" in
  destruct (nest_rel S HtS) as [Sf R]; rewrite Sf;
  pose proof (fin_eq S ti TK bi B HtS HnS HbS HmS) as K; unfold bind_, bind, ret in K; rewrite k_brunning in K;
  destruct (Guards_gen.body_get_running sx S (Some (who, mdl))) as [[?i ?j]|]; cbn [is_null negb]; rewrite R;
  [ match goal with |- context [negb (Z.land ?f ?c =? 0)] => destruct (negb (Z.land f c =? 0)) end | ];
  rewrite ?K; try reflexivity.

Lemma body_execute_eq s ti tk bi b :
  nth_error (threads s) who = Some th -> nth_error (tasks s) ti = Some tk ->
  nth_error (tk_bodies tk) bi = Some b -> tk_model tk = mdl ->
  outcome_of (exec (Guards_gen.body_execute (Some (who, mdl)) (Some (ti, bi))) sx s) =
  outcome_of (hand_execute s ti tk (Some bi) b).
Proof.
  intros Ht Hn Hb Hm. unfold Guards_gen.body_execute, hand_execute. munf. cbn [is_null negb].
  unfold get_body_state at 1. rewrite (bdy_of s ti tk bi b Hn Hb). kb. rewrite bstate_code_eqb.
  destruct b as [id0 s0 on0]. cbn [b_state b_on b_id] in *.
  destruct s0; cbn [bstate_eqb].
  - (* Created *)
    destruct on0 as [w0|].
    + tail_tac s tk ({| b_id := id0; b_state := BCreated; b_on := Some w0 |}) Ht Hn Hb Hm ti bi.
    + tail_tac s tk ({| b_id := id0; b_state := BCreated; b_on := @None nat |}) Ht Hn Hb Hm ti bi.
  - (* Running *)
    tail_tac s tk ({| b_id := id0; b_state := BRunning; b_on := on0 |}) Ht Hn Hb Hm ti bi.
  - (* Paused *)
    tail_tac s tk ({| b_id := id0; b_state := BPaused; b_on := on0 |}) Ht Hn Hb Hm ti bi.
  - (* Dead *)

    unfold Guards_gen.body_can_resurrect_safe, Guards_gen.body_can_resurrect. unfold get_body_flags at 1. cbn [is_null negb].
    rewrite (tsk_of _ _ _ Hn), flag_res.
    destruct (tk_res tk); cbn [negb]; [|reflexivity].
    pose proof (rtop_store s ti tk (Some bi) {| b_id := id0; b_state := BCreated; b_on := on0 |} Hn eq_refl
                  (ex_intro _ _ (conj Hb (conj eq_refl eq_refl)))) as Hr.
    unfold set_body_state at 1, with_body at 1, nth_opt. rewrite Hn, Hb, bstate_of_code_code.
    cbn [b_id b_on]. rewrite <- Hr. clear Hr.
    pose proof (store_nth s ti tk bi {| b_id := id0; b_state := BCreated; b_on := on0 |} Hn) as Hn1.
    pose proof (body_nth tk bi _ {| b_id := id0; b_state := BCreated; b_on := on0 |} Hb) as Hb1.
    pose proof (store_store s ti tk bi {| b_id := id0; b_state := BCreated; b_on := on0 |}) as SS.
    assert (Hm1 : tk_model (set_bodies tk (update (tk_bodies tk) bi {| b_id := id0; b_state := BCreated; b_on := on0 |})) = mdl) by exact Hm.
    assert (Hi1 : tk_id (set_bodies tk (update (tk_bodies tk) bi {| b_id := id0; b_state := BCreated; b_on := on0 |})) = tk_id tk) by reflexivity.
    assert (Ht1 : nth_error (threads (store_body s ti tk (Some bi) {| b_id := id0; b_state := BCreated; b_on := on0 |})) who = Some th) by exact Ht.
    remember (set_bodies tk (update (tk_bodies tk) bi {| b_id := id0; b_state := BCreated; b_on := on0 |})) as tk1 eqn:Etk1.
    remember (store_body s ti tk (Some bi) {| b_id := id0; b_state := BCreated; b_on := on0 |}) as s1 eqn:Es1.
    unfold set_body_iteration, with_body, nth_opt. rewrite Hn1, Hb1.
    destruct on0 as [w0|].
    + tail_tac s1 tk1 ({| b_id := id0; b_state := BCreated; b_on := Some w0 |}) Ht1 Hn1 Hb1 Hm1 ti bi.
    + tail_tac s1 tk1 ({| b_id := id0; b_state := BCreated; b_on := @None nat |}) Ht1 Hn1 Hb1 Hm1 ti bi.
      all: subst s1 tk1; cbn [b_id set_bodies tk_id]; rewrite SS; reflexivity.
Qed.

Lemma update_app_last {A} (l : list A) x y : update (l ++ [x]) (length l) y = l ++ [y].
Proof. induction l as [|a l IH]; cbn; [reflexivity|]. rewrite IH. reflexivity. Qed.

Lemma nth_error_app_last {A} (l : list A) x : nth_error (l ++ [x]) (length l) = Some x.
Proof. induction l as [|a l IH]; cbn; [reflexivity|exact IH]. Qed.

Lemma store_new_nth s ti tk x : nth_error (tasks s) ti = Some tk ->
  nth_error (tasks (store_body s ti tk None x)) ti = Some (set_bodies tk (tk_bodies tk ++ [x])).
Proof. intros Hn. unfold store_body, set_tasks; cbn [tasks]. apply nth_error_update_same. eapply nth_error_lt; eauto. Qed.

Lemma store_new_store s ti tk x y :
  store_body (store_body s ti tk None x) ti (set_bodies tk (tk_bodies tk ++ [x])) (Some (length (tk_bodies tk))) y =
  store_body s ti tk None y.
Proof.
  unfold store_body, set_tasks, set_bodies; cbn [threads cpu_threads cpu_touched tasks types prv_last
    tk_loom tk_pid tk_model tk_id tk_gid tk_par tk_res tk_pause tk_relax tk_bodies].
  rewrite update_twice, update_app_last. reflexivity.
Qed.

(* hand_execute is the part of task_op after the body is known *)
Lemma hand_execute_is ti tk obi b : tk_id tk = tid -> b_id b = bid ->
  hand_execute st ti tk obi b =
  match (match b_state b with BDead => if tk_res tk then Some BCreated else None | s => Some s end) with
  | None => Err E_TASK
  | Some BCreated =>
    match b_on b with
    | Some _ => Err E_TASK
    | None =>
      match running_top st loom pid th mdl with
      | Some (tk', _) => if tk_relax tk' then
                           Ok (set_thread (store_body st ti tk obi {| b_id := bid; b_state := BRunning; b_on := Some who |})
                                          who (with_bstack th ((mdl, tid, bid) :: t_bstack th)))
                         else Err E_TASK
      | None => Ok (set_thread (store_body st ti tk obi {| b_id := bid; b_state := BRunning; b_on := Some who |})
                               who (with_bstack th ((mdl, tid, bid) :: t_bstack th)))
      end
    end
  | Some _ => Err E_TASK
  end.
Proof.
  intros <- <-. unfold hand_execute. rewrite rtop_running.
  destruct (running_top st loom pid th mdl) as [[tk' b']|]; [destruct (tk_relax tk')|]; reflexivity.
Qed.

Lemma nbodies_pos (n : nat) : (Z.of_nat n >? 0) = negb (Nat.eqb n 0).
Proof. destruct n; reflexivity. Qed.

Lemma task_execute_eq : bid <> 0 ->
  outcome_of (exec (Guards_gen.task_execute (Some (who, mdl)) (task_ptr st) bid) sx st) =
  outcome_of (task_op st who th loom pid mdl 120 tid bid).
Proof.
  intros Hnz. unfold Guards_gen.task_execute.
  unfold task_op, task_ptr; fold loom pid.
  destruct (find_task st loom pid mdl tid) as [[ti tk]|] eqn:Ft; [|reflexivity].
  destruct (find_task_spec _ _ _ _ _ _ _ Ft) as (Hn & Hid & Hmd).
  cbn [Z.eqb Pos.eqb].
  munf; unfold addr_task_body_info, addr_task_stack_body_stack; cbn [is_null negb].
  unfold body_find; cbv beta iota; rewrite (tsk_of _ _ _ Hn).
  destruct (find_body tk bid) as [[bi b]|] eqn:Fb.
  - (* the body exists *)
    destruct (find_body_spec _ _ _ _ Fb) as (Hb & Hbid). cbn [is_null negb].
    pose proof (body_execute_eq st ti tk bi b Hth Hn Hb Hmd) as K. unfold exec in K.
    rewrite <- (hand_execute_is ti tk (Some bi) b Hid Hbid). rewrite <- K.
    destruct (Guards_gen.body_execute (Some (who, mdl)) (Some (ti, bi)) sx st) as [[u s']|e]; reflexivity.
  - (* create it *)
    cbn [is_null].
    unfold Guards_gen.create_body. munf.
    unfold Guards_gen.task_is_parallel_safe, Guards_gen.task_is_parallel, get_task_flags, get_task_nbodies.
    cbn [is_null negb andb]. rewrite (tsk_of _ _ _ Hn), !flag_par, nbodies_pos.
    replace (if negb (tk_par tk) then true else true) with true by (destruct (tk_par tk); reflexivity).
    destruct (negb (tk_par tk) && negb (Nat.eqb (length (tk_bodies tk)) 0)) eqn:Eg; [reflexivity|].
    pose proof (created_flags tk) as CF. cbv zeta in CF. rewrite CF. clear CF.
    unfold addr_task_body_info.
    unfold body_create, nth_opt. rewrite (proj2 (Z.eqb_neq bid 0) Hnz), Hn, Fb, Nat.eqb_refl, Z.eqb_refl.
    cbn [negb is_null].

    set (nb := {| b_id := bid; b_state := BCreated; b_on := None |}).
    pose proof (store_new_nth st ti tk nb Hn) as Hn1.
    unfold set_task_nbodies, nth_opt. rewrite Hn1. cbn [is_null].
    assert (Hb1 : nth_error (tk_bodies (set_bodies tk (tk_bodies tk ++ [nb]))) (length (tk_bodies tk)) = Some nb)
      by (cbn [set_bodies tk_bodies]; apply nth_error_app_last).
    pose proof (body_execute_eq (store_body st ti tk None nb) ti _ _ nb Hth Hn1 Hb1 Hmd) as K. unfold exec in K.
    match goal with |- _ = outcome_of ?r => change r with
      (match (match b_state nb with BDead => if tk_res tk then Some BCreated else None | s => Some s end) with
       | None => Err E_TASK
       | Some BCreated =>
         match b_on nb with
         | Some _ => Err E_TASK
         | None =>
           match running_top st loom pid th mdl with
           | Some (tk', _) => if tk_relax tk' then
                                Ok (set_thread (store_body st ti tk None {| b_id := bid; b_state := BRunning; b_on := Some who |})
                                               who (with_bstack th ((mdl, tid, bid) :: t_bstack th)))
                              else Err E_TASK
           | None => Ok (set_thread (store_body st ti tk None {| b_id := bid; b_state := BRunning; b_on := Some who |})
                                    who (with_bstack th ((mdl, tid, bid) :: t_bstack th)))
           end
         end
       | Some _ => Err E_TASK
       end) end.
    rewrite <- (hand_execute_is ti tk None nb Hid eq_refl).
    transitivity (outcome_of (hand_execute (store_body st ti tk None nb) ti (set_bodies tk (tk_bodies tk ++ [nb])) (Some (length (tk_bodies tk))) nb)).
    + rewrite <- K.
      destruct (Guards_gen.body_execute (Some (who, mdl)) (Some (ti, length (tk_bodies tk))) sx (store_body st ti tk None nb)) as [[u s']|e]; reflexivity.
    + subst nb. unfold hand_execute. cbn [b_state b_on b_id set_bodies tk_id].
      rewrite (rtop_store st ti tk None {| b_id := bid; b_state := BCreated; b_on := None |} Hn eq_refl I).
      rewrite store_new_store. reflexivity.
Qed.

End Ops.

(* ---------------------------------------------------------------- statement used by Props/Properties_C07.v *)

(* task_execute / task_pause / task_resume / task_end (task.c) with body_execute / body_pause / body_resume /
   body_end, body_can_*, body_get_running (body.c) and create_body, all generated from the source, called the
   way the model's event handlers call them (the stack of model mdl on the current thread, the task found by
   its id in the process of the thread or NULL, a non-zero body id), compute what task_op computes *)
Theorem task_ops_eq sx st who th me mdl tid bid :
  nth_error (threads st) who = Some th -> nth_error (s_threads sx) who = Some me ->
  let loom := ti_loom me in let pid := ti_pid me in
  let stack := Some (who, mdl) in
  let task := task_ptr me mdl tid st in
  (bid <> 0 ->
   outcome_of (exec (Guards_gen.task_execute stack task bid) sx st) = outcome_of (task_op st who th loom pid mdl 120 tid bid)) /\
  outcome_of (exec (Guards_gen.task_pause stack task bid) sx st) = outcome_of (task_op st who th loom pid mdl 112 tid bid) /\
  outcome_of (exec (Guards_gen.task_resume stack task bid) sx st) = outcome_of (task_op st who th loom pid mdl 114 tid bid) /\
  outcome_of (exec (Guards_gen.task_end stack task bid) sx st) = outcome_of (task_op st who th loom pid mdl 101 tid bid).
Proof.
  intros Hth Hme. cbv zeta. repeat split.
  - intros Hnz. apply (task_execute_eq sx st who th me mdl tid bid Hth Hme Hnz).
  - apply (task_pause_eq sx st who th me mdl tid bid Hth Hme).
  - apply (task_resume_eq sx st who th me mdl tid bid Hth Hme).
  - apply (task_end_eq sx st who th me mdl tid bid Hth Hme).
Qed.

(* a worked evaluation: one thread, one pausable task of model 86 ('V') with id 5 *)
Definition tx : static :=
  {| s_threads := [{| ti_tid := 7; ti_pid := 1; ti_loom := 0; ti_appid := 1; ti_rank := -1 |}];
     s_cpus := [{| ci_virtual := false; ci_loom := 0; ci_index := 0 |}]; s_chans := []; s_lint := false |}.
Definition tst0 : state :=
  set_tasks (init tx) [{| tk_loom := 0; tk_pid := 1; tk_model := 86; tk_id := 5; tk_gid := 100;
                         tk_par := false; tk_res := false; tk_pause := true; tk_relax := false; tk_bodies := [] |}].
Definition gen_ops (ops : list Z) : result state :=
  fold_left (fun r k =>
    match r with
    | Err e => Err e
    | Ok s =>
      let stack := Some (0%nat, 86) in
      let task := Some 0%nat in
      exec (if k =? 120 then Guards_gen.task_execute stack task 1
            else if k =? 112 then Guards_gen.task_pause stack task 1
            else if k =? 114 then Guards_gen.task_resume stack task 1
            else Guards_gen.task_end stack task 1) tx s
    end) ops (Ok tst0).
