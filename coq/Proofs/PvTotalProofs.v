(* C13: the connect-time registration of the Paraver writer never fails on well-formed inputs. *)
From Coq Require Import ZArith List Bool Lia FinFun.
From OV Require Import Base.CInt Emu.EmuCoreDefs Emu.DecodeDefs Emu.MarkDefs Emu.PvDefs Proofs.PvProofs.
From OV Require Gen.Tables_gen Gen.Pv_gen.
Import ListNotations.
Local Open Scope Z_scope.

(* ------------------------------------------------------------------ loops *)
Lemma foldr_app {A S} (f : A -> S -> result A) l1 : forall l2 a,
  foldr f (l1 ++ l2) a = match foldr f l1 a with Ok a' => foldr f l2 a' | Err e => Err e end.
Proof. induction l1 as [|s l1 IH]; intros l2 a; cbn [app foldr]; [reflexivity|]. destruct (f a s); [apply IH|reflexivity]. Qed.

Lemma foldr_flat_map {A S T} (f : A -> T -> result A) (h : S -> list T) l : forall a,
  foldr f (flat_map h l) a = foldr (fun a x => foldr f (h x) a) l a.
Proof.
  induction l as [|s l IH]; intros a; cbn [flat_map foldr]; [reflexivity|]. rewrite foldr_app. destruct (foldr f (h s) a); [apply IH|reflexivity].
Qed.

Lemma foldr_map {A S T} (f : A -> T -> result A) (h : S -> T) l : forall a, foldr f (map h l) a = foldr (fun a x => f a (h x)) l a.
Proof. induction l as [|s l IH]; intros a; cbn [map foldr]; [reflexivity|]. destruct (f a (h s)); [apply IH|reflexivity]. Qed.

Lemma foldr_ext {A S} (f g : A -> S -> result A) l : (forall a s, In s l -> f a s = g a s) -> forall a, foldr f l a = foldr g l a.
Proof.
  induction l as [|s l IH]; intros H a; cbn [foldr]; [reflexivity|]. rewrite (H a s) by now left. destruct (g a s); [|reflexivity].
  apply IH. intros a1 s1 H1. apply H. now right.
Qed.

(* a loop over distinct items that cannot fail while an invariant indexed by the items done so far holds *)
Lemma foldr_total {A S} (f : A -> S -> result A) (P : list S -> A -> Prop) l :
  (forall done s a, P done a -> ~ In s done -> In s l -> (forall x, In x done -> In x l) -> exists a', f a s = Ok a' /\ P (done ++ [s]) a') ->
  NoDup l -> forall a, P [] a -> exists a', foldr f l a = Ok a' /\ P l a'.
Proof.
  intros H N.
  assert (G : forall rest done a, NoDup rest -> (forall s, In s rest -> ~ In s done) -> (forall s, In s rest -> In s l) ->
              (forall x, In x done -> In x l) -> P done a -> exists a', foldr f rest a = Ok a' /\ P (done ++ rest) a').
  { induction rest as [|s rest IH]; intros done a Nr D I Dl Pa; cbn [foldr].
    - exists a. now rewrite app_nil_r.
    - inversion Nr as [|? ? Ns Nr']; subst. destruct (H done s a Pa (D s (or_introl eq_refl)) (I s (or_introl eq_refl)) Dl) as (a1 & E1 & P1).
      rewrite E1. destruct (IH (done ++ [s]) a1 Nr') as (a2 & E2 & P2).
      + intros x Hx Hd. apply in_app_or in Hd as [Hd|[<-|[]]]; [apply (D x (or_intror Hx) Hd)|contradiction].
      + intros x Hx. apply I. now right.
      + intros x Hx. apply in_app_or in Hx as [Hx|[<-|[]]]; [now apply Dl|apply I; now left].
      + exact P1.
      + exists a2. split; [exact E2|]. now rewrite <- app_assoc in P2. }
  intros a Pa. destruct (G l [] a N (fun _ _ F => F) (fun _ I => I) (fun _ F => match F with end) Pa) as (a' & E & P'). exists a'. auto.
Qed.

(* ------------------------------------------------------------------ PRV channels *)
Definition regpairs (v : pvt) : list (Z * Z) := map (fun c => (pc_type c, pc_row1 c - 1)) (pv_chans (v_prv v)).
Definition InvC (v : pvt) (n : nat) : Prop :=
  pv_nrows (v_prv v) = Z.of_nat n /\
  forall c, In c (pv_chans (v_prv v)) -> pc_id c = pc_type c * Z.of_nat n + (pc_row1 c - 1) /\ 0 <= pc_row1 c - 1 < Z.of_nat n.

Lemma register_total v n g ty fl : InvC v n -> 0 <= g < Z.of_nat n -> check_flags fl = true -> ~ In (ty, g) (regpairs v) ->
  exists v', pvt_register v g ty fl = Ok v' /\ InvC v' n /\ regpairs v' = regpairs v ++ [(ty, g)] /\ v_pcf v' = v_pcf v /\ v_prf v' = v_prf v.
Proof.
  intros [N C] Hg Hf Hn. unfold pvt_register, prv_register, prv_find, prv_get_id.
  destruct (find _ (pv_chans (v_prv v))) as [c|] eqn:F.
  - exfalso. apply find_some in F as [Hc E]. apply Z.eqb_eq in E. destruct (C c Hc) as [I B]. rewrite N in E.
    assert (X : pc_type c = ty /\ pc_row1 c - 1 = g).
    { apply (Z.div_mod_unique (Z.of_nat n)); [left; lia|left; lia|]. rewrite I in E. lia. }
    destruct X as [<- <-].
    apply Hn. unfold regpairs. apply in_map_iff. exists c. auto.
  - rewrite Hf. cbn [negb bindr]. eexists. split; [reflexivity|]. unfold InvC, regpairs. cbn [set_prv v_prv v_pcf v_prf pv_nrows pv_chans].
    split; [|split; [|auto]].
    + split; [exact N|]. intros c Hc. apply in_app_or in Hc as [Hc|[<-|[]]]; [now apply C|]. cbn [pc_id pc_type pc_row1]. rewrite N. lia.
    + rewrite map_app. cbn [map pc_type pc_row1]. do 3 f_equal. lia.
Qed.

Definition regstep (v : pvt) (p : Z * Z * Z) : result pvt := let '(g, ty, fl) := p in pvt_register v g ty fl.
Definition pair_of (p : Z * Z * Z) : Z * Z := let '(g, ty, _) := p in (ty, g).

Lemma reg_list_total n L : forall v, InvC v n ->
  (forall g ty fl, In (g, ty, fl) L -> 0 <= g < Z.of_nat n /\ check_flags fl = true) ->
  NoDup (map pair_of L) -> (forall p, In p L -> ~ In (pair_of p) (regpairs v)) ->
  exists v', foldr regstep L v = Ok v' /\ InvC v' n /\ regpairs v' = regpairs v ++ map pair_of L /\ v_pcf v' = v_pcf v /\ v_prf v' = v_prf v.
Proof.
  induction L as [|[[g ty] fl] L IH]; intros v I B N D; cbn [foldr map].
  - exists v. cbn [map]. now rewrite app_nil_r.
  - destruct (B g ty fl (or_introl eq_refl)) as [Bg Bf].
    destruct (register_total v n g ty fl I Bg Bf (D _ (or_introl eq_refl))) as (v1 & E1 & I1 & R1 & P1 & F1).
    cbn [regstep]. rewrite E1. cbn [map pair_of] in N. inversion N as [|? ? Nh Nt]; subst.
    destruct (IH v1 I1) as (v2 & E2 & I2 & R2 & P2 & F2).
    + intros g' ty' fl' H. apply (B g' ty' fl'). now right.
    + exact Nt.
    + intros p Hp Hin. rewrite R1 in Hin. apply in_app_or in Hin as [Hin|[Hin|[]]]; [apply (D p (or_intror Hp) Hin)|].
      apply Nh. rewrite Hin. now apply in_map.
    + exists v2. split; [exact E2|]. split; [exact I2|]. split; [|split; congruence]. rewrite R2, R1, <- app_assoc. reflexivity.
Qed.

Lemma NoDup_app_intro {A} (a b : list A) : NoDup a -> NoDup b -> (forall x, In x a -> ~ In x b) -> NoDup (a ++ b).
Proof.
  induction a as [|x a IH]; intros Na Nb D; [exact Nb|]. inversion Na; subst. cbn [app]. constructor.
  - intros H. apply in_app_or in H as [H|H]; [contradiction|]. apply (D x (or_introl eq_refl) H).
  - apply IH; auto. intros y Hy. apply D. now right.
Qed.

Lemma nodup_pairs {S} (ty fl : S -> Z) specs rows : NoDup rows -> NoDup (map ty specs) ->
  NoDup (map pair_of (flat_map (fun g => map (fun s => (g, ty s, fl s)) specs) rows)).
Proof.
  intros Nr Ns. induction rows as [|g rows IH]; [constructor|]. inversion Nr; subst. cbn [flat_map]. rewrite map_app. apply NoDup_app_intro.
  - rewrite map_map. cbn [pair_of]. clear - Ns. induction specs as [|s specs IHs]; [constructor|]. cbn [map] in *.
    inversion Ns as [|? ? Nh Nt]; subst. constructor; [|auto].
    intros H. apply in_map_iff in H as (s' & E & Hs'). injection E as E. apply Nh. rewrite <- E. now apply in_map.
  - now apply IH.
  - intros x Hx Hy. apply in_map_iff in Hx as ([[g1 t1] f1] & <- & Ha). apply in_map_iff in Ha as (s1 & E1 & _). injection E1 as <- <- <-.
    apply in_map_iff in Hy as ([[g2 t2] f2] & E2 & Hb). apply in_flat_map in Hb as (g' & Hg' & Hc). apply in_map_iff in Hc as (s2 & E3 & _).
    injection E3 as <- <- <-. cbn [pair_of] in E2. injection E2 as _ ->. contradiction.
Qed.

(* the "every row, every type" loops of connect_*_prv *)
Lemma rows_total {S} (ty fl : S -> Z) (specs : list S) n v : InvC v n ->
  (forall s, In s specs -> check_flags (fl s) = true) -> NoDup (map ty specs) ->
  (forall s p, In s specs -> In p (regpairs v) -> fst p <> ty s) ->
  exists v', foldr (fun v1 g => foldr (fun v2 s => pvt_register v2 g (ty s) (fl s)) specs v1) (map Z.of_nat (seq 0 n)) v = Ok v' /\
    InvC v' n /\ (forall p, In p (regpairs v') -> In p (regpairs v) \/ In (fst p) (map ty specs)) /\ v_pcf v' = v_pcf v /\ v_prf v' = v_prf v.
Proof.
  intros I Hf N D.
  set (L := flat_map (fun g => map (fun s => (g, ty s, fl s)) specs) (map Z.of_nat (seq 0 n))).
  assert (E : foldr (fun v1 g => foldr (fun v2 s => pvt_register v2 g (ty s) (fl s)) specs v1) (map Z.of_nat (seq 0 n)) v = foldr regstep L v).
  { unfold L. rewrite foldr_flat_map. apply foldr_ext. intros a g _. now rewrite foldr_map. }
  rewrite E.
  assert (InL : forall g t f, In (g, t, f) L -> exists s k, In s specs /\ (k < n)%nat /\ g = Z.of_nat k /\ t = ty s /\ f = fl s).
  { intros g t f H. unfold L in H. apply in_flat_map in H as (g' & Hg & H). apply in_map_iff in H as (s & Es & Hs). injection Es as -> <- <-.
    apply in_map_iff in Hg as (k & <- & Hk). apply in_seq in Hk. exists s, k. repeat split; auto. lia. }
  destruct (reg_list_total n L v I) as (v' & E' & I' & R' & P' & F').
  - intros g t f H. destruct (InL g t f H) as (s & k & Hs & Hk & -> & -> & ->). split; [lia|now apply Hf].
  - unfold L. apply nodup_pairs; [|exact N]. apply Injective_map_NoDup; [intros a b; apply Nat2Z.inj|apply seq_NoDup].
  - intros [[g t] f] H Hin. destruct (InL g t f H) as (s & k & Hs & Hk & -> & -> & ->). cbn [pair_of] in Hin. now apply (D s _ Hs Hin).
  - exists v'. split; [exact E'|]. split; [exact I'|]. split; [|auto]. intros p Hp. rewrite R' in Hp. apply in_app_or in Hp as [Hp|Hp]; [now left|right].
    apply in_map_iff in Hp as ([[g t] f] & <- & H). destruct (InL g t f H) as (s & k & Hs & _ & _ & -> & _). cbn [pair_of fst]. now apply in_map.
Qed.

(* ------------------------------------------------------------------ PCF types and values *)
Definition tys (v : pvt) : list Z := map pt_id (v_pcf v).

Lemma find_type_none p id : ~ In id (map pt_id p) -> pcf_find_type p id = None.
Proof.
  intros H. unfold pcf_find_type. destruct (find _ p) as [t|] eqn:F; [|reflexivity]. apply find_some in F as [Ht E]. apply Z.eqb_eq in E.
  exfalso. apply H. rewrite <- E. now apply in_map.
Qed.

Lemma find_value_none t x : ~ In x (map fst (pt_values t)) -> pcf_find_value t x = None.
Proof.
  intros H. unfold pcf_find_value. destruct (find _ (pt_values t)) as [y|] eqn:F; [|reflexivity]. apply find_some in F as [Hy E]. apply Z.eqb_eq in E.
  exfalso. apply H. rewrite <- E. now apply in_map.
Qed.

Lemma add_value_last p : forall t id x l, ~ In id (map pt_id p) -> pt_id t = id -> ~ In x (map fst (pt_values t)) -> slen l < MAXL ->
  pcf_add_value (p ++ [t]) id x l = Ok (p ++ [{| pt_id := pt_id t; pt_label := pt_label t; pt_values := pt_values t ++ [(x, l)] |}]).
Proof.
  induction p as [|a p IH]; intros t id x l N E V L; cbn [app pcf_add_value].
  - rewrite E, Z.eqb_refl, (find_value_none t x V). apply Z.leb_gt in L. now rewrite L.
  - destruct (pt_id a =? id) eqn:Ea; [apply Z.eqb_eq in Ea; exfalso; apply N; now left|].
    rewrite (IH t id x l); auto. intros H. apply N. now right.
Qed.

Definition cast_labs (cast : Z -> Z) (labs : list (Z * str)) : list (Z * str) := map (fun y => (cast (fst y), snd y)) labs.

Lemma values_total cast id labs : forall p t v, ~ In id (map pt_id p) -> pt_id t = id -> v_pcf v = p ++ [t] ->
  NoDup (map (fun y : Z * str => cast (fst y)) labs) -> (forall y, In y labs -> ~ In (cast (fst y)) (map fst (pt_values t))) ->
  (forall y, In y labs -> slen (snd y) < MAXL) ->
  exists v', add_values_c cast id v labs = Ok v' /\ v_prv v' = v_prv v /\ v_prf v' = v_prf v /\
    v_pcf v' = p ++ [{| pt_id := pt_id t; pt_label := pt_label t; pt_values := pt_values t ++ cast_labs cast labs |}].
Proof.
  induction labs as [|[x l] labs IH]; intros p t v N E P Nd F L; subst id; unfold add_values_c in *; cbn [foldr].
  - exists v. cbn [cast_labs map]. rewrite app_nil_r. destruct t; auto.
  - cbn [map fst] in Nd. inversion Nd as [|? ? Nh Nt]; subst.
    cbn [fst snd]. unfold pvt_add_value at 1. rewrite P, (add_value_last p t (pt_id t) (cast x) l N eq_refl (F _ (or_introl eq_refl)) (L _ (or_introl eq_refl))).
    cbn [bindr fst snd].
    set (t' := {| pt_id := pt_id t; pt_label := pt_label t; pt_values := pt_values t ++ [(cast x, l)] |}).
    destruct (IH p t' (set_pcf v (p ++ [t']))) as (v' & E' & A & B & C); auto.
    + intros y Hy Hin. cbn [t' pt_values] in Hin. rewrite map_app in Hin. apply in_app_or in Hin as [Hin|[Hin|[]]]; [apply (F y (or_intror Hy) Hin)|].
      cbn [fst] in Hin. apply Nh. rewrite Hin. apply (in_map (fun y0 : Z * str => cast (fst y0))). exact Hy.
    + intros y Hy. apply L. now right.
    + exists v'. split; [exact E'|]. split; [exact A|]. split; [exact B|]. rewrite C. cbn [t' pt_id pt_label pt_values cast_labs map fst snd].
      now rewrite <- app_assoc.
Qed.

Lemma type_total cast v id l labs : ~ In id (tys v) -> slen l < MAXL ->
  NoDup (map (fun y : Z * str => cast (fst y)) labs) -> (forall y, In y labs -> slen (snd y) < MAXL) ->
  exists v', bindr (pvt_add_type v id l) (fun v1 => add_values_c cast id v1 labs) = Ok v' /\
             v_prv v' = v_prv v /\ v_prf v' = v_prf v /\ tys v' = tys v ++ [id] /\
             v_pcf v' = v_pcf v ++ [{| pt_id := id; pt_label := l; pt_values := cast_labs cast labs |}].
Proof.
  intros N L Nd Ll. unfold pvt_add_type, pcf_add_type. rewrite (find_type_none _ _ N). pose proof L as L'. apply Z.leb_gt in L'. rewrite L'. cbn [bindr].
  destruct (values_total cast id labs (v_pcf v) {| pt_id := id; pt_label := l; pt_values := [] |}
              (set_pcf v (v_pcf v ++ [{| pt_id := id; pt_label := l; pt_values := [] |}]))) as (v' & E & A & B & C); auto.
  exists v'. split; [exact E|]. split; [exact A|]. split; [exact B|]. cbn [pt_id pt_label pt_values app] in C. split; [|exact C].
  unfold tys. rewrite C. now rewrite map_app.
Qed.

(* ------------------------------------------------------------------ one side of one model *)
Definition SInv (v : pvt) (n : nat) (T : list Z) : Prop :=
  InvC v n /\ (forall p, In p (regpairs v) -> In (fst p) T) /\ (forall ty, In ty (tys v) -> In ty T).

Definition labels_fine (cast : Z -> Z) (labs : list (Z * str)) : Prop :=
  NoDup (map (fun y : Z * str => cast (fst y)) labs) /\ forall y, In y labs -> slen (snd y) < MAXL.

Definition spec_fine (s : pvspec) : Prop :=
  is_int (ps_type s) = true /\ check_flags (ps_flags s) = true /\ slen (spec_label s) < MAXL /\ labels_fine int (ps_labels s).

Lemma NoDup_of_map {A B} (f : A -> B) l : NoDup (map f l) -> NoDup l.
Proof.
  induction l as [|a l IH]; intros H; [constructor|]. cbn [map] in H. inversion H; subst. constructor; [|auto]. intros Hin. apply H2. now apply in_map.
Qed.

Lemma map_inj_in {A B} (f : A -> B) l : NoDup (map f l) -> forall a b, In a l -> In b l -> f a = f b -> a = b.
Proof.
  induction l as [|x l IH]; intros N a b Ha Hb E; [contradiction|]. cbn [map] in N. inversion N as [|? ? Nh Nt]; subst.
  destruct Ha as [Ha|Ha]; destruct Hb as [Hb|Hb].
  - congruence.
  - exfalso. apply Nh. subst x. rewrite E. now apply in_map.
  - exfalso. apply Nh. subst x. rewrite <- E. now apply in_map.
  - now apply IH.
Qed.

Lemma connect_side_total n specs v T : SInv v n T -> (forall s, In s specs -> spec_fine s) -> NoDup (map ps_type specs) ->
  (forall s, In s specs -> ~ In (ps_type s) T) ->
  exists v', connect_side n specs v = Ok v' /\ SInv v' n (T ++ map ps_type specs) /\ v_prf v' = v_prf v.
Proof.
  intros (I & R & Ty) F N D. unfold connect_side.
  destruct (rows_total ps_type ps_flags specs n v I) as (v1 & E1 & I1 & R1 & P1 & F1).
  - intros s Hs. now destruct (F s Hs) as (_ & X & _).
  - exact N.
  - intros s p Hs Hp E. apply (D s Hs). rewrite <- E. now apply R.
  - rewrite E1. cbn [bindr].
    assert (St : forall done s a, (v_prv a = v_prv v1 /\ v_prf a = v_prf v1 /\ tys a = tys v1 ++ map ps_type done) -> ~ In s done -> In s specs ->
               (forall x, In x done -> In x specs) -> exists a', create_type a s = Ok a' /\ (v_prv a' = v_prv v1 /\ v_prf a' = v_prf v1 /\ tys a' = tys v1 ++ map ps_type (done ++ [s]))).
    { intros done s a (A & B & C) Nd Hs Dl. destruct (F s Hs) as (Fi & _ & Fl & Fn & Fs). destruct (is_int_ok _ Fi) as [Ii I0].
      unfold create_type. destruct (ps_type s =? -1) eqn:Em; [apply Z.eqb_eq in Em; lia|]. pose proof Fl as Fl'. apply Z.leb_gt in Fl'. rewrite Fl'. rewrite Ii.
      destruct (type_total int a (ps_type s) (spec_label s) (ps_labels s)) as (a' & Ea & A' & B' & C' & _); auto.
      * rewrite C. unfold tys in Ty |- *. rewrite P1. intros Hin. apply in_app_or in Hin as [Hin|Hin]; [apply (D s Hs); now apply Ty|].
        apply in_map_iff in Hin as (s' & Es & Hs'). apply Nd.
        assert (X : s' = s) by exact (map_inj_in ps_type specs N s' s (Dl _ Hs') Hs Es). now subst.
      * exists a'. split; [exact Ea|]. split; [congruence|]. split; [congruence|]. rewrite C', C, map_app, <- app_assoc. reflexivity. }
    destruct (foldr_total create_type _ specs St (NoDup_of_map _ _ N) v1) as (v2 & E2 & A & B & C).
    { cbn [map]. now rewrite app_nil_r. }
    rewrite E2.
    exists v2. split; [reflexivity|]. split; [|congruence]. split; [|split].
      * destruct I1 as [N1 C1]. split; [now rewrite A|]. rewrite A. exact C1.
      * intros p Hp. unfold regpairs in Hp. rewrite A in Hp. apply in_or_app. destruct (R1 p Hp) as [H|H]; [left; now apply R|now right].
      * intros ty Hty. rewrite C in Hty. apply in_or_app. apply in_app_or in Hty as [Hty|Hty]; [left; apply Ty; unfold tys in *; now rewrite <- P1|now right].
Qed.

(* ------------------------------------------------------------------ marks *)
Definition mark_fine (m : mtype) : Prop :=
  0 <= mt_type m < 100 /\ slen (mt_title m) < MAXL /\ labels_fine cast_int64 (mt_labels m).
Definition mark_ty (m : mtype) : Z := 100 + mt_type m.

Lemma mark_side_total n ms v T : SInv v n T -> (forall m, In m ms -> mark_fine m) -> NoDup (map mark_ty ms) ->
  (forall m, In m ms -> ~ In (mark_ty m) T) ->
  exists v', mark_side n ms v = Ok v' /\ SInv v' n (T ++ map mark_ty ms) /\ v_prf v' = v_prf v.
Proof.
  intros (I & R & Ty) F N D. unfold mark_side.
  destruct (rows_total mark_ty (fun _ => PRV_SKIPDUPNULL) ms n v I) as (v1 & E1 & I1 & R1 & P1 & F1).
  - intros s Hs. reflexivity.
  - exact N.
  - intros s p Hs Hp E. apply (D s Hs). rewrite <- E. now apply R.
  - unfold mark_ty in E1 at 1. rewrite E1. cbn [bindr].
    set (stepf := fun (v' : pvt) (m : mtype) => bindr (pvt_add_type v' (int (100 + mt_type m)) (mt_title m))
                    (fun v2 => add_values_c cast_int64 (int (100 + mt_type m)) v2 (mt_labels m))).
    assert (St : forall done s a, (v_prv a = v_prv v1 /\ v_prf a = v_prf v1 /\ tys a = tys v1 ++ map mark_ty done) -> ~ In s done -> In s ms ->
               (forall x, In x done -> In x ms) -> exists a', stepf a s = Ok a' /\ (v_prv a' = v_prv v1 /\ v_prf a' = v_prf v1 /\ tys a' = tys v1 ++ map mark_ty (done ++ [s]))).
    { intros done s a (A & B & C) Nd Hs Dl. destruct (F s Hs) as (Fr & Fl & Fn & Fs). unfold stepf. rewrite int_small by lia.
      destruct (type_total cast_int64 a (100 + mt_type s) (mt_title s) (mt_labels s)) as (a' & Ea & A' & B' & C' & _); auto.
      * rewrite C. unfold tys in Ty |- *. rewrite P1. intros Hin. apply in_app_or in Hin as [Hin|Hin]; [apply (D s Hs); now apply Ty|].
        apply in_map_iff in Hin as (s' & Es & Hs'). apply Nd.
        assert (X : s' = s) by exact (map_inj_in mark_ty ms N s' s (Dl _ Hs') Hs Es). now subst.
      * exists a'. split; [exact Ea|]. split; [congruence|]. split; [congruence|]. rewrite C', C, map_app, <- app_assoc. reflexivity. }
    destruct (foldr_total stepf _ ms St (NoDup_of_map _ _ N) v1) as (v2 & E2 & A & B & C).
    { cbn [map]. now rewrite app_nil_r. }
    fold stepf. rewrite E2.
    exists v2. split; [reflexivity|]. split; [|congruence]. split; [|split].
    + destruct I1 as [N1 C1]. split; [now rewrite A|]. rewrite A. exact C1.
    + intros p Hp. unfold regpairs in Hp. rewrite A in Hp. apply in_or_app. destruct (R1 p Hp) as [H|H]; [left; now apply R|now right].
    + intros ty Hty. rewrite C in Hty. apply in_or_app. apply in_app_or in Hty as [Hty|Hty]; [left; apply Ty; unfold tys in *; now rewrite <- P1|now right].
Qed.

(* ------------------------------------------------------------------ one model, both sides *)
Definition RInv (sx : static) (r : recorder) (Tt Tc : list Z) : Prop :=
  SInv (rc_th r) (length (s_threads sx)) Tt /\ SInv (rc_cpu r) (length (s_cpus sx)) Tc.

Definition model_types (all : list pvspec) (ms : list mtype) (m : Z) (cpu : bool) : list Z :=
  map ps_type (side_specs all m cpu) ++ (if (m =? M_OVNI) && negb (Nat.eqb (length ms) 0) then map mark_ty ms else []).

Lemma model_connect_total all sx ms r m Tt Tc : RInv sx r Tt Tc ->
  (forall s, In s all -> spec_fine s) -> (forall k, In k ms -> mark_fine k) -> NoDup (map mark_ty ms) ->
  (forall cpu, NoDup (map ps_type (side_specs all m cpu))) ->
  (forall ty, In ty (model_types all ms m false) -> ~ In ty Tt) -> (forall ty, In ty (model_types all ms m true) -> ~ In ty Tc) ->
  (forall s k, In s all -> In k ms -> ps_type s <> mark_ty k) ->
  exists r', model_connect all sx ms r m = Ok r' /\ RInv sx r' (Tt ++ model_types all ms m false) (Tc ++ model_types all ms m true) /\
             v_prf (rc_th r') = v_prf (rc_th r) /\ v_prf (rc_cpu r') = v_prf (rc_cpu r).
Proof.
  intros [It Ic] F Fm Nm Ns Dt Dc Dm. unfold model_connect, model_types in *.
  assert (Fs : forall cpu s, In s (side_specs all m cpu) -> spec_fine s) by (intros cpu s Hs; apply F; unfold side_specs in Hs; now apply filter_In in Hs).
  destruct (connect_side_total _ (side_specs all m false) (rc_th r) Tt It (Fs false) (Ns false)) as (v1 & E1 & I1 & P1).
  { intros s Hs. apply Dt. apply in_or_app. left. now apply in_map. }
  destruct (connect_side_total _ (side_specs all m true) (rc_cpu r) Tc Ic (Fs true) (Ns true)) as (v2 & E2 & I2 & P2).
  { intros s Hs. apply Dc. apply in_or_app. left. now apply in_map. }
  unfold on_th at 1. rewrite E1. cbn [bindr]. unfold on_cpu at 1. cbn [rc_cpu rc_th]. rewrite E2. cbn [bindr].
  destruct ((m =? M_OVNI) && negb (Nat.eqb (length ms) 0)) eqn:Eb.
  - destruct (mark_side_total _ ms v1 _ I1 Fm Nm) as (v3 & E3 & I3 & P3).
    { intros k Hk Hin. apply in_app_or in Hin as [Hin|Hin]; [apply (Dt (mark_ty k)); [apply in_or_app; right; now apply in_map|exact Hin]|].
      apply in_map_iff in Hin as (s & Es & Hs). apply (Dm s k); [unfold side_specs in Hs; now apply filter_In in Hs|exact Hk|exact Es]. }
    destruct (mark_side_total _ ms v2 _ I2 Fm Nm) as (v4 & E4 & I4 & P4).
    { intros k Hk Hin. apply in_app_or in Hin as [Hin|Hin]; [apply (Dc (mark_ty k)); [apply in_or_app; right; now apply in_map|exact Hin]|].
      apply in_map_iff in Hin as (s & Es & Hs). apply (Dm s k); [unfold side_specs in Hs; now apply filter_In in Hs|exact Hk|exact Es]. }
    unfold on_th. cbn [rc_th rc_cpu]. rewrite E3. cbn [bindr]. unfold on_cpu. cbn [rc_th rc_cpu]. rewrite E4. cbn [bindr].
    eexists. split; [reflexivity|]. cbn [rc_th rc_cpu]. rewrite !app_assoc. split; [split; assumption|]. split; congruence.
  - eexists. split; [reflexivity|]. cbn [rc_th rc_cpu]. rewrite !app_nil_r. split; [split; assumption|]. split; congruence.
Qed.

(* ------------------------------------------------------------------ helpers for system_connect *)
Lemma foldr_on_th {S} (f : S -> pvt -> result pvt) l : forall r,
  foldr (fun r' e => on_th r' (f e)) l r = bindr (foldr (fun v e => f e v) l (rc_th r)) (fun v => Ok {| rc_th := v; rc_cpu := rc_cpu r |}).
Proof.
  induction l as [|e l IH]; intros r; cbn [foldr]; [now destruct r|]. unfold on_th at 1. destruct (f e (rc_th r)) as [v|]; cbn [bindr]; [|reflexivity].
  now rewrite IH.
Qed.
Lemma foldr_on_cpu {S} (f : S -> pvt -> result pvt) l : forall r,
  foldr (fun r' e => on_cpu r' (f e)) l r = bindr (foldr (fun v e => f e v) l (rc_cpu r)) (fun v => Ok {| rc_th := rc_th r; rc_cpu := v |}).
Proof.
  induction l as [|e l IH]; intros r; cbn [foldr]; [now destruct r|]. unfold on_cpu at 1. destruct (f e (rc_cpu r)) as [v|]; cbn [bindr]; [|reflexivity].
  now rewrite IH.
Qed.

Lemma number_inj {A} (l : list A) g x y : In (g, x) (number l) -> In (g, y) (number l) -> x = y.
Proof.
  intros H1 H2. destruct (number_in l g x x H1) as (_ & _ & E1). destruct (number_in l g y x H2) as (_ & _ & E2). congruence.
Qed.

Lemma number_nodup {A} (l : list A) : NoDup (number l).
Proof.
  unfold number. assert (G : forall k (l' : list A), NoDup (combine (map Z.of_nat (seq k (length l'))) l')).
  { intros k l'. revert k. induction l' as [|a l' IH]; intros k; cbn [length seq map combine]; constructor; [|apply IH].
    intros H. apply in_combine_l in H. apply in_map_iff in H as (j & E & Hj). apply in_seq in Hj. lia. }
  apply G.
Qed.

(* lengths of what printf("%d") writes *)
From OV Require Proofs.PvPrvProofs.
Lemma dec_len n k : - 10 ^ Z.of_nat k < n < 10 ^ Z.of_nat k -> (0 < k)%nat -> (length (dec n) <= S k)%nat.
Proof.
  intros H Hk. unfold dec. destruct (n <? 0) eqn:E.
  - apply Z.ltb_lt in E. cbn [length]. apply le_n_S. unfold dec_u. apply PvPrvProofs.digits_len; lia.
  - apply Z.ltb_ge in E. apply le_S. unfold dec_u. apply PvPrvProofs.digits_len; lia.
Qed.

Lemma int_range x : - 2147483648 <= int x < 2147483648.
Proof.
  unfold int, cast_int32, wraps. change (2 ^ 32) with 4294967296. change (2 ^ (32 - 1)) with 2147483648.
  pose proof (Z.mod_pos_bound x 4294967296 ltac:(lia)) as B. destruct (_ <? _) eqn:E.
  - apply Z.ltb_lt in E. lia.
  - apply Z.ltb_ge in E. lia.
Qed.

Lemma big_limits : 100 < MAXL /\ 100 < MAXR.
Proof. split; vm_compute; reflexivity. Qed.

Lemma th_label_short ti : slen (th_label ti) < MAXR.
Proof.
  destruct big_limits as [_ B]. unfold slen, th_label. rewrite !app_length. change (length S_TH) with 3%nat. cbn [length].
  pose proof (dec_len (int (ti_appid ti)) 10 ltac:(pose proof (int_range (ti_appid ti)); cbn; lia) ltac:(lia)).
  pose proof (dec_len (int (ti_tid ti)) 10 ltac:(pose proof (int_range (ti_tid ti)); cbn; lia) ltac:(lia)). lia.
Qed.

Lemma dec_len19 n : 0 <= n < 2 ^ 63 -> (length (dec n) <= 20)%nat.
Proof.
  intros H. change (2 ^ 63) with 9223372036854775808 in H. apply (dec_len n 19); [|lia].
  change (Z.of_nat 19) with 19. change (10 ^ 19) with 10000000000000000000. lia.
Qed.

Lemma cpu_name_short ci phy : 0 <= phy < 2 ^ 63 -> Z.of_nat (ci_loom ci) < 2 ^ 63 -> slen (cpu_name ci phy) < MAXR /\ slen (cpu_name ci phy) < MAXL.
Proof.
  intros Hp Hl. destruct big_limits as [A B]. unfold slen, cpu_name.
  pose proof (dec_len19 (Z.of_nat (ci_loom ci)) ltac:(lia)). pose proof (dec_len19 phy Hp).
  destruct (ci_virtual ci); rewrite !app_length; [change (length S_VCPU) with 5%nat|change (length S_CPU) with 5%nat]; cbn [length]; lia.
Qed.

(* an existing type gets one more value *)
Lemma add_value_total p : forall id x l, In id (map pt_id p) -> (forall t, In t p -> pt_id t = id -> ~ In x (map fst (pt_values t))) -> slen l < MAXL ->
  exists p', pcf_add_value p id x l = Ok p' /\ map pt_id p' = map pt_id p /\
    forall t', In t' p' -> exists t, In t p /\ pt_id t' = pt_id t /\
      forall y, In y (map fst (pt_values t')) -> In y (map fst (pt_values t)) \/ (pt_id t = id /\ y = x).
Proof.
  induction p as [|a p IH]; intros id x l Hin F L; [contradiction|]. cbn [pcf_add_value].
  destruct (pt_id a =? id) eqn:E.
  - apply Z.eqb_eq in E. rewrite (find_value_none a x (F a (or_introl eq_refl) E)). pose proof L as L'. apply Z.leb_gt in L'. rewrite L'.
    eexists. split; [reflexivity|]. split; [reflexivity|]. intros t' [<-|Ht'].
    + exists a. split; [now left|]. split; [reflexivity|]. cbn [pt_values]. intros y Hy. rewrite map_app in Hy. apply in_app_or in Hy as [Hy|[Hy|[]]]; [now left|right]. cbn in Hy. auto.
    + exists t'. split; [now right|]. split; [reflexivity|]. intros y Hy. now left.
  - destruct (IH id x l) as (p' & Ep & Mp & Vp).
    + cbn [map] in Hin. destruct Hin as [Hin|Hin]; [apply Z.eqb_neq in E; contradiction|exact Hin].
    + intros t Ht. apply F. now right.
    + exact L.
    + rewrite Ep. eexists. split; [reflexivity|]. split; [cbn [map]; now rewrite Mp|]. intros t' [<-|Ht'].
      * exists a. split; [now left|]. split; [reflexivity|]. intros y Hy. now left.
      * destruct (Vp t' Ht') as (t & Ht & Ei & Vy). exists t. split; [now right|]. auto.
Qed.

(* ------------------------------------------------------------------ one row: its channels and its name *)
Definition RowInv (v : pvt) (n : nat) (T : list Z) (dg : list Z) : Prop :=
  InvC v n /\ (forall p, In p (regpairs v) -> In (fst p) T /\ In (snd p) dg) /\
  length (v_prf v) = n /\ (forall k, (k < n)%nat -> ~ In (Z.of_nat k) dg -> nth k (v_prf v) None = None).

Lemma row_step v n T dg (regs : list (Z * Z)) k lab : RowInv v n T dg ->
  NoDup (map fst regs) -> (forall p, In p regs -> In (fst p) T /\ check_flags (snd p) = true) ->
  (k < n)%nat -> ~ In (Z.of_nat k) dg -> slen lab < MAXR ->
  exists v', bindr (foldr (fun v0 p => pvt_register v0 (Z.of_nat k) (fst p) (snd p)) regs v) (fun v1 => pvt_add_row v1 (Z.of_nat k) lab) = Ok v' /\
             RowInv v' n T (dg ++ [Z.of_nat k]) /\ v_pcf v' = v_pcf v.
Proof.
  intros (I & R & Ln & Un) Nr Fr Hk Hg Hl.
  set (L := map (fun p : Z * Z => (Z.of_nat k, fst p, snd p)) regs).
  assert (E : foldr (fun v0 p => pvt_register v0 (Z.of_nat k) (fst p) (snd p)) regs v = foldr regstep L v) by (unfold L; now rewrite foldr_map).
  rewrite E. destruct (reg_list_total n L v I) as (v1 & E1 & I1 & R1 & P1 & F1).
  - intros g ty fl H. unfold L in H. apply in_map_iff in H as (p & Ep & Hp). injection Ep as <- <- <-. split; [lia|]. now apply Fr.
  - unfold L. rewrite map_map. cbn [pair_of]. clear - Nr. induction regs as [|p regs IH]; [constructor|]. cbn [map] in *. inversion Nr as [|? ? Nh Nt]; subst.
    constructor; [|auto]. intros H. apply in_map_iff in H as (q & Eq & Hq). injection Eq as Eq. apply Nh. rewrite <- Eq. now apply in_map.
  - intros p Hp Hin. unfold L in Hp. apply in_map_iff in Hp as (q & <- & Hq). cbn [pair_of] in Hin. destruct (R _ Hin) as [_ X]. cbn [snd] in X. contradiction.
  - rewrite E1. cbn [bindr]. unfold pvt_add_row, prf_add. rewrite F1, Ln.
    replace ((Z.of_nat k <? 0) || (Z.of_nat n <=? Z.of_nat k)) with false by (symmetry; apply orb_false_iff; split; [apply Z.ltb_ge|apply Z.leb_gt]; lia).
    rewrite Nat2Z.id, (Un k Hk Hg). pose proof Hl as Hl'. apply Z.leb_gt in Hl'. rewrite Hl'. cbn [bindr].
    eexists. split; [reflexivity|]. cbn [set_prf v_pcf v_prv v_prf]. split; [|exact P1].
    destruct (update_nth (v_prf v) k (Some lab) None ltac:(lia)) as (Lu & Nu & Ou).
    unfold RowInv. cbn [set_prf v_prf]. split; [exact I1|]. split; [|split; [rewrite Lu; exact Ln|]].
    + intros p Hp. unfold regpairs in Hp. cbn [set_prf v_prv] in Hp. fold (regpairs v1) in Hp. rewrite R1 in Hp. apply in_app_or in Hp as [Hp|Hp].
      * destruct (R p Hp). split; [auto|apply in_or_app; now left].
      * unfold L in Hp. rewrite map_map in Hp. apply in_map_iff in Hp as (q & <- & Hq). cbn [pair_of fst snd]. split; [now apply Fr|apply in_or_app; right; now left].
    + intros j Hj Hnd. rewrite Ou; [apply Un; [exact Hj|]; intros X; apply Hnd; apply in_or_app; now left|].
      intros ->. apply Hnd. apply in_or_app. right. now left.
Qed.

Lemma RowInv_open n T : RowInv (pvt_open n) n T [].
Proof.
  split; [split; [reflexivity|intros c []]|]. split; [intros p []|]. cbn [pvt_open v_prf]. unfold prf_open. rewrite repeat_length. split; [reflexivity|].
  intros k Hk _. apply nth_repeat.
Qed.

(* ------------------------------------------------------------------ the dumped tables are fine (by computation) *)
Fixpoint nodupzb (l : list Z) : bool := match l with [] => true | x :: r => negb (existsb (Z.eqb x) r) && nodupzb r end.
Lemma nodupzb_ok l : nodupzb l = true -> NoDup l.
Proof.
  induction l as [|x l IH]; intros H; [constructor|]. cbn [nodupzb] in H. apply andb_true_iff in H as [H1 H2]. constructor; [|auto].
  intros Hin. apply negb_true_iff in H1. assert (existsb (Z.eqb x) l = true) by (apply existsb_exists; exists x; split; [exact Hin|apply Z.eqb_refl]). congruence.
Qed.
Definition labels_fineb (cast : Z -> Z) (labs : list (Z * str)) : bool :=
  nodupzb (map (fun y : Z * str => cast (fst y)) labs) && forallb (fun y : Z * str => slen (snd y) <? MAXL) labs.
Lemma labels_fineb_ok cast labs : labels_fineb cast labs = true -> labels_fine cast labs.
Proof.
  unfold labels_fineb. intros H. apply andb_true_iff in H as [H1 H2]. split; [now apply nodupzb_ok|]. intros y Hy. rewrite forallb_forall in H2. now apply Z.ltb_lt, H2.
Qed.

Definition th_ty (e : Z * Z * str * list (Z * str)) : Z := let '(ty, _, _, _) := e in ty.
Definition th_reg (e : Z * Z * str * list (Z * str)) : Z * Z := let '(ty, fl, _, _) := e in (ty, fl).
Definition Tt0 : list Z := map th_ty Pv_gen.th_sys.
Definition th_regs : list (Z * Z) := map th_reg Pv_gen.th_sys.
Definition cpu_regs : list (Z * Z) := flat_map (fun e : Z * Z * str => let '(ty, fl, _) := e in if ty <? 0 then [] else [(ty, fl)]) Pv_gen.cpu_sys.
Definition Tc0 : list Z := map fst cpu_regs.

Definition sys_fineb : bool :=
  forallb (fun e : Z * Z * str * list (Z * str) => let '(ty, fl, name, labs) := e in
     is_int ty && check_flags fl && (slen name <? MAXL) && labels_fineb int labs && (negb (ty =? affinity_type) || match labs with [] => true | _ => false end))
     Pv_gen.th_sys &&
  nodupzb Tt0 && existsb (Z.eqb affinity_type) Tt0 && is_int affinity_type &&
  forallb (fun e : Z * Z * str => let '(ty, fl, name) := e in (ty =? -1) || (is_int ty && check_flags fl && (slen name <? MAXL))) Pv_gen.cpu_sys &&
  nodupzb Tc0.
Lemma sys_fine : sys_fineb = true. Proof. vm_compute. reflexivity. Qed.

Definition spec_fineb (s : pvspec) : bool :=
  is_int (ps_type s) && (ps_type s <? 100) && check_flags (ps_flags s) && (slen (spec_label s) <? MAXL) && labels_fineb int (ps_labels s).
Definition specs_fineb (all : list pvspec) : bool :=
  forallb spec_fineb all &&
  forallb (fun m => nodupzb (map ps_type (side_specs all m false)) && nodupzb (map ps_type (side_specs all m true))) model_order &&
  forallb (fun s => forallb (fun s' => negb (Bool.eqb (ps_cpu s) (ps_cpu s')) || (ps_model s =? ps_model s') || negb (ps_type s =? ps_type s')) all) all &&
  forallb (fun s => negb (if ps_cpu s then existsb (Z.eqb (ps_type s)) Tc0 else existsb (Z.eqb (ps_type s)) Tt0)) all &&
  forallb (fun ty => ty <? 100) (Tt0 ++ Tc0) && nodupzb model_order.
Lemma specs_all_fine : specs_fineb Pv_gen.pv_chans = true. Proof. vm_compute. reflexivity. Qed.

(* ------------------------------------------------------------------ system_connect *)
Lemma connect_thread_eq r g ti : connect_thread r (g, ti) =
  bindr (bindr (foldr (fun v0 p => pvt_register v0 g (fst p) (snd p)) th_regs (rc_th r)) (fun v1 => pvt_add_row v1 g (th_label ti)))
        (fun v => Ok {| rc_th := v; rc_cpu := rc_cpu r |}).
Proof.
  unfold connect_thread, th_regs.
  match goal with |- bindr (foldr ?F _ _) _ = _ =>
    rewrite (foldr_ext F (fun r' e => on_th r' ((fun (e : Z * Z * str * list (Z * str)) v => pvt_register v g (fst (th_reg e)) (snd (th_reg e))) e))) end.
  2:{ intros a [[[ty fl] name] labs] _. reflexivity. }
  rewrite foldr_on_th, foldr_map. cbv beta.
  match goal with |- context [foldr ?G Pv_gen.th_sys (rc_th r)] => destruct (foldr G Pv_gen.th_sys (rc_th r)) as [v1|] end; cbn [bindr]; [|reflexivity].
  unfold on_th. cbn [rc_th rc_cpu]. reflexivity.
Qed.

Lemma cpu_regs_foldr r g : foldr (fun r' (e : Z * Z * str) => let '(ty, fl, _) := e in if ty <? 0 then Ok r' else on_cpu r' (fun v => pvt_register v g ty fl)) Pv_gen.cpu_sys r =
  foldr (fun r' p => on_cpu r' ((fun (p : Z * Z) v => pvt_register v g (fst p) (snd p)) p)) cpu_regs r.
Proof.
  unfold cpu_regs. revert r. induction Pv_gen.cpu_sys as [|[[ty fl] name] l IH]; intros r; [reflexivity|]. cbn [foldr flat_map].
  destruct (ty <? 0); cbn [app foldr fst snd]; [apply IH|]. destruct (on_cpu r _); [apply IH|reflexivity].
Qed.

Lemma connect_cpu_eq r g ci phy : connect_cpu r (g, (ci, phy)) =
  bindr (bindr (foldr (fun v0 p => pvt_register v0 g (fst p) (snd p)) cpu_regs (rc_cpu r)) (fun v1 => pvt_add_row v1 g (cpu_name ci phy)))
        (fun vc => bindr (pvt_add_value (rc_th r) (int affinity_type) (int g + 1) (cpu_name ci phy)) (fun vt => Ok {| rc_th := vt; rc_cpu := vc |})).
Proof.
  unfold connect_cpu. rewrite cpu_regs_foldr, foldr_on_cpu. cbv beta.
  match goal with |- context [foldr ?G cpu_regs (rc_cpu r)] => destruct (foldr G cpu_regs (rc_cpu r)) as [v1|] end; cbn [bindr]; [|reflexivity].
  unfold on_cpu at 1. cbn [rc_th rc_cpu]. destruct (pvt_add_row v1 g (cpu_name ci phy)) as [vc|]; cbn [bindr]; [|reflexivity].
  unfold on_th. cbn [rc_th rc_cpu]. reflexivity.
Qed.

Definition mk_th (e : Z * Z * str * list (Z * str)) : pcf_type :=
  let '(ty, _, name, labs) := e in {| pt_id := int ty; pt_label := name; pt_values := cast_labs int labs |}.

Record SysFine : Prop := {
  sf_th : forall ty fl name labs, In (ty, fl, name, labs) Pv_gen.th_sys ->
            is_int ty = true /\ check_flags fl = true /\ slen name < MAXL /\ labels_fine int labs /\ (ty = affinity_type -> labs = []);
  sf_th_nodup : NoDup Tt0;
  sf_aff : In affinity_type Tt0 /\ is_int affinity_type = true;
  sf_cpu : forall ty fl name, In (ty, fl, name) Pv_gen.cpu_sys -> ty = -1 \/ (is_int ty = true /\ check_flags fl = true /\ slen name < MAXL);
  sf_cpu_nodup : NoDup Tc0
}.

Lemma sys_is_fine : SysFine.
Proof.
  pose proof sys_fine as H. unfold sys_fineb in H.
  apply andb_true_iff in H as [H H6]. apply andb_true_iff in H as [H H5]. apply andb_true_iff in H as [H H4'].
  apply andb_true_iff in H as [H H4]. apply andb_true_iff in H as [H1 H2].
  rewrite forallb_forall in H1, H5. constructor.
  - intros ty fl name labs Hin. specialize (H1 _ Hin). cbv beta iota in H1.
    apply andb_true_iff in H1 as [X X5]. apply andb_true_iff in X as [X X4]. apply andb_true_iff in X as [X X3]. apply andb_true_iff in X as [X1 X2].
    split; [exact X1|]. split; [exact X2|]. split; [now apply Z.ltb_lt|]. split; [now apply labels_fineb_ok|].
    intros ->. rewrite Z.eqb_refl in X5. cbn [negb orb] in X5. destruct labs; [reflexivity|discriminate].
  - now apply nodupzb_ok.
  - split; [|exact H4']. apply existsb_exists in H4 as (x & Hx & E). apply Z.eqb_eq in E. now subst.
  - intros ty fl name Hin. specialize (H5 _ Hin). cbv beta iota in H5. apply orb_true_iff in H5 as [X|X]; [left; now apply Z.eqb_eq|right].
    apply andb_true_iff in X as [X X3]. apply andb_true_iff in X as [X1 X2]. split; [exact X1|]. split; [exact X2|now apply Z.ltb_lt].
  - now apply nodupzb_ok.
Qed.

Lemma th_regs_fine : NoDup (map fst th_regs) /\ forall p, In p th_regs -> In (fst p) Tt0 /\ check_flags (snd p) = true.
Proof.
  destruct sys_is_fine as [F N _ _ _]. split.
  - unfold th_regs. rewrite map_map. replace (map (fun x => fst (th_reg x)) Pv_gen.th_sys) with Tt0; [exact N|].
    unfold Tt0. apply map_ext. now intros [[[ty fl] name] labs].
  - intros p Hp. unfold th_regs in Hp. apply in_map_iff in Hp as ([[[ty fl] name] labs] & <- & He). cbn [th_reg fst snd]. split.
    + unfold Tt0. apply in_map_iff. exists (ty, fl, name, labs). auto.
    + now destruct (F _ _ _ _ He) as (_ & X & _).
Qed.

Lemma cpu_regs_fine : NoDup (map fst cpu_regs) /\ forall p, In p cpu_regs -> In (fst p) Tc0 /\ check_flags (snd p) = true.
Proof.
  destruct sys_is_fine as [_ _ _ F N]. split; [exact N|]. intros p Hp. split; [unfold Tc0; now apply in_map|].
  unfold cpu_regs in Hp. apply in_flat_map in Hp as ([[ty fl] name] & He & Hp). destruct (ty <? 0) eqn:E; [contradiction|]. destruct Hp as [<-|[]].
  cbn [snd]. destruct (F _ _ _ He) as [->|(_ & X & _)]; [discriminate|exact X].
Qed.

Lemma in_fst_done {A} (l : list A) (done : list (Z * A)) g x : (forall y, In y done -> In y (number l)) -> In (g, x) (number l) ->
  ~ In (g, x) done -> ~ In g (map fst done).
Proof.
  intros Dl Hin Nd H. apply in_map_iff in H as ([g' y] & E & Hy). cbn [fst] in E. subst g'. assert (y = x) by (eapply number_inj; [apply Dl; exact Hy|exact Hin]). subst y. contradiction.
Qed.

(* the rows of one file: every item of the list gets its channels and its name *)
Lemma rows_phase {A} (l : list A) (regs : list (Z * Z)) (lab : A -> str) T v0 :
  RowInv v0 (length l) T [] -> NoDup (map fst regs) -> (forall p, In p regs -> In (fst p) T /\ check_flags (snd p) = true) ->
  (forall x, In x l -> slen (lab x) < MAXR) ->
  exists v, foldr (fun v (gx : Z * A) => bindr (foldr (fun v0 p => pvt_register v0 (fst gx) (fst p) (snd p)) regs v) (fun v1 => pvt_add_row v1 (fst gx) (lab (snd gx))))
                  (number l) v0 = Ok v /\ RowInv v (length l) T (map fst (number l)) /\ v_pcf v = v_pcf v0.
Proof.
  intros I0 Nr Fr Ls.
  destruct (foldr_total (fun v (gx : Z * A) => bindr (foldr (fun v0 p => pvt_register v0 (fst gx) (fst p) (snd p)) regs v) (fun v1 => pvt_add_row v1 (fst gx) (lab (snd gx))))
              (fun done v => RowInv v (length l) T (map fst done) /\ v_pcf v = v_pcf v0) (number l)) with (a := v0) as (v & E & I & P).
  - intros done [g x] a (Ia & Pa) Nd Hin Dl. destruct (number_in l g x x Hin) as (G0 & G1 & G2). cbn [fst snd].
    assert (Eg : Z.of_nat (Z.to_nat g) = g) by lia.
    destruct (row_step a (length l) T (map fst done) regs (Z.to_nat g) (lab x) Ia Nr Fr G1) as (a' & Ea & Ia' & Pa').
    + rewrite Eg. eapply in_fst_done; eauto.
    + apply Ls. rewrite <- G2. now apply nth_In.
    + rewrite Eg in Ea, Ia'. exists a'. split; [exact Ea|]. rewrite map_app. cbn [map fst]. split; [exact Ia'|congruence].
  - apply number_nodup.
  - split; [exact I0|reflexivity].
  - exists v. auto.
Qed.

Lemma thread_create_total : forall (l : list (Z * Z * str * list (Z * str))) a,
  (forall e, In e l -> In e Pv_gen.th_sys) -> NoDup (map th_ty l) -> (forall e, In e l -> ~ In (th_ty e) (tys a)) ->
  exists a', foldr (fun v' (e : Z * Z * str * list (Z * str)) => let '(ty, _, name, labs) := e in
               if ty =? -1 then Ok v' else bindr (pvt_add_type v' (int ty) name) (fun v1 => add_values (int ty) v1 labs)) l a = Ok a' /\
             v_prv a' = v_prv a /\ v_prf a' = v_prf a /\ v_pcf a' = v_pcf a ++ map mk_th l.
Proof.
  destruct sys_is_fine as [F _ _ _ _].
  induction l as [|[[[ty fl] name] labs] l IH]; intros a Sub N D; cbn [foldr map].
  - exists a. now rewrite app_nil_r.
  - destruct (F _ _ _ _ (Sub _ (or_introl eq_refl))) as (Fi & _ & Fl & [Fn Fs] & _). destruct (is_int_ok _ Fi) as [Ii I0].
    destruct (ty =? -1) eqn:Em; [apply Z.eqb_eq in Em; lia|]. cbn [map th_ty] in N. inversion N as [|? ? Nh Nt]; subst.
    destruct (type_total int a (int ty) name labs) as (a1 & E1 & A1 & B1 & C1 & P1); auto.
    + rewrite Ii. apply (D _ (or_introl eq_refl)).
    + unfold add_values. rewrite E1. destruct (IH a1) as (a2 & E2 & A2 & B2 & P2).
      * intros e He. apply Sub. now right.
      * exact Nt.
      * intros e He Hin. rewrite C1 in Hin. apply in_app_or in Hin as [Hin|[Hin|[]]]; [apply (D e (or_intror He) Hin)|].
        rewrite Ii in Hin. apply Nh. rewrite Hin. now apply in_map.
      * exists a2. split; [exact E2|]. split; [congruence|]. split; [congruence|]. rewrite P2, P1, <- app_assoc. reflexivity.
Qed.

Definition regs_of (l : list (Z * Z * str)) : list (Z * Z) :=
  flat_map (fun e : Z * Z * str => let '(ty, fl, _) := e in if ty <? 0 then [] else [(ty, fl)]) l.

Lemma cpu_create_total : forall (l : list (Z * Z * str)) a,
  (forall e, In e l -> In e Pv_gen.cpu_sys) -> NoDup (map fst (regs_of l)) -> (forall p, In p (regs_of l) -> ~ In (fst p) (tys a)) ->
  exists a', foldr (fun v' (e : Z * Z * str) => let '(ty, _, name) := e in if ty =? -1 then Ok v' else pvt_add_type v' (int ty) name) l a = Ok a' /\
             v_prv a' = v_prv a /\ v_prf a' = v_prf a /\ tys a' = tys a ++ map fst (regs_of l).
Proof.
  destruct sys_is_fine as [_ _ _ F _].
  induction l as [|[[ty fl] name] l IH]; intros a Sub N D; cbn [foldr regs_of flat_map].
  - exists a. cbn [map]. now rewrite app_nil_r.
  - fold (regs_of l) in *. destruct (F _ _ _ (Sub _ (or_introl eq_refl))) as [->|(Fi & _ & Fl)].
    + cbn [Z.eqb Z.ltb Z.compare app]. cbn [regs_of flat_map] in N, D. fold (regs_of l) in N, D. change (-1 <? 0) with true in N, D. cbn [app] in N, D.
      apply IH; auto. intros e He. apply Sub. now right.
    + destruct (is_int_ok _ Fi) as [Ii I0]. destruct (ty =? -1) eqn:Em; [apply Z.eqb_eq in Em; lia|].
      cbn [regs_of flat_map] in N, D. fold (regs_of l) in N, D.
      destruct (ty <? 0) eqn:El; [apply Z.ltb_lt in El; lia|]. cbn [app map fst] in N, D |- *. inversion N as [|? ? Nh Nt]; subst.
      assert (Dn : ~ In ty (map pt_id (v_pcf a))) by exact (D (ty, fl) (or_introl eq_refl)).
      unfold pvt_add_type, pcf_add_type. rewrite Ii, (find_type_none _ _ Dn). pose proof Fl as Fl'. apply Z.leb_gt in Fl'. rewrite Fl'. cbn [bindr].
      set (a1 := set_pcf a (v_pcf a ++ [{| pt_id := ty; pt_label := name; pt_values := [] |}])).
      destruct (IH a1) as (a2 & E2 & A2 & B2 & C2).
      * intros e He. apply Sub. now right.
      * exact Nt.
      * intros p Hp Hin. unfold tys, a1 in Hin. cbn [set_pcf v_pcf] in Hin. rewrite map_app in Hin. apply in_app_or in Hin as [Hin|[Hin|[]]]; [apply (D p (or_intror Hp) Hin)|].
        cbn [pt_id] in Hin. apply Nh. rewrite Hin. now apply in_map.
      * exists a2. split; [exact E2|]. split; [exact A2|]. split; [exact B2|]. rewrite C2. unfold tys, a1. cbn [set_pcf v_pcf]. rewrite map_app, <- app_assoc. reflexivity.
Qed.

Definition th_rowstep (v : pvt) (gx : Z * thread_info) : result pvt :=
  bindr (foldr (fun v0 p => pvt_register v0 (fst gx) (fst p) (snd p)) th_regs v) (fun v1 => pvt_add_row v1 (fst gx) (th_label (snd gx))).

Lemma thread_phase_eq l r : foldr connect_thread l r = bindr (foldr th_rowstep l (rc_th r)) (fun v => Ok {| rc_th := v; rc_cpu := rc_cpu r |}).
Proof.
  rewrite (foldr_ext connect_thread (fun r' e => on_th r' ((fun (e : Z * thread_info) v => th_rowstep v e) e))).
  - apply foldr_on_th.
  - intros a [g ti] _. rewrite connect_thread_eq. reflexivity.
Qed.

Definition cpu_ok (sx : static) (phy : list Z) : Prop :=
  length phy = length (s_cpus sx) /\ Z.of_nat (length (s_cpus sx)) < 2147483648 /\
  forall ci p, In (ci, p) (combine (s_cpus sx) phy) -> 0 <= p < 2 ^ 63 /\ Z.of_nat (ci_loom ci) < 2 ^ 63.

Definition AffInv (p : pcf) (dg : list Z) : Prop :=
  forall t, In t p -> pt_id t = int affinity_type -> forall y, In y (map fst (pt_values t)) -> In y (map (fun g => int g + 1) dg).

Theorem system_connect_total sx phy : cpu_ok sx phy ->
  exists r, system_connect sx phy = Ok r /\ RInv sx r Tt0 Tc0.
Proof.
  intros (Lp & Nc & Fc). destruct sys_is_fine as [Fth Nth [Aff AffI] Fcpu Ncpu]. destruct th_regs_fine as [Ntr Ftr]. destruct cpu_regs_fine as [Ncr Fcr].
  unfold system_connect. set (nt := length (s_threads sx)). set (nc := length (s_cpus sx)).
  (* threads *)
  rewrite thread_phase_eq. cbn [rc_th rc_cpu].
  destruct (rows_phase (s_threads sx) th_regs th_label Tt0 (pvt_open nt) (RowInv_open nt Tt0) Ntr Ftr (fun x _ => th_label_short x)) as (v1 & E1 & I1 & P1).
  unfold th_rowstep. rewrite E1. cbn [bindr].
  (* thread PCF types *)
  unfold on_th at 1. cbn [rc_th rc_cpu]. unfold thread_create_pcf_types.
  destruct (thread_create_total Pv_gen.th_sys v1 (fun e H => H) Nth) as (v2 & E2 & A2 & B2 & P2).
  { intros e _. unfold tys. rewrite P1. cbn. tauto. }
  rewrite E2. cbn [bindr].
  (* CPU PCF types *)
  unfold on_cpu at 1. cbn [rc_th rc_cpu]. unfold cpu_create_pcf_types.
  destruct (cpu_create_total Pv_gen.cpu_sys (pvt_open nc) (fun e H => H) Ncpu) as (c3 & E3 & A3 & B3 & C3).
  { intros p _. cbn. tauto. }
  rewrite E3. cbn [bindr].
  (* CPUs *)
  set (cl := combine (s_cpus sx) phy). assert (Lcl : length cl = nc) by (unfold cl; rewrite combine_length; lia).
  assert (Rc0 : RowInv c3 (length cl) Tc0 []).
  { rewrite Lcl. destruct (RowInv_open nc Tc0) as (X1 & X2 & X3 & X4). unfold RowInv, InvC, regpairs in *. rewrite A3, B3. auto. }
  assert (P20 : v_pcf v2 = map mk_th Pv_gen.th_sys) by (rewrite P2, P1; reflexivity).
  destruct (foldr_total connect_cpu
     (fun done r => RowInv (rc_cpu r) (length cl) Tc0 (map fst done) /\ tys (rc_cpu r) = tys c3 /\
                    v_prv (rc_th r) = v_prv v2 /\ v_prf (rc_th r) = v_prf v2 /\ tys (rc_th r) = tys v2 /\ AffInv (v_pcf (rc_th r)) (map fst done))
     (number cl)) with (a := {| rc_th := v2; rc_cpu := c3 |}) as (r & Er & Ic & Tc & Pt & Ft & Tt & _).
  - intros done [g [ci p]] a (Ia & Ta & Pa & Fa & Tya & Af) Nd Hin Dl. destruct (number_in cl g (ci, p) (ci, p) Hin) as (G0 & G1 & G2).
    assert (Hcl : In (ci, p) cl) by (rewrite <- G2; now apply nth_In). destruct (Fc ci p Hcl) as (Bp & Bl). destruct (cpu_name_short ci p Bp Bl) as (SR & SL).
    assert (Hg : ~ In g (map fst done)) by (eapply in_fst_done; eauto).
    rewrite connect_cpu_eq. assert (Eg : Z.of_nat (Z.to_nat g) = g) by lia.
    destruct (row_step (rc_cpu a) (length cl) Tc0 (map fst done) cpu_regs (Z.to_nat g) (cpu_name ci p) Ia Ncr Fcr G1) as (vc & Ec & Ivc & Pvc); [rewrite Eg; exact Hg|exact SR|].
    rewrite Eg in Ec, Ivc. rewrite Ec. cbn [bindr]. unfold pvt_add_value.
    destruct (add_value_total (v_pcf (rc_th a)) (int affinity_type) (int g + 1) (cpu_name ci p)) as (p' & Ep & Mp & Vp).
    + fold (tys (rc_th a)). rewrite Tya. unfold tys. rewrite P20, map_map. destruct (is_int_ok _ AffI) as [-> _].
      unfold Tt0 in Aff. apply in_map_iff in Aff as (e & Ee & He). apply in_map_iff. exists e. split; [|exact He]. destruct e as [[[ty fl] nm] lb]. cbn in *. subst ty. now destruct (is_int_ok _ AffI).
    + intros t Ht Eid Hy. specialize (Af t Ht Eid _ Hy). apply in_map_iff in Af as (g' & Eg' & Hg').
      assert (Rg : forall h, In h (map fst done) -> 0 <= h < 2147483648).
      { intros h Hh. apply in_map_iff in Hh as ([h' y] & Eh & Hy'). cbn in Eh. subst h'. destruct (number_in cl h y y (Dl _ Hy')) as (H0 & H1 & _). lia. }
      specialize (Rg g' Hg'). rewrite !int_small in Eg' by lia. assert (g' = g) by lia. subst g'. contradiction.
    + exact SL.
    + rewrite Ep. cbn [bindr]. eexists. split; [reflexivity|]. cbn [rc_th rc_cpu set_pcf v_prv v_prf v_pcf]. rewrite map_app. cbn [map fst].
      split; [exact Ivc|]. split; [unfold tys; rewrite Pvc; exact Ta|]. split; [exact Pa|]. split; [exact Fa|].
      split; [unfold tys; cbn [set_pcf v_pcf]; rewrite Mp; exact Tya|].
      intros t' Ht' Eid y Hy. destruct (Vp t' Ht') as (t & Ht & Ei & Vy). rewrite map_app. apply in_or_app. destruct (Vy y Hy) as [H|[_ ->]].
      * left. apply (Af t Ht); [congruence|exact H].
      * right. now left.
  - apply number_nodup.
  - cbn [rc_th rc_cpu map]. split; [exact Rc0|]. split; [reflexivity|]. split; [reflexivity|]. split; [reflexivity|]. split; [reflexivity|].
    intros t Ht Eid y Hy. rewrite P20 in Ht. apply in_map_iff in Ht as ([[[ty fl] nm] lb] & <- & He). cbn [mk_th pt_id pt_values] in *.
    destruct (Fth _ _ _ _ He) as (Fi & _ & _ & _ & Fa). destruct (is_int_ok _ Fi) as [Ii _]. destruct (is_int_ok _ AffI) as [Ia _].
    rewrite Ii, Ia in Eid. rewrite (Fa Eid) in Hy. contradiction.
  - exists r. split; [exact Er|]. rewrite Lcl in Ic. destruct Ic as (Ic1 & Ic2 & _). split.
    + (* thread side *) destruct I1 as (J1 & J2 & _). split; [|split].
      * unfold InvC in *. now rewrite Pt, A2.
      * intros p Hp. unfold regpairs in Hp. rewrite Pt, A2 in Hp. now destruct (J2 p Hp).
      * intros ty Hty. rewrite Tt in Hty. unfold tys in Hty. rewrite P20, map_map in Hty. apply in_map_iff in Hty as ([[[ty' fl] nm] lb] & <- & He).
        cbn [mk_th pt_id]. destruct (Fth _ _ _ _ He) as (Fi & _). destruct (is_int_ok _ Fi) as [-> _]. unfold Tt0. apply in_map_iff. exists (ty', fl, nm, lb). auto.
    + (* CPU side *) split; [exact Ic1|]. split; [intros p Hp; now destruct (Ic2 p Hp)|].
      intros ty Hty. rewrite Tc, C3 in Hty. cbn in Hty. exact Hty.
Qed.

(* ------------------------------------------------------------------ all models *)
Record SpecsFine (all : list pvspec) : Prop := {
  xf_spec : forall s, In s all -> spec_fine s /\ ps_type s < 100;
  xf_nodup : forall m cpu, In m model_order -> NoDup (map ps_type (side_specs all m cpu));
  xf_models : forall s s', In s all -> In s' all -> ps_cpu s = ps_cpu s' -> ps_model s <> ps_model s' -> ps_type s <> ps_type s';
  xf_sys : forall s, In s all -> ~ In (ps_type s) (if ps_cpu s then Tc0 else Tt0);
  xf_small : forall ty, In ty (Tt0 ++ Tc0) -> ty < 100;
  xf_order : NoDup model_order
}.

Lemma specs_are_fine : SpecsFine Pv_gen.pv_chans.
Proof.
  pose proof specs_all_fine as H. unfold specs_fineb in H.
  apply andb_true_iff in H as [H H6]. apply andb_true_iff in H as [H H5]. apply andb_true_iff in H as [H H4].
  apply andb_true_iff in H as [H H3]. apply andb_true_iff in H as [H1 H2].
  rewrite forallb_forall in H1, H2, H3, H4, H5. constructor.
  - intros s Hs. specialize (H1 s Hs). unfold spec_fineb in H1.
    apply andb_true_iff in H1 as [X X5]. apply andb_true_iff in X as [X X4]. apply andb_true_iff in X as [X X3]. apply andb_true_iff in X as [X1 X2].
    split; [|now apply Z.ltb_lt]. split; [exact X1|]. split; [exact X3|]. split; [now apply Z.ltb_lt|now apply labels_fineb_ok].
  - intros m cpu Hm. specialize (H2 m Hm). apply andb_true_iff in H2 as [A B]. destruct cpu; now apply nodupzb_ok.
  - intros s s' Hs Hs' Ec Em Et. specialize (H3 s Hs). rewrite forallb_forall in H3. specialize (H3 s' Hs').
    rewrite Ec, eqb_reflx, Et, Z.eqb_refl in H3. cbn [negb orb] in H3. rewrite orb_false_r in H3. apply Z.eqb_eq in H3. contradiction.
  - intros s Hs Hin. specialize (H4 s Hs). apply negb_true_iff in H4. destruct (ps_cpu s);
      (assert (X : existsb (Z.eqb (ps_type s)) _ = true) by (apply existsb_exists; eexists; split; [exact Hin|apply Z.eqb_refl]); congruence).
  - intros ty Hty. now apply Z.ltb_lt, H5.
  - now apply nodupzb_ok.
Qed.

Definition marks_fine (ms : list mtype) : Prop := (forall k, In k ms -> mark_fine k) /\ NoDup (map mt_type ms).

Lemma mark_ty_nodup ms : NoDup (map mt_type ms) -> NoDup (map mark_ty ms).
Proof.
  intros N. unfold mark_ty. rewrite <- (map_map mt_type (fun t => 100 + t)). apply Injective_map_NoDup; [intros a b; lia|exact N].
Qed.

Theorem connect_gen_total all sx phy en ms : SpecsFine all -> cpu_ok sx phy -> marks_fine ms ->
  exists r, connect_gen all sx phy en ms = Ok r.
Proof.
  intros X C [Fm Nm]. unfold connect_gen. destruct (system_connect_total sx phy C) as (r0 & E0 & I0). rewrite E0. cbn [bindr].
  pose proof (mark_ty_nodup ms Nm) as Nmt.
  assert (No : NoDup (enabled_order en)) by (unfold enabled_order; apply NoDup_filter, (xf_order all X)).
  destruct (foldr_total (model_connect all sx ms)
     (fun done r => RInv sx r (Tt0 ++ flat_map (fun m => model_types all ms m false) done) (Tc0 ++ flat_map (fun m => model_types all ms m true) done))
     (enabled_order en)) with (a := r0) as (r & Er & _).
  - intros done m a Ia Nd Hm Dl.
    assert (Hmo : In m model_order) by (unfold enabled_order in Hm; now apply filter_In in Hm).
    assert (Fresh : forall cpu ty, In ty (model_types all ms m cpu) ->
              ~ In ty ((if cpu then Tc0 else Tt0) ++ flat_map (fun m' => model_types all ms m' cpu) done)).
    { intros cpu ty Hty Hin. unfold model_types in Hty. apply in_app_or in Hty as [Hty|Hty].
      - apply in_map_iff in Hty as (s & <- & Hs). unfold side_specs in Hs. apply filter_In in Hs as [Hs Es]. apply andb_true_iff in Es as [E1 E2].
        apply Z.eqb_eq in E1. apply eqb_prop in E2. apply in_app_or in Hin as [Hin|Hin].
        + apply (xf_sys all X s Hs). rewrite E2. exact Hin.
        + apply in_flat_map in Hin as (m' & Hm' & Hin). unfold model_types in Hin. apply in_app_or in Hin as [Hin|Hin].
          * apply in_map_iff in Hin as (s' & Et & Hs'). unfold side_specs in Hs'. apply filter_In in Hs' as [Hs' Es']. apply andb_true_iff in Es' as [E1' E2'].
            apply Z.eqb_eq in E1'. apply eqb_prop in E2'. apply (xf_models all X s' s Hs' Hs); [congruence| |exact Et]. intros Em. apply Nd. congruence.
          * destruct (_ && _); [|contradiction]. apply in_map_iff in Hin as (k & Ek & Hk). destruct (xf_spec all X s Hs) as [_ Lt]. destruct (Fm k Hk) as (Rk & _).
            unfold mark_ty in Ek. lia.
      - destruct ((m =? M_OVNI) && negb (Nat.eqb (length ms) 0)) eqn:Eb; [|contradiction]. apply in_map_iff in Hty as (k & <- & Hk). destruct (Fm k Hk) as (Rk & _).
        apply in_app_or in Hin as [Hin|Hin].
        + assert (mark_ty k < 100); [|unfold mark_ty in *; lia]. apply (xf_small all X). apply in_or_app. destruct cpu; [now right|now left].
        + apply in_flat_map in Hin as (m' & Hm' & Hin). unfold model_types in Hin. apply in_app_or in Hin as [Hin|Hin].
          * apply in_map_iff in Hin as (s' & Et & Hs'). unfold side_specs in Hs'. apply filter_In in Hs' as [Hs' _]. destruct (xf_spec all X s' Hs') as [_ Lt].
            unfold mark_ty in Et. lia.
          * destruct ((m' =? M_OVNI) && _) eqn:Eb'; [|contradiction]. apply andb_true_iff in Eb as [Eb _]. apply andb_true_iff in Eb' as [Eb' _].
            apply Z.eqb_eq in Eb, Eb'. apply Nd. congruence. }
    destruct (model_connect_total all sx ms a m _ _ Ia) as (a' & Ea & Ia' & _).
    + intros s Hs. now destruct (xf_spec all X s Hs).
    + exact Fm.
    + exact Nmt.
    + intros cpu. now apply (xf_nodup all X).
    + apply (Fresh false).
    + apply (Fresh true).
    + intros s k Hs Hk E. destruct (xf_spec all X s Hs) as [_ Lt]. destruct (Fm k Hk) as (Rk & _). unfold mark_ty in E. lia.
    + exists a'. split; [exact Ea|]. rewrite !flat_map_app. cbn [flat_map]. rewrite !app_nil_r, !app_assoc. exact Ia'.
  - exact No.
  - cbn [flat_map]. now rewrite !app_nil_r.
  - exists r. exact Er.
Qed.

(* ------------------------------------------------------------------ for the static description of a built system *)
From OV Require Emu.MetaDefs Emu.SysStaticDefs.

Definition sys_small (sys : MetaDefs.system) : Prop :=
  Z.of_nat (length (SysStaticDefs.sys_cpus sys)) < 2147483648 /\
  Forall (fun p => 0 <= p < 2 ^ 63) (SysStaticDefs.sys_phy sys) /\
  Forall (fun ci => Z.of_nat (ci_loom ci) < 2 ^ 63) (SysStaticDefs.sys_cpus sys).

Lemma sys_phy_length sys : length (SysStaticDefs.sys_phy sys) = length (SysStaticDefs.sys_cpus sys).
Proof.
  unfold SysStaticDefs.sys_phy, SysStaticDefs.sys_cpus. induction (MetaDefs.number sys) as [|[g [[l ps] cs]] r IH]; [reflexivity|].
  cbn [flat_map]. rewrite !app_length, !map_length, IH. reflexivity.
Qed.

Theorem registration_total sys rankf en ms lint : sys_small sys -> marks_fine ms ->
  exists r, connect (SysStaticDefs.static_of_system sys rankf en ms lint) (SysStaticDefs.sys_phy sys) en ms = Ok r.
Proof.
  intros (S1 & S2 & S3) M. apply connect_gen_total; [exact specs_are_fine| |exact M].
  cbn [SysStaticDefs.static_of_system s_cpus]. split; [apply sys_phy_length|]. split; [exact S1|].
  intros ci p Hin. rewrite Forall_forall in S2, S3. split; [apply S2; eapply in_combine_r; exact Hin|apply S3; eapply in_combine_l; exact Hin].
Qed.
