(* C18 (decode clause): the generated walk over a description (Gen/EvSpecWalk_gen.v: advance_in, format_region,
   ev_spec_print) = the hand model Tools/EvSpecDefs.v (format_region, render_loop, render). *)
From OV Require Import Base.CInt Tools.EvSpecDefs Tools.EvSpecPre Tools.EvSpecWalkPre Gen.EvSpecWalk_gen Proofs.EvSpecProofs Proofs.EvSpecGenProofs.
From OV Require Gen.EvSpec_gen.
From Coq Require Import ZifyBool.
Local Open Scope Z_scope.

(* ------------------------------------------------------------------ the two scanning loops = scan_fmt / scan_name *)
Definition nonul (l : list Z) : Prop := forall c, In c l -> c <> 0.

Definition body_fmt (n : Z) (ifmt : Z) : W Z :=
  bind (get_cursor_in tt) (fun in_2 =>
    ite (Z.eqb in_2 0) (fail E_FAIL)
    (ite (Z.geb ifmt n) (fail E_FAIL)
      (bind (get_cursor_in tt) (fun in_3 =>
         bind_ (buf_put 0%nat ifmt in_3) (let ifmt := cast_int32 (Z.add ifmt 1) in ret ifmt))))).

Lemma parse_printf_format_shape buflen :
  EvSpecWalk_gen.parse_printf_format 0%nat buflen tt =
  (let n := cast_int32 (Z.sub buflen 1) in
   bind (get_cursor_in tt) (fun in_1 =>
     ite (Z.eqb in_1 123) (fail E_FAIL)
     (ite (Z.ltb n 1) (fail E_FAIL)
       (ite (Z.geb 0 n) (fail E_FAIL)
         (bind_ (buf_put 0%nat 0 37)
           (bind (for_in_until tt 123 (cast_int32 (Z.add 0 1)) (body_fmt n)) (fun ifmt =>
              bind_ (buf_put 0%nat ifmt 0) (ret 0)))))))).
Proof. reflexivity. Qed.

Lemma for_fmt : forall k l acc o nb, nonul l -> (length l < k)%nat -> (S (length acc) <= 63)%nat ->
  for_fuel k 123 (body_fmt 63) (Z.of_nat (S (length acc))) (mkW o l (CH_PCT :: rev acc) nb) =
  match scan_fmt l (S (length acc)) acc with
  | Some (f, r') => OOk (Z.of_nat (S (length f)), mkW o (CH_LBRACE :: r') (CH_PCT :: f) nb)
  | None => OErr E_FAIL
  end.
Proof.
  induction k as [|k IH]; intros l acc o nb Hn Hk Ha; [lia|].
  destruct l as [|c r]; cbn [for_fuel w_in scan_fmt].
  - change (0 =? 123) with false. cbv beta iota zeta delta [body_fmt bind get_cursor_in ite fail w_in]. reflexivity.
  - change 123 with CH_LBRACE. destruct (c =? CH_LBRACE) eqn:Ec.
    + assert (c = CH_LBRACE) by lia. subst c. rewrite rev_length. reflexivity.
    + assert (Hc : c <> 0) by (apply Hn; left; reflexivity).
      cbv beta iota zeta delta [body_fmt bind bind_ get_cursor_in ite fail ret w_in].
      replace (c =? 0) with false by lia. cbv beta iota.
      change (FMT_BUF - 1)%nat with 63%nat.
      destruct (63 <=? S (length acc))%nat eqn:Eb.
      * apply Nat.leb_le in Eb. replace (Z.of_nat (S (length acc)) >=? 63) with true by lia. reflexivity.
      * apply Nat.leb_gt in Eb. replace (Z.of_nat (S (length acc)) >=? 63) with false by lia. cbv beta iota.
        unfold buf_put, BUF_CAP. cbn [w_fmt length]. rewrite rev_length.
        replace ((0 <=? Z.of_nat (S (length acc))) && (Z.of_nat (S (length acc)) <? 64) && (Z.of_nat (S (length acc)) <=? Z.of_nat (S (length acc)))) with true by lia.
        replace (c =? 0) with false by lia. rewrite Nat2Z.id.
        assert (F : firstn (S (length acc)) (CH_PCT :: rev acc) = CH_PCT :: rev acc) by (apply firstn_all2; cbn [length]; rewrite rev_length; lia).
        rewrite F. unfold buf_set. cbn [w_o w_in w_name w_fmt]. unfold add_cursor_in. cbn [w_in length].
        replace ((0 <=? 1) && (1 <=? Z.of_nat (S (length r)))) with true by lia. change (Z.to_nat 1) with 1%nat. cbn [skipn w_o w_fmt w_name].
        assert (C : cast_int32 (Z.of_nat (S (length acc)) + 1) = Z.of_nat (S (length (c :: acc)))) by (cbn [length]; rewrite (Nat2Z.inj_succ (S (length acc))); apply wraps_small; lia).
        rewrite C. change (CH_PCT :: rev acc ++ [c]) with (CH_PCT :: rev (c :: acc)).
        apply IH; [intros x Hx; apply Hn; right; exact Hx|cbn [length] in *; lia|cbn [length]; lia].
Qed.

Lemma scan_fmt_bound : forall l i acc f r', scan_fmt l i acc = Some (f, r') -> (i <= 63)%nat -> (length acc < i)%nat -> (S (length f) <= 63)%nat.
Proof.
  induction l as [|c r IH]; intros i acc f r' H Hi Ha; cbn [scan_fmt] in H; [discriminate|].
  destruct (c =? CH_LBRACE).
  - injection H as <- <-. rewrite rev_length. lia.
  - change (FMT_BUF - 1)%nat with 63%nat in H. destruct (63 <=? i)%nat eqn:E; [discriminate|]. apply Nat.leb_gt in E.
    apply (IH (S i) (c :: acc) f r' H); [lia|cbn [length]; lia].
Qed.

Theorem parse_printf_format_eq : forall st, nonul (w_in st) ->
  EvSpecWalk_gen.parse_printf_format 0%nat (cast_int32 64) tt st = parse_printf_format_c 0%nat (cast_int32 64) tt st.
Proof.
  intros st Hn. rewrite parse_printf_format_shape. unfold parse_printf_format_c.
  change (negb (cast_int32 64 =? Z.of_nat FMT_BUF)) with false. change (cast_int32 (cast_int32 64 - 1)) with 63.
  destruct st as [o l fb nb]. cbn [w_in] in *.
  cbv beta iota zeta delta [bind bind_ get_cursor_in ite fail ret w_in].
  destruct l as [|c r]; cbn [w_in].
  - change (0 =? 123) with false. change (63 <? 1) with false. change (0 >=? 63) with false. cbv beta iota.
    unfold buf_put, BUF_CAP. cbn [w_fmt]. replace ((0 <=? 0) && (0 <? 64) && (0 <=? Z.of_nat (length fb))) with true by lia.
    change (37 =? 0) with false. cbn [Z.to_nat firstn app]. unfold buf_set. cbn [w_o w_in w_fmt w_name].
    unfold for_in_until. cbn [w_in length for_fuel]. change (0 =? 123) with false.
    cbv beta iota zeta delta [body_fmt bind get_cursor_in ite fail w_in]. reflexivity.
  - change 123 with CH_LBRACE. destruct (c =? CH_LBRACE) eqn:Ec; [reflexivity|].
    change (63 <? 1) with false. change (0 >=? 63) with false. cbv beta iota.
    unfold buf_put at 1, BUF_CAP. cbn [w_fmt]. replace ((0 <=? 0) && (0 <? 64) && (0 <=? Z.of_nat (length fb))) with true by lia.
    change (37 =? 0) with false. cbn [Z.to_nat firstn app]. unfold buf_set at 1. cbn [w_o w_in w_fmt w_name].
    unfold for_in_until. cbn [w_in]. change (cast_int32 (0 + 1)) with (Z.of_nat (S (length (@nil Z)))).
    change [37] with (CH_PCT :: rev []). change CH_LBRACE with 123.
    rewrite (for_fmt (S (length (c :: r))) (c :: r) [] o nb Hn ltac:(lia) ltac:(cbn; lia)). cbn [length].
    destruct (scan_fmt (c :: r) 1 []) as [[f r']|] eqn:Sf; [|reflexivity].
    pose proof (scan_fmt_bound _ _ _ _ _ Sf ltac:(lia) ltac:(cbn; lia)) as B.
    unfold buf_put, BUF_CAP. cbn [w_fmt length].
    replace ((0 <=? Z.of_nat (S (length f))) && (Z.of_nat (S (length f)) <? 64) && (Z.of_nat (S (length f)) <=? Z.of_nat (S (length f)))) with true by lia.
    change (0 =? 0) with true. rewrite Nat2Z.id.
    assert (F : firstn (S (length f)) (CH_PCT :: f) = CH_PCT :: f) by (apply firstn_all2; cbn [length]; lia). rewrite F.
    unfold buf_set, with_in. cbn [w_o w_in w_fmt w_name]. reflexivity.
Qed.

Definition body_name (n : Z) (iarg : Z) : W Z :=
  bind (get_cursor_in tt) (fun in_2 =>
    ite (Z.eqb in_2 0) (fail E_FAIL)
    (bind (get_cursor_in tt) (fun in_3 =>
      ite (negb (negb (Z.eqb (isalnum_c in_3) 0))) (fail E_FAIL)
      (ite (Z.geb iarg n) (fail E_FAIL)
        (bind (get_cursor_in tt) (fun in_4 =>
           bind_ (buf_put 1%nat iarg in_4) (let iarg := cast_int32 (Z.add iarg 1) in ret iarg))))))).

Lemma parse_arg_name_shape buflen :
  EvSpecWalk_gen.parse_arg_name 1%nat buflen tt =
  (let n := cast_int32 (Z.sub buflen 1) in
   bind (get_cursor_in tt) (fun in_1 =>
     ite (Z.eqb in_1 125) (fail E_FAIL)
     (ite (Z.ltb n 1) (fail E_FAIL)
       (ite (Z.geb 0 n) (fail E_FAIL)
         (bind (for_in_until tt 125 0 (body_name n)) (fun iarg =>
            bind_ (buf_put 1%nat iarg 0) (ret 0))))))).
Proof. reflexivity. Qed.

(* after the loop and the final NUL the name buffer is exactly the scanned name *)
Definition finish_name (r : ores (Z * wstate)) : ores (Z * wstate) :=
  match r with
  | OOk (iarg, st) => bind_ (buf_put 1%nat iarg 0) (ret 0) st
  | OErr e => OErr e
  end.

Lemma for_name : forall k l acc o fb nb, (length l < k)%nat -> (length acc <= 63)%nat ->
  firstn (length acc) nb = rev acc -> (length acc <= length nb)%nat ->
  finish_name (for_fuel k 125 (body_name 63) (Z.of_nat (length acc)) (mkW o l fb nb)) =
  match scan_name l (length acc) acc with
  | Some (nm, r') => OOk (0, mkW o (CH_RBRACE :: r') fb nm)
  | None => OErr E_FAIL
  end.
Proof.
  induction k as [|k IH]; intros l acc o fb nb Hk Ha Hf Hl; [lia|].
  destruct l as [|c r]; cbn [for_fuel w_in scan_name].
  - change (0 =? 125) with false. cbv beta iota zeta delta [body_name bind get_cursor_in ite fail w_in]. reflexivity.
  - change 125 with CH_RBRACE. destruct (c =? CH_RBRACE) eqn:Ec.
    + assert (c = CH_RBRACE) by lia. subst c. unfold finish_name, bind_, bind, buf_put, BUF_CAP, ret. cbn [w_name].
      replace ((0 <=? Z.of_nat (length acc)) && (Z.of_nat (length acc) <? 64) && (Z.of_nat (length acc) <=? Z.of_nat (length nb))) with true by lia.
      change (0 =? 0) with true. rewrite Nat2Z.id, Hf. reflexivity.
    + cbv beta iota zeta delta [body_name bind bind_ get_cursor_in ite fail ret w_in].
      destruct (c =? 0) eqn:E0.
      * assert (c = 0) by lia. subst c. reflexivity.
      * unfold isalnum_c. destruct (isalnum c) eqn:Ea; cbn [b2z negb]; [|reflexivity].
        change (negb (negb (1 =? 0))) with false. cbv beta iota. change (NAME_BUF - 1)%nat with 63%nat.
        destruct (63 <=? length acc)%nat eqn:Eb.
        -- apply Nat.leb_le in Eb. replace (Z.of_nat (length acc) >=? 63) with true by lia. reflexivity.
        -- apply Nat.leb_gt in Eb. replace (Z.of_nat (length acc) >=? 63) with false by lia. cbv beta iota.
           unfold buf_put at 1, BUF_CAP. cbn [w_name].
           replace ((0 <=? Z.of_nat (length acc)) && (Z.of_nat (length acc) <? 64) && (Z.of_nat (length acc) <=? Z.of_nat (length nb))) with true by lia.
           rewrite E0, Nat2Z.id, Hf. unfold buf_set at 1. cbn [w_o w_in w_name w_fmt]. unfold add_cursor_in. cbn [w_in length].
           replace ((0 <=? 1) && (1 <=? Z.of_nat (S (length r)))) with true by lia. change (Z.to_nat 1) with 1%nat. cbn [skipn w_o w_fmt w_name].
           assert (C : cast_int32 (Z.of_nat (length acc) + 1) = Z.of_nat (length (c :: acc))) by (cbn [length]; rewrite Nat2Z.inj_succ; apply wraps_small; lia).
           rewrite C. change (rev acc ++ [c]) with (rev (c :: acc)).
           apply IH; [cbn [length] in *; lia|cbn [length]; lia| |].
           ++ rewrite <- (rev_length (c :: acc)). apply firstn_all.
           ++ rewrite rev_length. lia.
Qed.

Theorem parse_arg_name_eq : forall st,
  EvSpecWalk_gen.parse_arg_name 1%nat (cast_int32 64) tt st = parse_arg_name_c 1%nat (cast_int32 64) tt st.
Proof.
  intros st. rewrite parse_arg_name_shape. unfold parse_arg_name_c.
  change (negb (cast_int32 64 =? Z.of_nat NAME_BUF)) with false. change (cast_int32 (cast_int32 64 - 1)) with 63.
  destruct st as [o l fb nb].
  cbv beta iota zeta delta [bind get_cursor_in ite fail w_in].
  destruct l as [|c r]; cbn [w_in].
  - change (0 =? 125) with false. change (63 <? 1) with false. change (0 >=? 63) with false. cbv beta iota.
    unfold for_in_until. cbn [w_in length for_fuel]. change (0 =? 125) with false.
    cbv beta iota zeta delta [body_name bind get_cursor_in ite fail w_in]. reflexivity.
  - change 125 with CH_RBRACE. destruct (c =? CH_RBRACE) eqn:Ec; [reflexivity|].
    change (63 <? 1) with false. change (0 >=? 63) with false. cbv beta iota.
    unfold for_in_until. cbn [w_in]. change CH_RBRACE with 125.
    pose proof (for_name (S (length (c :: r))) (c :: r) [] o fb nb ltac:(lia) ltac:(cbn; lia) eq_refl ltac:(cbn; lia)) as F.
    cbn [length] in F. change (Z.of_nat 0) with 0 in F.
    transitivity (finish_name (for_fuel (S (S (length r))) 125 (body_name 63) 0 (mkW o (c :: r) fb nb))); [reflexivity|].
    rewrite F. unfold buf_set, with_in. cbn [w_o w_in w_fmt w_name]. destruct (scan_name (c :: r) 0 []) as [[nm r']|]; reflexivity.
Qed.

(* ------------------------------------------------------------------ ev_spec_find_arg = find_arg *)
Lemma str_cmp_eq0 a : forall b, (str_cmp a b =? 0) = list_eqb a b.
Proof.
  induction a as [|x a IH]; intros [|y b]; cbn [str_cmp list_eqb]; try reflexivity.
  destruct (x <? y) eqn:E1; [replace (x =? y) with false by lia; reflexivity|].
  destruct (y <? x) eqn:E2; [replace (x =? y) with false by lia; reflexivity|].
  replace (x =? y) with true by lia. cbn [andb]. apply IH.
Qed.

Lemma for_find_list (name : list Z) (args : list arg) : forall l pre, args = pre ++ l ->
  for_find_n (length l) (Z.of_nat (length pre))
    (fun i => let a := (if i <? 0 then None else nth_error args (Z.to_nat i)) in
              if Z.eqb (strcmp_c (a_name (match a with Some x => x | None => dflt_arg end)) name) 0 then Some a else None) None
  = find (fun a => list_eqb (a_name a) name) l.
Proof.
  induction l as [|a l IH]; intros pre E; cbn [length for_find_n find]; [reflexivity|].
  cbv zeta. replace (Z.of_nat (length pre) <? 0) with false by lia. rewrite Nat2Z.id.
  assert (N : nth_error args (length pre) = Some a) by (rewrite E, nth_error_app2 by lia; rewrite Nat.sub_diag; reflexivity).
  rewrite N. unfold strcmp_c. rewrite str_cmp_eq0. destruct (list_eqb (a_name a) name); [reflexivity|].
  replace (Z.of_nat (length pre) + 1) with (Z.of_nat (length (pre ++ [a]))) by (rewrite app_length; cbn [length]; lia).
  apply IH. rewrite <- app_assoc. exact E.
Qed.

Theorem ev_spec_find_arg_eq : forall sp desc name, EvSpecWalk_gen.ev_spec_find_arg (mkSpecw sp desc) name = find_arg sp name.
Proof.
  intros sp desc name. unfold EvSpecWalk_gen.ev_spec_find_arg, for_find, get_ev_spec_nargs, addr_ev_spec_args_at, get_ev_arg_name, find_arg. cbn [ws_spec].
  rewrite Z.sub_0_r, Nat2Z.id. exact (for_find_list name (s_args sp) (s_args sp) [] eq_refl).
Qed.

(* ------------------------------------------------------------------ the shape of the generated format_region *)
Definition name_part (infer_fmt : Z) (spec : ptr_specw) (ev : ptr_ev) : W Z :=
  bind (get_cursor_in tt) (fun in_7 =>
    ite (negb (Z.eqb in_7 123)) (fail E_FAIL)
    (bind_ (advance_in tt 1)
      (bind (EvSpecWalk_gen.parse_arg_name (buf 1) (cast_int32 64) tt) (fun r_8 =>
        ite (negb (Z.eqb r_8 0)) (fail E_FAIL)
        (bind (get_cursor_in tt) (fun in_9 =>
          ite (negb (Z.eqb in_9 125)) (fail E_FAIL)
          (bind_ (advance_in tt 1)
            (bind (buf_get (buf 1)) (fun argname_10 =>
              let arg := EvSpecWalk_gen.ev_spec_find_arg spec argname_10 in
              ite (is_null arg) (fail E_FAIL)
              (bind_ (ite (negb (Z.eqb infer_fmt 0))
                        (bind (snprintf_buf (buf 0) 64 (str_lit [37; 115]) (type_fmt_c (get_ev_arg_type arg))) (fun r_10 =>
                           ite (Z.geb r_10 64) (fail E_FAIL) (ret tt)))
                        (ret tt))
                 (bind (buf_get (buf 0)) (fun fmt_12 =>
                    bind (print_arg arg fmt_12 tt ev) (fun r_11 =>
                      ite (negb (Z.eqb r_11 0)) (fail E_FAIL) (ret 0)))))))))))))).

Lemma format_region_shape spec ev :
  EvSpecWalk_gen.format_region spec tt ev =
  bind (get_cursor_len tt) (fun len_1 =>
    ite (Z.eqb len_1 0) (fail E_FAIL)
    (bind (get_cursor_in tt) (fun in_2 =>
      ite (negb (Z.eqb in_2 37)) (fail E_FAIL)
      (bind_ (advance_in tt 1)
        (bind (get_cursor_in tt) (fun in_3 =>
          ite (Z.eqb in_3 0) (fail E_FAIL)
          (bind (get_cursor_in tt) (fun in_4 =>
            ite (Z.eqb in_4 37)
              (bind_ (put_cursor_out tt 37) (bind_ (advance_out tt 1) (bind_ (advance_in tt 1) (ret 0))))
              (bind (get_cursor_in tt) (fun in_6 =>
                 bind (ite (Z.eqb in_6 123) (ret 1)
                        (bind (EvSpecWalk_gen.parse_printf_format (buf 0) (cast_int32 64) tt) (fun r_5 =>
                           ite (negb (Z.eqb r_5 0)) (fail E_FAIL) (ret 0))))
                      (fun infer_fmt => name_part infer_fmt spec ev))))))))))).
Proof. reflexivity. Qed.

(* ------------------------------------------------------------------ small facts *)
Definition nonul_head (l : list Z) : Prop := match l with [] => True | c :: _ => c <> 0 end.

Lemma type_fmt_code t : type_fmt_c (ty_code t) = type_fmt t.
Proof. destruct t; reflexivity. Qed.
Lemma type_fmt_short t : (length (type_fmt t) <= 3)%nat.
Proof. destruct t; cbn; lia. Qed.

(* what a state looks like after the walk has produced [t] more bytes *)
Definition produced (st st' : wstate) (t : list Z) (inp' : list Z) : Prop :=
  w_in st' = inp' /\ o_buf (w_o st') = o_buf (w_o st) ++ t /\ o_len (w_o st') = o_len (w_o st) - Z.of_nat (length t).

Definition fmt_ok (f : option (list Z)) : Prop := in_use_b f = true.

Ltac wnorm := cbv beta iota zeta delta [name_part bind bind_ ret fail ite get_cursor_in advance_in add_cursor_in parse_arg_name_c
  parse_printf_format_c ev_spec_find_arg_c buf buf_set with_in buf_get snprintf_buf str_lit print_arg lift with_o get_cursor_len put_cursor_out
  advance_out init_cursor w_o w_in w_fmt w_name ws_spec ws_desc is_null get_ev_arg_type EvSpecPre.get_cursor_len get_ev_spec_description].

(* ------------------------------------------------------------------ the name part *)
Lemma name_part_spec sp desc pl r1 st fmt infer :
  Forall arg_ok (s_args sp) -> pl <> Some [] -> payload_ok pl ->
  w_in st = CH_LBRACE :: r1 -> 0 < o_len (w_o st) < 2 ^ 31 ->
  (infer = 1 /\ fmt = None \/ infer = 0 /\ exists f, fmt = Some f /\ w_fmt st = CH_PCT :: f) ->
  match (match r1 with
         | [] => None
         | d :: _ => if d =? CH_RBRACE then None else scan_name r1 0 []
         end) with
  | None => name_part infer (mkSpecw sp desc) (ev_of pl) st = OErr E_FAIL
  | Some (nm, r2) => fmt_ok fmt ->
    match find_arg sp nm with
    | None => name_part infer (mkSpecw sp desc) (ev_of pl) st = OErr E_FAIL
    | Some a =>
      match EvSpecDefs.print_arg a fmt pl (o_len (w_o st)) with
      | PErr => name_part infer (mkSpecw sp desc) (ev_of pl) st = OErr E_FAIL
      | PUnsup => name_part infer (mkSpecw sp desc) (ev_of pl) st = OErr E_UNSUP
      | POk t => exists st', name_part infer (mkSpecw sp desc) (ev_of pl) st = OOk (0, st') /\ produced st st' t r2
      end
    end
  end.
Proof.
  intros Ha Hne Hp Hin Hl Hinf. destruct st as [o inp fb nb]. cbn [w_in w_o w_fmt] in *. subst inp.
  wnorm. change (negb (CH_LBRACE =? 123)) with false. cbv beta iota. cbn [length].
  replace ((0 <=? 1) && (1 <=? Z.of_nat (S (length r1)))) with true by lia. cbv beta iota.
  change (Z.to_nat 1) with 1%nat. cbn [skipn]. change (buf 1) with 1%nat. rewrite parse_arg_name_eq.
  cbv beta iota delta [parse_arg_name_c buf buf_set with_in w_o w_in w_fmt w_name].
  change (negb (cast_int32 64 =? Z.of_nat NAME_BUF)) with false. cbv beta iota.
  destruct r1 as [|d r1']; [reflexivity|].
  destruct (d =? CH_RBRACE) eqn:Ed; [reflexivity|].
  destruct (scan_name (d :: r1') 0 []) as [[nm r2]|]; [|reflexivity]. intros Hf.
  cbv beta iota. change (negb (0 =? 0)) with false. cbv beta iota. change (negb (CH_RBRACE =? 125)) with false. cbv beta iota. cbn [length].
  replace ((0 <=? 1) && (1 <=? Z.of_nat (S (length r2)))) with true by lia. cbv beta iota. cbn [skipn].
  rewrite ev_spec_find_arg_eq. destruct (find_arg sp nm) as [a|] eqn:F; cbv beta iota; [|reflexivity].
  assert (Hok : arg_ok a) by (rewrite Forall_forall in Ha; apply Ha; eapply find_arg_in; eauto).
  destruct Hok as [A1 A2].
  assert (PA : forall fb' nb', fb' = cfmt_of fmt (a_type a) ->
     match EvSpecDefs.print_arg a fmt pl (o_len o) with
     | PErr => match match EvSpec_gen.print_arg a fb' tt (ev_of pl) o with OOk (a0, o') => OOk (a0, mkW o' r2 fb' nb') | OErr e => OErr e end with
               | OOk (r_11, st') => (if negb (r_11 =? 0) then (fun _ => OErr E_FAIL) else (fun st0 => OOk (0, st0))) st' | OErr e => OErr e end = OErr E_FAIL
     | PUnsup => match match EvSpec_gen.print_arg a fb' tt (ev_of pl) o with OOk (a0, o') => OOk (a0, mkW o' r2 fb' nb') | OErr e => OErr e end with
               | OOk (r_11, st') => (if negb (r_11 =? 0) then (fun _ => OErr E_FAIL) else (fun st0 => OOk (0, st0))) st' | OErr e => OErr e end = OErr E_UNSUP
     | POk t => exists st', match match EvSpec_gen.print_arg a fb' tt (ev_of pl) o with OOk (a0, o') => OOk (a0, mkW o' r2 fb' nb') | OErr e => OErr e end with
               | OOk (r_11, st') => (if negb (r_11 =? 0) then (fun _ => OErr E_FAIL) else (fun st0 => OOk (0, st0))) st' | OErr e => OErr e end = OOk (0, st')
               /\ produced (mkW o (CH_LBRACE :: d :: r1') fb nb) st' t r2
     end).
  { intros fb' nb' ->.
    rewrite (print_arg_from_source a fmt pl o A1 A2 (in_use_b_spec fmt Hf) Hne Hp ltac:(lia)).
    destruct (EvSpecDefs.print_arg a fmt pl (o_len o)) as [| |t]; try reflexivity.
    change (negb (0 =? 0)) with false. cbv beta iota. eexists. split; [reflexivity|].
    unfold produced. cbn [w_in w_o o_buf o_len]. auto. }
  destruct Hinf as [[-> ->]|[-> (f & -> & Hfb)]].
  - change (negb (1 =? 0)) with true. cbv beta iota. change (list_eqb [37; 115] F_S) with true. cbv beta iota.
    rewrite type_fmt_code. pose proof (type_fmt_short (a_type a)) as Ls.
    replace (Z.of_nat (length (type_fmt (a_type a))) >=? 64) with false by lia. cbv beta iota.
    assert (Fn : firstn (Z.to_nat (64 - 1)) (type_fmt (a_type a)) = type_fmt (a_type a)) by (apply firstn_all2; lia). rewrite Fn.
    exact (PA _ _ eq_refl).
  - change (negb (0 =? 0)) with false. cbv beta iota. subst fb. exact (PA _ _ eq_refl).
Qed.

(* ------------------------------------------------------------------ format_region *)
Definition region_fmt_ok (r : list Z) : Prop :=
  match parse_region r with Some (Arg f _, _) => fmt_ok f | _ => True end.

Lemma format_region_spec sp desc pl r st :
  Forall arg_ok (s_args sp) -> pl <> Some [] -> payload_ok pl -> region_fmt_ok r -> nonul r ->
  w_in st = CH_PCT :: r -> 0 < o_len (w_o st) < 2 ^ 31 ->
  match EvSpecDefs.format_region sp pl r (o_len (w_o st)) with
  | FErr => EvSpecWalk_gen.format_region (mkSpecw sp desc) tt (ev_of pl) st = OErr E_FAIL
  | FUnsup => EvSpecWalk_gen.format_region (mkSpecw sp desc) tt (ev_of pl) st = OErr E_UNSUP
  | FOk t r' => exists st', EvSpecWalk_gen.format_region (mkSpecw sp desc) tt (ev_of pl) st = OOk (0, st') /\ produced st st' t r'
  end.
Proof.
  intros Ha Hne Hp Hf Hnn Hin Hl. rewrite format_region_shape. unfold EvSpecDefs.format_region, region_fmt_ok in *.
  destruct st as [o inp fb nb]. cbn [w_in w_o] in *. subst inp.
  cbv beta iota zeta delta [bind bind_ ret fail ite get_cursor_in advance_in add_cursor_in lift with_o get_cursor_len w_o w_in w_fmt w_name EvSpecPre.get_cursor_len].
  replace (o_len o =? 0) with false by lia. cbv beta iota. change (negb (CH_PCT =? 37)) with false. cbv beta iota. cbn [length].
  replace ((0 <=? 1) && (1 <=? Z.of_nat (S (length r)))) with true by lia. cbv beta iota. change (Z.to_nat 1) with 1%nat. cbn [skipn].
  unfold parse_region in *. destruct r as [|c r0]; [reflexivity|].
  assert (Hc : c <> 0) by (apply Hnn; left; reflexivity).
  replace (c =? 0) with false by lia. cbv beta iota.
  change 37 with CH_PCT. destruct (c =? CH_PCT) eqn:Ep.
  - (* "%%" *)
    cbv beta iota zeta delta [put_cursor_out advance_out lift with_o w_o w_in w_fmt w_name bind_ bind ret].
    unfold EvSpec_gen.advance_out, EvSpecPre.bind_, EvSpecPre.bind, EvSpecPre.add_cursor_out, EvSpecPre.get_cursor_len, EvSpecPre.set_cursor_len, EvSpecPre.ret.
    cbn [o_pend o_buf o_len length]. change ((0 <=? 1) && (1 <=? Z.of_nat 1)) with true. cbv beta iota. change (Z.to_nat 1) with 1%nat. cbn [firstn skipn o_len o_buf o_pend length].
    replace ((0 <=? 1) && (1 <=? Z.of_nat (S (length r0)))) with true by lia. cbv beta iota.
    assert (C : cast_int32 (o_len o - 1) = o_len o - 1) by (apply wraps_small; lia). rewrite C.
    eexists. split; [reflexivity|]. unfold produced. cbn [w_in w_o o_buf o_len length]. auto.
  - change 123 with CH_LBRACE. destruct (c =? CH_LBRACE) eqn:Eb.
    + (* "%{name}" *)
      cbv beta iota.
      pose proof (name_part_spec sp desc pl r0 (mkW o (c :: r0) fb nb) None 1 Ha Hne Hp) as N.
      assert (c = CH_LBRACE) by lia. subst c.
      specialize (N eq_refl ltac:(cbn [w_o]; lia) (or_introl (conj eq_refl eq_refl))). cbn [w_o] in N.
      destruct r0 as [|d r0']; [exact N|]. destruct (d =? CH_RBRACE); [exact N|].
      destruct (scan_name (d :: r0') 0 []) as [[nm r2]|]; [|exact N]. cbv beta iota in *. specialize (N eq_refl).
      destruct (find_arg sp nm) as [a|]; [|exact N].
      destruct (EvSpecDefs.print_arg a None pl (o_len o)) as [| |t]; try exact N.
    + (* "%FMT{name}" *)
      cbv beta iota. change (buf 0) with 0%nat. rewrite (parse_printf_format_eq (mkW o (c :: r0) fb nb) Hnn).
      unfold parse_printf_format_c. change (negb (cast_int32 64 =? Z.of_nat FMT_BUF)) with false. cbv beta iota. cbn [w_in].
      rewrite Eb. destruct (scan_fmt (c :: r0) 1 []) as [[f r1]|] eqn:Sf; [|reflexivity].
      cbv beta iota. change (negb (0 =? 0)) with false. cbv beta iota.
      unfold buf, buf_set, with_in. cbn [w_o w_in w_fmt w_name].
      pose proof (name_part_spec sp desc pl r1 (mkW o (CH_LBRACE :: r1) (CH_PCT :: f) nb) (Some f) 0 Ha Hne Hp eq_refl ltac:(cbn [w_o]; lia)
                    (or_intror (conj eq_refl (ex_intro _ f (conj eq_refl eq_refl))))) as N. cbn [w_o] in N.
      destruct r1 as [|d r1']; [exact N|]. destruct (d =? CH_RBRACE); [exact N|].
      destruct (scan_name (d :: r1') 0 []) as [[nm r2]|]; [|exact N]. cbv beta iota in *. specialize (N Hf).
      destruct (find_arg sp nm) as [a|]; [|exact N].
      destruct (EvSpecDefs.print_arg a (Some f) pl (o_len o)) as [| |t]; try exact N.
Qed.

(* ------------------------------------------------------------------ the loop of ev_spec_print *)
Definition loop_body (spec : ptr_specw) (ev : ptr_ev) : W unit :=
  bind (get_cursor_len tt) (fun len_1 =>
    ite (Z.eqb len_1 0) (fail E_FAIL)
    (bind (get_cursor_in tt) (fun in_4 =>
      bind_ (ite (Z.eqb in_4 37)
               (bind (EvSpecWalk_gen.format_region spec tt ev) (fun r_2 => ite (negb (Z.eqb r_2 0)) (fail E_FAIL) (ret tt)))
               (bind (get_cursor_in tt) (fun in_3 =>
                  bind_ (put_cursor_out tt in_3) (bind_ (add_cursor_in tt 1) (bind_ (advance_out tt 1) (ret tt))))))
            (ret tt)))).

Lemma ev_spec_print_shape spec ev outlen :
  EvSpecWalk_gen.ev_spec_print spec ev tt outlen =
  ite (Z.leb outlen 0) (fail E_FAIL)
  (bind_ (init_cursor (get_ev_spec_description spec) tt (cast_int32 (Z.sub outlen 1)))
    (bind_ (while_in tt (loop_body spec ev)) (bind_ (put_cursor_out tt 0) (ret 0)))).
Proof. reflexivity. Qed.

(* the positions the walk visits hold no NUL and every custom format met is one the model gives a meaning *)
Fixpoint walk_ok (fuel : nat) (inp : list Z) : bool :=
  match inp with
  | [] => true
  | c :: r =>
    match fuel with
    | O => false
    | S f =>
      negb (c =? 0) &&
      (if c =? CH_PCT then
         forallb (fun x => negb (x =? 0)) r &&
         match parse_region r with
         | None => true
         | Some (p, r') => (match p with Arg fm _ => in_use_b fm | _ => true end) && walk_ok f r'
         end
       else walk_ok f r)
    end
  end.

Lemma produced_trans st st1 st2 t1 t2 r1 r2 : produced st st1 t1 r1 -> produced st1 st2 t2 r2 -> produced st st2 (t1 ++ t2) r2.
Proof.
  intros (A1 & B1 & C1) (A2 & B2 & C2). unfold produced. rewrite A2, B2, B1, C2, C1, app_length, <- app_assoc. repeat split. lia.
Qed.

Lemma literal_step spec ev c r st : w_in st = c :: r -> c <> 0 -> (c =? CH_PCT) = false -> 0 < o_len (w_o st) < 2 ^ 31 ->
  exists st', loop_body spec ev st = OOk (tt, st') /\ produced st st' [c] r.
Proof.
  intros Hin Hc Hp Hl. destruct st as [o inp fb nb]. cbn [w_in w_o] in *. subst inp.
  cbv beta iota zeta delta [loop_body bind bind_ ret fail ite get_cursor_in add_cursor_in lift with_o get_cursor_len put_cursor_out advance_out
                            w_o w_in w_fmt w_name EvSpecPre.get_cursor_len].
  replace (o_len o =? 0) with false by lia. cbv beta iota. change 37 with CH_PCT. rewrite Hp. cbv beta iota.
  cbn [length]. replace ((0 <=? 1) && (1 <=? Z.of_nat (S (length r)))) with true by lia. cbv beta iota. change (Z.to_nat 1) with 1%nat. cbn [skipn].
  unfold EvSpec_gen.advance_out, EvSpecPre.bind_, EvSpecPre.bind, EvSpecPre.add_cursor_out, EvSpecPre.get_cursor_len, EvSpecPre.set_cursor_len, EvSpecPre.ret.
  cbn [o_pend o_buf o_len length]. change ((0 <=? 1) && (1 <=? Z.of_nat 1)) with true. cbv beta iota. change (Z.to_nat 1) with 1%nat.
  cbn [firstn skipn o_len o_buf o_pend length].
  assert (C : cast_int32 (o_len o - 1) = o_len o - 1) by (apply wraps_small; lia). rewrite C.
  eexists. split; [reflexivity|]. unfold produced. cbn [w_in w_o o_buf o_len length]. auto.
Qed.

Lemma region_step sp desc pl r st : Forall arg_ok (s_args sp) -> pl <> Some [] -> payload_ok pl -> region_fmt_ok r ->
  nonul r ->
  w_in st = CH_PCT :: r -> 0 < o_len (w_o st) < 2 ^ 31 ->
  match EvSpecDefs.format_region sp pl r (o_len (w_o st)) with
  | FErr => loop_body (mkSpecw sp desc) (ev_of pl) st = OErr E_FAIL
  | FUnsup => loop_body (mkSpecw sp desc) (ev_of pl) st = OErr E_UNSUP
  | FOk t r' => exists st', loop_body (mkSpecw sp desc) (ev_of pl) st = OOk (tt, st') /\ produced st st' t r'
  end.
Proof.
  intros Ha Hne Hp Hf Hh Hin Hl.
  assert (Hnn : nonul r) by exact Hh.
  pose proof (format_region_spec sp desc pl r st Ha Hne Hp Hf Hnn Hin Hl) as F.
  destruct st as [o inp fb nb]. cbn [w_in w_o] in *. subst inp.
  cbv beta iota zeta delta [loop_body bind bind_ ret fail ite get_cursor_in lift with_o get_cursor_len w_o w_in w_fmt w_name EvSpecPre.get_cursor_len].
  replace (o_len o =? 0) with false by lia. cbv beta iota. change (CH_PCT =? 37) with true. cbv beta iota.
  destruct (EvSpecDefs.format_region sp pl r (o_len o)) as [| |t r'].
  - rewrite F. reflexivity.
  - rewrite F. reflexivity.
  - destruct F as (st' & -> & P). change (negb (0 =? 0)) with false. cbv beta iota. exists st'. split; [reflexivity|exact P].
Qed.

Lemma loop_spec sp desc pl : Forall arg_ok (s_args sp) -> pl <> Some [] -> payload_ok pl ->
  forall n inp st, w_in st = inp -> walk_ok n inp = true -> 0 <= o_len (w_o st) < 2 ^ 31 ->
  match render_loop n sp pl inp (o_len (w_o st)) with
  | Ok t => exists st', while_fuel n (loop_body (mkSpecw sp desc) (ev_of pl)) st = OOk (tt, st') /\ produced st st' t []
  | Err => while_fuel n (loop_body (mkSpecw sp desc) (ev_of pl)) st = OErr E_FAIL
  | Unsupported => while_fuel n (loop_body (mkSpecw sp desc) (ev_of pl)) st = OErr E_UNSUP
  end.
Proof.
  intros Ha Hne Hp. induction n as [|n IH]; intros inp st Hin Hw Hl.
  - destruct inp as [|c r]; [|discriminate Hw]. cbn [render_loop while_fuel]. rewrite Hin.
    exists st. split; [reflexivity|]. unfold produced. rewrite Hin, app_nil_r. cbn [length]. repeat split. lia.
  - destruct inp as [|c r].
    + cbn [render_loop while_fuel]. rewrite Hin. exists st. split; [reflexivity|]. unfold produced. rewrite Hin, app_nil_r. cbn [length]. repeat split. lia.
    + cbn [walk_ok] in Hw. apply andb_true_iff in Hw. destruct Hw as [Hc Hw]. assert (Hc' : c <> 0) by lia.
      cbn [render_loop while_fuel]. rewrite Hin. replace (c =? 0) with false by lia.
      destruct (o_len (w_o st) <=? 0) eqn:E0.
      * (* no room: the generated body refuses on len == 0 *)
        assert (o_len (w_o st) = 0) by lia.
        destruct st as [o i fb nb]. cbn [w_in w_o] in *. subst i.
        cbv beta iota zeta delta [loop_body bind bind_ fail ite lift with_o get_cursor_len w_o EvSpecPre.get_cursor_len].
        replace (o_len o =? 0) with true by lia. reflexivity.
      * destruct (c =? CH_PCT) eqn:Ep.
        -- assert (c = CH_PCT) by lia. subst c. apply andb_true_iff in Hw. destruct Hw as [Hh Hw].
           assert (Hh' : nonul r) by (intros x Hx; rewrite forallb_forall in Hh; specialize (Hh x Hx); lia).
           assert (Hf : region_fmt_ok r).
           { unfold region_fmt_ok. destruct (parse_region r) as [[[l| |fm nm] r']|]; try exact I.
             apply andb_true_iff in Hw. exact (proj1 Hw). }
           pose proof (region_step sp desc pl r st Ha Hne Hp Hf Hh' Hin ltac:(lia)) as R.
           unfold EvSpecDefs.format_region in *.
           destruct (parse_region r) as [[p r']|] eqn:Pr; [|rewrite R; reflexivity].
           apply andb_true_iff in Hw. destruct Hw as [_ Hw].
           assert (G : forall t, (exists st1, loop_body (mkSpecw sp desc) (ev_of pl) st = OOk (tt, st1) /\ produced st st1 t r') -> Z.of_nat (length t) < o_len (w_o st) \/ t = [CH_PCT] ->
                     match prepend t (render_loop n sp pl r' (o_len (w_o st) - Z.of_nat (length t))) with
                     | Ok t0 => exists st', match loop_body (mkSpecw sp desc) (ev_of pl) st with OOk (_, st'0) => while_fuel n (loop_body (mkSpecw sp desc) (ev_of pl)) st'0 | OErr e => OErr e end = OOk (tt, st') /\ produced st st' t0 []
                     | Err => match loop_body (mkSpecw sp desc) (ev_of pl) st with OOk (_, st'0) => while_fuel n (loop_body (mkSpecw sp desc) (ev_of pl)) st'0 | OErr e => OErr e end = OErr E_FAIL
                     | Unsupported => match loop_body (mkSpecw sp desc) (ev_of pl) st with OOk (_, st'0) => while_fuel n (loop_body (mkSpecw sp desc) (ev_of pl)) st'0 | OErr e => OErr e end = OErr E_UNSUP
                     end).
           { intros t (st1 & E1 & P1) Ht. rewrite E1. destruct P1 as (I1 & B1 & L1).
             assert (Hl1 : 0 <= o_len (w_o st1) < 2 ^ 31) by (rewrite L1; destruct Ht as [Ht| ->]; cbn [length] in *; lia).
             pose proof (IH r' st1 I1 Hw Hl1) as Q. rewrite L1 in Q.
             destruct (render_loop n sp pl r' (o_len (w_o st) - Z.of_nat (length t))) as [t2| |]; cbn [prepend]; try exact Q.
             destruct Q as (st2 & E2 & P2). exists st2. split; [exact E2|]. eapply produced_trans; [|exact P2]. unfold produced; auto. }
           destruct p as [l| |fm nm].
           ++ rewrite R. reflexivity.
           ++ apply (G [CH_PCT] R). right. reflexivity.
           ++ destruct (find_arg sp nm) as [a|]; [|rewrite R; reflexivity].
              destruct (EvSpecDefs.print_arg a fm pl (o_len (w_o st))) as [| |t] eqn:Pa; try (rewrite R; reflexivity).
              apply (G t R). left. eapply print_arg_ok_len. exact Pa.
        -- destruct (literal_step (mkSpecw sp desc) (ev_of pl) c r st Hin Hc' Ep ltac:(lia)) as (st1 & E1 & P1).
           rewrite E1. destruct P1 as (I1 & B1 & L1). cbn [length] in L1.
           assert (Hl1 : 0 <= o_len (w_o st1) < 2 ^ 31) by (rewrite L1; lia).
           pose proof (IH r st1 I1 Hw Hl1) as Q. rewrite L1 in Q. change (Z.of_nat 1) with 1 in Q.
           destruct (render_loop n sp pl r (o_len (w_o st) - 1)) as [t2| |]; cbn [prepend]; try exact Q.
           destruct Q as (st2 & E2 & P2). exists st2. split; [exact E2|]. eapply (produced_trans st st1 st2 [c] t2); [|exact P2]. unfold produced; cbn [length]; auto.
Qed.

(* ------------------------------------------------------------------ ev_spec_print = render *)
Definition desc_ok (desc : list Z) : bool := let d := cstr desc in walk_ok (length d) d.

Theorem ev_spec_print_from_source : forall sp desc pl st,
  Forall arg_ok (s_args sp) -> payload_ok pl -> desc_ok desc = true ->
  match render sp desc pl with
  | Ok t => exists st', EvSpecWalk_gen.ev_spec_print (mkSpecw sp desc) (ev_of (norm_payload pl)) tt OUTLEN st = OOk (0, st') /\
                        o_buf (w_o st') = t /\ w_in st' = []
  | Err => EvSpecWalk_gen.ev_spec_print (mkSpecw sp desc) (ev_of (norm_payload pl)) tt OUTLEN st = OErr E_FAIL
  | Unsupported => EvSpecWalk_gen.ev_spec_print (mkSpecw sp desc) (ev_of (norm_payload pl)) tt OUTLEN st = OErr E_UNSUP
  end.
Proof.
  intros sp desc pl st Ha Hp Hd. unfold render, desc_ok in *. cbv zeta in Hd.
  set (st0 := mkW (mkO [] [] (OUTLEN - 1)) (cstr desc) (w_fmt st) (w_name st)).
  assert (E : EvSpecWalk_gen.ev_spec_print (mkSpecw sp desc) (ev_of (norm_payload pl)) tt OUTLEN st =
              match while_fuel (length (cstr desc)) (loop_body (mkSpecw sp desc) (ev_of (norm_payload pl))) st0 with
              | OOk (_, st1) => OOk (0, with_o st1 (mkO (o_buf (w_o st1)) [0] (o_len (w_o st1))))
              | OErr e => OErr e
              end) by reflexivity.
  rewrite E. clear E.
  pose proof (loop_spec sp desc (norm_payload pl) Ha (norm_payload_ne pl) (norm_payload_ok pl Hp) (length (cstr desc)) (cstr desc) st0 eq_refl Hd
                ltac:(cbn; unfold OUTLEN; lia)) as L.
  change (o_len (w_o st0)) with (OUTLEN - 1) in L.
  destruct (render_loop (length (cstr desc)) sp (norm_payload pl) (cstr desc) (OUTLEN - 1)) as [t| |].
  - destruct L as (st1 & -> & (I1 & B1 & L1)). eexists. split; [reflexivity|]. unfold with_o. cbn [w_o w_in o_buf]. rewrite B1, I1. cbn [w_o o_buf app]. auto.
  - rewrite L. reflexivity.
  - rewrite L. reflexivity.
Qed.

(* every listed event: the description is walked without meeting a NUL or a format outside the model *)
Lemma evdescs_desc_ok : forallb (fun e => desc_ok (snd e)) Tables_gen.evdescs = true.
Proof. vm_compute. reflexivity. Qed.

Theorem dump_print_from_source : forall m sig desc sp pl st,
  In (m, sig, desc) Tables_gen.evdescs -> compile sig = Some sp -> payload_ok pl ->
  match render sp desc pl with
  | Ok t => exists st', EvSpecWalk_gen.ev_spec_print (mkSpecw sp desc) (ev_of (norm_payload pl)) tt OUTLEN st = OOk (0, st') /\
                        o_buf (w_o st') = t /\ w_in st' = []
  | Err => EvSpecWalk_gen.ev_spec_print (mkSpecw sp desc) (ev_of (norm_payload pl)) tt OUTLEN st = OErr E_FAIL
  | Unsupported => EvSpecWalk_gen.ev_spec_print (mkSpecw sp desc) (ev_of (norm_payload pl)) tt OUTLEN st = OErr E_UNSUP
  end.
Proof.
  intros m sig desc sp pl st Hin Hc Hp. apply ev_spec_print_from_source; [|exact Hp|].
  - apply args_okb_spec. pose proof evdescs_args_ok as E. rewrite forallb_forall in E. specialize (E _ Hin). cbn [fst snd] in E. rewrite Hc in E. exact E.
  - pose proof evdescs_desc_ok as E. rewrite forallb_forall in E. exact (E _ Hin).
Qed.

(* ------------------------------------------------------------------ what ovnidump prints, from the generated code *)
Definition st_init : wstate := mkW (mkO [] [] 0) [] [] [].
Definition gen_text (sp : spec) (desc : list Z) (pl : option (list Z)) : outcome :=
  match EvSpecWalk_gen.ev_spec_print (mkSpecw sp desc) (ev_of (norm_payload pl)) tt OUTLEN st_init with
  | OOk (_, st') => Ok (o_buf (w_o st'))
  | OErr e => if Nat.eqb e E_FAIL then Err else Unsupported
  end.

Theorem gen_text_render : forall m sig desc sp pl,
  In (m, sig, desc) Tables_gen.evdescs -> compile sig = Some sp -> payload_ok pl -> gen_text sp desc pl = render sp desc pl.
Proof.
  intros m sig desc sp pl Hin Hc Hp. pose proof (dump_print_from_source m sig desc sp pl st_init Hin Hc Hp) as D. unfold gen_text.
  destruct (render sp desc pl) as [t| |].
  - destruct D as (st' & -> & B & _). rewrite B. reflexivity.
  - rewrite D. reflexivity.
  - rewrite D. reflexivity.
Qed.

(* the finding dump-unknown-when-text-exceeds-1023, for the generated ev_spec_print: the 1024-byte buffer is the code's *)
Lemma long_label_computed_walk :
  match long_decl with
  | Some (m, sig, desc) =>
    match compile sig with
    | Some sp =>
      str_last (s_args sp) && vals_okb (map a_type (s_args sp)) long_label &&
      match gen_text sp desc (payload_of sp long_label) with Err => true | _ => false end
    | None => false
    end
  | None => false
  end = true.
Proof. vm_compute. reflexivity. Qed.

Theorem dump_unbounded_refuted_walk :
  exists m sig desc sp vals,
    In (m, sig, desc) Tables_gen.evdescs /\ compile sig = Some sp /\ str_last (s_args sp) = true /\
    vals_ok (map a_type (s_args sp)) vals /\ gen_text sp desc (payload_of sp vals) = Err.
Proof.
  pose proof long_label_computed_walk as H. unfold long_decl in H.
  destruct (find _ Tables_gen.evdescs) as [[[m sig] desc]|] eqn:E; [|discriminate H].
  apply find_some in E. destruct E as [Hin _].
  destruct (compile sig) as [sp|] eqn:C; [|discriminate H].
  apply andb_true_iff in H. destruct H as [H H3]. apply andb_true_iff in H. destruct H as [H1 H2].
  exists m, sig, desc, sp, long_label.
  split; [exact Hin|]. split; [exact C|]. split; [exact H1|]. split; [apply vals_okb_iff; exact H2|].
  destruct (gen_text sp desc (payload_of sp long_label)); try discriminate H3. reflexivity.
Qed.

(* examples: 6Yc with an empty label (seed C18-6), labels of 990 / 991 bytes, a payload that ends before the argument *)
Definition walk_dump (vals : list value) : outcome :=
  match compile sig_6Yc with Some sp => gen_text sp desc_Yc (payload_of sp vals) | None => Unsupported end.
Example ex_walk :
  walk_dump [VInt 7; VStr []] = Ok [99;114;101;97;116;101;115;32;116;97;115;107;32;116;121;112;101;32;55;32;119;105;116;104;32;108;97;98;101;108;32;34;34] /\
  (match walk_dump [VInt 7; VStr (repeat 65 990)] with Ok t => length t = 1023%nat | _ => False end) /\
  walk_dump [VInt 7; VStr (repeat 65 991)] = Err /\
  match compile sig_6Yc with Some sp => gen_text sp desc_Yc (Some [4; 0; 0; 0; 7; 0]) = Err | None => False end.
Proof. vm_compute. repeat split; reflexivity. Qed.

(* ------------------------------------------------------------------ model.c model_event_print *)
From OV Require Tools.EvSpecModelPre Gen.EvSpecModel_gen.

(* the table look-up in front of ev_spec_print: no table for the model byte or no entry for the MCV = refusal, otherwise
   exactly ev_spec_print of that entry *)
Theorem model_event_print_from_source : forall model ev buflen st,
  EvSpecModel_gen.model_event_print model ev tt buflen st =
  match EvSpecModelPre.assoc Z.eqb (EvSpecModelPre.me_m ev) model with
  | None => OErr E_FAIL
  | Some tbl =>
    match EvSpecModelPre.assoc list_eqb (EvSpecModelPre.me_mcv ev) tbl with
    | None => OErr E_FAIL
    | Some es =>
      match EvSpecWalk_gen.ev_spec_print es (EvSpecModelPre.me_ev ev) tt buflen st with
      | OOk (r, st') => if r <? 0 then OErr E_FAIL else OOk (0, st')
      | OErr e => OErr e
      end
    end
  end.
Proof.
  intros model ev buflen st. unfold EvSpecModel_gen.model_event_print, EvSpecModelPre.get_model_registered_at, EvSpecModelPre.get_model_spec_at,
    EvSpecModelPre.get_emu_ev_m, EvSpecModelPre.get_model_spec_evspec, EvSpecModelPre.model_evspec_find_c, EvSpecModelPre.get_emu_ev_mcv.
  destruct (EvSpecModelPre.assoc Z.eqb (EvSpecModelPre.me_m ev) model) as [tbl|]; [|reflexivity].
  change (negb (negb (1 =? 0))) with false. unfold ite at 1.
  destruct (EvSpecModelPre.assoc list_eqb (EvSpecModelPre.me_mcv ev) tbl) as [es|]; [|reflexivity].
  cbn [is_null]. unfold ite at 1. unfold bind, EvSpecModelPre.ev_spec_print.
  destruct (EvSpecWalk_gen.ev_spec_print es (EvSpecModelPre.me_ev ev) tt buflen st) as [[r st']|e]; [|reflexivity].
  unfold ite, fail, ret. destruct (r <? 0); reflexivity.
Qed.
