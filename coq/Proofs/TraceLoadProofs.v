(* C03, unit traceload: what the generated trace.c:trace_load (coq/Gen/TraceLoad_gen.v) computes.

   trace_load_spec is a closed form in the environment of Emu/TraceLoadPre.v (what nftw visits, what
   stream_load reads): the streams the trace ends with are PlayerDefs.sort_streams of the stream
   directories in the order nftw met their stream.json, so by PlayerProofs.sort_streams_enum_independent
   the list the player gets does not depend on the order of the walk. *)
From Coq Require Import ZArith List Bool Lia Permutation.
From OV Require Import Base.CInt Emu.CmpPre Emu.PlayerDefs Emu.TraceLoadPre Gen.TraceLoad_gen.
From OV Require Gen.Cmp_player_gen Proofs.CmpPlayerProofs Proofs.PlayerProofs.
Import ListNotations.
Local Open Scope Z_scope.

Definition stream_json : cstr := [115; 116; 114; 101; 97; 109; 46; 106; 115; 111; 110].   (* "stream.json" *)
Definition filename_of (p : cstr) : cstr := rev (take_while (fun c => negb (is_slash c)) (rev p)).

(* a visited entry that cb_nftw hands to load_stream: a regular file called stream.json *)
Definition is_stream_file (e : cstr * Z) : bool :=
  (snd e =? c_FTW_F) && (strcmp (filename_of (fst e)) stream_json =? 0).

(* load_stream on one such entry *)
Definition load_one (sx : tenv) (d : cstr) (e : cstr * Z) : option (list Z * strm) :=
  if Z.of_nat (length (fst e)) >=? 4096 then None
  else match x_stream sx d (relpath_of d (fst e)) with
       | None => None
       | Some s => Some (relpath_of d (fst e), s)
       end.

(* what a walk loads, in the order of the walk; None when one load_stream fails *)
Fixpoint enum_of (sx : tenv) (d : cstr) (l : list (cstr * Z)) : option (list (list Z * strm)) :=
  match l with
  | [] => Some []
  | e :: t =>
    if is_stream_file e then
      match load_one sx d e with
      | None => None
      | Some x => match enum_of sx d t with Some r => Some (x :: r) | None => None end
      end
    else enum_of sx d t
  end.

Definition trace_load_spec (sx : tenv) (dir0 : cstr) : option tstate :=
  if Z.of_nat (length dir0) >=? 4096 then None
  else let d := path_remove_trailing_v dir0 in
       if negb (x_open sx d) then None
       else if negb (x_close sx) then None
       else match x_walk sx d with
            | None => None
            | Some l => match enum_of sx d l with
                        | None => None
                        | Some en => Some (mk_tstate d (sort_streams en) (Z.of_nat (length en)) None)
                        end
            end.

Lemma cb_step sx d acc n p f :
  cb_nftw p (Some tt) f (Some tt) sx (mk_tstate d acc n (Some tt)) =
  if is_stream_file (p, f) then load_stream (Some tt) p sx (mk_tstate d acc n (Some tt))
  else Ok tt (mk_tstate d acc n (Some tt)).
Proof.
  unfold cb_nftw, is_stream_file, ite, need, bind, eval, ret, is_stream_safe, is_stream, strcmp_lit,
    path_filename, filename_of, stream_json, get_global_cur_trace.
  cbn [fst snd t_cur].
  destruct (f =? c_FTW_F); cbn [negb andb]; [|reflexivity].
  destruct (strcmp _ _ =? 0); reflexivity.
Qed.

Lemma walk_cb sx d l : forall acc n,
  walk cb_nftw l sx (mk_tstate d acc n (Some tt)) =
  match enum_of sx d l with
  | Some en => Ok tt (mk_tstate d (acc ++ en) (n + Z.of_nat (length en)) (Some tt))
  | None => Err E_FAIL
  end.
Proof.
  induction l as [|[p f] t IH]; intros acc n.
  - cbn [walk enum_of length]. unfold ret. rewrite app_nil_r. f_equal. f_equal. cbn. lia.
  - cbn [walk enum_of]. unfold bind_, bind. rewrite cb_step.
    destruct (is_stream_file (p, f)); [|apply IH].
    unfold load_stream, load_one. cbn [fst t_dir t_streams t_n t_cur].
    destruct (Z.of_nat (length p) >=? 4096); [reflexivity|].
    destruct (x_stream sx d (relpath_of d p)) as [s|]; [|reflexivity].
    rewrite IH. destruct (enum_of sx d t) as [r|]; [|reflexivity].
    rewrite <- app_assoc. cbn [app length]. f_equal. f_equal. lia.
Qed.

Theorem trace_load_from_source sx st0 dir0 :
  trace_load (Some tt) dir0 sx st0 =
  match trace_load_spec sx dir0 with Some st' => Ok tt st' | None => Err E_FAIL end.
Proof.
  unfold trace_load, trace_load_spec, bind_, bind, zero_trace, set_global_cur_trace, str_copy_trace_tracedir,
    need, set_trace_tracedir, eval, opendir, ite, closedir, nftw, dl_sort_streams, get_trace_tracedir, fail, ret.
  cbn [is_null negb t_dir t_streams t_n t_cur].
  destruct (Z.of_nat (length dir0) >=? 4096); [reflexivity|].
  cbn [is_null negb t_dir t_streams t_n t_cur].
  destruct (x_open sx (path_remove_trailing_v dir0)); cbn [is_null negb]; [|reflexivity].
  destruct (x_close sx); cbn [negb]; [|reflexivity].
  destruct (x_walk sx (path_remove_trailing_v dir0)) as [l|]; [|reflexivity].
  rewrite walk_cb. destruct (enum_of sx (path_remove_trailing_v dir0) l) as [en|]; [|reflexivity].
  cbn [app t_dir t_streams t_n t_cur]. reflexivity.
Qed.

(* ------------------------------------------------------------------ the order *)

Theorem trace_order_from_source sx st0 dir0 st1 :
  trace_load (Some tt) dir0 sx st0 = Ok tt st1 ->
  exists l en,
    t_dir st1 = path_remove_trailing_v dir0 /\
    x_walk sx (t_dir st1) = Some l /\ enum_of sx (t_dir st1) l = Some en /\
    t_streams st1 = sort_streams en /\
    t_streams st1 = fold_right CmpPlayerProofs.ins_stream_src [] en /\
    t_n st1 = Z.of_nat (length en) /\ t_cur st1 = None.
Proof.
  rewrite trace_load_from_source. unfold trace_load_spec.
  destruct (Z.of_nat (length dir0) >=? 4096); [discriminate|].
  destruct (negb (x_open sx _)); [discriminate|].
  destruct (negb (x_close sx)); [discriminate|].
  destruct (x_walk sx _) as [l|] eqn:W; [|discriminate].
  destruct (enum_of sx _ l) as [en|] eqn:E; [|discriminate].
  intro H. injection H as <-. exists l, en. cbn [t_dir t_streams t_n t_cur].
  rewrite <- CmpPlayerProofs.sort_streams_from_source. repeat split; assumption.
Qed.

Lemma enum_of_perm sx d l l' :
  Permutation l l' -> forall en, enum_of sx d l = Some en ->
  exists en', enum_of sx d l' = Some en' /\ Permutation en en'.
Proof.
  induction 1 as [|e t t' P IH|e1 e2 t|l1 l2 l3 P1 IH1 P2 IH2]; intros en.
  - cbn. intros [= <-]. exists []. split; [reflexivity|constructor].
  - cbn [enum_of]. destruct (is_stream_file e).
    + destruct (load_one sx d e) as [x|]; [|discriminate].
      destruct (enum_of sx d t) as [r|] eqn:E; [|discriminate].
      intros [= <-]. destruct (IH r eq_refl) as (r' & E' & Pr). rewrite E'.
      exists (x :: r'). split; [reflexivity|now constructor].
    + apply IH.
  - cbn [enum_of].
    destruct (is_stream_file e1), (is_stream_file e2);
      destruct (load_one sx d e1) as [x1|]; destruct (load_one sx d e2) as [x2|];
      destruct (enum_of sx d t) as [r|]; try discriminate; intros [= <-];
      eexists; (split; [reflexivity|]); try apply Permutation_refl; apply perm_swap.
  - intros E. destruct (IH1 en E) as (en2 & E2 & Q1). destruct (IH2 en2 E2) as (en3 & E3 & Q2).
    exists en3. split; [exact E3|]. eapply perm_trans; eassumption.
Qed.

(* two file systems that differ only in the order nftw walks them: trace_load ends in the same trace
   (distinct stream directories have distinct relative paths: the NoDup) *)
Definition same_but_walk_order (sx sx' : tenv) : Prop :=
  x_open sx = x_open sx' /\ x_close sx = x_close sx' /\ x_stream sx = x_stream sx' /\
  forall d, match x_walk sx d, x_walk sx' d with
            | Some l, Some l' => Permutation l l'
            | None, None => True
            | _, _ => False
            end.

Theorem trace_load_walk_order_independent sx sx' dir0 st0 st0' st1 :
  same_but_walk_order sx sx' ->
  trace_load (Some tt) dir0 sx st0 = Ok tt st1 ->
  NoDup (map fst (t_streams st1)) ->
  trace_load (Some tt) dir0 sx' st0' = Ok tt st1.
Proof.
  intros (Ho & Hc & Hs & Hw). rewrite !trace_load_from_source. unfold trace_load_spec.
  rewrite <- Ho, <- Hc.
  destruct (Z.of_nat (length dir0) >=? 4096); [discriminate|].
  destruct (negb (x_open sx _)); [discriminate|].
  destruct (negb (x_close sx)); [discriminate|].
  specialize (Hw (path_remove_trailing_v dir0)).
  destruct (x_walk sx _) as [l|]; [|discriminate].
  destruct (x_walk sx' _) as [l'|]; [|contradiction].
  destruct (enum_of sx _ l) as [en|] eqn:E; [|discriminate].
  intro H. injection H as <-. cbn [t_streams]. intro Hn.
  destruct (enum_of_perm sx _ l l' Hw en E) as (en' & E' & P).
  assert (X : enum_of sx' (path_remove_trailing_v dir0) l' = Some en').
  { rewrite <- E'. clear - Hs. induction l' as [|e t IH]; [reflexivity|].
    cbn [enum_of]. unfold load_one. rewrite <- Hs, IH. reflexivity. }
  rewrite X. f_equal. f_equal.
  - apply PlayerProofs.sort_streams_enum_independent; [apply Permutation_sym, P|].
    eapply Permutation_NoDup; [|exact Hn]. apply Permutation_map.
    eapply perm_trans; [apply PlayerProofs.sort_streams_perm|exact P].
  - now rewrite (Permutation_length P).
Qed.

(* ------------------------------------------------------------------ examples *)
Module TraceLoadExamples.
  Definition s (x : Z) : cstr := [x].
  (* "t/" ; files t/b/stream.json, t/a/stream.json, t/a/x.obs, directory t/a *)
  Definition tdir : cstr := [116; 47].
  Definition pth (c : Z) : cstr := [116; 47; c; 47] ++ stream_json.
  Definition env1 : tenv :=
    mk_tenv (fun _ => true) true
      (fun _ => Some [([116; 47; 97], 1); (pth 98, 0); (pth 97, 0); ([116; 47; 97; 47; 120], 0)])
      (fun _ rel => Some (mkstrm 0 [])).
  Definition st0 : tstate := mk_tstate [1] [] 7 None.
  Example loads_sorted :
    match trace_load (Some tt) tdir env1 st0 with
    | Ok _ st => (t_dir st, map fst (t_streams st), t_n st, t_cur st) = ([116], [[97]; [98]], 2, None)
    | Err _ => False
    end.
  Proof. vm_compute. reflexivity. Qed.
  Example open_fails :
    trace_load (Some tt) tdir (mk_tenv (fun _ => false) true (fun _ => Some []) (fun _ _ => None)) st0 = Err E_FAIL.
  Proof. vm_compute. reflexivity. Qed.
  Example stream_fails :
    trace_load (Some tt) tdir (mk_tenv (fun _ => true) true (x_walk env1) (fun _ _ => None)) st0 = Err E_FAIL.
  Proof. vm_compute. reflexivity. Qed.
End TraceLoadExamples.
