(* C02, second half, runtime side: what the disk file of a conformant emulator-ready program holds.
   The file written by `ops; ovni_flush(); ovni_thread_free()` (repaired add_flush_events) is the
   stream header followed by the encodings of well-formed events with non-decreasing clocks below
   2^63 and sizes below 2^31, every event has a kind, and the sequence of kinds satisfies the
   discipline kinds_ready under which the emulator core accepts it.  The proof reuses the abstract
   machinery of Proofs/RtBufProofs.v (Trans / AStep / ASteps, Inv1, Inv2): no byte-level reasoning. *)
From Coq Require Import ZArith List Bool Lia ZifyBool.
From OV Require Import Base.CInt Rt.CodecPre Gen.Codec_gen Rt.CodecDefs Rt.RtBufDefs Proofs.CodecProofs Proofs.RtBufProofs Rt.RtEmuDefs.
Import ListNotations.
Local Open Scope Z_scope.

(* ------------------------------------------------------------------ kinds of single events *)

Lemma uev_kind_clock j m c v t d : uev_kind (mkU j m c v t d) = uev_kind (mkU j m c v 0 d).
Proof. unfold uev_kind, payload_of. cbn [u_jumbo u_m u_c u_v u_data]. reflexivity. Qed.

(* a flush event has kind KFlush according to its value; any other event with a kind has another kind *)
Lemma uev_kind_flush e k :
  uev_kind e = Some k ->
  if is_flush_ev e
  then (u_v e = 91 /\ k = KFlush true) \/ (u_v e = 93 /\ k = KFlush false)
  else is_kflush k = false.
Proof.
  intros H. unfold uev_kind in H. cbv zeta in H. unfold is_flush_ev, c_O, c_F.
  destruct (u_m e =? 79) eqn:Em; cbn [negb andb] in *; [|discriminate].
  destruct (u_c e =? 72) eqn:E72.
  { replace (u_c e =? 70) with false by lia.
    repeat match type of H with (if ?c then _ else _) = _ => destruct c end;
      try discriminate; inversion H; reflexivity. }
  destruct ((u_c e =? 66) || (u_c e =? 85)) eqn:E66.
  { replace (u_c e =? 70) with false by lia. inversion H; reflexivity. }
  destruct (u_c e =? 67) eqn:E67.
  { replace (u_c e =? 70) with false by lia.
    destruct (u_v e =? 110); [inversion H; reflexivity | discriminate]. }
  destruct (u_c e =? 70) eqn:E70.
  { destruct (u_v e =? 91) eqn:E91; [inversion H; left; split; [lia | reflexivity]|].
    destruct (u_v e =? 93) eqn:E93; [inversion H; right; split; [lia | reflexivity] | discriminate]. }
  destruct (u_c e =? 77) eqn:E77; [|discriminate].
  repeat match type of H with (if ?c then _ else _) = _ => destruct c end;
    try discriminate; inversion H; reflexivity.
Qed.

Lemma marker_kind e : is_markerb e = true -> exists b, uev_kind e = Some (KFlush b).
Proof.
  unfold is_markerb, c_O, c_F, c_LB, c_RB. intros H.
  apply andb_prop in H. destruct H as [H _].
  apply andb_prop in H. destruct H as [H Hv].
  apply andb_prop in H. destruct H as [H Hc].
  apply andb_prop in H. destruct H as [_ Hm].
  unfold uev_kind. cbv zeta. rewrite Hm. cbn [negb].
  replace (u_c e =? 72) with false by lia.
  replace (u_c e =? 66) with false by lia.
  replace (u_c e =? 85) with false by lia.
  replace (u_c e =? 67) with false by lia. cbn [orb]. rewrite Hc.
  destruct (u_v e =? 91) eqn:E91; [exists true; reflexivity|].
  replace (u_v e =? 93) with true by lia. exists false; reflexivity.
Qed.

(* ------------------------------------------------------------------ kinds of lists *)

Lemma uevs_kinds_app a : forall b,
  uevs_kinds (a ++ b) =
  match uevs_kinds a, uevs_kinds b with Some x, Some y => Some (x ++ y) | _, _ => None end.
Proof.
  induction a as [|e a IH]; intros b; cbn [app uevs_kinds].
  - destruct (uevs_kinds b); reflexivity.
  - rewrite IH. destruct (uev_kind e); [|reflexivity].
    destruct (uevs_kinds a); [|reflexivity]. destruct (uevs_kinds b); reflexivity.
Qed.

Definition nfl (k : kind) : bool := negb (is_kflush k).

Lemma filter_nfl_id ks : Forall (fun k => is_kflush k = false) ks -> filter nfl ks = ks.
Proof.
  induction 1 as [|k ks Hk _ IH]; cbn [filter]; [reflexivity|].
  unfold nfl at 1. rewrite Hk. cbn [negb]. rewrite IH. reflexivity.
Qed.

Lemma kinds_scan_filter ms cpus ks : forall s,
  kinds_scan ms cpus s ks = kinds_scan ms cpus s (filter nfl ks).
Proof.
  induction ks as [|k ks IH]; intros s; [reflexivity|].
  destruct k; cbn [filter nfl is_kflush negb kinds_scan].
  - destruct (kind_step ms cpus s (KOh e)); [apply IH | reflexivity].
  - destruct (kind_step ms cpus s KNop); [apply IH | reflexivity].
  - cbn [kind_step]. apply IH.
  - destruct (kind_step ms cpus s (KMark a ty v)); [apply IH | reflexivity].
Qed.

Lemma main_ok_filter ms cpus lint ks : main_ok ms cpus lint ks = main_ok ms cpus lint (filter nfl ks).
Proof. unfold main_ok. rewrite <- kinds_scan_filter. reflexivity. Qed.

(* flush pairing of the events gives flush pairing of the kinds *)
Lemma kflush_of_flush_scan es : forall ks inside b,
  uevs_kinds es = Some ks -> flush_scan inside es = Some b -> kflush_scan inside ks = Some b.
Proof.
  induction es as [|e es IH]; intros ks inside b K F.
  - cbn [uevs_kinds] in K. inversion K; subst ks. cbn [flush_scan] in F. exact F.
  - cbn [uevs_kinds] in K.
    destruct (uev_kind e) as [k|] eqn:Ek; [|discriminate].
    destruct (uevs_kinds es) as [ks'|] eqn:Eks; [|discriminate].
    inversion K; subst ks; clear K.
    pose proof (uev_kind_flush e k Ek) as C.
    cbn [flush_scan] in F. unfold c_LB, c_RB in F.
    destruct (is_flush_ev e).
    + destruct C as [[Hv ->] | [Hv ->]].
      * replace (u_v e =? 91) with true in F by lia.
        cbn [kflush_scan]. destruct inside; [discriminate|]. apply (IH ks' true b eq_refl F).
      * replace (u_v e =? 91) with false in F by lia.
        replace (u_v e =? 93) with true in F by lia.
        cbn [kflush_scan]. destruct inside; [|discriminate]. apply (IH ks' false b eq_refl F).
    + specialize (IH ks' inside b eq_refl F).
      destruct k; cbn [is_kflush] in C; try discriminate; cbn [kflush_scan]; exact IH.
Qed.

(* ------------------------------------------------------------------ kinds of API calls *)

Lemma op_kinds_ev o ks t e :
  op_kinds o = Some ks -> ev_of o t = Some e ->
  exists k, ks = [k] /\ uev_kind e = Some k /\ is_kflush k = false.
Proof.
  destruct o; cbn [op_kinds op_uev ev_of]; intros H E; try discriminate;
    inversion E; subst e; clear E; rewrite uev_kind_clock;
    (destruct (uev_kind _) as [k|]; [|discriminate]);
    (destruct (is_kflush k) eqn:Ek; [discriminate|]);
    inversion H; subst ks; exists k; repeat split; assumption.
Qed.

Lemma op_kinds_flags o ks :
  op_kinds o = Some ks ->
  is_free o = false /\ user_flush_free o = true /\ Forall (fun k => is_kflush k = false) ks.
Proof.
  intros H.
  assert (G : forall e, ev_of o 0 = Some e -> is_flush_ev e = false /\ Forall (fun k => is_kflush k = false) ks).
  { intros e E. destruct (op_kinds_ev o ks 0 e H E) as (k & -> & Ek & Nk).
    split; [|repeat constructor; exact Nk].
    pose proof (uev_kind_flush e k Ek) as C. destruct (is_flush_ev e); [|reflexivity].
    destruct C as [[_ ->] | [_ ->]]; discriminate. }
  destruct o; cbn [op_kinds] in H; try discriminate; cbn [is_free user_flush_free].
  - destruct (G _ eq_refl) as [F K]. unfold is_flush_ev in F. cbn [u_m u_c] in F. rewrite F. repeat split. exact K.
  - destruct (G _ eq_refl) as [F K]. unfold is_flush_ev in F. cbn [u_m u_c] in F. rewrite F. repeat split. exact K.
  - inversion H; subst ks. repeat split. constructor.
  - destruct (G _ eq_refl) as [_ K]. repeat split. exact K.
  - destruct (G _ eq_refl) as [_ K]. repeat split. exact K.
  - destruct (G _ eq_refl) as [_ K]. repeat split. exact K.
Qed.

Lemma ops_kinds_flags ops : forall uks,
  ops_kinds ops = Some uks ->
  existsb is_free ops = false /\ forallb user_flush_free ops = true /\
  Forall (fun k => is_kflush k = false) uks.
Proof.
  induction ops as [|o ops IH]; intros uks H; cbn [ops_kinds] in H.
  - inversion H; subst uks. repeat split. constructor.
  - destruct (op_kinds o) as [k1|] eqn:E1; [|discriminate].
    destruct (ops_kinds ops) as [k2|] eqn:E2; [|discriminate].
    inversion H; subst uks; clear H.
    destruct (op_kinds_flags o k1 E1) as (A1 & A2 & A3).
    destruct (IH k2 eq_refl) as (B1 & B2 & B3).
    cbn [existsb forallb]. rewrite A1, A2, B1, B2. repeat split.
    apply Forall_app. split; assumption.
Qed.

Lemma ops_kinds_snoc_flush ops : forall uks,
  ops_kinds ops = Some uks -> ops_kinds (ops ++ [Flush]) = Some uks.
Proof.
  induction ops as [|o ops IH]; intros uks H; cbn [app ops_kinds] in *.
  - inversion H; subst uks. reflexivity.
  - destruct (op_kinds o) as [k1|]; [|discriminate].
    destruct (ops_kinds ops) as [k2|]; [|discriminate].
    rewrite (IH k2 eq_refl). exact H.
Qed.

(* the log of a run has the kinds of the program *)
Lemma AStep_log_kinds fx o x y k1 l0 :
  AStep fx o x y -> op_kinds o = Some k1 -> uevs_kinds (snd x) = Some l0 ->
  uevs_kinds (snd y) = Some (l0 ++ k1).
Proof.
  intros A K L. inversion A; subst; clear A; cbn [snd] in *.
  - destruct (op_kinds_ev o k1 t e K H) as (k & -> & Ek & _).
    rewrite uevs_kinds_app, L. cbn [uevs_kinds]. rewrite Ek. reflexivity.
  - cbn [op_kinds] in K. inversion K; subst k1. rewrite app_nil_r. exact L.
Qed.

Lemma ASteps_log_kinds fx ops x y :
  ASteps fx ops x y -> forall uks l0, ops_kinds ops = Some uks -> uevs_kinds (snd x) = Some l0 ->
  uevs_kinds (snd y) = Some (l0 ++ uks).
Proof.
  induction 1 as [|o ops x y z A _ IH]; intros uks l0 K L; cbn [ops_kinds] in K.
  - inversion K; subst uks. rewrite app_nil_r. exact L.
  - destruct (op_kinds o) as [k1|] eqn:E1; [|discriminate].
    destruct (ops_kinds ops) as [k2|] eqn:E2; [|discriminate].
    inversion K; subst uks; clear K.
    rewrite app_assoc. apply (IH k2 (l0 ++ k1) eq_refl).
    eapply AStep_log_kinds; eassumption.
Qed.

(* the kinds of a tagged list: those of its user events interleaved with KFlush for the library's *)
Lemma tagged_kinds l : forall uks,
  Forall lib_ok l -> uevs_kinds (map snd (filter is_user l)) = Some uks ->
  exists ks, uevs_kinds (map snd l) = Some ks /\ filter nfl ks = filter nfl uks.
Proof.
  induction l as [|[tg e] l IH]; intros uks L K.
  - cbn [filter map uevs_kinds] in *. inversion K; subst uks. exists []. split; reflexivity.
  - apply Forall_cons_iff in L. destruct L as [L1 L2]. destruct tg.
    + cbn [filter is_user fst map snd uevs_kinds] in K.
      destruct (uev_kind e) as [k|] eqn:Ek; [|discriminate].
      destruct (uevs_kinds (map snd (filter is_user l))) as [uks'|] eqn:Eu; [|discriminate].
      inversion K; subst uks; clear K.
      destruct (IH uks' L2 eq_refl) as (ks & K1 & K2).
      exists (k :: ks). cbn [map snd uevs_kinds]. rewrite Ek, K1. split; [reflexivity|].
      cbn [filter]. rewrite K2. reflexivity.
    + cbn [filter is_user fst] in K.
      destruct (IH uks L2 K) as (ks & K1 & K2).
      destruct (marker_kind e (L1 eq_refl)) as [b Eb].
      exists (KFlush b :: ks). cbn [map snd uevs_kinds]. rewrite Eb, K1. split; [reflexivity|].
      cbn [filter nfl is_kflush negb]. exact K2.
Qed.

(* ------------------------------------------------------------------ a generic invariant of runs *)

Section Generic.
  Variable Pc : Z -> Prop.
  Variable Q : uev -> Prop.
  Hypothesis Q_marker : forall v t, (v = c_LB \/ v = c_RB) -> Pc t -> Q (marker_ev v t).

  Definition InvQ (st : astate * list uev) : Prop :=
    let '((dl, bl, c), _) := st in Forall Q (map snd (dl ++ bl)) /\ Forall Pc c.

  Lemma libs_Q pre libs : Forall Pc pre -> Forall (is_lib_marker pre) libs -> Forall Q (map snd libs).
  Proof.
    intros Hp H. induction H as [|x libs (v & t & -> & Hv & Ht) _ IH]; cbn [map snd]; constructor.
    - apply Q_marker; [exact Hv|]. rewrite Forall_forall in Hp. apply Hp. exact Ht.
    - exact IH.
  Qed.

  Lemma Trans_Q fx e dl bl r dl' bl' r' :
    Trans fx (User, e) (dl, bl, r) (dl', bl', r') ->
    Q e -> Forall Q (map snd (dl ++ bl)) -> Forall Pc r ->
    Forall Q (map snd (dl' ++ bl')) /\ Forall Pc r'.
  Proof.
    intros T Qe Ql Pr.
    destruct (Trans_shape _ _ _ _ _ _ _ _ T) as (libs & pre & E1 & E2 & LM).
    rewrite E2 in Pr. apply Forall_app in Pr. destruct Pr as [Ppre Pr'].
    split; [|exact Pr'].
    rewrite E1, map_app. apply Forall_app. split; [exact Ql|].
    cbn [map snd]. constructor; [exact Qe|]. apply (libs_Q pre); assumption.
  Qed.

  Lemma ASteps_Q fx ops x y :
    ASteps fx ops x y ->
    Forall (fun o => forall t e, Pc t -> ev_of o t = Some e -> Q e) ops ->
    InvQ x -> InvQ y.
  Proof.
    induction 1 as [|o ops x y z A _ IH]; intros HO I; [exact I|].
    apply Forall_cons_iff in HO. destruct HO as [HO1 HO2].
    apply IH; [exact HO2|]. clear IH.
    inversion A; subst; clear A; unfold InvQ in *.
    - destruct I as [Ql Pr]. apply Forall_cons_iff in Pr. destruct Pr as [Pt Pr].
      eapply Trans_Q; try eassumption. eapply HO1; eassumption.
    - destruct I as [Ql Pr].
      apply Forall_cons_iff in Pr. destruct Pr as [P0 Pr].
      apply Forall_cons_iff in Pr. destruct Pr as [P1 Pr].
      split; [|exact Pr].
      rewrite map_app. apply Forall_app. split; [exact Ql|].
      cbn [map snd OFb OFe]. repeat constructor; apply Q_marker; auto.
  Qed.
End Generic.

(* clocks below 2^63 and sizes below 2^31 *)
Definition Pc63 (t : Z) : Prop := t < 2 ^ 63.
Definition Qsz (e : uev) : Prop := u_clock e < 2 ^ 63 /\ esize e <= 2147483647.

Lemma Qsz_marker v t : (v = c_LB \/ v = c_RB) -> Pc63 t -> Qsz (marker_ev v t).
Proof.
  intros _ Ht. unfold Qsz, marker_ev, esize, HEADER_SIZE. cbn [u_clock u_jumbo u_data].
  rewrite zlength_nil. split; [exact Ht | lia].
Qed.

Lemma Qsz_ev cap o t e :
  cap <= 2 ^ 31 -> api_okb cap o = true -> Pc63 t -> ev_of o t = Some e -> Qsz e.
Proof.
  intros Hcap AO Ht E.
  assert (MK : forall v ty va, Qsz (mkU false c_O c_M v t (concat (mark_payload ty va)))).
  { intros v ty va. unfold Qsz, esize, HEADER_SIZE. cbn [u_clock u_jumbo u_data].
    split; [exact Ht|].
    pose proof (mark_chunks_ok ty va) as C. apply chunks_ok_len in C. lia. }
  destruct o; cbn [ev_of] in E; inversion E; subst e; clear E; cbn [api_okb] in AO; try apply MK.
  - unfold Qsz, esize, HEADER_SIZE. cbn [u_clock u_jumbo u_data]. split; [exact Ht|].
    apply chunks_ok_len in AO. lia.
  - unfold Qsz, esize, HEADER_SIZE. cbn [u_clock u_jumbo u_data]. split; [exact Ht|]. lia.
Qed.

(* ------------------------------------------------------------------ the last call was ovni_flush() *)

Lemma last_flush fx ops : forall x dl bl c lg,
  ASteps fx (ops ++ [Flush]) x ((dl, bl, c), lg) ->
  exists dl0 bl0 t0 t1, dl = dl0 ++ bl0 /\ bl = [OFb t0; OFe t1].
Proof.
  induction ops as [|o ops IH]; intros x dl bl c lg AS; cbn [app] in AS.
  - inversion AS as [|? ? ? y ? A1 A2]; subst. inversion A2; subst. inversion A1; subst.
    + cbn [ev_of] in *. discriminate.
    + eexists _, _, _, _. split; reflexivity.
  - inversion AS; subst. eapply IH. eassumption.
Qed.

(* ------------------------------------------------------------------ the theorem *)

Theorem disk_kinds : forall cap ops clock s log ms cpus lint,
  64 <= cap -> cap <= 2 ^ 31 ->
  forallb op_wfb ops = true -> clock_okb clock = true -> clock_i63b clock = true ->
  emu_ready ms cpus lint ops = true ->
  RtBufDefs.run true cap (ops ++ [Flush; Free]) clock = ROk (s, log) ->
  exists es ks,
    disk_bytes s = STREAM_HEADER ++ flat_map encode es /\
    Forall wf_uev es /\
    Forall (fun e => u_clock e < 2 ^ 63) es /\
    Forall (fun e => esize e <= 2147483647) es /\
    sortedb (map u_clock es) = true /\
    uevs_kinds es = Some ks /\
    kinds_ready ms cpus lint ks = true.
Proof.
  intros cap ops clock s log ms cpus lint Hcap Hcap2 WF CK C63 ER H.
  unfold emu_ready in ER. destruct (ops_kinds ops) as [uks|] eqn:OK; [|discriminate].
  destruct (ops_kinds_flags ops uks OK) as (NF & UF & NK).
  destruct (clock_ok_parts clock CK) as [CU CS].
  unfold RtBufDefs.run in H.
  replace (ops ++ [Flush; Free]) with ((ops ++ [Flush]) ++ [Free]) in H by (rewrite <- app_assoc; reflexivity).
  rewrite run_from_app in H.
  destruct (RtBufDefs.run_from true cap (ops ++ [Flush]) (thread_init clock, [])) as [[s1 log1]| | |] eqn:E1; try discriminate.
  cbn [rbind RtBufDefs.run_from RtBufDefs.step] in H.
  assert (WF' : forallb op_wfb (ops ++ [Flush]) = true) by (rewrite forallb_app, WF; reflexivity).
  assert (NF' : existsb is_free (ops ++ [Flush]) = false) by (rewrite existsb_app, NF; reflexivity).
  assert (UF' : forallb user_flush_free (ops ++ [Flush]) = true) by (rewrite forallb_app, UF; reflexivity).
  destruct (run_summary true cap (ops ++ [Flush]) clock s1 log1 Hcap WF' NF' CU E1) as (AO & dl & bl & RL & AS & I1).
  assert (I2 : Inv2 (dl, bl, clk s1)).
  { apply (Inv2_steps _ _ _ AS UF'). unfold Inv2. cbn [fst app map]. repeat split. exact CS. }
  assert (IQ : InvQ Pc63 Qsz ((dl, bl, clk s1), log1)).
  { apply (ASteps_Q Pc63 Qsz Qsz_marker _ _ _ _ AS).
    - rewrite forallb_forall in AO. apply Forall_forall. intros o Ho t e Pt Ee.
      apply (Qsz_ev cap o t e Hcap2 (AO o Ho) Pt Ee).
    - unfold InvQ. split; [constructor|].
      unfold clock_i63b in C63. rewrite forallb_forall in C63. apply Forall_forall.
      intros t Ht. specialize (C63 t Ht). unfold Pc63. lia. }
  pose proof (ASteps_log_kinds _ _ _ _ AS uks [] (ops_kinds_snoc_flush ops uks OK) eq_refl) as LK.
  cbn [snd app] in LK.
  destruct (last_flush _ _ _ _ _ _ _ AS) as (dl0 & bl0 & t0 & t1 & -> & ->).
  set (dl := dl0 ++ bl0) in *.
  destruct RL as (R & D & _). unfold thread_free in H. rewrite R in H. cbn [negb rbind] in H.
  inversion H; subst s log; clear H.
  change (disk_bytes (mkRt false 0 [] (wr s1) (clk s1))) with (disk_bytes s1).
  destruct I1 as (U & L & W & _).
  destruct I2 as (S2 & FD & _).
  destruct IQ as (QL & _).
  (* restrict everything to the disk list *)
  rewrite filter_app, map_app in U. cbn [filter is_user fst OFb OFe map app] in U. rewrite app_nil_r in U.
  apply Forall_app in L. destruct L as [L _].
  rewrite map_app in W. apply Forall_app in W. destruct W as [W _].
  rewrite map_app in QL. apply Forall_app in QL. destruct QL as [QL _].
  apply sortedZ_app in S2. destruct S2 as (S2 & _ & _).
  rewrite map_app in S2. apply sortedZ_app in S2. destruct S2 as (S2 & _ & _).
  rewrite <- U in LK.
  destruct (tagged_kinds dl uks L LK) as (ks & K1 & K2).
  rewrite (filter_nfl_id uks NK) in K2.
  exists (map snd dl), ks.
  split; [exact D|].
  split; [exact W|].
  split; [eapply Forall_impl; [|exact QL]; intros e [A _]; exact A|].
  split; [eapply Forall_impl; [|exact QL]; intros e [_ A]; exact A|].
  split.
  { rewrite map_map. change (fun x : tag * uev => u_clock (snd x)) with uclk. apply sortedZ_sortedb. exact S2. }
  split; [exact K1|].
  unfold kinds_ready.
  rewrite (kflush_of_flush_scan (map snd dl) ks false false K1 FD).
  rewrite main_ok_filter, K2. exact ER.
Qed.

