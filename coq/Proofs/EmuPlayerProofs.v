(* The emulator's main loop (Gen/EmuLoop_gen.v, unit emuloop: emu.c `while ((ret = emu_step(&emu)) == 0)`) against the
   player regenerated from the source (Gen/Stepper_gen.v, unit stepper).

   In EmuLoopPre.v `player_step` is a PRIMITIVE: PlayerDefs.pstep on the model player state es_player.  In
   StepperPre.v the same C function is translated and acts on the byte-level state (streams + struct player).  The
   two states are related by the simulation invariant of Proofs/StepperProofs.v: PlayerRel below.  Under it the
   events the generated emu loop gets from its player_step are, clock for clock, the events the generated
   player_step hands to emu_ev, and both are PlayerDefs.run's. *)
From Coq Require Import ZArith List Bool Lia.
From OV Require Import Base.CInt Emu.EmuCoreDefs.
From OV Require Emu.PlayerDefs Emu.PvDefs Emu.EmuLoopPre Emu.EmuLoopRelDefs Gen.EmuLoop_gen Proofs.EmuLoopProofs.
From OV Require Emu.StepperPre Proofs.StepperProofs.
Import ListNotations.
Local Open Scope Z_scope.

Module PL := PlayerDefs.
Module EP := EmuLoopPre.
Module ER := EmuLoopRelDefs.
Module EL := EmuLoopProofs.
Module SP := StepperPre.
Module SS := StepperProofs.

(* the events player_step delivered to the iterations of the loop (player_ev after each emu_step that returned 0) *)
Fixpoint emu_trace (fuel : nat) (sx : EP.eenv) (st : EP.estate) : list PL.oev :=
  match fuel with
  | O => []
  | S f =>
    match EmuLoop_gen.emu_step tt sx st with
    | Err _ => []
    | Ok (r, st') =>
      if r =? 0 then match EP.es_pev st' with Some e => e :: emu_trace f sx st' | None => emu_trace f sx st' end
      else []
    end
  end.

(* on a run that emu.c completes, the loop saw exactly the events PlayerDefs.ploop delivers *)
Theorem emu_trace_is_ploop fuel : forall sx st cst oevs,
  PL.ploop true (EP.en_offs sx) fuel (EP.es_player st) = (oevs, PL.VOk) ->
  (forall e, In e oevs -> EP.en_lpt sx (PL.o_id e) <> None /\ 0 <= ER.model_of sx e < 256) ->
  ER.models_wf sx st -> EP.es_models st = EP.MSem cst None ->
  (exists y, PvDefs.pv_run_from (EP.en_sx sx) cst (EP.es_rec st) 0 (EL.evs_of sx (EP.es_enabled st) oevs) = Ok y) ->
  emu_trace fuel sx st = oevs.
Proof.
  induction fuel as [|f IH]; intros sx st cst oevs Hp Hev Hwf Hms [y Hy].
  - cbn in Hp. discriminate.
  - cbn [PL.ploop] in Hp. cbn [emu_trace].
    destruct (PL.pstep true (EP.en_offs sx) (EP.es_player st)) as [|v|e pst'] eqn:Eps; cbv iota beta in Hp.
    + injection Hp as <-. rewrite (EL.emu_step_end sx st Eps). reflexivity.
    + injection Hp as _ Hv. exfalso. exact (EL.pstep_err_not_ok _ _ _ _ Eps Hv).
    + destruct (PL.ploop true (EP.en_offs sx) f pst') as [l v] eqn:El. injection Hp as <- ->.
      destruct (Hev e (or_introl eq_refl)) as [Hl Hm].
      destruct (EP.en_lpt sx (PL.o_id e)) as [who|] eqn:Elpt; [|congruence].
      rewrite (EL.emu_step_from_source sx st e pst' who cst Eps Elpt Hm Hwf Hms).
      cbn [EL.evs_of map] in Hy. rewrite EL.pv_run_from_iter in Hy. rewrite Z.sub_0_r in Hy.
      unfold EL.who_of at 1 in Hy. rewrite Elpt in Hy.
      destruct (ER.pv_iter (EP.en_sx sx) cst (EP.es_rec st) (PL.o_dclock e) who (ER.event_of sx (EP.es_enabled st) e)) as [[c1 r1]|x];
        [|discriminate].
      cbn [Z.eqb]. cbn [EP.es_pev EP.with_models EP.with_rec ER.delivered EP.with_cur EP.with_pev].
      f_equal.
      apply (IH sx _ c1 l); auto.
      * intros e' H. apply Hev. right. exact H.
      * exists y. exact Hy.
Qed.

(* the relation between the two preludes' player states *)
Definition PlayerRel (sx : EP.eenv) (est : EP.estate) (st : SP.pstate) : Prop :=
  SS.Sim true (EP.en_offs sx) st (EP.es_player est).

(* the loop: what the generated emu.c loop gets from player_step = what the generated player_step hands to emu_ev *)
Theorem emu_loop_delivers_player_loop fuel sx est st cst oevs :
  PlayerRel sx est st ->
  PL.ploop true (EP.en_offs sx) fuel (EP.es_player est) = (oevs, PL.VOk) ->
  (forall e, In e oevs -> EP.en_lpt sx (PL.o_id e) <> None /\ 0 <= ER.model_of sx e < 256) ->
  ER.models_wf sx est -> EP.es_models est = EP.MSem cst None ->
  (exists y, PvDefs.pv_run_from (EP.en_sx sx) cst (EP.es_rec est) 0 (EL.evs_of sx (EP.es_enabled est) oevs) = Ok y) ->
  map SS.model_clocks (emu_trace fuel sx est) = map SS.clocks_of (fst (SS.m_loop fuel st)).
Proof.
  intros R Hp Hev Hwf Hms Hy.
  rewrite (emu_trace_is_ploop fuel sx est cst oevs Hp Hev Hwf Hms Hy).
  destruct (SS.loop_sim true (EP.en_offs sx) fuel st (EP.es_player est) R) as [E _].
  rewrite E, Hp. reflexivity.
Qed.

(* the whole run, sorted mode: est holds the model player as player_init leaves it for the streams ss *)
Definition InitRel (sx : EP.eenv) (est : EP.estate) (ss : list PL.strm) : Prop :=
  EP.en_offs sx = map PL.s_off ss /\ PL.gate_ok ss = true /\
  exists h, PL.pinit true (map PL.s_off ss) 0 (map PL.s_evs ss) [] = inr h /\
            EP.es_player est = PL.mkpst h (map PL.s_evs ss) None None.

Lemma run_is_ploop sx est ss : InitRel sx est ss ->
  PL.run true ss = PL.ploop true (EP.en_offs sx) (S (PL.total_events ss)) (EP.es_player est).
Proof.
  intros (Ho & Hg & h & Hp & He). unfold PL.run. rewrite Hp, Hg, Ho, He. reflexivity.
Qed.

Theorem emu_loop_delivers_player_run sx est st0 ss cst :
  InitRel sx est ss -> SS.InitOk (map PL.s_off ss) st0 (map PL.s_evs ss) ->
  snd (PL.run true ss) = PL.VOk ->
  (forall e, In e (fst (PL.run true ss)) -> EP.en_lpt sx (PL.o_id e) <> None /\ 0 <= ER.model_of sx e < 256) ->
  ER.models_wf sx est -> EP.es_models est = EP.MSem cst None ->
  (exists y, PvDefs.pv_run_from (EP.en_sx sx) cst (EP.es_rec est) 0
               (EL.evs_of sx (EP.es_enabled est) (fst (PL.run true ss))) = Ok y) ->
  let fuel := S (PL.total_events ss) in
  emu_trace fuel sx est = fst (PL.run true ss) /\
  map SS.model_clocks (emu_trace fuel sx est) = map SS.clocks_of (fst (SS.m_run 0 fuel st0)).
Proof.
  intros IR IO Hv Hev Hwf Hms Hy fuel.
  pose proof (run_is_ploop sx est ss IR) as ER. fold fuel in ER.
  assert (Hp : PL.ploop true (EP.en_offs sx) fuel (EP.es_player est) = (fst (PL.run true ss), PL.VOk)).
  { rewrite <- ER, <- Hv. destruct (PL.run true ss); reflexivity. }
  assert (T : emu_trace fuel sx est = fst (PL.run true ss)) by (eapply emu_trace_is_ploop; eauto).
  split; [exact T|]. rewrite T.
  destruct (SS.run_from_source 0 st0 ss IO) as [E _]. fold fuel in E. cbn [Z.eqb] in E. symmetry. exact E.
Qed.
