(* The whole-emulator composition in two halves: everything up to the delivered raw events (`stage`), then PvDefs.emulate;
   and what an accepting `emulate` means for the emulator core alone (EmuCoreDefs.run). *)
From Coq Require Import ZArith List Bool Lia.
From OV Require Import Emu.EmuCoreDefs Emu.DecodeDefs Emu.MarkDefs Emu.PvDefs Emu.SysStaticDefs Emu.EmuAllDefs
  Proofs.PvProofs Proofs.EmuAllProofs.
From OV Require Emu.StreamDefs Emu.LoaderMetaDefs Emu.MetaDefs Emu.VersionDefs Emu.ClkoffDefs Emu.PlayerDefs Rt.RtMetaDefs Rt.MarkJsonDefs.
Import ListNotations.
Local Open Scope Z_scope.

(* everything before `emulate`: the system, the enabled models, the mark types and the raw events in delivery order *)
Definition stage (inp : trace_input) : reason + (MetaDefs.system * list Z * list mtype * list raw_ev) :=
  let ss := sorted_streams inp in
  match first_bad_meta ss ss with
  | Some p => inl (RMeta p)
  | None =>
    match load_all ss with
    | inl p => inl (RStream p)
    | inr recss =>
      match MetaDefs.build (map si_smeta ss) with
      | MetaDefs.Ok sys =>
        match enabled_models ss (in_all inp) with
        | None => inl RModels
        | Some en =>
          match MarkJsonDefs.emu_types_of_trees (map si_json (streams_by_gindex sys ss)) with
          | None => inl RMarks
          | Some ms =>
            let enum := map (fun sr : stream_in * list (Z * Z * Z) =>
                         (si_path (fst sr),
                          ClkoffDefs.mktstrm (MetaDefs.s_loom (si_smeta (fst sr)))
                            (map (fun ir : Z * (Z * Z * Z) => (snd (snd ir), fst ir)) (number (snd sr))))) (combine ss recss) in
            match ClkoffDefs.run_emu_table (in_clkoff inp) enum with
            | ClkoffDefs.OOk (oevs, PlayerDefs.VOk) =>
              match all_some (map (fun e : PlayerDefs.oev =>
                            match nth_error ss (PlayerDefs.o_id e), nth_error recss (PlayerDefs.o_id e) with
                            | Some s, Some recs =>
                              match gindex_of sys s with
                              | Some who => raw_event_of (in_gids inp) s recs who (PlayerDefs.o_sclock e) (PlayerDefs.o_pay e)
                              | None => None
                              end
                            | _, _ => None
                            end) oevs) with
              | None => inl RInternal
              | Some revs => inr (sys, en, ms, revs)
              end
            | ClkoffDefs.OOk (_, _) => inl RPlayer
            | _ => inl RClock
            end
          end
        end
      | _ => inl RMerge
      end
    end
  end.

Definition stage_sx (inp : trace_input) (sys : MetaDefs.system) (en : list Z) (ms : list mtype) : static :=
  static_of_system sys (rank_of_metas (map si_smeta (sorted_streams inp))) en ms (in_lint inp).

Definition stage_emulate (inp : trace_input) (sys : MetaDefs.system) (en : list Z) (ms : list mtype) (revs : list raw_ev) : result outfiles :=
  let sx := stage_sx inp sys en ms in
  emulate sx (sys_phy sys) en ms (lint_chans (mk_chans en)) (tlabels_of sx revs) (decode_revs en sx revs).

Theorem model_is_stage_then_emulate inp :
  ovniemu_model inp =
  match stage inp with
  | inl w => Refused w
  | inr (sys, en, ms, revs) => match stage_emulate inp sys en ms revs with Ok out => Files out | Err e => Refused (REmu e) end
  end.
Proof.
  unfold ovniemu_model, stage, stage_emulate, stage_sx, decode_revs. set (ss := sorted_streams inp).
  destruct (first_bad_meta ss ss); [reflexivity|]. destruct (load_all ss) as [p|recss]; [reflexivity|].
  destruct (MetaDefs.build (map si_smeta ss)) as [sys| |]; try reflexivity.
  destruct (enabled_models ss (in_all inp)) as [en|]; [|reflexivity].
  destruct (MarkJsonDefs.emu_types_of_trees _) as [ms|]; [|reflexivity].
  match goal with |- context [ClkoffDefs.run_emu_table ?t ?e] => destruct (ClkoffDefs.run_emu_table t e) as [[oevs v]| |] end; try reflexivity.
  destruct v; try reflexivity.
  match goal with |- context [all_some ?l] => destruct (all_some l) as [revs|] end; reflexivity.
Qed.

(* an accepting `emulate` is an accepting run of the emulator core on the same events (the writer can only refuse more) *)
Theorem emulate_core_ok sx phy en ms lc tl evs out : emulate sx phy en ms lc tl evs = Ok out -> exists ls, EmuCoreDefs.run sx lc evs = Ok ls.
Proof.
  unfold emulate. intros H. apply bindr_ok in H as (r0 & _ & H).
  destruct (pv_run_from sx (init sx) r0 (ev_t0 evs) evs) as [[st r1]|] eqn:Er; [|discriminate].
  destruct (pv_run_state _ _ _ _ _ _ _ Er) as [tlines Rn]. unfold EmuCoreDefs.run. rewrite Rn.
  destruct (negb (all_dead st)); [discriminate|]. destruct (s_lint sx && negb (lint_ok sx lc st)); [discriminate|]. eauto.
Qed.

(* ------------------------------------------------------------------ C12 on the whole trace, direct form *)
From OV Require Emu.CatalogDefs Emu.RejectDefs Proofs.RejectProofs.

Definition rev_unknown (r : raw_ev) : Prop :=
  let '(_, _, (m, c, v), _, _, _) := r in
  CatalogDefs.listed m c v = false /\ CatalogDefs.legacy m c v = false /\ CatalogDefs.value_blind m c = false.
Definition rev_wrong_size (r : raw_ev) : Prop :=
  let '(_, _, (m, c, v), p, j, _) := r in RejectDefs.wrong_size m c v (length p) j = true.

Theorem unknown_or_bad_payload_refused inp sys en ms revs r : stage inp = inr (sys, en, ms, revs) -> In r revs ->
  rev_unknown r \/ rev_wrong_size r -> exists e, ovniemu_model inp = Refused (REmu e).
Proof.
  intros S Hin B. rewrite model_is_stage_then_emulate, S. destruct (stage_emulate inp sys en ms revs) as [out|e] eqn:E; [exfalso|eauto].
  unfold stage_emulate in E. apply emulate_core_ok in E as [ls R].
  apply in_split in Hin as (l1 & l2 & ->). unfold decode_revs in R. rewrite map_app in R. cbn [map] in R.
  destruct r as [[[[[tm who] [[m c] v]] p] j] aux].
  destruct B as [(B1 & B2 & B3)|B].
  - match type of R with run _ _ (?pre ++ _ :: ?rest) = _ =>
      destruct (RejectProofs.unknown_event_never_ok (stage_sx inp sys en ms) (lint_chans (mk_chans en)) en (s_chans (stage_sx inp sys en ms)) m c v p j aux
                  pre tm who rest B1 B2 B3) as [w W] end. rewrite W in R. discriminate.
  - match type of R with run _ _ (?pre ++ _ :: ?rest) = _ =>
      destruct (RejectProofs.wrong_payload_size_never_ok (stage_sx inp sys en ms) (lint_chans (mk_chans en)) en (s_chans (stage_sx inp sys en ms)) m c v p j aux
                  pre tm who rest B) as [w W] end. rewrite W in R. discriminate.
Qed.

Lemma load_all_nth ss : forall recss k s recs, load_all ss = inr recss -> nth_error ss k = Some s -> nth_error recss k = Some recs ->
  StreamDefs.run (si_obs s) junk0 false = StreamDefs.Run StreamDefs.VEnd recs.
Proof.
  induction ss as [|x ss IH]; intros recss k s recs El Es Ec; [destruct k; discriminate|].
  cbn [load_all] in El. destruct (StreamDefs.run (si_obs x) junk0 false) as [er|v rc] eqn:Rx; [discriminate|]. destruct v; try discriminate.
  destruct (load_all ss) as [p|l] eqn:Ell; [discriminate|]. injection El as <-. destruct k as [|k]; cbn [nth_error] in Es, Ec.
  - injection Es as <-. injection Ec as <-. exact Rx.
  - exact (IH l k s recs eq_refl Es Ec).
Qed.

(* where the delivered events come from: event number idx of stream number id (in path order), as emu_ev decodes it *)
Theorem stage_events_are_stream_records inp sys en ms revs : stage inp = inr (sys, en, ms, revs) ->
  forall r, In r revs -> exists id s recs who tm idx, nth_error (sorted_streams inp) id = Some s /\
    StreamDefs.run (si_obs s) junk0 false = StreamDefs.Run StreamDefs.VEnd recs /\ gindex_of sys s = Some who /\
    raw_event_of (in_gids inp) s recs who tm idx = Some r.
Proof.
  unfold stage. set (ss := sorted_streams inp).
  destruct (first_bad_meta ss ss); [discriminate|]. destruct (load_all ss) as [p|recss] eqn:El; [discriminate|].
  destruct (MetaDefs.build (map si_smeta ss)) as [sys0| |]; try discriminate.
  destruct (enabled_models ss (in_all inp)) as [en0|]; [|discriminate].
  destruct (MarkJsonDefs.emu_types_of_trees _) as [ms0|]; [|discriminate].
  match goal with |- context [ClkoffDefs.run_emu_table ?t ?e] => destruct (ClkoffDefs.run_emu_table t e) as [[oevs v]| |] end; try discriminate.
  destruct v; try discriminate.
  match goal with |- context [all_some ?l] => destruct (all_some l) as [revs0|] eqn:Er end; [|discriminate].
  intros H. injection H as <- <- <- <-. intros r Hr. apply all_some_forall2 in Er.
  assert (G : forall (l : list PlayerDefs.oev) rs, Forall2 (fun e x => (fun e : PlayerDefs.oev =>
                match nth_error ss (PlayerDefs.o_id e), nth_error recss (PlayerDefs.o_id e) with
                | Some s, Some recs => match gindex_of sys0 s with Some who => raw_event_of (in_gids inp) s recs who (PlayerDefs.o_sclock e) (PlayerDefs.o_pay e) | None => None end
                | _, _ => None end) e = Some x) l rs -> In r rs -> exists e, In e l /\
                match nth_error ss (PlayerDefs.o_id e), nth_error recss (PlayerDefs.o_id e) with
                | Some s, Some recs => match gindex_of sys0 s with Some who => raw_event_of (in_gids inp) s recs who (PlayerDefs.o_sclock e) (PlayerDefs.o_pay e) | None => None end
                | _, _ => None end = Some r).
  { induction 1 as [|e x l rs Hx _ IH]; intros Hi; [contradiction|]. destruct Hi as [<-|Hi]; [exists e; split; [now left|exact Hx]|].
    destruct (IH Hi) as (e' & He' & X). exists e'. split; [now right|exact X]. }
  destruct (G _ _ Er Hr) as (e & _ & X).
  destruct (nth_error ss (PlayerDefs.o_id e)) as [s|] eqn:Es; [|discriminate]. destruct (nth_error recss (PlayerDefs.o_id e)) as [recs|] eqn:Ec; [|discriminate].
  destruct (gindex_of sys0 s) as [who|] eqn:Eg; [|discriminate].
  exists (PlayerDefs.o_id e), s, recs, who, (PlayerDefs.o_sclock e), (PlayerDefs.o_pay e). split; [exact Es|]. split; [|split; [exact Eg|exact X]].
  exact (load_all_nth ss recss _ s recs El Es Ec).
Qed.

(* ------------------------------------------------------------------ C04 on the whole trace *)
From OV Require Import Emu.ThreadSpecDefs Proofs.EmuCoreWf Proofs.TotalProofs.

(* accepted => every stage passed and the merged history follows the documented machine *)
Theorem all_accept_only_if inp out : ovniemu_model inp = Files out ->
  exists sys en ms revs, stage inp = inr (sys, en, ms, revs) /\ stage_emulate inp sys en ms revs = Ok out /\
    forall h, decode_revs en (stage_sx inp sys en ms) revs = oh_events h ->
      types_ok (stage_sx inp sys en ms) -> any_init_ok (stage_sx inp sys en ms) -> OhStatic (stage_sx inp sys en ms) ->
      spec_accepts (stage_sx inp sys en ms) (untimed h) = true.
Proof.
  intros H. rewrite model_is_stage_then_emulate in H. destruct (stage inp) as [w|[[[sys en] ms] revs]]; [discriminate|].
  destruct (stage_emulate inp sys en ms revs) as [o|e] eqn:E; [|discriminate]. injection H as <-.
  exists sys, en, ms, revs. split; [reflexivity|]. split; [exact E|]. intros h Eh T A O.
  unfold stage_emulate in E. apply emulate_core_ok in E as [ls R]. rewrite Eh in R.
  rewrite <- (run_accepts_iff_spec _ (lint_chans (mk_chans en)) h T A O). now rewrite R.
Qed.

(* the writer accepts whatever the core accepts: the one link of the "if" direction that is not proved *)
Definition writer_follows (inp : trace_input) (sys : MetaDefs.system) (en : list Z) (ms : list mtype) (revs : list raw_ev) : Prop :=
  forall ls, EmuCoreDefs.run (stage_sx inp sys en ms) (lint_chans (mk_chans en)) (decode_revs en (stage_sx inp sys en ms) revs) = Ok ls ->
    exists out, stage_emulate inp sys en ms revs = Ok out.

Theorem all_accept_iff_partial inp sys en ms revs h : stage inp = inr (sys, en, ms, revs) ->
  decode_revs en (stage_sx inp sys en ms) revs = oh_events h ->
  types_ok (stage_sx inp sys en ms) -> any_init_ok (stage_sx inp sys en ms) -> OhStatic (stage_sx inp sys en ms) ->
  ((exists out, ovniemu_model inp = Files out) -> spec_accepts (stage_sx inp sys en ms) (untimed h) = true) /\
  (writer_follows inp sys en ms revs -> spec_accepts (stage_sx inp sys en ms) (untimed h) = true -> exists out, ovniemu_model inp = Files out).
Proof.
  intros S Eh T A O. split.
  - intros [out H]. destruct (all_accept_only_if inp out H) as (sys' & en' & ms' & revs' & S' & _ & X). rewrite S in S'. injection S' as <- <- <- <-.
    now apply X.
  - intros W Sp. rewrite <- (run_accepts_iff_spec _ (lint_chans (mk_chans en)) h T A O) in Sp.
    destruct (EmuCoreDefs.run (stage_sx inp sys en ms) (lint_chans (mk_chans en)) (oh_events h)) as [ls|] eqn:R; [|discriminate].
    rewrite <- Eh in R. destruct (W ls R) as [out E]. exists out. now rewrite model_is_stage_then_emulate, S, E.
Qed.

(* when `stage` refuses, the emulator refuses: the gates / loader / merge / probe / marks / clock table / player half of the iff *)
Theorem stage_refusal_refuses inp w : stage inp = inl w -> ovniemu_model inp = Refused w.
Proof. intros S. now rewrite model_is_stage_then_emulate, S. Qed.
